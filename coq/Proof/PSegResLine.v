(* C03, response direction: RES_IDLE on the first chunk, RES_LINE cut anywhere (including between the CR and the LF of the
   status line), the state change into RES_HEADERS. *)
Require Import Htp.Model.Base Htp.Model.MBstr Htp.Model.MConnTypes Htp.Model.MTxCommon Htp.Model.MResLine Htp.Model.MTxRes.
Require Import Htp.Model.MReq Htp.Model.MRes Htp.Model.MConnp.
Require Import Htp.Spec.SWire Htp.Proof.PWire Htp.Proof.PWireHdr Htp.Proof.PWireBlock Htp.Proof.PWireConn Htp.Proof.PWireExch.
Require Import Htp.Proof.PWireRun Htp.Proof.PWirePres Htp.Proof.PWireGlue Htp.Proof.PSeg Htp.Proof.PSegLine Htp.Proof.PSegHdr Htp.Proof.PSegRes.

(* ---- bytes that are neither CR nor LF ---- *)
Lemma sr_plain_app a b : sr_plain (a ++ b) = sr_plain a && sr_plain b. Proof. apply forallb_app. Qed.
Lemma sr_plain_cons b s : sr_plain (b :: s) = true -> (b =? CR)%N = false /\ (b =? LF)%N = false /\ sr_plain s = true.
Proof.
  unfold sr_plain. cbn [forallb]. intros H. apply andb_prop in H. destruct H as [H1 H2]. unfold wr_value_byte in H1. apply andb_prop in H1. destruct H1 as [A B].
  apply negb_true_iff in A. apply negb_true_iff in B. repeat split; assumption.
Qed.
Lemma sr_plain_no_lf s : sr_plain s = true -> sg_no_lf s = true.
Proof. unfold sr_plain, sg_no_lf. apply wr_forallb_impl. intros x Hx. unfold wr_value_byte in Hx. apply andb_prop in Hx. apply Hx. Qed.

(* ---- the status line of the grammar, with a reason phrase free of CR and LF ---- *)
Definition sr_status_ok (p s r : bytes) : bool := wr_wf_status_line p s r && sr_plain r.

Lemma sr_digit_plain b : wr_digit b = true -> wr_value_byte b = true.
Proof.
  intros H. destruct (wr_digit_facts b H) as [A B]. unfold wr_value_byte. destruct (b =? CR)%N eqn:E1; [apply N.eqb_eq in E1; subst b; discriminate|].
  destruct (b =? LF)%N eqn:E2; [apply N.eqb_eq in E2; subst b; discriminate|]. reflexivity.
Qed.
Lemma sr_status_line_shape p s r : sr_status_ok p s r = true ->
  sr_plain (wr_ser_status_line p s r) = true /\
  exists l, wr_ser_status_line p s r = 72%N :: 84%N :: 84%N :: 80%N :: l.
Proof.
  unfold sr_status_ok, wr_wf_status_line. intros H. apply andb_prop in H. destruct H as [H Pr]. apply andb_prop in H. destruct H as [H Wr]. apply andb_prop in H. destruct H as [Wp Ws].
  assert (Ps : sr_plain s = true).
  { unfold wr_status_ok in Ws. destruct s as [|a [|b [|c [|? ?]]]]; try discriminate. apply andb_prop in Ws. destruct Ws as [Ws Wc]. apply andb_prop in Ws. destruct Ws as [Ws Wb].
    apply andb_prop in Ws. destruct Ws as [Wa1 Wa2].
    assert (Wa : wr_digit a = true). { unfold wr_digit. apply N.leb_le in Wa1. rewrite Wa2, andb_true_r. apply N.leb_le. lia. }
    unfold sr_plain. cbn [forallb]. rewrite (sr_digit_plain a Wa), (sr_digit_plain b Wb), (sr_digit_plain c Wc). reflexivity. }
  destruct (wr_protocol_cases p Wp) as [E|E]; subst p.
  - split; [unfold wr_ser_status_line; rewrite !sr_plain_app, Ps, Pr; reflexivity|]. eexists. reflexivity.
  - split; [unfold wr_ser_status_line; rewrite !sr_plain_app, Ps, Pr; reflexivity|]. eexists. reflexivity.
Qed.

(* a line that starts with a non-space byte and has at least two bytes before its CR LF is not ignorable *)
Lemma sr_line_not_terminator pers x y l nx : c_isspace x = false -> rs_is_line_terminator pers (x :: y :: l ++ [CR; LF]) nx = false.
Proof.
  intros Hx. unfold rs_is_line_terminator, rs_is_line_whitespace. cbn [forallb]. rewrite Hx. cbn [andb]. rewrite andb_false_r.
  destruct l as [|z l]; reflexivity.
Qed.
Lemma sr_line_not_body l : rs_treat_response_line_as_body (Some (72%N :: 84%N :: 84%N :: 80%N :: l)) = false.
Proof.
  unfold rs_treat_response_line_as_body.
  assert (E : rs_fwd_while (fun b => htp_is_space b || (b =? 0)%N) (72%N :: 84%N :: 84%N :: 80%N :: l) 0 = 0%nat).
  { unfold rs_fwd_while. cbn [length Nat.sub]. cbn [rs_fwd]. reflexivity. }
  rewrite E. cbn [length Nat.add]. reflexivity.
Qed.

Section Line.
Variable cb : cb_oracle.
Variable g : cfg.
Hypothesis Hcb : wr_all_ok cb.

(* ---- RES_IDLE on the first chunk: the response is matched to transaction 0 ---- *)
Record sr_idle (c : connp) (d : bytes) (t : tx) : Prop := mk_sr_idle {
  rd_status : sg_live (c_out_status c);
  rd_state : c_out_state c = RES_IDLE;
  rd_prev : c_out_state_previous c = None;
  rd_data : k_data (c_out c) = Some d;
  rd_len : k_len (c_out c) = length d;
  rd_read : k_read (c_out c) = 0%nat;
  rd_cons : k_consume (c_out c) = 0%nat;
  rd_buf : k_buf (c_out c) = None;
  rd_hdr : k_header (c_out c) = None;
  rd_rh : k_receiver_hook (c_out c) = None;
  rd_rcv : k_receiver (c_out c) = 0%nat;
  rd_next : c_out_next_tx_index c = 0%nat;
  rd_txs : c_txs c = [Some t];
  rd_shift : c_txs_shifted c = 0%nat;
  rd_intx : c_in_tx c = None;
  rd_other : c_out_data_other_at_tx_end c = false }.

Definition sr_tx_start (t : tx) : tx := t <| t_response_progress := c_HTP_RESPONSE_LINE |>.

Lemma sr_pass_idle c d t : sr_idle c d t -> d <> [] -> t_is_protocol_0_9 t = false ->
  exists c', sr_iter cb g c = inr c' /\ sr_cin c' d 0 [] None RES_LINE (Some RES_LINE) None (sr_tx_start t).
Proof.
  intros [A1 A2 A3 A4 A5 A6 A7 A8 A9 A10 A11 A12 A13 A14 A15 A16] Hne H09.
  unfold sr_iter. rewrite A2. cbn [rs_state_fn]. unfold rs_RES_IDLE, rs_has_byte. rewrite A5, A6.
  assert (L : (0 <? length d)%nat = true) by (destruct d; [contradiction|reflexivity]). rewrite L. cbn [negb].
  rewrite A12, A13. cbn [nth_error]. rewrite A14. cbn [Nat.add].
  match goal with |- context [tx_state_response_start cb (out_txi ?x) ?x] => set (c1 := x) end.
  change (out_txi c1) with 0%nat. unfold tx_state_response_start. rewrite (wr_run_hook cb Hcb).
  match goal with |- context [tx_get ?x 0%nat] => set (c2 := x) end.
  assert (S2 : tx_slot c2 0 = Some t) by (unfold tx_slot; change (c_txs_shifted c2) with (c_txs_shifted c); change (c_txs c2) with (c_txs c); rewrite A14, A13; reflexivity).
  unfold tx_get. rewrite S2, H09.
  set (c2' := c2 <| c_out_state := RES_LINE |>).
  assert (S2' : tx_slot c2' 0 = Some t) by exact S2.
  rewrite (wr_tx_upd_ok c2' 0 t _ S2').
  assert (X2 : c_txs c2' = [Some t]) by exact A13.
  assert (Y2 : c_txs_shifted c2' = 0%nat) by exact A14.
  rewrite (wr_tx_put0 c2' t _ X2 Y2).
  match goal with |- context [rs_handle_state_change cb ?x] => set (c3 := x) end.
  change (c_out_status c3) with (c_out_status c). rewrite (sg_live_tunnel _ A1).
  unfold rs_handle_state_change. change (c_out_state_previous c3) with (c_out_state_previous c). rewrite A3.
  change (c_out_state c3) with RES_LINE. cbn [res_state_eqb].
  eexists. split; [reflexivity|].
  constructor; try assumption; try reflexivity.
  all: cbn; rewrite ?A6, ?A7, ?A8, ?A11; try reflexivity; lia.
Qed.

(* ---- RES_LINE: one byte that is neither CR nor LF ---- *)
Lemma sr_line_loop_S f c : rs_line_loop cb g (S f) c =
    match (if negb (rs_closed c) then rs_copy_byte c else Some c) with
    | None => (ST_DATA_BUFFER, c)
    | Some c =>
      let '(act, c) :=
        if rs_nb_is c CR then
          let c := rs_peek_next c in
          match rs_nb c with
          | None => (0%nat, c)
          | Some b => if (b =? LF)%N then (1%nat, c)
                      else (2%nat, rs_set_out (fun k => k <| k_next_byte := Some LF |>) c)
          end
        else (2%nat, c) in
      match act with
      | 0%nat => (ST_DATA_BUFFER, c)
      | 1%nat => rs_line_loop cb g f c
      | _ => if rs_nb_is c LF || rs_closed c then rs_line_complete cb g c else rs_line_loop cb g f c
      end
    end.
Proof. reflexivity. Qed.
Lemma sr_line_loop_plain c d rd p hdr prev rh t b n : sr_cin c d rd p hdr RES_LINE prev rh t -> nth_error d rd = Some b ->
  (b =? CR)%N = false -> (b =? LF)%N = false ->
  rs_line_loop cb g (S n) c = rs_line_loop cb g n (rs_set_out (wr_kadv b) c).
Proof.
  intros H Hn H1 H2. pose proof H as [A1 A2 A3 A4 A5 A6 A7 A8 A9 A10 A11 A12 A13 A14 A15 A16 A17].
  rewrite sr_line_loop_S. unfold rs_closed. rewrite (sg_live_closed _ A1). cbn [negb].
  assert (Hn0 : nth_error d (k_read (c_out c)) = Some b) by (rewrite A6; exact Hn).
  rewrite (sr_copy_byte c d b A4 A5 Hn0).
  set (c1 := rs_set_out (wr_kadv b) c).
  assert (N1 : rs_nb_is c1 CR = false) by (unfold rs_nb_is, rs_nb; cbn; exact H1). rewrite N1.
  assert (N2 : rs_nb_is c1 LF = false) by (unfold rs_nb_is, rs_nb; cbn; exact H2). rewrite N2.
  change (c_out_status c1) with (c_out_status c). rewrite (sg_live_closed _ A1). reflexivity.
Qed.
Lemma sr_line_scan_plain d hdr prev rh t : forall s c rd p n r,
  sr_cin c d rd p hdr RES_LINE prev rh t -> skipn rd d = s ++ r -> sr_plain s = true ->
  exists c', rs_line_loop cb g (length s + n) c = rs_line_loop cb g n c' /\
             sr_cin c' d (rd + length s) (p ++ s) hdr RES_LINE prev rh t /\ skipn (rd + length s) d = r.
Proof.
  induction s as [|b s IH]; intros c rd p n r H Hu Hp.
  - exists c. cbn [length Nat.add app] in *. rewrite Nat.add_0_r, app_nil_r. split; [reflexivity|]. split; assumption.
  - cbn [app] in Hu. destruct (sg_skipn_cons d rd b _ Hu) as (Hnth & Hu' & Hlt).
    destruct (sr_plain_cons b s Hp) as (H1 & H2 & Hp').
    cbn [length Nat.add]. rewrite (sr_line_loop_plain c d rd p hdr prev rh t b _ H Hnth H1 H2).
    destruct (IH (rs_set_out (wr_kadv b) c) (S rd) (p ++ [b]) n r (sr_cin_adv _ _ _ _ _ _ _ _ _ b H Hnth) Hu' Hp') as (c' & E & H' & Hr').
    exists c'. split; [exact E|]. replace (rd + S (length s))%nat with (S rd + length s)%nat by lia. rewrite <- app_assoc in H'. split; assumption.
Qed.

(* the chunk ends: nothing left, or a CR whose successor is not there yet *)
Lemma sr_line_loop_end c d p hdr prev rh t n : sr_cin c d (length d) p hdr RES_LINE prev rh t ->
  rs_line_loop cb g (S n) c = (ST_DATA_BUFFER, c).
Proof.
  intros [A1 A2 A3 A4 A5 A6 A7 A8 A9 A10 A11 A12 A13 A14 A15 A16 A17].
  rewrite sr_line_loop_S. unfold rs_closed. rewrite (sg_live_closed _ A1). cbn [negb]. rewrite (sr_copy_none c d A5 A6). reflexivity.
Qed.
Lemma sr_line_loop_cr_end c d rd p hdr prev rh t n : sr_cin c d rd p hdr RES_LINE prev rh t -> skipn rd d = [CR] ->
  exists c', rs_line_loop cb g (S n) c = (ST_DATA_BUFFER, c') /\ sr_cin c' d (length d) (p ++ [CR]) hdr RES_LINE prev rh t.
Proof.
  intros H Hu. destruct (sg_skipn_cons d rd CR _ Hu) as (Hnth & Hu' & Hlt). pose proof (sg_skipn_nil _ _ Hu') as Hl.
  pose proof H as [A1 A2 A3 A4 A5 A6 A7 A8 A9 A10 A11 A12 A13 A14 A15 A16 A17].
  assert (Erd : S rd = length d) by lia.
  rewrite sr_line_loop_S. unfold rs_closed. rewrite (sg_live_closed _ A1). cbn [negb].
  assert (Hn0 : nth_error d (k_read (c_out c)) = Some CR) by (rewrite A6; exact Hnth).
  rewrite (sr_copy_byte c d CR A4 A5 Hn0).
  set (c1 := rs_set_out (wr_kadv CR) c).
  assert (H1 : sr_cin c1 d (S rd) (p ++ [CR]) hdr RES_LINE prev rh t) by (apply sr_cin_adv; assumption).
  assert (N1 : rs_nb_is c1 CR = true) by reflexivity. rewrite N1.
  rewrite (sr_peek c1 d (ri_data _ _ _ _ _ _ _ _ _ H1) (ri_len _ _ _ _ _ _ _ _ _ H1)), (ri_read _ _ _ _ _ _ _ _ _ H1).
  assert (Nn : nth_error d (S rd) = None) by (apply nth_error_None; lia). rewrite Nn.
  eexists. split; [reflexivity|]. apply sr_cin_next. rewrite <- Erd. exact H1.
Qed.
(* CR LF in the chunk, or the LF alone when the CR came with an earlier chunk: the line is complete *)
Lemma sr_line_loop_crlf c d rd p hdr prev rh t n u2 : sr_cin c d rd p hdr RES_LINE prev rh t -> skipn rd d = CR :: LF :: u2 ->
  exists c', rs_line_loop cb g (S (S n)) c = rs_line_complete cb g c' /\
             sr_cin c' d (S (S rd)) (p ++ [CR; LF]) hdr RES_LINE prev rh t /\ skipn (S (S rd)) d = u2.
Proof.
  intros H Hu. destruct (sg_skipn_cons d rd CR _ Hu) as (Hnth & Hu' & Hlt). destruct (sg_skipn_cons d (S rd) LF _ Hu') as (Hnth2 & Hu2 & Hlt2).
  pose proof H as [A1 A2 A3 A4 A5 A6 A7 A8 A9 A10 A11 A12 A13 A14 A15 A16 A17].
  rewrite sr_line_loop_S. unfold rs_closed. rewrite (sg_live_closed _ A1). cbn [negb].
  assert (Hn0 : nth_error d (k_read (c_out c)) = Some CR) by (rewrite A6; exact Hnth).
  rewrite (sr_copy_byte c d CR A4 A5 Hn0).
  set (c1 := rs_set_out (wr_kadv CR) c).
  assert (H1 : sr_cin c1 d (S rd) (p ++ [CR]) hdr RES_LINE prev rh t) by (apply sr_cin_adv; assumption).
  assert (N1 : rs_nb_is c1 CR = true) by reflexivity. rewrite N1.
  rewrite (sr_peek c1 d (ri_data _ _ _ _ _ _ _ _ _ H1) (ri_len _ _ _ _ _ _ _ _ _ H1)), (ri_read _ _ _ _ _ _ _ _ _ H1), Hnth2.
  set (c2 := rs_set_out (fun k => k <| k_next_byte := Some LF |>) c1).
  assert (H2 : sr_cin c2 d (S rd) (p ++ [CR]) hdr RES_LINE prev rh t) by (apply sr_cin_next; exact H1).
  change (rs_nb c2) with (Some LF). cbv beta iota. rewrite N.eqb_refl. cbv beta iota.
  rewrite sr_line_loop_S. unfold rs_closed.
  change (c_out_status c2) with (c_out_status c). rewrite (sg_live_closed _ A1). cbn [negb].
  assert (Hn2 : nth_error d (k_read (c_out c2)) = Some LF) by (rewrite (ri_read _ _ _ _ _ _ _ _ _ H2); exact Hnth2).
  rewrite (sr_copy_byte c2 d LF (ri_data _ _ _ _ _ _ _ _ _ H2) (ri_len _ _ _ _ _ _ _ _ _ H2) Hn2).
  set (c3 := rs_set_out (wr_kadv LF) c2).
  assert (N3 : rs_nb_is c3 CR = false) by reflexivity. rewrite N3.
  assert (N4 : rs_nb_is c3 LF = true) by reflexivity. rewrite N4. cbn [orb].
  exists c3. split; [reflexivity|]. split; [|exact Hu2].
  replace (p ++ [CR; LF]) with ((p ++ [CR]) ++ [LF]) by (rewrite <- app_assoc; reflexivity). apply sr_cin_adv; assumption.
Qed.
Lemma sr_line_loop_lf c d rd p hdr prev rh t n u2 : sr_cin c d rd p hdr RES_LINE prev rh t -> skipn rd d = LF :: u2 ->
  exists c', rs_line_loop cb g (S n) c = rs_line_complete cb g c' /\
             sr_cin c' d (S rd) (p ++ [LF]) hdr RES_LINE prev rh t /\ skipn (S rd) d = u2.
Proof.
  intros H Hu. destruct (sg_skipn_cons d rd LF _ Hu) as (Hnth & Hu' & Hlt).
  pose proof H as [A1 A2 A3 A4 A5 A6 A7 A8 A9 A10 A11 A12 A13 A14 A15 A16 A17].
  rewrite sr_line_loop_S. unfold rs_closed. rewrite (sg_live_closed _ A1). cbn [negb].
  assert (Hn0 : nth_error d (k_read (c_out c)) = Some LF) by (rewrite A6; exact Hnth).
  rewrite (sr_copy_byte c d LF A4 A5 Hn0).
  set (c1 := rs_set_out (wr_kadv LF) c).
  assert (N1 : rs_nb_is c1 CR = false) by reflexivity. rewrite N1.
  assert (N2 : rs_nb_is c1 LF = true) by reflexivity. rewrite N2. cbn [orb].
  exists c1. split; [reflexivity|]. split; [apply sr_cin_adv; assumption|exact Hu'].
Qed.

(* ---- the status line is complete: htp_connp_RES_LINE's tail on the assembled line ---- *)
(* what htp_tx_state_response_line does to the transaction before its hook *)
Definition sr_line_fix (t : tx) : tx :=
  let t := if (t_response_protocol_number t =? c_HTP_PROTOCOL_INVALID)%Z
           then t <| t_flags := flag_set (t_flags t) c_HTP_STATUS_LINE_INVALID |> else t in
  if (t_response_status_number t =? c_HTP_STATUS_INVALID)%Z
     || (t_response_status_number t <? c_HTP_VALID_STATUS_MIN)%Z
     || (c_HTP_VALID_STATUS_MAX <? t_response_status_number t)%Z
  then t <| t_response_status_number := c_HTP_STATUS_INVALID |>
         <| t_flags := flag_set (t_flags t) c_HTP_STATUS_LINE_INVALID |>
  else t.
Definition sr_tx_line (t : tx) (line : bytes) : tx :=
  sr_line_fix (rs_apply_response_line (rs_parse_response_line line)
    ((t <| t_response_line := None |> <| t_response_protocol := None |> <| t_response_status := None |> <| t_response_message := None |>)
       <| t_response_line := Some line |>)).
(* the transaction when the header block starts *)
Definition sr_th0 (t : tx) (line : bytes) : tx := (sr_tx_line (sr_tx_start t) line) <| t_response_progress := c_HTP_RESPONSE_HEADERS |>.

Lemma sr_line_complete c d rd prev t ps s r : sr_status_ok ps s r = true ->
  sr_cin c d rd (wr_ser_status_line ps s r ++ [CR; LF]) None RES_LINE prev None t ->
  (length (wr_ser_status_line ps s r) + 2 <= g_field_limit_hard g)%nat ->
  exists c', rs_line_complete cb g c = (ST_OK, c') /\
             sr_cin c' d rd [] None RES_HEADERS prev None ((sr_tx_line t (wr_ser_status_line ps s r)) <| t_response_progress := c_HTP_RESPONSE_HEADERS |>).
Proof.
  intros W H Hlim. set (line := wr_ser_status_line ps s r) in *.
  destruct (sr_status_line_shape ps s r W) as (Pl & l & Esh). fold line in Pl, Esh.
  unfold rs_line_complete, sr_tx_line.
  destruct (sr_consolidate g c d rd _ None _ _ _ t H) as (c1 & E1 & H1); [rewrite app_length; cbn [length sg_olist]; lia|]. rewrite E1.
  cbn [rs_dbytes].
  assert (Ig : rs_is_line_ignorable (g_personality g) (line ++ [CR; LF]) = false).
  { unfold rs_is_line_ignorable. rewrite Esh. cbn [app]. destruct l as [|y l'].
    - reflexivity || (unfold rs_is_line_terminator, rs_is_line_whitespace; cbn [forallb app]; rewrite andb_false_r; reflexivity).
    - change (72%N :: 84%N :: 84%N :: 80%N :: (y :: l') ++ [CR; LF]) with (72%N :: 84%N :: ((84%N :: 80%N :: y :: l') ++ [CR; LF])).
      apply sr_line_not_terminator. reflexivity. }
  rewrite Ig.
  assert (Lp : wr_last_plain line) by (apply wr_plain_last; [rewrite Esh; discriminate|exact Pl]).
  pose proof (wr_rs_chomp_line line [CR; LF] eq_refl Lp) as Ech.
  destruct (rs_chomp (line ++ [CR; LF])) as [dc chr] eqn:Ec. cbn [fst] in Ech. subst dc.
  assert (Nb : rs_treat_response_line_as_body (Some line) = false) by (rewrite Esh; apply sr_line_not_body). rewrite Nb.
  rewrite (sr_otx c1 d rd _ _ _ _ _ t _ H1).
  set (tr := t <| t_response_line := None |> <| t_response_protocol := None |> <| t_response_status := None |> <| t_response_message := None |>).
  set (c2 := c1 <| c_txs := [Some tr] |>).
  assert (H2 : sr_cin c2 d rd (line ++ [CR; LF]) None RES_LINE prev None tr) by (eapply sr_cin_txs; exact H1).
  rewrite (sr_otx c2 d rd _ _ _ _ _ tr _ H2).
  set (tp := rs_apply_response_line (rs_parse_response_line line) (tr <| t_response_line := Some line |>)).
  clearbody tp. set (c3 := c2 <| c_txs := [Some tp] |>).
  assert (H3 : sr_cin c3 d rd (line ++ [CR; LF]) None RES_LINE prev None tp) by (eapply sr_cin_txs; exact H2).
  assert (O3 : out_txi c3 = 0%nat) by (unfold out_txi; rewrite (ri_tx _ _ _ _ _ _ _ _ _ H3); reflexivity). rewrite O3.
  unfold tx_state_response_line. rewrite (sr_tx_upd0 c3 d rd _ _ _ _ _ tp _ H3). rewrite (wr_run_hook cb Hcb).
  fold (sr_line_fix tp).
  set (c4 := c3 <| c_txs := [Some (sr_line_fix tp)] |>).
  assert (H4 : sr_cin c4 d rd (line ++ [CR; LF]) None RES_LINE prev None (sr_line_fix tp)) by (eapply sr_cin_txs; exact H3).
  set (c5 := rs_set_state RES_HEADERS (rs_clear_buffer (wr_hook_ev H_RESPONSE_LINE 0 None false c4))).
  assert (H5 : sr_cin c5 d rd [] None RES_HEADERS prev None (sr_line_fix tp)).
  { unfold c5. eapply sr_cin_state. eapply sr_cin_clear. apply sr_cin_hook. exact H4. }
  rewrite (sr_otx c5 d rd _ _ _ _ _ _ _ H5).
  eexists. split; [reflexivity|]. eapply sr_cin_txs. exact H5.
Qed.

(* ---- the state change into RES_HEADERS (the raw-header receiver is installed) ---- *)
Lemma sr_iter_to_headers c c1 d rd t :
  rs_state_fn cb g (c_out_state c) c = (ST_OK, c1) -> sr_cin c1 d rd [] None RES_HEADERS (Some RES_LINE) None t ->
  t_response_progress t = c_HTP_RESPONSE_HEADERS ->
  exists c', sr_iter cb g c = inr c' /\ sr_cin c' d rd [] None RES_HEADERS (Some RES_HEADERS) (Some H_RESPONSE_HEADER_DATA) t.
Proof.
  intros E H Hp. pose proof H as [A1 A2 A3 A4 A5 A6 A7 A8 A9 A10 A11 A12 A13 A14 A15 A16 A17].
  unfold sr_iter. rewrite E. rewrite (sg_live_tunnel _ A1).
  unfold rs_handle_state_change. rewrite A3, A2. cbn [res_state_eqb].
  rewrite (sr_rs_tx c1 d rd _ _ _ _ _ t H), Hp, A13.
  change ((c_HTP_RESPONSE_HEADERS =? c_HTP_RESPONSE_HEADERS)%Z) with true. cbv iota.
  unfold res_receiver_set, res_receiver_finalize_clear. rewrite A11.
  eexists. split; [reflexivity|].
  constructor; try assumption; try reflexivity; cbn; rewrite ?A2, ?A6; try reflexivity; try assumption; lia.
Qed.

(* ---- the pass through RES_LINE that sees the end of the status line ---- *)
Lemma sr_pass_line c d p q u2 t ps s r : sr_status_ok ps s r = true ->
  sr_cin c d 0 p None RES_LINE (Some RES_LINE) None t -> d = q ++ u2 -> q <> [] ->
  p ++ q = wr_ser_status_line ps s r ++ [CR; LF] ->
  (length (wr_ser_status_line ps s r) + 2 <= g_field_limit_hard g)%nat ->
  exists c', sr_iter cb g c = inr c' /\
    sr_cin c' d (length q) [] None RES_HEADERS (Some RES_HEADERS) (Some H_RESPONSE_HEADER_DATA)
           ((sr_tx_line t (wr_ser_status_line ps s r)) <| t_response_progress := c_HTP_RESPONSE_HEADERS |>) /\
    skipn (length q) d = u2.
Proof.
  intros W H Ed Hq Ep Hlim. set (line := wr_ser_status_line ps s r) in *.
  destruct (sr_status_line_shape ps s r W) as (Pl & _). fold line in Pl.
  assert (Es : c_out_state c = RES_LINE) by apply (ri_state _ _ _ _ _ _ _ _ _ H).
  assert (Ef : rs_state_fn cb g (c_out_state c) c = rs_line_loop cb g (S (S (length d))) c).
  { rewrite Es. cbn [rs_state_fn]. unfold rs_RES_LINE, rs_bytes_fuel. rewrite (ri_len _ _ _ _ _ _ _ _ _ H), (ri_read _ _ _ _ _ _ _ _ _ H), Nat.sub_0_r. reflexivity. }
  (* q = q0 ++ [LF] with q0 = a plain part followed by CR, or empty *)
  assert (Eb : line ++ [CR; LF] = (line ++ [CR]) ++ [LF]) by (rewrite <- app_assoc; reflexivity).
  rewrite Eb in Ep. destruct (sg_app_last _ _ _ _ Ep Hq) as (q0 & Eq0 & Ep0).
  assert (Hcomp : exists c1, rs_line_loop cb g (S (S (length d))) c = rs_line_complete cb g c1 /\
                    sr_cin c1 d (length q) (line ++ [CR; LF]) None RES_LINE (Some RES_LINE) None t /\ skipn (length q) d = u2).
  { destruct q0 as [|z q0'] using rev_ind.
    - (* the CR came with an earlier chunk *)
      rewrite app_nil_r in Ep0. cbn [app] in Eq0. subst q.
      destruct (sr_line_loop_lf c d 0 p None _ None t (S (length d)) u2 H) as (c1 & E1 & H1 & R1); [cbn [skipn]; exact Ed|].
      exists c1. split; [exact E1|]. rewrite Ep0, <- app_assoc in H1. split; assumption.
    - clear IHq0'. rewrite app_assoc in Ep0. apply app_inj_tail in Ep0. destruct Ep0 as [Ep1 Ez]. subst z.
      assert (Pq : sr_plain q0' = true) by (rewrite <- Ep1, sr_plain_app in Pl; apply andb_prop in Pl; apply Pl).
      assert (Ed' : skipn 0 d = q0' ++ CR :: LF :: u2) by (cbn [skipn]; rewrite Ed, Eq0, <- !app_assoc; reflexivity).
      assert (Lq : length q = (length q0' + 2)%nat) by (rewrite Eq0, !app_length; cbn [length]; lia).
      assert (Ld : (length q <= length d)%nat) by (rewrite Ed, app_length; lia).
      replace (S (S (length d))) with (length q0' + S (S (length d - length q0')))%nat by lia.
      destruct (sr_line_scan_plain d None _ None t q0' c 0 p (S (S (length d - length q0'))) _ H Ed' Pq) as (c1 & E1 & H1 & R1). rewrite E1.
      destruct (sr_line_loop_crlf c1 d _ _ None _ None t (length d - length q0') u2 H1 R1) as (c2 & E2 & H2 & R2).
      exists c2. split; [exact E2|]. cbn [Nat.add] in H2, R2. rewrite Lq. replace (length q0' + 2)%nat with (S (S (length q0'))) by lia.
      split; [|exact R2]. rewrite <- Ep1, <- !app_assoc. rewrite <- app_assoc in H2. exact H2. }
  destruct Hcomp as (c1 & E1 & H1 & R1). rewrite E1 in Ef.
  destruct (sr_line_complete c1 d _ _ t ps s r W H1 Hlim) as (c2 & E2 & H2). rewrite E2 in Ef.
  destruct (sr_iter_to_headers c c2 d _ _ Ef H2 eq_refl) as (c3 & E3 & H3).
  exists c3. split; [exact E3|]. split; [exact H3|exact R1].
Qed.
End Line.
