(* Proofs about the ownership model, second part (C18): htp_urlenp_create / destroy, htp_mpartp_create / destroy,
   htp_tx_destroy of a transaction with its request parsers (Model/MOwn2.v). *)
Require Import Htp.Model.Base Htp.Model.MOwn Htp.Model.MOwnCases Htp.Model.MOwn2 Htp.Proof.POwn Htp.Proof.POwn2.

Definition fp_bbo (b : option ow_bb) : list nat := match b with Some b => fp_bb b | None => [] end.
Definition wf_bbo (b : option ow_bb) : Prop := match b with Some b => wf_bb b | None => True end.

Lemma wp_builder_destroyo b F (Q : unit -> ow_state -> Prop) s :
  wf_bbo b -> ow_own (fp_bbo b ++ F) s -> (forall s', ow_own F s' -> Q tt s') -> ow_wp (ow_builder_destroy b) Q s.
Proof.
  destruct b as [b|]; cbn [wf_bbo fp_bbo].
  - intros W O HQ. now apply wp_builder_destroy with (F := F).
  - intros _ O HQ. apply wp_ret. auto.
Qed.

(* ------------------------------------------------------------------ urlencoded parser *)
Definition fp_urlenp (u : ow_urlenp) : list nat :=
  olist [oup_self u; oup_name u] ++ fp_bbo (oup_bb u) ++ fp_tblo (oup_params u) ++ olist (oup_pvals u).
Definition wf_urlenp (u : ow_urlenp) : Prop :=
  oup_self u <> None /\ wf_bbo (oup_bb u) /\ wf_tblo (oup_params u) /\ (oup_params u = None -> oup_pvals u = []).
Definition fp_urlenpo (u : option ow_urlenp) : list nat := match u with Some u => fp_urlenp u | None => [] end.
Definition wf_urlenpo (u : option ow_urlenp) : Prop := match u with Some u => wf_urlenp u | None => True end.

Lemma wp_urlenp_destroy u F (Q : unit -> ow_state -> Prop) s :
  wf_urlenpo u -> ow_own (fp_urlenpo u ++ F) s -> (forall s', ow_own F s' -> Q tt s') -> ow_wp (ow_urlenp_destroy u) Q s.
Proof.
  destruct u as [u|]; cbn [wf_urlenpo fp_urlenpo]; [|intros _ O HQ; apply wp_ret; auto].
  intros [W1 [W2 [W3 W4]]] O HQ. unfold ow_urlenp_destroy, fp_urlenp in *.
  destruct (oup_self u) as [a|] eqn:Ea; [|congruence].
  set (B := fp_bbo (oup_bb u)) in *. set (T := fp_tblo (oup_params u)) in *. set (V := olist (oup_pvals u)) in *.
  destruct O as [Hok Hown].
  apply wp_bind. apply wp_use. { exists a. split; auto. rewrite Hown. cnt_norm. lia. }
  apply wp_bind. apply wp_free; auto. { intros i E. rewrite Hown, E. cnt_norm. lia. }
  intros s1 Ok1 L1 _.
  apply wp_bind. apply wp_builder_destroyo with (F := a :: T ++ V ++ F); auto.
  { split; auto. intros j. specialize (L1 j). specialize (Hown j). fold B. cnt_norm. lia. }
  clear Hok Hown Ok1 L1. intros s2 O2.
  apply wp_bind.
  assert (H1 : forall (Q' : unit -> ow_state -> Prop), (forall s', ow_own (a :: F) s' -> Q' tt s') ->
            ow_wp (match oup_params u with
                   | None => ow_ret tt
                   | Some t => ow_use (oot_self t) ;;; ow_iter ow_free (oup_pvals u) ;;; ow_table_destroy (Some t)
                   end) Q' s2).
  { intros Q' HQ'. unfold T, V in O2. destruct (oup_params u) as [t|] eqn:Et.
    - destruct W3 as [Wt [P1 P2]]. cbn [fp_tblo] in O2.
      assert (O2' : ow_own (fp_tbl t ++ a :: olist (oup_pvals u) ++ F) s2).
      { eapply own_perm; [|exact O2]. intros j. cnt_norm. lia. }
      apply wp_bind. apply wp_use. { eapply own_live_self; eauto. }
      apply wp_bind. destruct O2' as [Ok2 L2]. apply wp_iter_free; auto. { intros j. rewrite L2. cnt_norm. lia. }
      intros s3 Ok3 L3. apply wp_table_destroy with (F := a :: F); [exact Wt | exact (conj P1 P2) | | exact HQ'].
      split; auto. intros j. specialize (L2 j). specialize (L3 j). cnt_norm. lia.
    - rewrite (W4 eq_refl) in O2. apply wp_ret. apply HQ'; auto. }
  apply H1. intros s3 [Ok3 L3]. wp_go. apply HQ. split; auto. intros j. cnt_at j.
Qed.

Lemma wp_urlenp_create cap tx F (Q : option ow_urlenp -> ow_state -> Prop) s :
  ow_own F s -> (forall s', ow_own F s' -> Q None s') ->
  (forall u s', wf_urlenp u -> ow_own (fp_urlenp u ++ F) s' -> Q (Some u) s') ->
  ow_wp (ow_urlenp_create cap tx) Q s.
Proof.
  intros [Hok Hown] HN HS. unfold ow_urlenp_create.
  apply wp_bind. apply wp_malloc; auto.
  { intros s1 Ok1 L1 _ _ _ _. apply wp_ret. apply HN. split; auto. intros j. rewrite L1; auto. }
  intros s1 Ok1 L1 _ _ _ _. set (a := oos_next s) in *.
  apply wp_bind. apply wp_table_create with (F := a :: F).
  - split; auto. intros j. rewrite L1, Hown. cnt_norm. lia.
  - intros s2 [Ok2 L2]. wp_go. apply HN. split; auto. intros j. cnt_at j.
  - intros t s2 Wt Pt _ O2.
    apply wp_bind. apply wp_builder_create with (F := fp_tbl t ++ a :: F); auto.
    + intros s3 O3. apply wp_bind. apply wp_table_destroy with (F := a :: F); auto.
      intros s4 [Ok4 L4]. wp_go. apply HN. split; auto. intros j. cnt_at j.
    + intros bb s3 Wb _ _ O3. apply wp_ret. apply HS.
      * split; [cbn; discriminate|]. split; [exact Wb|]. split; [cbn; split; auto|]. cbn. discriminate.
      * eapply own_perm; [|exact O3]. intros j. unfold fp_urlenp. cbn [oup_self oup_name oup_bb oup_params oup_pvals fp_bbo fp_tblo]. cnt_norm. lia.
Qed.

(* ------------------------------------------------------------------ multipart parser *)
Definition fp_part2 (g : bool) (pt : ow_part * bool) : list nat :=
  olist [opt_self (fst pt); opt_ctype (fst pt)] ++
  (if negb g || negb (snd pt) then olist [opt_name (fst pt); opt_value (fst pt)] else []) ++
  fp_fileo (opt_file (fst pt)) ++ fp_tblo (opt_hdrs (fst pt)) ++ flat_map fp_hdr (opt_hvals (fst pt)).
Definition wf_part2 (pt : ow_part * bool) : Prop := wf_part (fst pt).

Lemma wp_part_destroy_gen g pt F (Q : unit -> ow_state -> Prop) s :
  wf_part2 pt -> ow_own (fp_part2 g pt ++ F) s -> (forall s', ow_own F s' -> Q tt s') -> ow_wp (ow_part_destroy_gen g pt) Q s.
Proof.
  destruct pt as [p txt]. unfold wf_part2, fp_part2, ow_part_destroy_gen. cbn [fst snd].
  intros [W1 [W2 [W3 [W4 W5]]]] O HQ.
  destruct (opt_self p) as [a|] eqn:Ea; [|congruence].
  apply wp_bind. apply wp_use. { exists a. split; auto. destruct O as [_ O]. rewrite O. cnt_norm. lia. }
  set (HD := fp_tblo (opt_hdrs p) ++ flat_map fp_hdr (opt_hvals p)) in *.
  set (NV := if negb g || negb txt then olist [opt_name p; opt_value p] else []) in *.
  apply wp_bind.
  assert (H1 : forall (Q' : unit -> ow_state -> Prop),
     (forall s', ow_own (NV ++ a :: olist [opt_ctype p] ++ HD ++ F) s' -> Q' tt s') ->
     ow_wp (match opt_file p with
            | None => ow_ret tt
            | Some f => ow_use (ofl_self f) ;;; ow_free (ofl_name f) ;;; ow_free (ofl_tmp f) ;;; ow_free (ofl_self f)
            end) Q' s).
  { intros Q' HQ'. destruct (opt_file p) as [f|]; cbn [fp_fileo] in O.
    - destruct (ofl_self f) as [fs|] eqn:Efs; [|congruence]. destruct O as [Hok Hown].
      wp_go; apply HQ'; split; auto; intros j; unfold HD in *; cnt_at j.
    - apply wp_ret. apply HQ'. eapply own_perm; [|exact O]. intros j. unfold HD. cnt_norm. lia. }
  apply H1. clear H1 O. intros s1 O1.
  apply wp_bind.
  assert (H2 : forall (Q' : unit -> ow_state -> Prop),
     (forall s', ow_own (a :: olist [opt_ctype p] ++ HD ++ F) s' -> Q' tt s') ->
     ow_wp (if negb g || negb txt then ow_free (opt_name p) ;;; ow_free (opt_value p) else ow_ret tt) Q' s1).
  { intros Q' HQ'. unfold NV in O1. destruct (negb g || negb txt).
    - destruct O1 as [Ok1 L1].
      apply wp_bind. apply wp_free; auto. { intros i E. rewrite L1, E. cnt_norm. lia. } intros s2 Ok2 L2 _.
      apply wp_free; auto.
      { intros i E. specialize (L2 i). pose proof (ok_nodup _ Ok1 i) as N. rewrite L1 in *. rewrite E in *. cnt_norm. lia. }
      intros s3 Ok3 L3 _. apply HQ'. split; auto. intros j. specialize (L1 j). specialize (L2 j). specialize (L3 j). cnt_norm. lia.
    - apply wp_ret. apply HQ'. exact O1. }
  apply H2. clear H2 O1. intros s2 [Ok2 L2].
  apply wp_bind. apply wp_free; auto. { intros i E. rewrite L2, E. cnt_norm. lia. }
  intros s4 Ok4 L4 _.
  apply wp_bind. apply wp_tx_hdrs with (F := a :: F); auto.
  { split; auto. intros j. specialize (L2 j). specialize (L4 j). unfold HD in *. cnt_norm. lia. }
  intros s5 [Ok5 L5]. wp_go. apply HQ. split; auto. intros j. cnt_at j.
Qed.

Definition fp_mpartp (m : ow_mpartp) : list nat :=
  olist [omp_self m; omp_boundary m; omp_pending m] ++ fp_bbo (omp_bp m) ++ fp_bbo (omp_hp m) ++ fp_bbo (omp_dp m) ++
  fp_lsto (omp_parts m) ++ flat_map (fp_part2 (omp_gave_up m)) (omp_pvals m).
Definition wf_mpartp (m : ow_mpartp) : Prop :=
  omp_self m <> None /\ wf_bbo (omp_bp m) /\ wf_bbo (omp_hp m) /\ wf_bbo (omp_dp m) /\ wf_lsto (omp_parts m) /\
  Forall wf_part2 (omp_pvals m) /\ (omp_parts m = None -> omp_pvals m = []).
Definition fp_mpartpo (m : option ow_mpartp) : list nat := match m with Some m => fp_mpartp m | None => [] end.
Definition wf_mpartpo (m : option ow_mpartp) : Prop := match m with Some m => wf_mpartp m | None => True end.

Lemma wp_mpartp_destroy m F (Q : unit -> ow_state -> Prop) s :
  wf_mpartpo m -> ow_own (fp_mpartpo m ++ F) s -> (forall s', ow_own F s' -> Q tt s') -> ow_wp (ow_mpartp_destroy m) Q s.
Proof.
  destruct m as [m|]; cbn [wf_mpartpo fp_mpartpo]; [|intros _ O HQ; apply wp_ret; auto].
  intros [W1 [W2 [W3 [W4 [W5 [W6 W7]]]]]] O HQ. unfold ow_mpartp_destroy, fp_mpartp in *.
  destruct (omp_self m) as [a|] eqn:Ea; [|congruence].
  set (B1 := fp_bbo (omp_bp m)) in *. set (B2 := fp_bbo (omp_hp m)) in *. set (B3 := fp_bbo (omp_dp m)) in *.
  set (L := fp_lsto (omp_parts m)) in *. set (P := flat_map (fp_part2 (omp_gave_up m)) (omp_pvals m)) in *.
  destruct O as [Hok Hown].
  apply wp_bind. apply wp_use. { exists a. split; auto. rewrite Hown. cnt_norm. lia. }
  apply wp_bind. apply wp_free; auto. { intros i E. rewrite Hown, E. cnt_norm. lia. }
  intros s1 Ok1 L1 _.
  apply wp_bind. apply wp_builder_destroyo with (F := a :: olist [omp_pending m] ++ B2 ++ B3 ++ L ++ P ++ F); auto.
  { split; auto. intros j. specialize (L1 j). specialize (Hown j). fold B1. cnt_norm. lia. }
  clear Hok Hown Ok1 L1. intros s2 O2.
  apply wp_bind. apply wp_builder_destroyo with (F := a :: olist [omp_pending m] ++ B3 ++ L ++ P ++ F); auto.
  { eapply own_perm; [|exact O2]. intros j. fold B2. cnt_norm. lia. }
  clear O2. intros s3 [Ok3 L3].
  apply wp_bind. apply wp_free; auto. { intros i E. rewrite L3, E. cnt_norm. lia. }
  intros s4 Ok4 L4 _.
  apply wp_bind. apply wp_builder_destroyo with (F := a :: L ++ P ++ F); auto.
  { split; auto. intros j. specialize (L3 j). specialize (L4 j). fold B3. cnt_norm. lia. }
  clear Ok3 L3 Ok4 L4. intros s5 O5.
  apply wp_bind.
  assert (H1 : forall (Q' : unit -> ow_state -> Prop), (forall s', ow_own (a :: F) s' -> Q' tt s') ->
            ow_wp (match omp_parts m with
                   | None => ow_ret tt
                   | Some l => ow_use (ool_self l) ;;; ow_iter (ow_part_destroy_gen (omp_gave_up m)) (omp_pvals m) ;;; ow_list_destroy (Some l)
                   end) Q' s5).
  { intros Q' HQ'. unfold L, P in O5. destruct (omp_parts m) as [l|] eqn:El.
    - pose proof W5 as [Wl1 Wl2]. cbn [fp_lsto] in O5.
      destruct (ool_self l) as [ls|] eqn:Els; [|congruence].
      apply wp_bind. apply wp_use. { exists ls. split; auto. destruct O5 as [_ O5]. rewrite O5. cnt_norm. lia. }
      apply wp_bind. eapply wp_iter_own with (fp := fp_part2 (omp_gave_up m)) (P := wf_part2) (F := fp_lsto (Some l) ++ a :: F); eauto.
      + intros pt G Q'' s' Pa Oa HQ''. apply wp_part_destroy_gen with (F := G ++ fp_lsto (Some l) ++ a :: F); auto.
      + eapply own_perm; [|exact O5]. intros j. cbn [fp_lsto]. rewrite ?Els. cnt_norm. lia.
      + intros s6 O6. apply wp_lsto_destroy with (F := a :: F); auto.
    - rewrite (W7 eq_refl) in O5. apply wp_ret. apply HQ'. eapply own_perm; [|exact O5]. intros j. cbn. cnt_norm. lia. }
  apply H1. intros s6 [Ok6 L6]. wp_go. apply HQ. split; auto. intros j. cnt_at j.
Qed.

Lemma wf_bbo_some bb : wf_bb bb -> wf_bbo (Some bb).
Proof. auto. Qed.

Lemma wp_mpartp_create cap cfg b F (Q : option ow_mpartp -> ow_state -> Prop) s :
  ow_own (b :: F) s -> in_frame cfg F ->
  (forall s', ow_own (b :: F) s' -> Q None s') ->
  (forall m s', wf_mpartp m -> omp_pvals m = [] -> ow_own (fp_mpartp m ++ F) s' -> Q (Some m) s') ->
  ow_wp (ow_mpartp_create cap cfg (Some b)) Q s.
Proof.
  intros O Hcfg HN HS. unfold ow_mpartp_create.
  destruct Hcfg as [Hc1 Hc2]. destruct cfg as [cf|]; [|congruence]. cbn [ow_isnull orb].
  destruct O as [Hok Hown].
  apply wp_bind. apply wp_malloc; auto.
  { intros s1 Ok1 L1 _ _ _ _. apply wp_ret. apply HN. split; auto. intros j. rewrite L1; auto. }
  intros s1 Ok1 L1 _ _ _ _. set (a := oos_next s) in *.
  (* a partially built parser is released *)
  assert (Hpart : forall m s', wf_mpartp m -> ow_own (fp_mpartp m ++ b :: F) s' ->
            ow_wp (ow_mpartp_destroy (Some m) ;;; ow_ret None) Q s').
  { intros m s' Wm Om. apply wp_bind. apply wp_mpartp_destroy with (F := b :: F); [exact Wm | exact Om |].
    intros s'' O''. apply wp_ret. apply HN. exact O''. }
  assert (Wnil : forall A (P : A -> Prop), Forall P []) by (intros; constructor).
  apply wp_bind. apply wp_builder_create with (F := a :: b :: F).
  { split; auto. intros j. rewrite L1, Hown. cnt_norm. lia. }
  { intros s2 O2. apply Hpart.
    - repeat split; cbn; auto; discriminate.
    - eapply own_perm; [|exact O2]. intros j. unfold fp_mpartp. cbn. cnt_norm. lia. }
  intros bp s2 Wbp _ _ O2.
  apply wp_bind. apply wp_builder_create with (F := fp_bb bp ++ a :: b :: F); auto.
  { intros s3 O3. apply Hpart.
    - repeat split; cbn; auto; try discriminate; apply Wbp.
    - eapply own_perm; [|exact O3]. intros j. unfold fp_mpartp. cbn [omp_self omp_boundary omp_pending omp_bp omp_hp omp_dp omp_parts omp_pvals omp_gave_up fp_bbo fp_lsto flat_map]. cnt_norm. lia. }
  intros dp s3 Wdp _ _ O3.
  apply wp_bind. apply wp_builder_create with (F := fp_bb dp ++ fp_bb bp ++ a :: b :: F); auto.
  { intros s4 O4. apply Hpart.
    - split; [cbn; discriminate|]. split; [exact Wbp|]. split; [exact I|]. split; [exact Wdp|]. split; [exact I|]. split; [constructor|]. reflexivity.
    - eapply own_perm; [|exact O4]. intros j. unfold fp_mpartp. cbn [omp_self omp_boundary omp_pending omp_bp omp_hp omp_dp omp_parts omp_pvals omp_gave_up fp_bbo fp_lsto flat_map]. cnt_norm. lia. }
  intros hp s4 Whp _ _ O4.
  destruct O4 as [Ok4 L4].
  apply wp_bind. apply wp_list_create; auto.
  { intros s5 Ok5 L5. apply Hpart.
    - split; [cbn; discriminate|]. split; [exact Wbp|]. split; [exact Whp|]. split; [exact Wdp|]. split; [exact I|]. split; [constructor|]. reflexivity.
    - split; auto. intros j. rewrite L5, L4. unfold fp_mpartp. cbn [omp_self omp_boundary omp_pending omp_bp omp_hp omp_dp omp_parts omp_pvals omp_gave_up fp_bbo fp_lsto flat_map]. cnt_norm. lia. }
  intros la lb s5 Ok5 L5 Hcap.
  set (l := ow_mk_lst (Some la) (Some lb) 0 cap 0) in *.
  assert (Wl : wf_lsto (Some l)). { cbn. split; discriminate. }
  assert (Lcf : forall s', (forall j, cnt j (oos_live s') = cnt j (oos_live s5)) -> 1 <= cnt cf (oos_live s')).
  { intros s' E. rewrite E, L5, L4. specialize (Hc2 cf). cnt_norm. lia. }
  assert (Lb : forall s', (forall j, cnt j (oos_live s') = cnt j (oos_live s5)) -> 1 <= cnt b (oos_live s')).
  { intros s' E. rewrite E, L5, L4. cnt_norm. lia. }
  apply wp_bind. apply wp_use. { exists cf. split; auto. }
  apply wp_bind. apply wp_use. { exists b. split; auto. }
  apply wp_bind. apply wp_malloc; auto.
  { intros s6 Ok6 L6 _ _ _ _. apply Hpart.
    - split; [cbn; discriminate|]. split; [exact Wbp|]. split; [exact Whp|]. split; [exact Wdp|]. split; [exact Wl|]. split; [constructor|]. discriminate.
    - split; auto. intros j. rewrite L6, L5, L4. unfold fp_mpartp, l. cbn [omp_self omp_boundary omp_pending omp_bp omp_hp omp_dp omp_parts omp_pvals omp_gave_up fp_bbo fp_lsto flat_map ool_self ool_blk]. cnt_norm. lia. }
  intros s6 Ok6 L6 _ _ _ _. set (bd := oos_next s5) in *.
  apply wp_bind. apply wp_use. { exists bd. split; auto. rewrite L6. cnt_norm. lia. }
  apply wp_bind. apply wp_free; auto.
  { intros i E. injection E as <-. rewrite L6, L5, L4. cnt_norm. lia. }
  intros s7 Ok7 L7 _. apply wp_ret. apply HS.
  - split; [cbn; discriminate|]. split; [exact Wbp|]. split; [exact Whp|]. split; [exact Wdp|]. split; [exact Wl|]. split; [constructor|]. discriminate.
  - reflexivity.
  - split; auto. intros j. specialize (L7 j). specialize (L6 j). specialize (L5 j). specialize (L4 j).
    unfold fp_mpartp, l. cbn [omp_self omp_boundary omp_pending omp_bp omp_hp omp_dp omp_parts omp_pvals omp_gave_up fp_bbo fp_lsto flat_map ool_self ool_blk].
    cnt_norm. cbn [cnto] in *. lia.
Qed.

(* ------------------------------------------------------------------ htp_tx_destroy: the transaction with its request parsers *)
Definition fp_tx_full (t : ow_tx_full) : list nat :=
  fp_tx (otf_tx t) ++ fp_urlenpo (otf_uq t) ++ fp_urlenpo (otf_ub t) ++ fp_mpartpo (otf_mp t).
Definition wf_tx_full (t : ow_tx_full) : Prop :=
  wf_tx (otf_tx t) /\ wf_urlenpo (otf_uq t) /\ wf_urlenpo (otf_ub t) /\ wf_mpartpo (otf_mp t).

Lemma wp_tx_destroy_full t F (Q : unit -> ow_state -> Prop) s :
  wf_tx_full t -> ow_own (fp_tx_full t ++ F) s ->
  in_frame (otx_conn (otf_tx t)) F -> in_frame (otx_connp (otf_tx t)) F ->
  (forall s', ow_own F s' -> Q tt s') ->
  ow_wp (ow_tx_destroy_full t) Q s.
Proof.
  intros [Wtx [Wuq [Wub Wmp]]] O [Hc HcF] [Hp HpF] HQ. unfold ow_tx_destroy_full. cbv zeta.
  set (tx := otf_tx t) in *.
  destruct Wtx as [W1 [W2 [W3 [W4 [W5 [W6 [W7 [W8 [W9 [W10 [W11 [W12 [W13 [W14 [W15 W16]]]]]]]]]]]]]]].
  unfold fp_tx_full, fp_tx in O. fold tx in O.
  destruct (otx_self tx) as [a|] eqn:Ea; [|congruence].
  set (U1 := fp_urio (otx_uri_raw tx)) in *. set (U2 := fp_urio (otx_uri tx)) in *.
  set (T1 := fp_tblo (otx_req_hdrs tx)) in *. set (H1 := flat_map fp_hdr (otx_req_hvals tx)) in *.
  set (PV := flat_map fp_hdr (otx_pvals tx)) in *. set (TP := fp_tblo (otx_params tx)) in *.
  set (TC := fp_tblo (otx_cookies tx)) in *. set (CV := olist (otx_cvals tx)) in *.
  set (K1 := fp_hooko (otx_hook_req tx)) in *. set (K2 := fp_hooko (otx_hook_res tx)) in *.
  set (RS := olist (otx_res_strs tx)) in *. set (T3 := fp_tblo (otx_res_hdrs tx)) in *.
  set (H3 := flat_map fp_hdr (otx_res_hvals tx)) in *.
  set (X1 := fp_urlenpo (otf_uq t)) in *. set (X2 := fp_urlenpo (otf_ub t)) in *. set (X3 := fp_mpartpo (otf_mp t)) in *.
  assert (O0 : ow_own ((a :: olist (otx_req_strs tx) ++ U1 ++ U2 ++ olist [otx_auth_user tx; otx_auth_pass tx] ++ T1 ++ H1 ++ X1 ++ X2 ++ X3 ++
                        PV ++ TP ++ TC ++ CV ++ K1 ++ K2 ++ RS ++ T3 ++ H3) ++ F) s).
  { eapply own_perm; [|exact O]. intros j. cnt_norm. lia. }
  clear O. rename O0 into O.
  apply wp_bind. apply wp_use. { exists a. split; auto. destruct O as [_ O]. rewrite O. cnt_norm. lia. }
  apply wp_bind. apply wp_use. { eapply own_live_in; eauto. }
  apply wp_bind. apply wp_use. { eapply own_live_in; eauto. }
  apply wp_bind. destruct O as [Hok Hown].
  apply wp_iter_free; auto. { intros j. rewrite Hown. cnt_norm. lia. }
  intros s1 Ok1 L1.
  apply wp_bind. apply wp_uri_free with (F := a :: U2 ++ olist [otx_auth_user tx; otx_auth_pass tx] ++ T1 ++ H1 ++ X1 ++ X2 ++ X3 ++ PV ++ TP ++ TC ++ CV ++ K1 ++ K2 ++ RS ++ T3 ++ H3 ++ F); auto.
  { split; auto. intros j. specialize (L1 j). specialize (Hown j). fold U1. cnt_norm. lia. }
  clear Hok Hown L1 Ok1. intros s2 O2.
  apply wp_bind. apply wp_uri_free with (F := a :: olist [otx_auth_user tx; otx_auth_pass tx] ++ T1 ++ H1 ++ X1 ++ X2 ++ X3 ++ PV ++ TP ++ TC ++ CV ++ K1 ++ K2 ++ RS ++ T3 ++ H3 ++ F); auto.
  { eapply own_perm; [|exact O2]. intros j. fold U2. cnt_norm. lia. }
  clear O2. intros s3 [Ok3 L3].
  apply wp_bind. apply wp_free; auto.
  { intros i E. rewrite L3, E. cnt_norm. lia. }
  intros s4 Ok4 L4 _.
  apply wp_bind. apply wp_free; auto.
  { intros i E. specialize (L4 i). rewrite L3 in L4. rewrite E in *. cnt_norm.
    pose proof (ok_nodup _ Ok3 i) as N. rewrite L3 in N. cnt_norm. lia. }
  intros s5 Ok5 L5 _.
  apply wp_bind. apply wp_tx_hdrs with (F := a :: X1 ++ X2 ++ X3 ++ PV ++ TP ++ TC ++ CV ++ K1 ++ K2 ++ RS ++ T3 ++ H3 ++ F); auto.
  { split; auto. intros j. specialize (L4 j). specialize (L5 j). specialize (L3 j). fold T1 H1. cnt_norm. lia. }
  clear Ok3 L3 Ok4 L4 Ok5 L5. intros s6 O6.
  (* the three request parsers *)
  apply wp_bind. apply wp_urlenp_destroy with (F := a :: X2 ++ X3 ++ PV ++ TP ++ TC ++ CV ++ K1 ++ K2 ++ RS ++ T3 ++ H3 ++ F); auto.
  { eapply own_perm; [|exact O6]. intros j. fold X1. cnt_norm. lia. }
  clear O6. intros s6a O6.
  apply wp_bind. apply wp_urlenp_destroy with (F := a :: X3 ++ PV ++ TP ++ TC ++ CV ++ K1 ++ K2 ++ RS ++ T3 ++ H3 ++ F); auto.
  { eapply own_perm; [|exact O6]. intros j. fold X2. cnt_norm. lia. }
  clear O6. intros s6b O6.
  apply wp_bind. apply wp_mpartp_destroy with (F := a :: PV ++ TP ++ TC ++ CV ++ K1 ++ K2 ++ RS ++ T3 ++ H3 ++ F); auto.
  { eapply own_perm; [|exact O6]. intros j. fold X3. cnt_norm. lia. }
  clear O6. intros s6c O6.
  apply wp_bind. apply wp_hdrs_free with (F := TP ++ a :: TC ++ CV ++ K1 ++ K2 ++ RS ++ T3 ++ H3 ++ F); auto.
  { eapply own_perm; [|exact O6]. intros j. fold PV. cnt_norm. lia. }
  clear O6. intros s7 O7.
  apply wp_bind. apply wp_table_destroyo with (F := a :: TC ++ CV ++ K1 ++ K2 ++ RS ++ T3 ++ H3 ++ F); auto.
  clear O7. intros s8 O8.
  apply wp_bind.
  assert (Hck : forall (Q' : unit -> ow_state -> Prop),
      (forall s', ow_own (a :: K1 ++ K2 ++ RS ++ T3 ++ H3 ++ F) s' -> Q' tt s') ->
      ow_wp (match otx_cookies tx with
             | None => ow_ret tt
             | Some t => ow_use (oot_self t) ;;; ow_iter ow_free (otx_cvals tx) ;;; ow_table_destroy (Some t)
             end) Q' s8).
  { intros Q' HQ'. unfold TC, CV in O8. destruct (otx_cookies tx) as [tc|] eqn:Et.
    - destruct W9 as [Wt [P1 P2]]. cbn [fp_tblo] in O8.
      assert (O8' : ow_own (fp_tbl tc ++ a :: olist (otx_cvals tx) ++ K1 ++ K2 ++ RS ++ T3 ++ H3 ++ F) s8).
      { eapply own_perm; [|exact O8]. intros j. cnt_norm. lia. }
      apply wp_bind. apply wp_use. { eapply own_live_self; eauto. }
      apply wp_bind. destruct O8' as [Ok8 L8]. apply wp_iter_free; auto. { intros j. rewrite L8. cnt_norm. lia. }
      intros s9 Ok9 L9. apply wp_table_destroy with (F := a :: K1 ++ K2 ++ RS ++ T3 ++ H3 ++ F); auto. { split; auto. }
      split; auto. intros j. specialize (L8 j). specialize (L9 j). cnt_norm. lia.
    - rewrite (W10 eq_refl) in O8. apply wp_ret. apply HQ'. exact O8. }
  apply Hck. clear Hck O8. intros s9 O9.
  apply wp_bind. apply wp_hook_destroyo with (F := a :: K2 ++ RS ++ T3 ++ H3 ++ F); auto.
  { eapply own_perm; [|exact O9]. intros j. fold K1. cnt_norm. lia. }
  clear O9. intros s10 O10.
  apply wp_bind. apply wp_hook_destroyo with (F := a :: RS ++ T3 ++ H3 ++ F); auto.
  { eapply own_perm; [|exact O10]. intros j. fold K2. cnt_norm. lia. }
  clear O10. intros s11 [Ok11 L11].
  apply wp_bind. apply wp_iter_free; auto. { intros j. rewrite L11. fold RS. cnt_norm. lia. }
  intros s12 Ok12 L12.
  apply wp_bind. apply wp_tx_hdrs with (F := a :: F); auto.
  { split; auto. intros j. specialize (L11 j). specialize (L12 j). fold RS in L12. fold T3 H3. cnt_norm. lia. }
  intros s13 [Ok13 L13]. wp_go. apply HQ. split; auto. intros j. cnt_at j.
Qed.

(* ------------------------------------------------------------------ theorems *)
Theorem ow_then_destroy_clean_urlenp_create cap tx F s :
  ow_own F s -> ow_clean_to F (u <- ow_urlenp_create cap tx ;; ow_urlenp_destroy u) s.
Proof.
  intros O. apply wp_bind. apply wp_urlenp_create with (F := F); [exact O | |].
  - intros s1 O1. apply (@wp_ret unit). exact O1.
  - intros u s1 Wu O1. apply wp_urlenp_destroy with (F := F); auto.
Qed.

Theorem ow_safe_urlenp_create cap tx F s : ow_own F s -> ow_nofault (ow_urlenp_create cap tx) s.
Proof. intros O. eapply clean_bind_nofault. apply ow_then_destroy_clean_urlenp_create with (F := F). exact O. Qed.

(* any parser state: a pending name, parameters in the table *)
Theorem ow_urlenp_destroy_clean u F s :
  wf_urlenpo u -> ow_own (fp_urlenpo u ++ F) s -> ow_clean_to F (ow_urlenp_destroy u) s.
Proof. intros W O. apply wp_urlenp_destroy with (F := F); auto. Qed.

Lemma mpartp_create_null_boundary cap cf : ow_mpartp_create cap (Some cf) None = ow_ret None.
Proof. reflexivity. Qed.

(* the caller's protocol: the boundary string is the caller's again when the parser could not be created *)
Theorem ow_then_destroy_clean_mpartp_create cap cfg b F s :
  ow_own (olist [b] ++ F) s -> in_frame cfg F ->
  ow_clean_to F (m <- ow_mpartp_create cap cfg b ;;
                 (match m with None => ow_free b | Some _ => ow_ret tt end) ;;; ow_mpartp_destroy m) s.
Proof.
  intros O Hcfg. apply wp_bind. destruct b as [b|].
  - cbn [olist app] in O. apply wp_mpartp_create with (F := F); auto.
    + intros s1 [Ok1 L1]. wp_go. split; auto. intros j. cnt_at j.
    + intros m s1 Wm _ O1. apply wp_bind. apply wp_ret. apply wp_mpartp_destroy with (F := F); auto.
  - destruct Hcfg as [Hc _]. destruct cfg as [cf|]; [|congruence]. rewrite mpartp_create_null_boundary.
    apply wp_ret. cbn [olist app] in O. destruct O as [Hok Hown]. wp_go. split; auto. intros j. cnt_at j.
Qed.

Theorem ow_safe_mpartp_create cap cfg b F s :
  ow_own (olist [b] ++ F) s -> in_frame cfg F -> ow_nofault (ow_mpartp_create cap cfg b) s.
Proof. intros O H. eapply clean_bind_nofault. apply ow_then_destroy_clean_mpartp_create with (F := F); eauto. Qed.

(* any parser state: parts with files and headers, before or after the parameters were handed to the transaction *)
Theorem ow_mpartp_destroy_clean m F s :
  wf_mpartpo m -> ow_own (fp_mpartpo m ++ F) s -> ow_clean_to F (ow_mpartp_destroy m) s.
Proof. intros W O. apply wp_mpartp_destroy with (F := F); auto. Qed.

Theorem ow_tx_destroy_full_clean t F s :
  wf_tx_full t -> ow_own (fp_tx_full t ++ F) s ->
  in_frame (otx_conn (otf_tx t)) F -> in_frame (otx_connp (otf_tx t)) F ->
  ow_clean_to F (ow_tx_destroy_full t) s.
Proof. intros. apply wp_tx_destroy_full with (F := F); auto. Qed.

(* htp_tx_destroy: a complete transaction is released entirely; one that is not complete is left alone *)
Theorem ow_tx_destroy_spec complete t F s :
  wf_tx_full t -> ow_own (fp_tx_full t ++ F) s ->
  in_frame (otx_conn (otf_tx t)) F -> in_frame (otx_connp (otf_tx t)) F ->
  ow_wp (ow_tx_destroy complete t)
        (fun r s' => r = complete /\ if complete then ow_own F s' else ow_own (fp_tx_full t ++ F) s') s.
Proof.
  intros W O Hc Hp. unfold ow_tx_destroy. pose proof W as [[W1 _] _].
  destruct (otx_self (otf_tx t)) as [a|] eqn:Ea; [|congruence].
  apply wp_bind. apply wp_use.
  { exists a. split; auto. destruct O as [_ O]. rewrite O. unfold fp_tx_full, fp_tx. rewrite Ea. cnt_norm. lia. }
  destruct complete.
  - apply wp_bind. apply wp_tx_destroy_full with (F := F); auto. intros s1 O1. apply wp_ret. auto.
  - apply wp_ret. auto.
Qed.

(* the three request parsers are created on a transaction (any of the creations may fail), then the transaction is destroyed *)
Theorem ow_parsers_then_tx_destroy_clean cap1 cap2 cfg tx F s :
  wf_tx tx -> ow_own (fp_tx tx ++ F) s -> in_frame cfg F -> in_frame (otx_conn tx) F -> in_frame (otx_connp tx) F ->
  ow_clean_to F (uq <- ow_urlenp_create cap1 (otx_self tx) ;;
                 ub <- ow_urlenp_create cap1 (otx_self tx) ;;
                 b <- ow_bstr_alloc ;;
                 mp <- ow_mpartp_create cap2 cfg b ;;
                 (match mp with None => ow_free b | Some _ => ow_ret tt end) ;;;
                 ow_tx_destroy_full (ow_mk_tx_full tx uq ub mp)) s.
Proof.
  intros Wt O Hcfg Hc Hp.
  assert (Hfin : forall uq ub mp s', wf_urlenpo uq -> wf_urlenpo ub -> wf_mpartpo mp ->
            ow_own (fp_mpartpo mp ++ fp_urlenpo ub ++ fp_urlenpo uq ++ fp_tx tx ++ F) s' ->
            ow_wp (ow_tx_destroy_full (ow_mk_tx_full tx uq ub mp)) (fun _ s'' => ow_own F s'') s').
  { intros uq ub mp s' W1 W2 W3 O'. apply wp_tx_destroy_full with (F := F); auto.
    - split; [exact Wt|]. split; [exact W1|]. split; [exact W2 | exact W3].
    - eapply own_perm; [|exact O']. intros j. unfold fp_tx_full. cbn [otf_tx otf_uq otf_ub otf_mp]. cnt_norm. lia. }
  assert (Hmp : forall uq ub s', wf_urlenpo uq -> wf_urlenpo ub -> ow_own (fp_urlenpo ub ++ fp_urlenpo uq ++ fp_tx tx ++ F) s' ->
            ow_wp (b <- ow_bstr_alloc ;;
                   mp <- ow_mpartp_create cap2 cfg b ;;
                   (match mp with None => ow_free b | Some _ => ow_ret tt end) ;;;
                   ow_tx_destroy_full (ow_mk_tx_full tx uq ub mp)) (fun _ s'' => ow_own F s'') s').
  { intros uq ub s' W1 W2 [Ok' L']. set (G := fp_urlenpo ub ++ fp_urlenpo uq ++ fp_tx tx) in *.
    assert (HcfgG : in_frame cfg (G ++ F)) by (apply in_frame_weaken; auto).
    unfold ow_bstr_alloc. apply wp_bind. apply wp_malloc; auto.
    - intros s1 Ok1 L1 _ _ _ _. destruct Hcfg as [Hc1 _]. destruct cfg as [cf|]; [|congruence].
      rewrite mpartp_create_null_boundary. apply wp_bind. apply wp_ret. apply wp_bind. apply wp_ret.
      apply Hfin; cbn [wf_urlenpo wf_mpartpo fp_mpartpo fp_urlenpo app]; auto. split; auto. intros j. rewrite L1, L'. unfold G. cnt_norm. lia.
    - intros s1 Ok1 L1 _ _ _ _. set (b := oos_next s') in *.
      apply wp_bind. apply wp_mpartp_create with (F := G ++ F); auto.
      + split; auto. intros j. rewrite L1, L'. unfold G. cnt_norm. lia.
      + intros s2 [Ok2 L2]. apply wp_bind. apply wp_free; auto. { intros i E. injection E as <-. rewrite L2. cnt_norm. lia. }
        intros s3 Ok3 L3 _. apply Hfin; cbn [wf_urlenpo wf_mpartpo fp_mpartpo fp_urlenpo app]; auto. split; auto. intros j. specialize (L3 j). specialize (L2 j). unfold G in *. cnt_norm. cbn [cnto] in *. lia.
      + intros m s2 Wm _ O2. apply wp_bind. apply wp_ret. apply Hfin; auto.
        eapply own_perm; [|exact O2]. intros j. unfold G. cbn [fp_mpartpo]. cnt_norm. lia. }
  apply wp_bind. apply wp_urlenp_create with (F := fp_tx tx ++ F); [exact O | |].
  - intros s1 O1. apply wp_bind. apply wp_urlenp_create with (F := fp_tx tx ++ F); [exact O1 | |].
    + intros s2 O2. apply Hmp; cbn [wf_urlenpo fp_urlenpo app]; auto.
    + intros ub s2 Wub O2. apply Hmp; cbn [wf_urlenpo fp_urlenpo app]; auto.
  - intros uq s1 Wuq O1. apply wp_bind. apply wp_urlenp_create with (F := fp_urlenp uq ++ fp_tx tx ++ F); [exact O1 | |].
    + intros s2 O2. apply Hmp; cbn [wf_urlenpo fp_urlenpo app]; auto.
    + intros ub s2 Wub O2. apply Hmp; cbn [wf_urlenpo fp_urlenpo app]; auto.
Qed.
