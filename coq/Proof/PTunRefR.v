(* C16, response side of a REFUSED CONNECT: an answer whose status is not 2xx, framed by Content-Length (header fields, empty line,
   n body bytes), delivered in ANY chunking while the request side waits in REQ_CONNECT_WAIT_RESPONSE.  RES_BODY_DETERMINE unblocks
   the request side (in_status := DATA) and sets out_data_other_at_tx_end; at the end of the transaction the response side is wrapped
   up (out_tx detached, RES_IDLE) and yields to the request side (HTP_DATA_OTHER, which is HTP_STREAM_DATA when the chunk is
   exhausted).  Since /repo commit b681751 a 407 answer takes the same branch as every other refusal. *)
Require Import Htp.Model.Base Htp.Model.MBstr Htp.Model.MConnTypes Htp.Model.MTxCommon Htp.Model.MResLine Htp.Model.MTxRes.
Require Import Htp.Model.MReq Htp.Model.MRes Htp.Model.MConnp.
Require Import Htp.Spec.SWire Htp.Proof.PWire Htp.Proof.PWireHdr Htp.Proof.PWireBlock Htp.Proof.PWireConn Htp.Proof.PWireExch.
Require Import Htp.Proof.PWireRun Htp.Proof.PWirePres Htp.Proof.PWireGlue Htp.Proof.PSeg Htp.Proof.PSegLine Htp.Proof.PSegHdr Htp.Proof.PSegGen Htp.Proof.PSegRun.
Require Import Htp.Proof.PSegFold Htp.Proof.PSegRes Htp.Proof.PSegResLine Htp.Proof.PSegResHdr Htp.Proof.PSegResGen Htp.Proof.PSegResRun Htp.Proof.PPairThm.
Require Import Htp.Proof.PTunBase Htp.Proof.PTunSegMid Htp.Proof.PTunRes Htp.Proof.PTunResLine Htp.Proof.PTunResHdr Htp.Proof.PTunResRun Htp.Proof.PTunResTail Htp.Proof.PTunResFin.
Require Import Htp.Proof.PTunReq Htp.Proof.PTunConnR.
Local Open Scope Z_scope.

(* the framing decision of RES_BODY_DETERMINE on the answer to a CONNECT request: not 2xx, Content-Length n, no Transfer-Encoding
   (a 101 answer with Content-Length is not a protocol switch; 100 with Content-Length 0 would be an interim response) *)
Definition tv_frame_ok (t : tx) (n : nat) : bool :=
  (t_request_method_number t =? c_HTP_M_CONNECT) && negb ((200 <=? t_response_status_number t) && (t_response_status_number t <=? 299)) &&
  match rs_hdr_get_c (t_response_headers t) rs_str_transfer_encoding with Some _ => false | None => true end &&
  match rs_hdr_get_c (t_response_headers t) rs_str_content_length with
  | Some h => (parse_content_length (h_value h) =? Z.of_nat n) && negb ((t_response_status_number t =? 100) && (n =? 0)%nat)
  | None => false
  end.
(* the world after the decision: the request side is unblocked, the response side will yield at the end of the transaction *)
Definition tv_unblock (w : tr_world) : tr_world :=
  mk_tr_world (tw_pre w) (tw_post w) ((tw_rq w) <| c_in_status := c_HTP_STREAM_DATA |>) true.

Section Determine.
Variable cb : cb_oracle.
Variable g : cfg.
Hypothesis Hcb : wr_all_ok cb.
Context {w : tr_world}.

Lemma tr_pass_determine_refused c d rd t n : tr_cinw w c d rd [] None RES_BODY_DETERMINE (Some RES_BODY_DETERMINE) (Some H_RESPONSE_HEADER_DATA) t ->
  tv_frame_ok t n = true -> c_in_status (tw_rq w) <> c_HTP_STREAM_ERROR -> c_in_content_length (tw_rq w) <= 0 ->
  exists c', sr_iter cb g c = inr c' /\
    match n with
    | O => tr_cinw (tv_unblock w) c' d rd [] None RES_FINALIZE (Some RES_FINALIZE) None (sr_hdrs_tx t)
    | S _ => tr_cinw (tv_unblock w) c' d rd [] None RES_BODY_IDENTITY_CL_KNOWN (Some RES_BODY_IDENTITY_CL_KNOWN) None (sr_hdrs_tx t) /\
             c_out_body_data_left c' = Z.of_nat n
    end.
Proof.
  intros H Hf Hin Hcl0. unfold tv_frame_ok in Hf. apply andb_prop in Hf. destruct Hf as [Hf Hcl]. apply andb_prop in Hf. destruct Hf as [Hf Hte].
  apply andb_prop in Hf. destruct Hf as [Hm H2xx]. apply negb_true_iff in H2xx.
  assert (Ef : rs_state_fn cb g (c_out_state c) c = rs_RES_BODY_DETERMINE cb c) by (rewrite (ti_state _ _ _ _ _ _ _ _ _ H); reflexivity).
  destruct (rs_hdr_get_c (t_response_headers t) rs_str_transfer_encoding) as [hte|] eqn:Ete; [discriminate|].
  destruct (rs_hdr_get_c (t_response_headers t) rs_str_content_length) as [h|] eqn:Ecl; [|discriminate].
  apply andb_prop in Hcl. destruct Hcl as [Hv H100]. apply Z.eqb_eq in Hv. apply negb_true_iff in H100.
  unfold rs_RES_BODY_DETERMINE in Ef. rewrite (tr_rs_tx c d rd _ _ _ _ _ t H) in Ef. cbv zeta in Ef. rewrite Hm in Ef. cbn [andb] in Ef. rewrite H2xx, Ete, Ecl, Hv in Ef.
  rewrite !andb_false_r in Ef.
  (* the request side is unblocked *)
  destruct (tn_rq_proj _ _ (ti_intx _ _ _ _ _ _ _ _ _ H)) as (Q1 & _ & _ & _ & _ & _ & Q7 & _).
  unfold rs_unblock_request in Ef. rewrite Q1 in Ef. apply Z.eqb_neq in Hin. rewrite Hin in Ef. cbn [negb] in Ef.
  set (c0 := c <| c_in_status := c_HTP_STREAM_DATA |> <| c_out_data_other_at_tx_end := true |>) in Ef.
  assert (H0 : tr_cinw (tv_unblock w) c0 d rd [] None RES_BODY_DETERMINE (Some RES_BODY_DETERMINE) (Some H_RESPONSE_HEADER_DATA) t).
  { destruct H as [A1 A2 A3 A4 A5 A6 A7 A8 A9 A10 A11 A12 A13 A14 A15 A16 A17 A18]. constructor; try assumption; try reflexivity.
    unfold tv_unblock. cbn [tw_rq]. rewrite <- A16. reflexivity. }
  (* Expect: 100-continue: the CONNECT request announced no body *)
  assert (Ecl0 : (0 <? c_in_content_length c0) = false) by (change (c_in_content_length c0) with (c_in_content_length c); rewrite Q7; apply Z.ltb_ge; exact Hcl0).
  rewrite Ecl0, !andb_false_r in Ef. cbn [andb] in Ef.
  assert (Eif : (if (100 <=? t_response_status_number t) && (t_response_status_number t <=? 199) || (t_response_status_number t =? 204)
                     || (t_response_status_number t =? 304) then c0 else c0) = c0) by (destruct (_ || _ || _); reflexivity).
  assert (Ehead : (t_request_method_number t =? c_HTP_M_HEAD) = false) by (apply Z.eqb_eq in Hm; rewrite Hm; reflexivity).
  rewrite Ehead in Ef. rewrite Eif in Ef. clear Eif.
  assert (E100 : (t_response_status_number t =? 100) && true && negb (0 <? Z.of_nat n) = false).
  { rewrite andb_true_r. destruct (t_response_status_number t =? 100); [|reflexivity]. cbn [andb] in *. destruct n; [discriminate|].
    apply negb_false_iff. apply Z.ltb_lt. lia. }
  rewrite E100 in Ef. rewrite (ti_state _ _ _ _ _ _ _ _ _ H0) in Ef. cbn [res_state_eqb negb] in Ef.
  assert (Ev : (Z.of_nat n <? 0) = false) by (apply Z.ltb_ge; lia). rewrite Ev in Ef.
  (* Content-Type *)
  set (t1 := match rs_hdr_get_c (t_response_headers t) rs_str_content_type with
             | Some hc => t <| t_response_content_type := Some (rs_content_type (h_value hc)) |>
             | None => t
             end).
  assert (HT : exists cT, match rs_hdr_get_c (t_response_headers t) rs_str_content_type with
                          | Some h0 => rs_otx (fun t => t <| t_response_content_type := Some (rs_content_type (h_value h0)) |>) c0
                          | None => c0
                          end = cT /\ tr_cinw (tv_unblock w) cT d rd [] None RES_BODY_DETERMINE (Some RES_BODY_DETERMINE) (Some H_RESPONSE_HEADER_DATA) t1).
  { unfold t1. destruct (rs_hdr_get_c (t_response_headers t) rs_str_content_type) as [hc|].
    - rewrite (tr_otx c0 d rd _ _ _ _ _ t _ H0). eexists. split; [reflexivity|]. eapply tr_cin_txs. exact H0.
    - exists c0. split; [reflexivity|exact H0]. }
  destruct HT as (cT & ET & HT). rewrite ET in Ef. clear ET.
  rewrite (tr_otx cT d rd _ _ _ _ _ t1 _ HT) in Ef.
  set (t2 := (if flag_has (h_flags h) c_HTP_FIELD_REPEATED
              then t1 <| t_response_transfer_coding := c_HTP_CODING_IDENTITY |> <| t_flags :=
                     flag_set (t_flags (t1 <| t_response_transfer_coding := c_HTP_CODING_IDENTITY |>)) c_HTP_REQUEST_SMUGGLING |>
              else t1 <| t_response_transfer_coding := c_HTP_CODING_IDENTITY |>) <| t_response_content_length := Z.of_nat n |>) in *.
  set (c2 := cT <| c_txs := (tr_txs (tv_unblock w) t2) |>) in *.
  assert (H2 : tr_cinw (tv_unblock w) c2 d rd [] None RES_BODY_DETERMINE (Some RES_BODY_DETERMINE) (Some H_RESPONSE_HEADER_DATA) t2) by (eapply tr_cin_txs; exact HT).
  set (c3 := c2 <| c_out_content_length := Z.of_nat n |> <| c_out_body_data_left := Z.of_nat n |>) in *.
  assert (H3 : tr_cinw (tv_unblock w) c3 d rd [] None RES_BODY_DETERMINE (Some RES_BODY_DETERMINE) (Some H_RESPONSE_HEADER_DATA) t2) by (apply (tr_cin_ext c2); try reflexivity; exact H2).
  destruct n as [|n'].
  - change ((Z.of_nat 0 =? 0)) with true in Ef. cbn [negb] in Ef.
    assert (H4 : tr_cinw (tv_unblock w) (rs_set_state RES_FINALIZE c3) d rd [] None RES_FINALIZE (Some RES_BODY_DETERMINE) (Some H_RESPONSE_HEADER_DATA) t2) by (eapply tr_cin_state; exact H3).
    destruct (tr_response_headers cb Hcb _ d rd _ _ t2 H4) as (c5 & E5 & H5 & _). rewrite E5 in Ef.
    destruct (tr_iter_ok cb g c c5 d rd _ _ _ _ _ _ Ef H5) as (c6 & E6 & H6); [discriminate|].
    exists c6. split; [exact E6|].
    assert (Et : sr_hdrs_tx t = t2 <| t_res_cep := c_HTP_COMPRESSION_NONE |>).
    { unfold sr_hdrs_tx, sr_det_tx. rewrite Ecl. cbv zeta. fold t1. rewrite Hv. reflexivity. }
    rewrite Et. exact H6.
  - assert (Nz : (Z.of_nat (S n') =? 0) = false) by (apply Z.eqb_neq; lia). rewrite Nz in Ef. cbn [negb] in Ef.
    rewrite (tr_otx c3 d rd _ _ _ _ _ t2 _ H3) in Ef.
    set (t3 := t2 <| t_response_progress := c_HTP_RESPONSE_BODY |>) in *.
    assert (H4 : tr_cinw (tv_unblock w) (rs_set_state RES_BODY_IDENTITY_CL_KNOWN (c3 <| c_txs := (tr_txs (tv_unblock w) t3) |>)) d rd [] None RES_BODY_IDENTITY_CL_KNOWN (Some RES_BODY_DETERMINE) (Some H_RESPONSE_HEADER_DATA) t3).
    { eapply tr_cin_state. eapply tr_cin_txs. exact H3. }
    destruct (tr_response_headers cb Hcb _ d rd _ _ t3 H4) as (c5 & E5 & H5 & L5). rewrite E5 in Ef.
    destruct (tr_iter_ok_left cb g c c5 d rd _ _ _ _ _ _ Ef H5) as (c6 & E6 & H6 & L6); [discriminate|].
    exists c6. split; [exact E6|].
    assert (Et : sr_hdrs_tx t = t3 <| t_res_cep := c_HTP_COMPRESSION_NONE |>).
    { unfold sr_hdrs_tx, sr_det_tx. rewrite Ecl. cbv zeta. fold t1. rewrite Hv, Nz. reflexivity. }
    rewrite Et. split; [exact H6|]. rewrite L6, L5. reflexivity.
Qed.
End Determine.

(* ================= the refused answer, any chunking ================= *)
Definition tv_w2 (rq : connp) : tr_world := mk_tr_world [] [] rq true.

Section RefR.
Variable cb : cb_oracle.
Variable g : cfg.
Hypothesis Hcb : wr_all_ok cb.
Variable t0 : tx.                                          (* the transaction the CONNECT request left *)
Hypothesis H09 : t_is_protocol_0_9 t0 = false.
Hypothesis Hrp : t_response_progress t0 <= c_HTP_RESPONSE_LINE.
Hypothesis Hrq : (t_request_progress t0 =? c_HTP_REQUEST_COMPLETE) = false.
Variables ps s r : bytes.
Variable ls : list sg_fl.
Variable body : bytes.
Hypothesis Wl : sr_status_ok ps s r = true.
Hypothesis Okl : forallb sg_fl_ok ls = true.
Hypothesis Hnp0 : sg_needs_pending ls = false.
Let line0 := wr_ser_status_line ps s r.
Let th0 := sr_th0 t0 line0.
Let Tend := sr_lrun ls (None, th0).
Let n := length body.
Let TH := sr_hdrs_tx Tend.
Let has_hdr := negb (sr_is_nil ls).
Hypothesis Hframe : tv_frame_ok Tend n = true.
Hypothesis Hlim0 : (length line0 + 2 <= g_field_limit_hard g)%nat.
Hypothesis Hfit : sr_ffit (g_field_limit_hard g) (sr_p11 th0) None ls = true.
Let bwt := sg_fwire ls ++ [CR; LF] ++ body.
(* the transaction when RES_FINALIZE is reached, and when the response is complete *)
Let Tpre := match n with O => TH | S _ => sr_body_add 0 (sr_body_add' n TH) end.
Definition tv_tdone : tx := tn_tcomplete Tpre.
Notation tc_tt rq := (tt_betw g (w := tc_w rq) ps s r ls t0 body).
Notation okd := (sr_f1_local body has_hdr).

Lemma tv_Tend_facts : t_response_progress Tend = c_HTP_RESPONSE_HEADERS /\ (t_request_progress Tend =? c_HTP_REQUEST_COMPLETE) = false.
Proof.
  unfold Tend. destruct (sr_lrun_keep ls (None, th0)) as [A B]. cbn [snd] in A, B. destruct (sr_th0_keep t0 line0) as [C D]. fold th0 in C, D.
  rewrite A, B, C, D. split; [reflexivity|exact Hrq].
Qed.
Lemma tv_TH_facts k : t_res_cep (sr_body_add' k TH) = c_HTP_COMPRESSION_NONE /\
  (t_response_progress (sr_body_add' k TH) =? c_HTP_RESPONSE_COMPLETE) = false /\ (t_request_progress (sr_body_add' k TH) =? c_HTP_REQUEST_COMPLETE) = false.
Proof.
  destruct tv_Tend_facts as [P R]. destruct (sr_body_add'_facts k TH) as (A' & _ & C' & D'). rewrite A', C', D'. clear A' C' D'.
  unfold tv_frame_ok in Hframe. apply andb_prop in Hframe. destruct Hframe as [_ Hcl].
  unfold TH, sr_hdrs_tx, sr_det_tx. destruct (rs_hdr_get_c (t_response_headers Tend) rs_str_content_length) as [h|]; [|discriminate]. cbv zeta.
  destruct (rs_hdr_get_c (t_response_headers Tend) rs_str_content_type) as [hc|]; destruct (flag_has (h_flags h) c_HTP_FIELD_REPEATED);
    destruct (negb (parse_content_length (h_value h) =? 0)); cbn; rewrite ?P, ?R; repeat split; reflexivity.
Qed.
Lemma tv_Tpre_facts : t_res_cep Tpre = c_HTP_COMPRESSION_NONE /\ (t_response_progress Tpre =? c_HTP_RESPONSE_COMPLETE) = false /\
  (t_request_progress Tpre =? c_HTP_REQUEST_COMPLETE) = false.
Proof.
  unfold Tpre. generalize (tv_TH_facts 0) (tv_TH_facts n). generalize n. intros m F0 Fm. destruct m; [exact F0|].
  destruct Fm as (A & B & C). repeat split; assumption.
Qed.

(* the request-side frame: as in PTunConnR, and the CONNECT request announced no body *)
Definition tv_wfr (rq : connp) : Prop := tc_wfr rq /\ c_in_content_length rq = -1.
Lemma tv_wfr_unblock rq : tv_wfr rq -> tv_wfr (rq <| c_in_status := c_HTP_STREAM_DATA |>).
Proof. intros [[A1 A2 A3 A4 A5 A6 A7 A8] C]. split; [constructor; try assumption; left; reflexivity|exact C]. Qed.

(* the states in which a response call may end (before finish_call) *)
Inductive tv_mid (c : connp) (rw : bytes) : Prop :=
| VM_head : tv_wfr (tn_rq c) -> tc_tt (tn_rq c) c rw -> tv_mid c rw
| VM_body k : (k < n)%nat -> tv_wfr (tn_rq c) -> c_in_status (tn_rq c) = c_HTP_STREAM_DATA ->
    tr_midw (tv_w2 (tn_rq c)) c [] None RES_BODY_IDENTITY_CL_KNOWN None (sr_body_add' k TH) ->
    c_out_body_data_left c = Z.of_nat (n - k) -> rw = skipn k body -> tv_mid c rw.
Definition tv_post (cF : connp) (rw' : bytes) : Prop :=
  (rw' <> [] /\ tv_mid cF rw') \/ (rw' = [] /\ tv_wfr (tn_rq cF) /\ c_in_status (tn_rq cF) = c_HTP_STREAM_DATA /\ tr_after (tv_w2 (tn_rq cF)) cF (Some tv_tdone)).
Definition tv_res (d : bytes) (c : connp) (fuel : nat) (rw' : bytes) : Prop :=
  exists cF, rs_res_loop cb g fuel false c = (cF, c_HTP_STREAM_DATA) /\ k_read (c_out cF) = length d /\ tv_post cF rw'.
Definition tv_goal (rq : connp) (d : bytes) (c : connp) (fuel : nat) (rw' : bytes) : Prop := tv_wfr rq -> tv_res d c fuel rw'.

Lemma tv_res_step d c c' fuel rw' : sr_iter cb g c = inr c' -> tv_res d c' fuel rw' -> tv_res d c (S fuel) rw'.
Proof. intros E (cF & EF & X). exists cF. split; [rewrite (sr_loop_inr cb g _ _ _ E); exact EF|exact X]. Qed.
Lemma tv_Hstep rq d c c' fuel rw' : sr_iter cb g c = inr c' -> tv_goal rq d c' fuel rw' -> tv_goal rq d c (S fuel) rw'.
Proof. intros E G W. apply (tv_res_step d c c' fuel rw' E). apply G. exact W. Qed.
Lemma tv_Hexit rq (d : bytes) c cF fuel rw' : sr_iter cb g c = inl (cF, c_HTP_STREAM_DATA) -> tc_tt rq cF rw' -> rw' <> [] ->
  k_read (c_out cF) = length d -> tv_goal rq d c (S fuel) rw'.
Proof.
  intros E B Hne Hk W. exists cF. split; [apply (sr_loop_inl cb g _ _ _ E)|]. split; [exact Hk|].
  assert (Er : tn_rq cF = rq) by (destruct B as [p q Hm' _ _ _|p hdr t Hm' _ _]; exact (tm_intx _ _ _ _ _ _ Hm')).
  left. split; [exact Hne|]. apply VM_head; rewrite Er; assumption.
Qed.

(* ---- RES_FINALIZE at the end of the chunk: the response side yields ---- *)
Lemma tv_finish rq c d f : tv_wfr rq -> c_in_status rq = c_HTP_STREAM_DATA ->
  tr_cinw (tv_w2 rq) c d (length d) [] None RES_FINALIZE (Some RES_FINALIZE) None Tpre -> tv_res d c (2 + f) [].
Proof.
  intros W Hs H. destruct tv_Tpre_facts as (A & B & C).
  destruct (tr_finalize_end cb g Hcb c d _ f H A B C) as (cF & EF & HA & Hk & _).
  { unfold tr_waits. cbn [tv_w2 tw_rq]. rewrite Hs. reflexivity. }
  exists cF. split; [exact EF|]. split; [exact Hk|]. right. split; [reflexivity|].
  pose proof (tf_rq _ _ _ HA) as Er. cbn [tv_w2 tw_rq] in Er. rewrite Er. split; [exact W|split; [exact Hs|exact HA]].
Qed.

(* ---- RES_BODY_IDENTITY_CL_KNOWN ---- *)
Lemma tv_run_body rq c d rd k (rw' : bytes) fuel : tv_wfr rq -> c_in_status rq = c_HTP_STREAM_DATA ->
  tr_cinw (tv_w2 rq) c d rd [] None RES_BODY_IDENTITY_CL_KNOWN (Some RES_BODY_IDENTITY_CL_KNOWN) None (sr_body_add' k TH) ->
  (k < n)%nat -> c_out_body_data_left c = Z.of_nat (n - k) -> skipn rd d ++ rw' = skipn k body ->
  (4 <= fuel)%nat -> tv_res d c fuel rw'.
Proof.
  intros W Hs H Hk Hl Hw Hf. pose proof (ti_rd _ _ _ _ _ _ _ _ _ H) as Hrd.
  destruct (tv_TH_facts k) as (Fc & Fp & Fr).
  assert (Lsk : length (skipn rd d) = (length d - rd)%nat) by apply skipn_length.
  assert (Lsb : length (skipn k body) = (n - k)%nat) by apply skipn_length.
  assert (Lw : (length d - rd + length rw' = n - k)%nat) by (rewrite <- Lsk, <- Lsb, <- app_length, Hw; reflexivity).
  destruct fuel as [|f]; [lia|].
  destruct (le_lt_dec (n - k) (length d - rd)) as [Lge|Llt].
  - (* the body ends in this chunk, and the chunk with it *)
    assert (Erw : rw' = []) by (destruct rw'; [reflexivity|cbn [length] in Lw; lia]).
    destruct (tr_body_pass_end cb g Hcb c d rd _ (n - k) H Fc Hl ltac:(lia) Lge) as (c1 & E1 & H1).
    apply (tv_res_step d c c1 f rw' E1). rewrite Erw in *. cbn [length] in Lw.
    rewrite (sr_body_add_fuse (n - k) k TH ltac:(lia)) in H1. replace (k + (n - k))%nat with n in H1 by lia.
    assert (Et : sr_body_add 0 (sr_body_add' n TH) = Tpre) by (unfold Tpre; destruct n; [lia|reflexivity]). rewrite Et in H1.
    replace (rd + (n - k))%nat with (length d) in H1 by lia.
    replace f with (2 + (f - 2))%nat by lia. apply (tv_finish rq c1 d _ W Hs H1).
  - (* the chunk ends inside the body *)
    pose proof (tr_body_pass cb g Hcb c d rd _ (n - k) H Fc Hl ltac:(lia) ltac:(lia)) as P. cbv zeta in P.
    assert (Erw : rw' = skipn (k + (length d - rd)) body).
    { assert (E : skipn (length d - rd) (skipn rd d ++ rw') = rw') by (rewrite skipn_app, skipn_all2 by lia; rewrite Lsk, Nat.sub_diag; reflexivity).
      rewrite Hw, sr_skipn_skipn in E. symmetry. exact E. }
    assert (Hne : rw' <> []) by (intro E; rewrite E in Lw; cbn [length] in Lw; lia).
    destruct (length d - rd)%nat as [|j'] eqn:Ej.
    + exists (rs_set_out_status c_HTP_STREAM_DATA c). split; [apply (sr_loop_inl cb g _ _ _ P)|].
      assert (Erd : rd = length d) by lia. subst rd.
      split; [exact (ti_read _ _ _ _ _ _ _ _ _ H)|]. left. split; [exact Hne|]. rewrite Nat.add_0_r in Erw.
      destruct (tr_exit_data cb g c d _ None _ _ H) as [_ M].
      pose proof (tm_intx _ _ _ _ _ _ M) as Er. cbn [tv_w2 tw_rq] in Er.
      apply (VM_body _ _ k Hk); rewrite ?Er; [exact W|exact Hs|exact M|exact Hl|exact Erw].
    + rewrite <- Ej in *. set (j := (length d - rd)%nat) in *.
      assert (Elt : (j <? n - k)%nat = true) by (apply Nat.ltb_lt; exact Llt). rewrite Elt in P. destruct P as (c1 & E1 & H1 & L1).
      exists (rs_set_out_status c_HTP_STREAM_DATA c1). split; [apply (sr_loop_inl cb g _ _ _ E1)|].
      split; [exact (ti_read _ _ _ _ _ _ _ _ _ H1)|]. left. split; [exact Hne|].
      rewrite (sr_body_add_fuse j k TH ltac:(lia)) in H1.
      destruct (tr_exit_data cb g c1 d _ None _ _ H1) as [_ M].
      pose proof (tm_intx _ _ _ _ _ _ M) as Er. cbn [tv_w2 tw_rq] in Er.
      apply (VM_body _ _ (k + j)%nat); rewrite ?Er; [lia|exact W|exact Hs|exact M| |exact Erw].
      change (c_out_body_data_left (rs_set_out_status c_HTP_STREAM_DATA c1)) with (c_out_body_data_left c1). rewrite L1. f_equal. lia.
Qed.

(* ---- after the empty line: RES_BODY_DETERMINE unblocks the request side; then the body or RES_FINALIZE ---- *)
Lemma tv_Ktail rq c c1 d rd1 (rw' : bytes) fuel : okd d rw' -> c_out_state c = RES_HEADERS -> rs_state_fn cb g RES_HEADERS c = (ST_OK, c1) ->
  tr_cinw (tc_w rq) c1 d rd1 [] None RES_BODY_DETERMINE (Some RES_HEADERS) (Some H_RESPONSE_HEADER_DATA) Tend -> skipn rd1 d ++ rw' = body ->
  (8 * (length d - rd1) + 16 <= fuel)%nat -> tv_goal rq d c fuel rw'.
Proof.
  intros _ Es Ef H1 Hw Hf W. pose proof W as [Wc Wl0].
  rewrite <- Es in Ef. destruct (tr_iter_ok cb g c c1 d _ _ _ _ _ _ _ Ef H1) as (c2 & E2 & H2); [discriminate|].
  assert (Hin : c_in_status (tw_rq (tc_w rq)) <> c_HTP_STREAM_ERROR) by (cbn [tc_w tw_rq]; destruct (wf_status _ Wc) as [E|E]; rewrite E; intro X; vm_compute in X; discriminate).
  assert (Hcl : c_in_content_length (tw_rq (tc_w rq)) <= 0) by (cbn [tc_w tw_rq]; rewrite Wl0; lia).
  destruct (tr_pass_determine_refused cb g Hcb c2 d _ Tend n H2 Hframe Hin Hcl) as (c3 & E3 & H3).
  destruct fuel as [|[|f]]; [lia|lia|].
  apply (tv_res_step d c c2 _ rw' E2). apply (tv_res_step d c2 c3 _ rw' E3).
  set (rq' := rq <| c_in_status := c_HTP_STREAM_DATA |>).
  assert (W' : tv_wfr rq') by (apply tv_wfr_unblock; exact W).
  change (tv_unblock (tc_w rq)) with (tv_w2 rq') in H3.
  assert (Hc : (n = 0%nat /\ tr_cinw (tv_w2 rq') c3 d rd1 [] None RES_FINALIZE (Some RES_FINALIZE) None TH) \/
               ((0 < n)%nat /\ tr_cinw (tv_w2 rq') c3 d rd1 [] None RES_BODY_IDENTITY_CL_KNOWN (Some RES_BODY_IDENTITY_CL_KNOWN) None TH /\ c_out_body_data_left c3 = Z.of_nat n)).
  { clear - H3. destruct n as [|n']; [left; split; [reflexivity|exact H3]|right; split; [lia|exact H3]]. }
  clear H3. destruct Hc as [[En H3]|[Hpos [H3 L3]]].
  - assert (Eb : body = []) by (apply length_zero_iff_nil; exact En). rewrite Eb in Hw. apply app_eq_nil in Hw. destruct Hw as [Hs Hrw].
    assert (Erd : rd1 = length d) by (pose proof (sg_skipn_nil _ _ Hs); pose proof (ti_rd _ _ _ _ _ _ _ _ _ H3); lia). subst rd1.
    assert (Et : TH = Tpre) by (unfold Tpre; rewrite En; reflexivity). rewrite Et in H3. rewrite Hrw.
    replace f with (2 + (f - 2))%nat by lia. apply (tv_finish rq' c3 d _ W' eq_refl H3).
  - apply (tv_run_body rq' c3 d rd1 0 rw' f W' eq_refl H3 Hpos); [rewrite L3; f_equal; lia|exact Hw|lia].
Qed.

(* ---- the states between two calls ---- *)
Inductive tv_betw (c : connp) (rw : bytes) : Prop :=
| VB_head : tc_betw g t0 ps s r ls body c rw -> c_in_content_length (tn_rq c) = -1 -> tv_betw c rw
| VB_body k : (k < n)%nat -> tv_wfr (tn_rq c) -> c_in_status (tn_rq c) = c_HTP_STREAM_DATA ->
    tr_midw (tv_w2 (tn_rq c)) c [] None RES_BODY_IDENTITY_CL_KNOWN None (sr_body_add' k TH) ->
    c_out_body_data_left c = Z.of_nat (n - k) -> rw = skipn k body -> tv_betw c rw.

Lemma tv_mid_finish cF rw' : tv_mid cF rw' -> tv_betw (tn_fin cF) rw'.
Proof.
  intros [[Wc Wl0] B|k Hk [Wc Wl0] Hs M Hl Erw].
  - pose proof (tn_rq_fin_stable cF _ eq_refl (wf_stable _ Wc)) as Er.
    apply VB_head; [apply CB_in; rewrite Er; [exact Wc|apply tt_betw_finish; [exact B|exact (wf_stable _ Wc)]]|rewrite Er; exact Wl0].
  - pose proof (tn_rq_fin_stable cF _ eq_refl (wf_stable _ Wc)) as Er.
    apply (VB_body _ _ k Hk); rewrite ?Er; [split; assumption|exact Hs| |exact Hl|exact Erw].
    apply tr_mid_finish; [exact M|exact (wf_stable _ Wc)].
Qed.

(* ---- one response call ---- *)
Lemma tv_step c (rw x rw' : bytes) : tv_betw c rw -> x <> [] -> rw = x ++ rw' -> okd x rw' ->
  exists cF, connp_res_data cb g (Some x) (length x) c = (cF, c_HTP_STREAM_DATA) /\ k_read (c_out cF) = length x /\ tv_post cF rw'.
Proof.
  intros B Hne Ex Hok.
  assert (Hokd : forall d0 rw0 : bytes, okd d0 rw0 -> sr_f1_local body (negb (sr_is_nil ls)) d0 rw0) by (intros d0 rw0 X; exact X).
  destruct B as [[Wf Hr Erw|Wf Hb] Hcl|k Hk W Hs M Hl Erw].
  - destruct (tr_enter_ready cb g _ c t0 x Hr Hne) as (c1 & E1 & H1 & _). rewrite E1.
    assert (Lx : (0 < length x)%nat) by (destruct x; [contradiction|cbn; lia]).
    apply (tt_run_idle cb g Hcb ps s r ls t0 body Wl Okl Hnp0 H09 Hlim0 Hfit okd Hokd (tv_goal (tn_rq c))
             (tv_Hstep (tn_rq c)) (tv_Hexit (tn_rq c)) (tv_Ktail (tn_rq c)) c1 x 0%nat [] (line0 ++ [CR; LF]) _ rw' _ Hok H1 Lx eq_refl).
    + intro E. apply app_eq_nil in E. destruct E as [_ E]. discriminate.
    + cbn [skipn]. rewrite <- Ex. exact Erw.
    + unfold rs_res_fuel. lia.
    + split; assumption.
  - destruct (tt_step cb g Hcb ps s r ls t0 body Wl Okl Hnp0 Hlim0 Hfit okd Hokd (tv_goal (tn_rq c))
               (tv_Hstep (tn_rq c)) (tv_Hexit (tn_rq c)) (tv_Ktail (tn_rq c)) c rw x rw' Hb Hne Ex Hok) as (c1 & E1 & G1).
    rewrite E1. apply G1. split; assumption.
  - destruct (tr_enter_left cb g c [] None _ _ _ x M Hne) as (c1 & E1 & H1 & L1). unfold bytes in E1 |- *. rewrite E1.
    apply (tv_run_body (tn_rq c) c1 x 0 k rw' _ W Hs H1 Hk); [rewrite L1; exact Hl|cbn [skipn]; rewrite <- Ex; exact Erw|unfold rs_res_fuel; lia].
Qed.

(* ---- the response phase: response chunks, each possibly preceded by request data calls that are turned away ---- *)
(* finding F1 of the response direction (PSegResHdr.sr_f1_local: a body that starts with CR must not arrive in the chunk in which the LF of
   the empty line is at the top of the loop of RES_HEADERS) has to be excluded chunk by chunk *)
Fixpoint tv_f1_ok (items : list (list bytes * bytes)) : Prop :=
  match items with
  | [] => True
  | it :: rest => okd (snd it) (concat (map snd rest)) /\ tv_f1_ok rest
  end.

Lemma tv_betw_wfr c rw : tv_betw c rw -> tv_wfr (tn_rq c).
Proof. intros [B Hc|k Hk W _ _ _ _]; [split; [apply (tc_betw_wfr g t0 ps s r ls body c rw B)|exact Hc]|exact W]. Qed.

Lemma tv_refs (refs : list bytes) c rw : tv_betw c rw -> (refs = [] \/ (length bwt < length rw)%nat) -> Forall (fun x : bytes => x <> []) refs ->
  tv_betw (fst (cp_run cb g c (map OpReqData refs))) rw /\
  map tn_o (snd (cp_run cb g c (map OpReqData refs))) = map (fun _ : bytes => (c_HTP_STREAM_DATA_OTHER, 0%nat)) refs /\
  Forall tn_rquiet (snd (cp_run cb g c (map OpReqData refs))).
Proof.
  intros B Hl Hall. destruct B as [B Hc|k Hk W Hs M Hb Erw].
  - destruct (tc_refs cb g t0 Hrp ps s r ls Hlim0 body refs c rw B Hl Hall) as (B1 & O1 & Q1 & C1).
    split; [|split; assumption]. apply VB_head; [exact B1|]. change (c_in_content_length (fst (cp_run cb g c (map OpReqData refs))) = -1). rewrite C1. exact Hc.
  - assert (E : refs = []).
    { destruct Hl as [E|L]; [exact E|]. exfalso. rewrite Erw, skipn_length in L. unfold bwt in L. rewrite !app_length in L. fold n in L. lia. }
    subst refs. cbn [map cp_run fst snd]. split; [apply (VB_body _ _ k Hk W Hs M Hb Erw)|split; [reflexivity|constructor]].
Qed.

Theorem tv_phase : forall (items : list (list bytes * bytes)) c rw, tv_betw c rw -> rw <> [] -> concat (map snd items) = rw ->
  tc_items_ne items -> tc_refs_ok ls body items -> tv_f1_ok items ->
  let cF := fst (cp_run cb g c (tc_ops items)) in
  tv_wfr (tn_rq cF) /\ c_in_status (tn_rq cF) = c_HTP_STREAM_DATA /\ tr_after (tv_w2 (tn_rq cF)) cF (Some tv_tdone) /\ c_events cF = [] /\
  map tn_o (snd (cp_run cb g c (tc_ops items))) = tc_expect items /\ Forall tn_rquiet (snd (cp_run cb g c (tc_ops items))).
Proof.
  induction items as [|[refs x] rest IH]; intros c rw B Hne Hc Hall Hr Hf1 cF; unfold cF; clear cF.
  - cbn [map concat] in Hc. congruence.
  - cbn [map concat snd] in Hc. destruct Hr as [Hr1 Hr2]. cbn [fst snd map concat] in Hr1. fold bwt in Hr1. rewrite Hc in Hr1.
    destruct Hf1 as [Hf1 Hf2]. cbn [snd] in Hf1.
    pose proof (Forall_inv Hall) as [Hrefs Hx]. cbn [fst snd] in Hrefs, Hx. pose proof (Forall_inv_tail Hall) as Hall'.
    change (tc_ops ((refs, x) :: rest)) with ((map OpReqData refs ++ [OpResData x]) ++ tc_ops rest).
    change (tc_expect ((refs, x) :: rest)) with ((map (fun _ : bytes => (c_HTP_STREAM_DATA_OTHER, 0%nat)) refs ++ [(c_HTP_STREAM_DATA, length x)]) ++ tc_expect rest).
    rewrite tn_run_app. cbn [fst snd]. rewrite (tn_run_app cb g (map OpReqData refs)). cbn [fst snd].
    destruct (tv_refs refs c rw B Hr1 Hrefs) as (B1 & O1 & Q1).
    set (c1 := fst (cp_run cb g c (map OpReqData refs))) in *.
    rewrite tn_run_cons. cbn [cp_run fst snd]. rewrite tn_step_res.
    destruct (tv_step c1 rw x (concat (map snd rest)) B1 Hx (eq_sym Hc) Hf1) as (c2 & E2 & K2 & P2).
    unfold bytes in E2 |- *. rewrite E2. cbn [fst snd].
    assert (W2 : tv_wfr (tn_rq c2)) by (destruct P2 as [[_ [W _|k _ W _ _ _ _]]|[_ [W _]]]; exact W).
    assert (Q2 : tn_rquiet (tn_res c2 c_HTP_STREAM_DATA (k_read (c_out c2)))).
    { unfold tn_rquiet, tn_res, finish_call. cbn [snd r_in_status]. destruct (tn_rq_proj _ _ (eq_refl (tn_rq c2))) as (X & _). rewrite X.
      apply (tc_wfr_quiet (tn_rq c2)). exact (proj1 W2). }
    assert (O2 : tn_o (tn_res c2 c_HTP_STREAM_DATA (k_read (c_out c2))) = (c_HTP_STREAM_DATA, length x)).
    { unfold tn_o, tn_res, finish_call. cbn [snd r_rc r_consumed]. rewrite K2. reflexivity. }
    assert (Hcase : concat (map snd rest) = [] \/ concat (map snd rest) <> []) by (destruct (concat (map snd rest)); [left; reflexivity|right; discriminate]).
    destruct Hcase as [Erest|Hne'].
    + rewrite Erest in P2. rewrite (tc_concat_nil rest Hall' Erest). cbn [tc_ops tc_expect flat_map cp_run fst snd]. rewrite !app_nil_r.
      destruct P2 as [[X _]|(_ & _ & S2 & A2)]; [contradiction|].
      pose proof (tn_rq_fin_stable c2 _ eq_refl (wf_stable _ (proj1 W2))) as Er.
      split; [rewrite Er; exact W2|]. split; [rewrite Er; exact S2|]. split; [rewrite Er; apply tr_after_finish; [exact A2|exact (wf_stable _ (proj1 W2))]|]. split; [reflexivity|].
      split; [rewrite map_app; apply f_equal2; [exact O1|cbn [map]; f_equal; exact O2]|]. apply Forall_app. split; [exact Q1|constructor; [exact Q2|constructor]].
    + destruct P2 as [[_ M2]|[X _]]; [|contradiction].
      pose proof (tv_mid_finish c2 _ M2) as B3.
      destruct (IH (tn_fin c2) _ B3 Hne' eq_refl Hall' Hr2 Hf2) as (W4 & S4 & A4 & E4 & O4 & Q4).
      split; [exact W4|]. split; [exact S4|]. split; [exact A4|]. split; [exact E4|]. split.
      * rewrite !map_app. apply f_equal2; [apply f_equal2; [exact O1|cbn [map]; f_equal; exact O2]|exact O4].
      * apply Forall_app. split; [apply Forall_app; split; [exact Q1|constructor; [exact Q2|constructor]]|exact Q4].
Qed.
End RefR.
