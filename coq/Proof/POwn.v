(* Proofs about the ownership model (C18).  Style: a weakest-precondition predicate [ow_wp] over the
   state monad; heaps are compared as multisets through the counting function [cnt], so that every
   side condition is linear arithmetic over the atoms [ind a j] / [cnt j l] and is closed by lia.
   The failure schedule is universally quantified: it is part of the state, and the rule for an
   allocation splits on the schedule bit that is consulted. *)
Require Import Htp.Model.Base Htp.Model.MOwn.

(* ------------------------------------------------------------------ counting *)
Definition ind (a j : nat) : nat := if a =? j then 1 else 0.
Arguments ind : simpl never.
Fixpoint cnt (j : nat) (l : list nat) : nat := match l with [] => 0 | a :: r => ind a j + cnt j r end.
Definition cnto (j : nat) (o : ow_oid) : nat := match o with Some a => ind a j | None => 0 end.
Fixpoint olist (l : list ow_oid) : list nat :=
  match l with [] => [] | Some a :: r => a :: olist r | None :: r => olist r end.

Lemma ind_refl a : ind a a = 1.
Proof. unfold ind. now rewrite Nat.eqb_refl. Qed.
Lemma ind_le a j : ind a j <= 1.
Proof. unfold ind. destruct (a =? j); lia. Qed.
Lemma ind_neq a j : a <> j -> ind a j = 0.
Proof. unfold ind. intros H. destruct (a =? j) eqn:E; auto. apply Nat.eqb_eq in E. contradiction. Qed.
Lemma ind_eq1 a j : ind a j = 1 -> a = j.
Proof. unfold ind. destruct (a =? j) eqn:E; try discriminate. intros _. now apply Nat.eqb_eq. Qed.
Lemma ind_sym a j : ind a j = ind j a.
Proof. unfold ind. now rewrite Nat.eqb_sym. Qed.

Lemma cnt_app j l1 l2 : cnt j (l1 ++ l2) = cnt j l1 + cnt j l2.
Proof. induction l1; cbn; lia. Qed.
Lemma cnt_cons j a l : cnt j (a :: l) = ind a j + cnt j l.
Proof. reflexivity. Qed.
Lemma cnt_nil j : cnt j [] = 0.
Proof. reflexivity. Qed.
Lemma cnt_olist_cons j o l : cnt j (olist (o :: l)) = cnto j o + cnt j (olist l).
Proof. destruct o; reflexivity. Qed.
Lemma cnt_olist_nil j : cnt j (olist []) = 0.
Proof. reflexivity. Qed.
Lemma cnt_olist_app j l1 l2 : cnt j (olist (l1 ++ l2)) = cnt j (olist l1) + cnt j (olist l2).
Proof. induction l1 as [|[a|] r IH]; cbn; lia. Qed.
Lemma cnto_some j a : cnto j (Some a) = ind a j.
Proof. reflexivity. Qed.
Lemma cnto_none j : cnto j None = 0.
Proof. reflexivity. Qed.

Lemma cnt_del j i l : cnt j (ow_del i l) = if i =? j then 0 else cnt j l.
Proof.
  unfold ow_del. induction l as [|a r IH]; cbn [filter cnt].
  - now destruct (i =? j).
  - destruct (i =? a) eqn:E; cbn [negb cnt].
    + rewrite IH. apply Nat.eqb_eq in E. subst a. unfold ind. destruct (i =? j); lia.
    + rewrite IH. unfold ind. destruct (i =? j) eqn:E2; auto.
      apply Nat.eqb_eq in E2. subst j. rewrite Nat.eqb_sym, E. lia.
Qed.

Lemma mem_cnt i l : ow_mem i l = true <-> 1 <= cnt i l.
Proof.
  induction l as [|a r IH]; cbn.
  - split; [discriminate | lia].
  - unfold ind. rewrite (Nat.eqb_sym a i). destruct (i =? a); cbn; [split; [lia | auto] | exact IH].
Qed.

Lemma cnt_zero_nil l : (forall j, cnt j l = 0) -> l = [].
Proof. destruct l as [|a r]; auto. intros H. specialize (H a). cbn in H. rewrite ind_refl in H. lia. Qed.

#[export] Hint Rewrite cnt_app cnt_cons cnt_nil cnt_olist_cons cnt_olist_nil cnt_olist_app cnto_some cnto_none ind_refl : cnt.

(* ------------------------------------------------------------------ states *)
Record ow_ok (s : ow_state) : Prop := mk_ok {
  ok_nodup : forall i, cnt i (oos_live s) <= 1;
  ok_bound : forall i, oos_next s <= i -> cnt i (oos_live s) = 0
}.

(* s2 is s1 after some frees: nothing else changed *)
Definition ow_same (s1 s2 : ow_state) : Prop :=
  oos_next s2 = oos_next s1 /\ oos_sched s2 = oos_sched s1 /\ oos_cnt s2 = oos_cnt s1.

(* the heap consists exactly of the cells [ids] *)
Definition ow_own (ids : list nat) (s : ow_state) : Prop :=
  ow_ok s /\ forall j, cnt j (oos_live s) = cnt j ids.

Lemma ow_init_own sched : ow_own [] (ow_init sched).
Proof. split; [split|]; cbn; auto. Qed.

(* ------------------------------------------------------------------ weakest preconditions *)
Definition ow_wp {A} (m : ow_M A) (Q : A -> ow_state -> Prop) (s : ow_state) : Prop :=
  match m s with OwOk a s' => Q a s' | OwFault _ _ => False end.

Lemma wp_ret {A} (a : A) (Q : A -> ow_state -> Prop) s : Q a s -> ow_wp (ow_ret a) Q s.
Proof. auto. Qed.
Lemma wp_bind {A B} (m : ow_M A) (f : A -> ow_M B) (Q : B -> ow_state -> Prop) s :
  ow_wp m (fun a s' => ow_wp (f a) Q s') s -> ow_wp (ow_bind m f) Q s.
Proof. unfold ow_wp, ow_bind. destruct (m s); auto. Qed.
Lemma wp_bind_inv {A B} (m : ow_M A) (f : A -> ow_M B) (Q : B -> ow_state -> Prop) s :
  ow_wp (ow_bind m f) Q s -> ow_wp m (fun a s' => ow_wp (f a) Q s') s.
Proof. unfold ow_wp, ow_bind. destruct (m s); auto. Qed.
Lemma wp_mono {A} (m : ow_M A) (Q Q' : A -> ow_state -> Prop) s :
  ow_wp m Q s -> (forall a s', Q a s' -> Q' a s') -> ow_wp m Q' s.
Proof. unfold ow_wp. destruct (m s); auto. Qed.

(* allocation: both outcomes, chosen by the schedule bit *)
Lemma wp_malloc (Q : ow_oid -> ow_state -> Prop) s :
  ow_ok s ->
  (forall s', ow_ok s' -> (forall j, cnt j (oos_live s') = cnt j (oos_live s)) ->
              oos_next s' = oos_next s -> oos_sched s' = oos_sched s -> oos_cnt s' = S (oos_cnt s) ->
              oos_sched s (oos_cnt s) = true -> Q None s') ->
  (forall s', ow_ok s' -> (forall j, cnt j (oos_live s') = ind (oos_next s) j + cnt j (oos_live s)) ->
              oos_next s' = S (oos_next s) -> oos_sched s' = oos_sched s -> oos_cnt s' = S (oos_cnt s) ->
              oos_sched s (oos_cnt s) = false -> Q (Some (oos_next s)) s') ->
  ow_wp ow_malloc Q s.
Proof.
  intros [Hn Hb] H1 H2. unfold ow_wp, ow_malloc. destruct (oos_sched s (oos_cnt s)) eqn:E.
  - apply H1; cbn; auto. split; cbn; auto.
  - apply H2; cbn; auto. split; cbn.
    + intros i. destruct (Nat.eq_dec (oos_next s) i) as [<-|Hne].
      * rewrite ind_refl, Hb; lia.
      * rewrite ind_neq by auto. apply Hn.
    + intros i Hi. rewrite ind_neq by lia. apply Hb. lia.
Qed.

Lemma wp_free (Q : unit -> ow_state -> Prop) o s :
  ow_ok s ->
  (forall i, o = Some i -> 1 <= cnt i (oos_live s)) ->
  (forall s', ow_ok s' -> (forall j, cnt j (oos_live s') + cnto j o = cnt j (oos_live s)) -> ow_same s s' -> Q tt s') ->
  ow_wp (ow_free o) Q s.
Proof.
  intros [Hn Hb] Hl H. unfold ow_wp, ow_free. destruct o as [i|].
  - specialize (Hl i eq_refl). destruct (ow_mem i (oos_live s)) eqn:E.
    + apply H; [split | | repeat split]; cbn.
      * intros j. rewrite cnt_del. destruct (i =? j); [lia | apply Hn].
      * intros j Hj. rewrite cnt_del. destruct (i =? j); auto.
      * intros j. rewrite cnt_del. unfold ind. destruct (i =? j) eqn:E2; [|lia].
        apply Nat.eqb_eq in E2. subst j. specialize (Hn i). lia.
    + apply mem_cnt in Hl. congruence.
  - apply H; [split; auto | intros; cbn; lia | repeat split].
Qed.

Lemma wp_use (Q : unit -> ow_state -> Prop) o s :
  (exists i, o = Some i /\ 1 <= cnt i (oos_live s)) -> Q tt s -> ow_wp (ow_use o) Q s.
Proof.
  intros [i [-> Hl]] H. unfold ow_wp, ow_use. apply mem_cnt in Hl. now rewrite Hl.
Qed.

Lemma wp_realloc (Q : ow_oid -> ow_state -> Prop) i s :
  ow_ok s -> 1 <= cnt i (oos_live s) ->
  (forall s', ow_ok s' -> (forall j, cnt j (oos_live s') = cnt j (oos_live s)) ->
              oos_next s' = oos_next s -> oos_sched s' = oos_sched s -> oos_cnt s' = S (oos_cnt s) ->
              oos_sched s (oos_cnt s) = true -> Q None s') ->
  (forall s', ow_ok s' -> (forall j, cnt j (oos_live s') + ind i j = ind (oos_next s) j + cnt j (oos_live s)) ->
              oos_next s' = S (oos_next s) -> oos_sched s' = oos_sched s -> oos_cnt s' = S (oos_cnt s) ->
              oos_sched s (oos_cnt s) = false -> Q (Some (oos_next s)) s') ->
  ow_wp (ow_realloc (Some i)) Q s.
Proof.
  intros [Hn Hb] Hl H1 H2. unfold ow_wp, ow_realloc. apply mem_cnt in Hl as Hm. rewrite Hm.
  destruct (oos_sched s (oos_cnt s)) eqn:E.
  - apply H1; cbn; auto. split; auto.
  - assert (Hlt : i < oos_next s).
    { destruct (Nat.lt_ge_cases i (oos_next s)); auto. rewrite Hb in Hl; lia. }
    apply H2; cbn; auto.
    + split; cbn.
      * intros j. rewrite cnt_del. destruct (Nat.eq_dec (oos_next s) j) as [<-|Hne].
        -- rewrite ind_refl. destruct (i =? oos_next s); [lia|]. rewrite Hb; lia.
        -- rewrite ind_neq by auto. destruct (i =? j); [lia | apply Hn].
      * intros j Hj. rewrite cnt_del, ind_neq by lia. destruct (i =? j); auto. apply Hb. lia.
    + intros j. rewrite cnt_del. destruct (i =? j) eqn:E2.
      * apply Nat.eqb_eq in E2. subst j. rewrite (ind_refl i). specialize (Hn i). lia.
      * rewrite (ind_neq i j) by (now apply Nat.eqb_neq). lia.
Qed.

(* ------------------------------------------------------------------ tactics *)
(* instantiate every pointwise fact at the point j *)
Ltac cnt_inst j :=
  repeat match goal with
  | H : ow_ok ?s |- _ => pose proof (ok_nodup s H j); pose proof (ok_bound s H j); revert H
  | H : forall x : nat, _ |- _ => pose proof (H j); revert H
  end; intros.

Ltac osubst := repeat match goal with
  | E : ?t = Some _ |- _ => lazymatch t with Some _ => fail | _ => progress (rewrite E in * ) end
  | E : ?t = None |- _ => lazymatch t with None => fail | _ => progress (rewrite E in * ) end
  end.
Ltac cnt_norm := osubst; autorewrite with cnt in *; cbn [cnto olist cnt] in *.

Lemma ind_spec x y : (x = y /\ ind x y = 1) \/ (x <> y /\ ind x y = 0).
Proof. destruct (Nat.eq_dec x y) as [->|H]; [left; now rewrite ind_refl | right; now rewrite ind_neq]. Qed.

Inductive cnt_done (z : nat) : Prop := cnt_done_I.
(* instantiate the pointwise facts at every identity that occurs in an [ind] atom, add the case
   analysis of every [ind] atom, and let lia finish *)
Ltac cnt_more :=
  repeat match goal with
  | _ : context [ind ?x ?y] |- _ =>
    first [ lazymatch goal with _ : cnt_done x |- _ => fail | _ => idtac end; pose proof (cnt_done_I x); cnt_inst x; cnt_norm
          | lazymatch goal with _ : cnt_done y |- _ => fail | _ => idtac end; pose proof (cnt_done_I y); cnt_inst y; cnt_norm ]
  | |- context [ind ?x ?y] =>
    first [ lazymatch goal with _ : cnt_done x |- _ => fail | _ => idtac end; pose proof (cnt_done_I x); cnt_inst x; cnt_norm
          | lazymatch goal with _ : cnt_done y |- _ => fail | _ => idtac end; pose proof (cnt_done_I y); cnt_inst y; cnt_norm ]
  end.
Inductive ind_done (x y : nat) : Prop := ind_done_I.
Ltac ind_cases :=
  repeat match goal with
  | _ : context [ind ?x ?y] |- _ =>
    lazymatch goal with _ : ind_done x y |- _ => fail | _ => pose proof (ind_done_I x y); pose proof (ind_spec x y) end
  | |- context [ind ?x ?y] =>
    lazymatch goal with _ : ind_done x y |- _ => fail | _ => pose proof (ind_done_I x y); pose proof (ind_spec x y) end
  end.
Ltac cnt_at j := pose proof (cnt_done_I j); cnt_inst j; cnt_norm; try lia; cnt_more; ind_cases; try lia.

(* side condition of wp_free: forall i, o = Some i -> 1 <= cnt i live *)
Ltac side_free :=
  let i := fresh "i" in let E := fresh "E" in
  intros i E; try discriminate E; try (injection E as E); subst;
  lazymatch goal with |- 1 <= cnt ?p _ => cnt_at p | _ => idtac end.
(* side condition of wp_use *)
Ltac side_use :=
  lazymatch goal with
  | |- exists i, Some ?a = Some i /\ _ => exists a; split; [reflexivity | cnt_at a]
  end.

Ltac wp_prim :=
  lazymatch goal with
  | |- ow_wp (ow_bind _ _) _ _ => apply wp_bind
  | |- ow_wp (ow_ret _) _ _ => apply wp_ret
  | |- ow_wp ow_malloc _ _ => apply wp_malloc; [assumption | intros ? ? ? ? _ _ _ | intros ? ? ? ? _ _ _]
  | |- ow_wp ow_bstr_alloc _ _ => unfold ow_bstr_alloc
  | |- ow_wp ow_bstr_dup_mem _ _ => unfold ow_bstr_dup_mem
  | |- ow_wp (ow_free _) _ _ => apply wp_free; [assumption | side_free | intros ? ? ? [? _]]
  | |- ow_wp (ow_use _) _ _ => apply wp_use; [side_use | ]
  | |- ow_wp (ow_realloc (Some _)) _ _ =>
      apply wp_realloc; [assumption | | intros ? ? ? ? _ _ _ | intros ? ? ? ? _ _ _]
  | |- ow_wp (ow_realloc None) _ _ => unfold ow_realloc
  | |- ow_wp (if ?b then _ else _) _ _ => destruct b eqn:?
  | |- ow_wp (match ?x with _ => _ end) _ _ => destruct x eqn:?
  end.
Ltac wp_go := repeat (wp_prim; cbn [fst snd negb andb orb ow_isnull]).

(* ------------------------------------------------------------------ generic: freeing a list of cells *)
Lemma wp_iter_free (Q : unit -> ow_state -> Prop) ids s :
  ow_ok s -> (forall j, cnt j (olist ids) <= cnt j (oos_live s)) ->
  (forall s', ow_ok s' -> (forall j, cnt j (oos_live s') + cnt j (olist ids) = cnt j (oos_live s)) -> Q tt s') ->
  ow_wp (ow_iter ow_free ids) Q s.
Proof.
  revert s Q. induction ids as [|o r IH]; intros s Q Hok Hsub HQ; cbn [ow_iter].
  - apply wp_ret. apply HQ; auto; intros; cbn; lia.
  - apply wp_bind. apply wp_free; auto.
    + intros i ->. specialize (Hsub i). cnt_norm. lia.
    + intros s1 Hok1 H1 _. apply IH; auto.
      * intros j. specialize (Hsub j). specialize (H1 j). pose proof (ok_nodup _ Hok j).
        pose proof (ok_nodup _ Hok1 j). cnt_norm.
        destruct o as [a|]; cbn [cnto] in *; [|lia].
        destruct (Nat.eq_dec a j) as [->|Hne].
        -- rewrite ind_refl in *. lia.
        -- rewrite (ind_neq a j) in * by auto. lia.
      * intros s2 Hok2 H2. apply HQ; auto. intros j. specialize (H1 j). specialize (H2 j). cnt_norm. lia.
Qed.

(* ------------------------------------------------------------------ bstr *)
(* a bstr operation on b: b (if any) is replaced by the result r in the heap *)
Lemma wp_bstr_dup b (Q : ow_oid -> ow_state -> Prop) s :
  ow_ok s -> (exists i, b = Some i /\ 1 <= cnt i (oos_live s)) ->
  (forall r s', ow_ok s' -> (forall j, cnt j (oos_live s') = cnto j r + cnt j (oos_live s)) -> Q r s') ->
  ow_wp (ow_bstr_dup b) Q s.
Proof.
  intros Hok [i [-> Hi]] HQ. unfold ow_bstr_dup. wp_go.
  all: apply HQ; auto; intros; cnt_norm; auto.
Qed.

Lemma wp_bstr_expand b w sh (Q : ow_oid -> ow_state -> Prop) s :
  ow_ok s -> (exists i, b = Some i /\ 1 <= cnt i (oos_live s)) ->
  (forall s', ow_ok s' -> (forall j, cnt j (oos_live s') = cnt j (oos_live s)) -> Q None s') ->
  (forall n s', ow_ok s' -> (forall j, cnt j (oos_live s') + cnto j b = ind n j + cnt j (oos_live s)) ->
                1 <= cnt n (oos_live s') -> Q (Some n) s') ->
  ow_wp (ow_bstr_expand b w sh) Q s.
Proof.
  intros Hok [i [-> Hi]] H1 H2. unfold ow_bstr_expand. wp_go; try (apply H1; now auto); try assumption.
  all: apply H2; auto. all: cnt_at (oos_next s).
Qed.

(* ------------------------------------------------------------------ lists *)
Definition live_in (o : ow_oid) (s : ow_state) : Prop := exists i, o = Some i /\ 1 <= cnt i (oos_live s).

Lemma live_in_same o s s' : (forall j, cnt j (oos_live s') = cnt j (oos_live s)) -> live_in o s -> live_in o s'.
Proof. intros H [i [-> Hi]]. exists i. split; auto. rewrite H. auto. Qed.

Ltac live_solve :=
  lazymatch goal with
  | H : live_in ?o ?s |- live_in ?o ?s' =>
    let i := fresh "i" in let E := fresh "E" in let Hi := fresh "Hi" in
    destruct H as [i [E Hi]]; exists i; split; [exact E | cnt_at i]
  | |- live_in (Some ?a) _ => exists a; split; [reflexivity | cnt_at a]
  end.

Lemma wp_list_push l (Q : bool * ow_lst -> ow_state -> Prop) s :
  ow_ok s -> live_in (ool_self l) s -> live_in (ool_blk l) s ->
  (forall s', ow_ok s' -> (forall j, cnt j (oos_live s') = cnt j (oos_live s)) ->
              ool_max l <= ool_size l -> Q (false, l) s') ->
  (forall l' s', ow_ok s' -> ool_self l' = ool_self l -> live_in (ool_blk l') s' ->
              (forall j, cnt j (oos_live s') + cnto j (ool_blk l) = cnto j (ool_blk l') + cnt j (oos_live s)) ->
              ool_size l' = S (ool_size l) -> ool_max l <= ool_max l' -> Q (true, l') s') ->
  ow_wp (ow_list_push l) Q s.
Proof.
  intros Hok [a [Ea Ha]] [b [Eb Hb]] HF HT. unfold ow_list_push. rewrite Ea, Eb.
  wp_go; try assumption.
  - apply HF; auto. now apply Nat.leb_le.
  - apply HT; cbn; auto; try lia. live_solve. intros j; cnt_at j.
  - apply HF; auto. now apply Nat.leb_le.
  - apply HT; cbn; auto; try lia. live_solve. intros j; cnt_at j.
  - apply HT; cbn; auto; try lia. rewrite ?Eb. live_solve. intros j; cnt_at j.
Qed.

Lemma wp_list_create n (Q : option ow_lst -> ow_state -> Prop) s :
  ow_ok s ->
  (forall s', ow_ok s' -> (forall j, cnt j (oos_live s') = cnt j (oos_live s)) -> Q None s') ->
  (forall a b s', ow_ok s' -> (forall j, cnt j (oos_live s') = ind a j + ind b j + cnt j (oos_live s)) ->
                  n <> 0 -> Q (Some (ow_mk_lst (Some a) (Some b) 0 n 0)) s') ->
  ow_wp (ow_list_create n) Q s.
Proof.
  intros Hok HN HS. unfold ow_list_create, ow_list_init. destruct (n =? 0) eqn:En.
  - apply wp_ret. apply HN; auto.
  - wp_go.
    + apply HN; auto.
    + apply HN; auto. intros j; cnt_at j.
    + apply HS; auto. intros j; cnt_at j. now apply Nat.eqb_neq.
Qed.

Lemma wp_list_destroy l (Q : unit -> ow_state -> Prop) s :
  ow_ok s -> live_in (ool_self l) s -> live_in (ool_blk l) s -> ool_self l <> ool_blk l ->
  (forall s', ow_ok s' -> (forall j, cnt j (oos_live s') + cnto j (ool_self l) + cnto j (ool_blk l) = cnt j (oos_live s)) -> Q tt s') ->
  ow_wp (ow_list_destroy (Some l)) Q s.
Proof.
  intros Hok [a [Ea Ha]] [b [Eb Hb]] Hne HQ. unfold ow_list_destroy. rewrite Ea, Eb in *.
  assert (a <> b) by congruence.
  wp_go. apply HQ; auto. intros j; cnt_at j.
Qed.

(* ------------------------------------------------------------------ tables *)
Definition tbl_owns (t : ow_tbl) : bool := (oot_mode t =? c_ow_KEYS_COPIED) || (oot_mode t =? c_ow_KEYS_ADOPTED).
Definition fp_tbl (t : ow_tbl) : list nat :=
  olist [oot_self t; ool_blk (oot_lst t)] ++ (if tbl_owns t then olist (oot_keys t) else []).
Definition wf_tbl (t : ow_tbl) : Prop :=
  ool_self (oot_lst t) = oot_self t /\ (oot_mode t = c_ow_KEYS_UNKNOWN -> oot_keys t = []).

Lemma own_live_self t F s : ow_own (fp_tbl t ++ F) s -> oot_self t <> None -> live_in (oot_self t) s.
Proof.
  intros [Hok H] Hn. destruct (oot_self t) as [a|] eqn:E; [|congruence]. exists a. split; auto.
  specialize (H a). unfold fp_tbl in H. cnt_norm. lia.
Qed.
Lemma own_live_blk t F s : ow_own (fp_tbl t ++ F) s -> ool_blk (oot_lst t) <> None -> live_in (ool_blk (oot_lst t)) s.
Proof.
  intros [Hok H] Hn. destruct (ool_blk (oot_lst t)) as [a|] eqn:E; [|congruence]. exists a. split; auto.
  specialize (H a). unfold fp_tbl in H. cnt_norm. lia.
Qed.

Definition tbl_ptrs (t : ow_tbl) : Prop := oot_self t <> None /\ ool_blk (oot_lst t) <> None.

(* _htp_table_add: G = what the heap holds besides the table's struct and block *)
Lemma wp_table_add_raw t key G (Q : bool * ow_tbl -> ow_state -> Prop) s :
  ow_ok s -> wf_tbl t -> tbl_ptrs t ->
  (forall j, cnt j (oos_live s) = cnto j (oot_self t) + cnto j (ool_blk (oot_lst t)) + cnt j G) ->
  (forall t' s', ow_ok s' -> wf_tbl t' -> tbl_ptrs t' -> oot_self t' = oot_self t -> oot_mode t' = oot_mode t ->
                 oot_keys t' = oot_keys t ->
                 (forall j, cnt j (oos_live s') = cnto j (oot_self t') + cnto j (ool_blk (oot_lst t')) + cnt j G) ->
                 Q (false, t') s') ->
  (forall t' s', ow_ok s' -> tbl_ptrs t' -> ool_self (oot_lst t') = oot_self t' -> oot_self t' = oot_self t -> oot_mode t' = oot_mode t ->
                 oot_keys t' = oot_keys t ++ [key] ->
                 (forall j, cnt j (oos_live s') = cnto j (oot_self t') + cnto j (ool_blk (oot_lst t')) + cnt j G) ->
                 Q (true, t') s') ->
  ow_wp (ow_table_add_raw t key) Q s.
Proof.
  intros Hok [Hs Hm] [Hp1 Hp2] H HF HT. unfold ow_table_add_raw.
  destruct (oot_self t) as [a|] eqn:Ea; [|congruence].
  destruct (ool_blk (oot_lst t)) as [b|] eqn:Eb; [|congruence].
  apply wp_bind. apply wp_list_push; auto.
  - rewrite ?Hs. exists a. split; auto. cnt_at a.
  - rewrite ?Eb. exists b. split; auto. cnt_at b.
  - intros s1 Hok1 H1 _. cbn [fst snd negb]. apply wp_ret.
    apply HF; cbn; auto; try (split; cbn; solve [congruence | auto]).
    intros j. rewrite ?Ea, ?Eb. cnt_at j.
  - intros l1 s1 Hok1 Hs1 [b1 [Eb1 Hb1]] H1 _ _. cbn [fst snd negb].
    apply wp_bind. apply wp_list_push; auto.
    + rewrite ?Hs1, ?Hs. exists a. split; auto. cnt_at a.
    + exists b1. split; auto.
    + intros s2 Hok2 H2 _. cbn [fst snd negb]. apply wp_ret.
      apply HF; cbn; auto.
      * split; cbn; auto. unfold ow_list_pop. destruct (ool_size l1 =? 0); cbn; congruence.
      * split; cbn; try congruence. unfold ow_list_pop. destruct (ool_size l1 =? 0); cbn; congruence.
      * intros j. unfold ow_list_pop. destruct (ool_size l1 =? 0); cbn [ool_blk]; rewrite ?Ea, ?Eb1; cnt_at j.
    + intros l2 s2 Hok2 Hs2 [b2 [Eb2 Hb2]] H2 _ _. cbn [fst snd negb]. apply wp_ret.
      apply HT; cbn; auto; try congruence.
      * split; cbn; congruence.
      * intros j. rewrite ?Ea, ?Eb2. cnt_at j.
Qed.

Lemma modes_distinct :
  c_ow_KEYS_UNKNOWN <> c_ow_KEYS_COPIED /\ c_ow_KEYS_UNKNOWN <> c_ow_KEYS_ADOPTED /\ c_ow_KEYS_UNKNOWN <> c_ow_KEYS_REFERENCED /\
  c_ow_KEYS_COPIED <> c_ow_KEYS_ADOPTED /\ c_ow_KEYS_COPIED <> c_ow_KEYS_REFERENCED /\ c_ow_KEYS_ADOPTED <> c_ow_KEYS_REFERENCED.
Proof. repeat split; vm_compute; discriminate. Qed.

Ltac modes :=
  pose proof modes_distinct as [? [? [? [? [? ?]]]]];
  repeat match goal with
  | H : (_ =? _) = true |- _ => apply Nat.eqb_eq in H
  | H : (_ =? _) = false |- _ => apply Nat.eqb_neq in H
  | H : (_ || _) = true |- _ => apply orb_true_iff in H; destruct H
  | H : (_ || _) = false |- _ => apply orb_false_iff in H; destruct H
  end.

Lemma tbl_owns_mode t m : oot_mode t = m -> tbl_owns t = ((m =? c_ow_KEYS_COPIED) || (m =? c_ow_KEYS_ADOPTED)).
Proof. intros <-. reflexivity. Qed.

Definition ow_nofault {A} (m : ow_M A) (s : ow_state) : Prop := ow_wp m (fun _ _ => True) s.
(* after m the heap holds exactly the cells F *)
Definition ow_clean_to {A} (F : list nat) (m : ow_M A) (s : ow_state) : Prop := ow_wp m (fun _ s' => ow_own F s') s.

Lemma own_nil_empty s : ow_own [] s -> oos_live s = [].
Proof. intros [_ H]. apply cnt_zero_nil. intros j. now rewrite H. Qed.

Lemma wp_nofault {A} (m : ow_M A) (Q : A -> ow_state -> Prop) s : ow_wp m Q s -> ow_nofault m s.
Proof. intros H. eapply wp_mono; eauto. Qed.

(* htp_table_add (the key is copied) *)
Lemma wp_table_add t key F (Q : bool * ow_tbl -> ow_state -> Prop) s :
  wf_tbl t -> tbl_ptrs t -> ow_own (fp_tbl t ++ F) s -> (key = None \/ live_in key s) ->
  (forall ok t' s', wf_tbl t' -> tbl_ptrs t' -> ow_own (fp_tbl t' ++ F) s' -> oot_self t' = oot_self t ->
                    (ok = true -> tbl_owns t' = true /\ exists d, oot_keys t' = oot_keys t ++ [Some d]) ->
                    (ok = false -> oot_keys t' = oot_keys t) -> Q (ok, t') s') ->
  ow_wp (ow_table_add t key) Q s.
Proof.
  intros Hwf Hp Hown Hkey HQ. unfold ow_table_add.
  destruct key as [k|]; cbn [ow_isnull].
  2:{ apply wp_ret. apply HQ; auto. discriminate. }
  destruct Hkey as [Hkey|Hkey]; [discriminate|].
  apply wp_bind. apply wp_use. { eapply own_live_self; eauto. apply Hp. }
  destruct ((oot_mode t =? c_ow_KEYS_UNKNOWN) || (oot_mode t =? c_ow_KEYS_COPIED)) eqn:Em.
  2:{ apply wp_ret. apply HQ; auto. discriminate. }
  set (t1 := ow_table_set_mode t c_ow_KEYS_COPIED).
  assert (Hfp : forall j, cnt j (fp_tbl t1) = cnt j (fp_tbl t)).
  { intros j. unfold fp_tbl, t1, tbl_owns. cbn [ow_table_set_mode oot_mode oot_self oot_lst oot_keys].
    destruct Hwf as [_ Hm]. modes.
    - rewrite Hm by auto. rewrite H5. destruct (_ || _), (_ || _); reflexivity.
    - rewrite H5. reflexivity. }
  assert (Ho1 : tbl_owns t1 = true) by reflexivity.
  destruct Hown as [Hok Hown].
  apply wp_bind. apply wp_bstr_dup; auto.
  intros r s1 Hok1 H1. destruct r as [d|].
  2:{ apply wp_ret. apply HQ; auto.
      - split; cbn; [apply Hwf|]. intros E. modes; congruence.
      - split; auto. intros j. rewrite H1, Hown. cnt_norm. rewrite (Hfp j). cbn. lia.
      - discriminate. }
  apply wp_bind.
  apply (wp_table_add_raw t1 (Some d) (olist (oot_keys t) ++ d :: F)); auto.
  - split; cbn; [apply Hwf|]. intros E. modes; congruence.
  - intros j. rewrite H1, Hown. specialize (Hfp j). unfold fp_tbl in Hfp at 1. rewrite Ho1 in Hfp.
    cbn [t1 ow_table_set_mode oot_self oot_lst oot_keys] in *. cnt_norm. lia.
  - intros t2 s2 Hok2 Hwf2 Hp2 Hs2 Hm2 Hk2 H2. cbn [fst snd].
    apply wp_bind. apply wp_free; auto.
    + intros i E. injection E as <-. rewrite H2. cnt_norm. lia.
    + intros s3 Hok3 H3 _. apply wp_ret. apply HQ; auto; try discriminate.
      assert (Ho2 : tbl_owns t2 = true) by (unfold tbl_owns; rewrite Hm2; reflexivity).
      split; auto. intros j. unfold fp_tbl. rewrite Ho2, Hk2.
      cbn [t1 ow_table_set_mode oot_keys]. specialize (H2 j). specialize (H3 j). cnt_norm. lia.
  - intros t2 s2 Hok2 Hp2 Hs2 Hss2 Hm2 Hk2 H2. cbn [fst snd]. apply wp_ret.
    assert (Ho2 : tbl_owns t2 = true).
    { unfold tbl_owns; rewrite Hm2; reflexivity. }
    apply HQ; auto.
    + split; auto. intros E. rewrite Hm2 in E. cbn in E. modes; congruence.
    + split; auto. intros j. unfold fp_tbl. rewrite Ho2, Hk2. cbn [t1 ow_table_set_mode oot_keys].
      specialize (H2 j). cnt_norm. lia.
    + intros _. split; auto. exists d. rewrite Hk2. reflexivity.
    + discriminate.
Qed.

(* htp_table_addn: on success the table adopts the key (it leaves the caller's cells K) *)
Lemma wp_table_addn t k F (Q : bool * ow_tbl -> ow_state -> Prop) s :
  wf_tbl t -> tbl_ptrs t -> ow_own (fp_tbl t ++ k :: F) s ->
  (forall t' s', wf_tbl t' -> tbl_ptrs t' -> ow_own (fp_tbl t' ++ F) s' -> oot_self t' = oot_self t -> Q (true, t') s') ->
  (forall t' s', wf_tbl t' -> tbl_ptrs t' -> ow_own (fp_tbl t' ++ k :: F) s' -> oot_self t' = oot_self t -> Q (false, t') s') ->
  ow_wp (ow_table_addn t (Some k)) Q s.
Proof.
  intros Hwf Hp Hown HT HF. unfold ow_table_addn, ow_table_add_nk. cbn [ow_isnull].
  apply wp_bind. apply wp_use. { eapply own_live_self; eauto. apply Hp. }
  destruct ((oot_mode t =? c_ow_KEYS_UNKNOWN) || (oot_mode t =? c_ow_KEYS_ADOPTED)) eqn:Em.
  2:{ apply wp_ret. apply HF; auto. }
  set (t1 := ow_table_set_mode t c_ow_KEYS_ADOPTED).
  assert (Hfp : forall j, cnt j (fp_tbl t1) = cnt j (fp_tbl t)).
  { intros j. unfold fp_tbl, t1, tbl_owns. cbn [ow_table_set_mode oot_mode oot_self oot_lst oot_keys].
    destruct Hwf as [_ Hm]. modes.
    - rewrite Hm by auto. rewrite H5. destruct (_ || _), (_ || _); reflexivity.
    - rewrite H5. reflexivity. }
  assert (Ho1 : tbl_owns t1 = true) by reflexivity.
  destruct Hown as [Hok Hown].
  apply (wp_table_add_raw t1 (Some k) (olist (oot_keys t) ++ k :: F)); auto.
  - split; cbn; [apply Hwf|]. intros E. modes; congruence.
  - intros j. rewrite Hown. specialize (Hfp j). unfold fp_tbl in Hfp at 1. rewrite Ho1 in Hfp.
    cbn [t1 ow_table_set_mode oot_self oot_lst oot_keys] in *. cnt_norm. lia.
  - intros t2 s2 Hok2 Hwf2 Hp2 Hs2 Hm2 Hk2 H2.
    assert (Ho2 : tbl_owns t2 = true) by (unfold tbl_owns; rewrite Hm2; reflexivity).
    apply HF; auto. split; auto. intros j. unfold fp_tbl. rewrite Ho2, Hk2.
    cbn [t1 ow_table_set_mode oot_keys]. specialize (H2 j). cnt_norm. lia.
  - intros t2 s2 Hok2 Hp2 Hs2 Hss2 Hm2 Hk2 H2.
    assert (Ho2 : tbl_owns t2 = true) by (unfold tbl_owns; rewrite Hm2; reflexivity).
    apply HT; auto.
    + split; auto. intros E. rewrite Hm2 in E. cbn in E. modes; congruence.
    + split; auto. intros j. unfold fp_tbl. rewrite Ho2, Hk2. cbn [t1 ow_table_set_mode oot_keys].
      specialize (H2 j). cnt_norm. lia.
Qed.

(* htp_table_addk: the key stays with the caller *)
Lemma wp_table_addk t k F (Q : bool * ow_tbl -> ow_state -> Prop) s :
  wf_tbl t -> tbl_ptrs t -> ow_own (fp_tbl t ++ F) s ->
  (forall ok t' s', wf_tbl t' -> tbl_ptrs t' -> ow_own (fp_tbl t' ++ F) s' -> oot_self t' = oot_self t -> Q (ok, t') s') ->
  ow_wp (ow_table_addk t (Some k)) Q s.
Proof.
  intros Hwf Hp Hown HQ. unfold ow_table_addk, ow_table_add_nk. cbn [ow_isnull].
  apply wp_bind. apply wp_use. { eapply own_live_self; eauto. apply Hp. }
  destruct ((oot_mode t =? c_ow_KEYS_UNKNOWN) || (oot_mode t =? c_ow_KEYS_REFERENCED)) eqn:Em.
  2:{ apply wp_ret. apply HQ; auto. }
  set (t1 := ow_table_set_mode t c_ow_KEYS_REFERENCED).
  assert (Ho1 : tbl_owns t1 = false) by reflexivity.
  assert (Hfp : forall j, cnt j (fp_tbl t1) = cnt j (fp_tbl t)).
  { intros j. unfold fp_tbl. rewrite Ho1. unfold tbl_owns. cbn [t1 ow_table_set_mode oot_mode oot_self oot_lst oot_keys].
    destruct Hwf as [_ Hm]. modes.
    - rewrite Hm by auto. destruct (_ || _); reflexivity.
    - rewrite H5. reflexivity. }
  destruct Hown as [Hok Hown].
  apply (wp_table_add_raw t1 (Some k) F); auto.
  - split; cbn; [apply Hwf|]. intros E. modes; congruence.
  - intros j. rewrite Hown. specialize (Hfp j). unfold fp_tbl in Hfp at 1. rewrite Ho1 in Hfp.
    cbn [t1 ow_table_set_mode oot_self oot_lst oot_keys] in *. cnt_norm. lia.
  - intros t2 s2 Hok2 Hwf2 Hp2 Hs2 Hm2 Hk2 H2.
    assert (Ho2 : tbl_owns t2 = false) by (unfold tbl_owns; rewrite Hm2; reflexivity).
    apply HQ; auto. split; auto. intros j. unfold fp_tbl. rewrite Ho2. specialize (H2 j). cnt_norm. lia.
  - intros t2 s2 Hok2 Hp2 Hs2 Hss2 Hm2 Hk2 H2.
    assert (Ho2 : tbl_owns t2 = false) by (unfold tbl_owns; rewrite Hm2; reflexivity).
    apply HQ; auto.
    + split; auto. intros E. rewrite Hm2 in E. cbn in E. modes; congruence.
    + split; auto. intros j. unfold fp_tbl. rewrite Ho2. specialize (H2 j). cnt_norm. lia.
Qed.

Lemma wp_table_create n (Q : option ow_tbl -> ow_state -> Prop) F s :
  ow_own F s ->
  (forall s', ow_own F s' -> Q None s') ->
  (forall t s', wf_tbl t -> tbl_ptrs t -> oot_keys t = [] -> ow_own (fp_tbl t ++ F) s' -> Q (Some t) s') ->
  ow_wp (ow_table_create n) Q s.
Proof.
  intros [Hok Hown] HN HS. unfold ow_table_create, ow_list_init. destruct (n =? 0).
  - apply wp_ret. apply HN. split; auto.
  - wp_go.
    + apply HN. split; auto. intros j; cnt_at j.
    + apply HN. split; auto. intros j; cnt_at j.
    + apply HS; cbn; auto.
      * split; cbn; auto.
      * split; cbn; discriminate.
      * split; auto. intros j. unfold fp_tbl. cbn. cnt_at j.
Qed.

Lemma wp_table_destroy t F (Q : unit -> ow_state -> Prop) s :
  wf_tbl t -> tbl_ptrs t -> ow_own (fp_tbl t ++ F) s ->
  (forall s', ow_own F s' -> Q tt s') ->
  ow_wp (ow_table_destroy (Some t)) Q s.
Proof.
  intros [Hs Hm] [Hp1 Hp2] [Hok Hown] HQ. unfold ow_table_destroy, ow_table_clear, ow_list_release.
  destruct (oot_self t) as [a|] eqn:Ea; [|congruence].
  destruct (ool_blk (oot_lst t)) as [b|] eqn:Eb; [|congruence].
  unfold fp_tbl, tbl_owns in Hown. rewrite Ea, Eb in Hown.
  apply wp_bind. apply wp_bind. apply wp_use. { exists a. split; auto. cnt_at a. }
  apply wp_bind.
  destruct ((oot_mode t =? c_ow_KEYS_COPIED) || (oot_mode t =? c_ow_KEYS_ADOPTED)) eqn:Em.
  - apply wp_iter_free; auto.
    + intros j. rewrite Hown. cnt_norm. lia.
    + intros s1 Hok1 H1. apply wp_ret. cbn [ow_list_clear oot_lst oot_self ool_self ool_blk].
      rewrite Hs, Eb. wp_go. apply HQ. split; auto. intros j. cnt_at j.
  - apply wp_ret. apply wp_ret. cbn [ow_list_clear oot_lst oot_self ool_self ool_blk].
    rewrite Hs, Eb. wp_go. apply HQ. split; auto. intros j. cnt_at j.
Qed.

Lemma wp_table_clear t F (Q : ow_tbl -> ow_state -> Prop) s :
  wf_tbl t -> tbl_ptrs t -> ow_own (fp_tbl t ++ F) s ->
  (forall t' s', wf_tbl t' -> tbl_ptrs t' -> oot_keys t' = [] -> oot_self t' = oot_self t -> ow_own (fp_tbl t' ++ F) s' -> Q t' s') ->
  ow_wp (ow_table_clear t) Q s.
Proof.
  intros [Hs Hm] [Hp1 Hp2] [Hok Hown] HQ. unfold ow_table_clear.
  destruct (oot_self t) as [a|] eqn:Ea; [|congruence].
  destruct (ool_blk (oot_lst t)) as [b|] eqn:Eb; [|congruence].
  unfold fp_tbl, tbl_owns in Hown. rewrite Ea, Eb in Hown.
  apply wp_bind. apply wp_use. { exists a. split; auto. cnt_at a. }
  apply wp_bind.
  destruct ((oot_mode t =? c_ow_KEYS_COPIED) || (oot_mode t =? c_ow_KEYS_ADOPTED)) eqn:Em.
  - apply wp_iter_free; auto.
    + intros j. rewrite Hown. cnt_norm. lia.
    + intros s1 Hok1 H1. apply wp_ret. apply HQ; cbn; auto.
      * split; cbn; auto.
      * split; cbn; congruence.
      * split; auto. intros j. unfold fp_tbl, tbl_owns. cbn. rewrite Em, Eb. cnt_at j.
  - apply wp_ret. apply wp_ret. apply HQ; cbn; auto.
    + split; cbn; auto.
    + split; cbn; congruence.
    + split; auto. intros j. unfold fp_tbl, tbl_owns. cbn. rewrite Em, Eb. cnt_at j.
Qed.

(* reading a list of live cells changes nothing *)
Lemma wp_iter_use (f : ow_oid -> ow_M unit) ids (Q : unit -> ow_state -> Prop) s :
  (forall o (Q' : unit -> ow_state -> Prop), In o ids -> Q' tt s -> ow_wp (f o) Q' s) ->
  Q tt s ->
  ow_wp (ow_iter f ids) Q s.
Proof.
  intros Hf HQ. induction ids as [|o r IH]; cbn [ow_iter].
  - apply wp_ret. auto.
  - apply wp_bind. apply Hf; [left; auto |]. apply IH. intros; apply Hf; auto. right; auto.
Qed.

Lemma in_olist_live ids o s : In o ids -> o <> None ->
  (forall j, cnt j (olist ids) <= cnt j (oos_live s)) -> live_in o s.
Proof.
  intros Hin Hn H. destruct o as [a|]; [|congruence]. exists a. split; auto.
  specialize (H a). induction ids as [|x r IH]; [contradiction|].
  destruct Hin as [->|Hin].
  - cnt_norm. lia.
  - destruct x; cnt_norm; apply IH; auto; lia.
Qed.

(* ------------------------------------------------------------------ builder *)
Definition fp_bb (bb : ow_bb) : list nat :=
  olist [obb_self bb; ool_self (obb_lst bb); ool_blk (obb_lst bb)] ++ olist (obb_pieces bb).
Definition wf_bb (bb : ow_bb) : Prop :=
  obb_self bb <> None /\ ool_self (obb_lst bb) <> None /\ ool_blk (obb_lst bb) <> None /\ ~ In None (obb_pieces bb).

Ltac own_split H := let Hok := fresh "Hok" in let Hown := fresh "Hown" in destruct H as [Hok Hown].

Lemma wp_builder_create F (Q : option ow_bb -> ow_state -> Prop) s :
  ow_own F s ->
  (forall s', ow_own F s' -> Q None s') ->
  (forall bb s', wf_bb bb -> obb_pieces bb = [] -> ool_size (obb_lst bb) = 0 -> ow_own (fp_bb bb ++ F) s' -> Q (Some bb) s') ->
  ow_wp (ow_builder_create) Q s.
Proof.
  intros [Hok Hown] HN HS. unfold ow_builder_create. wp_go.
  - apply HN. split; auto. intros j; cnt_at j.
  - apply wp_list_create; auto.
    + intros s1 Ok1 L1. wp_go. apply HN. split; auto. intros j; cnt_at j.
    + intros a b s1 Ok1 L1 _. apply wp_ret. apply HS; cbn; auto.
      * repeat split; cbn; try discriminate. auto.
      * split; auto. intros j. unfold fp_bb. cbn. cnt_at j.
Qed.

Lemma wp_builder_append fixed bb F (Q : bool * ow_bb -> ow_state -> Prop) s :
  fixed = true -> wf_bb bb -> ow_own (fp_bb bb ++ F) s ->
  (forall ok bb' s', wf_bb bb' -> ow_own (fp_bb bb' ++ F) s' -> Q (ok, bb') s') ->
  ow_wp (ow_builder_append_mem_gen fixed bb) Q s.
Proof.
  intros -> [W1 [W2 [W3 W4]]] [Hok Hown] HQ. unfold ow_builder_append_mem_gen.
  destruct (obb_self bb) as [a|] eqn:Ea; [|congruence].
  destruct (ool_self (obb_lst bb)) as [ls|] eqn:Els; [|congruence].
  destruct (ool_blk (obb_lst bb)) as [lb|] eqn:Elb; [|congruence].
  unfold fp_bb in Hown. rewrite ?Ea, ?Els, ?Elb in Hown.
  wp_go.
  - apply HQ. { repeat split; congruence. } split; auto. intros j. unfold fp_bb. rewrite ?Ea, ?Els, ?Elb. cnt_at j.
  - apply wp_list_push; auto.
    + rewrite ?Els. live_solve.
    + rewrite ?Elb. live_solve.
    + intros s1 Ok1 L1 _. cbn [fst snd]. wp_go.
      apply HQ. { repeat split; cbn; congruence. } split; auto. intros j. unfold fp_bb. cbn. rewrite ?Ea, ?Els, ?Elb. cnt_at j.
    + intros l1 s1 Ok1 Hs1 [b1 [Eb1 Hb1]] L1 _ _. cbn [fst snd]. apply wp_ret.
      apply HQ.
      * repeat split; cbn; try congruence. intros Hin. apply in_app_or in Hin. destruct Hin as [Hin|[Hin|[]]]; [auto | discriminate].
      * split; auto. intros j. unfold fp_bb. cbn. rewrite ?Ea, ?Hs1, ?Els, ?Eb1. rewrite ?Elb in L1. cnt_at j.
Qed.

Lemma wp_builder_destroy bb F (Q : unit -> ow_state -> Prop) s :
  wf_bb bb -> ow_own (fp_bb bb ++ F) s ->
  (forall s', ow_own F s' -> Q tt s') ->
  ow_wp (ow_builder_destroy (Some bb)) Q s.
Proof.
  intros [W1 [W2 [W3 W4]]] [Hok Hown] HQ. unfold ow_builder_destroy.
  destruct (obb_self bb) as [a|] eqn:Ea; [|congruence].
  destruct (ool_self (obb_lst bb)) as [ls|] eqn:Els; [|congruence].
  destruct (ool_blk (obb_lst bb)) as [lb|] eqn:Elb; [|congruence].
  unfold fp_bb in Hown. rewrite ?Ea, ?Els, ?Elb in Hown.
  apply wp_bind. apply wp_use. { exists a. split; auto. cnt_at a. }
  apply wp_bind. apply wp_iter_free; auto. { intros j. rewrite ?Hown. cnt_norm. lia. }
  intros s1 Hok1 H1. apply wp_bind. apply wp_list_destroy; auto.
  - rewrite ?Els. live_solve.
  - rewrite ?Elb. live_solve.
  - rewrite ?Els, ?Elb. intros E. injection E as ->. cnt_at lb.
  - intros s2 Hok2 H2. rewrite ?Els, ?Elb in H2. wp_go. apply HQ. split; auto. intros j. cnt_at j.
Qed.

Lemma wp_builder_clear bb F (Q : ow_bb -> ow_state -> Prop) s :
  wf_bb bb -> ow_own (fp_bb bb ++ F) s ->
  (forall bb' s', wf_bb bb' -> ow_own (fp_bb bb' ++ F) s' -> Q bb' s') ->
  ow_wp (ow_builder_clear bb) Q s.
Proof.
  intros W [Hok Hown] HQ. pose proof W as [W1 [W2 [W3 W4]]]. unfold ow_builder_clear.
  destruct (obb_self bb) as [a|] eqn:Ea; [|congruence].
  destruct (ool_self (obb_lst bb)) as [ls|] eqn:Els; [|congruence].
  destruct (ool_blk (obb_lst bb)) as [lb|] eqn:Elb; [|congruence].
  unfold fp_bb in Hown. rewrite ?Ea, ?Els, ?Elb in Hown.
  apply wp_bind. apply wp_use. { exists a. split; auto. cnt_at a. }
  apply wp_bind. apply wp_use. { exists ls. split; auto. cnt_at ls. }
  destruct (ool_size (obb_lst bb) =? 0).
  - apply wp_ret. apply HQ; auto. split; auto. intros j. unfold fp_bb. rewrite ?Ea, ?Els, ?Elb. auto.
  - apply wp_bind. apply wp_iter_free; auto. { intros j. rewrite ?Hown. cnt_norm. lia. }
    intros s1 Hok1 H1. apply wp_ret. apply HQ.
    + repeat split; cbn; try congruence; auto.
    + split; auto. intros j. unfold fp_bb. cbn. rewrite ?Ea, ?Els, ?Elb. cnt_at j.
Qed.

Lemma wp_builder_to_str bb F (Q : ow_oid -> ow_state -> Prop) s :
  wf_bb bb -> ow_own (fp_bb bb ++ F) s ->
  (forall r s', ow_own (fp_bb bb ++ olist [r] ++ F) s' -> Q r s') ->
  ow_wp (ow_builder_to_str bb) Q s.
Proof.
  intros [W1 [W2 [W3 W4]]] [Hok Hown] HQ. unfold ow_builder_to_str.
  destruct (obb_self bb) as [a|] eqn:Ea; [|congruence].
  assert (Hsub : forall j, cnt j (olist (obb_pieces bb)) <= cnt j (oos_live s)).
  { intros j. rewrite Hown. unfold fp_bb. cnt_norm. lia. }
  apply wp_bind. apply wp_use. { exists a. split; auto. rewrite ?Hown. unfold fp_bb. rewrite ?Ea. cnt_norm. lia. }
  apply wp_bind. apply wp_iter_use.
  { intros o Q' Hin HQ'. apply wp_use; auto. eapply in_olist_live; eauto. intros ->. auto. }
  unfold ow_bstr_alloc. apply wp_bind. apply wp_malloc; auto.
  - intros s2 Hok2 H2 _ _ _ _. apply wp_ret. apply HQ. split; auto. intros j. rewrite ?H2, ?Hown. cnt_norm. lia.
  - intros s2 Hok2 H2 _ _ _ _. apply wp_bind. apply wp_iter_use.
    + intros o Q' Hin HQ'. apply wp_bind. apply wp_use.
      * destruct o as [p|]; [|contradiction]. exists p. split; auto. rewrite H2.
        assert (live_in (Some p) s) as [p' [Ep Hp]].
        { eapply in_olist_live; eauto. discriminate. }
        injection Ep as <-. lia.
      * apply wp_use; auto. exists (oos_next s). split; auto. rewrite H2, ind_refl. lia.
    + apply wp_ret. apply HQ. split; auto.
      intros j. rewrite H2, Hown. cnt_norm. lia.
Qed.

(* ------------------------------------------------------------------ hooks *)
Definition fp_hook (h : ow_hook) : list nat :=
  olist [ohk_self h; ool_self (ohk_lst h); ool_blk (ohk_lst h)] ++ olist (ohk_cbs h).
Definition wf_hook (h : ow_hook) : Prop :=
  ohk_self h <> None /\ ool_self (ohk_lst h) <> None /\ ool_blk (ohk_lst h) <> None /\ ~ In None (ohk_cbs h).
Definition fp_hooko (h : option ow_hook) : list nat := match h with Some h => fp_hook h | None => [] end.
Definition wf_hooko (h : option ow_hook) : Prop := match h with Some h => wf_hook h | None => True end.

Lemma hook_cap_pos : 0 < c_ow_hook_cap.
Proof. vm_compute. lia. Qed.

Lemma wp_hook_create F (Q : option ow_hook -> ow_state -> Prop) s :
  ow_own F s ->
  (forall s', ow_own F s' -> Q None s') ->
  (forall h s', wf_hook h -> ohk_cbs h = [] -> ool_size (ohk_lst h) = 0 -> ool_max (ohk_lst h) = c_ow_hook_cap ->
                ow_own (fp_hook h ++ F) s' -> Q (Some h) s') ->
  ow_wp (ow_hook_create) Q s.
Proof.
  intros [Hok Hown] HN HS. unfold ow_hook_create. wp_go.
  - apply HN. split; auto. intros j; cnt_at j.
  - apply wp_list_create; auto.
    + intros s1 Ok1 L1. wp_go. apply HN. split; auto. intros j; cnt_at j.
    + intros a b s1 Ok1 L1 _. apply wp_ret. apply HS; cbn; auto.
      * repeat split; cbn; try discriminate. auto.
      * split; auto. intros j. unfold fp_hook. cbn. cnt_at j.
Qed.

Lemma wp_hook_destroy h F (Q : unit -> ow_state -> Prop) s :
  wf_hook h -> ow_own (fp_hook h ++ F) s ->
  (forall s', ow_own F s' -> Q tt s') ->
  ow_wp (ow_hook_destroy (Some h)) Q s.
Proof.
  intros [W1 [W2 [W3 W4]]] [Hok Hown] HQ. unfold ow_hook_destroy.
  destruct (ohk_self h) as [a|] eqn:Ea; [|congruence].
  destruct (ool_self (ohk_lst h)) as [ls|] eqn:Els; [|congruence].
  destruct (ool_blk (ohk_lst h)) as [lb|] eqn:Elb; [|congruence].
  unfold fp_hook in Hown. rewrite ?Ea, ?Els, ?Elb in Hown.
  apply wp_bind. apply wp_use. { exists a. split; auto. cnt_at a. }
  apply wp_bind. apply wp_iter_free; auto. { intros j. rewrite Hown. cnt_norm. lia. }
  intros s1 Ok1 L1. apply wp_bind. apply wp_list_destroy; auto.
  - rewrite ?Els. live_solve.
  - rewrite ?Elb. live_solve.
  - rewrite ?Els, ?Elb. intros E. injection E as ->. cnt_at lb.
  - intros s2 Ok2 L2. rewrite ?Els, ?Elb in L2. wp_go. apply HQ. split; auto. intros j. cnt_at j.
Qed.

Lemma wp_hook_destroyo h F (Q : unit -> ow_state -> Prop) s :
  wf_hooko h -> ow_own (fp_hooko h ++ F) s ->
  (forall s', ow_own F s' -> Q tt s') ->
  ow_wp (ow_hook_destroy h) Q s.
Proof.
  destruct h as [h|]; [apply wp_hook_destroy|]. intros _ H HQ. apply wp_ret. apply HQ. exact H.
Qed.

(* the push inside htp_hook_register on an existing hook *)
Lemma wp_hook_push h cb (created : bool) F (Q : bool * option ow_hook -> ow_state -> Prop) s :
  wf_hook h -> ow_own (fp_hook h ++ cb :: F) s ->
  (created = true -> ool_size (ohk_lst h) < ool_max (ohk_lst h)) ->
  (forall ok h' s', wf_hook h' -> ow_own (fp_hook h' ++ F) s' ->
                    (ok = true -> ool_size (ohk_lst h') <= S (ool_size (ohk_lst h))) -> Q (ok, Some h') s') ->
  ow_wp (ow_use (ohk_self h) ;;;
         r <- ow_list_push (ohk_lst h) ;;
         if fst r then ow_ret (true, Some (ow_mk_hook (ohk_self h) (snd r) (ohk_cbs h ++ [Some cb])))
         else (if created then ow_free (ohk_self h) else ow_ret tt) ;;; ow_free (Some cb) ;;;
              ow_ret (false, Some (ow_mk_hook (ohk_self h) (snd r) (ohk_cbs h)))) Q s.
Proof.
  intros [W1 [W2 [W3 W4]]] [Hok Hown] Hcr HQ.
  destruct (ohk_self h) as [a|] eqn:Ea; [|congruence].
  destruct (ool_self (ohk_lst h)) as [ls|] eqn:Els; [|congruence].
  destruct (ool_blk (ohk_lst h)) as [lb|] eqn:Elb; [|congruence].
  unfold fp_hook in Hown. rewrite ?Ea, ?Els, ?Elb in Hown.
  apply wp_bind. apply wp_use. { exists a. split; auto. cnt_at a. }
  apply wp_bind. apply wp_list_push; auto.
  - rewrite ?Els. live_solve.
  - rewrite ?Elb. live_solve.
  - intros s1 Ok1 L1 Hfull. cbn [fst snd].
    destruct created. { specialize (Hcr eq_refl). lia. }
    wp_go. apply HQ; try discriminate.
    + repeat split; cbn; congruence.
    + split; auto. intros j. unfold fp_hook. cbn. rewrite ?Ea, ?Els, ?Elb. cnt_at j.
  - intros l1 s1 Ok1 Hs1 [b1 [Eb1 Hb1]] L1 Hsz _. cbn [fst snd]. apply wp_ret.
    apply HQ.
    + repeat split; cbn; try congruence. intros Hin. apply in_app_or in Hin. destruct Hin as [Hin|[Hin|[]]]; [auto | discriminate].
    + split; auto. intros j. unfold fp_hook. cbn. rewrite ?Ea, ?Hs1, ?Els, ?Eb1. rewrite ?Elb in L1. cnt_at j.
    + intros _. cbn. lia.
Qed.

Lemma wp_hook_register h F (Q : bool * option ow_hook -> ow_state -> Prop) s :
  wf_hooko h -> ow_own (fp_hooko h ++ F) s ->
  (forall ok h' s', wf_hooko h' -> ow_own (fp_hooko h' ++ F) s' -> (h <> None -> h' <> None) -> Q (ok, h') s') ->
  ow_wp (ow_hook_register h) Q s.
Proof.
  intros W [Hok Hown] HQ. unfold ow_hook_register.
  apply wp_bind. apply wp_malloc; auto.
  - intros s1 Ok1 L1 _ _ _ _. apply wp_ret. apply HQ; auto. split; auto. intros j. rewrite L1. auto.
  - intros s1 Ok1 L1 _ _ _ _. destruct h as [h|].
    + apply wp_bind. apply wp_ret.
      apply (wp_hook_push h (oos_next s) false F); auto.
      * split; auto. intros j. rewrite L1, Hown. cbn [fp_hooko]. cnt_norm. lia.
      * discriminate.
      * intros ok h' s2 W2 O2 _. apply HQ; auto. discriminate.
    + apply wp_bind. apply wp_bind. apply (wp_hook_create (oos_next s :: F)).
      * split; auto. intros j. rewrite L1, Hown. cbn. lia.
      * intros s2 O2. apply wp_ret. own_split O2. wp_go.
        apply HQ; cbn; auto. split; auto. intros j. cnt_at j.
      * intros h s2 W2 Hc Hsz Hmx O2. apply wp_ret.
        apply (wp_hook_push h (oos_next s) true F); auto.
        -- intros _. rewrite Hsz, Hmx. apply hook_cap_pos.
Qed.

Lemma wp_hook_copy_loop cbs copy F (Q : option ow_hook -> ow_state -> Prop) s :
  wf_hook copy -> ow_own (fp_hook copy ++ F) s ->
  (forall c, In c cbs -> live_in c s /\ (forall j, cnto j c <= cnt j F)) ->
  (forall r s', wf_hooko r -> ow_own (fp_hooko r ++ F) s' -> Q r s') ->
  ow_wp (ow_hook_copy_loop cbs copy) Q s.
Proof.
  revert copy s. induction cbs as [|c r IH]; intros copy s W O Hl HQ; cbn [ow_hook_copy_loop].
  - apply wp_ret. apply HQ; auto.
  - apply wp_bind. apply wp_use. { apply Hl. left; auto. }
    apply wp_bind. apply (wp_hook_register (Some copy) F); auto.
    intros ok h' s1 W1 O1 Hnn. cbn [fst snd]. destruct ok.
    + destruct h' as [h'|]; [|exfalso; apply Hnn; [discriminate | reflexivity]].
      apply IH; auto.
      intros c' Hin. destruct (Hl c' (or_intror Hin)) as [[i [-> Hi]] Hc]. split; auto.
      exists i. split; auto. destruct O1 as [_ O1]. rewrite O1. specialize (Hc i). cnt_norm. lia.
    + apply wp_bind. apply wp_hook_destroyo with (F := F); auto.
      intros s2 O2. apply wp_ret. apply HQ; cbn; auto.
Qed.

Lemma wp_hook_copy h F (Q : option ow_hook -> ow_state -> Prop) s :
  wf_hooko h -> ow_own (fp_hooko h ++ F) s ->
  (forall r s', wf_hooko r -> ow_own (fp_hooko r ++ fp_hooko h ++ F) s' -> Q r s') ->
  ow_wp (ow_hook_copy h) Q s.
Proof.
  intros W O HQ. unfold ow_hook_copy. destruct h as [h|].
  2:{ apply wp_ret. apply HQ; cbn; auto. }
  apply wp_bind. apply (wp_hook_create (fp_hook h ++ F)); auto.
  - intros s1 O1. apply wp_ret. apply HQ; cbn; auto.
  - intros c s1 Wc _ _ _ O1. apply wp_bind. destruct W as [W1 [W2 [W3 W4]]].
    destruct (ohk_self h) as [a|] eqn:Ea; [|congruence].
    apply wp_use.
    { exists a. split; auto. destruct O1 as [_ O1]. rewrite O1. unfold fp_hook at 2. rewrite Ea. cnt_norm. lia. }
    apply wp_hook_copy_loop with (F := fp_hook h ++ F); auto.
    intros c' Hin. destruct c' as [i|]; [|contradiction].
    assert (Hc : forall j, cnto j (Some i) <= cnt j (fp_hook h ++ F)).
    { intros j. unfold fp_hook. cnt_norm. clear - Hin. induction (ohk_cbs h) as [|x r IH]; [contradiction|].
      destruct Hin as [->|Hin]; cnt_norm; [lia|]. specialize (IH Hin). destruct x; cnt_norm; lia. }
    split; auto. exists i. split; auto. destruct O1 as [_ O1]. rewrite O1. specialize (Hc i). cnt_norm. lia.
Qed.

(* ------------------------------------------------------------------ generic: destroying a list of objects *)
Lemma own_perm l1 l2 s : (forall j, cnt j l1 = cnt j l2) -> ow_own l1 s -> ow_own l2 s.
Proof. intros H [Hok Ho]. split; auto. intros j. rewrite Ho. auto. Qed.

Lemma cnt_flat_map_cons {A} (fp : A -> list nat) a l j : cnt j (flat_map fp (a :: l)) = cnt j (fp a) + cnt j (flat_map fp l).
Proof. cbn. now rewrite cnt_app. Qed.
Lemma cnt_flat_map_app {A} (fp : A -> list nat) l1 l2 j : cnt j (flat_map fp (l1 ++ l2)) = cnt j (flat_map fp l1) + cnt j (flat_map fp l2).
Proof. rewrite flat_map_app. apply cnt_app. Qed.
Lemma cnt_flat_map_nil {A} (fp : A -> list nat) j : cnt j (flat_map fp []) = 0.
Proof. reflexivity. Qed.
#[export] Hint Rewrite @cnt_flat_map_cons @cnt_flat_map_app @cnt_flat_map_nil : cnt.

Lemma wp_iter_own {A} (f : A -> ow_M unit) (fp : A -> list nat) (P : A -> Prop) l F (Q : unit -> ow_state -> Prop) s :
  (forall a G (Q' : unit -> ow_state -> Prop) s', P a -> ow_own (fp a ++ G ++ F) s' ->
        (forall s'', ow_own (G ++ F) s'' -> Q' tt s'') -> ow_wp (f a) Q' s') ->
  Forall P l -> ow_own (flat_map fp l ++ F) s -> (forall s', ow_own F s' -> Q tt s') ->
  ow_wp (ow_iter f l) Q s.
Proof.
  intros Hf. revert s. induction l as [|a r IH]; intros s HP O HQ; cbn [ow_iter].
  - apply wp_ret. apply HQ. exact O.
  - inversion HP; subst. apply wp_bind. apply (Hf a (flat_map fp r)); auto.
    + eapply own_perm; [|exact O]. intros j. cnt_norm. lia.
Qed.

(* ------------------------------------------------------------------ headers, uris *)
Definition fp_hdr (h : ow_hdr) : list nat := olist [ohd_self h; ohd_name h; ohd_value h].
Definition wf_hdr (h : ow_hdr) : Prop := ohd_self h <> None.
Definition fp_uri (u : ow_uri) : list nat := olist (our_self u :: our_fields u).
Definition fp_urio (u : option ow_uri) : list nat := match u with Some u => fp_uri u | None => [] end.
Definition wf_urio (u : option ow_uri) : Prop := match u with Some u => our_self u <> None | None => True end.
Definition fp_tblo (t : option ow_tbl) : list nat := match t with Some t => fp_tbl t | None => [] end.
Definition wf_tblo (t : option ow_tbl) : Prop := match t with Some t => wf_tbl t /\ tbl_ptrs t | None => True end.

Lemma wp_hdr_free h F (Q : unit -> ow_state -> Prop) s :
  wf_hdr h -> ow_own (fp_hdr h ++ F) s -> (forall s', ow_own F s' -> Q tt s') -> ow_wp (ow_hdr_free h) Q s.
Proof.
  intros W [Hok Hown] HQ. unfold ow_hdr_free, wf_hdr in *. destruct (ohd_self h) as [a|] eqn:Ea; [|congruence].
  unfold fp_hdr in Hown. rewrite Ea in Hown.
  destruct (ohd_name h) as [n|], (ohd_value h) as [v|]; wp_go; apply HQ; split; auto; intros j; cnt_at j.
Qed.

Lemma wp_hdrs_free l F (Q : unit -> ow_state -> Prop) s :
  Forall wf_hdr l -> ow_own (flat_map fp_hdr l ++ F) s -> (forall s', ow_own F s' -> Q tt s') ->
  ow_wp (ow_iter ow_hdr_free l) Q s.
Proof.
  intros W O HQ. eapply wp_iter_own with (fp := fp_hdr) (P := wf_hdr); eauto.
  intros a G Q' s' Pa Oa HQ'. apply wp_hdr_free with (F := G ++ F); auto.
Qed.

Lemma wp_uri_free u F (Q : unit -> ow_state -> Prop) s :
  wf_urio u -> ow_own (fp_urio u ++ F) s -> (forall s', ow_own F s' -> Q tt s') -> ow_wp (ow_uri_free u) Q s.
Proof.
  intros W O HQ. destruct u as [u|]; cbn in *.
  2:{ apply wp_ret. auto. }
  destruct O as [Hok Hown]. destruct (our_self u) as [a|] eqn:Ea; [|congruence].
  unfold fp_uri in Hown. rewrite ?Ea in Hown.
  apply wp_bind. apply wp_use. { exists a. split; auto. cnt_at a. }
  apply wp_bind. apply wp_iter_free; auto. { intros j. rewrite Hown. cnt_norm. lia. }
  intros s1 Ok1 L1. wp_go. apply HQ. split; auto. intros j. cnt_at j.
Qed.

Lemma wp_uri_alloc F (Q : option ow_uri -> ow_state -> Prop) s :
  ow_own F s -> (forall s', ow_own F s' -> Q None s') ->
  (forall u s', wf_urio (Some u) -> ow_own (fp_uri u ++ F) s' -> Q (Some u) s') ->
  ow_wp ow_uri_alloc Q s.
Proof.
  intros [Hok Hown] HN HS. unfold ow_uri_alloc. wp_go.
  - apply HN. split; auto. intros j; cnt_at j.
  - apply HS; cbn; try discriminate. split; auto. intros j. unfold fp_uri. cbn. cnt_at j.
Qed.

Lemma wp_table_destroyo t F (Q : unit -> ow_state -> Prop) s :
  wf_tblo t -> ow_own (fp_tblo t ++ F) s -> (forall s', ow_own F s' -> Q tt s') -> ow_wp (ow_table_destroy t) Q s.
Proof.
  destruct t as [t|]; cbn [wf_tblo fp_tblo].
  - intros [W P]. now apply wp_table_destroy.
  - intros _ O HQ. apply wp_ret. auto.
Qed.

(* ------------------------------------------------------------------ transactions *)
Definition fp_tx (tx : ow_tx) : list nat :=
  olist [otx_self tx] ++ olist (otx_req_strs tx) ++ fp_urio (otx_uri_raw tx) ++ fp_urio (otx_uri tx) ++
  olist [otx_auth_user tx; otx_auth_pass tx] ++
  fp_tblo (otx_req_hdrs tx) ++ flat_map fp_hdr (otx_req_hvals tx) ++
  flat_map fp_hdr (otx_pvals tx) ++ fp_tblo (otx_params tx) ++
  fp_tblo (otx_cookies tx) ++ olist (otx_cvals tx) ++
  fp_hooko (otx_hook_req tx) ++ fp_hooko (otx_hook_res tx) ++
  olist (otx_res_strs tx) ++ fp_tblo (otx_res_hdrs tx) ++ flat_map fp_hdr (otx_res_hvals tx).

Definition wf_tx (tx : ow_tx) : Prop :=
  otx_self tx <> None /\ wf_urio (otx_uri_raw tx) /\ wf_urio (otx_uri tx) /\
  wf_tblo (otx_req_hdrs tx) /\ Forall wf_hdr (otx_req_hvals tx) /\ (otx_req_hdrs tx = None -> otx_req_hvals tx = []) /\
  Forall wf_hdr (otx_pvals tx) /\ wf_tblo (otx_params tx) /\
  wf_tblo (otx_cookies tx) /\ (otx_cookies tx = None -> otx_cvals tx = []) /\
  wf_hooko (otx_hook_req tx) /\ wf_hooko (otx_hook_res tx) /\
  wf_tblo (otx_res_hdrs tx) /\ Forall wf_hdr (otx_res_hvals tx) /\ (otx_res_hdrs tx = None -> otx_res_hvals tx = []) /\
  Forall (fun h => ohd_value h <> None) (otx_req_hvals tx).

Lemma own_live_in o F G s : ow_own (G ++ F) s -> o <> None -> (forall j, cnto j o <= cnt j F) -> live_in o s.
Proof.
  intros [_ H] Hn Hc. destruct o as [a|]; [|congruence]. exists a. split; auto.
  rewrite H. specialize (Hc a). cnt_norm. lia.
Qed.

(* one of the three header tables of a transaction with the header structs it indexes *)
Lemma wp_tx_hdrs t hv F (Q : unit -> ow_state -> Prop) s :
  wf_tblo t -> Forall wf_hdr hv -> (t = None -> hv = []) ->
  ow_own (fp_tblo t ++ flat_map fp_hdr hv ++ F) s -> (forall s', ow_own F s' -> Q tt s') ->
  ow_wp (match t with
         | None => ow_ret tt
         | Some t => ow_use (oot_self t) ;;; ow_iter ow_hdr_free hv ;;; ow_table_destroy (Some t)
         end) Q s.
Proof.
  intros W Wh Hn O HQ. destruct t as [t|].
  - destruct W as [W [P1 P2]]. cbn [fp_tblo] in O.
    apply wp_bind. apply wp_use. { eapply own_live_self; eauto. }
    apply wp_bind. apply wp_hdrs_free with (F := fp_tbl t ++ F); auto.
    { eapply own_perm; [|exact O]. intros j. cnt_norm. lia. }
    intros s1 O1. apply wp_table_destroy with (F := F); auto. split; auto.
  - rewrite (Hn eq_refl) in O. apply wp_ret. apply HQ. exact O.
Qed.

Lemma wp_tx_destroy tx F (Q : unit -> ow_state -> Prop) s :
  wf_tx tx -> ow_own (fp_tx tx ++ F) s ->
  otx_conn tx <> None -> otx_connp tx <> None ->
  (forall j, cnto j (otx_conn tx) <= cnt j F) -> (forall j, cnto j (otx_connp tx) <= cnt j F) ->
  (forall s', ow_own F s' -> Q tt s') ->
  ow_wp (ow_tx_destroy_incomplete tx) Q s.
Proof.
  intros [W1 [W2 [W3 [W4 [W5 [W6 [W7 [W8 [W9 [W10 [W11 [W12 [W13 [W14 [W15 W16]]]]]]]]]]]]]]] O Hc Hp HcF HpF HQ.
  unfold ow_tx_destroy_incomplete. unfold fp_tx in O.
  destruct (otx_self tx) as [a|] eqn:Ea; [|congruence].
  set (U1 := fp_urio (otx_uri_raw tx)) in *. set (U2 := fp_urio (otx_uri tx)) in *.
  set (T1 := fp_tblo (otx_req_hdrs tx)) in *. set (H1 := flat_map fp_hdr (otx_req_hvals tx)) in *.
  set (PV := flat_map fp_hdr (otx_pvals tx)) in *. set (TP := fp_tblo (otx_params tx)) in *.
  set (TC := fp_tblo (otx_cookies tx)) in *. set (CV := olist (otx_cvals tx)) in *.
  set (K1 := fp_hooko (otx_hook_req tx)) in *. set (K2 := fp_hooko (otx_hook_res tx)) in *.
  set (RS := olist (otx_res_strs tx)) in *. set (T3 := fp_tblo (otx_res_hdrs tx)) in *.
  set (H3 := flat_map fp_hdr (otx_res_hvals tx)) in *.
  apply wp_bind. apply wp_use. { exists a. split; auto. destruct O as [_ O]. rewrite O. cnt_norm. lia. }
  apply wp_bind. apply wp_use. { eapply own_live_in; eauto. }
  apply wp_bind. apply wp_use. { eapply own_live_in; eauto. }
  apply wp_bind. destruct O as [Hok Hown].
  apply wp_iter_free; auto. { intros j. rewrite Hown. cnt_norm. lia. }
  intros s1 Ok1 L1.
  apply wp_bind. apply wp_uri_free with (F := a :: U2 ++ olist [otx_auth_user tx; otx_auth_pass tx] ++ T1 ++ H1 ++ PV ++ TP ++ TC ++ CV ++ K1 ++ K2 ++ RS ++ T3 ++ H3 ++ F); auto.
  { split; auto. intros j. specialize (L1 j). specialize (Hown j). fold U1. cnt_norm. lia. }
  clear Hok Hown L1 Ok1. intros s2 O2.
  apply wp_bind. apply wp_uri_free with (F := a :: olist [otx_auth_user tx; otx_auth_pass tx] ++ T1 ++ H1 ++ PV ++ TP ++ TC ++ CV ++ K1 ++ K2 ++ RS ++ T3 ++ H3 ++ F); auto.
  { eapply own_perm; [|exact O2]. intros j. fold U2. cnt_norm. lia. }
  clear O2. intros s3 [Ok3 L3].
  apply wp_bind. apply wp_free; auto.
  { intros i E. rewrite L3, E. cnt_norm. lia. }
  intros s4 Ok4 L4 _.
  apply wp_bind. apply wp_free; auto.
  { intros i E. specialize (L4 i). rewrite L3 in L4. rewrite E in *. cnt_norm.
    pose proof (ok_nodup _ Ok3 i) as N. rewrite L3 in N. cnt_norm. lia. }
  intros s5 Ok5 L5 _.
  apply wp_bind. apply wp_tx_hdrs with (F := a :: PV ++ TP ++ TC ++ CV ++ K1 ++ K2 ++ RS ++ T3 ++ H3 ++ F); auto.
  { split; auto. intros j. specialize (L4 j). specialize (L5 j). specialize (L3 j). fold T1 H1. cnt_norm. lia. }
  clear Ok3 L3 Ok4 L4 Ok5 L5. intros s6 O6.
  apply wp_bind. apply wp_hdrs_free with (F := TP ++ a :: TC ++ CV ++ K1 ++ K2 ++ RS ++ T3 ++ H3 ++ F); auto.
  { eapply own_perm; [|exact O6]. intros j. fold PV. cnt_norm. lia. }
  clear O6. intros s7 O7.
  apply wp_bind. apply wp_table_destroyo with (F := a :: TC ++ CV ++ K1 ++ K2 ++ RS ++ T3 ++ H3 ++ F); auto.
  clear O7. intros s8 O8.
  apply wp_bind.
  assert (Hck : forall (Q' : unit -> ow_state -> Prop),
      (forall s', ow_own (a :: K1 ++ K2 ++ RS ++ T3 ++ H3 ++ F) s' -> Q' tt s') ->
      ow_wp (match otx_cookies tx with
             | None => ow_ret tt
             | Some t => ow_use (oot_self t) ;;; ow_iter ow_free (otx_cvals tx) ;;; ow_table_destroy (Some t)
             end) Q' s8).
  { intros Q' HQ'. unfold TC, CV in O8. destruct (otx_cookies tx) as [t|] eqn:Et.
    - destruct W9 as [Wt [P1 P2]]. cbn [fp_tblo] in O8.
      assert (O8' : ow_own (fp_tbl t ++ a :: olist (otx_cvals tx) ++ K1 ++ K2 ++ RS ++ T3 ++ H3 ++ F) s8).
      { eapply own_perm; [|exact O8]. intros j. cnt_norm. lia. }
      apply wp_bind. apply wp_use. { eapply own_live_self; eauto. }
      apply wp_bind. destruct O8' as [Ok8 L8]. apply wp_iter_free; auto. { intros j. rewrite L8. cnt_norm. lia. }
      intros s9 Ok9 L9. apply wp_table_destroy with (F := a :: K1 ++ K2 ++ RS ++ T3 ++ H3 ++ F); auto. { split; auto. }
      split; auto. intros j. specialize (L8 j). specialize (L9 j). cnt_norm. lia.
    - rewrite (W10 eq_refl) in O8. apply wp_ret. apply HQ'. exact O8. }
  apply Hck. clear Hck O8. intros s9 O9.
  apply wp_bind. apply wp_hook_destroyo with (F := a :: K2 ++ RS ++ T3 ++ H3 ++ F); auto.
  { eapply own_perm; [|exact O9]. intros j. fold K1. cnt_norm. lia. }
  clear O9. intros s10 O10.
  apply wp_bind. apply wp_hook_destroyo with (F := a :: RS ++ T3 ++ H3 ++ F); auto.
  { eapply own_perm; [|exact O10]. intros j. fold K2. cnt_norm. lia. }
  clear O10. intros s11 [Ok11 L11].
  apply wp_bind. apply wp_iter_free; auto. { intros j. rewrite L11. fold RS. cnt_norm. lia. }
  intros s12 Ok12 L12.
  apply wp_bind. apply wp_tx_hdrs with (F := a :: F); auto.
  { split; auto. intros j. specialize (L11 j). specialize (L12 j). fold RS in L12. fold T3 H3. cnt_norm. lia. }
  intros s13 [Ok13 L13]. wp_go. apply HQ. split; auto. intros j. cnt_at j.
Qed.

(* ------------------------------------------------------------------ connections *)
Definition fp_lsto (l : option ow_lst) : list nat := match l with Some l => olist [ool_self l; ool_blk l] | None => [] end.
Definition wf_lsto (l : option ow_lst) : Prop := match l with Some l => ool_self l <> None /\ ool_blk l <> None | None => True end.
Definition fp_txo (t : option ow_tx) : list nat := match t with Some tx => fp_tx tx | None => [] end.
Definition fp_log (l : ow_log) : list nat := olist [olg_self l; olg_msg l].
Definition fp_conn (c : ow_conn) : list nat :=
  olist [ocn_self c] ++ fp_lsto (ocn_txl c) ++ flat_map fp_txo (ocn_txs c) ++
  fp_lsto (ocn_msgl c) ++ flat_map fp_log (ocn_msgs c) ++ olist [ocn_client c; ocn_server c].
Definition wf_txo (self connp : ow_oid) (t : option ow_tx) : Prop :=
  match t with Some tx => wf_tx tx /\ otx_conn tx = self /\ otx_connp tx = connp | None => True end.
Definition wf_conn (connp : ow_oid) (c : ow_conn) : Prop :=
  ocn_self c <> None /\ wf_lsto (ocn_txl c) /\ (ocn_txl c = None -> ocn_txs c = []) /\
  Forall (wf_txo (ocn_self c) connp) (ocn_txs c) /\
  wf_lsto (ocn_msgl c) /\ (ocn_msgl c = None -> ocn_msgs c = []) /\ Forall (fun l => olg_self l <> None) (ocn_msgs c).
(* the connection parser must be alive while transactions are destroyed *)
Definition connp_in (connp : ow_oid) (c : ow_conn) (F : list nat) : Prop :=
  (exists t, In (Some t) (ocn_txs c)) -> connp <> None /\ forall j, cnto j connp <= cnt j F.

Lemma wp_lsto_destroy l F (Q : unit -> ow_state -> Prop) s :
  wf_lsto l -> ow_own (fp_lsto l ++ F) s -> (forall s', ow_own F s' -> Q tt s') -> ow_wp (ow_list_destroy l) Q s.
Proof.
  intros W [Hok Hown] HQ. destruct l as [l|]; cbn [fp_lsto wf_lsto] in *.
  2:{ apply wp_ret. apply HQ. split; auto. }
  destruct W as [W1 W2].
  destruct (ool_self l) as [a|] eqn:Ea; [|congruence]. destruct (ool_blk l) as [b|] eqn:Eb; [|congruence].
  apply wp_list_destroy; auto.
  - rewrite ?Ea. live_solve.
  - rewrite ?Eb. live_solve.
  - rewrite ?Ea, ?Eb. intros E. injection E as ->. cnt_at b.
  - intros s1 Ok1 L1. rewrite ?Ea, ?Eb in L1. apply HQ. split; auto. intros j. cnt_at j.
Qed.

Lemma wp_log_free l F (Q : unit -> ow_state -> Prop) s :
  olg_self l <> None -> ow_own (fp_log l ++ F) s -> (forall s', ow_own F s' -> Q tt s') -> ow_wp (ow_log_free l) Q s.
Proof.
  intros W [Hok Hown] HQ. unfold ow_log_free. destruct (olg_self l) as [a|] eqn:Ea; [|congruence].
  unfold fp_log in Hown. rewrite ?Ea in Hown.
  destruct (olg_msg l) as [m|]; wp_go; apply HQ; split; auto; intros j; cnt_at j.
Qed.

Lemma wp_conn_destroy connp c F (Q : unit -> ow_state -> Prop) s :
  wf_conn connp c -> connp_in connp c F -> ow_own (fp_conn c ++ F) s ->
  (forall s', ow_own F s' -> Q tt s') ->
  ow_wp (ow_conn_destroy (Some c)) Q s.
Proof.
  intros [W1 [W2 [W3 [W4 [W5 [W6 W7]]]]]] Hcp O HQ. unfold ow_conn_destroy. unfold fp_conn in O.
  destruct (ocn_self c) as [a|] eqn:Ea; [|congruence].
  set (TL := fp_lsto (ocn_txl c)) in *. set (TX := flat_map fp_txo (ocn_txs c)) in *.
  set (ML := fp_lsto (ocn_msgl c)) in *. set (MS := flat_map fp_log (ocn_msgs c)) in *.
  apply wp_bind. apply wp_use. { exists a. split; auto. destruct O as [_ O]. rewrite O. cnt_norm. lia. }
  apply wp_bind.
  assert (H1 : forall (Q' : unit -> ow_state -> Prop),
     (forall s', ow_own (a :: ML ++ MS ++ olist [ocn_client c; ocn_server c] ++ F) s' -> Q' tt s') ->
     ow_wp (match ocn_txl c with
            | None => ow_ret tt
            | Some l => ow_iter (fun t => match t with None => ow_ret tt | Some tx => ow_tx_destroy_incomplete tx end) (ocn_txs c) ;;;
                        ow_list_destroy (Some l)
            end) Q' s).
  { intros Q' HQ'. unfold TL, TX in O. destruct (ocn_txl c) as [l|] eqn:El.
    - apply wp_bind.
      apply wp_iter_own with (fp := fp_txo) (F := a :: fp_lsto (Some l) ++ ML ++ MS ++ olist [ocn_client c; ocn_server c] ++ F)
                             (P := fun t => wf_txo (Some a) connp t /\ (t <> None -> connp <> None /\ forall j, cnto j connp <= cnt j F)).
      + intros [tx|] G Q'' s' [Pa Pb] Oa HQ''.
        * destruct Pa as [Wt [Ec Ep]]. destruct (Pb ltac:(discriminate)) as [Hn Hle].
          apply wp_tx_destroy with (F := G ++ a :: fp_lsto (Some l) ++ ML ++ MS ++ olist [ocn_client c; ocn_server c] ++ F); auto.
          -- rewrite Ec. discriminate.
          -- rewrite Ep. auto.
          -- intros j. rewrite Ec. cnt_norm. lia.
          -- intros j. rewrite Ep. specialize (Hle j). cnt_norm. lia.
        * apply wp_ret. apply HQ''. exact Oa.
      + apply Forall_forall. intros t Hin. split.
        * rewrite Forall_forall in W4. auto.
        * intros Hn. destruct t as [t|]; [|congruence]. apply Hcp. exists t. auto.
      + eapply own_perm; [|exact O]. intros j. cnt_norm. lia.
      + intros s1 O1. apply wp_lsto_destroy with (F := a :: ML ++ MS ++ olist [ocn_client c; ocn_server c] ++ F); auto.
        eapply own_perm; [|exact O1]. intros j. cnt_norm. lia.
    - rewrite (W3 eq_refl) in O. apply wp_ret. apply HQ'. eapply own_perm; [|exact O]. intros j. cbn [fp_lsto flat_map]. cnt_norm. lia. }
  apply H1. clear H1 O. intros s1 O1.
  apply wp_bind.
  assert (H2 : forall (Q' : unit -> ow_state -> Prop),
     (forall s', ow_own (a :: olist [ocn_client c; ocn_server c] ++ F) s' -> Q' tt s') ->
     ow_wp (match ocn_msgl c with
            | None => ow_ret tt
            | Some l => ow_iter ow_log_free (ocn_msgs c) ;;; ow_list_destroy (Some l)
            end) Q' s1).
  { intros Q' HQ'. unfold ML, MS in O1. destruct (ocn_msgl c) as [l|] eqn:El.
    - apply wp_bind.
      apply wp_iter_own with (fp := fp_log) (F := a :: fp_lsto (Some l) ++ olist [ocn_client c; ocn_server c] ++ F)
                             (P := fun l => olg_self l <> None); auto.
      + intros lg G Q'' s' Pa Oa HQ''. apply wp_log_free with (F := G ++ a :: fp_lsto (Some l) ++ olist [ocn_client c; ocn_server c] ++ F); auto.
      + eapply own_perm; [|exact O1]. intros j. cnt_norm. lia.
      + intros s2 O2. apply wp_lsto_destroy with (F := a :: olist [ocn_client c; ocn_server c] ++ F); auto.
        eapply own_perm; [|exact O2]. intros j. cnt_norm. lia.
    - rewrite (W6 eq_refl) in O1. apply wp_ret. apply HQ'. eapply own_perm; [|exact O1]. intros j. cbn [fp_lsto flat_map]. cnt_norm. lia. }
  apply H2. clear H2 O1. intros s2 [Ok2 L2].
  destruct (ocn_client c) as [cl|], (ocn_server c) as [sv|]; wp_go; apply HQ; split; auto; intros j; cnt_at j.
Qed.

Lemma wp_conn_create F (Q : option ow_conn -> ow_state -> Prop) s :
  ow_own F s -> (forall s', ow_own F s' -> Q None s') ->
  (forall c s', (forall cp, wf_conn cp c) -> ocn_txs c = [] -> ocn_msgs c = [] -> ocn_client c = None -> ocn_server c = None ->
                (exists l, ocn_txl c = Some l /\ ool_size l = 0 /\ ool_max l = c_ow_conn_tx_cap) ->
                (exists l, ocn_msgl c = Some l /\ ool_size l = 0 /\ ool_max l = c_ow_conn_msg_cap) ->
                ow_own (fp_conn c ++ F) s' -> Q (Some c) s') ->
  ow_wp ow_conn_create Q s.
Proof.
  intros [Hok Hown] HN HS. unfold ow_conn_create. wp_go.
  - apply HN. split; auto. intros j; cnt_at j.
  - apply wp_list_create; auto.
    + intros s1 Ok1 L1. wp_go. apply HN. split; auto. intros j; cnt_at j.
    + intros a b s1 Ok1 L1 _. apply wp_bind. apply wp_list_create; auto.
      * intros s2 Ok2 L2. apply wp_bind. apply wp_list_destroy; cbn; auto.
        -- live_solve.
        -- live_solve.
        -- intros E. injection E as ->. cnt_at b.
        -- intros s3 Ok3 L3. cbn in L3. wp_go. apply HN. split; auto. intros j; cnt_at j.
      * intros a2 b2 s2 Ok2 L2 _. apply wp_ret. apply HS; cbn; auto.
        -- intros cp. repeat split; cbn; try discriminate; auto.
        -- eexists; repeat split.
        -- eexists; repeat split.
        -- split; auto. intros j. unfold fp_conn. cbn. cnt_at j.
Qed.

Lemma fp_conn_addrs c cl sv j :
  cnt j (fp_conn (ow_conn_set_addrs c cl sv)) + cnto j (ocn_client c) + cnto j (ocn_server c) = cnt j (fp_conn c) + cnto j cl + cnto j sv.
Proof.
  unfold fp_conn. cbn [ow_conn_set_addrs ocn_self ocn_txl ocn_txs ocn_msgl ocn_msgs ocn_client ocn_server].
  cnt_norm. lia.
Qed.

Lemma wf_conn_addrs cp c cl sv : wf_conn cp c -> wf_conn cp (ow_conn_set_addrs c cl sv).
Proof. intros W. exact W. Qed.

(* htp_conn_open on a connection whose addresses are not set yet *)
Lemma wp_conn_open c hc hs F (Q : bool * ow_conn -> ow_state -> Prop) s :
  ocn_self c <> None -> ocn_client c = None -> ocn_server c = None -> ow_own (fp_conn c ++ F) s ->
  (forall ok c' s', (forall cp, wf_conn cp c -> wf_conn cp c') -> ocn_txs c' = ocn_txs c ->
                    ow_own (fp_conn c' ++ F) s' -> Q (ok, c') s') ->
  ow_wp (ow_conn_open c hc hs) Q s.
Proof.
  intros W Ecl Esv [Hok Hown] HQ. unfold ow_conn_open. destruct (ocn_self c) as [a|] eqn:Ea; [|congruence].
  assert (Ha : 1 <= cnt a (oos_live s)). { rewrite Hown. unfold fp_conn. rewrite Ea. cnt_norm. lia. }
  rewrite Ecl, Esv.
  destruct hc, hs; wp_go; cbn [andb ow_isnull]; wp_go;
    (apply HQ; [intros cp Wc; exact Wc | reflexivity |
      split; auto; intros j;
      match goal with |- context [fp_conn (ow_conn_set_addrs c ?cl ?sv)] =>
        pose proof (fp_conn_addrs c cl sv j) as FA; rewrite Ecl, Esv in FA end; cnt_at j]).
Qed.

Lemma fp_conn_set_msgs c l ms j :
  cnt j (fp_conn (ocn_set_msgs c l ms)) + cnt j (fp_lsto (ocn_msgl c)) + cnt j (flat_map fp_log (ocn_msgs c))
  = cnt j (fp_conn c) + cnt j (fp_lsto l) + cnt j (flat_map fp_log ms).
Proof.
  unfold fp_conn. cbn [ocn_set_msgs ocn_self ocn_txl ocn_txs ocn_msgl ocn_msgs ocn_client ocn_server]. cnt_norm. lia.
Qed.
Lemma fp_conn_set_txs c l txs j :
  cnt j (fp_conn (ocn_set_txs c l txs)) + cnt j (fp_lsto (ocn_txl c)) + cnt j (flat_map fp_txo (ocn_txs c))
  = cnt j (fp_conn c) + cnt j (fp_lsto l) + cnt j (flat_map fp_txo txs).
Proof.
  unfold fp_conn. cbn [ocn_set_txs ocn_self ocn_txl ocn_txs ocn_msgl ocn_msgs ocn_client ocn_server]. cnt_norm. lia.
Qed.

Lemma cnt_fp_log_mk j a b : cnt j (fp_log (ow_mk_log a b)) = cnto j a + cnto j b.
Proof. unfold fp_log. cbn [olg_self olg_msg]. cnt_norm. lia. Qed.

(* ------------------------------------------------------------------ htp_log *)
Lemma wp_log_msg on connp cp c F (Q : ow_conn -> ow_state -> Prop) s :
  wf_conn cp c -> ow_own (fp_conn c ++ F) s -> connp <> None -> (forall j, cnto j connp <= cnt j F) ->
  (forall c' s', wf_conn cp c' -> ocn_txs c' = ocn_txs c -> ocn_txl c' = ocn_txl c -> ocn_self c' = ocn_self c ->
                 ow_own (fp_conn c' ++ F) s' -> Q c' s') ->
  ow_wp (ow_log_msg on connp c) Q s.
Proof.
  intros W O Hn Hle HQ. unfold ow_log_msg.
  apply wp_bind. apply wp_use. { eapply own_live_in; eauto. }
  destruct on; cbn [negb].
  2:{ apply wp_ret. apply HQ; auto. }
  destruct O as [Hok Hown]. pose proof W as [W1 [W2 [W3 [W4 [W5 [W6 W7]]]]]].
  destruct (ocn_self c) as [a|] eqn:Ea; [|congruence].
  assert (Ha : forall j, ind a j <= cnt j (fp_conn c)). { intros j. unfold fp_conn. rewrite Ea. cnt_norm. lia. }
  apply wp_bind. apply wp_malloc; auto.
  - intros s1 Ok1 L1 _ _ _ _. apply wp_ret. apply HQ; auto. split; auto. intros j. rewrite L1. auto.
  - intros s1 Ok1 L1 _ _ _ _. set (lg := oos_next s) in *.
    assert (Hmsg : forall msg s2, ow_ok s2 -> (forall j, cnt j (oos_live s2) = cnto j msg + ind lg j + cnt j (fp_conn c ++ F)) ->
       ow_wp (ow_use (Some a) ;;;
              match ocn_msgl c with
              | None => ow_free msg ;;; ow_free (Some lg) ;;; ow_ret c
              | Some l =>
                r <- ow_list_push l ;;
                if fst r then ow_ret (ocn_set_msgs c (Some (snd r)) (ocn_msgs c ++ [ow_mk_log (Some lg) msg]))
                else ow_free msg ;;; ow_free (Some lg) ;;; ow_ret (ocn_set_msgs c (Some (snd r)) (ocn_msgs c))
              end) Q s2).
    { intros msg s2 Ok2 L2.
      apply wp_bind. apply wp_use. { exists a. split; auto. rewrite L2. specialize (Ha a). cnt_norm. lia. }
      destruct (ocn_msgl c) as [l|] eqn:El.
      - destruct W5 as [Wl1 Wl2].
        destruct (ool_self l) as [ls|] eqn:Els; [|congruence]. destruct (ool_blk l) as [lb|] eqn:Elb; [|congruence].
        assert (Hl : forall j, ind ls j + ind lb j <= cnt j (fp_conn c)).
        { intros j. unfold fp_conn. rewrite El. cbn [fp_lsto]. rewrite Els, Elb. cnt_norm. lia. }
        apply wp_bind. apply wp_list_push; auto.
        + rewrite Els. exists ls. split; auto. rewrite L2. specialize (Hl ls). cnt_norm. lia.
        + rewrite Elb. exists lb. split; auto. rewrite L2. specialize (Hl lb). cnt_norm. lia.
        + intros s3 Ok3 L3 _. cbn [fst snd].
          destruct msg as [m|]; wp_go; (apply HQ; auto;
            [ repeat split; cbn; auto; congruence
            | split; auto; intros j; pose proof (fp_conn_set_msgs c (Some l) (ocn_msgs c) j) as FM; rewrite El in FM; cnt_at j ]).
        + intros l1 s3 Ok3 Hs1 [b1 [Eb1 Hb1]] L3 _ _. cbn [fst snd]. apply wp_ret. apply HQ; auto.
          * repeat split; cbn; auto; try congruence.
            apply Forall_app. split; auto. constructor; [cbn; discriminate | constructor].
          * split; auto. intros j. pose proof (fp_conn_set_msgs c (Some l1) (ocn_msgs c ++ [ow_mk_log (Some lg) msg]) j) as FM.
            rewrite El in FM. cbn [fp_lsto] in FM. rewrite Hs1, Els, Eb1, Elb in FM.
            rewrite Elb in L3. specialize (L3 j). specialize (L2 j). cnt_norm. rewrite cnt_fp_log_mk in FM. cnt_norm. lia.
      - destruct msg as [m|]; wp_go; apply HQ; auto; split; auto; intros j; cnt_at j. }
    apply wp_bind. apply wp_malloc; auto.
    + intros s2 Ok2 L2 _ _ _ _. apply Hmsg; auto. intros j. rewrite L2, L1, Hown. cnt_norm. lia.
    + intros s2 Ok2 L2 _ _ _ _. apply Hmsg; auto. intros j. rewrite L2, L1, Hown. cnt_norm. lia.
Qed.

Lemma wp_log_n n on connp cp c F (Q : ow_conn -> ow_state -> Prop) s :
  wf_conn cp c -> ow_own (fp_conn c ++ F) s -> connp <> None -> (forall j, cnto j connp <= cnt j F) ->
  (forall c' s', wf_conn cp c' -> ocn_txs c' = ocn_txs c -> ocn_txl c' = ocn_txl c -> ocn_self c' = ocn_self c ->
                 ow_own (fp_conn c' ++ F) s' -> Q c' s') ->
  ow_wp (ow_log_n n on connp c) Q s.
Proof.
  revert c s. induction n as [|n IH]; intros c s W O Hn Hle HQ; cbn [ow_log_n].
  - apply wp_ret. apply HQ; auto.
  - apply wp_bind. eapply wp_log_msg; eauto.
    intros c1 s1 W1 E1 E2 E3 O1. eapply IH; eauto.
    intros c2 s2 W2 E4 E5 E6 O2. apply HQ; auto; congruence.
Qed.

(* ------------------------------------------------------------------ htp_tx_create *)
Lemma cnt_fp_tx_new j t cn cp u rh pa rs :
  cnt j (fp_tx (otx_set_tables (ow_tx_empty t cn cp) u rh pa rs)) =
  cnto j t + cnt j (fp_urio u) + cnt j (fp_tblo rh) + cnt j (fp_tblo pa) + cnt j (fp_tblo rs).
Proof.
  unfold fp_tx, otx_set_tables, ow_tx_empty.
  cbn [otx_self otx_req_strs otx_uri_raw otx_uri otx_auth_user otx_auth_pass otx_req_hdrs otx_req_hvals otx_pvals otx_params
       otx_cookies otx_cvals otx_hook_req otx_hook_res otx_res_strs otx_res_hdrs otx_res_hvals ow_nulls repeat fp_urio fp_tblo fp_hooko flat_map].
  cnt_norm. lia.
Qed.

Lemma wf_tx_new t cn cp u rh pa rs :
  t <> None -> wf_urio u -> wf_tblo rh -> wf_tblo pa -> wf_tblo rs ->
  wf_tx (otx_set_tables (ow_tx_empty t cn cp) u rh pa rs).
Proof.
  intros. unfold wf_tx, otx_set_tables, ow_tx_empty. cbn. repeat split; auto.
Qed.

Lemma wp_tx_create fixed connp c F (Q : bool * ow_conn -> ow_state -> Prop) s :
  fixed = true ->
  wf_conn connp c -> ow_own (fp_conn c ++ F) s -> connp <> None -> (forall j, cnto j connp <= cnt j F) ->
  (forall ok c' s', wf_conn connp c' -> ocn_self c' = ocn_self c -> ow_own (fp_conn c' ++ F) s' -> Q (ok, c') s') ->
  ow_wp (ow_tx_create_gen fixed connp c) Q s.
Proof.
  intros -> W O Hn Hle HQ. unfold ow_tx_create_gen. pose proof W as [W1 [W2 [W3 [W4 [W5 [W6 W7]]]]]].
  destruct (ocn_self c) as [a|] eqn:Ea; [|congruence].
  assert (Ha : forall j, ind a j <= cnt j (fp_conn c)). { intros j. unfold fp_conn. rewrite Ea. cnt_norm. lia. }
  assert (HQ0 : forall s', ow_own (fp_conn c ++ F) s' -> Q (false, c) s').
  { intros s' O'. apply HQ; auto. }
  destruct O as [Hok Hown].
  apply wp_bind. apply wp_malloc; auto.
  { intros s1 Ok1 L1 _ _ _ _. apply wp_ret. apply HQ0. split; auto. intros j. rewrite L1. auto. }
  intros s1 Ok1 L1 _ _ _ _. set (t := oos_next s) in *.
  assert (O1 : ow_own (t :: fp_conn c ++ F) s1). { split; auto. intros j. rewrite L1, Hown. cnt_norm. lia. }
  clear L1 Ok1.
  apply wp_bind. apply wp_use. { eapply own_live_in with (G := t :: fp_conn c); eauto. }
  apply wp_bind. apply wp_use. { exists a. split; auto. destruct O1 as [_ O1]. rewrite O1. specialize (Ha a). cnt_norm. lia. }
  apply wp_bind.
  assert (Hl : ow_wp (match ocn_txl c with Some l => ow_use (ool_self l) | None => ow_ret tt end)
                     (fun _ s' => s' = s1) s1).
  { destruct (ocn_txl c) as [l|] eqn:El; [|apply wp_ret; auto]. destruct W2 as [Wl1 Wl2].
    destruct (ool_self l) as [ls|] eqn:Els; [|congruence]. apply wp_use; auto. exists ls. split; auto.
    destruct O1 as [_ O1]. rewrite O1. unfold fp_conn. rewrite El. cbn [fp_lsto]. rewrite Els. cnt_norm. lia. }
  eapply wp_mono; [exact Hl|]. clear Hl. intros _ s1' ->.
  (* the error path shared by all partial constructions *)
  assert (Hfail : forall u rh pa rs s',
     wf_urio u -> wf_tblo rh -> wf_tblo pa -> wf_tblo rs ->
     ow_own (t :: fp_urio u ++ fp_tblo rh ++ fp_tblo pa ++ fp_tblo rs ++ fp_conn c ++ F) s' ->
     ow_wp (ow_tx_destroy_incomplete (otx_set_tables (ow_tx_empty (Some t) (Some a) connp) u rh pa rs) ;;; ow_ret (false, c)) Q s').
  { intros u rh pa rs s' Wu Wrh Wpa Wrs O'. apply wp_bind.
    apply wp_tx_destroy with (F := fp_conn c ++ F); auto.
    - apply wf_tx_new; auto. discriminate.
    - eapply own_perm; [|exact O']. intros j. rewrite cnt_app, cnt_fp_tx_new. cnt_norm. lia.
    - intros j. cbn. specialize (Ha j). cnt_norm. lia.
    - intros j. cbn. specialize (Hle j). cnt_norm. lia.
    }
  apply wp_bind. apply wp_uri_alloc with (F := t :: fp_conn c ++ F); auto.
  { intros s2 O2. change (ow_tx_empty (Some t) (Some a) connp) with (otx_set_tables (ow_tx_empty (Some t) (Some a) connp) None None None None).
    apply Hfail; cbn; auto. }
  intros u s2 Wu O2.
  apply wp_bind. apply wp_table_create with (F := fp_uri u ++ t :: fp_conn c ++ F); auto.
  { intros s3 O3. apply Hfail; cbn [wf_tblo fp_tblo fp_urio]; auto. eapply own_perm; [|exact O3]. intros j. cnt_norm. lia. }
  intros rh s3 Wrh Prh _ O3.
  apply wp_bind. apply wp_table_create with (F := fp_tbl rh ++ fp_uri u ++ t :: fp_conn c ++ F); auto.
  { intros s4 O4. apply Hfail; cbn [wf_tblo fp_tblo fp_urio]; auto. eapply own_perm; [|exact O4]. intros j. cnt_norm. lia. }
  intros pa s4 Wpa Ppa _ O4.
  apply wp_bind. apply wp_table_create with (F := fp_tbl pa ++ fp_tbl rh ++ fp_uri u ++ t :: fp_conn c ++ F); auto.
  { intros s5 O5. apply Hfail; cbn [wf_tblo fp_tblo fp_urio]; auto. eapply own_perm; [|exact O5]. intros j. cnt_norm. lia. }
  intros rs s5 Wrs Prs _ O5.
  set (tx4 := otx_set_tables (ow_tx_empty (Some t) (Some a) connp) (Some u) (Some rh) (Some pa) (Some rs)).
  assert (O5' : ow_own (t :: fp_urio (Some u) ++ fp_tblo (Some rh) ++ fp_tblo (Some pa) ++ fp_tblo (Some rs) ++ fp_conn c ++ F) s5).
  { eapply own_perm; [|exact O5]. intros j. cbn [fp_urio fp_tblo]. cnt_norm. lia. }
  destruct (ocn_txl c) as [l|] eqn:El.
  2:{ apply Hfail; cbn [wf_tblo wf_urio]; auto. }
  destruct W2 as [Wl1 Wl2].
  destruct (ool_self l) as [ls|] eqn:Els; [|congruence]. destruct (ool_blk l) as [lb|] eqn:Elb; [|congruence].
  assert (Hlc : forall j, ind ls j + ind lb j <= cnt j (fp_conn c)).
  { intros j. unfold fp_conn. rewrite El. cbn [fp_lsto]. rewrite Els, Elb. cnt_norm. lia. }
  destruct O5' as [Ok5 L5].
  apply wp_bind. apply wp_list_push; auto.
  - rewrite Els. exists ls. split; auto. rewrite L5. specialize (Hlc ls). cnt_norm. lia.
  - rewrite Elb. exists lb. split; auto. rewrite L5. specialize (Hlc lb). cnt_norm. lia.
  - intros s6 Ok6 L6 _. cbn [fst snd].
    apply wp_bind. apply wp_tx_destroy with (F := fp_conn c ++ F); auto.
    + apply wf_tx_new; cbn; auto. discriminate.
    + split; auto. intros j. rewrite L6, L5. rewrite cnt_app. unfold tx4. rewrite cnt_fp_tx_new. cnt_norm. lia.
    + intros j. cbn. specialize (Ha j). cnt_norm. lia.
    + intros j. cbn. specialize (Hle j). cnt_norm. lia.
    + intros s7 O7. apply wp_ret. apply HQ; auto.
      * repeat split; cbn; auto; congruence.
      * eapply own_perm; [|exact O7]. intros j. pose proof (fp_conn_set_txs c (Some l) (ocn_txs c) j) as FT.
        rewrite El in FT. unfold ocn_set_txl. unfold ocn_set_txs in FT. cnt_norm. lia.
  - intros l1 s6 Ok6 Hs1 [b1 [Eb1 Hb1]] L6 _ _. cbn [fst snd]. apply wp_ret. apply HQ; auto.
    + split; [cbn; congruence|]. split; [cbn; rewrite Hs1, Els, Eb1; split; discriminate|].
      split; [cbn; discriminate|]. split; [|cbn; auto].
      cbn. apply Forall_app. split; [rewrite Ea; auto|]. constructor; [|constructor]. cbn. split; [|rewrite Ea; auto].
      apply wf_tx_new; cbn; auto. discriminate.
    + split; auto. intros j. pose proof (fp_conn_set_txs c (Some l1) (ocn_txs c ++ [Some tx4]) j) as FT.
      rewrite El in FT. cbn [fp_lsto] in FT. rewrite Hs1, Els, Eb1, Elb in FT.
      rewrite Elb in L6. specialize (L6 j). specialize (L5 j). cnt_norm. cbn [fp_txo] in FT. unfold tx4 in *.
      rewrite cnt_fp_tx_new in FT. cnt_norm. lia.
Qed.

(* ------------------------------------------------------------------ connection parser *)
Definition fp_fileo (f : option ow_file) : list nat := match f with Some f => olist [ofl_self f; ofl_name f; ofl_tmp f] | None => [] end.
Definition fp_conno (c : option ow_conn) : list nat := match c with Some c => fp_conn c | None => [] end.
Definition fp_connp (p : ow_connp) : list nat :=
  olist [ocp_self p; ocp_in_buf p; ocp_out_buf p; ocp_in_hdr p; ocp_out_hdr p] ++ fp_conno (ocp_conn p) ++ fp_fileo (ocp_put_file p).
Definition wf_connp (p : ow_connp) : Prop :=
  ocp_self p <> None /\ (match ocp_conn p with Some c => wf_conn (ocp_self p) c | None => True end) /\
  (match ocp_put_file p with Some f => ofl_self f <> None /\ ofl_tmp f = None | None => True end).

Lemma wp_connp_destroy_all p F (Q : unit -> ow_state -> Prop) s :
  wf_connp p -> ow_own (fp_connp p ++ F) s -> (forall s', ow_own F s' -> Q tt s') ->
  ow_wp (ow_connp_destroy_all (Some p)) Q s.
Proof.
  intros [W1 [W2 W3]] O HQ. unfold ow_connp_destroy_all. unfold fp_connp in O.
  destruct (ocp_self p) as [a|] eqn:Ea; [|congruence].
  apply wp_bind. apply wp_use. { exists a. split; auto. destruct O as [_ O]. rewrite O. cnt_norm. lia. }
  set (R := olist [ocp_in_buf p; ocp_out_buf p; ocp_in_hdr p; ocp_out_hdr p]).
  apply wp_bind.
  assert (H1 : forall (Q' : unit -> ow_state -> Prop),
    (forall s', ow_own (a :: R ++ fp_fileo (ocp_put_file p) ++ F) s' -> Q' tt s') -> ow_wp (ow_conn_destroy (ocp_conn p)) Q' s).
  { intros Q' HQ'. destruct (ocp_conn p) as [c|] eqn:Ec; cbn [fp_conno] in O.
    - apply wp_conn_destroy with (connp := Some a) (F := a :: R ++ fp_fileo (ocp_put_file p) ++ F); auto.
      + intros _. split; [discriminate|]. intros j. cnt_norm. lia.
      + eapply own_perm; [|exact O]. intros j. unfold R. cnt_norm. lia.
    - apply wp_ret. apply HQ'. eapply own_perm; [|exact O]. intros j. unfold R. cnt_norm. lia. }
  apply H1. clear H1 O. intros s1 [Ok1 L1]. unfold R in L1.
  destruct (ocp_put_file p) as [f|] eqn:Ef; cbn [fp_fileo] in L1.
  - destruct W3 as [Wf Wt]. destruct (ofl_self f) as [fs|] eqn:Efs; [|congruence]. rewrite Wt in L1.
    wp_go; apply HQ; split; auto; intros j; cnt_at j.
  - wp_go; apply HQ; split; auto; intros j; cnt_at j.
Qed.

Lemma wp_connp_create F (Q : option ow_connp -> ow_state -> Prop) s :
  ow_own F s -> (forall s', ow_own F s' -> Q None s') ->
  (forall p s', wf_connp p -> ow_own (fp_connp p ++ F) s' -> Q (Some p) s') ->
  ow_wp ow_connp_create Q s.
Proof.
  intros [Hok Hown] HN HS. unfold ow_connp_create.
  apply wp_bind. apply wp_malloc; auto.
  - intros s1 Ok1 L1 _ _ _ _. apply wp_ret. apply HN. split; auto. intros j. rewrite L1; auto.
  - intros s1 Ok1 L1 _ _ _ _. apply wp_bind. apply wp_conn_create with (F := oos_next s :: F).
    + split; auto. intros j. rewrite L1, Hown. cnt_norm. lia.
    + intros s2 [Ok2 L2]. wp_go. apply HN. split; auto. intros j. cnt_at j.
    + intros c s2 Wc _ _ _ _ _ _ O2. apply wp_ret. apply HS.
      * split; [cbn; discriminate|]. split; cbn; auto.
      * eapply own_perm; [|exact O2]. intros j. unfold fp_connp. cbn [ocp_self ocp_conn ocp_in_buf ocp_out_buf ocp_in_hdr ocp_out_hdr ocp_put_file fp_conno fp_fileo]. cnt_norm. lia.
Qed.

(* ------------------------------------------------------------------ request headers *)
Lemma wp_parse_request_header on n connp cp c hs F (Q : bool * ow_conn * ow_hdr -> ow_state -> Prop) s :
  wf_conn cp c -> ow_own (fp_conn c ++ hs :: F) s -> connp <> None -> (forall j, cnto j connp <= cnt j F) ->
  (forall c' h' s', wf_conn cp c' -> ocn_txs c' = ocn_txs c -> ocn_txl c' = ocn_txl c -> ocn_self c' = ocn_self c ->
                    ow_own (fp_conn c' ++ hs :: F) s' -> Q (false, c', h') s') ->
  (forall c' a v s', wf_conn cp c' -> ocn_txs c' = ocn_txs c -> ocn_txl c' = ocn_txl c -> ocn_self c' = ocn_self c ->
                    ow_own (fp_conn c' ++ a :: v :: hs :: F) s' -> Q (true, c', ow_mk_hdr (Some hs) (Some a) (Some v)) s') ->
  ow_wp (ow_parse_request_header on n connp c (ow_mk_hdr (Some hs) None None)) Q s.
Proof.
  intros W O Hn Hle HF HT. unfold ow_parse_request_header.
  apply wp_bind. apply wp_log_n with (cp := cp) (F := hs :: F); auto.
  { intros j. specialize (Hle j). cnt_norm. lia. }
  intros c1 s1 W1 E1 E2 E3 [Ok1 L1]. cbn [ohd_self].
  wp_go.
  - apply HF; auto. split; auto. intros j. cnt_at j.
  - apply HF; auto. split; auto. intros j. cnt_at j.
  - apply HT; auto. split; auto. intros j. cnt_at j.
Qed.

Lemma fp_tx_set_req_hdrs tx rh hv rep j :
  cnt j (fp_tx (otx_set_req_hdrs tx rh hv rep)) + cnt j (fp_tblo (otx_req_hdrs tx)) + cnt j (flat_map fp_hdr (otx_req_hvals tx))
  = cnt j (fp_tx tx) + cnt j (fp_tblo rh) + cnt j (flat_map fp_hdr hv).
Proof.
  unfold fp_tx, otx_set_req_hdrs.
  cbn [otx_self otx_req_strs otx_uri_raw otx_uri otx_auth_user otx_auth_pass otx_req_hdrs otx_req_hvals otx_pvals otx_params
       otx_cookies otx_cvals otx_hook_req otx_hook_res otx_res_strs otx_res_hdrs otx_res_hvals].
  cnt_norm. lia.
Qed.

Lemma wf_tx_set_req_hdrs tx rh hv rep :
  wf_tx tx -> wf_tblo rh -> Forall wf_hdr hv -> (rh = None -> hv = []) -> Forall (fun h => ohd_value h <> None) hv ->
  wf_tx (otx_set_req_hdrs tx rh hv rep).
Proof.
  intros [W1 [W2 [W3 [W4 [W5 [W6 [W7 [W8 [W9 [W10 [W11 [W12 [W13 [W14 [W15 W16]]]]]]]]]]]]]]] A B C D.
  unfold wf_tx, otx_set_req_hdrs. cbn. repeat split; auto.
Qed.

Lemma hv_set_value_spec l i he v :
  nth_error l i = Some he -> Forall wf_hdr l ->
  Forall wf_hdr (ow_hv_set_value l i v) /\
  (forall j, cnt j (flat_map fp_hdr (ow_hv_set_value l i v)) + cnto j (ohd_value he) = cnt j (flat_map fp_hdr l) + cnto j v) /\
  wf_hdr he /\ (forall j, cnt j (fp_hdr he) <= cnt j (flat_map fp_hdr l)).
Proof.
  revert i. induction l as [|h r IH]; intros i E W; destruct i; cbn in E; try discriminate.
  - injection E as ->. inversion W; subst. cbn [ow_hv_set_value]. repeat split.
    + constructor; auto.
    + intros j. cnt_norm. unfold fp_hdr. cbn [ohd_self ohd_name ohd_value]. cnt_norm. lia.
    + auto.
    + intros j. cnt_norm. lia.
  - inversion W; subst. destruct (IH i E H2) as [A [B [C D]]]. cbn [ow_hv_set_value]. repeat split; auto.
    + intros j. specialize (B j). cnt_norm. lia.
    + intros j. specialize (D j). cnt_norm. lia.
Qed.

Lemma cnt_fp_hdr_mk j a b c : cnt j (fp_hdr (ow_mk_hdr a b c)) = cnto j a + cnto j b + cnto j c.
Proof. unfold fp_hdr. cbn [ohd_self ohd_name ohd_value]. cnt_norm. lia. Qed.

Lemma hv_set_value_vals l i v : v <> None -> Forall (fun h => ohd_value h <> None) l ->
  Forall (fun h => ohd_value h <> None) (ow_hv_set_value l i v).
Proof.
  intros Hv. revert i. induction l as [|h r IH]; intros i W; destruct i; cbn [ow_hv_set_value]; auto; inversion W; subst; constructor; auto.
Qed.

Lemma wp_process_request_header on sh connp cp c tx F (Q : bool * ow_conn * ow_tx -> ow_state -> Prop) s :
  wf_conn cp c -> wf_tx tx -> ow_own (fp_conn c ++ fp_tx tx ++ F) s -> connp <> None -> (forall j, cnto j connp <= cnt j F) ->
  (forall ok c' tx' s', wf_conn cp c' -> wf_tx tx' -> ocn_txs c' = ocn_txs c -> ocn_txl c' = ocn_txl c -> ocn_self c' = ocn_self c ->
                        otx_conn tx' = otx_conn tx -> otx_connp tx' = otx_connp tx ->
                        ow_own (fp_conn c' ++ fp_tx tx' ++ F) s' -> Q (ok, c', tx') s') ->
  ow_wp (ow_process_request_header on sh connp c tx) Q s.
Proof.
  intros W Wt O Hn Hle HQ. unfold ow_process_request_header.
  destruct O as [Hok Hown].
  apply wp_bind. apply wp_malloc; auto.
  { intros s1 Ok1 L1 _ _ _ _. apply wp_ret. apply HQ; auto. split; auto. intros j. rewrite L1; auto. }
  intros s1 Ok1 L1 _ _ _ _. set (hs := oos_next s) in *.
  assert (Hle' : forall j, cnto j connp <= cnt j (fp_tx tx ++ F)). { intros j. specialize (Hle j). cnt_norm. lia. }
  apply wp_bind. apply wp_parse_request_header with (cp := cp) (F := fp_tx tx ++ F); auto.
  { split; auto. intros j. rewrite L1, Hown. cnt_norm. lia. }
  { intros c1 h' s2 W1 E1 E2 E3 [Ok2 L2]. cbn [negb]. wp_go. apply HQ; auto. split; auto. intros j. cnt_at j. }
  intros c1 nm vl s2 W1 E1 E2 E3 O2. cbn [negb ohd_self ohd_name ohd_value].
  pose proof Wt as [T1 _]. destruct (otx_self tx) as [ta|] eqn:Eta; [|congruence].
  assert (Hta : forall j, ind ta j <= cnt j (fp_tx tx)). { intros j. unfold fp_tx. rewrite Eta. cnt_norm. lia. }
  apply wp_bind. apply wp_use. { apply own_live_in with (G := fp_conn c1 ++ nm :: vl :: hs :: fp_tx tx) (F := F); auto. eapply own_perm; [|exact O2]. intros j. cnt_norm. lia. }
  apply wp_bind. apply wp_use. { exists ta. split; auto. destruct O2 as [_ O2]. rewrite O2. specialize (Hta ta). cnt_norm. lia. }
  (* releasing the new header struct *)
  assert (Hfree : forall c' tx' ok s', wf_conn cp c' -> wf_tx tx' -> ocn_txs c' = ocn_txs c -> ocn_txl c' = ocn_txl c -> ocn_self c' = ocn_self c ->
            otx_conn tx' = otx_conn tx -> otx_connp tx' = otx_connp tx ->
            ow_own (fp_conn c' ++ nm :: vl :: hs :: fp_tx tx' ++ F) s' ->
            ow_wp ((ow_free (Some nm) ;;; ow_free (Some vl) ;;; ow_free (Some hs)) ;;; ow_ret (ok, c', tx')) Q s').
  { intros c' tx' ok s' Wc' Wt' A A2 B C D [Ok' L']. wp_go. apply HQ; auto. split; auto. intros j. cnt_at j. }
  destruct (match ohs_existing sh with
            | Some i => match nth_error (otx_req_hvals tx) i with Some he => Some (i, he) | None => None end
            | None => None end) as [[i he]|] eqn:Eex.
  - assert (Enth : nth_error (otx_req_hvals tx) i = Some he).
    { destruct (ohs_existing sh) as [i0|]; [|discriminate]. destruct (nth_error (otx_req_hvals tx) i0) eqn:En; [|discriminate].
      injection Eex as <- <-. auto. }
    pose proof Wt as [_ [_ [_ [T4 [T5 [T6 _]]]]]].
    destruct (hv_set_value_spec _ _ _ None Enth T5) as [_ [_ [Whe Hhe]]].
    unfold wf_hdr in Whe. destruct (ohd_self he) as [hes|] eqn:Ehes; [|congruence].
    assert (Hhe' : forall j, cnt j (fp_hdr he) <= cnt j (fp_tx tx)). { intros j. specialize (Hhe j). unfold fp_tx. cnt_norm. lia. }
    apply wp_bind. apply wp_use.
    { exists hes. split; auto. destruct O2 as [_ O2]. rewrite O2. specialize (Hhe' hes). unfold fp_hdr in Hhe'. rewrite Ehes in Hhe'. cnt_norm. lia. }
    apply wp_bind.
    assert (Hlog : forall (b : bool) c0 s0 (Q' : ow_conn -> ow_state -> Prop),
       wf_conn cp c0 -> ocn_txs c0 = ocn_txs c -> ocn_txl c0 = ocn_txl c -> ocn_self c0 = ocn_self c ->
       ow_own (fp_conn c0 ++ nm :: vl :: hs :: fp_tx tx ++ F) s0 ->
       (forall c' s', wf_conn cp c' -> ocn_txs c' = ocn_txs c -> ocn_txl c' = ocn_txl c -> ocn_self c' = ocn_self c ->
                      ow_own (fp_conn c' ++ nm :: vl :: hs :: fp_tx tx ++ F) s' -> Q' c' s') ->
       ow_wp (if b then ow_log_msg on connp c0 else ow_ret c0) Q' s0).
    { intros b c0 s0 Q' Wc0 A0 A20 B0 O0 HQ'. destruct b.
      - apply wp_log_msg with (cp := cp) (F := nm :: vl :: hs :: fp_tx tx ++ F); auto.
        + intros j. specialize (Hle j). cnt_norm. lia.
        + intros c' s' Wc' A B C O'. apply HQ'; auto; congruence.
      - apply wp_ret. apply HQ'; auto. }
    apply Hlog; [exact W1 | exact E1 | exact E2 | exact E3 | exact O2 |]. intros c2 s3 W2 E4 E42 E5 O3.
    destruct (ohs_ex_repeated sh && negb (otx_rep tx <? c_ow_MAX_HEADERS_REPETITIONS)).
    { apply Hfree; auto. }
    destruct (ohs_is_cl sh).
    + destruct O3 as [Ok3 L3].
      assert (Hv : forall s', oos_live s' = oos_live s3 -> live_in (ohd_value he) s' \/ ohd_value he = None).
      { intros s' E. destruct (ohd_value he) as [hv|] eqn:Ehv; auto. left. exists hv. split; auto. rewrite E, L3.
        specialize (Hhe' hv). unfold fp_hdr in Hhe'. rewrite Ehv in Hhe'. cnt_norm. lia. }
      destruct (ohd_value he) as [hv|] eqn:Ehv.
      2:{ (* a header without a value cannot be compared: the model faults, the state is not reachable *)
          exfalso. destruct Wt as [_ [_ [_ [_ [_ [_ [_ [_ [_ [_ [_ [_ [_ [_ [_ T16]]]]]]]]]]]]]]].
          rewrite Forall_forall in T16. apply (T16 he); [eapply nth_error_In; eauto | auto]. }
      apply wp_bind. apply wp_use. { destruct (Hv s3 eq_refl) as [H|H]; [exact H | discriminate]. }
      apply wp_bind. apply wp_use. { exists vl. split; auto. rewrite L3. cnt_norm. lia. }
      apply wp_bind. apply Hlog; [exact W2 | exact E4 | exact E42 | exact E5 | split; auto |]. intros c3 s4 W3 E6 E62 E7 O4.
      apply Hfree; auto.
    + destruct O3 as [Ok3 L3].
      pose proof Wt as [_ [_ [_ [_ [_ [_ [_ [_ [_ [_ [_ [_ [_ [_ [_ T16]]]]]]]]]]]]]]].
      destruct (ohd_value he) as [hv|] eqn:Ehv.
      2:{ exfalso. rewrite Forall_forall in T16. apply (T16 he); [eapply nth_error_In; eauto | auto]. }
      assert (Hhv : 1 <= cnt hv (oos_live s3)).
      { rewrite L3. specialize (Hhe' hv). unfold fp_hdr in Hhe'. rewrite Ehv in Hhe'. cnt_norm. lia. }
      apply wp_bind. apply wp_bstr_expand; auto. { exists hv. split; auto. }
      * intros s4 Ok4 L4. apply Hfree; auto. split; auto. intros j. rewrite L4, L3. reflexivity.
      * intros n s4 Ok4 L4 Hn4.
        destruct (hv_set_value_spec _ _ _ (Some n) Enth T5) as [A1 [A2 _]].
        apply wp_bind. apply wp_use. { exists n. split; auto. }
        apply wp_bind. apply wp_use. { exists vl. split; auto. specialize (L4 vl). specialize (L3 vl).
          pose proof (ok_nodup _ Ok3 vl) as N. rewrite L3 in N. specialize (Hhe' vl). unfold fp_hdr in Hhe'. rewrite Ehv in Hhe'. cnt_norm. lia. }
        apply Hfree; auto.
        -- apply wf_tx_set_req_hdrs; auto.
           ++ intros E. rewrite (T6 E) in Enth. destruct i; discriminate.
           ++ apply hv_set_value_vals; auto. discriminate.
        -- split; auto. intros j.
           pose proof (fp_tx_set_req_hdrs tx (otx_req_hdrs tx) (ow_hv_set_value (otx_req_hvals tx) i (Some n))
                         (if ohs_ex_repeated sh then S (otx_rep tx) else otx_rep tx) j) as FT.
           specialize (A2 j). rewrite Ehv in A2. specialize (L4 j). specialize (L3 j). cnt_norm. lia.
  - destruct (otx_req_hdrs tx) as [t|] eqn:Et.
    2:{ apply Hfree; auto. }
    pose proof Wt as [_ [_ [_ [T4 [T5 [T6 [_ [_ [_ [_ [_ [_ [_ [_ [_ T16]]]]]]]]]]]]]]].
    rewrite Et in T4. destruct T4 as [Wtb Ptb].
    set (txr := otx_set_req_hdrs tx None (otx_req_hvals tx) (otx_rep tx)).
    assert (Hr : forall j, cnt j (fp_tx txr) + cnt j (fp_tbl t) = cnt j (fp_tx tx)).
    { intros j. pose proof (fp_tx_set_req_hdrs tx None (otx_req_hvals tx) (otx_rep tx) j) as FT. rewrite Et in FT.
      cbn [fp_tblo] in FT. fold txr in FT. cnt_norm. lia. }
    apply wp_bind. apply wp_table_add with (F := fp_conn c1 ++ nm :: vl :: hs :: fp_tx txr ++ F); auto.
    { eapply own_perm; [|exact O2]. intros j. specialize (Hr j). cnt_norm. lia. }
    { right. exists nm. split; auto. destruct O2 as [_ O2]. rewrite O2. cnt_norm. lia. }
    intros ok t' s3 Wt' Pt' O3 Est Hok1 Hok0. cbn [fst snd]. destruct ok.
    + apply wp_ret. apply HQ; auto.
      * apply wf_tx_set_req_hdrs; auto.
        -- split; auto.
        -- apply Forall_app. split; auto. constructor; [|constructor]. unfold wf_hdr. cbn. discriminate.
        -- discriminate.
        -- apply Forall_app. split; auto. constructor; [|constructor]. cbn. discriminate.
      * eapply own_perm; [|exact O3]. intros j.
        pose proof (fp_tx_set_req_hdrs tx (Some t') (otx_req_hvals tx ++ [ow_mk_hdr (Some hs) (Some nm) (Some vl)]) (otx_rep tx) j) as FT.
        rewrite Et in FT. cbn [fp_tblo] in FT. specialize (Hr j). cnt_norm. rewrite cnt_fp_hdr_mk in FT. cnt_norm. lia.
    + apply Hfree; auto.
      * apply wf_tx_set_req_hdrs; auto. split; auto. discriminate.
      * eapply own_perm; [|exact O3]. intros j.
        pose proof (fp_tx_set_req_hdrs tx (Some t') (otx_req_hvals tx) (otx_rep tx) j) as FT.
        rewrite Et in FT. cbn [fp_tblo] in FT. specialize (Hr j). cnt_norm. lia.
Qed.

(* ------------------------------------------------------------------ basic authorization *)
Lemma fp_tx_set_auth tx u p j :
  cnt j (fp_tx (otx_set_auth tx u p)) + cnto j (otx_auth_user tx) + cnto j (otx_auth_pass tx) = cnt j (fp_tx tx) + cnto j u + cnto j p.
Proof.
  unfold fp_tx, otx_set_auth.
  cbn [otx_self otx_req_strs otx_uri_raw otx_uri otx_auth_user otx_auth_pass otx_req_hdrs otx_req_hvals otx_pvals otx_params
       otx_cookies otx_cvals otx_hook_req otx_hook_res otx_res_strs otx_res_hdrs otx_res_hvals].
  cnt_norm. lia.
Qed.
Lemma wf_tx_set_auth tx u p : wf_tx tx -> wf_tx (otx_set_auth tx u p).
Proof. intros W. exact W. Qed.

Lemma wp_auth_basic sh hdr tx F (Q : nat * ow_tx -> ow_state -> Prop) s :
  wf_tx tx -> otx_auth_user tx = None -> otx_auth_pass tx = None ->
  ow_own (fp_tx tx ++ F) s ->
  ohd_self hdr <> None -> ohd_value hdr <> None ->
  (forall j, cnto j (ohd_self hdr) + cnto j (ohd_value hdr) <= cnt j F) ->
  (forall rc tx' s', wf_tx tx' -> otx_conn tx' = otx_conn tx -> otx_connp tx' = otx_connp tx ->
                     ow_own (fp_tx tx' ++ F) s' -> Q (rc, tx') s') ->
  ow_wp (ow_auth_basic sh hdr tx) Q s.
Proof.
  intros W Eu Ep [Hok Hown] Hs Hv Hle HQ. unfold ow_auth_basic, ow_auth_basic_gen.
  destruct (ohd_self hdr) as [a|] eqn:Ea; [|congruence]. destruct (ohd_value hdr) as [v|] eqn:Ev; [|congruence].
  pose proof W as [T1 _]. destruct (otx_self tx) as [ta|] eqn:Eta; [|congruence].
  assert (Hta : forall j, ind ta j <= cnt j (fp_tx tx)). { intros j. unfold fp_tx. rewrite Eta. cnt_norm. lia. }
  assert (HQ0 : forall rc s', ow_ok s' -> (forall j, cnt j (oos_live s') = cnt j (oos_live s)) -> Q (rc, tx) s').
  { intros rc s' Ok' L'. apply HQ; auto. split; auto. intros j. rewrite L'. auto. }
  assert (Ha1 : 1 <= cnt a (oos_live s)). { rewrite Hown. specialize (Hle a). cnt_norm. lia. }
  assert (Hv1 : 1 <= cnt v (oos_live s)). { rewrite Hown. specialize (Hle v). cnt_norm. lia. }
  assert (Ht1 : 1 <= cnt ta (oos_live s)). { rewrite Hown. specialize (Hta ta). cnt_norm. lia. }
  unfold ow_bstr_dup.
  wp_go; try (apply HQ0; auto; intros j; cnt_at j).
  - apply HQ; auto. split; auto. intros j. pose proof (fp_tx_set_auth tx None (otx_auth_pass tx) j). rewrite Eu, Ep in *. cnt_at j.
  - apply HQ; auto. split; auto. intros j. pose proof (fp_tx_set_auth tx None None j). rewrite Eu, Ep in *. cnt_at j.
  - apply HQ; auto. split; auto. intros j.
    match goal with |- context [otx_set_auth tx ?u ?p] => pose proof (fp_tx_set_auth tx u p j) end. rewrite Eu, Ep in *. cnt_at j.
Qed.

(* ------------------------------------------------------------------ multipart parts *)
Definition fp_part (p : ow_part) : list nat :=
  olist [opt_self p; opt_name p; opt_value p; opt_ctype p] ++ fp_fileo (opt_file p) ++ fp_tblo (opt_hdrs p) ++ flat_map fp_hdr (opt_hvals p).
Definition wf_part (p : ow_part) : Prop :=
  opt_self p <> None /\ (match opt_file p with Some f => ofl_self f <> None | None => True end) /\
  wf_tblo (opt_hdrs p) /\ Forall wf_hdr (opt_hvals p) /\ (opt_hdrs p = None -> opt_hvals p = []).

Lemma fp_part_set p f n j :
  cnt j (fp_part (opt_set p f n)) + cnt j (fp_fileo (opt_file p)) + cnto j (opt_name p) = cnt j (fp_part p) + cnt j (fp_fileo f) + cnto j n.
Proof.
  unfold fp_part, opt_set. cbn [opt_self opt_name opt_value opt_ctype opt_file opt_hdrs opt_hvals]. cnt_norm. lia.
Qed.

Lemma wp_part_destroy p F (Q : unit -> ow_state -> Prop) s :
  wf_part p -> ow_own (fp_part p ++ F) s -> (forall s', ow_own F s' -> Q tt s') -> ow_wp (ow_part_destroy (Some p)) Q s.
Proof.
  intros [W1 [W2 [W3 [W4 W5]]]] O HQ. unfold ow_part_destroy. unfold fp_part in O.
  destruct (opt_self p) as [a|] eqn:Ea; [|congruence].
  apply wp_bind. apply wp_use. { exists a. split; auto. destruct O as [_ O]. rewrite O. cnt_norm. lia. }
  set (HD := fp_tblo (opt_hdrs p) ++ flat_map fp_hdr (opt_hvals p)) in *.
  apply wp_bind.
  assert (H1 : forall (Q' : unit -> ow_state -> Prop),
     (forall s', ow_own (a :: olist [opt_name p; opt_value p; opt_ctype p] ++ HD ++ F) s' -> Q' tt s') ->
     ow_wp (match opt_file p with
            | None => ow_ret tt
            | Some f => ow_use (ofl_self f) ;;; ow_free (ofl_name f) ;;; ow_free (ofl_tmp f) ;;; ow_free (ofl_self f)
            end) Q' s).
  { intros Q' HQ'. destruct (opt_file p) as [f|]; cbn [fp_fileo] in O.
    - destruct (ofl_self f) as [fs|] eqn:Efs; [|congruence]. destruct O as [Hok Hown].
      wp_go; apply HQ'; split; auto; intros j; unfold HD in *; cnt_at j.
    - apply wp_ret. apply HQ'. eapply own_perm; [|exact O]. intros j. unfold HD. cnt_norm. lia. }
  apply H1. clear H1 O. intros s1 [Ok1 L1].
  apply wp_bind. apply wp_free; auto. { intros i E. rewrite L1, E. cnt_norm. lia. } intros s2 Ok2 L2 _.
  apply wp_bind. apply wp_free; auto.
  { intros i E. specialize (L2 i). pose proof (ok_nodup _ Ok1 i) as N. rewrite L1 in *. rewrite E in *. cnt_norm. lia. }
  intros s3 Ok3 L3 _.
  apply wp_bind. apply wp_free; auto.
  { intros i E. specialize (L2 i). specialize (L3 i). pose proof (ok_nodup _ Ok1 i) as N. rewrite L1 in *. rewrite E in *. cnt_norm. lia. }
  intros s4 Ok4 L4 _.
  apply wp_bind. apply wp_tx_hdrs with (F := a :: F); auto.
  { split; auto. intros j. specialize (L1 j). specialize (L2 j). specialize (L3 j). specialize (L4 j). unfold HD in *. cnt_norm. lia. }
  intros s5 [Ok5 L5]. wp_go. apply HQ. split; auto. intros j. cnt_at j.
Qed.

Lemma wp_part_create parser F (Q : option ow_part -> ow_state -> Prop) s :
  ow_own F s -> parser <> None -> (forall j, cnto j parser <= cnt j F) ->
  (forall s', ow_own F s' -> Q None s') ->
  (forall p s', wf_part p -> opt_parser p = parser -> opt_file p = None -> opt_name p = None -> ow_own (fp_part p ++ F) s' -> Q (Some p) s') ->
  ow_wp (ow_part_create parser) Q s.
Proof.
  intros [Hok Hown] Hn Hle HN HS. unfold ow_part_create.
  apply wp_bind. apply wp_malloc; auto.
  { intros s1 Ok1 L1 _ _ _ _. apply wp_ret. apply HN. split; auto. intros j. rewrite L1; auto. }
  intros s1 Ok1 L1 _ _ _ _.
  apply wp_bind. apply wp_table_create with (F := oos_next s :: F).
  - split; auto. intros j. rewrite L1, Hown. cnt_norm. lia.
  - intros s2 [Ok2 L2]. wp_go. apply HN. split; auto. intros j. cnt_at j.
  - intros t s2 Wt Pt _ O2. apply wp_bind. apply wp_use.
    { apply own_live_in with (G := fp_tbl t ++ [oos_next s]) (F := F); auto. eapply own_perm; [|exact O2]. intros j. cnt_norm. lia. }
    apply wp_ret. apply HS; auto.
    + split; [cbn; discriminate|]. split; [cbn; auto|]. split; [cbn; split; auto|]. split; cbn; auto.
    + eapply own_perm; [|exact O2]. intros j. unfold fp_part. cbn [opt_self opt_name opt_value opt_ctype opt_file opt_hdrs opt_hvals fp_fileo fp_tblo flat_map]. cnt_norm. lia.
Qed.

Lemma wp_cd_loop fixed ps bad p F (Q : nat * ow_part -> ow_state -> Prop) s :
  fixed = true -> wf_part p -> ow_own (fp_part p ++ F) s -> opt_parser p <> None -> (forall j, cnto j (opt_parser p) <= cnt j F) ->
  (forall rc p' s', wf_part p' -> opt_parser p' = opt_parser p -> ow_own (fp_part p' ++ F) s' -> Q (rc, p') s') ->
  ow_wp (ow_cd_loop fixed ps bad p) Q s.
Proof.
  intros ->. revert p s. induction ps as [|x r IH]; intros p s W O Hn Hle HQ; cbn [ow_cd_loop].
  - apply wp_ret. apply HQ; auto.
  - destruct x.
    + destruct (opt_name p) as [nm|] eqn:En; cbn [ow_isnull negb].
      { apply wp_ret. apply HQ; auto. }
      destruct O as [Hok Hown]. unfold ow_bstr_dup_mem, ow_bstr_alloc.
      apply wp_bind. apply wp_malloc; auto.
      { intros s1 Ok1 L1 _ _ _ _. apply wp_ret. apply HQ; auto. split; auto. intros j. rewrite L1; auto. }
      intros s1 Ok1 L1 _ _ _ _. apply wp_bind. apply wp_use. { exists (oos_next s). split; auto. rewrite L1, ind_refl. lia. }
      apply IH; auto.
      * split; auto. intros j. pose proof (fp_part_set p (opt_file p) (Some (oos_next s)) j) as FP. rewrite En in FP. rewrite L1, Hown. cnt_norm. lia.
    + destruct (opt_file p) as [f|] eqn:Ef.
      { apply wp_ret. apply HQ; auto. }
      destruct O as [Hok Hown].
      apply wp_bind. apply wp_malloc; auto.
      { intros s1 Ok1 L1 _ _ _ _. apply wp_ret. apply HQ; auto. split; auto. intros j. rewrite L1; auto. }
      intros s1 Ok1 L1 _ _ _ _. apply wp_bind. apply wp_use. { exists (oos_next s). split; auto. rewrite L1, ind_refl. lia. }
      unfold ow_bstr_dup_mem, ow_bstr_alloc.
      apply wp_bind. apply wp_malloc; auto.
      * intros s2 Ok2 L2 _ _ _ _. apply wp_bind. apply wp_free; auto.
        { intros i E. injection E as <-. rewrite L2, L1, ind_refl. lia. }
        intros s3 Ok3 L3 _. apply wp_ret. apply HQ; auto.
        -- destruct W as [W1 [W2 [W3 [W4 W5]]]]. repeat split; cbn; auto.
        -- split; auto. intros j. pose proof (fp_part_set p None (opt_name p) j) as FP. rewrite Ef in FP. cbn [fp_fileo] in FP.
           specialize (L3 j). rewrite L2, L1, Hown in L3. cnt_norm. lia.
      * intros s2 Ok2 L2 _ _ _ _. apply wp_bind. apply wp_use. { exists (oos_next s1). split; auto. rewrite L2, ind_refl. lia. }
        apply IH; auto.
        -- destruct W as [W1 [W2 [W3 [W4 W5]]]]. repeat split; cbn; auto. discriminate.
        -- split; auto. intros j. pose proof (fp_part_set p (Some (ow_mk_file (Some (oos_next s)) (Some (oos_next s1)) None)) (opt_name p) j) as FP.
           rewrite Ef in FP. cbn [fp_fileo ofl_self ofl_name ofl_tmp] in FP. rewrite L2, L1, Hown. cnt_norm. lia.
    + apply wp_bind. apply wp_use. { eapply own_live_in; eauto. }
      apply wp_ret. apply HQ; auto.
Qed.

Lemma wp_part_parse_cd sh p F (Q : nat * ow_part -> ow_state -> Prop) s :
  wf_part p -> ow_own (fp_part p ++ F) s -> opt_parser p <> None -> (forall j, cnto j (opt_parser p) <= cnt j F) ->
  (forall rc p' s', wf_part p' -> opt_parser p' = opt_parser p -> ow_own (fp_part p' ++ F) s' -> Q (rc, p') s') ->
  ow_wp (ow_part_parse_cd sh p) Q s.
Proof.
  intros W O Hn Hle HQ. unfold ow_part_parse_cd, ow_part_parse_cd_gen.
  pose proof W as [W1 [W2 [W3 [W4 W5]]]]. destruct (opt_self p) as [a|] eqn:Ea; [|congruence].
  apply wp_bind. apply wp_use. { exists a. split; auto. destruct O as [_ O]. rewrite O. unfold fp_part. rewrite Ea. cnt_norm. lia. }
  apply wp_bind.
  assert (H1 : ow_wp (match opt_hdrs p with Some t => ow_use (oot_self t) | None => ow_ret tt end) (fun _ s' => s' = s) s).
  { destruct (opt_hdrs p) as [t|] eqn:Et; [|apply wp_ret; auto]. destruct W3 as [Wt [P1 P2]].
    destruct (oot_self t) as [ts|] eqn:Ets; [|congruence]. apply wp_use; auto. exists ts. split; auto.
    destruct O as [_ O]. rewrite O. unfold fp_part. rewrite Et. cbn [fp_tblo]. unfold fp_tbl. rewrite Ets. cnt_norm. lia. }
  eapply wp_mono; [exact H1|]. clear H1. intros _ s' ->.
  destruct (ocd_present sh); cbn [negb].
  2:{ apply wp_bind. apply wp_use. { eapply own_live_in; eauto. } apply wp_ret. apply HQ; auto. }
  destruct (ocd_formdata sh); cbn [negb].
  2:{ apply wp_bind. apply wp_use. { eapply own_live_in; eauto. } apply wp_ret. apply HQ; auto. }
  apply wp_cd_loop with (F := F); auto.
Qed.

(* ------------------------------------------------------------------ request buffering *)
Lemma fp_connp_set_in_buf p b j : cnt j (fp_connp (ocp_set_in_buf p b)) + cnto j (ocp_in_buf p) = cnt j (fp_connp p) + cnto j b.
Proof. unfold fp_connp, ocp_set_in_buf. cbn [ocp_self ocp_conn ocp_in_buf ocp_out_buf ocp_in_hdr ocp_out_hdr ocp_put_file]. cnt_norm. lia. Qed.
Lemma fp_connp_set_conn p c j : cnt j (fp_connp (ocp_set_conn p c)) + cnt j (fp_conno (ocp_conn p)) = cnt j (fp_connp p) + cnt j (fp_conno c).
Proof. unfold fp_connp, ocp_set_conn. cbn [ocp_self ocp_conn ocp_in_buf ocp_out_buf ocp_in_hdr ocp_out_hdr ocp_put_file]. cnt_norm. lia. Qed.

Lemma wp_req_buffer on sh in_tx p F (Q : bool * ow_connp -> ow_state -> Prop) s :
  wf_connp p -> ocp_conn p <> None -> ow_own (fp_connp p ++ F) s -> live_in in_tx s ->
  (forall ok p' s', wf_connp p' -> ow_own (fp_connp p' ++ F) s' -> Q (ok, p') s') ->
  ow_wp (ow_req_buffer on sh in_tx p) Q s.
Proof.
  intros W Hc O Hin HQ. unfold ow_req_buffer. pose proof W as [W1 [W2 W3]].
  destruct (ocp_self p) as [a|] eqn:Ea; [|congruence].
  assert (Ha : forall j, ind a j <= cnt j (fp_connp p)). { intros j. unfold fp_connp. rewrite Ea. cnt_norm. lia. }
  apply wp_bind. apply wp_use. { exists a. split; auto. destruct O as [_ O]. rewrite O. specialize (Ha a). cnt_norm. lia. }
  destruct (orb_has_data sh); cbn [negb]; [|apply wp_ret; apply HQ; auto].
  destruct (orb_len0 sh); [apply wp_ret; apply HQ; auto|].
  apply wp_bind.
  assert (H1 : ow_wp (if ow_isnull (ocp_in_hdr p) then ow_ret tt else ow_use (ocp_in_hdr p)) (fun _ s' => s' = s) s).
  { destruct (ocp_in_hdr p) as [ih|] eqn:Eih; cbn [ow_isnull]; [|apply wp_ret; auto]. apply wp_use; auto. exists ih. split; auto.
    destruct O as [_ O]. rewrite O. unfold fp_connp. rewrite Eih. cnt_norm. lia. }
  eapply wp_mono; [exact H1|]. clear H1. intros _ s' ->.
  apply wp_bind. apply wp_use; auto.
  destruct (orb_over sh).
  - destruct (ocp_conn p) as [c|] eqn:Ec; [|congruence].
    set (R := olist [ocp_in_buf p; ocp_out_buf p; ocp_in_hdr p; ocp_out_hdr p] ++ fp_fileo (ocp_put_file p)).
    apply wp_bind. apply wp_log_msg with (cp := Some a) (F := a :: R ++ F); auto.
    + eapply own_perm; [|exact O]. intros j. unfold fp_connp, R. rewrite Ea, Ec. cbn [fp_conno]. cnt_norm. lia.
    + intros j. cnt_norm. lia.
    + intros c' s' Wc' A B C O'. apply wp_ret. apply HQ.
      * split; [cbn; rewrite Ea; discriminate|]. split; cbn; auto. rewrite Ea. auto.
      * eapply own_perm; [|exact O']. intros j. pose proof (fp_connp_set_conn p (Some c') j) as FC. rewrite Ec in FC.
        cbn [fp_conno] in FC. unfold fp_connp in FC at 2. rewrite Ea, Ec in FC. cbn [fp_conno] in FC. unfold R. cnt_norm. lia.
  - destruct O as [Hok Hown]. destruct (ocp_in_buf p) as [ib|] eqn:Eib; cbn [ow_isnull].
    + assert (Hib : 1 <= cnt ib (oos_live s)). { rewrite Hown. unfold fp_connp. rewrite Eib. cnt_norm. lia. }
      wp_go; try assumption.
      * apply HQ; auto. split; auto. intros j; cnt_at j.
      * apply HQ; auto. split; auto. intros j. pose proof (fp_connp_set_in_buf p (Some (oos_next s)) j) as FB. rewrite Eib in FB. cnt_at j.
    + wp_go.
      * apply HQ; auto. split; auto. intros j; cnt_at j.
      * apply HQ; auto. split; auto. intros j. pose proof (fp_connp_set_in_buf p (Some (oos_next s)) j) as FB. rewrite Eib in FB. cnt_at j.
Qed.

(* ================================================================== the theorems of C18
   ow_safe_f: for every failure schedule (it is part of the state s, universally quantified) and every
   well-formed input, f never faults.  ow_then_destroy_clean_f: f followed by the matching destroy function
   never faults and leaves exactly the cells F that do not belong to the object (F = [] : the heap is empty). *)
Ltac fin := first [ intros; eapply wp_nofault | idtac ].

Lemma own_F_live o F G s : ow_own (G ++ F) s -> o <> None -> (forall j, cnto j o <= cnt j F) -> live_in o s.
Proof. apply own_live_in. Qed.

(* ---- connection *)
Theorem ow_safe_conn_create F s : ow_own F s -> ow_nofault ow_conn_create s.
Proof. intros O. eapply wp_nofault. apply wp_conn_create with (F := F) (Q := fun _ _ => True); auto. Qed.

Theorem ow_then_destroy_clean_conn_create F s :
  ow_own F s -> ow_clean_to F (c <- ow_conn_create ;; ow_conn_destroy c) s.
Proof.
  intros O. apply wp_bind. apply wp_conn_create with (F := F); auto.
  intros c s1 W Et _ _ _ _ _ O1. apply wp_conn_destroy with (connp := None) (F := F); auto.
  intros [t Hin]. rewrite Et in Hin. contradiction.
Qed.

Theorem ow_safe_conn_open c hc hs F s :
  ocn_self c <> None -> ocn_client c = None -> ocn_server c = None -> ow_own (fp_conn c ++ F) s ->
  ow_nofault (ow_conn_open c hc hs) s.
Proof. intros. eapply wp_nofault. apply wp_conn_open with (F := F) (Q := fun _ _ => True); auto. Qed.

Theorem ow_then_destroy_clean_conn_open cp c hc hs F s :
  wf_conn cp c -> connp_in cp c F -> ocn_client c = None -> ocn_server c = None -> ow_own (fp_conn c ++ F) s ->
  ow_clean_to F (r <- ow_conn_open c hc hs ;; ow_conn_destroy (Some (snd r))) s.
Proof.
  intros W Hin E1 E2 O. apply wp_bind. apply wp_conn_open with (F := F); auto. { apply W. }
  intros ok c' s1 W' Et O1. cbn [snd]. apply wp_conn_destroy with (connp := cp) (F := F); auto.
  unfold connp_in in *. rewrite Et. auto.
Qed.

(* ---- lists *)
Theorem ow_safe_list_push l F s :
  wf_lsto (Some l) -> ow_own (fp_lsto (Some l) ++ F) s -> ow_nofault (ow_list_push l) s.
Proof.
  intros [W1 W2] [Hok Hown]. eapply wp_nofault. cbn [fp_lsto] in Hown.
  destruct (ool_self l) as [a|] eqn:Ea; [|congruence]. destruct (ool_blk l) as [b|] eqn:Eb; [|congruence].
  apply wp_list_push with (Q := fun _ _ => True); auto.
  - rewrite Ea. live_solve.
  - rewrite Eb. live_solve.
Qed.

Theorem ow_then_destroy_clean_list_push l F s :
  wf_lsto (Some l) -> ow_own (fp_lsto (Some l) ++ F) s ->
  ow_clean_to F (r <- ow_list_push l ;; ow_list_destroy (Some (snd r))) s.
Proof.
  intros [W1 W2] [Hok Hown]. cbn [fp_lsto] in Hown.
  destruct (ool_self l) as [a|] eqn:Ea; [|congruence]. destruct (ool_blk l) as [b|] eqn:Eb; [|congruence].
  apply wp_bind. apply wp_list_push; auto.
  - rewrite Ea. live_solve.
  - rewrite Eb. live_solve.
  - intros s1 Ok1 L1 _. cbn [snd]. apply wp_lsto_destroy with (F := F); auto.
    + cbn. rewrite Ea, Eb. split; discriminate.
    + split; auto. intros j. cbn [fp_lsto]. rewrite Ea, Eb. cnt_at j.
  - intros l1 s1 Ok1 Hs1 [b1 [Eb1 Hb1]] L1 _ _. cbn [snd]. apply wp_lsto_destroy with (F := F); auto.
    + cbn. rewrite Hs1, Ea, Eb1. split; discriminate.
    + split; auto. intros j. cbn [fp_lsto]. rewrite Hs1, Ea, Eb1. rewrite Eb in L1. cnt_at j.
Qed.

Theorem ow_then_destroy_clean_list_create n F s :
  ow_own F s -> ow_clean_to F (l <- ow_list_create n ;; ow_list_destroy l) s.
Proof.
  intros [Hok Hown]. apply wp_bind. apply wp_list_create; auto.
  - intros s1 Ok1 L1. apply wp_ret. split; auto. intros j. rewrite L1; auto.
  - intros a b s1 Ok1 L1 _. apply wp_lsto_destroy with (F := F).
    + cbn. split; discriminate.
    + split; auto. intros j. cbn. cnt_at j.
    + auto.
Qed.

(* ---- tables *)
Theorem ow_then_destroy_clean_table_create n F s :
  ow_own F s -> ow_clean_to F (t <- ow_table_create n ;; ow_table_destroy t) s.
Proof.
  intros O. apply wp_bind. apply wp_table_create with (F := F); auto.
  intros t s1 W P _ O1. apply wp_table_destroy with (F := F); auto.
Qed.

Theorem ow_safe_table_add t key F s :
  wf_tbl t -> tbl_ptrs t -> ow_own (fp_tbl t ++ F) s -> (key = None \/ live_in key s) -> ow_nofault (ow_table_add t key) s.
Proof. intros. eapply wp_nofault. apply wp_table_add with (F := F) (Q := fun _ _ => True); auto. Qed.

Theorem ow_then_destroy_clean_table_add t key F s :
  wf_tbl t -> tbl_ptrs t -> ow_own (fp_tbl t ++ F) s -> (key = None \/ live_in key s) ->
  ow_clean_to F (r <- ow_table_add t key ;; ow_table_destroy (Some (snd r))) s.
Proof.
  intros W P O K. apply wp_bind. apply wp_table_add with (F := F); auto.
  intros ok t' s1 W' P' O1 _ _ _. cbn [snd]. apply wp_table_destroy with (F := F); auto.
Qed.

(* adopted keys: on failure the key stays with the caller (k remains in the heap), on success it goes with the table *)
Theorem ow_then_destroy_clean_table_addn t k F s :
  wf_tbl t -> tbl_ptrs t -> ow_own (fp_tbl t ++ k :: F) s ->
  ow_clean_to F (r <- ow_table_addn t (Some k) ;;
                 (if fst r then ow_ret tt else ow_free (Some k)) ;;; ow_table_destroy (Some (snd r))) s.
Proof.
  intros W P O. apply wp_bind. apply wp_table_addn with (F := F); auto.
  - intros t' s1 W' P' O1 _. cbn [fst snd]. apply wp_bind. apply wp_ret. apply wp_table_destroy with (F := F); auto.
  - intros t' s1 W' P' [Ok1 L1] _. cbn [fst snd]. apply wp_bind. apply wp_free; auto.
    + intros i E. injection E as <-. rewrite L1. cnt_norm. lia.
    + intros s2 Ok2 L2 _. apply wp_table_destroy with (F := F); auto. split; auto.
      intros j. specialize (L1 j). specialize (L2 j). cnt_norm. lia.
Qed.

Theorem ow_then_destroy_clean_table_addk t k F s :
  wf_tbl t -> tbl_ptrs t -> ow_own (fp_tbl t ++ F) s ->
  ow_clean_to F (r <- ow_table_addk t (Some k) ;; ow_table_destroy (Some (snd r))) s.
Proof.
  intros W P O. apply wp_bind. apply wp_table_addk with (F := F); auto.
  intros ok t' s1 W' P' O1 _. cbn [snd]. apply wp_table_destroy with (F := F); auto.
Qed.

Theorem ow_then_destroy_clean_table_clear t F s :
  wf_tbl t -> tbl_ptrs t -> ow_own (fp_tbl t ++ F) s ->
  ow_clean_to F (t1 <- ow_table_clear t ;; ow_table_destroy (Some t1)) s.
Proof.
  intros W P O. apply wp_bind. apply wp_table_clear with (F := F); auto.
  intros t' s1 W' P' _ _ O1. apply wp_table_destroy with (F := F); auto.
Qed.

(* ---- bstr *)
Theorem ow_then_destroy_clean_bstr_dup b F s :
  ow_own (b :: F) s -> ow_clean_to F (d <- ow_bstr_dup (Some b) ;; ow_free d ;;; ow_free (Some b)) s.
Proof.
  intros [Hok Hown]. apply wp_bind. apply wp_bstr_dup; auto. { exists b. split; auto. rewrite Hown. cnt_norm. lia. }
  intros r s1 Ok1 L1. wp_go. split; auto. intros j. cnt_at j.
Qed.

Theorem ow_then_destroy_clean_bstr_expand b w sh F s :
  ow_own (b :: F) s ->
  ow_clean_to F (n <- ow_bstr_expand (Some b) w sh ;; if ow_isnull n then ow_free (Some b) else ow_free n) s.
Proof.
  intros [Hok Hown]. apply wp_bind. apply wp_bstr_expand; auto. { exists b. split; auto. rewrite Hown. cnt_norm. lia. }
  - intros s1 Ok1 L1. cbn [ow_isnull]. wp_go. split; auto. intros j. cnt_at j.
  - intros n s1 Ok1 L1 Hn. cbn [ow_isnull]. wp_go. split; auto. intros j. cnt_at j.
Qed.

Theorem ow_then_destroy_clean_bstr_add_mem b w fits F s :
  ow_own (b :: F) s ->
  ow_clean_to F (n <- ow_bstr_add_mem (Some b) w fits ;; if ow_isnull n then ow_free (Some b) else ow_free n) s.
Proof.
  intros [Hok Hown]. unfold ow_bstr_add_mem.
  assert (Hb : 1 <= cnt b (oos_live s)). { rewrite Hown. cnt_norm. lia. }
  apply wp_bind. apply wp_bind. apply wp_use. { exists b. split; auto. }
  destruct fits.
  - apply wp_ret. cbn [ow_isnull]. wp_go. split; auto. intros j. cnt_at j.
  - apply wp_bind. apply wp_bstr_expand; auto. { exists b. split; auto. }
    + intros s1 Ok1 L1. apply wp_ret. cbn [ow_isnull]. wp_go. split; auto. intros j. cnt_at j.
    + intros n s1 Ok1 L1 Hn. apply wp_bind. apply wp_use. { exists n. split; auto. }
      apply wp_ret. cbn [ow_isnull]. wp_go. split; auto. intros j. cnt_at j.
Qed.

(* ---- builder *)
Theorem ow_then_destroy_clean_builder_create F s :
  ow_own F s -> ow_clean_to F (b <- ow_builder_create ;; ow_builder_destroy b) s.
Proof.
  intros O. apply wp_bind. apply wp_builder_create with (F := F); auto.
  intros bb s1 W _ _ O1. apply wp_builder_destroy with (F := F); auto.
Qed.

Theorem ow_then_destroy_clean_builder_append bb F s :
  wf_bb bb -> ow_own (fp_bb bb ++ F) s ->
  ow_clean_to F (r <- ow_builder_append_mem bb ;; ow_builder_destroy (Some (snd r))) s.
Proof.
  intros W O. apply wp_bind. apply wp_builder_append with (F := F); auto.
  intros ok bb' s1 W' O1. cbn [snd]. apply wp_builder_destroy with (F := F); auto.
Qed.

Theorem ow_then_destroy_clean_builder_to_str bb F s :
  wf_bb bb -> ow_own (fp_bb bb ++ F) s ->
  ow_clean_to F (r <- ow_builder_to_str bb ;; ow_free r ;;; ow_builder_destroy (Some bb)) s.
Proof.
  intros W O. apply wp_bind. apply wp_builder_to_str with (F := F); auto.
  intros r s1 [Ok1 L1]. apply wp_bind. apply wp_free; auto.
  - intros i E. rewrite L1, E. cnt_norm. lia.
  - intros s2 Ok2 L2 _. apply wp_builder_destroy with (F := F); auto. split; auto.
    intros j. specialize (L1 j). specialize (L2 j). cnt_norm. lia.
Qed.

Theorem ow_then_destroy_clean_builder_clear bb F s :
  wf_bb bb -> ow_own (fp_bb bb ++ F) s ->
  ow_clean_to F (b1 <- ow_builder_clear bb ;; ow_builder_destroy (Some b1)) s.
Proof.
  intros W O. apply wp_bind. apply wp_builder_clear with (F := F); auto.
  intros bb' s1 W' O1. apply wp_builder_destroy with (F := F); auto.
Qed.

(* ---- hooks *)
Theorem ow_then_destroy_clean_hook_register h F s :
  wf_hooko h -> ow_own (fp_hooko h ++ F) s ->
  ow_clean_to F (r <- ow_hook_register h ;; ow_hook_destroy (snd r)) s.
Proof.
  intros W O. apply wp_bind. apply wp_hook_register with (F := F); auto.
  intros ok h' s1 W' O1 _. cbn [snd]. apply wp_hook_destroyo with (F := F); auto.
Qed.

Theorem ow_then_destroy_clean_hook_copy h F s :
  wf_hooko h -> ow_own (fp_hooko h ++ F) s ->
  ow_clean_to F (c <- ow_hook_copy h ;; ow_hook_destroy c ;;; ow_hook_destroy h) s.
Proof.
  intros W O. apply wp_bind. apply wp_hook_copy with (F := F); auto.
  intros r s1 Wr O1. apply wp_bind. apply wp_hook_destroyo with (F := fp_hooko h ++ F); auto.
  intros s2 O2. apply wp_hook_destroyo with (F := F); auto.
Qed.

Theorem ow_then_destroy_clean_hook_create F s :
  ow_own F s -> ow_clean_to F (h <- ow_hook_create ;; ow_hook_destroy h) s.
Proof.
  intros O. apply wp_bind. apply wp_hook_create with (F := F); auto.
  intros h s1 W _ _ _ O1. apply wp_hook_destroy with (F := F); auto.
Qed.

(* ---- connection parser, transactions *)
Theorem ow_then_destroy_clean_connp_create F s :
  ow_own F s -> ow_clean_to F (p <- ow_connp_create ;; ow_connp_destroy_all p) s.
Proof.
  intros O. apply wp_bind. apply wp_connp_create with (F := F); auto.
  intros p s1 W O1. apply wp_connp_destroy_all with (F := F); auto.
Qed.

(* the world of the transaction-level functions: a connection parser whose connection is c *)
Definition ow_world (p : ow_connp) (c : ow_conn) : Prop := wf_connp p /\ ocp_conn p = Some c.

Lemma world_split p c :
  ow_world p c ->
  exists a R, ocp_self p = Some a /\ wf_conn (Some a) c /\ (forall j, ind a j <= cnt j R) /\
    (forall j, cnt j (fp_connp p) = cnt j (fp_conn c) + cnt j R) /\
    (forall c' j, cnt j (fp_connp (ocp_set_conn p (Some c'))) = cnt j (fp_conn c') + cnt j R) /\
    (forall c', wf_conn (Some a) c' -> wf_connp (ocp_set_conn p (Some c'))).
Proof.
  intros [[W1 [W2 W3]] Ec]. destruct (ocp_self p) as [a|] eqn:Ea; [|congruence].
  exists a, (a :: olist [ocp_in_buf p; ocp_out_buf p; ocp_in_hdr p; ocp_out_hdr p] ++ fp_fileo (ocp_put_file p)).
  rewrite Ec in W2.
  split; [reflexivity|]. split; [exact W2|].
  split. { intros j. cnt_norm. lia. }
  split. { intros j. unfold fp_connp. rewrite ?Ea, ?Ec. cbn [fp_conno]. cnt_norm. lia. }
  split.
  - intros c' j. unfold fp_connp, ocp_set_conn.
    cbn [ocp_self ocp_conn ocp_in_buf ocp_out_buf ocp_in_hdr ocp_out_hdr ocp_put_file fp_conno]. rewrite ?Ea. cnt_norm. lia.
  - intros c' Wc'. split; [cbn; rewrite ?Ea; discriminate|]. split; cbn; [rewrite ?Ea; auto | exact W3].
Qed.

Theorem ow_then_destroy_clean_tx_create p c F s :
  ow_world p c -> ow_own (fp_connp p ++ F) s ->
  ow_clean_to F (r <- ow_tx_create (ocp_self p) c ;; ow_connp_destroy_all (Some (ocp_set_conn p (Some (snd r))))) s.
Proof.
  intros Wd O. destruct (world_split _ _ Wd) as [a [R [Ea [Wc [Ha [E1 [E2 Hwf]]]]]]].
  apply wp_bind. rewrite Ea. apply wp_tx_create with (F := R ++ F); auto.
  - eapply own_perm; [|exact O]. intros j. specialize (E1 j). cnt_norm. lia.
  - discriminate.
  - intros j. specialize (Ha j). cnt_norm. lia.
  - intros ok c' s1 Wc' _ O2. cbn [snd]. apply wp_connp_destroy_all with (F := F); auto.
    eapply own_perm; [|exact O2]. intros j. specialize (E2 c' j). cnt_norm. lia.
Qed.

Theorem ow_safe_tx_create p c F s :
  ow_world p c -> ow_own (fp_connp p ++ F) s -> ow_nofault (ow_tx_create (ocp_self p) c) s.
Proof.
  intros Wd O. destruct (world_split _ _ Wd) as [a [R [Ea [Wc [Ha [E1 [E2 Hwf]]]]]]].
  eapply wp_nofault. rewrite Ea. apply wp_tx_create with (F := R ++ F) (Q := fun _ _ => True); auto.
  - eapply own_perm; [|exact O]. intros j. specialize (E1 j). cnt_norm. lia.
  - discriminate.
  - intros j. specialize (Ha j). cnt_norm. lia.
Qed.

(* htp_tx_destroy_incomplete on any well-formed (also partially built) transaction of the connection *)
Theorem ow_safe_tx_destroy_incomplete tx F s :
  wf_tx tx -> ow_own (fp_tx tx ++ F) s -> otx_conn tx <> None -> otx_connp tx <> None ->
  (forall j, cnto j (otx_conn tx) <= cnt j F) -> (forall j, cnto j (otx_connp tx) <= cnt j F) ->
  ow_clean_to F (ow_tx_destroy_incomplete tx) s.
Proof. intros. apply wp_tx_destroy with (F := F); auto. Qed.

(* the transaction being parsed is kept apart from the connection c (which holds the other transactions);
   destroying the connection parser afterwards destroys it through the connection's list *)
Definition ow_put_tx (p : ow_connp) (c : ow_conn) (tx : ow_tx) : ow_connp :=
  ocp_set_conn p (Some (ocn_set_txs c (ocn_txl c) (ocn_txs c ++ [Some tx]))).

Lemma wf_conn_put a c tx : wf_conn (Some a) c -> wf_tx tx -> otx_conn tx = ocn_self c -> otx_connp tx = Some a -> ocn_txl c <> None ->
  wf_conn (Some a) (ocn_set_txs c (ocn_txl c) (ocn_txs c ++ [Some tx])).
Proof.
  intros [W1 [W2 [W3 [W4 [W5 [W6 W7]]]]]] Wt Ec Ep Hl. split; [exact W1|]. split; [exact W2|]. split; [intros E; cbn in E; congruence|].
  split; [|cbn; auto]. cbn. apply Forall_app. split; auto. constructor; [|constructor]. cbn. auto.
Qed.

Lemma fp_conn_put c tx j : cnt j (fp_conn (ocn_set_txs c (ocn_txl c) (ocn_txs c ++ [Some tx]))) = cnt j (fp_conn c) + cnt j (fp_tx tx).
Proof. pose proof (fp_conn_set_txs c (ocn_txl c) (ocn_txs c ++ [Some tx]) j) as FT. cnt_norm. cbn [fp_txo] in FT. lia. Qed.

Theorem ow_then_destroy_clean_process_request_header on sh p c tx F s :
  ow_world p c -> wf_tx tx -> otx_conn tx = ocn_self c -> otx_connp tx = ocp_self p -> ocn_txl c <> None ->
  ow_own (fp_connp p ++ fp_tx tx ++ F) s ->
  ow_clean_to F (r <- ow_process_request_header on sh (ocp_self p) c tx ;;
                 ow_connp_destroy_all (Some (ow_put_tx p (snd (fst r)) (snd r)))) s.
Proof.
  intros Wd Wt Ec Ep Hl O. destruct (world_split _ _ Wd) as [a [R [Ea [Wc [Ha [E1 [E2 Hwf]]]]]]].
  apply wp_bind. rewrite Ea. apply wp_process_request_header with (cp := Some a) (F := R ++ F); auto.
  - eapply own_perm; [|exact O]. intros j. specialize (E1 j). cnt_norm. lia.
  - discriminate.
  - intros j. specialize (Ha j). cnt_norm. lia.
  - intros ok c' tx' s1 Wc' Wt' Et Etl Es Ec' Ep' O2. cbn [fst snd]. unfold ow_put_tx.
    assert (Hl' : ocn_txl c' <> None) by congruence.
    apply wp_connp_destroy_all with (F := F).
    + apply Hwf. apply wf_conn_put; auto; congruence.
    + eapply own_perm; [|exact O2]. intros j. rewrite (cnt_app j (fp_connp _)), E2, fp_conn_put. cnt_norm. lia.
    + auto.
Qed.

Theorem ow_safe_process_request_header on sh p c tx F s :
  ow_world p c -> wf_tx tx -> ow_own (fp_connp p ++ fp_tx tx ++ F) s ->
  ow_nofault (ow_process_request_header on sh (ocp_self p) c tx) s.
Proof.
  intros Wd Wt O. destruct (world_split _ _ Wd) as [a [R [Ea [Wc [Ha [E1 [E2 Hwf]]]]]]].
  eapply wp_nofault. rewrite Ea. apply wp_process_request_header with (cp := Some a) (F := R ++ F) (Q := fun _ _ => True); auto.
  - eapply own_perm; [|exact O]. intros j. specialize (E1 j). cnt_norm. lia.
  - discriminate.
  - intros j. specialize (Ha j). cnt_norm. lia.
Qed.

Theorem ow_then_destroy_clean_auth_basic sh hdr p c tx F s :
  ow_world p c -> wf_tx tx -> otx_conn tx = ocn_self c -> otx_connp tx = ocp_self p -> ocn_txl c <> None ->
  otx_auth_user tx = None -> otx_auth_pass tx = None ->
  ohd_self hdr <> None -> ohd_value hdr <> None -> (forall j, cnto j (ohd_self hdr) + cnto j (ohd_value hdr) <= cnt j F) ->
  ow_own (fp_connp p ++ fp_tx tx ++ F) s ->
  ow_clean_to F (r <- ow_auth_basic sh hdr tx ;; ow_connp_destroy_all (Some (ow_put_tx p c (snd r)))) s.
Proof.
  intros Wd Wt Ec Ep Hl Eu Epw Hs Hv Hle O. destruct (world_split _ _ Wd) as [a [R [Ea [Wc [Ha [E1 [E2 Hwf]]]]]]].
  apply wp_bind. apply wp_auth_basic with (F := fp_conn c ++ R ++ F); auto.
  - eapply own_perm; [|exact O]. intros j. specialize (E1 j). cnt_norm. lia.
  - intros j. specialize (Hle j). cnt_norm. lia.
  - intros rc tx' s1 Wt' Ec' Ep' O2. cbn [snd]. unfold ow_put_tx. apply wp_connp_destroy_all with (F := F).
    + apply Hwf. apply wf_conn_put; auto; congruence.
    + eapply own_perm; [|exact O2]. intros j. rewrite (cnt_app j (fp_connp _)), E2, fp_conn_put. cnt_norm. lia.
    + auto.
Qed.

(* ---- multipart *)
Theorem ow_then_destroy_clean_part_create parser F s :
  ow_own F s -> parser <> None -> (forall j, cnto j parser <= cnt j F) ->
  ow_clean_to F (p <- ow_part_create parser ;; ow_part_destroy p) s.
Proof.
  intros O Hn Hle. apply wp_bind. apply wp_part_create with (F := F); auto.
  intros p s1 W _ _ _ O1. apply wp_part_destroy with (F := F); auto.
Qed.

Theorem ow_safe_part_parse_cd sh p F s :
  wf_part p -> ow_own (fp_part p ++ F) s -> opt_parser p <> None -> (forall j, cnto j (opt_parser p) <= cnt j F) ->
  ow_nofault (ow_part_parse_cd sh p) s.
Proof. intros. eapply wp_nofault. apply wp_part_parse_cd with (F := F) (Q := fun _ _ => True); auto. Qed.

Theorem ow_then_destroy_clean_part_parse_cd sh p F s :
  wf_part p -> ow_own (fp_part p ++ F) s -> opt_parser p <> None -> (forall j, cnto j (opt_parser p) <= cnt j F) ->
  ow_clean_to F (r <- ow_part_parse_cd sh p ;; ow_part_destroy (Some (snd r))) s.
Proof.
  intros W O Hn Hle. apply wp_bind. apply wp_part_parse_cd with (F := F); auto.
  intros rc p' s1 W' _ O1. cbn [snd]. apply wp_part_destroy with (F := F); auto.
Qed.

(* ---- request buffering, log *)
Theorem ow_then_destroy_clean_req_buffer on sh in_tx p F s :
  wf_connp p -> ocp_conn p <> None -> ow_own (fp_connp p ++ F) s -> live_in in_tx s ->
  ow_clean_to F (r <- ow_req_buffer on sh in_tx p ;; ow_connp_destroy_all (Some (snd r))) s.
Proof.
  intros W Hc O Hin. apply wp_bind. apply wp_req_buffer with (F := F); auto.
  intros ok p' s1 W' O1. cbn [snd]. apply wp_connp_destroy_all with (F := F); auto.
Qed.

Theorem ow_then_destroy_clean_log on p c F s :
  ow_world p c -> ow_own (fp_connp p ++ F) s ->
  ow_clean_to F (c1 <- ow_log_msg on (ocp_self p) c ;; ow_connp_destroy_all (Some (ocp_set_conn p (Some c1)))) s.
Proof.
  intros Wd O. destruct (world_split _ _ Wd) as [a [R [Ea [Wc [Ha [E1 [E2 Hwf]]]]]]].
  apply wp_bind. rewrite Ea. apply wp_log_msg with (cp := Some a) (F := R ++ F); auto.
  - eapply own_perm; [|exact O]. intros j. specialize (E1 j). cnt_norm. lia.
  - discriminate.
  - intros j. specialize (Ha j). cnt_norm. lia.
  - intros c' s1 Wc' _ _ _ O2. apply wp_connp_destroy_all with (F := F); auto.
    eapply own_perm; [|exact O2]. intros j. specialize (E2 c' j). cnt_norm. lia.
Qed.

(* the whole chain from nothing: create, open, destroy leaves the heap it started from *)
Theorem ow_create_open_destroy_clean hc hs s :
  ow_own [] s ->
  ow_wp (c <- ow_conn_create ;;
         match c with
         | None => ow_ret tt
         | Some c => r <- ow_conn_open c hc hs ;; ow_conn_destroy (Some (snd r))
         end) (fun _ s' => oos_live s' = []) s.
Proof.
  intros O. apply wp_bind. apply wp_conn_create with (F := []); auto.
  - intros s1 O1. apply wp_ret. apply own_nil_empty. exact O1.
  - intros c s1 W Et _ Ecl Esv _ _ O1.
    eapply wp_mono.
    + apply ow_then_destroy_clean_conn_open with (cp := None) (F := []); auto.
      intros [t Hin]. rewrite Et in Hin. contradiction.
    + intros u s2 O2. apply own_nil_empty. exact O2.
Qed.

(* ---- safety of f follows from the cleanliness of "f then destroy" *)
Lemma clean_bind_nofault {A B} (m : ow_M A) (k : A -> ow_M B) F s : ow_clean_to F (ow_bind m k) s -> ow_nofault m s.
Proof. unfold ow_clean_to, ow_nofault, ow_wp, ow_bind. destruct (m s); auto. Qed.

(* ---- closed corollaries from the initial (empty) heap: every schedule *)
Theorem ow_connp_lifecycle_from_init sched :
  ow_wp (p <- ow_connp_create ;; ow_connp_destroy_all p) (fun _ s' => oos_live s' = []) (ow_init sched).
Proof.
  eapply wp_mono. { apply ow_then_destroy_clean_connp_create with (F := []). apply ow_init_own. }
  intros u s' O. apply own_nil_empty. exact O.
Qed.

Theorem ow_conn_lifecycle_from_init sched hc hs :
  ow_wp (c <- ow_conn_create ;;
         match c with
         | None => ow_ret tt
         | Some c => r <- ow_conn_open c hc hs ;; ow_conn_destroy (Some (snd r))
         end) (fun _ s' => oos_live s' = []) (ow_init sched).
Proof. apply ow_create_open_destroy_clean. apply ow_init_own. Qed.
