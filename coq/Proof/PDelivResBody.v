(* C06, history level, response direction, Content-Length bodies: request in one chunk, then a grammar response announcing
   Content-Length |body| followed by the body, header fields possibly folded, delivered in ANY non-empty chunking (outside the
   F1 hazard of PSegResThm): the RESPONSE_BODY_DATA / RESPONSE_COMPLETE events of the response calls are data events with
   non-empty payloads that concatenate to exactly the body, in order, then the end-of-body marker -- TWICE when the body is
   not empty (htp_connp_RES_BODY_IDENTITY_CL_KNOWN delivers one when out_body_data_left reaches 0, and
   htp_tx_state_response_complete_ex another) --, then RESPONSE_COMPLETE (dv_response_body_delivery).
   PSegResRun.sr_body_pass / sr_pass_finalize / sr_body_run / sr_tail restated with the events next to the invariants. *)
Require Import Htp.Model.Base Htp.Model.MBstr Htp.Model.MConnTypes Htp.Model.MTxCommon Htp.Model.MResLine Htp.Model.MTxRes.
Require Import Htp.Model.MReq Htp.Model.MRes Htp.Model.MConnp.
Require Import Htp.Spec.SWire Htp.Spec.SBody Htp.Proof.PBody Htp.Proof.PWire Htp.Proof.PWireHdr Htp.Proof.PWireBlock Htp.Proof.PWireConn Htp.Proof.PWireExch.
Require Import Htp.Proof.PWireRun Htp.Proof.PWirePres Htp.Proof.PWireGlue Htp.Proof.PSeg Htp.Proof.PSegLine Htp.Proof.PSegHdr Htp.Proof.PSegGen Htp.Proof.PSegRun.
Require Import Htp.Proof.PSegFold Htp.Proof.PSegRes Htp.Proof.PSegResLine Htp.Proof.PSegResHdr Htp.Proof.PSegResGen Htp.Proof.PSegResRun Htp.Proof.PSegResReq Htp.Proof.PSegResThm.
Require Import Htp.Proof.PDeliv Htp.Proof.PDelivReqBody Htp.Proof.PDelivRes.

Notation SB := H_RESPONSE_BODY_DATA.
Notation SC := H_RESPONSE_COMPLETE.
(* data events, k end-of-body markers, then the completion callback *)
Definition dv_delivered_k (h hc i : nat) (k : nat) (body : bytes) (evs : list event) : Prop :=
  exists ds, evs = map (dv_data h i) ds ++ repeat (dv_marker h i false) k ++ [dv_done hc i] /\ concat ds = body /\ Forall (fun d => d <> []) ds.
Lemma dv_pieces_done_k h hc i k L b : dv_pieces h i L b -> dv_delivered_k h hc i k b (L ++ repeat (dv_marker h i false) k ++ [dv_done hc i]).
Proof. intros (ds & E & C & F). exists ds. rewrite E. split; [reflexivity|split; assumption]. Qed.
(* what it says hook by hook: payloads, at least one marker, every marker after the last data event, the completion callback after the markers *)
Lemma dv_delivered_k_sel h hc i k body evs : h <> hc -> (1 <= k)%nat -> dv_delivered_k h hc i k body evs ->
  (exists ds, dv_sel h evs = map (dv_data h i) ds ++ repeat (dv_marker h i false) k /\ concat ds = body /\ Forall (fun d => d <> []) ds) /\
  concat (map bd_ev_bytes (dv_sel h evs)) = body /\
  dv_sel hc evs = [dv_done hc i] /\ bd_marker_ok h hc evs false = true.
Proof.
  intros Hn Hk (ds & E & C & F). subst evs. assert (N1 : Nat.eqb hc h = false) by (apply Nat.eqb_neq; congruence). assert (N2 : Nat.eqb h hc = false) by (apply Nat.eqb_neq; exact Hn).
  assert (S1 : dv_sel h (repeat (dv_marker h i false) k) = repeat (dv_marker h i false) k).
  { clear. induction k as [|k IH]; [reflexivity|]. unfold dv_sel in *. cbn [repeat filter dv_marker ev_hook]. rewrite Nat.eqb_refl, IH. reflexivity. }
  assert (S2 : dv_sel hc (repeat (dv_marker h i false) k) = []).
  { clear - N2. induction k as [|k IH]; [reflexivity|]. unfold dv_sel in *. cbn [repeat filter dv_marker ev_hook]. rewrite N2. exact IH. }
  assert (Z0 : dv_sel hc (map (dv_data h i) ds) = []).
  { clear - N2. induction ds as [|d ds IH]; [reflexivity|]. unfold dv_sel in *. cbn [map filter dv_data ev_hook]. rewrite N2. exact IH. }
  assert (E1 : dv_sel h (map (dv_data h i) ds ++ repeat (dv_marker h i false) k ++ [dv_done hc i]) = map (dv_data h i) ds ++ repeat (dv_marker h i false) k).
  { rewrite !dv_sel_app, dv_sel_map_data, S1. unfold dv_sel at 1. cbn [filter dv_done ev_hook]. rewrite N1. rewrite app_nil_r. reflexivity. }
  split; [exists ds; split; [exact E1|split; assumption]|]. split; [|split].
  - rewrite E1, map_app, concat_app, dv_map_data_bytes, C.
    assert (Zm : concat (map bd_ev_bytes (repeat (dv_marker h i false) k)) = []) by (clear; induction k as [|k IH]; [reflexivity|exact IH]).
    rewrite Zm. apply app_nil_r.
  - rewrite !dv_sel_app, Z0, S2. unfold dv_sel. cbn [filter dv_done ev_hook app]. rewrite Nat.eqb_refl. reflexivity.
  - apply bd_marker_skip.
    + apply Forall_forall. intros e Hin. apply in_map_iff in Hin. destruct Hin as (d & Ed & _). subst e. cbn. exact Hn.
    + intros s'. destruct k as [|k]; [lia|]. cbn [repeat app]. apply bd_marker_at; [exact Hn|reflexivity|reflexivity].
Qed.

Section TailE.
Variable cb : cb_oracle.
Variable g : cfg.
Hypothesis Hcb : wr_all_ok cb.

Lemma dv_run_tx_hooks_sb k h i data last c : dv_rs_hook h = false ->
  dv_sb (run_tx_hooks k h i data last c) = dv_sb c /\ k_receiver_hook (c_out (run_tx_hooks k h i data last c)) = k_receiver_hook (c_out c).
Proof.
  intros Hn. revert c. induction k as [|k IH]; intros c; [split; reflexivity|]. cbn [run_tx_hooks].
  destruct (IH (emit (bump_hook c h) (mkev h i data last None))) as [A B]. rewrite A, B. split; [|reflexivity].
  unfold dv_sb, dv_selp. cbn [emit c_events set filter ev_hook]. cbn. rewrite Hn. reflexivity.
Qed.
(* htp_tx_res_process_body_data_ex: the event it appends *)
Lemma dv_sprocess_body c d rd p hdr st prev rh t data len : sr_cin c d rd p hdr st prev rh t -> t_res_cep t = c_HTP_COMPRESSION_NONE ->
  match data with Some _ => len <> 0%nat | None => True end ->
  exists c', rs_process_body cb data len c = (ST_OK, c') /\ sr_cin c' d rd p hdr st prev rh (sr_body_add len t) /\
             c_out_body_data_left c' = c_out_body_data_left c /\ dv_sb c' = mkev SB 0 data false None :: dv_sb c.
Proof.
  intros H Hcep Hne. unfold rs_process_body. rewrite (ri_tx _ _ _ _ _ _ _ _ _ H). unfold tx_res_process_body_data_ex.
  rewrite (sr_tx_upd0 c d rd _ _ _ _ _ t _ H).
  set (t1 := t <| t_response_message_len ::= Z.add (Z.of_nat len) |>). set (c1 := c <| c_txs := [Some t1] |>).
  assert (H1 : sr_cin c1 d rd p hdr st prev rh t1) by (eapply sr_cin_txs; exact H).
  rewrite (sr_tx_get c1 d rd _ _ _ _ _ _ H1). change (t_res_cep t1) with (t_res_cep t). rewrite Hcep, Z.eqb_refl.
  rewrite (sr_tx_upd0 c1 d rd _ _ _ _ _ t1 _ H1).
  set (c2 := c1 <| c_txs := [Some (t1 <| t_response_entity_len ::= Z.add (Z.of_nat len) |>)] |>).
  assert (H2 : sr_cin c2 d rd p hdr st prev rh (sr_body_add len t)) by (eapply sr_cin_txs; exact H1).
  assert (Er : res_run_hook_body_data cb 0 data len c2 =
               run_data_hook cb H_RESPONSE_BODY_DATA 0 data false
                 (run_tx_hooks (t_hook_response_body (tx_get c2 0)) H_TX_RESPONSE_BODY_DATA 0 data false c2)).
  { unfold res_run_hook_body_data. rewrite (ri_tx _ _ _ _ _ _ _ _ _ H2). destruct data as [x|]; [destruct len; [contradiction|reflexivity]|reflexivity]. }
  rewrite Er. destruct (sr_cin_tx_hooks (t_hook_response_body (tx_get c2 0)) H_TX_RESPONSE_BODY_DATA 0 data false c2 d rd p hdr st prev rh _ H2) as [H3 L3].
  destruct (dv_run_tx_hooks_sb (t_hook_response_body (tx_get c2 0)) H_TX_RESPONSE_BODY_DATA 0 data false c2 eq_refl) as [V3 _].
  unfold run_data_hook. rewrite (wr_run_hook_ex cb Hcb).
  eexists. split; [reflexivity|]. split; [apply sr_cin_hook; exact H3|]. split; [exact L3|].
  match goal with |- dv_sb (wr_hook_ev _ _ _ _ ?x) = _ => change (dv_sb (wr_hook_ev SB 0 data false x)) with (mkev SB 0 data false None :: dv_sb x) end.
  rewrite V3. reflexivity.
Qed.

(* ---- one pass of RES_BODY_IDENTITY_CL_KNOWN over what the chunk still has (all of it belongs to the body) ---- *)
Lemma dv_sbody_pass c d rd t (left : nat) : sr_cin c d rd [] None RES_BODY_IDENTITY_CL_KNOWN (Some RES_BODY_IDENTITY_CL_KNOWN) None t ->
  t_res_cep t = c_HTP_COMPRESSION_NONE -> c_out_body_data_left c = Z.of_nat left -> (0 < left)%nat -> (length d - rd <= left)%nat ->
  let k := (length d - rd)%nat in
  match k with
  | O => sr_iter cb g c = inl (rs_set_out_status c_HTP_STREAM_DATA c, c_HTP_STREAM_DATA)
  | S _ =>
    if (k <? left)%nat then
      exists c', sr_iter cb g c = inl (rs_set_out_status c_HTP_STREAM_DATA c', c_HTP_STREAM_DATA) /\
                 sr_cin c' d (length d) [] None RES_BODY_IDENTITY_CL_KNOWN (Some RES_BODY_IDENTITY_CL_KNOWN) None (sr_body_add k t) /\
                 c_out_body_data_left c' = Z.of_nat (left - k) /\ dv_sb c' = dv_data SB 0 (skipn rd d) :: dv_sb c
    else
      exists c', sr_iter cb g c = inr c' /\
                 sr_cin c' d (length d) [] None RES_FINALIZE (Some RES_FINALIZE) None (sr_body_add 0 (sr_body_add k t)) /\
                 dv_sb c' = dv_marker SB 0 false :: dv_data SB 0 (skipn rd d) :: dv_sb c
  end.
Proof.
  intros H Hcep Hl Hpos Hle k. pose proof H as [A1 A2 A3 A4 A5 A6 A7 A8 A9 A10 A11 A12 A13 A14 A15 A16 A17].
  assert (Ef : rs_state_fn cb g (c_out_state c) c = rs_RES_BODY_IDENTITY_CL_KNOWN cb c) by (rewrite A2; reflexivity).
  assert (Ebtc : rs_bytes_to_consume c (c_out_body_data_left c) = k).
  { unfold rs_bytes_to_consume. rewrite A5, A6, Hl. fold k.
    assert (E1 : (Z.of_nat left <? 0)%Z = false) by (apply Z.ltb_ge; lia). rewrite E1.
    destruct (Z.of_nat left <=? Z.of_nat k)%Z eqn:E2; [|reflexivity]. apply Z.leb_le in E2. rewrite Nat2Z.id. unfold k in *. lia. }
  unfold rs_RES_BODY_IDENTITY_CL_KNOWN in Ef. rewrite Ebtc in Ef. unfold rs_closed in Ef. rewrite (sg_live_closed _ A1) in Ef.
  destruct k as [|k'] eqn:Ek.
  - cbn [Nat.eqb] in Ef. unfold sr_iter. rewrite Ef. destruct (sr_exit_data cb g c d rd None _ t H) as [E _]. rewrite E. reflexivity.
  - cbn [Nat.eqb] in Ef. rewrite <- Ek in *.
    unfold rs_body_slice in Ef. rewrite A4 in Ef.
    assert (Esl : firstn k (skipn (k_read (c_out c)) d) = skipn rd d) by (rewrite A6; apply firstn_all2; rewrite skipn_length; unfold k; lia).
    rewrite Esl in Ef.
    destruct (dv_sprocess_body c d rd [] None _ _ None t (Some (skipn rd d)) k H Hcep ltac:(cbv beta iota; lia)) as (c1 & E1 & H1 & L1 & V1).
    rewrite E1 in Ef.
    assert (Hadv : sr_cin (rs_advance k c1) d (length d) [] None RES_BODY_IDENTITY_CL_KNOWN (Some RES_BODY_IDENTITY_CL_KNOWN) None (sr_body_add k t)).
    { replace (length d) with (rd + k)%nat by (unfold k; lia). apply sr_cin_advance; [exact H1|unfold k; lia]. }
    set (c2 := rs_advance k c1 <| c_out_body_data_left := (c_out_body_data_left (rs_advance k c1) - Z.of_nat k)%Z |>) in *.
    assert (H2 : sr_cin c2 d (length d) [] None RES_BODY_IDENTITY_CL_KNOWN (Some RES_BODY_IDENTITY_CL_KNOWN) None (sr_body_add k t)) by (apply (sr_cin_ext (rs_advance k c1)); try reflexivity; exact Hadv).
    assert (V2 : dv_sb c2 = dv_data SB 0 (skipn rd d) :: dv_sb c) by (change (dv_sb c2) with (dv_sb c1); exact V1).
    assert (L2 : c_out_body_data_left c2 = (Z.of_nat left - Z.of_nat k)%Z).
    { unfold c2. cbn [c_out_body_data_left set]. change (c_out_body_data_left (rs_advance k c1)) with (c_out_body_data_left c1). rewrite L1, Hl. reflexivity. }
    rewrite L2 in Ef.
    destruct (k <? left)%nat eqn:Elt.
    + apply Nat.ltb_lt in Elt. assert (Nz : (Z.of_nat left - Z.of_nat k =? 0)%Z = false) by (apply Z.eqb_neq; lia). rewrite Nz in Ef.
      exists c2. split; [|split; [exact H2|split; [rewrite L2; lia|exact V2]]].
      unfold sr_iter. rewrite Ef. destruct (sr_exit_data cb g c2 d _ None _ _ H2) as [E _]. rewrite E. reflexivity.
    + apply Nat.ltb_ge in Elt. assert (Ez : (Z.of_nat left - Z.of_nat k =? 0)%Z = true) by (apply Z.eqb_eq; lia). rewrite Ez in Ef.
      assert (H3 : sr_cin (rs_set_state RES_FINALIZE c2) d (length d) [] None RES_FINALIZE (Some RES_BODY_IDENTITY_CL_KNOWN) None (sr_body_add k t)) by (eapply sr_cin_state; exact H2).
      destruct (dv_sprocess_body _ d _ [] None _ _ None _ None 0 H3 Hcep I) as (c4 & E4 & H4 & _ & V4). rewrite E4 in Ef.
      destruct (sr_iter_ok cb g c c4 d (length d) [] None RES_FINALIZE _ None _ Ef H4) as (c5 & E5 & H5); [discriminate|].
      exists c5. split; [exact E5|]. split; [exact H5|].
      assert (R4 : dv_sok c4) by (eapply dv_scin_sok; [exact H4|apply dv_sneqN]).
      rewrite (proj1 (dv_siter_after_inr cb g Hcb c _ c4 c5 Ef E5 R4)), V4. change (dv_sb (rs_set_state RES_FINALIZE c2)) with (dv_sb c2). rewrite V2. reflexivity.
Qed.

(* ---- RES_FINALIZE at the end of the chunk completes the response: the marker of htp_tx_state_response_complete_ex, then RESPONSE_COMPLETE ---- *)
Lemma dv_spass_finalize c d t : sr_cin c d (length d) [] None RES_FINALIZE (Some RES_FINALIZE) None t ->
  t_res_cep t = c_HTP_COMPRESSION_NONE -> (t_response_transfer_coding t =? c_HTP_CODING_NO_BODY)%Z = false ->
  (t_response_progress t =? c_HTP_RESPONSE_COMPLETE)%Z = false -> t_request_progress t = c_HTP_REQUEST_COMPLETE ->
  exists c', sr_iter cb g c = inr c' /\ sr_done c' (sr_final g (sr_tcomplete t)) /\ dv_sb c' = dv_done SC 0 :: dv_marker SB 0 false :: dv_sb c.
Proof.
  intros H Hcep Hcod Hprog Hreq.
  destruct (sr_pass_finalize cb g Hcb c d t H Hcep Hcod Hprog Hreq) as (c' & E & Dn). exists c'. split; [exact E|]. split; [exact Dn|].
  (* the events: the state function again, up to its result *)
  pose proof H as [A1 A2 A3 A4 A5 A6 A7 A8 A9 A10 A11 A12 A13 A14 A15 A16 A17].
  destruct (rs_state_fn cb g (c_out_state c) c) as [r cR] eqn:Ef.
  assert (VR : dv_sb cR = dv_done SC 0 :: dv_marker SB 0 false :: dv_sb c /\ dv_sok cR).
  { revert Ef. rewrite A2. cbn [rs_state_fn]. unfold rs_RES_FINALIZE, rs_closed. rewrite (sg_live_closed _ A1). cbn [negb].
    rewrite (sr_peek c d A4 A5), A6.
    assert (Nn : nth_error d (length d) = None) by (apply nth_error_None; lia). rewrite Nn.
    set (c0 := rs_set_out (fun k => k <| k_next_byte := None |>) c).
    assert (H0 : sr_cin c0 d (length d) [] None RES_FINALIZE (Some RES_FINALIZE) None t) by (apply sr_cin_next; exact H).
    change (rs_nb c0) with (@None N). cbv iota.
    unfold rs_response_complete. rewrite (ri_tx _ _ _ _ _ _ _ _ _ H0). unfold tx_state_response_complete_ex.
    rewrite (sr_tx_get c0 d _ _ _ _ _ _ _ H0), Hprog. cbn [negb].
    rewrite (sr_tx_upd0 c0 d _ _ _ _ _ _ t _ H0).
    set (t1 := t <| t_response_progress := c_HTP_RESPONSE_COMPLETE |>). set (c1 := c0 <| c_txs := [Some t1] |>).
    assert (H1 : sr_cin c1 d (length d) [] None RES_FINALIZE (Some RES_FINALIZE) None t1) by (eapply sr_cin_txs; exact H0).
    rewrite (sr_tx_get c1 d _ _ _ _ _ _ _ H1). change (t_response_transfer_coding t1) with (t_response_transfer_coding t). rewrite Hcod. cbn [negb].
    assert (Epb : tx_res_process_body_data_ex cb 0 None 0 c1 = rs_process_body cb None 0 c1) by (unfold rs_process_body; rewrite (ri_tx _ _ _ _ _ _ _ _ _ H1); reflexivity).
    rewrite Epb. destruct (dv_sprocess_body c1 d _ [] None _ _ None t1 None 0 H1 Hcep I) as (c2 & E2 & H2 & _ & V2). rewrite E2. cbn [snd].
    fold (sr_tcomplete t) in H2.
    rewrite (wr_run_hook cb Hcb). unfold res_receiver_finalize_clear.
    set (c3 := wr_hook_ev H_RESPONSE_COMPLETE 0 None false c2).
    assert (H3 : sr_cin c3 d (length d) [] None RES_FINALIZE (Some RES_FINALIZE) None (sr_tcomplete t)) by (apply sr_cin_hook; exact H2).
    assert (V3 : dv_sb c3 = dv_done SC 0 :: dv_marker SB 0 false :: dv_sb c) by (change (dv_sb c3) with (dv_done SC 0 :: dv_sb c2); rewrite V2; reflexivity).
    rewrite (ri_rh _ _ _ _ _ _ _ _ _ H3). rewrite (ri_intx _ _ _ _ _ _ _ _ _ H3), (ri_tx _ _ _ _ _ _ _ _ _ H3), andb_false_r. cbn [negb andb].
    rewrite (ri_other _ _ _ _ _ _ _ _ _ H3).
    pose proof (bd_tx_finalize_ext cb g 0 c3) as (X & EX & FX).
    assert (K3 : k_receiver_hook (c_out (snd (tx_finalize cb g 0 c3))) = None).
    { unfold tx_finalize. rewrite (sr_cin_slot _ _ _ _ _ _ _ _ _ H3). destruct (negb _); [exact (ri_rh _ _ _ _ _ _ _ _ _ H3)|].
      unfold run_hook_ex. rewrite Hcb. cbn [snd].
      match goal with |- context [tx_slot ?x 0] => destruct (tx_slot x 0) end; cbn [snd]; [|exact (ri_rh _ _ _ _ _ _ _ _ _ H3)].
      destruct (g_tx_auto_destroy g); [|exact (ri_rh _ _ _ _ _ _ _ _ _ H3)].
      unfold tx_destroy. match goal with |- context [tx_slot ?x 0] => destruct (tx_slot x 0) as [tt|] end; [|exact (ri_rh _ _ _ _ _ _ _ _ _ H3)].
      destruct (tx_is_complete tt); [|exact (ri_rh _ _ _ _ _ _ _ _ _ H3)]. unfold tx_destroy_incomplete.
      repeat match goal with |- context [if ?b then _ else _] => destruct b end; repeat match goal with |- context [match ?y with _ => _ end] => destruct y end; exact (ri_rh _ _ _ _ _ _ _ _ _ H3). }
    assert (VX : dv_sb (snd (tx_finalize cb g 0 c3)) = dv_sb c3).
    { unfold dv_sb. rewrite EX, dv_selp_app. assert (Z0 : dv_selp dv_rs_hook X = []).
      { clear - FX. induction FX as [|e l He F IH]; [reflexivity|]. unfold dv_selp in *. cbn [filter]. rewrite He. exact IH. }
      rewrite Z0. reflexivity. }
    destruct (tx_finalize cb g 0 c3) as [rf cf]. cbn [snd] in K3, VX.
    intros Ef. destruct rf; inversion Ef; subst cR r;
      (split; [first [rewrite VX; exact V3 | change (dv_sb (cf <| c_out_tx := None |> <| c_out_state := RES_IDLE |>)) with (dv_sb cf); rewrite VX; exact V3]|]);
      unfold dv_sok; intros h' E'; cbn in E'; rewrite K3 in E'; discriminate E'. }
  destruct VR as [VR RR]. rewrite (proj1 (dv_siter_after_inr cb g Hcb c r cR c' Ef E RR)). exact VR.
Qed.
Lemma dv_spass_idle_end c txs : sr_done c txs -> exists c', sr_iter cb g c = inl (c', c_HTP_STREAM_DATA) /\ c_txs c' = txs /\ dv_sb c' = dv_sb c.
Proof.
  intros [T S P R L]. unfold sr_iter. rewrite S. cbn [rs_state_fn]. unfold rs_RES_IDLE, rs_has_byte. rewrite P, Nat.ltb_irrefl. cbn [negb].
  unfold rs_res_exit, res_receiver_send_data. rewrite R. cbn [snd]. eexists. split; [reflexivity|]. split; [exact T|reflexivity].
Qed.
End TailE.

(* the number of end-of-body markers *)
Definition dv_nmark (b : bytes) : nat := match b with [] => 1%nat | _ :: _ => 2%nat end.
Lemma dv_nmark_ne b : b <> [] -> dv_nmark b = 2%nat. Proof. destruct b; [contradiction|reflexivity]. Qed.
Lemma dv_after_hdr_pos m T : (0 < m)%nat -> sr_tcomplete (sr_body_add' m (sr_hdrs_tx T)) = sr_after_hdr m T.
Proof. intros H. destruct m; [lia|reflexivity]. Qed.

Section RunE.
Variable cb : cb_oracle.
Variable g : cfg.
Hypothesis Hcb : wr_all_ok cb.
Variables ps s r : bytes.
Variable ls : list sg_fl.
Variable body : bytes.
Variable t0 : tx.
Hypothesis Wl : sr_status_ok ps s r = true.
Hypothesis Okl : forallb sg_fl_ok ls = true.
Hypothesis Hnp0 : sg_needs_pending ls = false.
Hypothesis H09 : t_is_protocol_0_9 t0 = false.
Hypothesis Hreq : t_request_progress t0 = c_HTP_REQUEST_COMPLETE.
Let line0 := wr_ser_status_line ps s r.
Let th0 := sr_th0 t0 line0.
Let Tend := sr_lrun ls (None, th0).
Let n := length body.
Let TH := sr_hdrs_tx Tend.
Let has_hdr := negb (sr_is_nil ls).
Hypothesis Hframe : sr_frame_ok Tend n = true.
Hypothesis Hlim0 : (length line0 + 2 <= g_field_limit_hard g)%nat.
Hypothesis Hfit : sr_ffit (g_field_limit_hard g) (sr_p11 th0) None ls = true.

Definition dv_sfin (L : list event) (txs : list (option tx)) : Prop :=
  txs = sr_final g (sr_after_hdr n Tend) /\ dv_delivered_k SB SC 0 (dv_nmark body) body L.
Definition dv_sbext (L : list event) (c : connp) (rw : bytes) : Prop :=
  exists k, (k < n)%nat /\ sr_mid c [] None RES_BODY_IDENTITY_CL_KNOWN None (sr_body_add' k TH) /\
            c_out_body_data_left c = Z.of_nat (n - k) /\ rw = skipn k body /\ dv_pieces SB 0 L (firstn k body).

Let bwt := sg_fwire ls ++ [CR; LF] ++ body.
Let hlog := sr_hlog g Tend body has_hdr.
Let okc := sr_f1_local body has_hdr.
Let post := dv_spost ps s r t0 bwt hlog dv_sfin dv_sbext.

Lemma x_TH_facts k : t_res_cep (sr_body_add' k TH) = c_HTP_COMPRESSION_NONE /\ (t_response_transfer_coding (sr_body_add' k TH) =? c_HTP_CODING_NO_BODY)%Z = false /\
  (t_response_progress (sr_body_add' k TH) =? c_HTP_RESPONSE_COMPLETE)%Z = false /\ t_request_progress (sr_body_add' k TH) = c_HTP_REQUEST_COMPLETE.
Proof. exact (sr_TH_facts ps s r ls body t0 Hreq Hframe k). Qed.

(* ---- the rest of a call once the response is complete but for RES_FINALIZE: km markers already delivered ---- *)
Lemma dv_sfinish_run c d t (rw' : bytes) f L0 km : sr_cin c d (length d) [] None RES_FINALIZE (Some RES_FINALIZE) None t ->
  t_res_cep t = c_HTP_COMPRESSION_NONE -> (t_response_transfer_coding t =? c_HTP_CODING_NO_BODY)%Z = false ->
  (t_response_progress t =? c_HTP_RESPONSE_COMPLETE)%Z = false -> t_request_progress t = c_HTP_REQUEST_COMPLETE ->
  sr_tcomplete t = sr_after_hdr n Tend -> rw' = [] ->
  (exists L1, L0 ++ rev (dv_sb c) = L1 ++ repeat (dv_marker SB 0 false) km /\ dv_pieces SB 0 L1 body) -> S km = dv_nmark body ->
  exists cF rc, rs_res_loop cb g (2 + f) false c = (cF, rc) /\ post (L0 ++ rev (dv_sb cF)) cF rw'.
Proof.
  intros H A B C D Et Erw (L1 & EL & HL) Ekm.
  destruct (dv_spass_finalize cb g Hcb c d t H A B C D) as (c1 & E1 & Dn & V1). change (2 + f)%nat with (S (S f)). rewrite (sr_loop_inr cb g _ _ _ E1).
  destruct (dv_spass_idle_end cb g c1 _ Dn) as (c2 & E2 & T2 & V2). rewrite (sr_loop_inl cb g _ _ _ E2).
  eexists _, _. split; [reflexivity|]. right. split; [exact Erw|]. split; [rewrite T2, Et; reflexivity|].
  rewrite V2, V1. cbn [rev]. rewrite <- (app_assoc (rev (dv_sb c))). cbn [app]. rewrite app_assoc, EL, <- app_assoc.
  replace (repeat (dv_marker SB 0 false) km ++ [dv_marker SB 0 false; dv_done SC 0]) with (repeat (dv_marker SB 0 false) (S km) ++ [dv_done SC 0]).
  2:{ change [dv_marker SB 0 false; dv_done SC 0] with ([dv_marker SB 0 false] ++ [dv_done SC 0]). rewrite app_assoc. f_equal.
      clear. induction km as [|km IH]; [reflexivity|]. cbn [repeat app]. rewrite <- IH. reflexivity. }
  rewrite Ekm. apply dv_pieces_done_k. exact HL.
Qed.

(* ---- the rest of a call once the parser is in RES_BODY_IDENTITY_CL_KNOWN ---- *)
Lemma dv_sbody_run c d rd k (rw' : bytes) f L :
  sr_cin c d rd [] None RES_BODY_IDENTITY_CL_KNOWN (Some RES_BODY_IDENTITY_CL_KNOWN) None (sr_body_add' k TH) ->
  (k < n)%nat -> c_out_body_data_left c = Z.of_nat (n - k) -> skipn rd d ++ rw' = skipn k body ->
  dv_sb c = [] -> dv_pieces SB 0 L (firstn k body) ->
  exists cF rc, rs_res_loop cb g (3 + f) false c = (cF, rc) /\ post (L ++ rev (dv_sb cF)) cF rw'.
Proof.
  intros H Hk Hl Hw Hev HL. pose proof (ri_rd _ _ _ _ _ _ _ _ _ H) as Hrd.
  assert (Lw : (length d - rd + length rw' = n - k)%nat).
  { assert (L1 : length (skipn rd d ++ rw') = length (skipn k body)) by (rewrite Hw; reflexivity). rewrite app_length, !skipn_length in L1. fold n in L1. exact L1. }
  destruct (x_TH_facts k) as (Fc & Fd & Fp & Fr).
  pose proof (dv_sbody_pass cb g Hcb c d rd _ (n - k) H Fc Hl ltac:(lia) ltac:(lia)) as P. cbv zeta in P.
  change (3 + f)%nat with (S (2 + f)).
  destruct (length d - rd)%nat as [|j'] eqn:Ej.
  - (* nothing of the body in this chunk *)
    rewrite (sr_loop_inl cb g _ _ _ P). eexists _, _. split; [reflexivity|].
    assert (Erw : rw' = skipn k body). { assert (Es : skipn rd d = []) by (apply length_zero_iff_nil; rewrite skipn_length; exact Ej). rewrite Es in Hw. exact Hw. }
    change (dv_sb (rs_set_out_status c_HTP_STREAM_DATA c)) with (dv_sb c). rewrite Hev. cbn [rev]. rewrite app_nil_r.
    left. split; [rewrite Erw; intro E; apply (f_equal (@length N)) in E; rewrite skipn_length in E; cbn [length] in E; fold n in E; lia|].
    right. right. exists k. split; [exact Hk|]. split; [|split; [exact Hl|split; [exact Erw|exact HL]]].
    assert (Erd : rd = length d) by lia. subst rd. apply (sr_exit_data cb g c d _ None _ _ H).
  - rewrite <- Ej in *. set (j := (length d - rd)%nat) in *.
    assert (Lj : length (skipn rd d) = j) by (rewrite skipn_length; reflexivity).
    assert (Hne : skipn rd d <> []) by (intro E0; rewrite E0 in Lj; cbn in Lj; lia).
    assert (Epc : firstn (k + j) body = firstn k body ++ skipn rd d).
    { rewrite dv_firstn_add, <- Hw, firstn_app, Lj, Nat.sub_diag. cbn [firstn]. rewrite app_nil_r. rewrite <- Lj at 1. rewrite firstn_all. reflexivity. }
    pose proof (dv_pieces_snoc SB 0 L _ (skipn rd d) HL Hne) as HL'. rewrite <- Epc in HL'.
    destruct (j <? n - k)%nat eqn:Elt.
    + apply Nat.ltb_lt in Elt. destruct P as (c1 & E1 & H1 & L1 & V1).
      rewrite (sr_loop_inl cb g _ _ _ E1). eexists _, _. split; [reflexivity|].
      rewrite (sr_body_add_fuse j k TH ltac:(lia)) in H1.
      assert (Erw : rw' = skipn (k + j) body).
      { assert (E : skipn j (skipn rd d ++ rw') = rw') by (rewrite skipn_app, skipn_all2 by (rewrite skipn_length; unfold j; lia); rewrite skipn_length; fold j; rewrite Nat.sub_diag; reflexivity).
        rewrite Hw, sr_skipn_skipn in E. rewrite <- E. reflexivity. }
      change (dv_sb (rs_set_out_status c_HTP_STREAM_DATA c1)) with (dv_sb c1). rewrite V1, Hev. cbn [rev app].
      left. split; [rewrite Erw; intro E; apply (f_equal (@length N)) in E; rewrite skipn_length in E; cbn [length] in E; fold n in E; lia|].
      right. right. exists (k + j)%nat. split; [lia|]. split; [apply (sr_exit_data cb g c1 d _ None _ _ H1)|]. split; [|split; [exact Erw|exact HL']].
      change (c_out_body_data_left (rs_set_out_status c_HTP_STREAM_DATA c1)) with (c_out_body_data_left c1). rewrite L1. f_equal. lia.
    + apply Nat.ltb_ge in Elt. destruct P as (c1 & E1 & H1 & V1).
      rewrite (sr_loop_inr cb g _ _ _ E1).
      assert (Ej2 : (k + j)%nat = n) by lia.
      rewrite (sr_body_add_fuse j k TH ltac:(lia)), Ej2 in H1.
      assert (Erw : rw' = []) by (apply length_zero_iff_nil; lia).
      destruct (x_TH_facts n) as (Gc & Gd & Gp & Gr).
      assert (Hb : body <> []) by (intro E0; unfold n in Hk; rewrite E0 in Hk; cbn in Hk; lia).
      apply (dv_sfinish_run c1 d _ rw' f L 1%nat H1); try assumption.
      * apply dv_after_hdr_pos. lia.
      * exists (L ++ [dv_data SB 0 (skipn rd d)]). rewrite V1, Hev. cbn [rev app repeat]. split; [rewrite <- app_assoc; reflexivity|].
        rewrite Ej2 in HL'. unfold n in HL'. rewrite firstn_all in HL'. exact HL'.
      * rewrite (dv_nmark_ne body Hb). reflexivity.
Qed.

(* ---- after the empty line: RES_BODY_DETERMINE, then the body or RES_FINALIZE ---- *)
Lemma dv_stail c c1 d rd1 (rw' : bytes) f : c_out_state c = RES_HEADERS -> rs_state_fn cb g RES_HEADERS c = (ST_OK, c1) ->
  sr_cin c1 d rd1 [] None RES_BODY_DETERMINE (Some RES_HEADERS) (Some H_RESPONSE_HEADER_DATA) Tend -> skipn rd1 d ++ rw' = body ->
  dv_sb c = [] -> dv_sok c ->
  exists cF rc, rs_res_loop cb g (5 + f) false c = (cF, rc) /\ post (rev (dv_sb cF)) cF rw'.
Proof.
  intros Es Ef H1 Hw Hev Rk. rewrite <- Es in Ef.
  destruct (sr_iter_ok cb g c c1 d rd1 _ _ _ _ _ _ Ef H1) as (c2 & E2 & H2); [discriminate|].
  assert (V2 : dv_sb c2 = []) by (rewrite <- Hev; apply (dv_siter_quiet_inr cb g Hcb c c2); [rewrite Es; reflexivity|exact E2|exact Rk]).
  change (5 + f)%nat with (S (S (3 + f))). rewrite (sr_loop_inr cb g _ _ _ E2).
  destruct (sr_pass_determine cb g Hcb c2 d rd1 Tend n H2 Hframe) as (c3 & E3 & H3). rewrite (sr_loop_inr cb g _ _ _ E3).
  pose proof (dv_scin_inr cb g Hcb c2 d _ _ _ _ _ _ _ c3 H2 eq_refl dv_sneq12 E3) as V3. rewrite V2 in V3.
  assert (Hc : (n = 0%nat /\ sr_cin c3 d rd1 [] None RES_FINALIZE (Some RES_FINALIZE) None TH) \/
               ((0 < n)%nat /\ sr_cin c3 d rd1 [] None RES_BODY_IDENTITY_CL_KNOWN (Some RES_BODY_IDENTITY_CL_KNOWN) None TH /\ c_out_body_data_left c3 = Z.of_nat n)).
  { clear - H3. destruct n as [|n']; [left; split; [reflexivity|exact H3]|right; split; [lia|exact H3]]. }
  clear H3. destruct Hc as [[En H3]|[Hpos [H3 L3]]].
  - (* no body *)
    assert (Eb : body = []) by (apply length_zero_iff_nil; exact En). rewrite Eb in Hw. apply app_eq_nil in Hw. destruct Hw as [Hs Erw].
    assert (Erd : rd1 = length d) by (pose proof (sg_skipn_nil _ _ Hs); pose proof (ri_rd _ _ _ _ _ _ _ _ _ H3); lia). subst rd1.
    destruct (x_TH_facts 0) as (Fc & Fd & Fp & Fr). cbn [sr_body_add'] in Fc, Fd, Fp, Fr.
    change (3 + f)%nat with (2 + (1 + f))%nat.
    assert (G := dv_sfinish_run c3 d TH rw' (1 + f) [] 0%nat H3 Fc Fd Fp Fr). cbn [app] in G. apply G; [|exact Erw| |].
    + unfold sr_after_hdr. rewrite En. reflexivity.
    + exists []. rewrite V3. cbn [rev app repeat]. split; [reflexivity|]. rewrite Eb. apply dv_pieces_nil.
    + rewrite Eb. reflexivity.
  - assert (G := dv_sbody_run c3 d rd1 0 rw' f [] H3). cbn [app] in G. apply G; [lia|rewrite L3; f_equal; lia|exact Hw|exact V3|cbn [firstn]; apply dv_pieces_nil].
Qed.

(* ---- a call that is (or gets) in RES_HEADERS ---- *)
Lemma dv_shdrs_finish c d rd p hdr t (rw' : bytes) f nn :
  sr_cin c d rd p hdr RES_HEADERS (Some RES_HEADERS) (Some H_RESPONSE_HEADER_DATA) t -> dv_sb c = [] ->
  rs_state_fn cb g RES_HEADERS c = rs_headers_loop cb g nn false c ->
  ((exists c' p' hdr' t', rs_headers_loop cb g nn false c = (ST_DATA_BUFFER, c') /\
      sr_cin c' d (length d) p' hdr' RES_HEADERS (Some RES_HEADERS) (Some H_RESPONSE_HEADER_DATA) t' /\
      sr_hlog g Tend body has_hdr hdr' t' p' rw' /\ rw' <> []) \/
   (exists c' rd1, rs_headers_loop cb g nn false c = (ST_OK, c') /\
      sr_cin c' d rd1 [] None RES_BODY_DETERMINE (Some RES_HEADERS) (Some H_RESPONSE_HEADER_DATA) Tend /\ skipn rd1 d ++ rw' = body)) ->
  exists cF rc, rs_res_loop cb g (7 + f) false c = (cF, rc) /\ post (rev (dv_sb cF)) cF rw'.
Proof.
  intros H0 Hev Ef [HA|HB].
  all: assert (Es : c_out_state c = RES_HEADERS) by apply (ri_state _ _ _ _ _ _ _ _ _ H0).
  all: assert (Rk : dv_sok c) by (eapply dv_scin_sok; [exact H0|apply dv_sneq12]).
  - destruct HA as (c' & p' & hdr' & t' & EA & HA1 & HA2 & HA3).
    assert (Lim : (length p' + length (sg_olist hdr') <= g_field_limit_hard g)%nat).
    { destruct HA2 as (pe & te & re & q' & ea & Hr' & _ & _ & _ & _ & Hne & Hea & _ & Fit & _). pose proof (sr_ffit_next _ _ _ _ Fit) as L.
      pose proof (sr_rel_len _ _ _ _ _ Hr'). destruct ea.
      - destruct (Hea eq_refl) as (Er & Ep & _). subst re p'. cbn [sg_fnext length] in L |- *. lia.
      - destruct (Hne eq_refl) as (Epq & _). rewrite <- Epq, app_length in L. lia. }
    destruct (sr_exit_buffer cb g Hcb c' d p' hdr' _ _ t' HA1 Lim) as (cF & EF & HF).
    assert (Ei : sr_iter cb g c = inl (cF, c_HTP_STREAM_DATA)) by (unfold sr_iter; rewrite Es, Ef, EA, EF; reflexivity).
    destruct (dv_siter_quiet_inl cb g Hcb c cF _ ltac:(rewrite Es; reflexivity) Ei Rk) as [VF _]. rewrite Hev in VF.
    exists cF, c_HTP_STREAM_DATA. split.
    + change (7 + f)%nat with (S (6 + f)). apply sr_loop_inl. exact Ei.
    + rewrite VF. cbn [rev]. left. split; [exact HA3|]. right. left. split; [reflexivity|]. exists p', hdr', t'. split; [exact HF|exact HA2].
  - destruct HB as (c' & rd1 & EB & HB1 & HB2). rewrite <- Ef in EB.
    change (7 + f)%nat with (5 + (2 + f))%nat. apply (dv_stail c c' d rd1 rw' _ Es EB HB1 HB2 Hev Rk).
Qed.

Lemma dv_scall_hdrs c d p hdr t (rw' : bytes) f : okc d rw' ->
  sr_cin c d 0 p hdr RES_HEADERS (Some RES_HEADERS) (Some H_RESPONSE_HEADER_DATA) t -> hlog hdr t p (d ++ rw') -> dv_sb c = [] ->
  exists cF rc, rs_res_loop cb g (7 + f) false c = (cF, rc) /\ post (rev (dv_sb cF)) cF rw'.
Proof.
  intros Hok H (pend & tl & rem & q & eaten & Hrel & Ok & Hnp & Hrun & Hprog & Hne & Hea & Hw & Hfit' & Hhh) Hev.
  assert (Ef : rs_state_fn cb g RES_HEADERS c = rs_headers_loop cb g (S (S (length d))) false c).
  { cbn [rs_state_fn]. unfold rs_RES_HEADERS, rs_bytes_fuel. rewrite (ri_len _ _ _ _ _ _ _ _ _ H), (ri_read _ _ _ _ _ _ _ _ _ H), Nat.sub_0_r. reflexivity. }
  apply (dv_shdrs_finish c d 0 p hdr t rw' f _ H Hev Ef).
  apply (sr_hdrs_loop cb g d rw' Tend body has_hdr Hok rem c 0 p q hdr t pend tl (S (S (length d))) false eaten H Hrel Ok Hnp Hrun Hprog Hne Hea Hw Hfit' Hhh);
    [discriminate|left; reflexivity|intros _; left; reflexivity|lia].
Qed.
Lemma dv_scall_start c d rd (rw' : bytes) f : okc d rw' ->
  sr_cin c d rd [] None RES_HEADERS (Some RES_HEADERS) (Some H_RESPONSE_HEADER_DATA) th0 -> skipn rd d ++ rw' = bwt -> (0 < rd)%nat -> dv_sb c = [] ->
  exists cF rc, rs_res_loop cb g (7 + f) false c = (cF, rc) /\ post (rev (dv_sb cF)) cF rw'.
Proof.
  intros Hok H Hw Hrd Hev.
  assert (Ef : rs_state_fn cb g RES_HEADERS c = rs_headers_loop cb g (S (S (length d - rd))) false c).
  { cbn [rs_state_fn]. unfold rs_RES_HEADERS, rs_bytes_fuel. rewrite (ri_len _ _ _ _ _ _ _ _ _ H), (ri_read _ _ _ _ _ _ _ _ _ H). reflexivity. }
  apply (dv_shdrs_finish c d rd [] None th0 rw' f _ H Hev Ef).
  apply (sr_hdrs_loop cb g d rw' Tend body has_hdr Hok ls c rd [] (sg_fnext ls) None th0 None th0 (S (S (length d - rd))) false false H).
  - left. split; reflexivity.
  - exact Okl.
  - rewrite Hnp0. discriminate.
  - reflexivity.
  - apply (sr_th0_keep t0 line0).
  - intros _. split; [reflexivity|apply sg_fnext_ne].
  - discriminate.
  - rewrite Hw. unfold bwt. apply sg_fwire_split.
  - exact Hfit.
  - apply sr_is_nil_false.
  - discriminate.
  - right. reflexivity.
  - discriminate.
  - lia.
Qed.

(* ---- a call that continues the body ---- *)
Lemma dv_sbext_finish L c rw : dv_sbext L c rw -> dv_sbext L (forget_chunks c <| c_events := [] |>) rw.
Proof. intros (k & Hk & Hm & Hl & Erw & HL). exists k. split; [exact Hk|]. split; [apply sr_mid_finish; exact Hm|]. split; [exact Hl|split; [exact Erw|exact HL]]. Qed.
Lemma dv_sbext_step L c (rw x rw' : bytes) : dv_sbext L c rw -> c_events c = [] -> x <> [] -> rw = x ++ rw' -> okc x rw' ->
  exists c' rc, connp_res_data cb g (Some x) (length x) c = (c', rc) /\ post (L ++ rev (dv_sb c')) c' rw'.
Proof.
  intros (k & Hk & Hm & Hl & Erw & HL) Hev Hne Ex _.
  destruct (dv_senter cb g c [] None _ _ _ x Hm Hne) as (c1 & E1 & H1 & V1 & L1 & _). unfold bytes in *. rewrite E1.
  destruct (sr_fuel_9 x) as (f & Ef). rewrite Ef. change (9 + f)%nat with (3 + (6 + f))%nat.
  apply (dv_sbody_run c1 x 0 k rw' _ L H1 Hk); [rewrite L1; exact Hl|cbn [skipn]; rewrite <- Ex; exact Erw|unfold dv_sb; rewrite V1, Hev; reflexivity|exact HL].
Qed.

(* ---- every chunking of the response, from the state the request left ---- *)
Lemma dv_srun_all_chunks c0 (chunks : list bytes) : sr_ready t0 c0 -> c_events c0 = [] ->
  Forall (fun x => x <> []) chunks -> concat chunks = line0 ++ [CR; LF] ++ bwt -> sr_oks okc chunks ->
  dv_sfin (dv_slog cb g c0 (map OpResData chunks)) (c_txs (fst (cp_run cb g c0 (map OpResData chunks)))).
Proof.
  intros Hr Hev Hall Hc Hoks.
  apply (dv_sall_chunks cb g Hcb ps s r Wl Hlim0 t0 H09 bwt hlog dv_sfin dv_sbext okc dv_sbext_finish dv_sbext_step dv_scall_hdrs dv_scall_start c0 chunks Hr Hev Hall Hc Hoks).
Qed.
End RunE.

(* ================= the theorem, response direction, Content-Length body ================= *)
Theorem dv_response_body_delivery : forall cb g rq r (cuts : list (list bytes)) (body : bytes) (chunks : list bytes),
  wr_all_ok cb -> g_allow_space_uri g = false -> wr_request_ok rq = true ->
  sr_response_ok r = true -> sr_cuts_ok r cuts = true -> sr_framed cb g rq r cuts body = true -> sr_fits g r cuts = true ->
  Forall (fun x => x <> []) chunks -> concat chunks = sr_wire r cuts body ->
  sr_f1_free body (negb (sr_is_nil (sr_lines r cuts))) chunks = true ->
  dv_delivered_k H_RESPONSE_BODY_DATA H_RESPONSE_COMPLETE 0 (dv_nmark body) body
    (dv_selp dv_rs_hook (dv_res_log cb g (wr_request_wire rq) (map OpResData chunks))).
Proof.
  intros cb g rq r cuts body chunks Hcb Hsp Wq Wr Wc Hfr Hfit Hall Hc Hf1.
  destruct (sr_after_request cb g rq Hcb Hsp Wq) as (t0 & Hr & Rep).
  assert (Et : sr_treq cb g rq = t0) by (unfold sr_treq; rewrite (ry_txs _ _ Hr); reflexivity).
  unfold sr_framed in Hfr. rewrite Et in *.
  unfold sr_response_ok in Wr. apply andb_prop in Wr. destruct Wr as [Wl Wf].
  unfold sr_cuts_ok in Wc. apply andb_prop in Wc. destruct Wc as [_ Wc].
  destruct (sg_block_flat_ok (combine (wp_fields r) cuts) (sr_forallb_combine_fst wr_field_ok _ cuts Wf) Wc) as [Okl Hnp].
  unfold sr_fits in Hfit. apply andb_prop in Hfit. destruct Hfit as [Hl0 Hfit]. apply Nat.leb_le in Hl0.
  unfold wr_reported in Rep. destruct Rep as (_ & _ & _ & _ & _ & H09 & _ & Hreq).
  rewrite <- (sr_p11_th0 t0 (sr_line0 r)) in Hfit.
  unfold dv_res_log. generalize (dv_after_req_events cb g (wr_request_wire rq)). unfold dv_after_req.
  revert Hr. generalize (fst (cp_run cb g connp_new [OpOpen; OpReqData (wr_request_wire rq)])). intros c0 Hr Hev.
  pose proof (dv_srun_all_chunks cb g Hcb (wp_protocol r) (wp_status r) (wp_reason r) (sr_lines r cuts) body t0 Wl Okl Hnp H09 Hreq Hfr Hl0 Hfit c0 chunks Hr
                Hev Hall Hc (sr_f1_free_oks _ _ _ Hf1)) as [_ D].
  exact D.
Qed.
(* hook by hook, with the transaction list of PSegResThm.sr_response_chunking *)
Theorem dv_response_body_delivery_counted : forall cb g rq r (cuts : list (list bytes)) (body : bytes) (chunks : list bytes),
  wr_all_ok cb -> g_allow_space_uri g = false -> wr_request_ok rq = true ->
  sr_response_ok r = true -> sr_cuts_ok r cuts = true -> sr_framed cb g rq r cuts body = true -> sr_fits g r cuts = true ->
  Forall (fun x => x <> []) chunks -> concat chunks = sr_wire r cuts body ->
  sr_f1_free body (negb (sr_is_nil (sr_lines r cuts))) chunks = true ->
  let log := dv_res_log cb g (wr_request_wire rq) (map OpResData chunks) in
  c_txs (fst (cp_run cb g connp_new (OpOpen :: OpReqData (wr_request_wire rq) :: map OpResData chunks))) =
    sr_final g (sr_after_hdr (length body) (sr_tend (sr_treq cb g rq) r cuts)) /\
  (exists ds, dv_sel H_RESPONSE_BODY_DATA log = map (dv_data H_RESPONSE_BODY_DATA 0) ds ++ repeat (dv_marker H_RESPONSE_BODY_DATA 0 false) (dv_nmark body) /\
              concat ds = body /\ Forall (fun d => d <> []) ds) /\
  concat (map bd_ev_bytes (dv_sel H_RESPONSE_BODY_DATA log)) = body /\
  dv_sel H_RESPONSE_COMPLETE log = [dv_done H_RESPONSE_COMPLETE 0] /\
  bd_marker_ok H_RESPONSE_BODY_DATA H_RESPONSE_COMPLETE (dv_selp dv_rs_hook log) false = true.
Proof.
  intros cb g rq r cuts body chunks Hcb Hsp Wq Wr Wc Hfr Hfit Hall Hc Hf1 log.
  split; [apply (sr_response_chunking cb g rq r cuts body chunks Hcb Hsp Wq Wr Wc Hfr Hfit Hall Hc Hf1)|].
  pose proof (dv_response_body_delivery cb g rq r cuts body chunks Hcb Hsp Wq Wr Wc Hfr Hfit Hall Hc Hf1) as D. fold log in D.
  assert (Hk : (1 <= dv_nmark body)%nat) by (destruct body; cbn; lia).
  destruct (dv_delivered_k_sel H_RESPONSE_BODY_DATA H_RESPONSE_COMPLETE 0 _ body _ ltac:(discriminate) Hk D) as (D1 & D2 & D3 & D4).
  rewrite (dv_sel_selp dv_rs_hook H_RESPONSE_BODY_DATA log eq_refl) in D1, D2. rewrite (dv_sel_selp dv_rs_hook H_RESPONSE_COMPLETE log eq_refl) in D3.
  split; [exact D1|]. split; [exact D2|]. split; [exact D3|exact D4].
Qed.

(* ================= non-vacuity, the vm_compute harness, the two markers ================= *)
Definition dv_rs (g : cfg) (chunks : list bytes) (cl : bool) :=
  dv_sum H_RESPONSE_BODY_DATA (dv_log sg_ex_ok g (OpOpen :: OpReqData (wr_request_wire wr_ex_req) :: map OpResData chunks ++ (if cl then [OpClose] else []))).
(* PSegResThm.sr_ex1: HTTP/1.1 200 OK | X-A: a b | Content-Length: 3 | x-a:\tc || abc -- whole: the data event, then TWO NULL-data events *)
Example dv_res_cl_two_markers :
  map (fun e => (ev_tx e, ev_data e)) (dv_sel H_RESPONSE_BODY_DATA (dv_log sg_ex_ok (sg_ex_cfg 18000) [OpOpen; OpReqData (wr_request_wire wr_ex_req); OpResData sr_ex1_wire]))
    = [(0%nat, Some sr_ex1_body); (0%nat, None); (0%nat, None)] /\
  dv_rs (sg_ex_cfg 18000) (sg_bytewise sr_ex1_wire) false = (sr_ex1_body, 3%nat, 2%nat, true).
Proof. split; vm_compute; reflexivity. Qed.
(* every single cut: exactly the body, two markers, last *)
Example dv_res_cl_cuts :
  forallb (fun ch => let '(b, k, mk, lst) := dv_rs (sg_ex_cfg 18000) ch false in
                     (if list_eq_dec N.eq_dec b sr_ex1_body then true else false) && Nat.leb 1 k && Nat.eqb mk 2 && lst) (sg_cuts1 sr_ex1_wire) = true.
Proof. vm_compute. reflexivity. Qed.

(* ================= THEOREMS FOR RE-EXPORT (Properties_C06.v), response direction, Content-Length body =================
   dv_response_body_delivery          dv_delivered_k: the RESPONSE_BODY_DATA / RESPONSE_COMPLETE events of the response calls =
                                      data* ++ repeat marker (1 if body = [] else 2) ++ [RESPONSE_COMPLETE]
   dv_response_body_delivery_counted  hook by hook + the transaction list of PSegResThm.sr_response_chunking
   premises (those of PSegResThm.sr_response_chunking): wr_all_ok cb, g_allow_space_uri g = false, wr_request_ok rq, sr_response_ok r,
     sr_cuts_ok r cuts, sr_framed cb g rq r cuts body, sr_fits g r cuts, Forall non-empty chunks, concat chunks = sr_wire r cuts body,
     sr_f1_free body has_hdr chunks; the log is that of the response calls (dv_res_log: after OpOpen; OpReqData (wr_request_wire rq)) *)
Print Assumptions dv_response_body_delivery.
Print Assumptions dv_response_body_delivery_counted.
