(* C05, history level, stage S2: the request-side parser states (MReq) and htp_connp_req_data keep the relation. *)
Require Import Htp.Model.MConnTypes Htp.Model.MBstr Htp.Model.MTxCommon Htp.Model.MReqLine Htp.Model.MReqUri Htp.Model.MTxReq Htp.Model.MReq
               Htp.Spec.SConnp Htp.Spec.SLife Htp.Proof.PLife Htp.Proof.PLifeTx Htp.Proof.PLifeTxRes.
Local Open Scope nat_scope.

(* ------------------------------------------------------------------------------------------------ *)
(* 1. the byte-level helpers do not touch the lifecycle view *)
Lemma sameV_set_in f c : (forall k, k_receiver_hook (f k) = k_receiver_hook k) -> sameV c (rq_set_in f c).
Proof. intros Hf. split; [|reflexivity]. unfold lview, rq_set_in. cbn. rewrite Hf. reflexivity. Qed.
Lemma sameV_rq_fault c : sameV c (rq_fault c). Proof. split; reflexivity. Qed.
Lemma sameV_read_byte c : sameV c (fst (rq_read_byte c)).
Proof. unfold rq_read_byte. destruct (k_data (c_in c)) as [d|]; [destruct (nth_error d _)|]; cbn [fst]; first [apply sameV_refl|apply sameV_rq_fault]. Qed.
Lemma sameV_slice c a b : sameV c (fst (rq_slice c a b)).
Proof. unfold rq_slice. destruct (k_data (c_in c)) as [d|]; [destruct (_ <=? _)|destruct (_ <=? _)]; cbn [fst]; first [apply sameV_refl|apply sameV_rq_fault]. Qed.
Lemma sameV_peek_next c : sameV c (rq_peek_next c).
Proof.
  unfold rq_peek_next. destruct (rq_at_end c); [apply sameV_set_in; intros; reflexivity|].
  pose proof (sameV_read_byte c) as S. destruct (rq_read_byte c) as [c1 b]. cbn [fst] in S.
  apply (sameV_trans _ _ _ S). apply sameV_set_in. intros; reflexivity.
Qed.
Lemma sameV_copy_byte c c' : rq_copy_byte c = Some c' -> sameV c c'.
Proof.
  unfold rq_copy_byte. destruct (rq_at_end c); [discriminate|].
  pose proof (sameV_read_byte c) as S. destruct (rq_read_byte c) as [c1 b]. cbn [fst] in S. intros X; injection X as <-.
  apply (sameV_trans _ _ _ S). apply sameV_set_in. intros; reflexivity.
Qed.
Lemma sameV_next_byte c c' : rq_next_byte c = Some c' -> sameV c c'.
Proof.
  unfold rq_next_byte. destruct (rq_at_end c); [discriminate|].
  pose proof (sameV_read_byte c) as S. destruct (rq_read_byte c) as [c1 b]. cbn [fst] in S. intros X; injection X as <-.
  apply (sameV_trans _ _ _ S). apply sameV_set_in. intros; reflexivity.
Qed.
Lemma sameV_tx_upd c i f : (forall t, txv (f t) = txv t) -> sameV c (tx_upd c i f).
Proof. intros Hf. exact (lview_tx_upd_same c i f Hf). Qed.
Lemma sameV_rq_tx_upd f c : (forall t, txv (f t) = txv t) -> sameV c (rq_tx_upd f c).
Proof. intros Hf. unfold rq_tx_upd. destruct (c_in_tx c); [apply sameV_tx_upd; exact Hf|apply sameV_rq_fault]. Qed.

Section Req.
Variable cb : cb_oracle.
Variable g : cfg.
Variable H : list evp.

Lemma sameV_req_buffer c : sameV c (snd (req_buffer g c)).
Proof.
  unfold req_buffer. destruct (k_data (c_in c)); [|apply sameV_refl]. cbv zeta.
  match goal with |- context [if ?b then rq_fault c else c] => set (c1 := if b then rq_fault c else c);
    assert (S1 : sameV c c1) by (subst c1; destruct b; [apply sameV_rq_fault|apply sameV_refl]) end.
  match goal with |- sameV c (snd (if ?b then _ else _)) => destruct b end; [exact S1|].
  set (c2 := match c_in_tx c1 with Some _ => c1 | None => rq_fault c1 end).
  assert (S2 : sameV c c2) by (subst c2; destruct (c_in_tx c1); [exact S1|exact (sameV_trans _ _ _ S1 (sameV_rq_fault c1))]).
  match goal with |- sameV c (snd (if ?b then _ else _)) => destruct b end; [exact S2|].
  pose proof (sameV_slice c2 (k_consume (c_in c2)) (k_read (c_in c2))) as S3. destruct (rq_slice c2 _ _) as [c3 piece]. cbn [fst snd] in *.
  apply (sameV_trans _ _ _ (sameV_trans _ _ _ S2 S3)). apply sameV_set_in. intros; reflexivity.
Qed.
Lemma sameV_consolidate c : sameV c (snd (fst (req_consolidate_data g c))).
Proof.
  unfold req_consolidate_data. destruct (k_buf (c_in c)).
  - pose proof (sameV_req_buffer c) as S. destruct (req_buffer g c) as [rc c1]. cbn [snd] in S. destruct rc; exact S.
  - pose proof (sameV_slice c (k_consume (c_in c)) (k_read (c_in c))) as S. destruct (rq_slice c _ _) as [c1 d]. exact S.
Qed.
Lemma sameV_clear_buffer c : sameV c (req_clear_buffer c).
Proof. apply sameV_set_in. intros; reflexivity. Qed.
Lemma sameV_process_header l c : sameV c (rq_process_header l c).
Proof. apply sameV_rq_tx_upd. intros t. apply txv_process_request_header. Qed.
Lemma sameV_flush_header c : sameV c (rq_flush_header c).
Proof.
  unfold rq_flush_header. destruct (k_header (c_in c)); [|apply sameV_refl].
  apply (sameV_trans _ _ _ (sameV_process_header b c)). apply sameV_set_in. intros; reflexivity.
Qed.

(* ------------------------------------------------------------------------------------------------ *)
(* 2. state transitions without callbacks *)
(* the fields only the request side owns *)
Definition qonly (v v' : lv) : Prop :=
  lv_os v' = lv_os v /\ lv_ost v' = lv_ost v /\ lv_itx v' = lv_itx v /\ lv_otx v' = lv_otx v /\ lv_sh v' = lv_sh v /\ lv_on v' = lv_on v /\
  lv_txs v' = lv_txs v /\ lv_ih v' = lv_ih v /\ lv_oh v' = lv_oh v.
Lemma qonly_refl v : qonly v v. Proof. repeat split. Qed.
Lemma qonly_set v a b d : qonly v (v <| lv_is := a |> <| lv_ist := b |> <| lv_icl := d |>). Proof. repeat split. Qed.
Lemma qonly_ist v b : qonly v (v <| lv_ist := b |>). Proof. repeat split. Qed.

Lemma QPost_same c c' m rc : sameV c c' -> QJ H c m -> QPost H c m rc c'.
Proof.
  intros [V L] (HM & HC & HR). exists m. rewrite V, L. split; [exact HM|]. split; [exact HC|]. split; [tauto|].
  split; [change (alive (lv_os (lview c)) -> alive (lv_os (lview c'))); rewrite V; tauto|intros _; exact HR].
Qed.
Lemma QPost_pre c c0 c' m rc : sameV c c0 -> QPost H c0 m rc c' -> QPost H c m rc c'.
Proof.
  intros [V L] (m' & A & B & C & D & E). exists m'. split; [exact A|]. split; [exact B|]. rewrite <- V. split; [exact C|].
  split; [|exact E]. change (alive (lv_os (lview c)) -> alive (c_out_status c')). rewrite <- V. exact D.
Qed.
Lemma QJ_same c c' m : sameV c c' -> QJ H c m -> QJ H c' m.
Proof. intros [V L]. exact (QJ_view H c c' m V L). Qed.

(* no current transaction: only in_state / in_status / in_content_length move *)
Lemma QPost_none c c' m rc :
  QJ H c m -> c_in_tx c = None -> qonly (lview c) (lview c') -> levs c' = levs c ->
  (qnone (c_in_state c) = true -> qnone (lv_ist (lview c')) = true) -> QPost H c m rc c'.
Proof.
  intros (HM & HC & HR) Hi (E1 & E2 & E3 & E4 & E5 & E6 & E7 & E8 & E9) L Hqn. exists m. rewrite L. split; [exact HM|].
  split; [apply (Core_ext None None (lview c)); assumption|]. split; [intros R; apply (RS_same_out (lview c)); assumption|].
  split; [change (alive (lv_os (lview c)) -> alive (lv_os (lview c'))); rewrite E1; tauto|].
  intros _. apply RQ_idle; [rewrite E3; exact Hi| |exact (Hqn (rq_none _ _ HR Hi))]. rewrite E8.
  destruct (lv_ih (lview c)) as [h|] eqn:Eh; [|reflexivity]. destruct (rq_arm _ _ HR h Eh) as (_ & _ & i & Hi' & _).
  change (lv_itx (lview c)) with (c_in_tx c) in Hi'. congruence.
Qed.

(* the current transaction moves to state st' (and its progress to po, in_content_length to icl'); no receiver is armed *)
Definition v_mapo (i : nat) (po : option Z) (v : lv) : lv := match po with Some x => v_map i (xsetp x) v | None => v end.
Lemma QPost_trans c c' m rc i p ps ce st' po icl' is' :
  QJ H c m -> c_in_tx c = Some i -> vslot (lview c) i = Some (p, ps, ce) -> lv_ih (lview c) = None ->
  lview c' = v_mapo i po ((lview c) <| lv_is := is' |> <| lv_ist := st' |> <| lv_icl := icl' |>) -> levs c' = levs c ->
  match po with Some x => x | None => p end <> c_HTP_REQUEST_COMPLETE ->
  qst st' (match po with Some x => x | None => p end) (lc_rq (m i)) ->
  (q_expect st' = false -> (0 <? icl')%Z = false) ->
  QPost H c m rc c'.
Proof.
  intros (HM & HC & HR) Hi Hs Hu V L Hp Hq Hx. exists m. rewrite L. split; [exact HM|].
  set (v0 := (lview c) <| lv_is := is' |> <| lv_ist := st' |> <| lv_icl := icl' |>) in *.
  assert (C0 : Core None None v0 m) by (apply (Core_ext None None (lview c)); try reflexivity; exact HC).
  assert (Hs0 : vslot v0 i = Some (p, ps, ce)) by exact Hs.
  destruct (rq_txc _ _ HR i Hi) as (p1 & ps1 & ce1 & Hs1 & Hp1 & _). rewrite Hs in Hs1. injection Hs1 as <- <- <-.
  destruct (nofin_q _ _ _ _ _ _ _ _ HC Hs Hp1) as [_ Hlt].
  split; [|split; [|split]].
  - rewrite V. destruct po as [x|]; cbn [v_mapo]; [apply Core_setp; assumption|exact C0].
  - intros R. rewrite V. assert (R0 : RS v0 m) by (apply (RS_same_out (lview c)); try reflexivity; exact R).
    destruct po as [x|]; cbn [v_mapo]; [apply RS_setp; exact R0|exact R0].
  - change (alive (lv_os (lview c)) -> alive (lv_os (lview c'))). rewrite V. destruct po as [x|]; cbn [v_mapo]; [|tauto].
    destruct (v_map_fields i (xsetp x) v0) as (_ & X & _). rewrite X. tauto.
  - intros _. rewrite V. constructor.
    + intros j Hj. assert (j = i).
      { destruct po as [x|]; cbn [v_mapo] in Hj; [destruct (v_map_fields i (xsetp x) v0) as (_ & _ & _ & _ & X & _); rewrite X in Hj|];
          change (lv_itx (lview c) = Some j) in Hj; change (lv_itx (lview c)) with (c_in_tx c) in Hj; congruence. }
      subst j. destruct po as [x|]; cbn [v_mapo].
      * destruct (v_map_fields i (xsetp x) v0) as (_ & _ & X3 & _ & _ & _ & _ & _ & X9 & _). exists x, ps, ce.
        rewrite vslot_map, Nat.eqb_refl, Hs0, X3, X9. cbn [option_map xsetp fst snd]. auto.
      * exists p, ps, ce. auto.
    + intros h Hh. exfalso.
      destruct po as [x|]; cbn [v_mapo] in Hh; [destruct (v_map_fields i (xsetp x) v0) as (_ & _ & _ & _ & _ & _ & X & _); rewrite X in Hh|];
        change (lv_ih (lview c) = Some h) in Hh; congruence.
    + intros Hn. exfalso.
      destruct po as [x|]; cbn [v_mapo] in Hn; [destruct (v_map_fields i (xsetp x) v0) as (_ & _ & _ & _ & X & _); rewrite X in Hn|];
        change (c_in_tx c = None) in Hn; congruence.
Qed.

Lemma rq_facts c m i : QJ H c m -> c_in_tx c = Some i ->
  exists p ps ce, vslot (lview c) i = Some (p, ps, ce) /\ p <> c_HTP_REQUEST_COMPLETE /\ qst (c_in_state c) p (lc_rq (m i)) /\
                  (q_expect (c_in_state c) = false -> (0 <? c_in_content_length c)%Z = false).
Proof. intros (_ & _ & HR) Hi. exact (rq_txc _ _ HR i Hi). Qed.
Lemma rq_unarmed c m : QJ H c m -> c_in_state c <> REQ_HEADERS -> lv_ih (lview c) = None.
Proof.
  intros (_ & _ & HR) Hn. destruct (lv_ih (lview c)) as [h|] eqn:Eh; [|reflexivity].
  destruct (rq_arm _ _ HR h Eh) as (_ & X & _). contradiction.
Qed.
Lemma lv_eta3 v st' : v <| lv_is := lv_is v |> <| lv_ist := st' |> <| lv_icl := lv_icl v |> = v <| lv_ist := st' |>.
Proof. destruct v; reflexivity. Qed.
Lemma lv_eta2 v st' : v <| lv_is := lv_is v |> <| lv_ist := st' |> = v <| lv_ist := st' |>.
Proof. destruct v; reflexivity. Qed.
Lemma lview_rq_tx_upd_p c i f x : c_in_tx c = Some i -> (forall t, txv (f t) = xsetp x (txv t)) ->
  lview (rq_tx_upd f c) = v_map i (xsetp x) (lview c) /\ levs (rq_tx_upd f c) = levs c.
Proof. intros Hi Hf. unfold rq_tx_upd. rewrite Hi. exact (lview_tx_upd_map c i f (xsetp x) Hf). Qed.

Lemma lview_to_headers c i : c_in_tx c = Some i ->
  lview (rq_to_headers c) = v_mapo i (Some c_HTP_REQUEST_HEADERS) ((lview c) <| lv_is := lv_is (lview c) |> <| lv_ist := REQ_HEADERS |> <| lv_icl := lv_icl (lview c) |>) /\
  levs (rq_to_headers c) = levs c.
Proof.
  intros Hi. unfold rq_to_headers. rewrite lv_eta3.
  match goal with |- context [rq_tx_upd ?f ?cc] => destruct (lview_rq_tx_upd_p cc i f c_HTP_REQUEST_HEADERS Hi (fun t => eq_refl)) as [A B] end.
  split; [exact A|exact B].
Qed.

Lemma to_headers_none c : c_in_tx c = None ->
  lview (rq_to_headers c) = (lview c) <| lv_ist := REQ_HEADERS |> /\ levs (rq_to_headers c) = levs c.
Proof.
  intros Hi. unfold rq_to_headers, rq_tx_upd.
  match goal with |- context [match c_in_tx ?cc with _ => _ end] => change (c_in_tx cc) with (c_in_tx c) end. rewrite Hi. split; reflexivity.
Qed.

(* htp_connp_REQ_PROTOCOL *)
Lemma REQ_PROTOCOL_spec c rc c' m : REQ_PROTOCOL_fn c = (rc, c') -> QJ H c m -> c_in_state c = REQ_PROTOCOL -> QPost H c m rc c'.
Proof.
  intros E Q Hst. assert (Hu : lv_ih (lview c) = None) by (apply (rq_unarmed c m Q); rewrite Hst; discriminate).
  assert (ToH : forall c0, sameV c c0 -> QPost H c m ST_OK (rq_to_headers c0)).
  { intros c0 S0. apply (QPost_pre c c0 _ m ST_OK S0). pose proof (QJ_same c c0 m S0 Q) as Q0.
    assert (Hst0 : c_in_state c0 = REQ_PROTOCOL) by (change (lv_ist (lview c0) = REQ_PROTOCOL); rewrite (proj1 S0); exact Hst).
    destruct (c_in_tx c0) as [i|] eqn:Hi.
    - destruct (rq_facts c0 m i Q0 Hi) as (p & ps & ce & Hs & Hp & Hq & Hx). rewrite Hst0 in Hq, Hx. cbn [qst q_expect] in Hq, Hx.
      destruct (lview_to_headers c0 i Hi) as [A B].
      assert (Hu0 : lv_ih (lview c0) = None) by (rewrite (proj1 S0); exact Hu).
      refine (QPost_trans c0 _ m ST_OK i p ps ce REQ_HEADERS (Some c_HTP_REQUEST_HEADERS) (lv_icl (lview c0)) (lv_is (lview c0)) Q0 Hi Hs Hu0 A B _ _ _).
      + discriminate.
      + cbn [qst]. left. split; [reflexivity|lia].
      + intros _. exact (Hx eq_refl).
    - destruct (to_headers_none c0 Hi) as [A B]. apply (QPost_none c0 _ m ST_OK Q0 Hi); [|exact B|rewrite Hst0; discriminate].
      rewrite A. apply (qonly_ist (lview c0) REQ_HEADERS). }
  assert (Miss : forall c0, sameV c c0 -> forall f, (forall t, txv (f t) = txv t) -> sameV c (rq_tx_upd f c0)).
  { intros c0 S0 f Hf. exact (sameV_trans _ _ _ S0 (sameV_rq_tx_upd f c0 Hf)). }
  unfold REQ_PROTOCOL_fn in E.
  destruct (negb (t_is_protocol_0_9 (rq_tx c))); [injection E as <- <-; exact (ToH c (sameV_refl c))|].
  match type of E with context [rq_tx_upd ?f] => pose proof (fun c0 S0 => Miss c0 S0 f (fun t => eq_refl)) as Miss' end.
  destruct (_ <? _); [injection E as <- <-; exact (ToH _ (Miss' c (sameV_refl c)))|].
  pose proof (sameV_slice c (k_read (c_in c)) (k_len (c_in c))) as S1. destruct (rq_slice c _ _) as [c1 rest]. cbn [fst] in S1.
  destruct (forallb htp_is_space rest); injection E as <- <-; [|exact (ToH _ (Miss' c1 S1))].
  apply (QPost_pre c c1 _ m ST_OK S1). pose proof (QJ_same c c1 m S1 Q) as Q1.
  assert (Hst1 : c_in_state c1 = REQ_PROTOCOL) by (change (lv_ist (lview c1) = REQ_PROTOCOL); rewrite (proj1 S1); exact Hst).
  destruct (c_in_tx c1) as [i|] eqn:Hi.
  - destruct (rq_facts c1 m i Q1 Hi) as (p & ps & ce & Hs & Hp & Hq & Hx). rewrite Hst1 in Hq. cbn [qst] in Hq.
    assert (Hu1 : lv_ih (lview c1) = None) by (rewrite (proj1 S1); exact Hu).
    match goal with |- QPost _ _ _ _ ?cc =>
      refine (QPost_trans c1 cc m ST_OK i p ps ce REQ_FINALIZE None (lv_icl (lview c1)) (lv_is (lview c1)) Q1 Hi Hs Hu1 _ eq_refl Hp _ _) end.
    + cbn [v_mapo]. rewrite lv_eta3. reflexivity.
    + cbn [qst]. lia.
    + discriminate.
  - apply (QPost_none c1 _ m ST_OK Q1 Hi); [apply (qonly_ist (lview c1) REQ_FINALIZE)|reflexivity|intros _; reflexivity].
Qed.

(* only in_state (and in_status) move, from a state in which no receiver is armed *)
Lemma QPost_goto c c' m rc st' is' :
  QJ H c m -> c_in_state c <> REQ_HEADERS ->
  lview c' = (lview c) <| lv_is := is' |> <| lv_ist := st' |> -> levs c' = levs c ->
  (forall i p ps ce, c_in_tx c = Some i -> vslot (lview c) i = Some (p, ps, ce) -> qst (c_in_state c) p (lc_rq (m i)) -> qst st' p (lc_rq (m i))) ->
  (q_expect st' = false -> q_expect (c_in_state c) = false) -> (qnone (c_in_state c) = true -> qnone st' = true) ->
  QPost H c m rc c'.
Proof.
  intros Q Hn V L Hq Hx Hqn. pose proof (rq_unarmed c m Q Hn) as Hu.
  assert (V' : lview c' = (lview c) <| lv_is := is' |> <| lv_ist := st' |> <| lv_icl := lv_icl (lview c) |>) by (rewrite V; destruct (lview c); reflexivity).
  destruct (c_in_tx c) as [i|] eqn:Hi.
  - destruct (rq_facts c m i Q Hi) as (p & ps & ce & Hs & Hp & Hq0 & Hx0).
    refine (QPost_trans c c' m rc i p ps ce st' None (lv_icl (lview c)) is' Q Hi Hs Hu V' L Hp _ _).
    + exact (Hq i p ps ce eq_refl Hs Hq0).
    + intros X. exact (Hx0 (Hx X)).
  - apply (QPost_none c c' m rc Q Hi); [|exact L|rewrite V'; exact Hqn]. rewrite V'. apply qonly_set.
Qed.

(* htp_connp_REQ_CONNECT_CHECK *)
Lemma REQ_CONNECT_CHECK_spec c rc c' m : REQ_CONNECT_CHECK_fn c = (rc, c') -> QJ H c m -> c_in_state c = REQ_CONNECT_CHECK -> QPost H c m rc c'.
Proof.
  intros E Q Hst. unfold REQ_CONNECT_CHECK_fn in E.
  destruct (Z.eqb _ _); injection E as <- <-.
  - apply (QPost_goto c _ m _ REQ_CONNECT_WAIT_RESPONSE c_HTP_STREAM_DATA_OTHER Q); [rewrite Hst; discriminate|reflexivity|reflexivity| |intros _; rewrite Hst; reflexivity|rewrite Hst; discriminate].
    intros i p ps ce _ _. rewrite Hst. cbn [qst]. tauto.
  - apply (QPost_goto c _ m _ REQ_BODY_DETERMINE (lv_is (lview c)) Q); [rewrite Hst; discriminate|rewrite lv_eta2; reflexivity|reflexivity| | |rewrite Hst; discriminate].
    + intros i p ps ce _ _. rewrite Hst. cbn [qst]. tauto.
    + intros _. rewrite Hst. reflexivity.
Qed.

(* htp_connp_REQ_CONNECT_WAIT_RESPONSE *)
Lemma REQ_CONNECT_WAIT_RESPONSE_spec c rc c' m :
  REQ_CONNECT_WAIT_RESPONSE_fn c = (rc, c') -> QJ H c m -> c_in_state c = REQ_CONNECT_WAIT_RESPONSE -> QPost H c m rc c'.
Proof.
  intros E Q Hst. unfold REQ_CONNECT_WAIT_RESPONSE_fn in E.
  destruct (Z.leb _ _); [injection E as <- <-; exact (QPost_same c c m _ (sameV_refl c) Q)|].
  destruct (_ && _)%bool; injection E as <- <-.
  - apply (QPost_goto c _ m _ REQ_CONNECT_PROBE_DATA (lv_is (lview c)) Q); [rewrite Hst; discriminate|rewrite lv_eta2; reflexivity|reflexivity| | |rewrite Hst; discriminate].
    + intros i p ps ce _ _. rewrite Hst. cbn [qst]. tauto.
    + intros _. rewrite Hst. reflexivity.
  - apply (QPost_goto c _ m _ REQ_FINALIZE (lv_is (lview c)) Q); [rewrite Hst; discriminate|rewrite lv_eta2; reflexivity|reflexivity| |discriminate|rewrite Hst; discriminate].
    intros i p ps ce _ _. rewrite Hst. cbn [qst]. lia.
Qed.

(* htp_connp_REQ_IGNORE_DATA_AFTER_HTTP_0_9 *)
Lemma REQ_IGNORE_spec c rc c' m : REQ_IGNORE_DATA_AFTER_HTTP_0_9_fn c = (rc, c') -> QJ H c m -> QPost H c m rc c'.
Proof.
  intros E Q. unfold REQ_IGNORE_DATA_AFTER_HTTP_0_9_fn in E. injection E as <- <-. apply QPost_same; [|exact Q].
  match goal with |- sameV c (rq_set_in ?f ?cc) => apply (sameV_trans c cc) end.
  - destruct (_ <? _); [split; reflexivity|apply sameV_refl].
  - apply sameV_set_in. intros; reflexivity.
Qed.

Lemma QPost_comp c c1 c' m m1 rc :
  (RS (lview c) m -> RS (lview c1) m1) -> (alive (c_out_status c) -> alive (c_out_status c1)) -> QPost H c1 m1 rc c' -> QPost H c m rc c'.
Proof. intros F1 F2 (m' & A & B & C & D & E). exists m'. split; [exact A|]. split; [exact B|]. split; [tauto|]. split; [tauto|exact E]. Qed.

(* htp_connp_REQ_BODY_DETERMINE *)
Lemma REQ_BODY_DETERMINE_spec c rc c' m : REQ_BODY_DETERMINE_fn c = (rc, c') -> QJ H c m -> c_in_state c = REQ_BODY_DETERMINE -> QPost H c m rc c'.
Proof.
  intros E Q Hst. assert (Hu : lv_ih (lview c) = None) by (apply (rq_unarmed c m Q); rewrite Hst; discriminate).
  unfold REQ_BODY_DETERMINE_fn in E.
  destruct (c_in_tx c) as [i|] eqn:Hi.
  2:{ (* no transaction: only state / counters move *)
      assert (N : forall f cc, c_in_tx cc = None -> rq_tx_upd f cc = rq_fault cc) by (intros f cc X; unfold rq_tx_upd; rewrite X; reflexivity).
      destruct (Z.eqb (t_request_transfer_coding (rq_tx c)) c_HTP_CODING_CHUNKED).
      { injection E as <- <-. rewrite N by exact Hi. apply (QPost_none c _ m _ Q Hi); [repeat split|reflexivity|rewrite Hst; discriminate]. }
      destruct (Z.eqb (t_request_transfer_coding (rq_tx c)) c_HTP_CODING_IDENTITY).
      { destruct (negb _); injection E as <- <-; [rewrite N by exact Hi|]; (apply (QPost_none c _ m _ Q Hi); [repeat split|reflexivity|rewrite Hst; discriminate]). }
      destruct (Z.eqb (t_request_transfer_coding (rq_tx c)) c_HTP_CODING_NO_BODY); injection E as <- <-.
      - apply (QPost_none c _ m _ Q Hi); [repeat split|reflexivity|rewrite Hst; discriminate].
      - exact (QPost_same c c m _ (sameV_refl c) Q). }
  destruct (rq_facts c m i Q Hi) as (p & ps & ce & Hs & Hp & Hq & Hx). rewrite Hst in Hq, Hx. cbn [qst q_expect] in Hq, Hx. specialize (Hx eq_refl).
  destruct (Z.eqb (t_request_transfer_coding (rq_tx c)) c_HTP_CODING_CHUNKED).
  { injection E as <- <-.
    match goal with |- context [rq_tx_upd ?f ?cc] => destruct (lview_rq_tx_upd_p cc i f c_HTP_REQUEST_BODY Hi (fun t => eq_refl)) as [A B] end.
    refine (QPost_trans c _ m ST_OK i p ps ce REQ_BODY_CHUNKED_LENGTH (Some c_HTP_REQUEST_BODY) (lv_icl (lview c)) (lv_is (lview c)) Q Hi Hs Hu _ B _ _ _).
    - rewrite A. cbn [v_mapo]. rewrite lv_eta3. reflexivity.
    - discriminate.
    - cbn [qst]. exact Hq.
    - intros _. exact Hx. }
  destruct (Z.eqb (t_request_transfer_coding (rq_tx c)) c_HTP_CODING_IDENTITY).
  { match type of E with context [negb (Z.eqb (c_in_content_length ?cc) 0)] => set (c0 := cc) in E end.
    assert (V0 : lview c0 = (lview c) <| lv_icl := t_request_content_length (rq_tx c) |> /\ levs c0 = levs c /\ c_in_tx c0 = Some i) by (repeat split; exact Hi).
    destruct V0 as (V0 & L0 & Hi0).
    destruct (negb _); injection E as <- <-.
    - match goal with |- context [rq_tx_upd ?f ?cc] => destruct (lview_rq_tx_upd_p cc i f c_HTP_REQUEST_BODY Hi0 (fun t => eq_refl)) as [A B] end.
      refine (QPost_trans c _ m ST_OK i p ps ce REQ_BODY_IDENTITY (Some c_HTP_REQUEST_BODY) (t_request_content_length (rq_tx c)) (lv_is (lview c)) Q Hi Hs Hu _ B _ _ _).
      + rewrite A. reflexivity.
      + discriminate.
      + cbn [qst]. exact Hq.
      + discriminate.
    - match goal with |- QPost _ _ _ _ ?cc =>
        refine (QPost_trans c cc m ST_OK i p ps ce REQ_FINALIZE None (t_request_content_length (rq_tx c)) (lv_is (lview c)) Q Hi Hs Hu _ eq_refl Hp _ _) end.
      + reflexivity.
      + cbn [qst]. lia.
      + discriminate. }
  destruct (Z.eqb (t_request_transfer_coding (rq_tx c)) c_HTP_CODING_NO_BODY); injection E as <- <-.
  - apply (QPost_goto c _ m _ REQ_FINALIZE (lv_is (lview c)) Q); [rewrite Hst; discriminate|rewrite lv_eta2; reflexivity|reflexivity| |discriminate|rewrite Hst; discriminate].
    intros j p0 ps0 ce0 _ _. rewrite Hst. cbn [qst]. lia.
  - exact (QPost_same c c m _ (sameV_refl c) Q).
Qed.

(* the states whose clause is a range lo .. 5 *)
Definition rngst (st : req_state) : bool :=
  match st with REQ_IDLE | REQ_IGNORE_DATA_AFTER_HTTP_0_9 | REQ_LINE | REQ_PROTOCOL | REQ_HEADERS => false | _ => true end.
Lemma qst_rng st p q : rngst st = true -> qst st p q -> 2 <= q <= 5 /\ forall q', q <= q' <= 5 -> qst st p q'.
Proof. destruct st; cbn; intros X Y; try discriminate X; split; intros; lia. Qed.

(* body data is handed to the callbacks: htp_tx_req_process_body_data_ex(in_tx, ...) *)
Lemma req_body_ex_spec data nlen c rc c' m :
  rq_with_tx (fun i => tx_req_process_body_data_ex cb i data nlen) c = (rc, c') -> QJ H c m -> rngst (c_in_state c) = true ->
  exists m', QJ H c' m' /\ lview c' = lview c /\ (rc = ST_OK \/ rc = ST_ERROR) /\ (RS (lview c) m -> RS (lview c') m').
Proof.
  intros E Q Hr. unfold rq_with_tx in E. destruct (c_in_tx c) as [i|] eqn:Hi.
  2:{ injection E as <- <-. exists m. split; [exact Q|]. split; [reflexivity|]. split; tauto. }
  pose proof Q as (HM & HC & HR).
  destruct (rq_facts c m i Q Hi) as (p & ps & ce & Hs & Hp & Hq & Hx). destruct (qst_rng _ _ _ Hr Hq) as [Hq2 Hup].
  destruct (req_body_ex cb H i data nlen c rc c' m p ps ce E HM HC Hi Hs Hp Hq2) as (m' & A & B & V & R & Qm & Hq').
  exists m'. split; [|split; [exact V|split; [exact R|rewrite V; exact (RS_qmv i _ m m' Qm)]]].
  split; [exact A|]. split; [exact B|]. rewrite V. apply (RQ_qmv i (lview c) m m' Qm Hi); [|exact HR].
  intros p0 ps0 ce0 Hs0 _. rewrite Hs in Hs0. injection Hs0 as <- <- <-. apply Hup. destruct Qm as (_ & _ & X). lia.
Qed.

Lemma rq_consume_body_spec n c rc c' m :
  rq_consume_body cb n c = (rc, c') -> QJ H c m -> rngst (c_in_state c) = true ->
  exists m', QJ H c' m' /\ lview c' = lview c /\ (rc = ST_OK \/ rc = ST_ERROR) /\ (RS (lview c) m -> RS (lview c') m').
Proof.
  intros E Q Hr. unfold rq_consume_body in E.
  match type of E with context [let '(c, data) := ?x in _] => destruct x as [c1 data] eqn:E1 end.
  assert (S1 : sameV c c1).
  { destruct (k_data (c_in c)).
    - pose proof (sameV_slice c (k_read (c_in c)) (k_read (c_in c) + n)) as S. destruct (rq_slice c _ _) as [c2 d]. injection E1 as <- _. exact S.
    - injection E1 as <- _. destruct (_ =? 0); [apply sameV_refl|apply sameV_rq_fault]. }
  destruct (rq_with_tx (fun i => tx_req_process_body_data_ex cb i data n) c1) as [rc2 c2] eqn:E2.
  assert (Hr1 : rngst (c_in_state c1) = true) by (change (c_in_state c1) with (lv_ist (lview c1)); rewrite (proj1 S1); exact Hr).
  destruct (req_body_ex_spec data n c1 rc2 c2 m E2 (QJ_same c c1 m S1 Q) Hr1) as (m' & Q2 & V2 & R2 & F2).
  rewrite (proj1 S1) in V2, F2.
  exists m'. destruct R2 as [-> | ->]; injection E as <- <-.
  - match goal with |- context [rq_tx_upd ?f (rq_set_in ?h c2)] =>
      assert (S3 : sameV c2 (rq_tx_upd f (rq_set_in h c2)))
        by (apply (sameV_trans _ (rq_set_in h c2)); [apply sameV_set_in; intros; reflexivity|apply sameV_rq_tx_upd; intros; reflexivity]) end.
    split; [exact (QJ_same _ _ m' S3 Q2)|]. rewrite (proj1 S3). split; [exact V2|]. split; [tauto|exact F2].
  - split; [exact Q2|]. split; [exact V2|]. split; [tauto|exact F2].
Qed.

Lemma QPost_intro c c' m m' rc :
  QJ H c' m' -> (RS (lview c) m -> RS (lview c') m') -> lv_os (lview c') = lv_os (lview c) -> QPost H c m rc c'.
Proof.
  intros (A & B & R) F E. exists m'. split; [exact A|]. split; [exact B|]. split; [exact F|].
  split; [change (alive (lv_os (lview c)) -> alive (lv_os (lview c'))); rewrite E; tauto|intros _; exact R].
Qed.

(* a body state: consume, then stay (DATA) or move on to st' *)
Lemma body_state_spec n c rc c' m st' (upd : connp -> connp) (test : connp -> bool) :
  (if n =? 0 then (ST_DATA, c)
   else match rq_consume_body cb n c with
        | (ST_OK, c) => let c := upd c in if test c then (ST_OK, c <| c_in_state := st' |>) else (ST_DATA, c)
        | r => r
        end) = (rc, c') ->
  (forall x, sameV x (upd x)) ->
  QJ H c m -> rngst (c_in_state c) = true -> c_in_state c <> REQ_HEADERS -> rngst st' = true ->
  (forall p q, qst (c_in_state c) p q -> qst st' p q) -> (q_expect st' = false -> q_expect (c_in_state c) = false) ->
  (qnone (c_in_state c) = true -> qnone st' = true) ->
  QPost H c m rc c'.
Proof.
  intros E Hupd Q Hr Hn Hr' Hq Hx Hqn. destruct (n =? 0); [injection E as <- <-; exact (QPost_same c c m _ (sameV_refl c) Q)|].
  destruct (rq_consume_body cb n c) as [rc1 c1] eqn:E1.
  destruct (rq_consume_body_spec n c rc1 c1 m E1 Q Hr) as (m1 & Q1 & V1 & R1 & F1).
  assert (Os : lv_os (lview c1) = lv_os (lview c)) by (rewrite V1; reflexivity).
  destruct R1 as [-> | ->]; [|injection E as <- <-; exact (QPost_intro c c1 m m1 _ Q1 F1 Os)].
  cbv zeta in E. pose proof (Hupd c1) as S2. set (c2 := upd c1) in *.
  pose proof (QJ_same c1 c2 m1 S2 Q1) as Q2.
  assert (St2 : c_in_state c2 = c_in_state c) by (change (lv_ist (lview c2) = lv_ist (lview c)); rewrite (proj1 S2), V1; reflexivity).
  assert (F2 : RS (lview c) m -> RS (lview c2) m1) by (rewrite (proj1 S2); exact F1).
  assert (Os2 : lv_os (lview c2) = lv_os (lview c)) by (rewrite (proj1 S2); exact Os).
  destruct (test c2); injection E as <- <-; [|exact (QPost_intro c c2 m m1 _ Q2 F2 Os2)].
  apply (QPost_comp c c2 _ m m1 ST_OK F2); [change (alive (lv_os (lview c)) -> alive (lv_os (lview c2))); rewrite Os2; tauto|].
  apply (QPost_goto c2 _ m1 _ st' (lv_is (lview c2)) Q2); [rewrite St2; exact Hn|rewrite lv_eta2; reflexivity|reflexivity| |rewrite St2; exact Hx|rewrite St2; exact Hqn].
  intros i p ps ce _ _. rewrite St2. apply Hq.
Qed.

(* htp_connp_REQ_BODY_IDENTITY / htp_connp_REQ_BODY_CHUNKED_DATA *)
Lemma REQ_BODY_IDENTITY_spec c rc c' m : REQ_BODY_IDENTITY_fn cb c = (rc, c') -> QJ H c m -> c_in_state c = REQ_BODY_IDENTITY -> QPost H c m rc c'.
Proof.
  intros E Q Hst. unfold REQ_BODY_IDENTITY_fn in E. cbv zeta in E.
  match type of E with context [rq_consume_body cb ?n c] =>
    refine (body_state_spec n c rc c' m REQ_FINALIZE (fun x => x <| c_in_body_data_left ::= (fun l => (l - Z.of_nat n)%Z) |>)
              (fun x => Z.eqb (c_in_body_data_left x) 0) E _ Q _ _ _ _ _ _) end.
  - intros x. split; reflexivity.
  - rewrite Hst. reflexivity.
  - rewrite Hst. discriminate.
  - reflexivity.
  - intros p q. rewrite Hst. cbn [qst]. lia.
  - discriminate.
  - intros _. reflexivity.
Qed.
Lemma REQ_BODY_CHUNKED_DATA_spec c rc c' m : REQ_BODY_CHUNKED_DATA_fn cb c = (rc, c') -> QJ H c m -> c_in_state c = REQ_BODY_CHUNKED_DATA -> QPost H c m rc c'.
Proof.
  intros E Q Hst. unfold REQ_BODY_CHUNKED_DATA_fn in E. cbv zeta in E.
  match type of E with context [rq_consume_body cb ?n c] =>
    refine (body_state_spec n c rc c' m REQ_BODY_CHUNKED_DATA_END (fun x => x <| c_in_chunked_length ::= (fun l => (l - Z.of_nat n)%Z) |>)
              (fun x => Z.eqb (c_in_chunked_length x) 0) E _ Q _ _ _ _ _ _) end.
  - intros x. split; reflexivity.
  - rewrite Hst. reflexivity.
  - rewrite Hst. discriminate.
  - reflexivity.
  - intros p q. rewrite Hst. cbn [qst]. tauto.
  - intros _. rewrite Hst. reflexivity.
  - rewrite Hst. discriminate.
Qed.

(* htp_connp_REQ_BODY_CHUNKED_DATA_END *)
Lemma chunked_data_end_shape n : forall c, exists c1, sameV c c1 /\
  (REQ_BODY_CHUNKED_DATA_END_loop n c = (ST_DATA, c1) \/ REQ_BODY_CHUNKED_DATA_END_loop n c = (ST_OK, c1 <| c_in_state := REQ_BODY_CHUNKED_LENGTH |>)).
Proof.
  induction n as [|n IH]; intros c; cbn [REQ_BODY_CHUNKED_DATA_END_loop];
    (destruct (rq_next_byte c) as [c0|] eqn:E0; [|exists c; split; [apply sameV_refl|left; reflexivity]]);
    pose proof (sameV_next_byte c c0 E0) as S0;
    match goal with |- context [rq_tx_upd ?f c0] => pose proof (sameV_trans _ _ _ S0 (sameV_rq_tx_upd f c0 (fun t => eq_refl))) as S1; set (c1 := rq_tx_upd f c0) in * end;
    (destruct (rq_next_is c1 LF); [exists c1; split; [exact S1|right; reflexivity]|]).
  - exists (rq_fault c1). split; [exact (sameV_trans _ _ _ S1 (sameV_rq_fault c1))|left; reflexivity].
  - destruct (IH c1) as (c2 & S2 & R2). exists c2. split; [exact (sameV_trans _ _ _ S1 S2)|exact R2].
Qed.
Lemma REQ_BODY_CHUNKED_DATA_END_spec c rc c' m :
  REQ_BODY_CHUNKED_DATA_END_fn c = (rc, c') -> QJ H c m -> c_in_state c = REQ_BODY_CHUNKED_DATA_END -> QPost H c m rc c'.
Proof.
  intros E Q Hst. unfold REQ_BODY_CHUNKED_DATA_END_fn in E.
  destruct (chunked_data_end_shape (k_len (c_in c) - k_read (c_in c)) c) as (c1 & S1 & [R|R]); rewrite R in E; injection E as <- <-.
  - exact (QPost_same c c1 m _ S1 Q).
  - apply (QPost_pre c c1 _ m _ S1). pose proof (QJ_same c c1 m S1 Q) as Q1.
    assert (St1 : c_in_state c1 = REQ_BODY_CHUNKED_DATA_END) by (change (lv_ist (lview c1) = REQ_BODY_CHUNKED_DATA_END); rewrite (proj1 S1); exact Hst).
    apply (QPost_goto c1 _ m _ REQ_BODY_CHUNKED_LENGTH (lv_is (lview c1)) Q1); [rewrite St1; discriminate|rewrite lv_eta2; reflexivity|reflexivity| | |rewrite St1; discriminate].
    + intros i p ps ce _ _. rewrite St1. cbn [qst]. tauto.
    + intros _. rewrite St1. reflexivity.
Qed.

(* htp_connp_REQ_BODY_CHUNKED_LENGTH *)
Inductive cl_out (c1 : connp) : st * connp -> Prop :=
  | CL_buffer : cl_out c1 (ST_DATA_BUFFER, c1)
  | CL_error : cl_out c1 (ST_ERROR, c1)
  | CL_data : cl_out c1 (ST_OK, c1 <| c_in_state := REQ_BODY_CHUNKED_DATA |>)
  | CL_trailer : cl_out c1 (ST_OK, rq_tx_upd (fun t => t <| t_request_progress := c_HTP_REQUEST_TRAILER |>) (c1 <| c_in_state := REQ_HEADERS |>)).
Lemma chunked_length_shape n : forall c, exists c1, sameV c c1 /\ cl_out c1 (REQ_BODY_CHUNKED_LENGTH_loop g n c).
Proof.
  assert (LFcase : forall c c0, sameV c c0 -> exists c1, sameV c c1 /\ cl_out c1
            (match req_consolidate_data g c0 with
             | (ST_OK, c, data) =>
               let c := rq_tx_upd (fun t => t <| t_request_message_len ::= Z.add (Z.of_nat (length data)) |>) c in
               let '(v, _) := parse_chunked_length (htp_chomp data) in
               let c := req_clear_buffer (c <| c_in_chunked_length := v |>) in
               if Z.ltb 0 v then (ST_OK, c <| c_in_state := REQ_BODY_CHUNKED_DATA |>)
               else if Z.eqb v 0 then
                 (ST_OK, rq_tx_upd (fun t => t <| t_request_progress := c_HTP_REQUEST_TRAILER |>) (c <| c_in_state := REQ_HEADERS |>))
               else (ST_ERROR, c)
             | (_, c, _) => (ST_ERROR, c)
             end)).
  { intros c c0 S0. pose proof (sameV_consolidate c0) as S1. destruct (req_consolidate_data g c0) as [[rc1 c1] data]. cbn [fst snd] in S1.
    pose proof (sameV_trans _ _ _ S0 S1) as S01.
    destruct rc1; try (exists c1; split; [exact S01|apply CL_error]).
    cbv zeta.
    match goal with |- context [rq_tx_upd ?f c1] => pose proof (sameV_trans _ _ _ S01 (sameV_rq_tx_upd f c1 (fun t => eq_refl))) as S2; set (c2 := rq_tx_upd f c1) in * end.
    destruct (parse_chunked_length (htp_chomp data)) as [v w].
    match goal with |- context [req_clear_buffer ?cc] =>
      assert (S3 : sameV c (req_clear_buffer cc)) by (apply (sameV_trans _ _ _ S2); apply (sameV_trans _ cc); [split; reflexivity|apply sameV_clear_buffer]);
      set (c3 := req_clear_buffer cc) in * end.
    destruct (Z.ltb 0 v); [exists c3; split; [exact S3|apply CL_data]|].
    destruct (Z.eqb v 0); exists c3; (split; [exact S3|]); [apply CL_trailer|apply CL_error]. }
  induction n as [|n IH]; intros c; cbn [REQ_BODY_CHUNKED_LENGTH_loop];
    (destruct (rq_copy_byte c) as [c0|] eqn:E0; [|exists c; split; [apply sameV_refl|apply CL_buffer]]);
    pose proof (sameV_copy_byte c c0 E0) as S0;
    (destruct (rq_next_is c0 LF); [exact (LFcase c c0 S0)|]).
  - exists (rq_fault c0). split; [exact (sameV_trans _ _ _ S0 (sameV_rq_fault c0))|apply CL_buffer].
  - destruct (IH c0) as (c2 & S2 & R2). exists c2. split; [exact (sameV_trans _ _ _ S0 S2)|exact R2].
Qed.

Lemma REQ_BODY_CHUNKED_LENGTH_spec c rc c' m :
  REQ_BODY_CHUNKED_LENGTH_fn g c = (rc, c') -> QJ H c m -> c_in_state c = REQ_BODY_CHUNKED_LENGTH -> QPost H c m rc c'.
Proof.
  intros E Q Hst. unfold REQ_BODY_CHUNKED_LENGTH_fn in E.
  destruct (chunked_length_shape (k_len (c_in c) - k_read (c_in c)) c) as (c1 & S1 & R). rewrite E in R.
  pose proof (QJ_same c c1 m S1 Q) as Q1.
  assert (St1 : c_in_state c1 = REQ_BODY_CHUNKED_LENGTH) by (change (lv_ist (lview c1) = REQ_BODY_CHUNKED_LENGTH); rewrite (proj1 S1); exact Hst).
  inversion R; subst.
  - exact (QPost_same c c' m _ S1 Q).
  - exact (QPost_same c c' m _ S1 Q).
  - apply (QPost_pre c c1 _ m _ S1).
    apply (QPost_goto c1 _ m _ REQ_BODY_CHUNKED_DATA (lv_is (lview c1)) Q1); [rewrite St1; discriminate|rewrite lv_eta2; reflexivity|reflexivity| | |rewrite St1; discriminate].
    + intros i p ps ce _ _. rewrite St1. cbn [qst]. tauto.
    + intros _. rewrite St1. reflexivity.
  - apply (QPost_pre c c1 _ m _ S1).
    assert (Hu : lv_ih (lview c1) = None) by (apply (rq_unarmed c1 m Q1); rewrite St1; discriminate).
    destruct (c_in_tx c1) as [i|] eqn:Hi.
    + destruct (rq_facts c1 m i Q1 Hi) as (p & ps & ce & Hs & Hp & Hq & Hx). rewrite St1 in Hq, Hx. cbn [qst q_expect] in Hq, Hx.
      match goal with |- context [rq_tx_upd ?f ?cc] => destruct (lview_rq_tx_upd_p cc i f c_HTP_REQUEST_TRAILER Hi (fun t => eq_refl)) as [A B] end.
      refine (QPost_trans c1 _ m ST_OK i p ps ce REQ_HEADERS (Some c_HTP_REQUEST_TRAILER) (lv_icl (lview c1)) (lv_is (lview c1)) Q1 Hi Hs Hu _ B _ _ _).
      * rewrite A. reflexivity.
      * discriminate.
      * cbn [qst]. right. split; [reflexivity|exact Hq].
      * intros _. exact (Hx eq_refl).
    + apply (QPost_none c1 _ m _ Q1 Hi); [|unfold rq_tx_upd; match goal with |- context [match c_in_tx ?cc with _ => _ end] => change (c_in_tx cc) with (c_in_tx c1) end; rewrite Hi; reflexivity|rewrite St1; discriminate].
      unfold rq_tx_upd. match goal with |- context [match c_in_tx ?cc with _ => _ end] => change (c_in_tx cc) with (c_in_tx c1) end. rewrite Hi. repeat split.
Qed.

Lemma QPost_mk c c' m m' rc :
  MS (levs c' ++ H) m' -> Core None None (lview c') m' -> (RS (lview c) m -> RS (lview c') m') -> lv_os (lview c') = lv_os (lview c) ->
  (okrc rc -> RQ (lview c') m') -> QPost H c m rc c'.
Proof.
  intros A B F E R. exists m'. split; [exact A|]. split; [exact B|]. split; [exact F|].
  split; [change (alive (lv_os (lview c)) -> alive (lv_os (lview c'))); rewrite E; tauto|exact R].
Qed.
Lemma not_okrc_error : ~ okrc ST_ERROR. Proof. intros [X|[X|[X|X]]]; discriminate X. Qed.
Lemma not_okrc_stop : ~ okrc ST_STOP. Proof. intros [X|[X|[X|X]]]; discriminate X. Qed.

(* htp_connp_REQ_LINE *)
Lemma REQ_LINE_complete_spec c rc c' m :
  REQ_LINE_complete cb g c = (rc, c') -> QJ H c m -> c_in_state c = REQ_LINE -> QPost H c m rc c'.
Proof.
  intros E Q Hst. unfold REQ_LINE_complete in E.
  pose proof (sameV_consolidate c) as S1. destruct (req_consolidate_data g c) as [[rc1 c1] data]. cbn [fst snd] in S1.
  destruct rc1; try (injection E as <- <-; exact (QPost_same c c1 m _ S1 Q)).
  destruct data as [|b data]; [injection E as <- <-; exact (QPost_same c _ m _ (sameV_trans _ _ _ S1 (sameV_clear_buffer c1)) Q)|].
  destruct (htp_is_line_ignorable _ _).
  { injection E as <- <-. apply (QPost_same c _ m _); [|exact Q]. apply (sameV_trans _ _ _ S1).
    match goal with |- sameV c1 (req_clear_buffer (rq_tx_upd ?f c1)) => apply (sameV_trans _ (rq_tx_upd f c1)); [apply sameV_rq_tx_upd; intros; reflexivity|apply sameV_clear_buffer] end. }
  match type of E with context [rq_tx_upd ?f c1] =>
    assert (S2 : sameV c (rq_tx_upd f c1)) by (apply (sameV_trans _ _ _ S1); apply sameV_rq_tx_upd; intros t; cbv beta; rewrite txv_parse_request_line; reflexivity);
    set (c2 := rq_tx_upd f c1) in * end.
  apply (QPost_pre c c2 _ m _ S2). pose proof (QJ_same c c2 m S2 Q) as Q2. pose proof Q2 as (HM & HC & HR).
  assert (St2 : c_in_state c2 = REQ_LINE) by (change (lv_ist (lview c2) = REQ_LINE); rewrite (proj1 S2); exact Hst).
  unfold rq_with_tx in E. destruct (c_in_tx c2) as [i|] eqn:Hi.
  2:{ injection E as <- <-. exact (QPost_same c2 c2 m _ (sameV_refl c2) Q2). }
  destruct (rq_facts c2 m i Q2 Hi) as (p & ps & ce & Hs & Hp & Hq & Hx). rewrite St2 in Hq, Hx. cbn [qst q_expect] in Hq, Hx.
  destruct (tx_state_request_line cb g i c2) as [rc3' c3] eqn:E3.
  destruct (request_line_spec cb g H i c2 rc3' c3 m p ps ce E3 HM HC Hs Hp Hq) as (m' & A & B & R & Qm & Hq' & Vok & Vno).
  assert (R2' : RQ (lview c2) m').
  { apply (RQ_qmv i (lview c2) m m' Qm Hi); [|exact HR]. intros p0 ps0 ce0 _ _. change (lv_ist (lview c2)) with (c_in_state c2). rewrite St2. cbn [qst]. exact Hq'. }
  assert (Hu : lv_ih (lview c2) = None) by (apply (rq_unarmed c2 m Q2); rewrite St2; discriminate).
  destruct R as [-> | [-> | ->]]; injection E as <- <-.
  - destruct (Vok eq_refl) as [V3 Hq2]. pose proof (sameV_clear_buffer c3) as S4. rewrite <- (proj1 S4) in V3.
    apply (QPost_mk c2 _ m m' ST_OK); [rewrite (proj2 S4); exact A|rewrite (proj1 S4); exact B| |rewrite V3; reflexivity|].
    + intros Rs. rewrite V3. apply (RS_same_out (lview c2)); try reflexivity. exact (RS_qmv i _ m m' Qm Rs).
    + intros _. rewrite V3. apply RQ_state; [exact R2'|exact Hu| | |].
      * intros j p0 ps0 ce0 Hj _ _. assert (j = i) by (change (lv_itx (lview c2)) with (c_in_tx c2) in Hj; congruence). subst j. cbn [qst]. exact Hq2.
      * intros _. change (lv_ist (lview c2)) with (c_in_state c2). rewrite St2. reflexivity.
      * intros Hn. change (c_in_tx c2 = None) in Hn. congruence.
  - apply (QPost_mk c2 c3 m m' ST_ERROR A B); [rewrite (Vno ltac:(discriminate)); exact (RS_qmv i _ m m' Qm)|rewrite (Vno ltac:(discriminate)); reflexivity|].
    intros X. destruct (not_okrc_error X).
  - apply (QPost_mk c2 c3 m m' ST_ERROR A B); [rewrite (Vno ltac:(discriminate)); exact (RS_qmv i _ m m' Qm)|rewrite (Vno ltac:(discriminate)); reflexivity|].
    intros X. destruct (not_okrc_error X).
Qed.

Lemma req_line_shape n : forall c, exists c1, sameV c c1 /\
  (REQ_LINE_loop cb g n c = (ST_DATA_BUFFER, c1) \/ REQ_LINE_loop cb g n c = REQ_LINE_complete cb g c1).
Proof.
  induction n as [|n IH]; intros c; cbn [REQ_LINE_loop]; pose proof (sameV_peek_next c) as S0; set (c0 := rq_peek_next c) in *;
    (destruct (_ && _)%bool; [exists c0; split; [exact S0|right; reflexivity]|]);
    (destruct (rq_copy_byte c0) as [c1|] eqn:E1; [|exists c0; split; [exact S0|left; reflexivity]]);
    pose proof (sameV_trans _ _ _ S0 (sameV_copy_byte c0 c1 E1)) as S1;
    (destruct (rq_next_is c1 LF); [exists c1; split; [exact S1|right; reflexivity]|]).
  - exists (rq_fault c1). split; [exact (sameV_trans _ _ _ S1 (sameV_rq_fault c1))|left; reflexivity].
  - destruct (IH c1) as (c2 & S2 & R2). exists c2. split; [exact (sameV_trans _ _ _ S1 S2)|exact R2].
Qed.
Lemma REQ_LINE_spec c rc c' m : REQ_LINE_fn cb g c = (rc, c') -> QJ H c m -> c_in_state c = REQ_LINE -> QPost H c m rc c'.
Proof.
  intros E Q Hst. unfold REQ_LINE_fn in E.
  destruct (req_line_shape (k_len (c_in c) - k_read (c_in c)) c) as (c1 & S1 & [R|R]); rewrite R in E.
  - injection E as <- <-. exact (QPost_same c c1 m _ S1 Q).
  - apply (QPost_pre c c1 _ m _ S1). apply (REQ_LINE_complete_spec c1 rc c' m E (QJ_same c c1 m S1 Q)).
    change (lv_ist (lview c1) = REQ_LINE). rewrite (proj1 S1). exact Hst.
Qed.

(* htp_connp_REQ_HEADERS *)
Lemma QPost_of_headers c c0 c' m m' rc i :
  (exists h' st', lview c' = (lview c0) <| lv_ih := h' |> <| lv_ist := st' |>) -> QJ H c' m' -> qmv i m m' ->
  (RS (lview c) m -> RS (lview c0) m) -> lv_os (lview c0) = lv_os (lview c) -> QPost H c m rc c'.
Proof.
  intros (h' & st' & V) Q' Qm F Os. apply (QPost_intro c c' m m' rc Q'); [|rewrite V; exact Os].
  intros R. rewrite V. apply (RS_same_out (lview c0)); try reflexivity. exact (RS_qmv i _ m m' Qm (F R)).
Qed.

Lemma headers_open_spec c rc c' m :
  rq_with_tx (tx_state_request_headers cb) c = (rc, c') -> QJ H c m -> c_in_state c = REQ_HEADERS -> QPost H c m rc c'.
Proof.
  intros E Q Hst. unfold rq_with_tx in E. destruct (c_in_tx c) as [i|] eqn:Hi.
  2:{ injection E as <- <-. exact (QPost_same c c m _ (sameV_refl c) Q). }
  destruct (request_headers_spec cb H i c rc c' m E Q Hi Hst) as (m' & Q' & _ & Qm & V).
  exact (QPost_of_headers c c c' m m' rc i V Q' Qm (fun x => x) eq_refl).
Qed.

Lemma headers_closed_spec c rc c' m :
  rq_with_tx (tx_state_request_headers cb) (rq_tx_upd (fun t => t <| t_request_progress := c_HTP_REQUEST_TRAILER |>) c) = (rc, c') ->
  QJ H c m -> c_in_state c = REQ_HEADERS -> QPost H c m rc c'.
Proof.
  intros E Q Hst. pose proof Q as (HM & HC & HR). destruct (c_in_tx c) as [i|] eqn:Hi.
  2:{ unfold rq_tx_upd in E. rewrite Hi in E. unfold rq_with_tx in E. change (c_in_tx (rq_fault c)) with (c_in_tx c) in E. rewrite Hi in E.
      injection E as <- <-. exact (QPost_same c _ m _ (sameV_rq_fault c) Q). }
  destruct (rq_facts c m i Q Hi) as (p & ps & ce & Hs & Hp & Hq & Hx). rewrite Hst in Hq, Hx. cbn [qst q_expect] in Hq, Hx. specialize (Hx eq_refl).
  match type of E with context [rq_tx_upd ?f c] => destruct (lview_rq_tx_upd_p c i f c_HTP_REQUEST_TRAILER Hi (fun t => eq_refl)) as [A2 B2]; set (c2 := rq_tx_upd f c) in * end.
  set (v2 := v_map i (xsetp c_HTP_REQUEST_TRAILER) (lview c)) in *.
  destruct (v_map_fields i (xsetp c_HTP_REQUEST_TRAILER) (lview c)) as (_ & F2 & F3 & _ & F5 & _ & F7 & _ & F9 & _). fold v2 in F2, F3, F5, F7, F9.
  assert (Hq2 : 2 <= lc_rq (m i) <= 5) by (destruct Hq as [[_ X]|[_ X]]; lia).
  assert (HC2 : Core None None (lview c2) m) by (rewrite A2; apply Core_setp; [exact HC|discriminate|lia]).
  assert (Hs2 : vslot (lview c2) i = Some (c_HTP_REQUEST_TRAILER, ps, ce)) by (rewrite A2; unfold v2; rewrite vslot_map, Nat.eqb_refl, Hs; reflexivity).
  assert (Hi2 : c_in_tx c2 = Some i) by (change (lv_itx (lview c2) = Some i); rewrite A2, F5; exact Hi).
  assert (St2 : c_in_state c2 = REQ_HEADERS) by (change (lv_ist (lview c2) = REQ_HEADERS); rewrite A2, F3; exact Hst).
  unfold rq_with_tx in E. rewrite Hi2 in E. unfold tx_state_request_headers in E.
  destruct (vslot_tx c2 i _ Hs2) as (t2 & Ht2 & Hv2). rewrite (tx_get_live c2 i t2 Ht2) in E.
  assert (Ep : t_request_progress t2 = c_HTP_REQUEST_TRAILER) by (unfold txv in Hv2; congruence). rewrite Ep in E.
  change (Z.ltb c_HTP_REQUEST_HEADERS c_HTP_REQUEST_TRAILER) with true in E. cbv iota in E.
  assert (HM2 : MS (levs c2 ++ H) m) by (rewrite B2; exact HM).
  destruct (trailer_branch cb H i c2 rc c' m ps ce E HM2 HC2 Hi2 St2 Hs2 Hq2) as (m' & Q' & _ & Qm & V).
  - rewrite A2, F9. exact Hx.
  - intros h Hh. rewrite A2, F7 in Hh. exact (proj1 (rq_arm _ _ HR h Hh)).
  - apply (QPost_of_headers c c2 c' m m' rc i V Q' Qm); [|rewrite A2; exact F2].
    intros R. rewrite A2. apply RS_setp. exact R.
Qed.

Inductive hd_out (c1 : connp) : st * connp -> Prop :=
  | HD_buffer : hd_out c1 (ST_DATA_BUFFER, c1)
  | HD_error : hd_out c1 (ST_ERROR, c1)
  | HD_open : hd_out c1 (rq_with_tx (tx_state_request_headers cb) c1)
  | HD_closed : hd_out c1 (rq_with_tx (tx_state_request_headers cb) (rq_tx_upd (fun t => t <| t_request_progress := c_HTP_REQUEST_TRAILER |>) c1)).

Lemma header_line_shape c : exists c1, sameV c c1 /\
  (fst (rq_header_line cb g c) = None /\ snd (rq_header_line cb g c) = c1 \/
   exists r, fst (rq_header_line cb g c) = Some r /\ hd_out c1 r).
Proof.
  unfold rq_header_line. pose proof (sameV_consolidate c) as S1. destruct (req_consolidate_data g c) as [[rc1 c1] data]. cbn [fst snd] in S1.
  destruct rc1; try (exists c1; split; [exact S1|right; eexists; split; [reflexivity|apply HD_error]]).
  destruct (htp_is_line_terminator _ _ _).
  - exists (req_clear_buffer (rq_flush_header c1)). split; [exact (sameV_trans _ _ _ S1 (sameV_trans _ _ _ (sameV_flush_header c1) (sameV_clear_buffer _)))|].
    right. eexists. split; [reflexivity|apply HD_open].
  - cbv zeta. match goal with |- exists c2, sameV c c2 /\ (fst (None, req_clear_buffer ?x) = None /\ _ \/ _) =>
      exists (req_clear_buffer x); split; [|left; split; reflexivity];
      apply (sameV_trans _ _ _ S1); apply (sameV_trans _ x); [|apply sameV_clear_buffer] end.
    destruct (Z.eqb _ 0).
    + pose proof (sameV_trans _ _ _ (sameV_flush_header c1) (sameV_peek_next (rq_flush_header c1))) as S2. set (c2 := rq_peek_next (rq_flush_header c1)) in *.
      destruct (k_next_byte (c_in c2)) as [b|]; [destruct (negb _)|];
        first [exact (sameV_trans _ _ _ S2 (sameV_process_header _ c2)) | apply (sameV_trans _ _ _ S2); apply sameV_set_in; intros; reflexivity].
    + destruct (k_header (c_in c1)) as [h|].
      * destruct (Z.ltb _ _); [apply sameV_set_in; intros; reflexivity|apply sameV_refl].
      * match goal with |- sameV c1 (rq_set_in ?f (rq_tx_upd ?u c1)) => apply (sameV_trans _ (rq_tx_upd u c1)); [apply sameV_rq_tx_upd; intros; reflexivity|apply sameV_set_in; intros; reflexivity] end.
Qed.

Lemma req_headers_shape n : forall c, exists c1, sameV c c1 /\ hd_out c1 (REQ_HEADERS_loop cb g n c).
Proof.
  induction n as [|n IH]; intros c; cbn [REQ_HEADERS_loop];
    (destruct (Z.eqb (c_in_status c) c_HTP_STREAM_CLOSED);
     [exists (req_clear_buffer (rq_flush_header c)); split; [exact (sameV_trans _ _ _ (sameV_flush_header c) (sameV_clear_buffer _))|apply HD_closed]|]);
    (destruct (rq_copy_byte c) as [c0|] eqn:E0; [|exists c; split; [apply sameV_refl|apply HD_buffer]]);
    pose proof (sameV_copy_byte c c0 E0) as S0.
  - destruct (rq_next_is c0 LF).
    + destruct (header_line_shape c0) as (c1 & S1 & [[R1 R2]|(r & R1 & R2)]); destruct (rq_header_line cb g c0) as [ret c2]; cbn [fst snd] in *; subst.
      * exists (rq_fault c1). split; [exact (sameV_trans _ _ _ S0 (sameV_trans _ _ _ S1 (sameV_rq_fault c1)))|apply HD_buffer].
      * exists c1. split; [exact (sameV_trans _ _ _ S0 S1)|exact R2].
    + exists (rq_fault c0). split; [exact (sameV_trans _ _ _ S0 (sameV_rq_fault c0))|apply HD_buffer].
  - destruct (rq_next_is c0 LF).
    + destruct (header_line_shape c0) as (c1 & S1 & [[R1 R2]|(r & R1 & R2)]); destruct (rq_header_line cb g c0) as [ret c2]; cbn [fst snd] in *; subst.
      * destruct (IH c1) as (c3 & S3 & R3). exists c3. split; [exact (sameV_trans _ _ _ S0 (sameV_trans _ _ _ S1 S3))|exact R3].
      * exists c1. split; [exact (sameV_trans _ _ _ S0 S1)|exact R2].
    + destruct (IH c0) as (c3 & S3 & R3). exists c3. split; [exact (sameV_trans _ _ _ S0 S3)|exact R3].
Qed.

Lemma REQ_HEADERS_spec c rc c' m : REQ_HEADERS_fn cb g c = (rc, c') -> QJ H c m -> c_in_state c = REQ_HEADERS -> QPost H c m rc c'.
Proof.
  intros E Q Hst. unfold REQ_HEADERS_fn in E.
  destruct (req_headers_shape (k_len (c_in c) - k_read (c_in c)) c) as (c1 & S1 & R). rewrite E in R.
  pose proof (QJ_same c c1 m S1 Q) as Q1.
  assert (St1 : c_in_state c1 = REQ_HEADERS) by (change (lv_ist (lview c1) = REQ_HEADERS); rewrite (proj1 S1); exact Hst).
  apply (QPost_pre c c1 _ m _ S1). remember (rc, c') as r eqn:Er. destruct R.
  - injection Er as <- <-. exact (QPost_same c1 c1 m _ (sameV_refl c1) Q1).
  - injection Er as <- <-. exact (QPost_same c1 c1 m _ (sameV_refl c1) Q1).
  - exact (headers_open_spec c1 rc c' m Er Q1 St1).
  - exact (headers_closed_spec c1 rc c' m Er Q1 St1).
Qed.

(* htp_tx_state_request_complete(connp->in_tx) *)
Lemma rq_complete_spec c rc c' m :
  rq_request_complete cb g c = (rc, c') -> QJ H c m -> rngst (c_in_state c) = true -> qnone (c_in_state c) = true -> QPost H c m rc c'.
Proof.
  intros E Q Hr Hqn. unfold rq_request_complete, rq_with_tx in E. destruct (c_in_tx c) as [i|] eqn:Hi.
  2:{ injection E as <- <-. exact (QPost_same c c m _ (sameV_refl c) Q). }
  destruct (rq_facts c m i Q Hi) as (p & ps & ce & Hs & Hp & Hq & Hx). destruct (qst_rng _ _ _ Hr Hq) as [Hq2 _].
  apply (request_complete_spec cb g H i c rc c' m E Q Hi Hq2); [|exact Hqn]. apply (rq_unarmed c m Q). intros X. rewrite X in Hr. discriminate Hr.
Qed.

Lemma sameV_peek_copy_until stop n : forall c, sameV c (snd (rq_peek_copy_until stop n c)).
Proof.
  induction n as [|n IH]; intros c; cbn [rq_peek_copy_until]; pose proof (sameV_peek_next c) as S0; set (c0 := rq_peek_next c) in *;
    (destruct (match k_next_byte (c_in c0) with Some b => stop b | None => false end); [exact S0|]);
    (destruct (rq_copy_byte c0) as [c1|] eqn:E1; [|exact S0]); pose proof (sameV_trans _ _ _ S0 (sameV_copy_byte c0 c1 E1)) as S1.
  - exact (sameV_trans _ _ _ S1 (sameV_rq_fault c1)).
  - exact (sameV_trans _ _ _ S1 (IH c1)).
Qed.

(* htp_connp_REQ_CONNECT_PROBE_DATA *)
Lemma alive_tunnel : alive c_HTP_STREAM_TUNNEL. Proof. reflexivity. Qed.
Lemma REQ_CONNECT_PROBE_DATA_spec c rc c' m :
  REQ_CONNECT_PROBE_DATA_fn cb g c = (rc, c') -> QJ H c m -> c_in_state c = REQ_CONNECT_PROBE_DATA -> QPost H c m rc c'.
Proof.
  intros E Q Hst. unfold REQ_CONNECT_PROBE_DATA_fn in E.
  pose proof (sameV_peek_copy_until (fun b => (b =? LF)%N || (b =? 0)%N)%bool (k_len (c_in c) - k_read (c_in c)) c) as S1.
  destruct (rq_peek_copy_until _ _ c) as [[|] c1]; cbn [snd] in S1; [|injection E as <- <-; exact (QPost_same c c1 m _ S1 Q)].
  pose proof (sameV_consolidate c1) as S2. destruct (req_consolidate_data g c1) as [[rc2 c2] data]. cbn [fst snd] in S2.
  pose proof (sameV_trans _ _ _ S1 S2) as S12.
  destruct rc2; try (injection E as <- <-; exact (QPost_same c c2 m _ S12 Q)).
  destruct (rq_probe_method data) as [mstart pos].
  pose proof (QJ_same c c2 m S12 Q) as Q2.
  assert (St2 : c_in_state c2 = REQ_CONNECT_PROBE_DATA) by (change (lv_ist (lview c2) = REQ_CONNECT_PROBE_DATA); rewrite (proj1 S12); exact Hst).
  apply (QPost_pre c c2 _ m _ S12).
  destruct (negb _).
  - apply (rq_complete_spec c2 rc c' m E Q2); rewrite St2; reflexivity.
  - injection E as <- <-. destruct Q2 as (HM & HC & HR). exists m.
    split; [exact HM|]. split; [apply (Core_ext None None (lview c2)); try reflexivity; exact HC|]. split; [|split].
    + intros R. apply (RS_same_out (lview c2)); try reflexivity. exact R.
    + intros _. exact alive_tunnel.
    + intros _. apply (RQ_same_in (lview c2)); try reflexivity. exact HR.
Qed.

(* htp_connp_REQ_FINALIZE *)
Lemma finalize_scan_same c : sameV c (match rq_finalize_scan c with RF_complete x | RF_buffer x | RF_probe x => x end).
Proof.
  unfold rq_finalize_scan. destruct (Z.eqb _ _); [apply sameV_refl|].
  pose proof (sameV_peek_next c) as S0. set (c0 := rq_peek_next c) in *.
  destruct (k_next_byte (c_in c0)) as [b|]; [|exact S0].
  destruct (_ || _)%bool; [|exact S0].
  pose proof (sameV_peek_copy_until (fun b => (b =? LF)%N) (k_len (c_in c0) - k_read (c_in c0)) c0) as S1.
  destruct (rq_peek_copy_until _ _ c0) as [[|] c1]; exact (sameV_trans _ _ _ S0 S1).
Qed.

Lemma REQ_FINALIZE_spec c rc c' m : REQ_FINALIZE_fn cb g c = (rc, c') -> QJ H c m -> c_in_state c = REQ_FINALIZE -> QPost H c m rc c'.
Proof.
  intros E Q Hst. unfold REQ_FINALIZE_fn in E. pose proof (finalize_scan_same c) as S0.
  assert (Cmp : forall x, sameV c x -> rq_request_complete cb g x = (rc, c') -> QPost H c m rc c').
  { intros x Sx Ex. assert (Stx : c_in_state x = REQ_FINALIZE) by (change (lv_ist (lview x) = REQ_FINALIZE); rewrite (proj1 Sx); exact Hst).
    apply (QPost_pre c x _ m _ Sx). apply (rq_complete_spec x rc c' m Ex (QJ_same c x m Sx Q)); rewrite Stx; reflexivity. }
  destruct (rq_finalize_scan c) as [c0|c0|c0].
  - exact (Cmp c0 S0 E).
  - injection E as <- <-. exact (QPost_same c c0 m _ S0 Q).
  - pose proof (sameV_consolidate c0) as S1. destruct (req_consolidate_data g c0) as [[rc1 c1] data]. cbn [fst snd] in S1.
    pose proof (sameV_trans _ _ _ S0 S1) as S01.
    destruct rc1; try (injection E as <- <-; exact (QPost_same c c1 m _ S01 Q)).
    destruct data as [|b0 data0]; [exact (Cmp c1 S01 E)|]. set (data := b0 :: data0) in *.
    destruct (rq_probe_method data) as [mstart pos].
    match type of E with (if ?k then _ else _) = _ => destruct k end.
    { match type of E with rq_request_complete cb g ?x = _ => apply (Cmp x); [|exact E]; apply (sameV_trans _ _ _ S01); split; reflexivity end. }
    match type of E with context [if ?k then c1 <| c_in_body_data_left := 1%Z |> else c1] =>
      set (c2 := if k then c1 <| c_in_body_data_left := 1%Z |> else c1) in E;
      assert (S2 : sameV c c2) by (subst c2; destruct k; [exact (sameV_trans _ _ _ S01 ltac:(split; reflexivity))|exact S01]) end.
    match type of E with (match ?al with Some _ => _ | None => _ end) = _ => 
      assert (AL : match al with Some (x, _) => sameV c x | None => True end);
      [|destruct al as [[c4 data4]|]; [|injection E as <- <-; exact (QPost_same c c2 m _ S2 Q)]] end.
    { destruct (rq_next_is c2 LF); [|exact S2]. destruct (rq_copy_byte c2) as [c3|] eqn:E3; [|exact I].
      pose proof (sameV_trans _ _ _ S2 (sameV_copy_byte c2 c3 E3)) as S3. pose proof (sameV_consolidate c3) as S4.
      destruct (req_consolidate_data g c3) as [[rc4 c4] d2]. cbn [fst snd] in S4. destruct rc4; exact (sameV_trans _ _ _ S3 S4). }
    destruct (rq_with_tx (fun i => tx_req_process_body_data_ex cb i (Some data4) 0) c4) as [rc5 c5] eqn:E5. injection E as <- <-.
    apply (QPost_pre c c4 _ m _ AL). pose proof (QJ_same c c4 m AL Q) as Q4.
    assert (Hr4 : rngst (c_in_state c4) = true) by (change (c_in_state c4) with (lv_ist (lview c4)); rewrite (proj1 AL); change (rngst (c_in_state c) = true); rewrite Hst; reflexivity).
    destruct (req_body_ex_spec (Some data4) 0 c4 rc5 c5 m E5 Q4 Hr4) as (m' & Q5 & V5 & _ & F5).
    pose proof (sameV_clear_buffer c5) as S6.
    apply (QPost_intro c4 _ m m' rc5 (QJ_same c5 _ m' S6 Q5)); [rewrite (proj1 S6); exact F5|rewrite (proj1 S6), V5; reflexivity].
Qed.

(* htp_connp_REQ_IDLE *)
Lemma REQ_IDLE_spec c rc c' m : REQ_IDLE_fn cb g c = (rc, c') -> QJ H c m -> c_in_state c = REQ_IDLE -> QPost H c m rc c'.
Proof.
  intros E Q Hst. pose proof Q as (HM & HC & HR). unfold REQ_IDLE_fn in E.
  destruct (rq_at_end c); [injection E as <- <-; exact (QPost_same c c m _ (sameV_refl c) Q)|].
  assert (Hu : lv_ih (lview c) = None) by (apply (rq_unarmed c m Q); rewrite Hst; discriminate).
  destruct (connp_tx_create g c) as [o c1] eqn:E1. destruct (tx_create_spec g c o c1 E1) as (L1 & [[-> V1]|[-> V1]]).
  - injection E as <- <-. apply (QPost_mk c _ m m ST_ERROR); [change (MS (levs c1 ++ H) m); rewrite L1; exact HM| | |rewrite <- V1; reflexivity|intros X; destruct (not_okrc_error X)].
    + apply (Core_ext None None ((lview c1) <| lv_itx := None |>)); try reflexivity. apply Core_itx_none. rewrite V1. exact HC.
    + intros R. apply (RS_same_out (lview c)); try (rewrite <- V1; reflexivity). exact R.
  - set (i := vnid (lview c)) in *.
    assert (HC1 : Core None None (lview c1) m) by (rewrite V1; apply Core_create; exact HC).
    assert (Hs1 : vslot (lview c1) i = Some x_new) by (rewrite V1, vslot_create; unfold i; rewrite Nat.eqb_refl; reflexivity).
    assert (Hm : m i = lc0) by (apply (co_fresh _ _ _ _ HC); unfold i; lia).
    assert (Hi1 : c_in_tx c1 = Some i) by (change (lv_itx (lview c1) = Some i); rewrite V1; reflexivity).
    assert (HM1 : MS (levs c1 ++ H) m) by (rewrite L1; exact HM).
    destruct (request_start_spec cb H i c1 rc c' m _ _ _ E HM1 HC1 Hi1 Hs1 ltac:(discriminate) ltac:(rewrite Hm; reflexivity)) as (m' & A & B & R & Qm & Hq1 & Vok & Vno).
    assert (RSf : forall v', (RS (lview c1) m' -> RS v' m') -> RS (lview c) m -> RS v' m').
    { intros v' F Rs. apply F. rewrite V1. exact (RS_qmv i _ m m' Qm (RS_create _ m HC Rs)). }
    destruct R as [-> | [-> | ->]].
    + pose proof (Vok eq_refl) as V'. exists m'. split; [exact A|]. split; [exact B|]. split; [|split].
      * apply RSf. intros Rs. rewrite V'. apply RS_setp. apply (RS_same_out (lview c1)); try reflexivity. exact Rs.
      * change (alive (lv_os (lview c)) -> alive (lv_os (lview c'))). rewrite V'.
        destruct (v_map_fields i (xsetp c_HTP_REQUEST_LINE) ((lview c1) <| lv_ist := REQ_LINE |>)) as (_ & X & _). rewrite X.
        change (lv_os ((lview c1) <| lv_ist := REQ_LINE |>)) with (lv_os (lview c1)). rewrite V1. tauto.
      * intros _. rewrite V'. set (v1 := (lview c1) <| lv_ist := REQ_LINE |>).
        destruct (v_map_fields i (xsetp c_HTP_REQUEST_LINE) v1) as (_ & _ & X3 & _ & X5 & _ & X7 & _ & X9 & _).
        constructor.
        -- intros j Hj. rewrite X5 in Hj. change (c_in_tx c1 = Some j) in Hj. assert (j = i) by congruence. subst j.
           exists c_HTP_REQUEST_LINE, c_HTP_RESPONSE_NOT_STARTED, 0%Z.
           split; [rewrite vslot_map; fold i; rewrite Nat.eqb_refl; change (vslot v1 i) with (vslot (lview c1) i); rewrite Hs1; reflexivity|].
           split; [discriminate|]. rewrite X3, X9. change (lv_ist v1) with REQ_LINE. cbn [qst q_expect]. rewrite Hq1.
           split; [lia|]. intros _. change (lv_icl v1) with (lv_icl (lview c1)). rewrite V1. reflexivity.
        -- intros h Hh. rewrite X7 in Hh. change (lv_ih (lview c1) = Some h) in Hh. rewrite V1 in Hh. change (lv_ih (lview c) = Some h) in Hh. congruence.
        -- intros Hn. rewrite X5 in Hn. change (c_in_tx c1 = None) in Hn. congruence.
    + exists m'. split; [exact A|]. split; [exact B|]. split; [apply RSf; rewrite (Vno ltac:(discriminate)); tauto|].
      split; [change (alive (lv_os (lview c)) -> alive (lv_os (lview c'))); rewrite (Vno ltac:(discriminate)), V1; tauto|intros X; destruct (not_okrc_stop X)].
    + exists m'. split; [exact A|]. split; [exact B|]. split; [apply RSf; rewrite (Vno ltac:(discriminate)); tauto|].
      split; [change (alive (lv_os (lview c)) -> alive (lv_os (lview c'))); rewrite (Vno ltac:(discriminate)), V1; tauto|intros X; destruct (not_okrc_error X)].
Qed.

(* ------------------------------------------------------------------------------------------------ *)
(* 3. the dispatcher, the state-change hook, the exit path, the loop *)
Lemma rq_state_fn_spec s c rc c' m : rq_state_fn cb g s c = (rc, c') -> QJ H c m -> c_in_state c = s -> QPost H c m rc c'.
Proof.
  intros E Q Hst. destruct s; cbn [rq_state_fn] in E.
  - exact (REQ_IDLE_spec c rc c' m E Q Hst).
  - exact (REQ_LINE_spec c rc c' m E Q Hst).
  - exact (REQ_PROTOCOL_spec c rc c' m E Q Hst).
  - exact (REQ_HEADERS_spec c rc c' m E Q Hst).
  - exact (REQ_CONNECT_CHECK_spec c rc c' m E Q Hst).
  - exact (REQ_CONNECT_WAIT_RESPONSE_spec c rc c' m E Q Hst).
  - exact (REQ_CONNECT_PROBE_DATA_spec c rc c' m E Q Hst).
  - exact (REQ_BODY_DETERMINE_spec c rc c' m E Q Hst).
  - exact (REQ_BODY_IDENTITY_spec c rc c' m E Q Hst).
  - exact (REQ_BODY_CHUNKED_LENGTH_spec c rc c' m E Q Hst).
  - exact (REQ_BODY_CHUNKED_DATA_spec c rc c' m E Q Hst).
  - exact (REQ_BODY_CHUNKED_DATA_END_spec c rc c' m E Q Hst).
  - exact (REQ_FINALIZE_spec c rc c' m E Q Hst).
  - exact (REQ_IGNORE_spec c rc c' m E Q).
Qed.

(* htp_connp_req_receiver_set *)
Lemma req_receiver_set_spec h c rc c' m i :
  req_receiver_set cb h c = (rc, c') -> QJ H c m -> (h = 3 \/ h = 7) -> c_in_tx c = Some i -> c_in_state c = REQ_HEADERS -> need_q h <= lc_rq (m i) ->
  QJ H c' m /\ lview c' = (lview c) <| lv_ih := Some h |> /\ rc3 rc.
Proof.
  intros E Q Hh Hi Hst Hn. unfold req_receiver_set in E.
  destruct (req_receiver_finalize_clear cb c) as [rc1 c1] eqn:E1. injection E as <- <-.
  destruct (req_fin_clear cb H c rc1 c1 m E1 Q) as ((A & B & R) & V & Rc).
  match goal with |- context [rq_set_in ?f c1] => set (c2 := rq_set_in f c1) end.
  assert (V2 : lview c2 = (lview c) <| lv_ih := Some h |>) by (transitivity ((lview c1) <| lv_ih := Some h |>); [reflexivity|rewrite V; reflexivity]).
  split; [|split; [exact V2|exact Rc]].
  split; [exact A|]. rewrite V2. split.
  - apply (Core_ext None None (lview c1)); try (rewrite V; reflexivity). exact B.
  - rewrite V in R. destruct R as [H1 H2 H3]. constructor.
    + intros k Hk. exact (H1 k Hk).
    + intros h' Hh'. cbn in Hh'. injection Hh' as <-. split; [exact Hh|]. split; [exact Hst|]. exists i. split; [exact Hi|exact Hn].
    + exact H3.
Qed.

(* htp_req_handle_state_change *)
Lemma req_handle_state_change_spec c rc c' m :
  req_handle_state_change cb c = (rc, c') -> QJ H c m ->
  QJ H c' m /\ rc3 rc /\ lv_os (lview c') = lv_os (lview c) /\ lv_ost (lview c') = lv_ost (lview c) /\ lv_otx (lview c') = lv_otx (lview c) /\
  lv_oh (lview c') = lv_oh (lview c) /\ lv_txs (lview c') = lv_txs (lview c) /\ lv_sh (lview c') = lv_sh (lview c) /\
  lv_is (lview c') = lv_is (lview c) /\ lv_ist (lview c') = lv_ist (lview c).
Proof.
  intros E Q. unfold req_handle_state_change in E.
  assert (Same : forall x, sameV c x -> QJ H x m /\ rc3 ST_OK /\ lv_os (lview x) = lv_os (lview c) /\ lv_ost (lview x) = lv_ost (lview c) /\ lv_otx (lview x) = lv_otx (lview c) /\
            lv_oh (lview x) = lv_oh (lview c) /\ lv_txs (lview x) = lv_txs (lview c) /\ lv_sh (lview x) = lv_sh (lview c) /\
            lv_is (lview x) = lv_is (lview c) /\ lv_ist (lview x) = lv_ist (lview c)).
  { intros x Sx. split; [exact (QJ_same c x m Sx Q)|]. split; [left; reflexivity|]. rewrite (proj1 Sx). repeat split. }
  destruct (match c_in_state_previous c with Some s => req_state_eqb s (c_in_state c) | None => false end).
  { injection E as <- <-. exact (Same c (sameV_refl c)). }
  assert (Fin : forall rc1 c1, QJ H c1 m -> rc3 rc1 -> (exists ho, lview c1 = (lview c) <| lv_ih := ho |>) ->
            (match rc1 with ST_OK => (ST_OK, c1 <| c_in_state_previous := Some (c_in_state c1) |>) | _ => (rc1, c1) end) = (rc, c') ->
            QJ H c' m /\ rc3 rc /\ lv_os (lview c') = lv_os (lview c) /\ lv_ost (lview c') = lv_ost (lview c) /\ lv_otx (lview c') = lv_otx (lview c) /\
            lv_oh (lview c') = lv_oh (lview c) /\ lv_txs (lview c') = lv_txs (lview c) /\ lv_sh (lview c') = lv_sh (lview c) /\
            lv_is (lview c') = lv_is (lview c) /\ lv_ist (lview c') = lv_ist (lview c)).
  { intros rc1 c1 Q1 R1 (ho & V1) E1.
    assert (X : c' = c1 \/ sameV c1 c') by (destruct rc1; injection E1 as <- <-; [right; split; reflexivity|left; reflexivity..]).
    assert (Rr : rc = rc1) by (destruct rc1; injection E1 as <- <-; reflexivity). subst rc.
    assert (V' : lview c' = (lview c) <| lv_ih := ho |>) by (destruct X as [->|[X _]]; [exact V1|rewrite X; exact V1]).
    split; [destruct X as [->|X]; [exact Q1|exact (QJ_same c1 c' m X Q1)]|]. split; [exact R1|]. rewrite V'. repeat split. }
  destruct (req_state_eqb (c_in_state c) REQ_HEADERS) eqn:Eh.
  2:{ apply (Fin ST_OK c Q); [left; reflexivity|exists (lv_ih (lview c)); destruct (lview c); reflexivity|exact E]. }
  assert (Hst : c_in_state c = REQ_HEADERS) by (destruct (c_in_state c); try discriminate Eh; reflexivity).
  destruct (c_in_tx c) as [i|] eqn:Hi.
  2:{ exfalso. destruct Q as (_ & _ & HR). pose proof (rq_none _ _ HR Hi) as X. change (lv_ist (lview c)) with (c_in_state c) in X. rewrite Hst in X. discriminate X. }
  destruct (rq_facts c m i Q Hi) as (p & ps & ce & Hs & Hp & Hq & Hx). rewrite Hst in Hq. cbn [qst] in Hq.
  destruct (vslot_tx c i _ Hs) as (t0 & Ht0 & Hv0).
  assert (Ep : t_request_progress (rq_tx c) = p) by (unfold rq_tx, in_txi; rewrite Hi, (tx_get_live c i t0 Ht0); unfold txv in Hv0; congruence).
  cbv zeta in E. rewrite Ep in E.
  destruct (Z.eqb p c_HTP_REQUEST_HEADERS) eqn:E1.
  - apply Z.eqb_eq in E1. subst p.
    destruct (req_receiver_set cb H_REQUEST_HEADER_DATA c) as [rc1 c1] eqn:E2.
    destruct (req_receiver_set_spec H_REQUEST_HEADER_DATA c rc1 c1 m i E2 Q (or_introl eq_refl) Hi Hst) as (Q1 & V1 & R1).
    { destruct Hq as [[_ X]|[X _]]; [unfold need_q; cbn; lia|discriminate X]. }
    apply (Fin rc1 c1 Q1 R1); [eexists; exact V1|exact E].
  - destruct (Z.eqb p c_HTP_REQUEST_TRAILER) eqn:E2'.
    + apply Z.eqb_eq in E2'. subst p.
      destruct (req_receiver_set cb H_REQUEST_TRAILER_DATA c) as [rc1 c1] eqn:E2.
      destruct (req_receiver_set_spec H_REQUEST_TRAILER_DATA c rc1 c1 m i E2 Q (or_intror eq_refl) Hi Hst) as (Q1 & V1 & R1).
      { destruct Hq as [[X _]|[_ X]]; [discriminate X|unfold need_q; cbn; lia]. }
      apply (Fin rc1 c1 Q1 R1); [eexists; exact V1|exact E].
    + apply (Fin ST_OK c Q); [left; reflexivity|exists (lv_ih (lview c)); destruct (lview c); reflexivity|exact E].
Qed.

(* the loop invariant (a: the response stream was alive when the call started) and what holds when the call returns *)
Definition QL (a : Prop) (c : connp) (m : nat -> lc) : Prop := QJ H c m /\ (a -> alive (c_out_status c) /\ RS (lview c) m).
Definition QEnd (a : Prop) (c : connp) : Prop :=
  exists m, MS (levs c ++ H) m /\ Core None None (lview c) m /\ (alive (c_in_status c) -> RQ (lview c) m) /\ (a -> alive (c_out_status c) /\ RS (lview c) m).

Lemma dead_stop : ~ alive c_HTP_STREAM_STOP. Proof. intros X. discriminate X. Qed.
Lemma dead_error : ~ alive c_HTP_STREAM_ERROR. Proof. intros X. discriminate X. Qed.

(* setting in_status only *)
Lemma QEnd_status (a : Prop) c m s :
  MS (levs c ++ H) m -> Core None None (lview c) m -> (alive s -> RQ (lview c) m) -> (a -> alive (c_out_status c) /\ RS (lview c) m) ->
  QEnd a (c <| c_in_status := s |>).
Proof.
  intros HM HC HR HS. exists m. split; [exact HM|]. split; [apply (Core_ext None None (lview c)); try reflexivity; exact HC|]. split.
  - intros A. apply (RQ_same_in (lview c)); try reflexivity. exact (HR A).
  - intros X. destruct (HS X) as [A R]. split; [exact A|]. apply (RS_same_out (lview c)); try reflexivity. exact R.
Qed.

Lemma rq_exit_spec (a : Prop) rc c m :
  MS (levs c ++ H) m -> Core None None (lview c) m -> (okrc rc -> RQ (lview c) m) -> (a -> alive (c_out_status c) /\ RS (lview c) m) ->
  QEnd a (fst (rq_exit cb g rc c)).
Proof.
  intros HM HC HR HS. unfold rq_exit.
  assert (Dead : forall s, ~ alive s -> QEnd a (c <| c_in_status := s |>)).
  { intros s D. apply (QEnd_status a c m s HM HC); [intros X; contradiction|exact HS]. }
  assert (Buf : forall (withbuf : bool), okrc rc ->
            QEnd a (fst (let '(_, c) := req_receiver_send_data cb false c in
                         let '(brc, c) := (if withbuf then req_buffer g c else (ST_OK, c)) in
                         match brc with
                         | ST_OK => (c <| c_in_status := c_HTP_STREAM_DATA |>, c_HTP_STREAM_DATA)
                         | _ => (c <| c_in_status := c_HTP_STREAM_ERROR |>, c_HTP_STREAM_ERROR)
                         end))).
  { intros withbuf Ok. destruct (req_receiver_send_data cb false c) as [rc1 c1] eqn:E1.
    destruct (req_send cb H false c rc1 c1 m E1 (conj HM (conj HC (HR Ok)))) as ((A1 & B1 & R1) & V1 & _).
    assert (S2 : exists brc c2, (if withbuf then req_buffer g c1 else (ST_OK, c1)) = (brc, c2) /\ sameV c1 c2).
    { destruct withbuf; [|exists ST_OK, c1; split; [reflexivity|apply sameV_refl]].
      pose proof (sameV_req_buffer c1) as S. destruct (req_buffer g c1) as [brc c2]. exists brc, c2. split; [reflexivity|exact S]. }
    destruct S2 as (brc & c2 & -> & S2).
    assert (HS2 : a -> alive (c_out_status c2) /\ RS (lview c2) m).
    { intros X. change (alive (lv_os (lview c2)) /\ RS (lview c2) m). rewrite (proj1 S2), V1. exact (HS X). }
    assert (HM2 : MS (levs c2 ++ H) m) by (rewrite (proj2 S2); exact A1).
    assert (HC2 : Core None None (lview c2) m) by (rewrite (proj1 S2); exact B1).
    assert (HR2 : RQ (lview c2) m) by (rewrite (proj1 S2); exact R1).
    destruct brc; cbn [fst]; apply (QEnd_status a c2 m _ HM2 HC2); try exact HS2; intros _; exact HR2. }
  destruct rc; cbn [fst].
  - apply Dead. exact dead_error.
  - apply Dead. exact dead_error.
  - apply Dead. exact dead_error.
  - exact (Buf false ltac:(unfold okrc; tauto)).
  - destruct (rq_at_end c); cbn [fst]; apply (QEnd_status a c m _ HM HC); try exact HS; intros _; apply HR; unfold okrc; tauto.
  - apply Dead. exact dead_stop.
  - exact (Buf true ltac:(unfold okrc; tauto)).
Qed.

Lemma QEnd_of_QL (a : Prop) c m : QL a c m -> QEnd a c.
Proof. intros ((HM & HC & HR) & HS). exists m. split; [exact HM|]. split; [exact HC|]. split; [intros _; exact HR|exact HS]. Qed.

(* one pass of the for(;;) body *)
Lemma rq_iter_spec (a : Prop) gap c m :
  QL a c m -> match rq_iter cb g gap c with inl r => QEnd a (fst r) | inr c' => exists m', QL a c' m' end.
Proof.
  intros (Q & HS). unfold rq_iter.
  (* what is dispatched *)
  assert (Disp : forall rc c1, QPost H c m rc c1 ->
            match (match rc with
                   | ST_OK => if Z.eqb (c_in_status c1) c_HTP_STREAM_TUNNEL then inl (c1, c_HTP_STREAM_TUNNEL)
                              else match req_handle_state_change cb c1 with
                                   | (ST_OK, c) => inr c
                                   | (rc, c) => inl (rq_exit cb g rc c)
                                   end
                   | _ => inl (rq_exit cb g rc c1)
                   end) with inl r => QEnd a (fst r) | inr c' => exists m', QL a c' m' end).
  { intros rc c1 (m1 & A1 & B1 & F1 & G1 & R1).
    assert (HS1 : a -> alive (c_out_status c1) /\ RS (lview c1) m1) by (intros X; destruct (HS X) as [Y Z]; split; [exact (G1 Y)|exact (F1 Z)]).
    destruct rc; try exact (rq_exit_spec a _ c1 m1 A1 B1 R1 HS1).
    pose proof (R1 ltac:(unfold okrc; tauto)) as RQ1.
    destruct (Z.eqb (c_in_status c1) c_HTP_STREAM_TUNNEL); [cbn [fst]; exact (QEnd_of_QL a c1 m1 (conj (conj A1 (conj B1 RQ1)) HS1))|].
    destruct (req_handle_state_change cb c1) as [rc2 c2] eqn:E2.
    destruct (req_handle_state_change_spec c1 rc2 c2 m1 E2 (conj A1 (conj B1 RQ1))) as (Q2 & R2 & X1 & X2 & X3 & X4 & X5 & X6 & _).
    assert (HS2 : a -> alive (c_out_status c2) /\ RS (lview c2) m1).
    { intros X. destruct (HS1 X) as [Y Z]. split; [change (alive (lv_os (lview c2))); rewrite X1; exact Y|]. apply (RS_same_out (lview c1)); assumption. }
    destruct Q2 as (A2 & B2 & RQ2).
    destruct R2 as [-> | [-> | ->]].
    - exists m1. split; [split; [exact A2|split; [exact B2|exact RQ2]]|exact HS2].
    - apply (rq_exit_spec a ST_STOP c2 m1 A2 B2); [intros _; exact RQ2|exact HS2].
    - apply (rq_exit_spec a ST_ERROR c2 m1 A2 B2); [intros _; exact RQ2|exact HS2]. }
  set (s := c_in_state c).
  destruct gap.
  - destruct (req_state_eqb s REQ_BODY_IDENTITY || req_state_eqb s REQ_IGNORE_DATA_AFTER_HTTP_0_9)%bool.
    + destruct (rq_state_fn cb g s c) as [rc c1] eqn:E1. exact (Disp rc c1 (rq_state_fn_spec s c rc c1 m E1 Q eq_refl)).
    + destruct (req_state_eqb s REQ_FINALIZE) eqn:Ef.
      * assert (Hst : c_in_state c = REQ_FINALIZE) by (fold s; destruct s; try discriminate Ef; reflexivity).
        destruct (rq_request_complete cb g c) as [rc c1] eqn:E1.
        apply (Disp rc c1). apply (rq_complete_spec c rc c1 m E1 Q); rewrite Hst; reflexivity.
      * cbn [fst]. exact (QEnd_of_QL a c m (conj Q HS)).
  - destruct (rq_state_fn cb g s c) as [rc c1] eqn:E1. exact (Disp rc c1 (rq_state_fn_spec s c rc c1 m E1 Q eq_refl)).
Qed.

Lemma rq_loop_spec (a : Prop) fuel gap : forall c m, QL a c m -> QEnd a (fst (rq_loop cb g fuel gap c)).
Proof.
  induction fuel as [|f IH]; intros c m Q; cbn [rq_loop].
  - destruct Q as ((HM & HC & HR) & HS). cbn [fst].
    match goal with |- QEnd a (?x <| c_in_status := _ |>) => apply (QEnd_status a x m _) end; try assumption.
    intros X. destruct (dead_error X).
  - pose proof (rq_iter_spec a gap c m Q) as X. destruct (rq_iter cb g gap c) as [r|c1]; [exact X|].
    destruct X as (m1 & Q1). exact (IH c1 m1 Q1).
Qed.

(* ---- htp_connp_req_data ---- *)
(* what holds between API calls *)
Definition OI (c : connp) : Prop :=
  exists m, MS (levs c ++ H) m /\ Core None None (lview c) m /\ (alive (c_in_status c) -> RQ (lview c) m) /\ (alive (c_out_status c) -> RS (lview c) m).

Lemma alive_dec s : {alive s} + {lc_dead s = true}.
Proof. unfold alive. destruct (lc_dead s); [right|left]; reflexivity. Qed.

Lemma connp_req_data_spec data len c :
  OI c -> lc_req_ok cb g data len c = true -> OI (fst (connp_req_data cb g data len c)).
Proof.
  intros (m & HM & HC & HR & HS) Hok. unfold lc_req_ok in Hok.
  (* the request-side part is all that is needed when the response stream ends dead *)
  assert (Fin : forall c', QEnd (alive (c_out_status c)) c' -> c' = fst (connp_req_data cb g data len c) -> OI c').
  { intros c' (m' & A & B & R & S) Ec. exists m'. split; [exact A|]. split; [exact B|]. split; [exact R|].
    intros Al. destruct (alive_dec (c_out_status c)) as [Y|Y]; [exact (proj2 (S Y))|].
    rewrite Y in Hok. cbn [negb orb] in Hok. rewrite <- Ec in Hok. unfold alive in Al. congruence. }
  unfold connp_req_data in *.
  destruct (Z.eqb (c_in_status c) c_HTP_STREAM_STOP) eqn:E1; [exists m; auto|].
  destruct (Z.eqb (c_in_status c) c_HTP_STREAM_ERROR) eqn:E2; [exists m; auto|].
  assert (Al : alive (c_in_status c)) by (unfold alive, lc_dead; rewrite E1, E2; reflexivity). specialize (HR Al).
  match goal with |- context [if ?b then (c <| c_in_status := c_HTP_STREAM_ERROR |>, _) else _] => destruct b end.
  { cbn [fst]. exists m. split; [exact HM|]. split; [apply (Core_ext None None (lview c)); try reflexivity; exact HC|]. split; [intros X; destruct (dead_error X)|].
    intros X. apply (RS_same_out (lview c)); try reflexivity. exact (HS X). }
  match goal with |- context [if ?b then (c, c_HTP_STREAM_CLOSED) else _] => destruct b end; [exists m; auto|].
  cbv zeta.
  match goal with |- context [rq_set_in ?f c] => pose proof (sameV_set_in f c ltac:(intros; reflexivity)) as S1; set (c1 := rq_set_in f c) in * end.
  match goal with |- context [Z.eqb (c_in_status ?cc) c_HTP_STREAM_TUNNEL] => assert (S2 : sameV c cc) by (apply (sameV_trans _ _ _ S1); split; reflexivity); set (c2 := cc) in * end.
  destruct (Z.eqb (c_in_status c2) c_HTP_STREAM_TUNNEL).
  { cbn [fst]. exists m. rewrite (proj1 S2), (proj2 S2). change (c_in_status c2) with (lv_is (lview c2)). change (c_out_status c2) with (lv_os (lview c2)).
    rewrite (proj1 S2). auto. }
  match goal with |- OI (fst (rq_loop cb g ?fu ?gp ?cc)) => set (c3 := cc) in *; apply (Fin (fst (rq_loop cb g fu gp c3))); [|reflexivity];
    apply (rq_loop_spec (alive (c_out_status c)) fu gp c3 m) end.
  assert (V3 : lview c3 = (lview c2) <| lv_os := lv_os (lview c3) |> /\ levs c3 = levs c2 /\ (alive (c_out_status c) -> alive (c_out_status c3))).
  { subst c3. destruct (Z.eqb (c_out_status c2) c_HTP_STREAM_DATA_OTHER); [split; [reflexivity|split; [reflexivity|intros _; reflexivity]]|].
    split; [destruct (lview c2); reflexivity|]. split; [reflexivity|]. change (c_out_status c2) with (lv_os (lview c2)). rewrite (proj1 S2). tauto. }
  destruct V3 as (V3 & L3 & A3).
  split; [split; [rewrite L3, (proj2 S2); exact HM|split]|].
  - rewrite V3. apply (Core_ext None None (lview c2)); try reflexivity. rewrite (proj1 S2). exact HC.
  - rewrite V3. apply (RQ_same_in (lview c2)); try reflexivity. rewrite (proj1 S2). exact HR.
  - intros X. split; [exact (A3 X)|]. rewrite V3. apply (RS_same_out (lview c2)); try reflexivity. rewrite (proj1 S2). exact (HS X).
Qed.
End Req.
