(* C04, Stage C: the two sides of the parser under interleaving.  A call of htp_connp_res_data leaves the request side alone (the
   invariants of PPairC1..C8.v say so) and rewrites one slot of the transaction list; a call of htp_connp_req_data leaves the
   response side alone (PPairCq.v, PPairC7.v) and appends transactions.  Here: each side's between-calls description survives a
   call of the other side (re-targeted to the new transaction list), and the joint invariant with its two steps. *)
Require Import Htp.Model.Base Htp.Model.MBstr Htp.Model.MConnTypes Htp.Model.MTxCommon Htp.Model.MReqLine Htp.Model.MReqUri Htp.Model.MTxReq Htp.Model.MResLine Htp.Model.MTxRes.
Require Import Htp.Model.MReq Htp.Model.MRes Htp.Model.MConnp.
Require Import Htp.Spec.SWire Htp.Proof.PWire Htp.Proof.PWireHdr Htp.Proof.PWireBlock Htp.Proof.PWireConn Htp.Proof.PWireExch.
Require Import Htp.Proof.PWireRun Htp.Proof.PWirePres Htp.Proof.PWireGlue Htp.Proof.PSeg Htp.Proof.PSegLine Htp.Proof.PSegHdr Htp.Proof.PSegGen Htp.Proof.PSegRun.
Require Import Htp.Proof.PSegFold Htp.Proof.PSegPipe Htp.Proof.PSegRes Htp.Proof.PSegResLine Htp.Proof.PSegResHdr Htp.Proof.PSegResGen Htp.Proof.PSegResRun Htp.Proof.PSegResReq Htp.Proof.PSegResThm.
Require Import Htp.Proof.PPairA Htp.Proof.PPairB Htp.Proof.PPairReq Htp.Proof.PPairCq Htp.Proof.PPairCr.
Require Import Htp.Proof.PPairC1 Htp.Proof.PPairC2 Htp.Proof.PPairC3 Htp.Proof.PPairC4 Htp.Proof.PPairC5 Htp.Proof.PPairC6 Htp.Proof.PPairC7 Htp.Proof.PPairC8.

(* ================= the request side after a call of htp_connp_res_data ================= *)
Lemma pk_forget_fields k1 k2 : forget_one k1 = forget_one k2 -> k_buf k1 = k_buf k2 /\ k_header k1 = k_header k2 /\ k_receiver_hook k1 = k_receiver_hook k2.
Proof.
  intros E. assert (F : forall k, k_buf (forget_one k) = k_buf k /\ k_header (forget_one k) = k_header k /\ k_receiver_hook (forget_one k) = k_receiver_hook k)
    by (intros k; unfold forget_one; destruct (k_data k); repeat split).
  destruct (F k1) as (A1 & A2 & A3). destruct (F k2) as (B1 & B2 & B3). rewrite <- A1, <- A2, <- A3, <- B1, <- B2, <- B3, E. repeat split.
Qed.
Lemma pp_tuple5 {A B C D E} (a a' : A) (b b' : B) (c c' : C) (d d' : D) (e e' : E) :
  (a, b, c, d, e) = (a', b', c', d', e') -> a = a' /\ b = b' /\ c = c' /\ d = d' /\ e = e'.
Proof. intros H. inversion H. repeat split. Qed.
(* what the request side sees of the parser *)
Record pk_same_in (c1 c2 : connp) : Prop := mk_pk_same_in {
  ks_status : c_in_status c2 = c_in_status c1;
  ks_state : c_in_state c2 = c_in_state c1;
  ks_prev : c_in_state_previous c2 = c_in_state_previous c1;
  ks_buf : k_buf (c_in c2) = k_buf (c_in c1);
  ks_hdr : k_header (c_in c2) = k_header (c_in c1);
  ks_rh : k_receiver_hook (c_in c2) = k_receiver_hook (c_in c1);
  ks_tx : c_in_tx c2 = c_in_tx c1;
  ks_shift : c_txs_shifted c2 = c_txs_shifted c1;
  ks_flags : c_conn_flags c2 = c_conn_flags c1;
  ks_onext : c_out_next_tx_index c2 = c_out_next_tx_index c1 }.
Lemma pk_same_in_E fl c1 c2 : pj_qin c2 = pj_qin c1 -> c_txs_shifted c2 = c_txs_shifted c1 -> pk_same_in (pc_E fl c1) (pc_E fl c2).
Proof.
  intros Eq Es. unfold pj_qin in Eq. destruct (pp_tuple5 _ _ _ _ _ _ _ _ _ _ Eq) as (E1 & E2 & E3 & E4 & E5).
  destruct (pk_forget_fields _ _ E4) as (F1 & F2 & F3).
  constructor; cbn [pc_E pq_S c_in_status c_in_state c_in_state_previous c_in c_in_tx c_txs_shifted c_conn_flags c_out_next_tx_index set]; cbn; try assumption; reflexivity.
Qed.

Lemma pk_imid_re done done' c1 c2 fl : sg_imid c1 done fl -> pk_same_in c1 c2 -> c_txs c2 = done' -> sg_imid c2 done' fl.
Proof.
  intros [A1 A2 A3 A4 A5 A6 A7 A8 A9 A10] [S1 S2 S3 S4 S5 S6 S7 S8 S9 S10] Et.
  constructor; rewrite ?S1, ?S2, ?S3, ?S4, ?S5, ?S6, ?S7, ?S8, ?S9, ?S10; assumption.
Qed.
Lemma pk_midw_re done done' c1 c2 p hdr st rh t : sg_midw (sg_pw done) c1 p hdr st rh t -> length done' = length done -> pk_same_in c1 c2 ->
  c_txs c2 = done' ++ [Some t] -> sg_midw (sg_pw done') c2 p hdr st rh t.
Proof.
  intros [A1 A2 A3 A4 A5 A6 A7 A8 A9 A10 A11] L [S1 S2 S3 S4 S5 S6 S7 S8 S9 S10] Et.
  cbn [w_done w_flags sg_pw] in *.
  constructor; cbn [w_done w_flags sg_pw]; rewrite ?S1, ?S2, ?S3, ?S4, ?S5, ?S6, ?S7, ?S8, ?S9, ?S10, ?L; assumption.
Qed.

Lemma pk_between_re g done done' rsd rs c1 c2 rw : pv_between g done rsd rs c1 rw -> length done' = length done -> pk_same_in c1 c2 ->
  (forall junk, c_txs c1 = done ++ junk -> c_txs c2 = done' ++ junk) -> pv_between g done' rsd rs c2 rw.
Proof.
  intros B L S Ht. destruct B as [Hm R Erw|r rs' p q Ers R Hm Hpq Hq Erw|r rs' p hdr t Ers R Hm Hl|r r' rs'' p q fl Ers R Hm Hpq Hq Hp Erw].
  - apply VB_idle; [|rewrite L; exact R|exact Erw]. rewrite L.
    apply (pk_imid_re done done' c1 c2 _ Hm S). specialize (Ht []). rewrite !app_nil_r in Ht. apply Ht. exact (im_txs _ _ _ Hm).
  - apply (VB_line _ _ _ _ _ _ r rs' p q Ers); [rewrite L; exact R| |exact Hpq|exact Hq|exact Erw]. rewrite L.
    apply (pk_midw_re done done' c1 c2 _ _ _ _ _ Hm L S). apply Ht. exact (mi_txs _ _ _ _ _ _ Hm).
  - apply (VB_hdrs _ _ _ _ _ _ r rs' p hdr t Ers); [rewrite L; exact R| |rewrite L; exact Hl].
    apply (pk_midw_re done done' c1 c2 _ _ _ _ _ Hm L S). apply Ht. exact (mi_txs _ _ _ _ _ _ Hm).
  - apply (VB_fin _ _ _ _ _ _ r r' rs'' p q fl Ers); [rewrite L; exact R| |exact Hpq|exact Hq|exact Hp|exact Erw]. rewrite L.
    apply (pk_midw_re done done' c1 c2 _ _ _ _ _ Hm L S). apply Ht. exact (mi_txs _ _ _ _ _ _ Hm).
Qed.

(* ================= the response side after a call of htp_connp_req_data ================= *)
Record pk_same_out (c1 c2 : connp) : Prop := mk_pk_same_out {
  ko_status : c_out_status c2 = c_out_status c1;
  ko_dead : pq_D c2 = pq_D c1;
  ko_tx : c_out_tx c2 = c_out_tx c1;
  ko_shift : c_txs_shifted c2 = c_txs_shifted c1 }.
Lemma pk_dead_fields c1 c2 : pq_D c2 = pq_D c1 ->
  c_out_state c2 = c_out_state c1 /\ c_out_state_previous c2 = c_out_state_previous c1 /\ c_out c2 = c_out c1 /\
  c_out_next_tx_index c2 = c_out_next_tx_index c1 /\ c_out_data_other_at_tx_end c2 = c_out_data_other_at_tx_end c1 /\
  c_out_body_data_left c2 = c_out_body_data_left c1.
Proof. unfold pq_D. intros H. inversion H. repeat split; assumption. Qed.

Lemma pk_mid_re w w' c1 c2 p hdr st rh t : pj_midw w c1 p hdr st rh t -> pk_same_out c1 c2 -> jw_pre w' = jw_pre w ->
  c_txs c2 = pj_txs w' t -> (c_in_status c2 =? c_HTP_STREAM_DATA_OTHER)%Z = false -> pj_qin c2 = jw_in w' -> pj_midw w' c2 p hdr st rh t.
Proof.
  intros [A1 A2 A3 A4 A5 A6 A7 A8 A9 A10 A11 A12 A13] [O1 O2 O3 O4] Ep Et Ei Eq.
  destruct (pk_dead_fields _ _ O2) as (D1 & D2 & D3 & D4 & D5 & D6).
  assert (Ek : pj_k w' = pj_k w) by (unfold pj_k; rewrite Ep; reflexivity).
  constructor; rewrite ?O1, ?D1, ?D2, ?D3, ?D4, ?D5, ?O3, ?O4, ?Ek; assumption.
Qed.
Lemma pk_rest_re c1 c2 txs txs' nx inn inn' : pj_rest c1 txs nx inn -> pk_same_out c1 c2 -> c_txs c2 = txs' -> pj_qin c2 = inn' -> pj_rest c2 txs' nx inn'.
Proof.
  intros [A1 A2 A3 A4 A5 A6 A7 A8 A9 A10] [O1 O2 O3 O4] Et Eq.
  destruct (pk_dead_fields _ _ O2) as (D1 & D2 & D3 & D4 & D5 & D6).
  constructor; rewrite ?O1, ?D1, ?D2, ?D3, ?D4, ?D5, ?O3, ?O4; assumption.
Qed.

(* the wire and the pending slots of the exchanges that have become ready *)
Lemma pk_wires_app es1 es2 : qp_wires (es1 ++ es2) = qp_wires es1 ++ qp_wires es2.
Proof. unfold qp_wires. rewrite map_app, concat_app. reflexivity. Qed.
Lemma pk_pend_app es1 es2 : qp_pend (es1 ++ es2) = qp_pend es1 ++ qp_pend es2.
Proof. unfold qp_pend. apply map_app. Qed.
Lemma pk_fafter_app tw z rem : sg_fafter (tw ++ z) rem = sg_fafter tw rem ++ z.
Proof. destruct rem as [|l r]; cbn [sg_fafter]; [reflexivity|]. rewrite <- !app_assoc. reflexivity. Qed.
Lemma pk_hlog_app g Tend tw hh hdr t p rw z : sr_hlog g Tend tw hh hdr t p rw -> sr_hlog g Tend (tw ++ z) hh hdr t p (rw ++ z).
Proof.
  intros (pend & tl & rem & q & ea & H1 & H2 & H3 & H4 & H5 & H6 & H7 & H8 & H9 & H10).
  exists pend, tl, rem, q, ea. split; [exact H1|]. split; [exact H2|]. split; [exact H3|]. split; [exact H4|]. split; [exact H5|]. split; [exact H6|]. split; [exact H7|].
  split; [rewrite H8, pk_fafter_app, <- app_assoc; reflexivity|]. split; [exact H9|exact H10].
Qed.

Section ReOut.
Variable g : cfg.
Variables (junk junk' : list (option tx)) (inn : pj_in).
Variables (c1 c2 : connp) (newes : list pp_ex).
Hypothesis So : pk_same_out c1 c2.
(* the transaction list: what precedes `junk` is kept, the transactions of the new exchanges and the new tail follow *)
Hypothesis Ht : forall X, c_txs c1 = X ++ junk -> c_txs c2 = X ++ qp_pend newes ++ junk'.
Hypothesis Hlive2 : (c_in_status c2 =? c_HTP_STREAM_DATA_OTHER)%Z = false.

Lemma pk_betw_re esd e es' rw :
  qp_betw g (w := qp_w junk inn esd es') (px_ps e) (px_st e) (px_rp e) (px_ls e) (px_body e) (px_t0 e) (qp_wires es') c1 rw ->
  qp_betw g (w := qp_w junk' (pj_qin c2) esd (es' ++ newes)) (px_ps e) (px_st e) (px_rp e) (px_ls e) (px_body e) (px_t0 e) (qp_wires (es' ++ newes)) c2 (rw ++ qp_wires newes).
Proof.
  intros B.
  assert (Hmid : forall p hdr st rh t, pj_midw (qp_w junk inn esd es') c1 p hdr st rh t -> pj_midw (qp_w junk' (pj_qin c2) esd (es' ++ newes)) c2 p hdr st rh t).
  { intros p hdr st rh t Hm. apply (pk_mid_re _ _ c1 c2 _ _ _ _ _ Hm So); [reflexivity| | |reflexivity].
    - unfold pj_txs. cbn [jw_pre jw_post qp_w]. rewrite pk_pend_app, <- app_assoc.
      pose proof (jm_txs _ _ _ _ _ _ Hm) as E. unfold pj_txs in E. cbn [jw_pre jw_post qp_w] in E.
      assert (E' : c_txs c1 = (qp_slots esd ++ Some t :: qp_pend es') ++ junk) by (rewrite E, <- app_assoc; reflexivity).
      rewrite (Ht _ E'), <- app_assoc. reflexivity.
    - exact Hlive2. }
  rewrite pk_wires_app.
  destruct B as [p q Hm Hpq Hq Erw|p hdr t Hm Hl|k Hk Hm Hl Erw].
  - apply (JW_line _ _ _ _ _ _ _ _ _ _ p q (Hmid _ _ _ _ _ Hm) Hpq Hq). rewrite Erw, <- !app_assoc. reflexivity.
  - apply (JW_hdrs _ _ _ _ _ _ _ _ _ _ p hdr t (Hmid _ _ _ _ _ Hm)). rewrite app_assoc. apply pk_hlog_app. exact Hl.
  - apply (JW_body _ _ _ _ _ _ _ _ _ _ k Hk (Hmid _ _ _ _ _ Hm)).
    + destruct (pk_dead_fields _ _ (ko_dead _ _ So)) as (_ & _ & _ & _ & _ & D6). rewrite D6. exact Hl.
    + rewrite Erw, <- app_assoc. reflexivity.
Qed.

Lemma pk_rbetween_re esd es rw :
  qp_between g junk inn esd es c1 rw -> qp_between g junk' (pj_qin c2) esd (es ++ newes) c2 (rw ++ qp_wires newes).
Proof.
  intros [Hr Erw|e es' Ees B|e e' es'' p q Ees Hm Hpq Hq Erw].
  - apply JB_idle; [|rewrite Erw, pk_wires_app; reflexivity].
    apply (pk_rest_re c1 c2 _ _ _ _ _ Hr So); [|reflexivity].
    assert (E' : c_txs c1 = (qp_slots esd ++ qp_pend es) ++ junk) by (rewrite (jy_txs _ _ _ _ Hr), <- app_assoc; reflexivity).
    rewrite (Ht _ E'), pk_pend_app, <- !app_assoc. reflexivity.
  - subst es. apply (JB_in _ _ _ _ _ _ _ e (es' ++ newes) eq_refl). apply pk_betw_re. exact B.
  - subst es. apply (JB_fin _ _ _ _ _ _ _ e e' (es'' ++ newes) p q eq_refl); [|exact Hpq|exact Hq|].
    + apply (pk_mid_re _ _ c1 c2 _ _ _ _ _ Hm So); [reflexivity| | |reflexivity].
      * pose proof (jm_txs _ _ _ _ _ _ Hm) as E. unfold pj_txs in E |- *. cbn [jw_pre jw_post qp_w] in E |- *.
        assert (E' : c_txs c1 = (qp_slots esd ++ Some (px_tpre e) :: qp_pend (e' :: es'')) ++ junk) by (rewrite E, <- app_assoc; reflexivity).
        rewrite (Ht _ E'). change (e' :: es'' ++ newes) with ((e' :: es'') ++ newes). rewrite pk_pend_app, <- !app_assoc. reflexivity.
      * exact Hlive2.
    + rewrite Erw. unfold px_bwt. rewrite pk_wires_app, <- !app_assoc. reflexivity.
Qed.
End ReOut.
