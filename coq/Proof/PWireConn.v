(* C02: the folding join of REQ_HEADERS / RES_HEADERS (one step of the line assembly), and Host -> hostname / port. *)
Require Import Htp.Model.Base Htp.Model.MBstr Htp.Model.MUri Htp.Model.MConnTypes Htp.Model.MTxCommon Htp.Model.MReqLine Htp.Model.MResLine.
Require Import Htp.Model.MReqUri Htp.Model.MTxReq Htp.Model.MReq.
Require Import Htp.Spec.SWire Htp.Proof.PWire Htp.Proof.PWireHdr Htp.Proof.PWireBlock.

(* ---------------------------------------------------------------- a continuation line is not a terminator *)
Definition wr_has_text (s : bytes) : bool := existsb (fun b => negb (c_isspace b)) s.

Lemma wr_forallb_existsb (s : bytes) : wr_has_text s = true -> forallb c_isspace s = false.
Proof.
  unfold wr_has_text. induction s as [|x s IH]; [discriminate|]. cbn [existsb forallb]. intros H. apply orb_prop in H. destruct H as [H|H].
  - apply negb_true_iff in H. rewrite H. reflexivity.
  - rewrite (IH H). apply andb_false_r.
Qed.

Lemma wr_cont_not_terminator pers cont e : wr_cont_ok cont = true -> wr_has_text cont = true -> wr_eol e = true ->
  htp_is_line_terminator pers (cont ++ e) false = false.
Proof.
  intros Hc Ht He. unfold htp_is_line_terminator, htp_is_line_whitespace.
  assert (Hw : forallb c_isspace (cont ++ e) = false).
  { rewrite forallb_app, (wr_forallb_existsb cont Ht). reflexivity. }
  rewrite Hw, andb_false_r.
  destruct cont as [|x cont]; [discriminate|]. cbn [wr_cont_ok] in Hc.
  destruct (wr_space_facts x) as (_ & F & _). destruct (F Hc) as (Sx & Cx & Lx & _).
  assert (He' : htp_is_line_empty ((x :: cont) ++ e) = false).
  { unfold htp_is_line_empty. cbn [app]. destruct (cont ++ e) as [|y [|z r]]; try reflexivity.
    - rewrite Cx, Lx. reflexivity.
    - rewrite Cx. reflexivity. }
  rewrite He'. cbn [app]. destruct (cont ++ e) as [|y [|z r]]; try reflexivity. destruct (htp_is_lws x && (y =? LF)%N); reflexivity.
Qed.

Lemma wr_cont_folded cont : wr_cont_ok cont = true -> htp_is_line_folded cont = 1%Z.
Proof.
  destruct cont as [|x cont]; [discriminate|]. cbn [wr_cont_ok htp_is_line_folded]. intros H.
  destruct (wr_space_facts x) as (_ & F & _). destruct (F H) as (_ & _ & _ & _ & _ & Fx). rewrite Fx. reflexivity.
Qed.

(* ---------------------------------------------------------------- (6) REQ_HEADERS: a folded line is appended verbatim to the pending header *)
Section Fold.
Variable cb : cb_oracle.
Variable g : cfg.

(* the cursor has just copied the LF of a continuation line `cont ++ e` that lies in the current chunk between the consume and
   read offsets; nothing is buffered; a header `h` is pending *)
Theorem wr_req_fold_step : forall c d cont e h,
  k_buf (c_in c) = None -> k_data (c_in c) = Some d -> (k_read (c_in c) <= length d)%nat ->
  firstn (k_read (c_in c) - k_consume (c_in c)) (skipn (k_consume (c_in c)) d) = cont ++ e ->
  wr_eol e = true -> wr_cont_ok cont = true -> wr_has_text cont = true -> forallb wr_value_byte cont = true ->
  k_header (c_in c) = Some h -> (Z.of_nat (length h) < c_HTP_MAX_HEADER_FOLDED)%Z ->
  rq_header_line cb g c = (None, req_clear_buffer (rq_set_in (fun k => k <| k_header := Some (h ++ cont) |>) c)).
Proof.
  intros c d cont e h Hb Hd Hr Hs He Hc Ht Hv Hh Hl.
  unfold rq_header_line, req_consolidate_data. rewrite Hb. unfold rq_slice. rewrite Hd.
  assert (L : (k_read (c_in c) <=? length d)%nat = true) by (apply Nat.leb_le; exact Hr). rewrite L, Hs.
  rewrite (wr_cont_not_terminator _ cont e Hc Ht He).
  assert (Hp : wr_last_plain cont).
  { apply wr_plain_last; [destruct cont; [discriminate|discriminate]|exact Hv]. }
  rewrite (wr_chomp_line cont e He Hp), (wr_cont_folded cont Hc). cbn [Z.eqb]. rewrite Hh.
  assert (Hlt : (Z.of_nat (length h) <? c_HTP_MAX_HEADER_FOLDED)%Z = true) by (apply Z.ltb_lt; exact Hl). rewrite Hlt. reflexivity.
Qed.
End Fold.

(* what the value of a folded field is: the pieces of lws1 ++ v ++ lws2 joined with nothing in between *)
Lemma wr_fold_join_concat (first : bytes) (rest : list bytes) : fold_left (fun h c => h ++ c) rest first = first ++ concat rest.
Proof. revert first. induction rest as [|p rest IH]; intros first; cbn [fold_left concat]; [rewrite app_nil_r; reflexivity|]. rewrite IH, app_assoc. reflexivity. Qed.

Theorem wr_folded_value_req : forall n lws1 v lws2 p0 rest,
  wr_wf_header n v = true -> wr_lws lws1 = true -> wr_lws lws2 = true -> concat (p0 :: rest) = lws1 ++ v ++ lws2 ->
  htp_parse_request_header_generic (fold_left (fun h c => h ++ c) rest (n ++ [58%N] ++ p0)) = (mkhdr n v 0%N, 0%N).
Proof.
  intros n lws1 v lws2 p0 rest W L1 L2 Hc. rewrite wr_fold_join_concat. cbn [concat] in Hc.
  replace ((n ++ [58%N] ++ p0) ++ concat rest) with (wr_ser_header n lws1 v lws2 ++ []).
  - apply wr_req_header_roundtrip; try assumption. reflexivity.
  - unfold wr_ser_header. rewrite app_nil_r, <- Hc, <- !app_assoc. reflexivity.
Qed.
Theorem wr_folded_value_res : forall n lws1 v lws2 p0 rest txflags,
  wr_wf_header n v = true -> wr_lws lws1 = true -> wr_lws lws2 = true -> concat (p0 :: rest) = lws1 ++ v ++ lws2 ->
  rs_parse_response_header (fold_left (fun h c => h ++ c) rest (n ++ [58%N] ++ p0)) txflags = (mkhdr n v 0%N, txflags).
Proof.
  intros n lws1 v lws2 p0 rest txflags W L1 L2 Hc. rewrite wr_fold_join_concat. cbn [concat] in Hc.
  replace ((n ++ [58%N] ++ p0) ++ concat rest) with (wr_ser_header n lws1 v lws2 ++ []).
  - apply wr_res_header_roundtrip; try assumption. reflexivity.
  - unfold wr_ser_header. rewrite app_nil_r, <- Hc, <- !app_assoc. reflexivity.
Qed.

(* ---------------------------------------------------------------- (7) Host: h[:port] *)
Definition wr_port_ok (p : bytes) : bool := wr_nonempty p && forallb wr_digit p.

Lemma wr_drop_while_head p (s : bytes) : match s with [] => True | x :: _ => p x = false end -> drop_while p s = s.
Proof. destruct s as [|x s]; [reflexivity|]. cbn. intros H. rewrite H. reflexivity. Qed.
Lemma wr_strip_right_id p (s : bytes) : match rev s with [] => True | x :: _ => p x = false end -> strip_right p s = s.
Proof. intros H. unfold strip_right. rewrite (wr_drop_while_head p (rev s) H). apply rev_involutive. Qed.
Lemma wr_mem_trim_id (s : bytes) :
  match s with [] => True | x :: _ => c_isspace x = false end -> match rev s with [] => True | x :: _ => c_isspace x = false end -> mem_trim s = s.
Proof. intros H1 H2. unfold mem_trim. rewrite (wr_drop_while_head _ s H1). apply wr_strip_right_id. exact H2. Qed.

Lemma wr_memchr_none c (s : bytes) : forallb (fun b => negb (b =? c)%N) s = true -> uri_memchr c s = None.
Proof. induction s as [|x s IH]; [reflexivity|]. cbn. intros H. apply andb_prop in H. destruct H as [H1 H2]. apply negb_true_iff in H1. rewrite H1, (IH H2). reflexivity. Qed.
Lemma wr_memchr_split c (a r : bytes) : forallb (fun b => negb (b =? c)%N) a = true -> uri_memchr c (a ++ c :: r) = Some (a, r).
Proof.
  induction a as [|x a IH]; cbn [app uri_memchr forallb]; intros H; [rewrite N.eqb_refl; reflexivity|].
  apply andb_prop in H. destruct H as [H1 H2]. apply negb_true_iff in H1. rewrite H1, (IH H2). reflexivity.
Qed.

Lemma wr_host_shape h : wr_host_ok h = true ->
  exists x r, h = x :: r /\ (x =? 91)%N = false /\ c_isspace x = false /\ forallb (fun b => negb (b =? 58)%N) h = true /\
              match rev h with [] => True | y :: _ => c_isspace y = false end.
Proof.
  unfold wr_host_ok. intros H. apply andb_prop in H. destruct H as [H1 H2]. destruct h as [|x r]; [discriminate|]. apply negb_true_iff in H2.
  exists x, r. split; [reflexivity|]. split; [exact H2|].
  assert (Hall : forall y, In y (x :: r) -> c_isspace y = false /\ (y =? 58)%N = false).
  { intros y Hy. rewrite forallb_forall in H1. specialize (H1 y Hy). unfold wr_host_byte in H1. apply andb_prop in H1. destruct H1 as [A B].
    apply negb_true_iff in A. apply negb_true_iff in B. split; assumption. }
  split; [apply Hall; left; reflexivity|]. split.
  - apply forallb_forall. intros y Hy. apply negb_true_iff. apply Hall. exact Hy.
  - destruct (rev (x :: r)) as [|y l] eqn:E; [exact I|]. apply Hall. apply in_rev. rewrite E. left. reflexivity.
Qed.

Theorem wr_hostport_noport : forall h, wr_host_ok h = true ->
  htp_parse_header_hostport h = (Some (to_lowercase h), (-1)%Z, negb (htp_validate_hostname (to_lowercase h))).
Proof.
  intros h W. destruct (wr_host_shape h W) as (x & r & E & Hx & Sx & Hc & Hl).
  unfold htp_parse_header_hostport, parse_hostport. rewrite wr_mem_trim_id; [|rewrite E; exact Sx|exact Hl].
  rewrite E at 1. unfold uri_LBR. rewrite Hx. unfold uri_COLON. rewrite (wr_memchr_none _ _ Hc). reflexivity.
Qed.

Lemma wr_digit_not_space b : wr_digit b = true -> c_isspace b = false. Proof. intros H. apply (wr_digit_facts b H). Qed.

Theorem wr_hostport_port : forall h p, wr_host_ok h = true -> wr_port_ok p = true ->
  htp_parse_header_hostport (h ++ [58%N] ++ p) = (Some h, fst (norm_port p), snd (norm_port p) || negb (htp_validate_hostname h)).
Proof.
  intros h p W Wp. destruct (wr_host_shape h W) as (x & r & E & Hx & Sx & Hc & Hl).
  unfold wr_port_ok in Wp. apply andb_prop in Wp. destruct Wp as [Wp0 Wp]. destruct p as [|p0 pr]; [discriminate|].
  unfold htp_parse_header_hostport, parse_hostport. rewrite wr_mem_trim_id.
  - rewrite E at 1. cbn [app]. unfold uri_LBR. rewrite Hx. unfold uri_COLON. cbn [app]. rewrite (wr_memchr_split _ _ _ Hc).
    unfold uri_parse_port, norm_port. destruct (uri_port_of_parsed _) as [v i]. rewrite (wr_strip_right_id _ h Hl). reflexivity.
  - rewrite E. cbn [app]. exact Sx.
  - rewrite !rev_app_distr. destruct (wr_last_split (p0 :: pr)) as (p' & z & Ep); [discriminate|]. rewrite Ep, rev_app_distr. cbn [rev app].
    apply wr_digit_not_space. rewrite Ep, forallb_app in Wp. apply andb_prop in Wp. destruct Wp as [_ Wz]. cbn in Wz. rewrite andb_true_r in Wz. exact Wz.
Qed.

(* on the transaction: request_hostname / request_port_number come from the Host field when the URI names no host *)
Theorem wr_host_tx : forall nu t hv hn port inv,
  u_host nu = None -> t_request_hostname t = None ->
  rq_hdr_get_c (t_request_headers t) rq_str_host = Some hv -> htp_parse_header_hostport (h_value hv) = (Some hn, port, inv) ->
  t_request_hostname (rq_host nu t) = Some hn /\ t_request_port_number (rq_host nu t) = port /\
  t_request_headers (rq_host nu t) = t_request_headers t.
Proof.
  intros nu t hv hn port inv Hu Ht Hg Hp. unfold rq_host. rewrite Hu. cbn [t_request_headers set]. rewrite Hg, Hp.
  destruct inv; cbn; rewrite Ht; repeat split; reflexivity.
Qed.
