(* C05, history level, part 3 (stage S1, response direction): MTxRes except htp_tx_state_response_complete_ex
   (PLifeResComplete.v). *)
Require Import Htp.Model.MConnTypes Htp.Model.MBstr Htp.Model.MTxCommon Htp.Model.MResLine Htp.Model.MTxRes
               Htp.Spec.SConnp Htp.Spec.SLife Htp.Proof.PLife Htp.Proof.PLifeTx.
Local Open Scope nat_scope.

(* same lifecycle view and same log *)
Definition sameV (c c' : connp) : Prop := lview c' = lview c /\ levs c' = levs c.
Lemma sameV_refl c : sameV c c. Proof. split; reflexivity. Qed.
Lemma sameV_trans a b c : sameV a b -> sameV b c -> sameV a c.
Proof. intros [A1 A2] [B1 B2]. split; congruence. Qed.
Lemma sameV_if (b : bool) c x : sameV c x -> sameV c (if b then x else c).
Proof. destruct b; [tauto|intros _; apply sameV_refl]. Qed.
Lemma sameV_fault c : sameV c (c <| c_fault := true |>). Proof. split; reflexivity. Qed.

Section TxRes.
Variable cb : cb_oracle.
Variable g : cfg.
Variable H : list evp.

(* a response-side callback for transaction i (whose slot may already be gone): rs moves to r' <= 5 *)
Lemma shook_gen xs h i d l sn c rc c1 m r' :
  run_hook_ex cb h i d l sn c = (rc, c1) ->
  MS (levs c ++ H) m -> Core None xs (lview c) m -> i < vnid (lview c) -> i < lv_sh (lview c) + lv_on (lview c) ->
  lc_fin (m i) = false -> lc_step (m i) h = Some (lcs (m i) r') -> r' <= 5 ->
  (forall p ps ce, vslot (lview c) i = Some (p, ps, ce) -> xs <> Some i -> ps <> c_HTP_RESPONSE_COMPLETE) ->
  MS (levs c1 ++ H) (mupd m i (lcs (m i) r')) /\ Core None xs (lview c1) (mupd m i (lcs (m i) r')) /\ rc3 rc /\ vmoved i (lview c) (lview c1).
Proof.
  intros E HM HC Hi Ho Hf Hst Hr Hx.
  assert (HC' : Core None xs (lview c) (mupd m i (lcs (m i) r'))).
  { apply (Core_sstep None xs xs); try assumption; [lia| |tauto].
    intros p ps ce Hs. split; [lia|]. intros Hn Hc. exfalso. exact (Hx p ps ce Hs Hn Hc). }
  exact (hook_step cb H None xs h i d l sn c rc c1 m _ E HM Hst HC').
Qed.

(* the tx-level response body hooks *)
Lemma tx_hooks_s xs k d l : forall c m i,
  MS (levs c ++ H) m -> Core None xs (lview c) m -> i < vnid (lview c) -> i < lv_sh (lview c) + lv_on (lview c) ->
  lc_fin (m i) = false -> 1 <= lc_rs (m i) <= 5 ->
  (forall p ps ce, vslot (lview c) i = Some (p, ps, ce) -> xs <> Some i -> ps <> c_HTP_RESPONSE_COMPLETE) ->
  exists m', MS (levs (run_tx_hooks k H_TX_RESPONSE_BODY_DATA i d l c) ++ H) m' /\
             Core None xs (lview c) m' /\ lview (run_tx_hooks k H_TX_RESPONSE_BODY_DATA i d l c) = lview c /\
             smv i m m' /\ lc_fin (m' i) = false /\ lc_rs (m i) <= lc_rs (m' i) <= 5.
Proof.
  induction k as [|k IH]; intros c m i HM HC Hi Ho Hf Hq Hx; cbn [run_tx_hooks].
  - exists m. split; [exact HM|]. split; [exact HC|]. split; [reflexivity|]. split; [apply smv_refl|]. split; [exact Hf|lia].
  - set (c1 := emit (bump_hook c H_TX_RESPONSE_BODY_DATA) (mkev H_TX_RESPONSE_BODY_DATA i d l None)).
    pose proof (lc_h14 (m i) 20 Hf (or_intror eq_refl) Hq) as Hst.
    set (m1 := mupd m i (lcs (m i) (Nat.max 4 (lc_rs (m i))))).
    assert (HM1 : MS (levs c1 ++ H) m1) by exact (MS_emit _ m 20 i _ HM Hst).
    assert (HC1 : Core None xs (lview c1) m1).
    { change (lview c1) with (lview c). apply (Core_sstep None xs xs); try assumption; [lia| |tauto].
      intros p ps ce Hs. split; [lia|]. intros Hn Hc. exfalso. exact (Hx p ps ce Hs Hn Hc). }
    assert (Hq1 : 1 <= lc_rs (m1 i) <= 5) by (subst m1; rewrite mupd_same; cbn [lcs lc_rs]; lia).
    assert (Hf1 : lc_fin (m1 i) = false) by (subst m1; rewrite mupd_same; reflexivity).
    destruct (IH c1 m1 i HM1 HC1 Hi Ho Hf1 Hq1 Hx) as (m' & A & B & C & D & E & F).
    exists m'. split; [exact A|]. split; [exact B|]. split; [exact C|]. split; [|split; [exact E|]].
    + apply (smv_trans i m m1 m'); [|exact D]. apply smv_upd.
    + assert (lc_rs (m i) <= lc_rs (m1 i)) by (subst m1; rewrite mupd_same; cbn [lcs lc_rs]; lia). lia.
Qed.

(* htp_res_run_hook_body_data *)
Lemma res_body_hook xs i data len c rc c' m :
  res_run_hook_body_data cb i data len c = (rc, c') ->
  MS (levs c ++ H) m -> Core None xs (lview c) m -> i < vnid (lview c) -> i < lv_sh (lview c) + lv_on (lview c) ->
  lc_fin (m i) = false -> 1 <= lc_rs (m i) <= 5 ->
  (forall p ps ce, vslot (lview c) i = Some (p, ps, ce) -> xs <> Some i -> ps <> c_HTP_RESPONSE_COMPLETE) ->
  exists m', MS (levs c' ++ H) m' /\ Core None xs (lview c') m' /\ rc3 rc /\ vmoved i (lview c) (lview c') /\
             smv i m m' /\ lc_fin (m' i) = false /\ lc_rs (m i) <= lc_rs (m' i) <= 5.
Proof.
  intros E HM HC Hi Ho Hf Hq Hx. unfold res_run_hook_body_data in E.
  assert (Triv : forall cc, sameV c cc -> (rc, c') = (ST_OK, cc) \/ (rc, c') = (ST_ERROR, cc) ->
            exists m', MS (levs c' ++ H) m' /\ Core None xs (lview c') m' /\ rc3 rc /\ vmoved i (lview c) (lview c') /\
                       smv i m m' /\ lc_fin (m' i) = false /\ lc_rs (m i) <= lc_rs (m' i) <= 5).
  { intros cc [V L] X. exists m. assert (c' = cc /\ rc3 rc) as [-> R] by (destruct X as [X|X]; injection X as -> ->; unfold rc3; tauto).
    rewrite V, L. split; [exact HM|]. split; [exact HC|]. split; [exact R|]. split; [left; reflexivity|]. split; [apply smv_refl|]. split; [exact Hf|lia]. }
  assert (Main : forall o, c_out_tx c = Some o ->
            run_data_hook cb H_RESPONSE_BODY_DATA i data false
              (run_tx_hooks (t_hook_response_body (tx_get c o)) H_TX_RESPONSE_BODY_DATA i data false c) = (rc, c') ->
            exists m', MS (levs c' ++ H) m' /\ Core None xs (lview c') m' /\ rc3 rc /\ vmoved i (lview c) (lview c') /\
                       smv i m m' /\ lc_fin (m' i) = false /\ lc_rs (m i) <= lc_rs (m' i) <= 5).
  { intros o _ E'.
    destruct (tx_hooks_s xs (t_hook_response_body (tx_get c o)) data false c m i HM HC Hi Ho Hf Hq Hx) as (m1 & A & B & C & D & F & G).
    set (c1 := run_tx_hooks _ _ _ _ _ c) in *. rewrite <- C in B, Hi, Ho, Hx.
    pose proof (lc_h14 (m1 i) 14 F (or_introl eq_refl) ltac:(lia)) as Hst.
    destruct (shook_gen xs H_RESPONSE_BODY_DATA i data false None c1 rc c' m1 _ E' A B Hi Ho F Hst ltac:(lia) Hx) as (A' & B' & R & V).
    eexists. split; [exact A'|]. split; [exact B'|]. split; [exact R|]. split; [rewrite <- C; exact V|]. split; [|split].
    - apply (smv_trans i m m1); [exact D|apply smv_upd].
    - rewrite mupd_same. reflexivity.
    - rewrite mupd_same. cbn [lcs lc_rs]. lia. }
  destruct data as [d|]; [destruct len as [|len]|].
  - apply (Triv c (sameV_refl c)). left. symmetry. exact E.
  - destruct (c_out_tx c) as [o|] eqn:Eo; [exact (Main o eq_refl E)|]. apply (Triv _ (sameV_fault c)). right. symmetry. exact E.
  - destruct (c_out_tx c) as [o|] eqn:Eo; [exact (Main o eq_refl E)|]. apply (Triv _ (sameV_fault c)). right. symmetry. exact E.
Qed.

(* htp_tx_res_process_body_data_ex *)
Lemma res_body_ex xs i data len c rc c' m :
  tx_res_process_body_data_ex cb i data len c = (rc, c') ->
  MS (levs c ++ H) m -> Core None xs (lview c) m -> i < vnid (lview c) -> i < lv_sh (lview c) + lv_on (lview c) ->
  lc_fin (m i) = false -> 1 <= lc_rs (m i) <= 5 ->
  (forall p ps ce, vslot (lview c) i = Some (p, ps, ce) -> xs <> Some i -> ps <> c_HTP_RESPONSE_COMPLETE) ->
  exists m', MS (levs c' ++ H) m' /\ Core None xs (lview c') m' /\ (rc = ST_OK \/ rc = ST_ERROR) /\ vmoved i (lview c) (lview c') /\
             smv i m m' /\ lc_fin (m' i) = false /\ lc_rs (m i) <= lc_rs (m' i) <= 5.
Proof.
  intros E HM HC Hi Ho Hf Hq Hx. unfold tx_res_process_body_data_ex in E.
  match type of E with context [tx_upd c i ?f] => destruct (lview_tx_upd_same c i f (fun t => eq_refl)) as [A0 B0]; set (c0 := tx_upd c i f) in * end.
  destruct (Z.eqb (t_res_cep (tx_get c0 i)) c_HTP_COMPRESSION_NONE).
  2:{ injection E as <- <-. exists m. rewrite A0, B0. split; [exact HM|]. split; [exact HC|]. split; [tauto|]. split; [left; reflexivity|].
      split; [apply smv_refl|]. split; [exact Hf|lia]. }
  match type of E with context [tx_upd c0 i ?f] => destruct (lview_tx_upd_same c0 i f (fun t => eq_refl)) as [A1 B1]; set (c1 := tx_upd c0 i f) in * end.
  destruct (res_run_hook_body_data cb i data len c1) as [rc1 c2] eqn:E2.
  assert (V1 : lview c1 = lview c) by congruence. assert (L1 : levs c1 = levs c) by congruence.
  rewrite <- V1 in HC, Hi, Ho, Hx. rewrite <- L1 in HM.
  destruct (res_body_hook xs i data len c1 rc1 c2 m E2 HM HC Hi Ho Hf Hq Hx) as (m' & A & B & R & V & S & F & G).
  exists m'. assert (c' = c2 /\ (rc = ST_OK \/ rc = ST_ERROR)) as [-> Hr] by (destruct rc1; injection E as <- <-; auto).
  split; [exact A|]. split; [exact B|]. split; [exact Hr|]. split; [rewrite <- V1; exact V|]. split; [exact S|]. split; assumption.
Qed.

(* ---- the raw-data receiver ---- *)
Lemma fault_tx_put c i t : c_fault c = true -> c_fault (tx_put c i t) = true.
Proof. unfold tx_put. intros F. destruct (i <? c_txs_shifted c); [reflexivity|]. destruct (_ <? _); [exact F|reflexivity]. Qed.
Lemma fault_tx_upd c i f : c_fault c = true -> c_fault (tx_upd c i f) = true.
Proof. unfold tx_upd. intros F. destruct (tx_slot c i); [apply fault_tx_put; exact F|reflexivity]. Qed.
Lemma fault_destroy_incomplete c i : c_fault (tx_destroy_incomplete c i) = c_fault c.
Proof.
  unfold tx_destroy_incomplete. destruct (i <? c_txs_shifted c); cbv zeta;
    repeat match goal with |- context [match ?x with _ => _ end] => destruct x end; reflexivity.
Qed.
Lemma fault_tx_destroy c i : c_fault c = true -> c_fault (tx_destroy c i) = true.
Proof. unfold tx_destroy. intros F. destruct (tx_slot c i); [|reflexivity]. destruct (tx_is_complete t); [rewrite fault_destroy_incomplete|]; exact F. Qed.
Lemma fault_hook h i d l sn c : c_fault c = true -> c_fault (snd (run_hook_ex cb h i d l sn c)) = true.
Proof.
  intros F. unfold run_hook_ex. destruct (cb h (hook_count c h)); cbn [snd]; try exact F;
    first [apply fault_tx_upd; exact F|apply fault_tx_destroy; exact F].
Qed.

(* the checked reads of htp_connp_res_receiver_send_data: they can only set the fault flag *)
Definition rsd_f1 (c : connp) : connp :=
  let k := c_out c in if k_read k <? k_receiver k then c <| c_fault := true |> else c.
Definition rsd_f2 (k : cursor) (c : connp) : connp :=
  let have := match cur_slice k (k_receiver k) (k_read k) with Some s => length s | None => 0 end in
  if have <? k_read k - k_receiver k then c <| c_fault := true |> else c.
Definition rsd_f3 (k : cursor) (c : connp) : connp :=
  match k_data k with None => if 0 <? k_receiver k then c <| c_fault := true |> else c | Some _ => c end.
Definition rsd_f4 (c : connp) : connp := match c_out_tx c with None => c <| c_fault := true |> | Some _ => c end.
Definition rsd_pre (c : connp) : connp := rsd_f4 (rsd_f3 (c_out c) (rsd_f2 (c_out c) (rsd_f1 c))).

Lemma res_send_unfold last c h :
  k_receiver_hook (c_out c) = Some h ->
  res_receiver_send_data cb last c =
    match run_data_hook cb h (out_txi (rsd_pre c)) (cur_slice (c_out c) (k_receiver (c_out c)) (k_read (c_out c))) last (rsd_pre c) with
    | (ST_OK, c1) => (ST_OK, rs_set_out (fun k => k <| k_receiver := k_read k |>) c1)
    | r => r
    end.
Proof. intros Eh. unfold res_receiver_send_data. rewrite Eh. reflexivity. Qed.

Lemma rsd_pre_same c : sameV c (rsd_pre c) /\ c_out_tx (rsd_pre c) = c_out_tx c /\ (c_out_tx c = None -> c_fault (rsd_pre c) = true).
Proof.
  assert (S1 : sameV c (rsd_f1 c) /\ c_out_tx (rsd_f1 c) = c_out_tx c) by (unfold rsd_f1; cbv zeta; destruct (_ <? _); split; try reflexivity; apply sameV_refl || apply sameV_fault).
  assert (S2 : forall k x, sameV x (rsd_f2 k x) /\ c_out_tx (rsd_f2 k x) = c_out_tx x) by (intros k x; unfold rsd_f2; cbv zeta; destruct (_ <? _); split; try reflexivity; apply sameV_refl || apply sameV_fault).
  assert (S3 : forall k x, sameV x (rsd_f3 k x) /\ c_out_tx (rsd_f3 k x) = c_out_tx x) by (intros k x; unfold rsd_f3; destruct (k_data k); [|destruct (_ <? _)]; split; try reflexivity; apply sameV_refl || apply sameV_fault).
  assert (S4 : forall x, sameV x (rsd_f4 x) /\ c_out_tx (rsd_f4 x) = c_out_tx x /\ (c_out_tx x = None -> c_fault (rsd_f4 x) = true)).
  { intros x. unfold rsd_f4. destruct (c_out_tx x) as [o|] eqn:E.
    - split; [apply sameV_refl|]. split; [first [reflexivity|exact E]|intros X; congruence].
    - split; [apply sameV_fault|]. split; [first [reflexivity|exact E]|intros _; reflexivity]. }
  unfold rsd_pre. set (x1 := rsd_f1 c). set (x2 := rsd_f2 (c_out c) x1). set (x3 := rsd_f3 (c_out c) x2).
  destruct S1 as [A1 B1]. destruct (S2 (c_out c) x1) as [A2 B2]. destruct (S3 (c_out c) x2) as [A3 B3]. destruct (S4 x3) as (A4 & B4 & C4).
  fold x1 in A1, B1. fold x2 in A2, B2, A3, B3. fold x3 in A3, B3, A4, B4, C4.
  assert (O3 : c_out_tx x3 = c_out_tx c) by (rewrite B3, B2, B1; reflexivity).
  split; [exact (sameV_trans _ _ _ (sameV_trans _ _ _ (sameV_trans _ _ _ A1 A2) A3) A4)|]. split; [rewrite B4; exact O3|].
  intros E. apply C4. rewrite O3. exact E.
Qed.

(* with out_tx NULL the callback is run for "transaction 0": the model records a fault *)
Lemma res_send_fault last c rc c' h :
  res_receiver_send_data cb last c = (rc, c') -> k_receiver_hook (c_out c) = Some h -> c_out_tx c = None -> c_fault c' = true.
Proof.
  intros E Eh Eo. rewrite (res_send_unfold last c h Eh) in E. destruct (rsd_pre_same c) as (_ & _ & F). specialize (F Eo).
  unfold run_data_hook in E.
  pose proof (fault_hook h (out_txi (rsd_pre c)) (cur_slice (c_out c) (k_receiver (c_out c)) (k_read (c_out c))) last None (rsd_pre c) F) as F1.
  destruct (run_hook_ex cb h _ _ last None (rsd_pre c)) as [rc1 c1]. cbn [snd] in F1.
  destruct rc1; injection E as <- <-; exact F1.
Qed.

Lemma res_send_gen xs last c rc c' m h j :
  res_receiver_send_data cb last c = (rc, c') ->
  MS (levs c ++ H) m -> Core None xs (lview c) m -> k_receiver_hook (c_out c) = Some h -> (h = 12 \/ h = 15) ->
  c_out_tx c = Some j -> j < vnid (lview c) -> lc_fin (m j) = false -> need_s h <= lc_rs (m j) ->
  MS (levs c' ++ H) m /\ Core None xs (lview c') m /\ rc3 rc /\ vmoved j (lview c) (lview c').
Proof.
  intros E HM HC Eh Hh Eo Hj Hf Hn. rewrite (res_send_unfold last c h Eh) in E.
  destruct (rsd_pre_same c) as ([V0 L0] & O0 & _).
  assert (Ej : out_txi (rsd_pre c) = j) by (unfold out_txi; rewrite O0, Eo; reflexivity). rewrite Ej in E.
  unfold run_data_hook in E.
  destruct (run_hook_ex cb h j (cur_slice (c_out c) (k_receiver (c_out c)) (k_read (c_out c))) last None (rsd_pre c)) as [rc1 c1] eqn:E1.
  assert (Hst : lc_step (m j) h = Some (lcs (m j) (lc_rs (m j)))).
  { destruct Hh as [-> | ->]; [apply lc_h12r|apply lc_h15]; try assumption; unfold need_s in Hn; cbn in Hn; exact Hn. }
  assert (Em : forall k, mupd m j (lcs (m j) (lc_rs (m j))) k = m k) by (intros k; apply mupd_id; apply lcs_id; exact Hf).
  rewrite <- V0 in HC. rewrite <- L0 in HM.
  assert (HC' : Core None xs (lview (rsd_pre c)) (mupd m j (lcs (m j) (lc_rs (m j))))).
  { apply (Core_meq None xs _ _ m HC). intros k. symmetry. apply Em. }
  destruct (hook_step cb H None xs h j _ last None (rsd_pre c) rc1 c1 m _ E1 HM Hst HC') as (A & B & R & V).
  pose proof (MS_meq _ _ _ A Em) as A'. pose proof (Core_meq _ _ _ _ _ B Em) as B'. rewrite V0 in V.
  destruct R as [-> | [-> | ->]]; injection E as <- <-.
  - split; [exact A'|]. split; [exact B'|]. split; [unfold rc3; tauto|exact V].
  - split; [exact A'|]. split; [exact B'|]. split; [unfold rc3; tauto|exact V].
  - split; [exact A'|]. split; [exact B'|]. split; [unfold rc3; tauto|exact V].
Qed.

(* ---- the response side running normally ---- *)
Definition SJ (c : connp) (m : nat -> lc) : Prop := MS (levs c ++ H) m /\ Core None None (lview c) m /\ RS (lview c) m.
Lemma SJ_view c c' m : lview c' = lview c -> levs c' = levs c -> SJ c m -> SJ c' m.
Proof. unfold SJ. intros -> ->. tauto. Qed.

Lemma res_send last c rc c' m :
  res_receiver_send_data cb last c = (rc, c') -> SJ c m -> SJ c' m /\ lview c' = lview c /\ rc3 rc.
Proof.
  intros E (HM & HC & HR).
  destruct (k_receiver_hook (c_out c)) as [h|] eqn:Eh.
  2:{ unfold res_receiver_send_data in E. rewrite Eh in E. injection E as <- <-. split; [split; [|split]; assumption|]. split; [reflexivity|left; reflexivity]. }
  destruct (rs_arm _ _ HR h Eh) as (Hh & j & Hj & Hn).
  destruct (rs_txc _ _ HR j Hj) as (p & ps & ce & Hs & Hp & _).
  destruct (nofin_s _ _ _ _ _ _ _ _ HC Hs Hp) as [Hf _]. destruct (vslot_lt _ _ _ Hs) as [_ Hi].
  destruct (res_send_gen None last c rc c' m h j E HM HC Eh Hh Hj Hi Hf Hn) as (A & B & R & V).
  assert (V' : lview c' = lview c) by (apply (vmoved_inc j _ _ _ V Hs); intros [_ X]; cbn in X; contradiction).
  split; [|split; [exact V'|exact R]]. split; [exact A|]. split; [exact B|]. rewrite V'. exact HR.
Qed.

Lemma lv_ounarm_id v : lv_oh v = None -> v <| lv_oh := None |> = v.
Proof. destruct v. cbn. intros ->. reflexivity. Qed.
Lemma RS_unarm v m : RS v m -> RS (v <| lv_oh := None |>) m.
Proof.
  intros [H1 H2 H3]. constructor.
  - intros j Hj. exact (H1 j Hj).
  - intros h Hh. discriminate Hh.
  - exact H3.
Qed.
Lemma res_fin_clear c rc c' m :
  res_receiver_finalize_clear cb c = (rc, c') -> SJ c m -> SJ c' m /\ lview c' = (lview c) <| lv_oh := None |> /\ rc3 rc.
Proof.
  intros E Q. unfold res_receiver_finalize_clear in E.
  destruct (k_receiver_hook (c_out c)) as [h|] eqn:Eh.
  - destruct (res_receiver_send_data cb true c) as [rc1 c1] eqn:E1. injection E as <- <-.
    destruct (res_send true c rc1 c1 m E1 Q) as ((A & B & R) & V & Rc).
    assert (V' : lview (rs_set_out (fun k => k <| k_receiver_hook := None |>) c1) = (lview c) <| lv_oh := None |>) by (rewrite <- V; reflexivity).
    split; [|split; [exact V'|exact Rc]].
    split; [exact A|]. rewrite V'. split; [|apply RS_unarm; rewrite <- V; exact R].
    apply (Core_ext None None (lview c1)); try (rewrite V; reflexivity). exact B.
  - injection E as <- <-. split; [exact Q|]. split; [|left; reflexivity]. symmetry. apply lv_ounarm_id. exact Eh.
Qed.

(* htp_connp_res_receiver_set *)
Lemma res_receiver_set_spec h c rc c' m j :
  res_receiver_set cb h c = (rc, c') -> SJ c m -> (h = 12 \/ h = 15) -> c_out_tx c = Some j -> need_s h <= lc_rs (m j) ->
  SJ c' m /\ lview c' = (lview c) <| lv_oh := Some h |> /\ rc3 rc.
Proof.
  intros E Q Hh Hj Hn. unfold res_receiver_set in E.
  destruct (res_receiver_finalize_clear cb c) as [rc1 c1] eqn:E1. injection E as <- <-.
  destruct (res_fin_clear c rc1 c1 m E1 Q) as ((A & B & R) & V & Rc).
  match goal with |- context [rs_set_out ?f c1] => set (c2 := rs_set_out f c1) end.
  assert (V2 : lview c2 = (lview c) <| lv_oh := Some h |>) by (transitivity ((lview c1) <| lv_oh := Some h |>); [reflexivity|rewrite V; reflexivity]).
  split; [|split; [exact V2|exact Rc]].
  split; [exact A|]. rewrite V2. split.
  - apply (Core_ext None None (lview c1)); try (rewrite V; reflexivity). exact B.
  - rewrite V in R. destruct R as [H1 H2 H3]. constructor.
    + intros k Hk. exact (H1 k Hk).
    + intros h' Hh'. cbn in Hh'. injection Hh' as <-. split; [exact Hh|]. exists j. split; [exact Hj|exact Hn].
    + exact H3.
Qed.

(* ---- response progress / cep updates ---- *)
Lemma Core_sp xq v m i F :
  Core xq None v m -> (forall x, qp (F x) = qp x) -> (forall x, fst (sp (F x)) <> c_HTP_RESPONSE_COMPLETE) -> lc_rs (m i) < 6 ->
  Core xq None (v_map i F v) m.
Proof.
  intros C Fq Fs Hq. unfold v_map. destruct (vslot v i) as [x|] eqn:Hs; [|exact C]. destruct x as [[p ps] ce].
  apply (Core_put xq xq None None v m i (p, ps, ce)); try assumption.
  - rewrite Fq. exact (co_q6 _ _ _ _ C i p ps ce Hs).
  - rewrite Fq. exact (co_qc _ _ _ _ C i p ps ce Hs).
  - intros X. lia.
  - intros _ X. exfalso. exact (Fs _ X).
  - tauto.
  - tauto.
Qed.
Lemma RQ_sp v m i F : (forall x, qp (F x) = qp x) -> RQ v m -> RQ (v_map i F v) m.
Proof.
  intros Fq R. destruct (v_map_fields i F v) as (_ & _ & E3 & _ & E5 & _ & E7 & _ & E9 & _).
  apply (RQ_ext v _ m m); try assumption; try reflexivity.
  intros j _. rewrite vslot_map. destruct (j =? i) eqn:E; b2p; [subst j|reflexivity]. destruct (vslot v i) as [x|]; [|reflexivity].
  cbn. rewrite Fq. reflexivity.
Qed.
Lemma Core_otx v m i : Core None None v m -> vslot v i <> None -> i < lv_sh v + lv_on v -> Core None None (v <| lv_otx := Some i |>) m.
Proof.
  intros [H1 H2 H3 H4 H5 H6 H7 H8 H9] L O. constructor; try assumption.
  intros j Hj. cbn in Hj. injection Hj as <-. split; assumption.
Qed.

Definition SPost (c : connp) (m : nat -> lc) (rc : st) (c' : connp) : Prop :=
  exists m', MS (levs c' ++ H) m' /\ Core None None (lview c') m' /\
             (RQ (lview c) m -> RQ (lview c') m') /\ (alive (c_in_status c) -> alive (c_in_status c')) /\
             (okrc rc -> RS (lview c') m').
(* htp_tx_state_response_complete_ex may run a receiver callback after a callback has destroyed the transaction (out_tx NULL):
   the model then records a fault *)
Definition SPostF (c : connp) (m : nat -> lc) (rc : st) (c' : connp) : Prop := c_fault c' = true \/ SPost c m rc c'.

(* htp_tx_state_response_start (called by RES_IDLE after it has picked the transaction) *)
Lemma response_start_spec i c rc c' m x :
  tx_state_response_start cb i c = (rc, c') ->
  MS (levs c ++ H) m -> Core None None (lview c) m -> vslot (lview c) i = Some x -> lc_rs (m i) = 0 ->
  i < lv_sh (lview c) + lv_on (lview c) -> lv_oh (lview c) = None ->
  SPost c m rc c'.
Proof.
  intros E HM HC Hs Hr Ho Hu. unfold tx_state_response_start in E. destruct x as [[p ps] ce].
  match type of E with context [run_hook cb H_RESPONSE_START i ?cc] => set (c0 := cc) in E end.
  assert (V0 : lview c0 = (lview c) <| lv_otx := Some i |>) by reflexivity.
  assert (HC0 : Core None None (lview c0) m) by (rewrite V0; apply Core_otx; [exact HC|congruence|exact Ho]).
  assert (Hs0 : vslot (lview c0) i = Some (p, ps, ce)) by exact Hs.
  assert (Hp : ps <> c_HTP_RESPONSE_COMPLETE).
  { intros X. pose proof (co_sc _ _ _ _ HC i p ps ce Hs ltac:(discriminate) X). lia. }
  destruct (nofin_s _ _ _ _ _ _ _ _ HC0 Hs0 Hp) as [Hf _].
  pose proof (lc_h10 (m i) Hf Hr) as Hst.
  unfold run_hook in E. destruct (run_hook_ex cb H_RESPONSE_START i None false None c0) as [rc1 c1] eqn:E1.
  destruct (shook cb H H_RESPONSE_START i None false None c0 rc1 c1 m 1 p ps ce E1 HM HC0 Hs0 Hp Ho Hst ltac:(lia)) as (A & B & R & V).
  set (m1 := mupd m i (lcs (m i) 1)) in *.
  assert (S1 : smv i m m1) by apply smv_upd.
  assert (Hr1 : lc_rs (m1 i) = 1) by (subst m1; rewrite mupd_same; reflexivity).
  assert (RQ1 : RQ (lview c) m -> RQ (lview c1) m1).
  { intros Rq. rewrite V, V0. apply (RQ_smv i _ m m1 S1). apply (RQ_same_in (lview c)); try reflexivity. exact Rq. }
  destruct R as [-> | [-> | ->]].
  2,3: injection E as <- <-; exists m1; split; [exact A|]; split; [exact B|]; split; [exact RQ1|]; split;
       [change (c_in_status c1) with (lv_is (lview c1)); rewrite V; tauto|intros [X|[X|[X|X]]]; discriminate X].
  (* the two ways on *)
  assert (Fin : forall F st' cc, (forall y, qp (F y) = qp y) -> (forall y, fst (sp (F y)) <> c_HTP_RESPONSE_COMPLETE) ->
            lview cc = v_map i F ((lview c1) <| lv_ost := st' |>) -> levs cc = levs c1 ->
            sst st' (fst (sp (F (p, ps, ce)))) (snd (sp (F (p, ps, ce)))) 1 -> SPost c m ST_OK cc).
  { intros F st' cc Fq Fs Vc Lc Hsst. exists m1. split; [rewrite Lc; exact A|].
    assert (Bc : Core None None (lview cc) m1).
    { rewrite Vc. apply Core_sp; try assumption; [|rewrite Hr1; lia]. apply (Core_ext None None (lview c1)); try reflexivity. exact B. }
    split; [exact Bc|]. split.
    - intros Rq. rewrite Vc. apply RQ_sp; [exact Fq|]. apply (RQ_same_in (lview c1)); try reflexivity. exact (RQ1 Rq).
    - split; [change (alive (lv_is (lview c)) -> alive (lv_is (lview cc))); rewrite Vc;
              destruct (v_map_fields i F ((lview c1) <| lv_ost := st' |>)) as (X & _); rewrite X; change (lv_is ((lview c1) <| lv_ost := st' |>)) with (lv_is (lview c1)); rewrite V; tauto|].
      intros _. rewrite Vc. destruct (v_map_fields i F ((lview c1) <| lv_ost := st' |>)) as (_ & _ & _ & X4 & _ & X6 & _ & X8 & _).
      constructor.
      + intros j Hj. rewrite X6 in Hj. change (lv_otx (lview c1) = Some j) in Hj. rewrite V, V0 in Hj. cbn in Hj. injection Hj as <-.
        exists (qp (F (p, ps, ce))), (fst (sp (F (p, ps, ce)))), (snd (sp (F (p, ps, ce)))).
        split; [rewrite vslot_map, Nat.eqb_refl; change (vslot ((lview c1) <| lv_ost := st' |>) i) with (vslot (lview c1) i); rewrite V, Hs0; cbn [option_map];
                destruct (F (p, ps, ce)) as [[a b] d]; reflexivity|].
        split; [apply Fs|]. rewrite X4, Hr1. exact Hsst.
      + intros h Hh. rewrite X8 in Hh. change (lv_oh (lview c1) = Some h) in Hh. rewrite V, V0 in Hh. change (lv_oh (lview c) = Some h) in Hh. congruence.
      + intros Hn. rewrite X6 in Hn. change (lv_otx (lview c1) = None) in Hn. rewrite V, V0 in Hn. discriminate Hn. }
  destruct (t_is_protocol_0_9 (tx_get c1 i)); injection E as <- <-.
  - match goal with |- context [tx_upd c1 i ?f] =>
      destruct (lview_tx_upd_map c1 i f (fun y => (fst (fst y), c_HTP_RESPONSE_BODY, c_HTP_COMPRESSION_NONE)) (fun t => eq_refl)) as [A2 B2];
      set (c2 := tx_upd c1 i f) in * end.
    apply (Fin (fun y => (fst (fst y), c_HTP_RESPONSE_BODY, c_HTP_COMPRESSION_NONE)) RES_BODY_IDENTITY_STREAM_CLOSE).
    + intros y. reflexivity.
    + intros y. cbn. discriminate.
    + transitivity ((lview c2) <| lv_ost := RES_BODY_IDENTITY_STREAM_CLOSE |>); [reflexivity|]. rewrite A2. unfold v_map.
      change (vslot ((lview c1) <| lv_ost := RES_BODY_IDENTITY_STREAM_CLOSE |>) i) with (vslot (lview c1) i).
      destruct (vslot (lview c1) i); reflexivity.
    + exact B2.
    + cbn. lia.
  - match goal with |- context [tx_upd ?cc i ?f] =>
      destruct (lview_tx_upd_map cc i f (xsetps c_HTP_RESPONSE_LINE) (fun t => eq_refl)) as [A2 B2];
      set (c2 := tx_upd cc i f) in * end.
    apply (Fin (xsetps c_HTP_RESPONSE_LINE) RES_LINE).
    + intros y. reflexivity.
    + intros y. cbn. discriminate.
    + exact A2.
    + exact B2.
    + cbn. split; [lia|intros _; lia].
Qed.

(* htp_tx_state_response_line *)
Lemma response_line_spec i c rc c' m p ps ce :
  tx_state_response_line cb i c = (rc, c') ->
  MS (levs c ++ H) m -> Core None None (lview c) m -> vslot (lview c) i = Some (p, ps, ce) -> ps <> c_HTP_RESPONSE_COMPLETE ->
  i < lv_sh (lview c) + lv_on (lview c) -> lc_rs (m i) <= 3 ->
  MS (levs c' ++ H) (mupd m i (lcs (m i) 2)) /\ Core None None (lview c') (mupd m i (lcs (m i) 2)) /\ rc3 rc /\ lview c' = lview c.
Proof.
  intros E HM HC Hs Hp Ho Hq. unfold tx_state_response_line in E.
  match type of E with context [tx_upd c i ?f] =>
    assert (Hf : forall t, txv (f t) = txv t) by (intros t; cbv beta; repeat match goal with |- context [if ?b then _ else _] => destruct b end; reflexivity);
    destruct (lview_tx_upd_same c i f Hf) as [A0 B0]; set (c0 := tx_upd c i f) in * end.
  rewrite <- A0 in HC, Hs, Ho. rewrite <- B0 in HM.
  destruct (nofin_s _ _ _ _ _ _ _ _ HC Hs Hp) as [Hfn _].
  pose proof (lc_h11 (m i) Hfn Hq) as Hst. unfold run_hook in E.
  destruct (shook cb H H_RESPONSE_LINE i None false None c0 rc c' m 2 p ps ce E HM HC Hs Hp Ho Hst ltac:(lia)) as (A & B & R & V).
  split; [exact A|]. split; [exact B|]. split; [exact R|congruence].
Qed.

(* htp_tx_state_response_headers on connp->out_tx. RES_BODY_DETERMINE calls it after it has already set the next state:
   only the state-independent part of RS is needed (RSw) *)
Definition RSw (v : lv) (m : nat -> lc) : Prop := exists st0, RS (v <| lv_ost := st0 |>) m.
Lemma RS_RSw v m : RS v m -> RSw v m.
Proof. intros R. exists (lv_ost v). replace (v <| lv_ost := lv_ost v |>) with v by (destruct v; reflexivity). exact R. Qed.
Lemma RSw_tx v m j : RSw v m -> lv_otx v = Some j -> exists p ps ce, vslot v j = Some (p, ps, ce) /\ ps <> c_HTP_RESPONSE_COMPLETE.
Proof. intros (st0 & R) Hj. destruct (rs_txc _ _ R j Hj) as (p & ps & ce & Hs & Hp & _). exists p, ps, ce. split; [exact Hs|exact Hp]. Qed.
Lemma RSw_arm v m h : RSw v m -> lv_oh v = Some h -> (h = 12 \/ h = 15) /\ exists j, lv_otx v = Some j /\ need_s h <= lc_rs (m j).
Proof. intros (st0 & R) Hh. exact (rs_arm _ _ R h Hh). Qed.
Lemma RSw_view v v' m :
  lv_otx v' = lv_otx v -> lv_oh v' = lv_oh v -> (forall j, lv_otx v = Some j -> option_map sp (vslot v' j) = option_map sp (vslot v j)) ->
  RSw v m -> RSw v' m.
Proof.
  intros E1 E2 E3 (st0 & R). exists st0. apply (RS_ext (v <| lv_ost := st0 |>) _ m m); try assumption; try reflexivity.
Qed.
Lemma RSw_unarm v m : RSw v m -> RSw (v <| lv_oh := None |>) m.
Proof.
  intros (st0 & R). exists st0. pose proof (RS_unarm _ _ R) as R'.
  replace ((v <| lv_oh := None |>) <| lv_ost := st0 |>) with ((v <| lv_ost := st0 |>) <| lv_oh := None |>) by (destruct v; reflexivity). exact R'.
Qed.
Lemma RSw_smv j v m m' : smv j m m' -> lv_otx v = Some j -> lc_rs (m j) <= lc_rs (m' j) -> lc_rs (m' j) <= 5 -> 1 <= lc_rs (m j) -> RSw v m -> RSw v m'.
Proof.
  intros S Hj Hle H5 H1 (st0 & R). exists RES_FINALIZE.
  destruct R as [R1 R2 R3]. destruct S as (S1 & S2). constructor.
  - intros k Hk. assert (k = j) by (cbn in Hk; congruence). subst k. destruct (R1 j Hj) as (p & ps & ce & Hs & Hp & _).
    exists p, ps, ce. split; [exact Hs|]. split; [exact Hp|]. cbn. lia.
  - intros h Hh. destruct (R2 h Hh) as (Ha & k & Hk & Hn). split; [exact Ha|]. exists k. split; [exact Hk|].
    assert (k = j) by (cbn in Hk; congruence). subst k. lia.
  - intros Hn. cbn in Hn. congruence.
Qed.

Lemma res_send_w last c rc c' m :
  res_receiver_send_data cb last c = (rc, c') -> MS (levs c ++ H) m -> Core None None (lview c) m -> RSw (lview c) m ->
  MS (levs c' ++ H) m /\ Core None None (lview c') m /\ lview c' = lview c /\ rc3 rc.
Proof.
  intros E HM HC HR.
  destruct (k_receiver_hook (c_out c)) as [h|] eqn:Eh.
  2:{ unfold res_receiver_send_data in E. rewrite Eh in E. injection E as <- <-. split; [exact HM|]. split; [exact HC|]. split; [reflexivity|left; reflexivity]. }
  destruct (RSw_arm _ _ h HR Eh) as (Hh & j & Hj & Hn).
  destruct (RSw_tx _ _ j HR Hj) as (p & ps & ce & Hs & Hp).
  destruct (nofin_s _ _ _ _ _ _ _ _ HC Hs Hp) as [Hf _]. destruct (vslot_lt _ _ _ Hs) as [_ Hi].
  destruct (res_send_gen None last c rc c' m h j E HM HC Eh Hh Hj Hi Hf Hn) as (A & B & R & V).
  assert (V' : lview c' = lview c) by (apply (vmoved_inc j _ _ _ V Hs); intros [_ X]; cbn in X; contradiction).
  split; [exact A|]. split; [exact B|]. split; [exact V'|exact R].
Qed.
Lemma res_fin_clear_w c rc c' m :
  res_receiver_finalize_clear cb c = (rc, c') -> MS (levs c ++ H) m -> Core None None (lview c) m -> RSw (lview c) m ->
  MS (levs c' ++ H) m /\ Core None None (lview c') m /\ lview c' = (lview c) <| lv_oh := None |> /\ rc3 rc.
Proof.
  intros E HM HC HR. unfold res_receiver_finalize_clear in E.
  destruct (k_receiver_hook (c_out c)) as [h|] eqn:Eh.
  - destruct (res_receiver_send_data cb true c) as [rc1 c1] eqn:E1. injection E as <- <-.
    destruct (res_send_w true c rc1 c1 m E1 HM HC HR) as (A & B & V & Rc).
    assert (V' : lview (rs_set_out (fun k => k <| k_receiver_hook := None |>) c1) = (lview c) <| lv_oh := None |>) by (rewrite <- V; reflexivity).
    split; [exact A|]. split; [|split; [exact V'|exact Rc]]. rewrite V'.
    apply (Core_ext None None (lview c1)); try (rewrite V; reflexivity). exact B.
  - injection E as <- <-. split; [exact HM|]. split; [exact HC|]. split; [|left; reflexivity]. symmetry. apply lv_ounarm_id. exact Eh.
Qed.

Lemma Core_setce v m i ce' : Core None None v m -> Core None None (v_map i (xsetce ce') v) m.
Proof.
  intros C. unfold v_map. destruct (vslot v i) as [x|] eqn:Hs; [|exact C]. destruct x as [[p ps] ce].
  apply (Core_put None None None None v m i (p, ps, ce)); try assumption; cbn.
  - exact (co_q6 _ _ _ _ C i p ps ce Hs).
  - exact (co_qc _ _ _ _ C i p ps ce Hs).
  - exact (co_s6 _ _ _ _ C i p ps ce Hs).
  - exact (co_sc _ _ _ _ C i p ps ce Hs).
  - tauto.
  - tauto.
Qed.
Lemma RS_setce_none v m i : RS v m -> RS (v_map i (xsetce c_HTP_COMPRESSION_NONE) v) m.
Proof.
  intros [H1 H2 H3]. destruct (v_map_fields i (xsetce c_HTP_COMPRESSION_NONE) v) as (_ & _ & _ & E4 & _ & E6 & _ & E8 & _).
  constructor.
  - intros j Hj. rewrite E6 in Hj. destruct (H1 j Hj) as (p & ps & ce & Hs & Hp & Hst). rewrite vslot_map, E4.
    destruct (j =? i) eqn:E; b2p; [subst j|exists p, ps, ce; auto].
    rewrite Hs. cbn. exists p, ps, c_HTP_COMPRESSION_NONE. split; [reflexivity|]. split; [exact Hp|].
    destruct (lv_ost v); cbn [sst] in *; try assumption. destruct Hst as [Ha _]. split; [exact Ha|]. intros X. contradiction.
  - intros h Hh. rewrite E8 in Hh. rewrite E6. exact (H2 h Hh).
  - rewrite E6, E4. exact H3.
Qed.

Lemma response_headers_spec i c rc c' m :
  tx_state_response_headers cb i c = (rc, c') ->
  MS (levs c ++ H) m -> Core None None (lview c) m -> RSw (lview c) m -> c_out_tx c = Some i -> 2 <= lc_rs (m i) <= 3 ->
  exists m', MS (levs c' ++ H) m' /\ Core None None (lview c') m' /\ rc3 rc /\ smv i m m' /\
             lview c' = (v_map i (xsetce c_HTP_COMPRESSION_NONE) (lview c)) <| lv_oh := None |> /\
             2 <= lc_rs (m' i) <= 3 /\ (rc = ST_OK -> lc_rs (m' i) = 3).
Proof.
  intros E HM HC HR Hi Hq. unfold tx_state_response_headers in E.
  destruct (RSw_tx _ _ i HR Hi) as (p & ps & ce & Hs & Hp).
  destruct (co_otx _ _ _ _ HC i Hi) as [_ Ho].
  match type of E with context [tx_upd c i ?f] =>
    destruct (lview_tx_upd_map c i f (xsetce c_HTP_COMPRESSION_NONE) (fun t => eq_refl)) as [A0 B0]; set (c0 := tx_upd c i f) in * end.
  set (v0 := v_map i (xsetce c_HTP_COMPRESSION_NONE) (lview c)) in *.
  destruct (v_map_fields i (xsetce c_HTP_COMPRESSION_NONE) (lview c)) as (_ & _ & _ & _ & _ & F6 & _ & F8 & _ & F10 & F11 & _). fold v0 in F6, F8, F10, F11.
  assert (HM0 : MS (levs c0 ++ H) m) by (rewrite B0; exact HM).
  assert (HC0 : Core None None (lview c0) m) by (rewrite A0; apply Core_setce; exact HC).
  assert (HR0 : RSw (lview c0) m).
  { rewrite A0. destruct HR as (st0 & R). exists st0. pose proof (RS_setce_none _ m i R) as R'.
    replace (v0 <| lv_ost := st0 |>) with (v_map i (xsetce c_HTP_COMPRESSION_NONE) ((lview c) <| lv_ost := st0 |>)); [exact R'|].
    unfold v0, v_map. change (vslot ((lview c) <| lv_ost := st0 |>) i) with (vslot (lview c) i). destruct (vslot (lview c) i); reflexivity. }
  destruct (res_receiver_finalize_clear cb c0) as [rc1 c1] eqn:E1.
  destruct (res_fin_clear_w c0 rc1 c1 m E1 HM0 HC0 HR0) as (A1 & B1 & V1 & Rc1). rewrite A0 in V1.
  destruct Rc1 as [-> | [-> | ->]].
  2,3: injection E as <- <-; exists m; split; [exact A1|]; split; [exact B1|]; split; [unfold rc3; tauto|]; split; [apply smv_refl|];
       split; [exact V1|]; split; [exact Hq|discriminate].
  assert (Hs1 : vslot (lview c1) i = Some (p, ps, c_HTP_COMPRESSION_NONE)).
  { rewrite V1. change (vslot (v0 <| lv_oh := None |>) i) with (vslot v0 i). subst v0. rewrite vslot_map, Nat.eqb_refl, Hs. reflexivity. }
  assert (Ho1 : i < lv_sh (lview c1) + lv_on (lview c1)).
  { rewrite V1. change (i < lv_sh v0 + lv_on v0). rewrite F10, F11. exact Ho. }
  destruct (nofin_s _ _ _ _ _ _ _ _ B1 Hs1 Hp) as [Hf _].
  pose proof (lc_h13 (m i) Hf Hq) as Hst. unfold run_hook in E.
  destruct (shook cb H H_RESPONSE_HEADERS i None false None c1 rc c' m 3 p ps _ E A1 B1 Hs1 Hp Ho1 Hst ltac:(lia)) as (A & B & R & V).
  exists (mupd m i (lcs (m i) 3)). split; [exact A|]. split; [exact B|]. split; [exact R|]. split; [apply smv_upd|].
  rewrite mupd_same. cbn [lcs lc_rs]. split; [congruence|]. split; [lia|reflexivity].
Qed.
Lemma fault_finalize i c : c_fault c = true -> c_fault (snd (tx_finalize cb g i c)) = true.
Proof.
  intros F. unfold tx_finalize. destruct (tx_slot c i) as [t|]; [|reflexivity]. destruct (negb (tx_is_complete t)); [exact F|].
  pose proof (fault_hook H_TRANSACTION_COMPLETE i None false (Some t) c F) as F1.
  destruct (run_hook_ex cb H_TRANSACTION_COMPLETE i None false (Some t) c) as [rc1 c1]. cbn [snd] in F1.
  destruct rc1; cbn [snd]; try exact F1. destruct (tx_slot c1 i); [|reflexivity]. cbn [snd].
  destruct (g_tx_auto_destroy g); [apply fault_tx_destroy|]; exact F1.
Qed.
End TxRes.
