(* C16 at history level, part 3 -- A REFUSED CONNECT RESUMES.  A CONNECT request of the wire grammar in any chunking (possibly with
   the first bytes of the next requests glued to it), an answer whose status is not 2xx, framed by Content-Length, in any chunking
   (request data offered before the LF of its status line is turned away: HTP_STREAM_DATA_OTHER, nothing consumed), and then the
   client's stream -- n >= 1 pipelined requests of the PSegPipe grammar, offered from its first byte again, in any chunking.
   The request side leaves REQ_CONNECT_WAIT_RESPONSE through REQ_FINALIZE, completes the CONNECT transaction and parses the
   stream exactly as PSegPipe says a fresh connection does, shifted by the one slot of the CONNECT transaction: transactions
   1..n report requests 1..n (no request byte skipped or parsed twice), no call ever returns TUNNEL. *)
Require Import Htp.Model.Base Htp.Model.MBstr Htp.Model.MConnTypes Htp.Model.MTxCommon Htp.Model.MTxReq Htp.Model.MResLine Htp.Model.MTxRes.
Require Import Htp.Model.MReq Htp.Model.MRes Htp.Model.MConnp.
Require Import Htp.Spec.SWire Htp.Spec.SConnp Htp.Proof.PWire Htp.Proof.PWireHdr Htp.Proof.PWireBlock Htp.Proof.PWireConn Htp.Proof.PWireExch.
Require Import Htp.Proof.PWireRun Htp.Proof.PWirePres Htp.Proof.PWireGlue Htp.Proof.PSeg Htp.Proof.PSegLine Htp.Proof.PSegHdr Htp.Proof.PSegGen Htp.Proof.PSegRun.
Require Import Htp.Proof.PSegFold Htp.Proof.PSegPipe Htp.Proof.PSegRes Htp.Proof.PSegResLine Htp.Proof.PSegResHdr Htp.Proof.PSegResGen Htp.Proof.PSegResRun Htp.Proof.PSegResThm Htp.Proof.PSegResCanon Htp.Proof.PPairThm.
Require Import Htp.Proof.PReq Htp.Proof.PConnp.
Require Import Htp.Proof.PTunBase Htp.Proof.PTunSeg Htp.Proof.PTunSegLine Htp.Proof.PTunSegMid Htp.Proof.PTunRes Htp.Proof.PTunResTail Htp.Proof.PTunResFin.
Require Import Htp.Proof.PTunReq Htp.Proof.PTunProbe Htp.Proof.PTunConnR Htp.Proof.PTunThm1 Htp.Proof.PTunRefR Htp.Proof.PTunSegPipeRun Htp.Proof.PTunResume.
Local Open Scope Z_scope.

(* the CONNECT request announces no body *)
Definition tn_no_framing (rq : wr_request) : bool :=
  negb (existsb (fun f => wr_same (wf_name f) wr_str_content_length || wr_same (wf_name f) wr_str_transfer_encoding) (wq_fields rq)).
(* the model's own framing decision on the answer (PTunRefR.tv_frame_ok): not 2xx, Content-Length |body|, no Transfer-Encoding.  It
   depends on the request through its method number only (PSegResCanon.sr_canon) *)
Definition tn_refused_ok (rq : wr_request) (rsp : wr_response) (cuts : list (list bytes)) (body : bytes) : bool :=
  tv_frame_ok (sr_tend (sr_canon rq) rsp cuts) (length body).
Lemma tv_frame_sim a b n : sr_sim a b -> tv_frame_ok a n = tv_frame_ok b n.
Proof. intros (Hm & Hr & Hs & Hp). unfold sr_rsp in Hr. injection Hr as Hh Hrep. unfold tv_frame_ok. rewrite Hm, Hh, Hs. reflexivity. Qed.

(* ---- response processing keeps request_transfer_coding (and the request fields PPairThm.pp_rq lists) ---- *)
Definition tk_q (t : tx) := (pp_rq t, t_request_transfer_coding t).
Lemma tk_process line t : tk_q (rs_process_response_header line t) = tk_q t.
Proof.
  unfold rs_process_response_header. destruct (rs_parse_response_header line (t_flags t)) as [h tf].
  cbn [t_response_headers set]. destruct (rs_hdr_find (t_response_headers t) (h_name h)) as [i|]; [|reflexivity].
  destruct (flag_has _ _ && _); [reflexivity|].
  destruct (flag_has (h_flags (nth i (t_response_headers t) h)) c_HTP_FIELD_REPEATED); reflexivity.
Qed.
Lemma tk_flush hdr t : tk_q (sr_flush hdr t) = tk_q t.
Proof. destruct hdr; [apply tk_process|reflexivity]. Qed.
Lemma tk_lstep st l : tk_q (snd (sr_lstep st l)) = tk_q (snd st).
Proof.
  unfold sr_lstep. cbn [snd]. destruct (fst l); [apply tk_flush|]. destruct (fst st) as [h|]; [|reflexivity].
  destruct (sr_k2 _ h (snd l)); [|reflexivity]. rewrite (tk_process h (sr_flag_fold (snd st))). reflexivity.
Qed.
Lemma tk_lrun : forall ls st, tk_q (sr_lrun ls st) = tk_q (snd st).
Proof.
  induction ls as [|l ls IH]; intros st.
  - unfold sr_lrun. cbn [fold_left]. apply tk_flush.
  - rewrite sr_lrun_cons, (IH (sr_lstep st l)). apply tk_lstep.
Qed.
Lemma tk_th0 t line : tk_q (sr_th0 t line) = tk_q t.
Proof.
  unfold sr_th0, sr_tx_line, sr_line_fix, rs_apply_response_line, sr_tx_start.
  repeat match goal with |- context [if ?b then _ else _] => destruct b end; reflexivity.
Qed.
Definition tk_p (t : tx) := (tk_q t, t_response_status_number t).
Lemma tk_hdrs_tx t : tk_p (sr_hdrs_tx t) = tk_p t.
Proof.
  unfold sr_hdrs_tx, sr_det_tx.
  destruct (rs_hdr_get_c (t_response_headers t) rs_str_content_type) as [hc|];
    destruct (rs_hdr_get_c (t_response_headers t) rs_str_content_length) as [h|]; cbv zeta;
    try destruct (flag_has (h_flags h) c_HTP_FIELD_REPEATED); try destruct (negb (parse_content_length (h_value h) =? 0)%Z);
    reflexivity.
Qed.
Lemma tk_body_add k t : tk_p (sr_body_add k t) = tk_p t.
Proof. reflexivity. Qed.
Lemma tk_body_add' k t : tk_p (sr_body_add' k t) = tk_p t.
Proof. destruct k; reflexivity. Qed.
Lemma tk_tcomplete t : tk_p (tn_tcomplete t) = tk_p t.
Proof. unfold tn_tcomplete. destruct (t_response_transfer_coding t =? c_HTP_CODING_NO_BODY); reflexivity. Qed.
Lemma tv_tdone_facts t0 ps s r ls body :
  tk_q (tv_tdone t0 ps s r ls body) = tk_q t0 /\
  t_response_status_number (tv_tdone t0 ps s r ls body) = t_response_status_number (sr_lrun ls (None, sr_th0 t0 (wr_ser_status_line ps s r))) /\
  t_response_progress (tv_tdone t0 ps s r ls body) = c_HTP_RESPONSE_COMPLETE.
Proof.
  unfold tv_tdone. cbv zeta. set (Tend := sr_lrun ls (None, sr_th0 t0 (wr_ser_status_line ps s r))).
  set (Tpre := match length body with O => sr_hdrs_tx Tend | S _ => sr_body_add 0 (sr_body_add' (length body) (sr_hdrs_tx Tend)) end).
  assert (P : tk_p Tpre = tk_p Tend).
  { unfold Tpre. destruct (length body) as [|n']; [apply tk_hdrs_tx|].
    rewrite tk_body_add, tk_body_add'. apply tk_hdrs_tx. }
  pose proof (tk_tcomplete Tpre) as C. rewrite P in C. unfold tk_p in C. apply pair_equal_spec in C. destruct C as [C1 C2].
  split; [|split; [exact C2|apply (tn_tcomplete_facts Tpre)]].
  rewrite C1. unfold Tend. rewrite tk_lrun. cbn [snd]. apply tk_th0.
Qed.

(* ---- the transaction the CONNECT request leaves ---- *)
Lemma tn_tw_nobody g rq fl : g_allow_space_uri g = false -> tn_connect_ok g rq = true -> tn_no_framing rq = true ->
  t_request_transfer_coding (tn_tw g rq fl) = c_HTP_CODING_NO_BODY /\ sr_rsp (tn_tw g rq fl) = ([], 0%nat).
Proof.
  intros Hsp Hq Hnf. unfold tn_connect_ok in Hq. apply andb_prop in Hq. destruct Hq as [H _]. apply andb_prop in H. destruct H as [H Wb].
  apply andb_prop in H. destruct H as [Wl _]. unfold tn_no_framing in Hnf. apply negb_true_iff in Hnf.
  destruct (sg_tb_facts g Hsp 0 _ _ _ _ Wl Wb Hnf) as (_ & _ & _ & _ & _ & N1 & N2). cbv zeta in N1, N2.
  unfold tn_tw, sg_tpre. cbv zeta.
  set (tb := wr_block_tx (wq_fields rq) (sg_th0 g 0 (wq_method rq) (wq_uri rq) (wq_protocol rq))) in *.
  set (t5 := if fl then tx_set_flag c_HTP_MULTI_PACKET_HEAD tb else tb).
  assert (Hh5 : t_request_headers t5 = t_request_headers tb) by (unfold t5; destruct fl; reflexivity).
  split.
  - destruct (sg_hdr_end_facts t5) as [_ TC]. rewrite Hh5 in TC. exact (TC N1 N2).
  - assert (P : pp_rsp (sg_hdr_end t5) = ([], 0%nat, 0, 0)).
    { rewrite prs_hdr_end. assert (E : pp_rsp t5 = pp_rsp tb) by (unfold t5; destruct fl; reflexivity). rewrite E. unfold tb. rewrite prs_block.
      unfold sg_th0. rewrite prs_set_progress, prs_tx_line. reflexivity. }
    unfold pp_rsp in P. unfold sr_rsp. destruct (pp_tuple4 _ _ _ _ _ _ _ _ P) as (P1 & P2 & _ & _). rewrite P1, P2. reflexivity.
Qed.

(* ---- from the response phase back to the request side ---- *)
Definition tn_a3 (c2 : connp) : tg_aux := mk_tg_aux (c_conn_flags c2) 1%nat (tn_rs c2) (-1).
Lemma tn_ref_to_wait c2 t : tv_wfr (tn_rq c2) -> tr_after (tv_w2 (tn_rq c2)) c2 (Some t) -> tn_waitw (mk_tg_world [] (tn_a3 c2)) c2 t.
Proof.
  intros [[A1 A2 A3 A4 A5 A6 A7 A8] Hcl] [B1 B2 B3 B4 B5 B6 B7 B8 B9 B10 B11].
  destruct (tn_rq_p c2) as (P1 & P2 & P3 & P4 & P5). rewrite P1 in A6, A7, A8. rewrite P2 in A1. rewrite P3 in A2. rewrite P4 in A5. rewrite P5 in A3.
  constructor; cbn [tn_a3 gw_done gw_aux ax_flags ax_onext ax_rs ax_cl length app]; try assumption; try reflexivity.
  split; [exact B7|split; [reflexivity|exact Hcl]].
Qed.
Lemma tn_chk_quiet obs : Forall tn_quiet obs -> chk_C16 obs = true.
Proof. intros F. unfold chk_C16. rewrite <- (app_nil_r obs), (tn_chk_pre obs [] F). reflexivity. Qed.

(* ================= the history ================= *)
Record tn_h3 := mk_tn_h3 {
  j_qpre : list bytes; j_qlast : bytes; j_glue : bytes;        (* the CONNECT request: chunks; what follows it in the last chunk *)
  j_items : list (list bytes * bytes);                         (* the answer: chunks, each preceded by refused request data calls *)
  j_chunks : list bytes }.                                     (* the client's stream, from its first byte *)
Definition tn_h3_head (h : tn_h3) : list cp_op := OpOpen :: map OpReqData (j_qpre h ++ [j_qlast h]) ++ tc_ops (j_items h).
Definition tn_h3_ops (h : tn_h3) : list cp_op := tn_h3_head h ++ map OpReqData (j_chunks h).
Definition tn_h3_ok (rq : wr_request) (rsp : wr_response) (cuts : list (list bytes)) (body : bytes) (rs : list wr_request) (h : tn_h3) : Prop :=
  Forall (fun x : bytes => x <> []) (j_qpre h) /\ j_qlast h <> [] /\
  concat (j_qpre h) ++ j_qlast h = wr_request_wire rq ++ j_glue h /\ (length (concat (j_qpre h)) < length (wr_request_wire rq))%nat /\
  tc_items_ne (j_items h) /\ concat (map snd (j_items h)) = sr_wire rsp cuts body /\ tc_refs_ok (sr_lines rsp cuts) body (j_items h) /\
  tv_f1_ok (sr_lines rsp cuts) body (j_items h) /\
  Forall (fun x : bytes => x <> []) (j_chunks h) /\ concat (j_chunks h) = sg_pwires rs.
(* return code and consumed count of the calls up to the end of the answer *)
Definition tn_h3_expect (h : tn_h3) : list (Z * nat) :=
  (-1, 0%nat) :: (map (fun x : bytes => (c_HTP_STREAM_DATA, length x)) (j_qpre h) ++ [(tn_last_rc (j_glue h), length (j_qlast h) - length (j_glue h))%nat]) ++
  tc_expect (j_items h).

Theorem tn_refused_connect_resumes : forall cb g rq rsp cuts body rs h,
  wr_all_ok cb -> g_allow_space_uri g = false ->
  tn_connect_ok g rq = true -> tn_no_framing rq = true ->
  tn_rsp_ok g rsp cuts = true -> tn_refused_ok rq rsp cuts body = true ->
  rs <> [] -> Forall (fun r => sg_req_ok g r = true) rs -> (g_max_tx g = 0 \/ 1 + length rs < g_max_tx g)%nat ->
  tn_h3_ok rq rsp cuts body rs h ->
  let run := cp_run cb g connp_new (tn_h3_ops h) in
  (* what the calls up to the end of the answer return and consume; how many calls follow *)
  (exists rsH rsP, snd run = rsH ++ rsP /\ map tn_o rsH = tn_h3_expect h /\ length rsP = length (j_chunks h)) /\
  (* transaction 0 is the CONNECT transaction, complete in both directions (its slot is empty when tx_auto_destroy is set);
     transactions 1..n report requests 1..n *)
  (exists t dn, c_txs (fst run) = tn_done_slot g t :: dn /\ tn_reported t rq /\ t_response_status_number t = wr_status_value (wp_status rsp) /\
                t_response_progress t = c_HTP_RESPONSE_COMPLETE /\ sg_rep dn rs) /\
  (* the request side is between two requests; no call has returned TUNNEL; the extracted tunnel oracle accepts *)
  c_in_state (fst run) = REQ_IDLE /\ Forall tn_rquiet (snd run) /\
  chk_C16 (obs_run cb g connp_new (tn_h3_ops h)) = true.
Proof.
  intros cb g rq rsp cuts body rs h Hcb Hsp Hq Hnf Hrs Hrf Hne Hoks Hmax (Qa & Ql & Qc & Qn & Ia & Ic & Ir & If1 & Ca & Cc) run.
  destruct rs as [|r1 rs1]; [contradiction|]. clear Hne. set (rs := r1 :: rs1) in *.
  (* the answer *)
  unfold tn_rsp_ok in Hrs. apply andb_prop in Hrs. destruct Hrs as [Hrs Hfit]. apply andb_prop in Hrs. destruct Hrs as [Wr Wc].
  unfold sr_response_ok in Wr. apply andb_prop in Wr. destruct Wr as [Wl Wf].
  unfold sr_cuts_ok in Wc. apply andb_prop in Wc. destruct Wc as [_ Wc].
  destruct (sg_block_flat_ok (combine (wp_fields rsp) cuts) (sr_forallb_combine_fst wr_field_ok _ cuts Wf) Wc) as [Okl Hnp].
  unfold sr_fits in Hfit. apply andb_prop in Hfit. destruct Hfit as [Hl0 Hfit]. apply Nat.leb_le in Hl0.
  set (ps := wp_protocol rsp) in *. set (ss := wp_status rsp) in *. set (rr := wp_reason rsp) in *. set (ls := sr_lines rsp cuts) in *.
  (* htp_connp_open *)
  destruct tn_c0_facts as (I0 & O0 & Si0 & So0 & X0 & _).
  (* the CONNECT request *)
  assert (Ew : wr_request_wire rq ++ j_glue h = (sg_line0 rq ++ [CR; LF]) ++ sg_fwire (sg_flat rq) ++ [CR; LF] ++ j_glue h).
  { rewrite sg_wire_flat. unfold sg_line0. rewrite <- !app_assoc. reflexivity. }
  assert (B0 : tq_betw g rq (j_glue h) tn_a0 tn_c0 (wr_request_wire rq ++ j_glue h)) by (apply TQ_idle; [exact I0|exact Ew]).
  destruct (tq_chunks cb g Hcb Hsp rq Hq (j_glue h) tn_a0 So0 X0 (j_qpre h) tn_c0 _ (j_qlast h) B0 O0 Qa Ql Qc ltac:(rewrite app_length; lia))
    as (c1 & fl & E1 & W1 & S1 & O1 & Ev1 & R1 & Q1).
  set (opsA := map OpReqData (j_qpre h ++ [j_qlast h])) in *.
  destruct (tn_run_stable cb g opsA tn_c0 Si0 So0) as [Si1 So1]. rewrite E1 in Si1, So1.
  destruct (tq_tw_facts g Hsp rq Hq fl) as (M0 & Rp0 & Z0 & Pg0 & Rep0).
  destruct (tn_tw_nobody g rq fl Hsp Hq Hnf) as (Tc0 & Rs0).
  set (t0 := tn_tw g rq fl) in *.
  destruct (tn_wait_to_res g rq fl c1 W1 O1 Si1) as (Wf1 & Rest1 & Cl1). fold t0 in Rest1.
  (* the answer *)
  assert (Hrp : t_response_progress t0 <= c_HTP_RESPONSE_LINE) by (rewrite Rp0; vm_compute; discriminate).
  assert (Hrq : (t_request_progress t0 =? c_HTP_REQUEST_COMPLETE) = false) by (rewrite Pg0; reflexivity).
  assert (Hframe : tv_frame_ok (sr_lrun ls (None, sr_th0 t0 (wr_ser_status_line ps ss rr))) (length body) = true).
  { unfold tn_refused_ok in Hrf. rewrite <- Hrf. apply tv_frame_sim. unfold sr_tend. apply sim_lrun; [reflexivity|]. cbn [snd]. apply sim_th0.
    - destruct Rep0 as (_ & Y2 & _). rewrite Y2. reflexivity.
    - rewrite Rs0. reflexivity. }
  rewrite <- (sr_p11_th0 t0 (sr_line0 rsp)) in Hfit.
  assert (Ewr : sr_wire rsp cuts body = tc_wire ps ss rr ls body) by (unfold sr_wire, tc_wire, sr_line0; rewrite <- !app_assoc; reflexivity).
  assert (B1 : tv_betw g t0 ps ss rr ls body c1 (tc_wire ps ss rr ls body)) by (apply VB_head; [apply CB_idle; [exact Wf1|exact Rest1|reflexivity]|exact Cl1]).
  assert (Hne1 : tc_wire ps ss rr ls body <> []) by (unfold tc_wire; intro E; apply app_eq_nil in E; destruct E as [E _]; apply app_eq_nil in E; destruct E as [_ E]; discriminate).
  destruct (tv_phase cb g Hcb t0 Z0 Hrp Hrq ps ss rr ls body Wl Okl Hnp Hframe Hl0 Hfit (j_items h) c1 _ B1 Hne1 ltac:(rewrite Ic; exact Ewr) Ia Ir If1)
    as (Wf2 & St2 & A2 & Ev2 & R2 & Q2).
  set (opsB := tc_ops (j_items h)) in *. set (c2 := fst (cp_run cb g c1 opsB)) in *.
  destruct (tn_run_stable cb g opsB c1 Si1 So1) as [Si2 So2]. fold c2 in Si2, So2.
  destruct (tv_tdone_facts t0 ps ss rr ls body) as (Kq & Ksn & Krp). set (td := tv_tdone t0 ps ss rr ls body) in *.
  unfold tk_q in Kq. apply pair_equal_spec in Kq. destruct Kq as [Kq Ktc]. destruct (tc_rq_proj _ _ Kq) as (P1 & P2 & P3 & P4 & P5 & P6 & P7 & P8).
  destruct (tc_Tend_facts t0 M0 Hrq ps ss rr ls Wl) as (_ & S4 & _).
  assert (Hsn : ((200 <=? t_response_status_number td) && (t_response_status_number td <=? 299)) = false).
  { rewrite Ksn. unfold tv_frame_ok in Hframe. apply andb_prop in Hframe. destruct Hframe as [Hf _]. apply andb_prop in Hf. destruct Hf as [Hf _].
    apply andb_prop in Hf. destruct Hf as [_ Hf]. apply negb_true_iff in Hf. exact Hf. }
  (* the client's stream *)
  pose proof (tn_ref_to_wait c2 td Wf2 A2) as W2.
  assert (Hst3 : tn_stable (c_out (ax_rs (tn_a3 c2)))) by exact So2.
  assert (Hot3 : c_out_tx (ax_rs (tn_a3 c2)) = None) by exact (tf_otx _ _ _ A2).
  destruct (tf_chunks cb g Hcb Hsp rs r1 rs1 eq_refl Hoks td (tn_a3 c2) Hmax Hst3 Hot3 ltac:(rewrite Ktc; exact Tc0) ltac:(rewrite P2; exact Pg0) Krp ltac:(rewrite P7; exact Z0) Hsn
              (j_chunks h) c2 (sg_pwires rs) (FB_wait _ _ _ _ _ _ _ _ W2 eq_refl) Ca Cc) as (Rep3 & Im3 & Q3).
  cbv zeta in Rep3, Im3. set (opsC := map OpReqData (j_chunks h)) in *. set (c3 := fst (cp_run cb g c2 opsC)) in *.
  (* the run as a whole *)
  assert (Eops : tn_h3_ops h = OpOpen :: opsA ++ opsB ++ opsC).
  { unfold tn_h3_ops, tn_h3_head, opsA, opsB, opsC. cbn [app]. rewrite <- !app_assoc. reflexivity. }
  assert (Erun : run = (c3, snd (finish_call (connp_open connp_new) (-1) 0 false) :: snd (cp_run cb g tn_c0 opsA) ++ snd (cp_run cb g c1 opsB) ++ snd (cp_run cb g c2 opsC))).
  { unfold run. rewrite Eops, tn_run_cons, tn_open_step. cbn [fst snd].
    rewrite (tn_run_app cb g opsA). cbn [fst snd]. rewrite E1. rewrite (tn_run_app cb g opsB). cbn [fst snd]. fold c2. reflexivity. }
  rewrite Erun. cbn [fst snd].
  set (r0 := snd (finish_call (connp_open connp_new) (-1) 0 false)) in *.
  set (rsA := snd (cp_run cb g tn_c0 opsA)) in *. set (rsB := snd (cp_run cb g c1 opsB)) in *. set (rsC := snd (cp_run cb g c2 opsC)) in *.
  assert (LC : length rsC = length (j_chunks h)) by (unfold rsC; rewrite tn_run_length; unfold opsC; apply map_length).
  assert (Q0 : tn_rquiet r0) by (unfold tn_rquiet; intro X; vm_compute in X; discriminate).
  assert (Qall : Forall tn_rquiet (r0 :: rsA ++ rsB ++ rsC)) by (constructor; [exact Q0|]; apply Forall_app; split; [exact Q1|]; apply Forall_app; split; [exact Q2|exact Q3]).
  split; [|split; [|split; [|split]]].
  - exists (r0 :: rsA ++ rsB), rsC. split; [cbn [app]; rewrite <- app_assoc; reflexivity|]. split; [|exact LC].
    unfold tn_h3_expect. cbn [map]. f_equal. rewrite map_app. apply f_equal2; [exact R1|exact R2].
  - destruct Rep3 as (dn & Ed & Rd). exists td, dn. split; [exact Ed|]. split; [|split; [|split; [exact Krp|exact Rd]]].
    + unfold tn_reported in *. destruct Rep0 as (Y1 & Y2 & Y3 & Y4 & Y5 & Y6 & Y7). repeat split; congruence.
    + rewrite Ksn. exact S4.
  - exact (gq_state _ _ _ Im3).
  - exact Qall.
  - unfold obs_run. fold run. rewrite Erun. cbn [snd]. apply tn_chk_quiet. apply tn_quiet_obs. exact Qall.
Qed.

(* finding F1 of the response direction concerns bodies that start with CR only *)
Lemma tv_f1_ok_nocr ls body items : match body with b :: _ => (b =? CR)%N = false | [] => True end -> tv_f1_ok ls body items.
Proof.
  intros Hb. induction items as [|it rest IH]; [exact I|]. cbn [tv_f1_ok]. split; [|exact IH].
  unfold sr_f1_local. destruct body as [|b bt]; [exact I|]. intros E. rewrite Hb in E. discriminate.
Qed.

(* ================= non-vacuity and the vm_compute harness ================= *)
Definition tv_ex_cfg (auto : bool) : cfg := cp_make_cfg 1 (Z.to_nat 18000) 512 auto false 0.
(* HTTP/1.1 403 No | Content-Length: 6 | | denied *)
Definition tv_ex_rsp : wr_response :=
  mk_wr_response wr_http11 [52;48;51]%N [78;111]%N [mk_wr_field [67;111;110;116;101;110;116;45;76;101;110;103;116;104]%N [SP] [54]%N []].
Definition tv_ex_body : bytes := [100;101;110;105;101;100]%N.
Definition tv_ex_cuts : list (list bytes) := sr_cuts_whole tv_ex_rsp.
Definition tv_ex_sw : bytes := sr_wire tv_ex_rsp tv_ex_cuts tv_ex_body.
(* GET /t<n> HTTP/1.1 | Host: a *)
Definition tv_ex_rq (n : N) : wr_request := mk_wr_request [71;69;84]%N [47;116;n]%N wr_http11 [mk_wr_field [72;111;115;116]%N [SP] [97]%N []].
Definition tv_ex_rs : list wr_request := [tv_ex_rq 48; tv_ex_rq 49].
Definition tv_ex_pw : bytes := sg_pwires tv_ex_rs.
(* the CONNECT request of PTunThm1 in two chunks, the second one with the first 7 bytes of the next request glued to it; these bytes
   are offered again (and refused) before the first chunk of the answer, 3 of them before the second one; the answer in three chunks;
   then the two requests from their first byte in four chunks, the third one spanning the request boundary *)
Definition tv_ex_h : tn_h3 :=
  mk_tn_h3 [firstn 10 tn_ex_qw] (skipn 10 tn_ex_qw ++ firstn 7 tv_ex_pw) (firstn 7 tv_ex_pw)
           [([firstn 7 tv_ex_pw], firstn 5 tv_ex_sw); ([firstn 3 tv_ex_pw], firstn 30 (skipn 5 tv_ex_sw)); ([], skipn 35 tv_ex_sw)]
           [firstn 2 tv_ex_pw; firstn 9 (skipn 2 tv_ex_pw); firstn 30 (skipn 11 tv_ex_pw); skipn 41 tv_ex_pw].
Example tv_ex_premises auto :
  wr_all_ok tn_ex_cb /\ g_allow_space_uri (tv_ex_cfg auto) = false /\ tn_connect_ok (tv_ex_cfg auto) tn_ex_rq = true /\ tn_no_framing tn_ex_rq = true /\
  tn_rsp_ok (tv_ex_cfg auto) tv_ex_rsp tv_ex_cuts = true /\ tn_refused_ok tn_ex_rq tv_ex_rsp tv_ex_cuts tv_ex_body = true /\
  tv_ex_rs <> [] /\ Forall (fun r => sg_req_ok (tv_ex_cfg auto) r = true) tv_ex_rs /\
  (g_max_tx (tv_ex_cfg auto) = 0 \/ 1 + length tv_ex_rs < g_max_tx (tv_ex_cfg auto))%nat /\
  tn_h3_ok tn_ex_rq tv_ex_rsp tv_ex_cuts tv_ex_body tv_ex_rs tv_ex_h.
Proof.
  split; [intros hk n; reflexivity|]. split; [destruct auto; reflexivity|]. split; [destruct auto; vm_compute; reflexivity|]. split; [vm_compute; reflexivity|].
  split; [destruct auto; vm_compute; reflexivity|]. split; [vm_compute; reflexivity|]. split; [discriminate|].
  split; [repeat constructor; destruct auto; vm_compute; reflexivity|]. split; [right; destruct auto; vm_compute; lia|].
  unfold tn_h3_ok. cbn [tv_ex_h j_qpre j_qlast j_glue j_items j_chunks].
  split; [repeat constructor; vm_compute; discriminate|]. split; [vm_compute; discriminate|]. split; [vm_compute; reflexivity|]. split; [vm_compute; lia|].
  split; [repeat constructor; cbn [fst snd]; vm_compute; discriminate|]. split; [vm_compute; reflexivity|].
  split; [cbn [tc_refs_ok fst]; split; [right; vm_compute; lia|split; [right; vm_compute; lia|split; [left; reflexivity|exact I]]]|].
  split; [apply tv_f1_ok_nocr; reflexivity|].
  split; [repeat constructor; vm_compute; discriminate|]. vm_compute. reflexivity.
Qed.
(* what the theorem says about this history, evaluated, in both tx_auto_destroy modes: return codes and consumed counts, the
   transactions (method, URI, status, request progress, response progress), the oracle *)
Definition tv_ex_show (auto : bool) :=
  let run := cp_run tn_ex_cb (tv_ex_cfg auto) connp_new (tn_h3_ops tv_ex_h) in
  (map tn_o (snd run),
   map (option_map (fun t => (t_request_method t, t_request_uri t, t_response_status_number t, t_request_progress t, t_response_progress t))) (c_txs (fst run)),
   chk_C16 (obs_run tn_ex_cb (tv_ex_cfg auto) connp_new (tn_h3_ops tv_ex_h))).
Definition tv_ex_codes : list (Z * nat) :=
  [(-1, 0%nat); (c_HTP_STREAM_DATA, 10%nat); (c_HTP_STREAM_DATA_OTHER, 25%nat); (c_HTP_STREAM_DATA_OTHER, 0%nat); (c_HTP_STREAM_DATA, 5%nat);
   (c_HTP_STREAM_DATA_OTHER, 0%nat); (c_HTP_STREAM_DATA, 30%nat); (c_HTP_STREAM_DATA, 9%nat);
   (c_HTP_STREAM_DATA, 2%nat); (c_HTP_STREAM_DATA, 9%nat); (c_HTP_STREAM_DATA, 30%nat); (c_HTP_STREAM_DATA, 17%nat)].
Definition tv_ex_get (n : N) := Some (Some [71;69;84]%N, Some [47;116;n]%N, 0, c_HTP_REQUEST_COMPLETE, c_HTP_RESPONSE_NOT_STARTED).
Example tv_ex_run :
  tv_ex_show false = (tv_ex_codes, [Some (Some wr_str_connect, Some [97;58;52;52;51]%N, 403, c_HTP_REQUEST_COMPLETE, c_HTP_RESPONSE_COMPLETE); tv_ex_get 48; tv_ex_get 49], true) /\
  tv_ex_show true = (tv_ex_codes, [None; tv_ex_get 48; tv_ex_get 49], true) /\
  firstn 8 tv_ex_codes = tn_h3_expect tv_ex_h.
Proof. vm_compute. repeat split; reflexivity. Qed.
(* 407 Proxy Authentication Required takes the same path (since /repo b681751) *)
Definition tv_ex_rsp407 : wr_response :=
  mk_wr_response wr_http11 [52;48;55]%N [78;111]%N [mk_wr_field [67;111;110;116;101;110;116;45;76;101;110;103;116;104]%N [SP] [54]%N []].
Example tv_ex_407 :
  tn_refused_ok tn_ex_rq tv_ex_rsp407 (sr_cuts_whole tv_ex_rsp407) tv_ex_body = true /\
  let run := cp_run tn_ex_cb (tv_ex_cfg false) connp_new
               [OpOpen; OpReqData (tn_ex_qw ++ tv_ex_pw); OpResData (sr_wire tv_ex_rsp407 (sr_cuts_whole tv_ex_rsp407) tv_ex_body); OpReqData tv_ex_pw] in
  map tn_o (snd run) = [(-1, 0%nat); (c_HTP_STREAM_DATA_OTHER, 35%nat); (c_HTP_STREAM_DATA, 44%nat); (c_HTP_STREAM_DATA, 58%nat)] /\
  map (option_map (fun t => (t_request_uri t, t_response_status_number t))) (c_txs (fst run)) =
    [Some (Some [97;58;52;52;51]%N, 407); Some (Some [47;116;48]%N, 0); Some (Some [47;116;49]%N, 0)].
Proof. vm_compute. repeat split; reflexivity. Qed.

(* ================= THEOREM FOR RE-EXPORT (Properties_C16.v) =================
   tn_refused_connect_resumes.  Premises: wr_all_ok cb, g_allow_space_uri g = false,
     tn_connect_ok g rq (PTunReq), tn_no_framing rq (the CONNECT request has no Content-Length / Transfer-Encoding field),
     tn_rsp_ok g rsp cuts (PTunThm1), tn_refused_ok rq rsp cuts body (the model's framing decision PTunRefR.tv_frame_ok evaluated on
     the answer: CONNECT, status not 2xx, Content-Length |body|, no Transfer-Encoding, not "100 with Content-Length 0"),
     rs <> [], every request of rs PSegPipe.sg_req_ok, max_tx 0 or > 1 + |rs|,
     tn_h3_ok: chunks non-empty; the chunks before j_qlast end inside the CONNECT request; request data inside the answer phase
     only before the LF of the status line (tc_refs_ok), i.e. the requests FOLLOW the answer; F1 of the response direction
     excluded chunk by chunk (tv_f1_ok; holds when the body does not start with CR: tv_f1_ok_nocr); the stream after the answer is
     the pipeline wire from its first byte (what was glued to the CONNECT request or offered and refused is arbitrary). *)
Print Assumptions tn_refused_connect_resumes.
