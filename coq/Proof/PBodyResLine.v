(* C06, part I (response side): the chunk-length line of a chunked response: the byte loop with the look-ahead
   data_probe_chunk_length (which, since the repair of finding K1, scans out_buf ++ the unconsumed bytes of the chunk), line assembly under every chunking (premise bd_res_line_ok), the line that ends the data. *)
Require Import Htp.Model.MConnTypes Htp.Model.MBstr Htp.Model.MTxCommon Htp.Model.MResLine Htp.Model.MTxRes Htp.Model.MRes.
Require Import Htp.Spec.SBody Htp.Proof.PBody Htp.Proof.PBodyRes Htp.Proof.PBodyResRun Htp.Proof.PBodyResId.
Local Open Scope Z_scope.

Definition bd_rs_copied (k : nat) (nb : option N) (c : connp) : connp :=
  rs_set_out (fun cur => cur <| k_next_byte := nb |> <| k_read := (k_read cur + k)%nat |>) c.
Definition bd_rs_taken (k : nat) (nb : option N) (c : connp) : connp :=
  rs_set_out (fun cur => cur <| k_next_byte := nb |> <| k_read := (k_read cur + k)%nat |> <| k_consume := (k_consume cur + k)%nat |>) c.

Lemma bd_cur_eta (a b : cursor) :
  k_data a = k_data b -> k_len a = k_len b -> k_read a = k_read b -> k_consume a = k_consume b -> k_receiver a = k_receiver b ->
  k_next_byte a = k_next_byte b -> k_buf a = k_buf b -> k_header a = k_header b -> k_receiver_hook a = k_receiver_hook b -> a = b.
Proof. destruct a, b; cbn; intros; subst; reflexivity. Qed.
Lemma bd_set_out_set_out f h c : rs_set_out f (rs_set_out h c) = rs_set_out (fun k => f (h k)) c.
Proof. destruct c; reflexivity. Qed.
Lemma bd_set_out_ext f h c : f (c_out c) = h (c_out c) -> rs_set_out f c = rs_set_out h c.
Proof. intros H. destruct c; unfold rs_set_out, set; cbn in *. rewrite H. reflexivity. Qed.
Lemma bd_rs_copied_add j k nb nb' c : bd_rs_copied k nb (bd_rs_copied j nb' c) = bd_rs_copied (j + k) nb c.
Proof. unfold bd_rs_copied. rewrite bd_set_out_set_out. apply bd_set_out_ext. apply bd_cur_eta; cbn; try reflexivity. lia. Qed.
Lemma bd_rs_taken_add j k nb nb' c : bd_rs_taken k nb (bd_rs_taken j nb' c) = bd_rs_taken (j + k) nb c.
Proof. unfold bd_rs_taken. rewrite bd_set_out_set_out. apply bd_set_out_ext. apply bd_cur_eta; cbn; try reflexivity; lia. Qed.

Lemma bd_firstn_exact' {B} (a b : list B) n : n = length a -> firstn n (a ++ b) = a.
Proof. intros ->. rewrite firstn_app, Nat.sub_diag, firstn_all. cbn. apply app_nil_r. Qed.

Definition bd_rs_wf (c : connp) : Prop :=
  exists d, k_data (c_out c) = Some d /\ k_len (c_out c) = length d /\ (k_read (c_out c) <= length d)%nat.

Lemma bd_rs_rest_cons c b tl : bd_rs_rest c = b :: tl -> bd_rs_wf c ->
  rs_has_byte c = true /\ rs_cur_byte c (k_read (c_out c)) = Some b.
Proof.
  intros H (d & Hd & Hl & Hr). unfold bd_rs_rest in H. rewrite Hd in H. unfold rs_has_byte, rs_cur_byte. rewrite Hd, Hl.
  assert (L : (k_read (c_out c) < length d)%nat).
  { destruct (Nat.lt_ge_cases (k_read (c_out c)) (length d)); [assumption|]. rewrite skipn_all2 in H by lia. discriminate. }
  apply Nat.ltb_lt in L. rewrite L. split; [reflexivity|]. apply Nat.ltb_lt in L.
  rewrite <- (firstn_skipn (k_read (c_out c)) d) at 1. rewrite nth_error_app2; rewrite firstn_length; [|lia].
  replace (k_read (c_out c) - Nat.min (k_read (c_out c)) (length d))%nat with 0%nat by lia. rewrite H. reflexivity.
Qed.
Lemma bd_rs_rest_nil c : bd_rs_rest c = [] -> bd_rs_wf c -> rs_has_byte c = false.
Proof.
  intros H (d & Hd & Hl & Hr). unfold bd_rs_rest in H. rewrite Hd in H. unfold rs_has_byte. rewrite Hl. apply Nat.ltb_ge.
  assert (length (skipn (k_read (c_out c)) d) = 0%nat) by (rewrite H; reflexivity). rewrite skipn_length in H0. lia.
Qed.
Lemma bd_rs_copy_byte c b tl : bd_rs_rest c = b :: tl -> bd_rs_wf c -> rs_copy_byte c = Some (bd_rs_copied 1 (Some b) c).
Proof.
  intros H W. destruct (bd_rs_rest_cons c b tl H W) as (A & B). unfold rs_copy_byte, rs_load_next. rewrite A, B.
  f_equal. unfold bd_rs_copied. rewrite bd_set_out_set_out. apply bd_set_out_ext. apply bd_cur_eta; cbn; try reflexivity. lia.
Qed.
Lemma bd_rs_next_byte c b tl : bd_rs_rest c = b :: tl -> bd_rs_wf c -> rs_next_byte c = Some (bd_rs_taken 1 (Some b) c).
Proof.
  intros H W. destruct (bd_rs_rest_cons c b tl H W) as (A & B). unfold rs_next_byte, rs_load_next. rewrite A, B.
  f_equal. unfold bd_rs_taken. rewrite bd_set_out_set_out. apply bd_set_out_ext. apply bd_cur_eta; cbn; try reflexivity; lia.
Qed.
Lemma bd_rs_rest_copied k nb c tl pre : bd_rs_rest c = pre ++ tl -> length pre = k -> bd_rs_rest (bd_rs_copied k nb c) = tl.
Proof.
  intros H L. unfold bd_rs_rest in *. cbn. destruct (k_data (c_out c)) as [d|].
  - rewrite <- bd_skipn_skipn', H, skipn_app, <- L, Nat.sub_diag, skipn_all. reflexivity.
  - destruct pre; [cbn in *; subst; reflexivity|discriminate].
Qed.
Lemma bd_rs_wf_copied k nb c pre tl : bd_rs_wf c -> bd_rs_rest c = pre ++ tl -> length pre = k -> bd_rs_wf (bd_rs_copied k nb c).
Proof.
  intros (d & Hd & Hl & Hr) H L. exists d. cbn. repeat split; auto.
  unfold bd_rs_rest in H. rewrite Hd in H. assert (length (skipn (k_read (c_out c)) d) = length (pre ++ tl)) by (rewrite H; reflexivity).
  rewrite skipn_length, app_length in H0. lia.
Qed.

(* ---- the look-ahead: along the bytes `pre` appended to the unconsumed part `u` of the current chunk, no non-control
        byte makes data_probe_chunk_length answer "not a chunk length" ---- *)
Fixpoint bd_probe_ok (u pre : bytes) : bool :=
  match pre with
  | [] => true
  | b :: r => (rs_is_chunked_ctl_char b || rs_data_probe_chunk_length (u ++ [b])) && bd_probe_ok (u ++ [b]) r
  end.

Lemma bd_rs_unconsumed_copied k nb c d pre tl :
  k_data (c_out c) = Some d -> (k_consume (c_out c) <= k_read (c_out c))%nat -> (k_read (c_out c) <= length d)%nat ->
  bd_rs_rest c = pre ++ tl -> length pre = k ->
  rs_unconsumed (bd_rs_copied k nb c) = rs_unconsumed c ++ pre.
Proof.
  intros Hd Hc Hrd Hr Hk. unfold rs_unconsumed, bd_rs_copied, rs_set_out. cbn. rewrite Hd. unfold rs_sub.
  unfold bd_rs_rest in Hr. rewrite Hd in Hr.
  set (co := k_consume (c_out c)) in *. set (r := k_read (c_out c)) in *.
  assert (E : skipn co d = firstn (r - co) (skipn co d) ++ pre ++ tl).
  { rewrite <- Hr. replace r with (co + (r - co))%nat at 2 by lia. rewrite <- bd_skipn_skipn'. symmetry. apply firstn_skipn. }
  assert (Hlen : length (firstn (r - co) (skipn co d)) = (r - co)%nat).
  { rewrite firstn_length, skipn_length. subst r co. lia. }
  rewrite E at 1. replace (r + k - co)%nat with ((r - co) + k)%nat by lia.
  rewrite firstn_app, Hlen. replace (r - co + k - (r - co))%nat with k by lia.
  rewrite (firstn_all2 (n := (r - co + k)%nat)) by lia.
  rewrite firstn_app, <- Hk, Nat.sub_diag, firstn_all. cbn. rewrite app_nil_r. reflexivity.
Qed.

Section Res.
Variable cb : cb_oracle.
Variable g : cfg.
Hypothesis cb_ok : forall n, cb H_RESPONSE_BODY_DATA n = CB_OK.

(* what RES_BODY_CHUNKED_LENGTH does once the end of the line has been recognised (f = the fuel that is left) *)
Definition bd_rs_line_done (f : nat) (c : connp) : st * connp :=
  match rs_consolidate g c with
  | (None, c) => (ST_ERROR, c)
  | (Some data, c) =>
    let d := rs_dbytes data in
    let len := length d in
    let c := rs_otx (fun t => t <| t_response_message_len ::= Z.add (Z.of_nat len) |>) c in
    let cl := fst (parse_chunked_length d) in
    let c := c <| c_out_chunked_length := cl |> in
    if cl =? -1004 then rs_chunked_length_loop g f (rs_clear_buffer c)
    else if cl <? 0 then
      let c := rs_set_out (fun k => k <| k_read := if (k_read k <? len)%nat then 0%nat else (k_read k - len)%nat |>) c in
      let c := rs_set_state RES_BODY_IDENTITY_STREAM_CLOSE c in
      (ST_OK, rs_otx (fun t => t <| t_response_transfer_coding := c_HTP_CODING_IDENTITY |>) c)
    else
      let c := rs_clear_buffer c in
      if 0 <? cl then (ST_OK, rs_set_state RES_BODY_CHUNKED_DATA c)
      else
        let c := rs_set_state RES_HEADERS c in
        (ST_OK, rs_otx (fun t => t <| t_response_progress := c_HTP_RESPONSE_TRAILER |>) c)
  end.

Lemma bd_rs_length_loop : forall pre c fuel tl,
  bd_rs_wf c -> (k_consume (c_out c) <= k_read (c_out c))%nat ->
  bd_rs_rest c = pre ++ tl -> bd_no_lf pre = true -> (length (bd_rs_rest c) < fuel)%nat ->
  match tl with [] => True | b :: _ => b = LF end ->
  bd_probe_ok (bd_rs_pending c ++ rs_unconsumed c) pre = true ->
  match tl with
  | [] => rs_chunked_length_loop g fuel c =
          (ST_DATA_BUFFER, match pre with [] => c | _ => bd_rs_copied (length pre) (Some (last pre 0%N)) c end)
  | _ :: _ => exists f, rs_chunked_length_loop g fuel c = bd_rs_line_done f (bd_rs_copied (S (length pre)) (Some LF) c)
  end.
Proof.
  induction pre as [|a pre IH]; intros c fuel tl W Hc Hr Hnl Hf Htl Hp.
  - cbn [app] in Hr. destruct tl as [|b tl].
    + destruct fuel as [|fuel]; [lia|]. cbn [rs_chunked_length_loop]. unfold rs_copy_byte. rewrite (bd_rs_rest_nil c Hr W). reflexivity.
    + subst b. destruct fuel as [|fuel]; [lia|]. exists fuel. cbn [rs_chunked_length_loop].
      rewrite (bd_rs_copy_byte c LF tl Hr W). unfold rs_nb. cbn [bd_rs_copied rs_set_out c_out set k_next_byte].
      change (k_next_byte (c_out (bd_rs_copied 1 (Some LF) c))) with (Some LF). cbn [N.eqb orb]. 
      replace ((LF =? LF)%N) with true by reflexivity. cbn [orb]. reflexivity.
  - cbn [app] in Hr. cbn [bd_no_lf forallb] in Hnl. apply andb_true_iff in Hnl. destruct Hnl as (Ha & Hnl).
    cbn [bd_probe_ok] in Hp. apply andb_true_iff in Hp. destruct Hp as (Hp1 & Hp2).
    destruct fuel as [|fuel]; [lia|]. cbn [rs_chunked_length_loop].
    rewrite (bd_rs_copy_byte c a _ Hr W).
    set (c1 := bd_rs_copied 1 (Some a) c).
    assert (Hnb : rs_nb c1 = Some a) by reflexivity. rewrite Hnb.
    destruct W as (d & Hd & Hl & Hrd).
    assert (Hu : rs_unconsumed c1 = rs_unconsumed c ++ [a]).
    { apply (bd_rs_unconsumed_copied 1 (Some a) c d [a] (pre ++ tl)); auto. }
    change (rs_dbytes (k_buf (c_out c1))) with (bd_rs_pending c).
    rewrite Hu, app_assoc.
    assert (Hcond : (a =? LF)%N || negb (rs_is_chunked_ctl_char a) && negb (rs_data_probe_chunk_length ((bd_rs_pending c ++ rs_unconsumed c) ++ [a])) = false).
    { apply negb_true_iff in Ha. rewrite Ha. cbn [orb]. apply orb_true_iff in Hp1. destruct Hp1 as [E|E]; rewrite E; cbn; [reflexivity|apply andb_false_r]. }
    rewrite Hcond.
    assert (W1 : bd_rs_wf c1) by (apply (bd_rs_wf_copied 1 (Some a) c [a] (pre ++ tl)); [exists d; auto|exact Hr|reflexivity]).
    assert (Hr1 : bd_rs_rest c1 = pre ++ tl) by (apply (bd_rs_rest_copied 1 _ c _ [a]); [exact Hr|reflexivity]).
    assert (Hc1 : (k_consume (c_out c1) <= k_read (c_out c1))%nat) by (cbn; lia).
    assert (Hf1 : (length (bd_rs_rest c1) < fuel)%nat) by (rewrite Hr1; rewrite Hr in Hf; cbn [length] in Hf; lia).
    assert (Hp2' : bd_probe_ok (bd_rs_pending c1 ++ rs_unconsumed c1) pre = true).
    { change (bd_rs_pending c1) with (bd_rs_pending c). rewrite Hu, app_assoc. exact Hp2. }
    specialize (IH c1 fuel tl W1 Hc1 Hr1 Hnl Hf1 Htl Hp2').
    destruct tl as [|b tl'].
    + rewrite IH. f_equal. destruct pre as [|p pre']; [reflexivity|]. unfold c1. rewrite bd_rs_copied_add. reflexivity.
    + destruct IH as (f & IH). exists f. rewrite IH. unfold c1. rewrite bd_rs_copied_add. reflexivity.
Qed.

Lemma bd_rs_res_buffer_spec o c1 d :
  k_data (c_out c1) = Some d -> k_header (c_out c1) = None -> c_out_tx c1 = Some o ->
  (k_consume (c_out c1) <= k_read (c_out c1))%nat ->
  (length (bd_rs_pending c1) + length (rs_sub d (k_consume (c_out c1)) (k_read (c_out c1))) <= g_field_limit_hard g)%nat ->
  rs_res_buffer g c1 =
    (ST_OK, rs_set_out (fun k => k <| k_buf := Some (match k_buf (c_out c1) with
                                                     | Some b => b ++ rs_sub d (k_consume (c_out c1)) (k_read (c_out c1))
                                                     | None => rs_sub d (k_consume (c_out c1)) (k_read (c_out c1))
                                                     end) |> <| k_consume := k_read k |>) c1).
Proof.
  intros Hd Hh Hi Hle Hhard. unfold rs_res_buffer. rewrite Hd.
  assert (E1 : (k_read (c_out c1) <? k_consume (c_out c1))%nat = false) by (apply Nat.ltb_ge; lia). rewrite E1.
  rewrite Hi, Hh.
  assert (E3 : (g_field_limit_hard g <? match k_buf (c_out c1) with Some b => length b | None => 0 end +
                  length (rs_sub d (k_consume (c_out c1)) (k_read (c_out c1))) + 0)%nat = false).
  { apply Nat.ltb_ge. unfold bd_rs_pending in Hhard. destruct (k_buf (c_out c1)); cbn in *; lia. }
  rewrite E3. reflexivity.
Qed.

Definition bd_rs_line_state (v : Z) : res_state := if 0 <? v then RES_BODY_CHUNKED_DATA else RES_HEADERS.

Lemma bd_rs_length_final o t c l tl :
  bd_rs_inv o c -> c_out_state c = RES_BODY_CHUNKED_LENGTH -> k_consume (c_out c) = k_read (c_out c) ->
  bd_rs_rest c = l ++ LF :: tl -> bd_no_lf l = true -> bd_probe_ok (bd_rs_pending c) l = true ->
  (length (bd_rs_pending c) + length l + 1 <= g_field_limit_hard g)%nat ->
  tx_slot c o = Some t ->
  let line := bd_rs_pending c ++ l ++ [LF] in
  let v := bd_rs_line_value line in
  0 <= v ->
  exists c',
    rs_RES_BODY_CHUNKED_LENGTH g c = (ST_OK, c') /\
    c_out_tx c' = Some o /\ c_out_status c' = c_out_status c /\ c_events c' = c_events c /\
    c_out_body_data_left c' = c_out_body_data_left c /\ c_out_chunked_length c' = v /\
    c_out_state c' = bd_rs_line_state v /\
    k_data (c_out c') = k_data (c_out c) /\ k_len (c_out c') = k_len (c_out c) /\
    k_read (c_out c') = (k_read (c_out c) + length l + 1)%nat /\ k_consume (c_out c') = k_read (c_out c') /\
    k_buf (c_out c') = None /\ k_header (c_out c') = None /\ k_receiver_hook (c_out c') = None /\
    exists t', tx_slot c' o = Some t' /\ t_hook_response_body t' = t_hook_response_body t /\ t_res_cep t' = t_res_cep t /\
               t_response_entity_len t' = t_response_entity_len t /\
               t_response_message_len t' = t_response_message_len t + Z.of_nat (length line) /\
               (v = 0 -> t_response_progress t' = c_HTP_RESPONSE_TRAILER).
Proof.
  intros Inv Hs Hc Hr Hnl Hpr Hhard Hl line v Hv.
  destruct Inv as [Hi _ Hrcv Hhd Hst (d & Hd & Hlen & Hrd)].
  assert (Hrd2 : (k_read (c_out c) + length l + 1 <= length d)%nat).
  { unfold bd_rs_rest in Hr. rewrite Hd in Hr. assert (length (skipn (k_read (c_out c)) d) = length (l ++ LF :: tl)) by (rewrite Hr; reflexivity).
    rewrite skipn_length, app_length in H. cbn in H. lia. }
  assert (Hun : rs_unconsumed c = []).
  { unfold rs_unconsumed. rewrite Hd, Hc. unfold rs_sub. rewrite Nat.sub_diag. reflexivity. }
  unfold rs_RES_BODY_CHUNKED_LENGTH.
  destruct (bd_rs_length_loop l c (rs_bytes_fuel c) (LF :: tl)) as (f & Hloop); auto.
  { exists d; auto. }
  { lia. }
  { unfold rs_bytes_fuel. rewrite Hlen. unfold bd_rs_rest. rewrite Hd, skipn_length. lia. }
  { rewrite Hun, app_nil_r. exact Hpr. }
  rewrite Hloop. clear Hloop.
  assert (Hpiece : rs_sub d (k_read (c_out c)) (k_read (c_out c) + S (length l)) = l ++ [LF]).
  { unfold rs_sub. replace (k_read (c_out c) + S (length l) - k_read (c_out c))%nat with (S (length l)) by lia.
    unfold bd_rs_rest in Hr. rewrite Hd in Hr. rewrite Hr. change (LF :: tl) with ([LF] ++ tl). rewrite app_assoc.
    apply bd_firstn_exact'. rewrite app_length. cbn. lia. }
  set (c1 := bd_rs_copied (S (length l)) (Some LF) c).
  assert (F1 : c_out c1 = (c_out c) <| k_next_byte := Some LF |> <| k_read := (k_read (c_out c) + S (length l))%nat |>) by reflexivity.
  assert (F2 : c_out_tx c1 = Some o /\ c_out_status c1 = c_out_status c /\ c_events c1 = c_events c /\
               c_out_body_data_left c1 = c_out_body_data_left c /\ c_out_state c1 = c_out_state c /\ tx_slot c1 o = Some t).
  { bd_rsplits; try assumption; try reflexivity; try (rewrite <- Hl; apply bd_slot_ext; reflexivity). }
  clearbody c1. destruct F2 as (G1 & G2 & G3 & G4 & G5 & G7).
  assert (P1 : k_data (c_out c1) = Some d) by (rewrite F1; exact Hd).
  assert (P2 : k_header (c_out c1) = None) by (rewrite F1; exact Hhd).
  assert (P3 : k_read (c_out c1) = (k_read (c_out c) + S (length l))%nat) by (rewrite F1; reflexivity).
  assert (P4 : k_consume (c_out c1) = k_read (c_out c)) by (rewrite F1; exact Hc).
  assert (P5 : k_buf (c_out c1) = k_buf (c_out c)) by (rewrite F1; reflexivity).
  assert (P6 : k_len (c_out c1) = k_len (c_out c) /\ k_receiver_hook (c_out c1) = None) by (rewrite F1; split; [reflexivity|exact Hrcv]).
  assert (P7 : bd_rs_pending c1 = bd_rs_pending c) by (unfold bd_rs_pending; rewrite P5; reflexivity).
  assert (Hcons : exists c2, rs_consolidate g c1 = (Some (Some line), c2) /\
             c_out_tx c2 = Some o /\ c_out_status c2 = c_out_status c /\ c_events c2 = c_events c /\
             c_out_body_data_left c2 = c_out_body_data_left c /\ c_out_state c2 = c_out_state c /\ tx_slot c2 o = Some t /\
             k_data (c_out c2) = Some d /\ k_len (c_out c2) = k_len (c_out c) /\ k_read (c_out c2) = (k_read (c_out c) + S (length l))%nat /\
             k_header (c_out c2) = None /\ k_receiver_hook (c_out c2) = None).
  { unfold rs_consolidate. destruct (k_buf (c_out c1)) as [b|] eqn:Eb.
    - rewrite (bd_rs_res_buffer_spec o c1 d P1 P2 G1); [|lia|rewrite P7, P3, P4, Hpiece, app_length; cbn [length]; lia].
      rewrite Eb, P3, P4, Hpiece.
      eexists. split; [cbn; unfold line, bd_rs_pending; rewrite <- P5; reflexivity|].
      cbn. rewrite P1, P2, P3. destruct P6 as (P6 & P8). rewrite P6, P8.
      bd_rsplits; try assumption; try reflexivity; try (rewrite <- G7; apply bd_slot_ext; reflexivity).
    - rewrite P1. assert (E1 : (k_read (c_out c1) <? k_consume (c_out c1))%nat = false) by (apply Nat.ltb_ge; lia). rewrite E1.
      rewrite P3, P4, Hpiece. exists c1. split; [unfold line, bd_rs_pending; rewrite <- P5; reflexivity|].
      destruct P6 as (P6 & P8). bd_rsplits; assumption. }
  destruct Hcons as (c2 & Hcons & H1 & H2 & H3 & H4 & H5 & H7 & K1 & K2 & K3 & K4 & K5).
  set (t1 := t <| t_response_message_len ::= Z.add (Z.of_nat (length line)) |>).
  assert (Hup : rs_otx (fun t => t <| t_response_message_len ::= Z.add (Z.of_nat (length line)) |>) c2 = bd_set_tx o t1 c2)
    by (unfold rs_otx; rewrite H1; apply bd_tx_upd_eq; exact H7).
  unfold bd_rs_line_done. rewrite Hcons. cbv zeta. cbn [rs_dbytes]. rewrite Hup.
  set (c3 := bd_set_tx o t1 c2).
  assert (H7' : tx_slot c3 o = Some t1) by (apply (bd_slot_set _ _ _ _ H7)).
  assert (F3 : c_out c3 = c_out c2 /\ c_out_tx c3 = Some o /\ c_out_status c3 = c_out_status c /\ c_events c3 = c_events c /\
               c_out_body_data_left c3 = c_out_body_data_left c /\ c_out_state c3 = c_out_state c)
    by (bd_rsplits; try assumption; reflexivity).
  clearbody c3. destruct F3 as (J0 & J1 & J2 & J3 & J4 & J5).
  fold (bd_rs_line_value line). fold v.
  assert (Ev1 : (v =? -1004) = false) by (apply Z.eqb_neq; lia). rewrite Ev1.
  assert (Ev2 : (v <? 0) = false) by (apply Z.ltb_ge; lia). rewrite Ev2.
  set (c4 := rs_clear_buffer (c3 <| c_out_chunked_length := v |>)).
  assert (F4 : c_out c4 = (c_out c3) <| k_consume := k_read (c_out c3) |> <| k_buf := None |> /\ c_out_tx c4 = Some o /\
               c_out_status c4 = c_out_status c /\ c_events c4 = c_events c /\ c_out_body_data_left c4 = c_out_body_data_left c /\
               c_out_state c4 = c_out_state c /\ c_out_chunked_length c4 = v /\ tx_slot c4 o = Some t1).
  { bd_rsplits; try assumption; try reflexivity; try (rewrite <- H7'; apply bd_slot_ext; reflexivity). }
  clearbody c4. destruct F4 as (L0 & L1 & L2 & L3 & L4 & L5 & L7 & L8).
  assert (Lcur : k_data (c_out c4) = k_data (c_out c) /\ k_len (c_out c4) = k_len (c_out c) /\
                 k_read (c_out c4) = (k_read (c_out c) + length l + 1)%nat /\ k_consume (c_out c4) = k_read (c_out c4) /\
                 k_buf (c_out c4) = None /\ k_header (c_out c4) = None /\ k_receiver_hook (c_out c4) = None).
  { rewrite L0, J0. cbn. rewrite K1, K2, K3, K4, K5, Hd. bd_rsplits; try reflexivity. lia. }
  destruct Lcur as (Q1 & Q2 & Q3 & Q4 & Q5 & Q6 & Q7).
  unfold bd_rs_line_state.
  destruct (0 <? v) eqn:Ev3.
  - eexists. split; [reflexivity|]. unfold rs_set_state. cbn. bd_rsplits; try assumption; try reflexivity.
    exists t1. split; [rewrite <- L8; apply bd_slot_ext; reflexivity|]. subst t1. cbn. bd_rsplits; try reflexivity; try lia.
    all: try (intros Hv0; apply Z.ltb_lt in Ev3; lia).
  - unfold rs_otx. change (c_out_tx (rs_set_state RES_HEADERS c4)) with (c_out_tx c4). rewrite L1.
    assert (L8' : tx_slot (rs_set_state RES_HEADERS c4) o = Some t1) by (rewrite <- L8; apply bd_slot_ext; reflexivity).
    rewrite (bd_tx_upd_eq _ _ _ _ L8').
    eexists. split; [reflexivity|]. unfold rs_set_state. cbn. bd_rsplits; try assumption; try reflexivity.
    eexists. split; [apply (bd_slot_set _ _ _ _ L8')|]. subst t1. cbn. bd_rsplits; try reflexivity; try lia.
Qed.
End Res.
