(* C16: PSegPipe.v, Section Pipe (the passes at a request boundary) over the generalised world of PTunSeg.v. *)
Require Import Htp.Model.Base Htp.Model.MBstr Htp.Model.MConnTypes Htp.Model.MTxCommon Htp.Model.MReqLine Htp.Model.MReqUri Htp.Model.MTxReq.
Require Import Htp.Model.MReq Htp.Model.MRes Htp.Model.MConnp.
Require Import Htp.Spec.SWire Htp.Proof.PWire Htp.Proof.PWireHdr Htp.Proof.PWireBlock Htp.Proof.PWireConn Htp.Proof.PWireExch.
Require Import Htp.Proof.PWireRun Htp.Proof.PWirePres Htp.Proof.PWireGlue Htp.Proof.PSeg Htp.Proof.PSegLine Htp.Proof.PSegHdr Htp.Proof.PSegGen Htp.Proof.PSegRun.
Require Import Htp.Proof.PSegFold Htp.Proof.PSegPipe Htp.Proof.PTunBase Htp.Proof.PTunSeg Htp.Proof.PTunSegLine Htp.Proof.PTunSegHdr Htp.Proof.PTunSegFold Htp.Proof.PTunSegRun.

Section Pipe.
Variable cb : cb_oracle.
Variable g : cfg.
Hypothesis Hcb : wr_all_ok cb.
Hypothesis Hspace : g_allow_space_uri g = false.
Context {w : tg_world}.
Notation tg_cin := (tg_cinw w).
Notation tg_mid := (tg_midw w).

(* ---- for (;;) { IN_PEEK_NEXT; if (next == LF) break; IN_COPY_BYTE_OR_RETURN; } ---- *)
Lemma tg_peek_copy_nolf d hdr st prev rh t : forall u c rd p n,
  tg_cin c d rd p hdr st prev rh t -> skipn rd d = u -> sg_no_lf u = true -> (length u <= n)%nat ->
  exists c', rq_peek_copy_until (fun b => (b =? LF)%N) n c = (false, c') /\ tg_cin c' d (length d) (p ++ u) hdr st prev rh t.
Proof.
  induction u as [|b u IH]; intros c rd p n H Hu Hnl Hn.
  - pose proof (sg_skipn_nil d rd Hu) as L. pose proof H as [A1 A2 A3 A4 A5 A6 A7 A8 A9 A10 A11 A12 A13 A14 A15 A16 A17].
    assert (E : rd = length d) by lia.
    assert (Nn : nth_error d rd = None) by (apply nth_error_None; lia).
    destruct n; cbn [rq_peek_copy_until]; rewrite (sg_peek c d A4 A5), A6, Nn; cbn [c_in rq_set_in set k_next_byte]; cbn;
      unfold rq_copy_byte, rq_at_end; cbn; rewrite A5, A6, E, Nat.leb_refl;
      (eexists; split; [reflexivity|]; rewrite app_nil_r; apply tg_cin_next; rewrite <- E; exact H).
  - destruct (sg_skipn_cons d rd b u Hu) as (Hnth & Hu' & Hlt). pose proof H as [A1 A2 A3 A4 A5 A6 A7 A8 A9 A10 A11 A12 A13 A14 A15 A16 A17].
    cbn [sg_no_lf forallb] in Hnl. apply andb_prop in Hnl. destruct Hnl as [Hb Hnl]. apply negb_true_iff in Hb.
    cbn [length] in Hn. destruct n as [|n]; [lia|].
    cbn [rq_peek_copy_until]. rewrite (sg_peek c d A4 A5), A6, Hnth.
    set (c0 := rq_set_in (fun k => k <| k_next_byte := Some b |>) c).
    change (k_next_byte (c_in c0)) with (Some b). cbv beta iota. rewrite Hb.
    assert (Hnth0 : nth_error d (k_read (c_in c0)) = Some b) by (change (k_read (c_in c0)) with (k_read (c_in c)); rewrite A6; exact Hnth).
    rewrite (wr_copy_byte c0 d b A4 A5 Hnth0).
    assert (H0 : tg_cin c0 d rd p hdr st prev rh t) by (unfold c0; apply tg_cin_next; exact H).
    destruct (IH (rq_set_in (wr_kadv b) c0) (S rd) (p ++ [b]) n (tg_cin_adv _ _ _ _ _ _ _ _ _ b H0 Hnth) Hu' Hnl ltac:(lia)) as (c' & E & H').
    exists c'. split; [exact E|]. rewrite <- app_assoc in H'. exact H'.
Qed.
Lemma tg_peek_copy_lf d hdr st prev rh t u2 : forall u1 c rd p n,
  tg_cin c d rd p hdr st prev rh t -> skipn rd d = u1 ++ LF :: u2 -> sg_no_lf u1 = true -> (length u1 <= n)%nat ->
  exists c', rq_peek_copy_until (fun b => (b =? LF)%N) n c = (true, c') /\ tg_cin c' d (rd + length u1) (p ++ u1) hdr st prev rh t.
Proof.
  induction u1 as [|b u1 IH]; intros c rd p n H Hu Hnl Hn.
  - cbn [app] in Hu. destruct (sg_skipn_cons d rd LF u2 Hu) as (Hnth & Hu' & Hlt). pose proof H as [A1 A2 A3 A4 A5 A6 A7 A8 A9 A10 A11 A12 A13 A14 A15 A16 A17].
    destruct n; cbn [rq_peek_copy_until]; rewrite (sg_peek c d A4 A5), A6, Hnth; cbn [c_in rq_set_in set k_next_byte]; cbn;
      (eexists; split; [reflexivity|]; cbn [length]; rewrite Nat.add_0_r, app_nil_r; apply tg_cin_next; exact H).
  - cbn [app] in Hu. destruct (sg_skipn_cons d rd b _ Hu) as (Hnth & Hu' & Hlt). pose proof H as [A1 A2 A3 A4 A5 A6 A7 A8 A9 A10 A11 A12 A13 A14 A15 A16 A17].
    cbn [sg_no_lf forallb] in Hnl. apply andb_prop in Hnl. destruct Hnl as [Hb Hnl]. apply negb_true_iff in Hb.
    cbn [length] in Hn. destruct n as [|n]; [lia|].
    cbn [rq_peek_copy_until]. rewrite (sg_peek c d A4 A5), A6, Hnth.
    set (c0 := rq_set_in (fun k => k <| k_next_byte := Some b |>) c).
    change (k_next_byte (c_in c0)) with (Some b). cbv beta iota. rewrite Hb.
    assert (Hnth0 : nth_error d (k_read (c_in c0)) = Some b) by (change (k_read (c_in c0)) with (k_read (c_in c)); rewrite A6; exact Hnth).
    rewrite (wr_copy_byte c0 d b A4 A5 Hnth0).
    assert (H0 : tg_cin c0 d rd p hdr st prev rh t) by (unfold c0; apply tg_cin_next; exact H).
    destruct (IH (rq_set_in (wr_kadv b) c0) (S rd) (p ++ [b]) n (tg_cin_adv _ _ _ _ _ _ _ _ _ b H0 Hnth) Hu' Hnl ltac:(lia)) as (c' & E & H').
    exists c'. split; [exact E|]. cbn [length]. replace (rd + S (length u1))%nat with (S rd + length u1)%nat by lia.
    rewrite <- app_assoc in H'. exact H'.
Qed.

(* ---- REQ_FINALIZE with more data in the chunk ---- *)
Lemma tg_fin_scan c d rd p t : tg_cin c d rd p None REQ_FINALIZE (Some REQ_FINALIZE) None t -> k_consume (c_in c) = rd -> (rd < length d)%nat ->
  rq_finalize_scan c =
    match rq_peek_copy_until (fun b => (b =? LF)%N) (length d - rd) (rq_set_in (fun k => k <| k_next_byte := nth_error d rd |>) c) with
    | (true, c') => RF_probe c'
    | (false, c') => RF_buffer c'
    end.
Proof.
  intros H Hc Hlt. pose proof H as [A1 A2 A3 A4 A5 A6 A7 A8 A9 A10 A11 A12 A13 A14 A15 A16 A17].
  unfold rq_finalize_scan. rewrite (tg_live_closed _ A1), (sg_peek c d A4 A5), A6.
  destruct (nth_error d rd) as [b|] eqn:Nb; [|apply nth_error_None in Nb; lia].
  cbn [c_in rq_set_in set k_next_byte k_read k_consume k_len]. cbn. rewrite A6, Hc, A5, Nat.leb_refl, orb_true_r. reflexivity.
Qed.

(* no LF in the rest of the chunk: it is buffered, the parser stays in REQ_FINALIZE *)
Lemma tg_fin_buffer c d rd p t : tg_cin c d rd p None REQ_FINALIZE (Some REQ_FINALIZE) None t -> k_consume (c_in c) = rd -> (rd < length d)%nat ->
  sg_no_lf (skipn rd d) = true -> (length (p ++ skipn rd d) <= g_field_limit_hard g)%nat ->
  exists cF, rq_iter cb g false c = inl (cF, c_HTP_STREAM_DATA) /\ tg_mid cF (p ++ skipn rd d) None REQ_FINALIZE None t.
Proof.
  intros H Hc Hlt Hnl Hlim.
  assert (Es : c_in_state c = REQ_FINALIZE) by apply (gi_state _ _ _ _ _ _ _ _ _ H).
  destruct (tg_peek_copy_nolf d None _ _ _ t (skipn rd d) _ rd p (length d - rd) (tg_cin_next _ _ _ _ _ _ _ _ _ (nth_error d rd) H) eq_refl Hnl) as (c1 & E1 & H1);
    [rewrite skipn_length; lia|].
  destruct (tg_exit_buffer cb g Hcb c1 d _ None _ _ t H1) as (cF & EF & HF); [cbn [sg_olist length]; lia|].
  exists cF. split; [|exact HF].
  unfold rq_iter. rewrite Es. cbn [rq_state_fn]. unfold REQ_FINALIZE_fn. rewrite (tg_fin_scan c d rd p t H Hc Hlt), E1, EF. reflexivity.
Qed.

(* the next line starts with a known method: the request is complete; the bytes looked at remain for REQ_LINE *)
Lemma tg_fin_probe c d rd p t u1 u2 m' rest' : tg_cin c d rd p None REQ_FINALIZE (Some REQ_FINALIZE) None t -> k_consume (c_in c) = rd ->
  skipn rd d = u1 ++ LF :: u2 -> sg_no_lf u1 = true -> p ++ u1 = m' ++ SP :: rest' -> wr_token m' = true ->
  (htp_convert_method_to_number m' =? c_HTP_M_UNKNOWN)%Z = false -> (length (p ++ u1) <= g_field_limit_hard g)%nat ->
  t_request_transfer_coding t = c_HTP_CODING_NO_BODY -> t_request_progress t = c_HTP_REQUEST_HEADERS ->
  (t_response_progress t =? c_HTP_RESPONSE_COMPLETE)%Z = false -> t_is_protocol_0_9 t = false ->
  exists c6, rq_iter cb g false c = inr c6 /\
    tg_idl c6 d (rd + length u1) (p ++ u1) (gw_done w ++ [Some (t <| t_request_progress := c_HTP_REQUEST_COMPLETE |>)]) (gw_aux w) (Some REQ_IDLE).
Proof.
  intros H Hc Hu Hnl Hp Wm Hk Hlim Htc Hprog Hresp H09.
  assert (Es : c_in_state c = REQ_FINALIZE) by apply (gi_state _ _ _ _ _ _ _ _ _ H).
  assert (Hlt' : (rd < length d)%nat).
  { destruct (Nat.lt_ge_cases rd (length d)) as [L|L]; [exact L|]. rewrite skipn_all2 in Hu by lia. destruct u1; discriminate. }
  assert (Ln : (length u1 <= length d - rd)%nat).
  { assert (L : length (skipn rd d) = length (u1 ++ LF :: u2)) by (rewrite Hu; reflexivity). rewrite skipn_length, app_length in L. cbn [length] in L. lia. }
  destruct (tg_peek_copy_lf d None _ _ _ t u2 u1 _ rd p (length d - rd) (tg_cin_next _ _ _ _ _ _ _ _ _ (nth_error d rd) H) Hu Hnl Ln) as (c1 & E1 & H1).
  destruct (tg_consolidate g c1 d _ _ None _ _ _ t H1) as (c2 & E2 & H2); [cbn [sg_olist length]; lia|].
  destruct (wr_token_split m' Wm) as (m0 & mr & Em & _).
  destruct (sg_probe_method m' rest' Wm) as [Pm Ps].
  assert (Hbd : tg_cin (c2 <| c_in_body_data_left := (-1)%Z |>) d (rd + length u1) (p ++ u1) None REQ_FINALIZE (Some REQ_FINALIZE) None t) by (apply tg_cin_bdl; exact H2).
  destruct (tg_request_complete cb g Hcb _ d _ _ _ t Hbd Htc Hprog Hresp H09) as (c3 & E3 & H3).
  apply (tg_iter_idle cb g c c3 d _ _ _ _ (Some REQ_FINALIZE)); [|exact H3].
  rewrite Es. cbn [rq_state_fn]. unfold REQ_FINALIZE_fn. rewrite (tg_fin_scan c d rd p t H Hc Hlt'), E1, E2.
  rewrite Hp.
  assert (Hm : forall (A B : st * connp), match m' ++ SP :: rest' with [] => A | _ :: _ => B end = B) by (intros; rewrite Em; reflexivity).
  rewrite Hm, Pm, Ps, Hk.
  assert (L0 : (0 <? length m')%nat = true) by (rewrite Em; reflexivity). rewrite L0. cbn [andb negb]. exact E3.
Qed.

(* ---- the pass through REQ_LINE that sees the LF, anywhere in the chunk ---- *)
Lemma tg_pass_line_at c d rd p u1 u2 t m u pr : wr_wf_request_line m u pr = true -> t_is_protocol_0_9 t = false ->
  tg_cin c d rd p None REQ_LINE (Some REQ_LINE) None t -> skipn rd d = u1 ++ LF :: u2 -> sg_no_lf u1 = true ->
  p ++ u1 ++ [LF] = wr_ser_request_line m u pr ++ [CR; LF] ->
  (length (wr_ser_request_line m u pr) + 2 <= g_field_limit_hard g)%nat ->
  exists c', rq_iter cb g false c = inr c' /\
    tg_cin c' d (rd + length u1 + 1) [] None REQ_PROTOCOL (Some REQ_PROTOCOL) None (sg_tx_line g t (wr_ser_request_line m u pr)) /\
    skipn (rd + length u1 + 1) d = u2.
Proof.
  intros W H09 H Ed Hnl Ep Hlim.
  assert (Es : c_in_state c = REQ_LINE) by apply (gi_state _ _ _ _ _ _ _ _ _ H).
  assert (Ef : rq_state_fn cb g (c_in_state c) c = REQ_LINE_fn cb g c) by (rewrite Es; reflexivity).
  unfold REQ_LINE_fn in Ef. rewrite (gi_len _ _ _ _ _ _ _ _ _ H), (gi_read _ _ _ _ _ _ _ _ _ H) in Ef.
  assert (Ln : (length u1 <= length d - rd)%nat).
  { assert (L : length (skipn rd d) = length (u1 ++ LF :: u2)) by (rewrite Ed; reflexivity). rewrite skipn_length, app_length in L. cbn [length] in L. lia. }
  destruct (tg_line_scan_lf cb g d None (Some REQ_LINE) None t u2 u1 c rd p (length d - rd) H Ed Hnl Ln) as (c1 & E1 & H1 & Hr1).
  rewrite E1 in Ef. rewrite Ep in H1.
  destruct (tg_line_complete cb g Hcb Hspace c1 d _ _ t m u pr W H09 H1 Hlim) as (c2 & E2 & H2). rewrite E2 in Ef.
  destruct (tg_iter_ok cb g c c2 d _ _ _ _ _ _ _ Ef H2) as (c3 & E3 & H3); [discriminate|].
  exists c3. split; [exact E3|]. split; [exact H3|exact Hr1].
Qed.

(* ---- a request line: either the chunk ends inside it, or REQ_LINE and REQ_PROTOCOL lead to REQ_HEADERS ---- *)
Lemma tg_pipe_line c d rd p q (rw' bwt : bytes) m u pr :
  wr_wf_request_line m u pr = true -> (length (wr_ser_request_line m u pr) + 2 <= g_field_limit_hard g)%nat ->
  tg_cin c d rd p None REQ_LINE (Some REQ_LINE) None (sg_t1 (length (gw_done w))) ->
  p ++ q = wr_ser_request_line m u pr ++ [CR; LF] -> q <> [] -> skipn rd d ++ rw' = q ++ bwt ->
  (exists cF q2, rq_iter cb g false c = inl (cF, c_HTP_STREAM_DATA) /\ tg_mid cF (p ++ skipn rd d) None REQ_LINE None (sg_t1 (length (gw_done w))) /\
     q2 <> [] /\ (p ++ skipn rd d) ++ q2 = wr_ser_request_line m u pr ++ [CR; LF] /\ rw' = q2 ++ bwt) \/
  (exists c3 rd2, (forall f, rq_loop cb g (2 + f) false c = rq_loop cb g f false c3) /\
     tg_cin c3 d rd2 [] None REQ_HEADERS (Some REQ_HEADERS) (Some H_REQUEST_HEADER_DATA) (sg_th0 g (length (gw_done w)) m u pr) /\
     skipn rd2 d ++ rw' = bwt /\ (rd < rd2)%nat).
Proof.
  intros Wl Hlim0 H Hpq Hq Hw. set (line0 := wr_ser_request_line m u pr) in *.
  destruct (wr_reqline_bytes m u pr Wl) as (Hnolf & _). fold line0 in Hnolf.
  assert (Eb : line0 ++ [CR; LF] = (line0 ++ [CR]) ++ [LF]) by (rewrite <- app_assoc; reflexivity).
  destruct (sg_app_cases (skipn rd d) rw' q _ Hw) as [Clt Cge].
  assert (Es : c_in_state c = REQ_LINE) by apply (gi_state _ _ _ _ _ _ _ _ _ H).
  pose proof (gi_rd _ _ _ _ _ _ _ _ _ H) as Hrd.
  destruct (Nat.lt_ge_cases (length (skipn rd d)) (length q)) as [Llt|Lge].
  - destruct (Clt Llt) as (q2 & Eq & Hq2 & Erw).
    assert (Nu : sg_no_lf (skipn rd d) = true).
    { rewrite Eq, Eb, app_assoc in Hpq. destruct (sg_app_last _ _ _ _ Hpq Hq2) as (q3 & _ & E3). unfold sg_no_lf. rewrite <- E3, <- app_assoc, !forallb_app in Hnolf.
      apply andb_prop in Hnolf. destruct Hnolf as [_ Nb]. apply andb_prop in Nb. apply Nb. }
    destruct (tg_line_scan_nolf cb g d None _ _ _ (skipn rd d) c rd p (length d - rd) H eq_refl Nu) as (c' & E & H'); [rewrite skipn_length; lia|].
    assert (Lim : (length (p ++ skipn rd d) + length (sg_olist None) <= g_field_limit_hard g)%nat).
    { assert (L : length (p ++ q) = (length line0 + 2)%nat) by (rewrite Hpq, app_length; reflexivity). rewrite app_length in L. rewrite app_length.
      cbn [sg_olist length]. unfold line0 in *. lia. }
    destruct (tg_exit_buffer cb g Hcb c' d _ None _ _ _ H' Lim) as (cF & EF & HF).
    left. exists cF, q2. split.
    + unfold rq_iter. rewrite Es. cbn [rq_state_fn]. unfold REQ_LINE_fn.
      rewrite (gi_len _ _ _ _ _ _ _ _ _ H), (gi_read _ _ _ _ _ _ _ _ _ H), E, EF. reflexivity.
    + split; [exact HF|]. split; [exact Hq2|]. split; [rewrite <- app_assoc, <- Eq; exact Hpq|exact Erw].
  - destruct (Cge Lge) as (d2 & Ed & Eaft).
    rewrite Eb in Hpq. destruct (sg_app_last _ _ _ _ Hpq Hq) as (q1 & Eq1 & Ep1).
    assert (Nq1 : sg_no_lf q1 = true) by (unfold sg_no_lf in *; rewrite <- Ep1, forallb_app in Hnolf; apply andb_prop in Hnolf; apply Hnolf).
    assert (Ed' : skipn rd d = q1 ++ LF :: d2) by (rewrite Ed, Eq1, <- app_assoc; reflexivity).
    assert (Ep : p ++ q1 ++ [LF] = wr_ser_request_line m u pr ++ [CR; LF]) by (rewrite app_assoc, Ep1; symmetry; exact Eb).
    destruct (tg_pass_line_at c d rd p q1 d2 (sg_t1 (length (gw_done w))) m u pr Wl eq_refl H Ed' Nq1 Ep Hlim0) as (c2 & E2 & H2 & Hr2).
    assert (Z9 : t_is_protocol_0_9 (sg_tx_line g (sg_t1 (length (gw_done w))) (wr_ser_request_line m u pr)) = false).
    { destruct (sg_tx_line_facts g Hspace (sg_t1 (length (gw_done w))) m u pr Wl eq_refl) as (_ & F' & _). cbv zeta in F'. unfold wr_line_fields in F'. decompose [and] F'. assumption. }
    destruct (tg_pass_protocol cb g c2 d _ _ H2 Z9) as (c3 & E3 & H3).
    right. exists c3, (rd + length q1 + 1)%nat. split; [|split; [exact H3|split; [rewrite Hr2; symmetry; exact Eaft|lia]]].
    intros f. change (2 + f)%nat with (S (S f)). rewrite (sg_rq_loop_inr cb g _ _ _ E2), (sg_rq_loop_inr cb g _ _ _ E3). reflexivity.
Qed.

Lemma tg_pipe_hdrs c d rd p hdr t (rw' tailw : bytes) m u pr fs :
  wr_wf_request_line m u pr = true -> wr_block_ok fs = true ->
  existsb (fun f => wr_same (wf_name f) wr_str_content_length || wr_same (wf_name f) wr_str_transfer_encoding) fs = false ->
  wr_eqb m wr_str_connect = false ->
  tg_cin c d rd p hdr REQ_HEADERS (Some REQ_HEADERS) (Some H_REQUEST_HEADER_DATA) t ->
  sg_fhlog g (wr_block_tx fs (sg_th0 g (length (gw_done w)) m u pr)) tailw hdr t p (skipn rd d ++ rw') ->
  (exists cF p' hdr' t', rq_iter cb g false c = inl (cF, c_HTP_STREAM_DATA) /\ tg_mid cF p' hdr' REQ_HEADERS (Some H_REQUEST_HEADER_DATA) t' /\
     sg_fhlog g (wr_block_tx fs (sg_th0 g (length (gw_done w)) m u pr)) tailw hdr' t' p' rw' /\ rw' <> []) \/
  (exists c5 rd1 fl, (forall f, rq_loop cb g (3 + f) false c = rq_loop cb g f false c5) /\
     tg_cin c5 d rd1 [] None REQ_FINALIZE (Some REQ_FINALIZE) None (sg_tpre g (length (gw_done w)) m u pr fs fl) /\
     skipn rd1 d ++ rw' = tailw /\ (rd < rd1)%nat).
Proof.
  intros Wl Wb Wnf Wc H Hlog. pose proof Hlog as (pend & tl & rem & q & Hrel & Ok & Hnp & Hrun & Hpq & Hq & Hw & Hfit).
  assert (Es : c_in_state c = REQ_HEADERS) by apply (gi_state _ _ _ _ _ _ _ _ _ H).
  assert (Ef : rq_state_fn cb g REQ_HEADERS c = REQ_HEADERS_loop cb g (length d - rd) c).
  { cbn [rq_state_fn]. unfold REQ_HEADERS_fn. rewrite (gi_len _ _ _ _ _ _ _ _ _ H), (gi_read _ _ _ _ _ _ _ _ _ H). reflexivity. }
  destruct (tg_fhdrs_loop cb g d rw' _ tailw rem c rd p q hdr t pend tl (length d - rd) H Hrel Ok Hnp Hrun Hpq Hq Hw Hfit (le_n _)) as [HA|HB].
  - destruct HA as (c' & p' & hdr' & t' & EA & HA1 & HA2 & HA3).
    assert (Lim : (length p' + length (sg_olist hdr') <= g_field_limit_hard g)%nat).
    { destruct HA2 as (pe & te & re & q' & Hr' & _ & _ & _ & Epq & _ & _ & Fit). pose proof (sg_ffit_next _ _ _ Fit) as L. rewrite <- Epq, app_length in L.
      pose proof (sg_rel_len _ _ _ _ _ Hr'). lia. }
    destruct (tg_exit_buffer cb g Hcb c' d p' hdr' _ _ t' HA1 Lim) as (cF & EF & HF).
    left. exists cF, p', hdr', t'. split; [unfold rq_iter; rewrite Es, Ef, EA, EF; reflexivity|]. split; [exact HF|]. split; [exact HA2|exact HA3].
  - destruct HB as (c' & rd1 & EB & HB1 & HB2). rewrite <- Ef in EB.
    destruct (tg_tail_fin cb g Hcb Hspace m u pr fs Wl Wb Wnf Wc c c' d rd1 Es EB HB1) as (c5 & fl & St & H5).
    right. exists c5, rd1, fl. split; [exact St|]. split; [exact H5|]. split; [exact HB2|].
    (* at least the LF of the empty line was read *)
    pose proof (gi_rd _ _ _ _ _ _ _ _ _ H5) as L1. pose proof (gi_rd _ _ _ _ _ _ _ _ _ H) as L0.
    assert (La : length (skipn rd d ++ rw') = length (q ++ sg_fafter tailw rem)) by (rewrite Hw; reflexivity).
    assert (Lb : length (skipn rd1 d ++ rw') = length tailw) by (rewrite HB2; reflexivity).
    rewrite !app_length, !skipn_length in *. pose proof (sg_fafter_len tailw rem). destruct q; [contradiction|]. cbn [length] in La. lia.
Qed.
End Pipe.
