(* C16: PSegLine.v (REQ_IDLE, REQ_LINE cut anywhere, REQ_PROTOCOL) over the generalised world of PTunSeg.v. *)
Require Import Htp.Model.Base Htp.Model.MBstr Htp.Model.MConnTypes Htp.Model.MTxCommon Htp.Model.MReqLine Htp.Model.MReqUri Htp.Model.MTxReq.
Require Import Htp.Model.MReq Htp.Model.MRes Htp.Model.MConnp.
Require Import Htp.Spec.SWire Htp.Proof.PWire Htp.Proof.PWireHdr Htp.Proof.PWireBlock Htp.Proof.PWireConn Htp.Proof.PWireExch.
Require Import Htp.Proof.PWireRun Htp.Proof.PWirePres Htp.Proof.PWireGlue Htp.Proof.PSeg Htp.Proof.PSegLine Htp.Proof.PSegHdr Htp.Proof.PSegGen Htp.Proof.PSegRun.
Require Import Htp.Proof.PSegFold Htp.Proof.PSegPipe Htp.Proof.PTunBase Htp.Proof.PTunSeg.

Section Line.
Variable cb : cb_oracle.
Variable g : cfg.
Hypothesis Hcb : wr_all_ok cb.
Hypothesis Hspace : g_allow_space_uri g = false.
Context {w : tg_world}.
Notation tg_cin := (tg_cinw w).
Notation tg_mid := (tg_midw w).

(* ---- REQ_LINE: scanning for the LF ---- *)
Lemma tg_line_scan_nolf d hdr prev rh t : forall u c rd p n,
  tg_cin c d rd p hdr REQ_LINE prev rh t -> skipn rd d = u -> sg_no_lf u = true -> (length u <= n)%nat ->
  exists c', REQ_LINE_loop cb g n c = (ST_DATA_BUFFER, c') /\ tg_cin c' d (length d) (p ++ u) hdr REQ_LINE prev rh t.
Proof.
  induction u as [|b u IH]; intros c rd p n H Hu Hnl Hn.
  - pose proof (sg_skipn_nil d rd Hu) as L. pose proof H as [A1 A2 A3 A4 A5 A6 A7 A8 A9 A10 A11 A12 A13 A14 A15 A16 A17].
    assert (E : rd = length d) by lia.
    rewrite wr_line_loop_eq, (sg_peek c d A4 A5). cbv zeta.
    match goal with |- context [rq_copy_byte ?x] => set (c0 := x) end.
    change (c_in_status c0) with (c_in_status c). rewrite (tg_live_closed _ A1). cbn [andb].
    unfold rq_copy_byte, rq_at_end. change (k_len (c_in c0)) with (k_len (c_in c)). change (k_read (c_in c0)) with (k_read (c_in c)).
    rewrite A5, A6, E, Nat.leb_refl. exists c0. split; [reflexivity|]. rewrite app_nil_r. unfold c0. apply tg_cin_next. rewrite <- E. exact H.
  - destruct (sg_skipn_cons d rd b u Hu) as (Hnth & Hu' & Hlt). pose proof H as [A1 A2 A3 A4 A5 A6 A7 A8 A9 A10 A11 A12 A13 A14 A15 A16 A17].
    cbn [sg_no_lf forallb] in Hnl. apply andb_prop in Hnl. destruct Hnl as [Hb Hnl]. apply negb_true_iff in Hb.
    cbn [length] in Hn. destruct n as [|n]; [lia|].
    rewrite wr_line_loop_eq, (sg_peek c d A4 A5). cbv zeta. rewrite A6, Hnth.
    match goal with |- context [rq_copy_byte ?x] => set (c0 := x) end.
    change (c_in_status c0) with (c_in_status c). rewrite (tg_live_closed _ A1). cbn [andb].
    assert (Hnth0 : nth_error d (k_read (c_in c0)) = Some b) by (change (k_read (c_in c0)) with (k_read (c_in c)); rewrite A6; exact Hnth).
    rewrite (wr_copy_byte c0 d b A4 A5 Hnth0).
    assert (Hnl' : rq_next_is (rq_set_in (wr_kadv b) c0) LF = false) by (unfold rq_next_is; cbn; exact Hb). rewrite Hnl'.
    assert (H0 : tg_cin c0 d rd p hdr REQ_LINE prev rh t) by (unfold c0; apply tg_cin_next; exact H).
    destruct (IH (rq_set_in (wr_kadv b) c0) (S rd) (p ++ [b]) n (tg_cin_adv _ _ _ _ _ _ _ _ _ b H0 Hnth) Hu' Hnl ltac:(lia)) as (c' & E & H').
    exists c'. split; [exact E|]. rewrite <- app_assoc in H'. exact H'.
Qed.
Lemma tg_line_scan_lf d hdr prev rh t u2 : forall u1 c rd p n,
  tg_cin c d rd p hdr REQ_LINE prev rh t -> skipn rd d = u1 ++ LF :: u2 -> sg_no_lf u1 = true -> (length u1 <= n)%nat ->
  exists c', REQ_LINE_loop cb g n c = REQ_LINE_complete cb g c' /\
             tg_cin c' d (rd + length u1 + 1) (p ++ u1 ++ [LF]) hdr REQ_LINE prev rh t /\ skipn (rd + length u1 + 1) d = u2.
Proof.
  induction u1 as [|b u1 IH]; intros c rd p n H Hu Hnl Hn.
  - cbn [app] in Hu. destruct (sg_skipn_cons d rd LF u2 Hu) as (Hnth & Hu' & Hlt). pose proof H as [A1 A2 A3 A4 A5 A6 A7 A8 A9 A10 A11 A12 A13 A14 A15 A16 A17].
    rewrite wr_line_loop_eq, (sg_peek c d A4 A5). cbv zeta. rewrite A6, Hnth.
    match goal with |- context [rq_copy_byte ?x] => set (c0 := x) end.
    change (c_in_status c0) with (c_in_status c). rewrite (tg_live_closed _ A1). cbn [andb].
    assert (Hnth0 : nth_error d (k_read (c_in c0)) = Some LF) by (change (k_read (c_in c0)) with (k_read (c_in c)); rewrite A6; exact Hnth).
    rewrite (wr_copy_byte c0 d LF A4 A5 Hnth0).
    assert (Hnl' : rq_next_is (rq_set_in (wr_kadv LF) c0) LF = true) by reflexivity. rewrite Hnl'.
    assert (H0 : tg_cin c0 d rd p hdr REQ_LINE prev rh t) by (unfold c0; apply tg_cin_next; exact H).
    eexists. split; [reflexivity|]. cbn [length app]. replace (rd + 0 + 1)%nat with (S rd) by lia.
    split; [apply tg_cin_adv; assumption|exact Hu'].
  - cbn [app] in Hu. destruct (sg_skipn_cons d rd b _ Hu) as (Hnth & Hu' & Hlt). pose proof H as [A1 A2 A3 A4 A5 A6 A7 A8 A9 A10 A11 A12 A13 A14 A15 A16 A17].
    cbn [sg_no_lf forallb] in Hnl. apply andb_prop in Hnl. destruct Hnl as [Hb Hnl]. apply negb_true_iff in Hb.
    cbn [length] in Hn. destruct n as [|n]; [lia|].
    rewrite wr_line_loop_eq, (sg_peek c d A4 A5). cbv zeta. rewrite A6, Hnth.
    match goal with |- context [rq_copy_byte ?x] => set (c0 := x) end.
    change (c_in_status c0) with (c_in_status c). rewrite (tg_live_closed _ A1). cbn [andb].
    assert (Hnth0 : nth_error d (k_read (c_in c0)) = Some b) by (change (k_read (c_in c0)) with (k_read (c_in c)); rewrite A6; exact Hnth).
    rewrite (wr_copy_byte c0 d b A4 A5 Hnth0).
    assert (Hnl' : rq_next_is (rq_set_in (wr_kadv b) c0) LF = false) by (unfold rq_next_is; cbn; exact Hb). rewrite Hnl'.
    assert (H0 : tg_cin c0 d rd p hdr REQ_LINE prev rh t) by (unfold c0; apply tg_cin_next; exact H).
    destruct (IH (rq_set_in (wr_kadv b) c0) (S rd) (p ++ [b]) n (tg_cin_adv _ _ _ _ _ _ _ _ _ b H0 Hnth) Hu' Hnl ltac:(lia)) as (c' & E & H' & Hr').
    exists c'. split; [exact E|]. cbn [length]. replace (rd + S (length u1) + 1)%nat with (S rd + length u1 + 1)%nat by lia.
    split; [|exact Hr']. rewrite <- app_assoc in H'. exact H'.
Qed.

Notation sg_tx_line := (Htp.Proof.PSegLine.sg_tx_line g).
Notation sg_tx_line_facts := (Htp.Proof.PSegLine.sg_tx_line_facts g Hspace).
Lemma tg_line_complete c d rd prev t m u p : wr_wf_request_line m u p = true -> t_is_protocol_0_9 t = false ->
  tg_cin c d rd (wr_ser_request_line m u p ++ [CR; LF]) None REQ_LINE prev None t ->
  (length (wr_ser_request_line m u p) + 2 <= g_field_limit_hard g)%nat ->
  exists c', REQ_LINE_complete cb g c = (ST_OK, c') /\
             tg_cin c' d rd [] None REQ_PROTOCOL prev None (sg_tx_line t (wr_ser_request_line m u p)).
Proof.
  intros W H09 H Hlim. set (line := wr_ser_request_line m u p) in *.
  destruct (wr_reqline_bytes m u p W) as (Hnolf & Hplain & (m0 & y & l & Esh & Sp0)). fold line in Hnolf, Hplain, Esh.
  unfold REQ_LINE_complete.
  destruct (tg_consolidate g c d rd _ None _ _ _ t H) as (c1 & E1 & H1); [rewrite app_length; cbn [length sg_olist]; lia|]. rewrite E1.
  assert (Ne : exists a r, line ++ [CR; LF] = a :: r) by (rewrite Esh; cbn [app]; eexists _, _; reflexivity).
  destruct Ne as (a & r & Ene). rewrite Ene. rewrite <- Ene.
  unfold htp_is_line_ignorable. rewrite Esh. cbn [app]. rewrite (wr_line_not_terminator _ m0 y l Sp0).
  change (m0 :: y :: l ++ [CR; LF]) with ((m0 :: y :: l) ++ [CR; LF]). rewrite <- Esh.
  rewrite (wr_chomp_line line [CR; LF] eq_refl Hplain).
  rewrite (tg_tx_upd c1 d rd _ _ _ _ _ t _ H1).
  set (t2 := htp_parse_request_line g (t <| t_request_line := Some line |>)).
  destruct (sg_tx_line_facts t m u p W H09) as (E3 & _). cbv zeta in E3. fold line in E3. fold t2 in E3.
  set (t3 := sg_tx_line t line) in *.
  set (c2 := tg_settx w t2 c1).
  assert (H2 : tg_cin c2 d rd (line ++ [CR; LF]) None REQ_LINE prev None t2) by (eapply tg_cin_txs; exact H1).
  unfold rq_with_tx. rewrite (gi_tx _ _ _ _ _ _ _ _ _ H2). unfold tx_state_request_line, tx_get. rewrite (tg_cin_slot _ _ _ _ _ _ _ _ _ H2).
  rewrite E3. rewrite (tg_tx_put c2 d rd _ _ _ _ _ t2 t3 H2).
  rewrite !(wr_run_hook cb Hcb).
  eexists. split; [reflexivity|].
  eapply tg_cin_clear. eapply tg_cin_state. apply tg_cin_hook. apply tg_cin_hook. eapply tg_cin_txs. exact H2.
Qed.

(* ---- the pass through REQ_LINE that sees the LF ---- *)
Lemma tg_pass_line c d p u1 u2 t m u pr : wr_wf_request_line m u pr = true -> t_is_protocol_0_9 t = false ->
  tg_cin c d 0 p None REQ_LINE (Some REQ_LINE) None t -> d = u1 ++ LF :: u2 -> sg_no_lf u1 = true ->
  p ++ u1 ++ [LF] = wr_ser_request_line m u pr ++ [CR; LF] ->
  (length (wr_ser_request_line m u pr) + 2 <= g_field_limit_hard g)%nat ->
  exists c', rq_iter cb g false c = inr c' /\
    tg_cin c' d (length u1 + 1) [] None REQ_PROTOCOL (Some REQ_PROTOCOL) None (sg_tx_line t (wr_ser_request_line m u pr)) /\
    skipn (length u1 + 1) d = u2.
Proof.
  intros W H09 H Ed Hnl Ep Hlim.
  assert (Es : c_in_state c = REQ_LINE) by apply (gi_state _ _ _ _ _ _ _ _ _ H).
  assert (Ef : rq_state_fn cb g (c_in_state c) c = REQ_LINE_fn cb g c) by (rewrite Es; reflexivity).
  unfold REQ_LINE_fn in Ef. rewrite (gi_len _ _ _ _ _ _ _ _ _ H), (gi_read _ _ _ _ _ _ _ _ _ H), Nat.sub_0_r in Ef.
  destruct (tg_line_scan_lf d None (Some REQ_LINE) None t u2 u1 c 0 p (length d) H) as (c1 & E1 & H1 & Hr1); [cbn [skipn]; exact Ed|exact Hnl|rewrite Ed, app_length; lia|].
  rewrite E1 in Ef. cbn [Nat.add] in H1, Hr1. rewrite Ep in H1.
  destruct (tg_line_complete c1 d _ _ t m u pr W H09 H1 Hlim) as (c2 & E2 & H2). rewrite E2 in Ef.
  destruct (tg_iter_ok cb g c c2 d _ _ _ _ _ _ _ Ef H2) as (c3 & E3 & H3); [discriminate|].
  exists c3. split; [exact E3|]. split; [exact H3|exact Hr1].
Qed.

(* ---- REQ_PROTOCOL, and the state change into REQ_HEADERS (the raw-header receiver is installed) ---- *)
Lemma tg_pass_protocol c d rd t : tg_cin c d rd [] None REQ_PROTOCOL (Some REQ_PROTOCOL) None t -> t_is_protocol_0_9 t = false ->
  exists c', rq_iter cb g false c = inr c' /\
    tg_cin c' d rd [] None REQ_HEADERS (Some REQ_HEADERS) (Some H_REQUEST_HEADER_DATA) (t <| t_request_progress := c_HTP_REQUEST_HEADERS |>).
Proof.
  intros H H09. pose proof (tg_cin_slot _ _ _ _ _ _ _ _ _ H) as Hsl. pose proof H as [A1 A2 A3 A4 A5 A6 A7 A8 A9 A10 A11 A12 A13 A14 A15 A16 A17].
  unfold rq_iter. rewrite A2. cbn [rq_state_fn]. unfold REQ_PROTOCOL_fn, rq_tx, in_txi, tx_get. rewrite A13, Hsl, H09. cbn [negb].
  unfold rq_to_headers.
  assert (H1 : tg_cin (c <| c_in_state := REQ_HEADERS |>) d rd [] None REQ_HEADERS (Some REQ_PROTOCOL) None t) by (eapply tg_cin_state; exact H).
  rewrite (tg_tx_upd _ d rd _ _ _ _ _ t _ H1).
  set (t' := t <| t_request_progress := c_HTP_REQUEST_HEADERS |>).
  set (c1 := tg_settx w t' (c <| c_in_state := REQ_HEADERS |>)).
  assert (H2 : tg_cin c1 d rd [] None REQ_HEADERS (Some REQ_PROTOCOL) None t') by (eapply tg_cin_txs; exact H1).
  change (c_in_status c1) with (c_in_status c). rewrite (tg_live_tunnel _ A1).
  unfold req_handle_state_change. change (c_in_state_previous c1) with (c_in_state_previous c). rewrite A3.
  change (c_in_state c1) with REQ_HEADERS. cbn [req_state_eqb]. change (c_in_tx c1) with (c_in_tx c). rewrite A13.
  unfold rq_tx, in_txi, tx_get. change (c_in_tx c1) with (c_in_tx c). rewrite A13, (tg_cin_slot _ _ _ _ _ _ _ _ _ H2).
  change (t_request_progress t') with c_HTP_REQUEST_HEADERS. change ((c_HTP_REQUEST_HEADERS =? c_HTP_REQUEST_HEADERS)%Z) with true. cbv iota.
  unfold req_receiver_set, req_receiver_finalize_clear. change (k_receiver_hook (c_in c1)) with (k_receiver_hook (c_in c)). rewrite A11.
  eexists. split; [reflexivity|].
  clearbody c1. destruct H2 as [B1 B2 B3 B4 B5 B6 B7 B8 B9 B10 B11 B12 B13 B14 B15 B16 B17].
  constructor; try assumption; try reflexivity; cbn; rewrite ?B2, ?B6; try reflexivity; lia.
Qed.
End Line.

(* ---- REQ_IDLE with data available: the next transaction is created ---- *)
(* the request side between two requests: no current transaction; p = the bytes of the next request line already seen
   (REQ_FINALIZE looks at them to decide whether a new request starts) *)
Record tg_idl (c : connp) (d : bytes) (rd : nat) (p : bytes) (done : list (option tx)) (fl : tg_aux) (prev : option req_state) : Prop := mk_tg_idl {
  gl_status : tg_live (c_in_status c);
  gl_state : c_in_state c = REQ_IDLE;
  gl_prev : c_in_state_previous c = prev;
  gl_data : k_data (c_in c) = Some d;
  gl_len : k_len (c_in c) = length d;
  gl_read : k_read (c_in c) = rd;
  gl_rd : (rd <= length d)%nat;
  gl_cons : (k_consume (c_in c) <= rd)%nat;
  gl_seen : sg_olist (k_buf (c_in c)) ++ firstn (rd - k_consume (c_in c)) (skipn (k_consume (c_in c)) d) = p;
  gl_hdr : k_header (c_in c) = None;
  gl_rh : k_receiver_hook (c_in c) = None;
  gl_rcv : (k_receiver (c_in c) <= rd)%nat;
  gl_tx : c_in_tx c = None;
  gl_txs : c_txs c = done;
  gl_shift : c_txs_shifted c = 0%nat;
  gl_flags : c_conn_flags c = ax_flags fl;
  gl_onext : c_out_next_tx_index c = ax_onext fl /\ tn_rs c = ax_rs fl /\ c_in_content_length c = ax_cl fl }.

(* HTP_CONN_PIPELINED: a transaction is created while an earlier one has no response yet *)
(* htp_connp_tx_create: the pipelining indicator; in_content_length is reset *)
Definition tg_next_flags (done : list (option tx)) (fl : tg_aux) : tg_aux :=
  mk_tg_aux (if (ax_onext fl <? length done)%nat then flag_set (ax_flags fl) c_HTP_CONN_PIPELINED else ax_flags fl) (ax_onext fl) (ax_rs fl) (-1)%Z.

Lemma tg_cin_from_idl c c' d rd p done fl fl' prev t : tg_idl c d rd p done fl prev ->
  c_in_status c' = c_in_status c -> c_in_state c' = REQ_LINE -> c_in_state_previous c' = c_in_state_previous c -> c_in c' = c_in c ->
  c_in_tx c' = Some (length done) -> c_txs c' = done ++ [Some t] -> c_txs_shifted c' = 0%nat -> c_conn_flags c' = ax_flags fl' -> (c_out_next_tx_index c' = ax_onext fl' /\ tn_rs c' = ax_rs fl' /\ c_in_content_length c' = ax_cl fl') ->
  tg_cinw (mk_tg_world done fl') c' d rd p None REQ_LINE prev None t.
Proof.
  intros [A1 A2 A3 A4 A5 A6 A7 A8 A9 A10 A11 A12 A13 A14 A15 A16 A17] E1 E2 E3 E4 E5 E6 E7 E8 E9.
  constructor; cbn [gw_done gw_aux]; rewrite ?E1, ?E3, ?E4; assumption.
Qed.

Section Idle.
Variable cb : cb_oracle.
Variable g : cfg.
Hypothesis Hcb : wr_all_ok cb.

Lemma tg_idle_fn c d rd p done fl prev : tg_idl c d rd p done fl prev -> (rd < length d)%nat ->
  (g_max_tx g = 0 \/ length done <= g_max_tx g)%nat ->
  exists c0, REQ_IDLE_fn cb g c = (ST_OK, sg_idle_mk done c0) /\
    c_conn_flags c0 = ax_flags (tg_next_flags done fl) /\ c_in_status c0 = c_in_status c /\ c_in_state_previous c0 = c_in_state_previous c /\
    c_in c0 = c_in c /\ c_txs_shifted c0 = 0%nat /\ c_out_next_tx_index c0 = ax_onext (tg_next_flags done fl) /\ tn_rs c0 = ax_rs (tg_next_flags done fl).
Proof.
  (* adapted: HTP_CONN_PIPELINED is raised when out_next_tx_index < number of transactions *)
  intros [A1 A2 A3 A4 A5 A6 A7 A8 A9 A10 A11 A12 A13 A14 A15 A16 A17] Hlt Hmax. destruct A17 as (A17 & A18 & A19).
  unfold REQ_IDLE_fn, rq_at_end. rewrite A5, A6.
  assert (L : (length d <=? rd)%nat = false) by (apply Nat.leb_gt; exact Hlt). rewrite L.
  unfold connp_tx_create. rewrite A14, A17.
  assert (Lm : ((0 <? g_max_tx g) && (g_max_tx g <? length done))%nat = false).
  { destruct Hmax as [E|E]; [rewrite E; reflexivity|]. apply andb_false_iff. right. apply Nat.ltb_ge. exact E. }
  rewrite Lm.
  set (c0 := if (ax_onext fl <? length done)%nat then c <| c_conn_flags ::= (fun f => flag_set f c_HTP_CONN_PIPELINED) |> else c).
  assert (F0 : c_conn_flags c0 = ax_flags (tg_next_flags done fl) /\ c_in_status c0 = c_in_status c /\ c_in_state_previous c0 = c_in_state_previous c /\
               c_in c0 = c_in c /\ c_txs_shifted c0 = 0%nat /\ c_out_next_tx_index c0 = ax_onext (tg_next_flags done fl) /\
               tn_rs c0 = ax_rs (tg_next_flags done fl) /\ c_txs c0 = done).
  { unfold c0, tg_next_flags. destruct (ax_onext fl <? length done)%nat; cbn; rewrite ?A16; repeat split; assumption. }
  clearbody c0. destruct F0 as (F1 & F2 & F3 & F4 & F5 & F6 & F6' & F7). rewrite F5, F7. cbn [Nat.add].
  unfold tx_state_request_start. rewrite (wr_run_hook cb Hcb). cbv iota.
  cbn [c_in_tx wr_hook_ev emit bump_hook set].
  match goal with |- context [tx_upd ?x (length done) ?f] => set (c2 := x) end.
  assert (X2 : c_txs c2 = done ++ [Some (tx_new (length done) (length done))]) by reflexivity.
  assert (Y2 : c_txs_shifted c2 = 0%nat) by exact F5.
  rewrite (wr_tx_upd_ok c2 _ _ _ (sg_slot_at c2 done _ X2 Y2)), (sg_tx_put_at c2 done _ _ X2 Y2).
  exists c0. split; [reflexivity|]. repeat split; assumption.
Qed.

Lemma tg_pass_idle c d rd p done fl prev : tg_idl c d rd p done fl prev -> (rd < length d)%nat ->
  (g_max_tx g = 0 \/ length done <= g_max_tx g)%nat ->
  exists c', rq_iter cb g false c = inr c' /\
    tg_cinw (mk_tg_world done (tg_next_flags done fl)) c' d rd p None REQ_LINE (Some REQ_LINE) None (sg_t1 (length done)).
Proof.
  intros H Hlt Hmax. destruct (tg_idle_fn c d rd p done fl prev H Hlt Hmax) as (c0 & E1 & F1 & F2 & F3 & F4 & F5 & F6 & F7).
  destruct (sg_idle_mk_proj done c0) as (P1 & P2 & P3 & P4 & P5 & P6 & P7 & P8 & P9).
  apply (tg_iter_ok cb g c (sg_idle_mk done c0) d rd p None REQ_LINE prev None _); [rewrite (gl_state _ _ _ _ _ _ _ H); exact E1| |discriminate].
  apply (tg_cin_from_idl c _ d rd p done fl _ prev _ H); try congruence.
  split; [congruence|]. split; [exact F7|reflexivity].
Qed.
End Idle.
