(* C06, part A: the transaction table, the event log, and the accounting half (for EVERY input and
   EVERY callback behaviour): request_entity_len / response_entity_len grow by exactly what the
   body-data callbacks are handed; an end-of-body marker precedes the completion callback. *)
Require Import Htp.Model.MConnTypes Htp.Model.MBstr Htp.Model.MTxCommon Htp.Model.MTxRes Htp.Spec.SBody.
Local Open Scope Z_scope.

(* ---- the transaction table ---- *)
Definition bd_set_tx (i : nat) (t : tx) (c : connp) : connp :=
  c <| c_txs := upd (c_txs c) (i - c_txs_shifted c) (Some t) |>.

Lemma bd_upd_length {B} (l : list B) i x : length (upd l i x) = length l.
Proof. revert i; induction l as [|a l IH]; intros [|i]; cbn; auto. Qed.
Lemma bd_nth_upd_same {B} (l : list B) i x : (i < length l)%nat -> nth_error (upd l i x) i = Some x.
Proof. revert i; induction l as [|a l IH]; intros [|i] H; cbn in *; try lia; auto. apply IH; lia. Qed.
Lemma bd_nth_upd_other {B} (l : list B) i j x : i <> j -> nth_error (upd l i x) j = nth_error l j.
Proof. revert i j; induction l as [|a l IH]; intros [|i] [|j] H; cbn; auto; try congruence. Qed.

Lemma bd_slot_inv c i t : tx_slot c i = Some t ->
  (i <? c_txs_shifted c)%nat = false /\ nth_error (c_txs c) (i - c_txs_shifted c) = Some (Some t) /\
  (i - c_txs_shifted c <? length (c_txs c))%nat = true.
Proof.
  unfold tx_slot. destruct (i <? c_txs_shifted c)%nat eqn:E; [discriminate|].
  destruct (nth_error (c_txs c) (i - c_txs_shifted c)) as [[t'|]|] eqn:En; try discriminate.
  intros H; inversion H; subst. repeat split; auto.
  apply Nat.ltb_lt. apply nth_error_Some. congruence.
Qed.

Lemma bd_tx_upd_eq c i t f : tx_slot c i = Some t -> tx_upd c i f = bd_set_tx i (f t) c.
Proof.
  intros H. unfold tx_upd, tx_put. rewrite H. destruct (bd_slot_inv _ _ _ H) as (A & B & C).
  rewrite A, C. reflexivity.
Qed.
Lemma bd_tx_upd_dead c i f : tx_slot c i = None -> tx_upd c i f = c <| c_fault := true |>.
Proof. intros H. unfold tx_upd. rewrite H. reflexivity. Qed.

Lemma bd_slot_set c i t t' : tx_slot c i = Some t -> tx_slot (bd_set_tx i t' c) i = Some t'.
Proof.
  intros H. destruct (bd_slot_inv _ _ _ H) as (A & B & C). unfold tx_slot.
  change (c_txs_shifted (bd_set_tx i t' c)) with (c_txs_shifted c).
  change (c_txs (bd_set_tx i t' c)) with (upd (c_txs c) (i - c_txs_shifted c) (Some t')).
  rewrite A. rewrite bd_nth_upd_same; [reflexivity|]. apply Nat.ltb_lt; exact C.
Qed.
Lemma bd_tx_get_set c i t t' : tx_slot c i = Some t -> tx_get (bd_set_tx i t' c) i = t'.
Proof. intros H. unfold tx_get. rewrite (bd_slot_set _ _ _ _ H). reflexivity. Qed.
Lemma bd_tx_get_live c i t : tx_slot c i = Some t -> tx_get c i = t.
Proof. intros H. unfold tx_get. rewrite H. reflexivity. Qed.

(* fields other than the table are untouched by bd_set_tx *)
Lemma bd_set_tx_events i t c : c_events (bd_set_tx i t c) = c_events c. Proof. reflexivity. Qed.
Lemma bd_set_tx_in i t c : c_in (bd_set_tx i t c) = c_in c. Proof. reflexivity. Qed.
Lemma bd_set_tx_out i t c : c_out (bd_set_tx i t c) = c_out c. Proof. reflexivity. Qed.
Lemma bd_set_tx_in_tx i t c : c_in_tx (bd_set_tx i t c) = c_in_tx c. Proof. reflexivity. Qed.
Lemma bd_set_tx_out_tx i t c : c_out_tx (bd_set_tx i t c) = c_out_tx c. Proof. reflexivity. Qed.
Lemma bd_set_tx_hooks i t c : c_hook_calls (bd_set_tx i t c) = c_hook_calls c. Proof. reflexivity. Qed.
Lemma bd_set_tx_shifted i t c : c_txs_shifted (bd_set_tx i t c) = c_txs_shifted c. Proof. reflexivity. Qed.

(* ---- the event log ---- *)
Lemma bd_sum_app h a b : bd_sum h (a ++ b) = bd_sum h a + bd_sum h b.
Proof.
  unfold bd_sum, bd_evs. induction a as [|e a IH]; cbn; [lia|].
  destruct (Nat.eqb (ev_hook e) h); cbn; lia.
Qed.
Lemma bd_sum_nil h : bd_sum h [] = 0. Proof. reflexivity. Qed.
Lemma bd_sum_cons_same h e r : ev_hook e = h -> bd_sum h (e :: r) = bd_ev_len e + bd_sum h r.
Proof. intros H. unfold bd_sum, bd_evs. cbn. rewrite H, Nat.eqb_refl. reflexivity. Qed.
Lemma bd_sum_cons_other h e r : ev_hook e <> h -> bd_sum h (e :: r) = bd_sum h r.
Proof. intros H. unfold bd_sum, bd_evs. cbn. apply Nat.eqb_neq in H. rewrite H. reflexivity. Qed.

(* the tx-level hooks only append events of their own hook id and bump their own counter *)
Lemma bd_run_tx_hooks_spec k h txi data last c :
  exists new, run_tx_hooks k h txi data last c =
              c <| c_hook_calls := c_hook_calls (run_tx_hooks k h txi data last c) |> <| c_events := new ++ c_events c |> /\
              Forall (fun e => ev_hook e = h) new.
Proof.
  revert c. induction k as [|k IH]; intros c; cbn [run_tx_hooks].
  - exists []. split; [|constructor]. destruct c; reflexivity.
  - destruct (IH (emit (bump_hook c h) (mkev h txi data last None))) as (new & E & F).
    exists (new ++ [mkev h txi data last None]). split.
    + rewrite E at 1. cbn. rewrite <- app_assoc. destruct c; reflexivity.
    + apply Forall_app. split; [exact F|repeat constructor].
Qed.

(* ---- what a callback can do to the table: the four length fields of a surviving transaction are untouched ---- *)
Definition bd_same_lens (t t' : tx) : Prop :=
  t_request_entity_len t' = t_request_entity_len t /\ t_request_message_len t' = t_request_message_len t /\
  t_response_entity_len t' = t_response_entity_len t /\ t_response_message_len t' = t_response_message_len t.
(* c' keeps (or drops) the transactions of c, lengths unchanged *)
Definition bd_lens_kept (c c' : connp) : Prop :=
  forall i t', tx_slot c' i = Some t' -> exists t, tx_slot c i = Some t /\ bd_same_lens t t'.

Lemma bd_same_lens_refl t : bd_same_lens t t. Proof. repeat split. Qed.
Lemma bd_lens_kept_refl c : bd_lens_kept c c.
Proof. intros i t' H. exists t'. split; [exact H|apply bd_same_lens_refl]. Qed.
Lemma bd_lens_kept_trans a b c : bd_lens_kept a b -> bd_lens_kept b c -> bd_lens_kept a c.
Proof.
  intros H1 H2 i t' H. destruct (H2 _ _ H) as (t1 & A & B). destruct (H1 _ _ A) as (t0 & A0 & B0).
  exists t0. split; [exact A0|]. unfold bd_same_lens in *. intuition congruence.
Qed.
Lemma bd_slot_ext c c' i : c_txs c = c_txs c' -> c_txs_shifted c = c_txs_shifted c' -> tx_slot c i = tx_slot c' i.
Proof. intros A B. unfold tx_slot. rewrite A, B. reflexivity. Qed.
Lemma bd_lens_kept_ext c c' : c_txs c = c_txs c' -> c_txs_shifted c = c_txs_shifted c' -> bd_lens_kept c c'.
Proof. intros A B i t' H. exists t'. split; [|apply bd_same_lens_refl]. rewrite (bd_slot_ext c c' i A B). exact H. Qed.

Lemma bd_slot_set_other c i j tj t' : i <> j -> tx_slot c j = Some tj -> tx_slot (bd_set_tx j t' c) i = tx_slot c i.
Proof.
  intros Hn H. destruct (bd_slot_inv _ _ _ H) as (A & B & C). unfold tx_slot.
  change (c_txs_shifted (bd_set_tx j t' c)) with (c_txs_shifted c).
  change (c_txs (bd_set_tx j t' c)) with (upd (c_txs c) (j - c_txs_shifted c) (Some t')).
  destruct (i <? c_txs_shifted c)%nat eqn:E; [reflexivity|].
  rewrite bd_nth_upd_other; [reflexivity|]. apply Nat.ltb_ge in A, E. lia.
Qed.

Lemma bd_tx_upd_kept c j f : (forall t, bd_same_lens t (f t)) -> bd_lens_kept c (tx_upd c j f).
Proof.
  intros Hf. destruct (tx_slot c j) as [tj|] eqn:E.
  - rewrite (bd_tx_upd_eq _ _ _ _ E). intros i t' H. destruct (Nat.eq_dec i j) as [->|Hn].
    + rewrite (bd_slot_set _ _ _ _ E) in H. inversion H; subst. exists tj. split; [exact E|apply Hf].
    + rewrite (bd_slot_set_other _ _ _ _ _ Hn E) in H. exists t'. split; [exact H|apply bd_same_lens_refl].
  - rewrite (bd_tx_upd_dead _ _ _ E). apply bd_lens_kept_ext; reflexivity.
Qed.

Lemma bd_upd_none_slot c j i t' :
  tx_slot (c <| c_txs := upd (c_txs c) (j - c_txs_shifted c) None |>) i = Some t' -> tx_slot c i = Some t'.
Proof.
  unfold tx_slot. cbn [c_txs c_txs_shifted set]. 
  change (c_txs_shifted (c <| c_txs := upd (c_txs c) (j - c_txs_shifted c) None |>)) with (c_txs_shifted c).
  change (c_txs (c <| c_txs := upd (c_txs c) (j - c_txs_shifted c) None |>)) with (upd (c_txs c) (j - c_txs_shifted c) None).
  destruct (i <? c_txs_shifted c)%nat eqn:E; [discriminate|].
  destruct (Nat.eq_dec (j - c_txs_shifted c) (i - c_txs_shifted c)) as [Heq|Hn].
  - rewrite Heq. destruct (nth_error (c_txs c) (i - c_txs_shifted c)) eqn:En.
    + rewrite bd_nth_upd_same; [discriminate|]. apply nth_error_Some. congruence.
    + assert (length (upd (c_txs c) (i - c_txs_shifted c) (@None tx)) <= i - c_txs_shifted c)%nat.
      { rewrite bd_upd_length. apply nth_error_None. exact En. }
      apply nth_error_None in H. rewrite H. discriminate.
  - rewrite bd_nth_upd_other by exact Hn. auto.
Qed.

Lemma bd_tx_destroy_incomplete_kept c j : bd_lens_kept c (tx_destroy_incomplete c j).
Proof.
  intros i t' H. exists t'. split; [|apply bd_same_lens_refl]. unfold tx_destroy_incomplete in H.
  set (c1 := if (j <? c_txs_shifted c)%nat then c else c <| c_txs := upd (c_txs c) (j - c_txs_shifted c) None |>) in *.
  assert (H1 : tx_slot c1 i = Some t').
  { erewrite bd_slot_ext; [exact H| |].
    - destruct (c_in_tx c1) as [a|]; [destruct (a =? j)%nat|]; destruct (c_out_tx _) as [b|]; try destruct (b =? j)%nat; reflexivity.
    - destruct (c_in_tx c1) as [a|]; [destruct (a =? j)%nat|]; destruct (c_out_tx _) as [b|]; try destruct (b =? j)%nat; reflexivity. }
  subst c1. destruct (j <? c_txs_shifted c)%nat; [exact H1|]. eapply bd_upd_none_slot; exact H1.
Qed.
Lemma bd_tx_destroy_kept c j : bd_lens_kept c (tx_destroy c j).
Proof.
  unfold tx_destroy. destruct (tx_slot c j) as [t|].
  - destruct (tx_is_complete t); [apply bd_tx_destroy_incomplete_kept|apply bd_lens_kept_refl].
  - apply bd_lens_kept_ext; reflexivity.
Qed.

Lemma bd_tx_upd_events c i f : c_events (tx_upd c i f) = c_events c.
Proof. unfold tx_upd, tx_put. destruct (tx_slot c i); [|reflexivity]. destruct (_ <? _)%nat; [reflexivity|]. destruct (_ <? _)%nat; reflexivity. Qed.
Lemma bd_tx_destroy_events c i : c_events (tx_destroy c i) = c_events c.
Proof.
  unfold tx_destroy, tx_destroy_incomplete. destruct (tx_slot c i); [|reflexivity]. destruct (tx_is_complete t); [|reflexivity].
  destruct (_ <? _)%nat; cbn; repeat match goal with |- context [match ?x with _ => _ end] => destruct x; cbn end; reflexivity.
Qed.

(* one cfg-level hook: exactly one event, whatever the callback does; lengths of surviving transactions kept *)
Lemma bd_run_hook_ex_spec cb h txi data last snap c :
  c_events (snd (run_hook_ex cb h txi data last snap c)) = mkev h txi data last snap :: c_events c /\
  bd_lens_kept c (snd (run_hook_ex cb h txi data last snap c)).
Proof.
  unfold run_hook_ex.
  set (c1 := emit (bump_hook c h) (mkev h txi data last snap)).
  assert (E1 : c_events c1 = mkev h txi data last snap :: c_events c) by reflexivity.
  assert (K1 : bd_lens_kept c c1) by (apply bd_lens_kept_ext; reflexivity).
  destruct (cb h (hook_count c h)); cbn [snd]; try (split; assumption).
  - split; [rewrite bd_tx_upd_events; exact E1|]. eapply bd_lens_kept_trans; [exact K1|]. apply bd_tx_upd_kept. intros t; repeat split.
  - split; [rewrite bd_tx_upd_events; exact E1|]. eapply bd_lens_kept_trans; [exact K1|]. apply bd_tx_upd_kept. intros t; repeat split.
  - split; [rewrite bd_tx_destroy_events; exact E1|]. eapply bd_lens_kept_trans; [exact K1|]. apply bd_tx_destroy_kept.
Qed.

Lemma bd_run_tx_hooks_kept k h txi data last c : bd_lens_kept c (run_tx_hooks k h txi data last c).
Proof.
  destruct (bd_run_tx_hooks_spec k h txi data last c) as (new & E & _). rewrite E. apply bd_lens_kept_ext; reflexivity.
Qed.
Lemma bd_run_tx_hooks_events k h txi data last c :
  exists new, c_events (run_tx_hooks k h txi data last c) = new ++ c_events c /\ Forall (fun e => ev_hook e = h) new.
Proof.
  destruct (bd_run_tx_hooks_spec k h txi data last c) as (new & E & F). exists new. split; [|exact F]. rewrite E. reflexivity.
Qed.
Lemma bd_run_tx_hooks_in_tx k h txi data last c : c_in_tx (run_tx_hooks k h txi data last c) = c_in_tx c /\ c_out_tx (run_tx_hooks k h txi data last c) = c_out_tx c.
Proof. destruct (bd_run_tx_hooks_spec k h txi data last c) as (new & E & _). rewrite E. split; reflexivity. Qed.

Lemma bd_sum_other h new h' : h <> h' -> Forall (fun e => ev_hook e = h') new -> bd_sum h new = 0.
Proof.
  intros Hn F. induction F as [|e l He F IH]; [reflexivity|]. rewrite bd_sum_cons_other; [exact IH|congruence].
Qed.

Lemma bd_snd_okerr (r : st * connp) :
  snd (match r with (ST_OK, c) => (ST_OK, c) | (_, c) => (ST_ERROR, c) end) = snd r.
Proof. destruct r as [[] ?]; reflexivity. Qed.

(* ================= C06_accounting, request side ================= *)
Definition bd_pay (data : option bytes) (nlen : nat) : Z :=
  match data with Some d => Z.of_nat (length d) | None => Z.of_nat nlen end.
Definition bd_pay_events (data : option bytes) : Z :=
  match data with Some d => Z.of_nat (length d) | None => 0 end.

Theorem bd_req_accounting cb i j data nlen c t :
  tx_slot c i = Some t -> c_in_tx c = Some j ->
  let c' := snd (tx_req_process_body_data_ex cb i data nlen c) in
  exists new, c_events c' = new ++ c_events c /\
    bd_sum H_REQUEST_BODY_DATA new = bd_pay_events data /\
    (forall t', tx_slot c' i = Some t' ->
       t_request_entity_len t' = t_request_entity_len t + bd_pay data nlen /\
       t_request_message_len t' = t_request_message_len t).
Proof.
  intros Hl Hj. unfold tx_req_process_body_data_ex.
  rewrite (bd_tx_upd_eq _ _ _ _ Hl).
  set (t1 := t <| t_request_entity_len ::= _ |>). set (c1 := bd_set_tx i t1 c).
  assert (Hl1 : tx_slot c1 i = Some t1) by (apply (bd_slot_set _ _ _ _ Hl)).
  assert (Ht1 : t_request_entity_len t1 = t_request_entity_len t + bd_pay data nlen /\ t_request_message_len t1 = t_request_message_len t).
  { subst t1. unfold bd_pay. cbn. destruct data; split; try reflexivity; lia. }
  set (last := match data with None => (nlen =? 0)%nat | Some _ => false end).
  assert (Hfin : forall c2 new, c_events c2 = new ++ c_events c -> bd_sum H_REQUEST_BODY_DATA new = bd_pay_events data ->
            bd_lens_kept c1 c2 ->
            exists new, c_events c2 = new ++ c_events c /\ bd_sum H_REQUEST_BODY_DATA new = bd_pay_events data /\
              (forall t', tx_slot c2 i = Some t' -> t_request_entity_len t' = t_request_entity_len t + bd_pay data nlen /\
                 t_request_message_len t' = t_request_message_len t)).
  { intros c2 new E S K. exists new. repeat split; auto.
    - destruct (K _ _ H) as (t0 & A & B). rewrite Hl1 in A. inversion A; subst t0. destruct B as (B1 & _). rewrite B1. apply Ht1.
    - destruct (K _ _ H) as (t0 & A & B). rewrite Hl1 in A. inversion A; subst t0. destruct B as (_ & B2 & _). rewrite B2. apply Ht1. }
  unfold req_run_hook_body_data.
  assert (Hgen : let r := match c_in_tx c1 with
                          | None => (ST_OK, c1)
                          | Some i0 => run_data_hook cb H_REQUEST_BODY_DATA i0 data last
                                         (run_tx_hooks (t_hook_request_body (tx_get c1 i0)) H_TX_REQUEST_BODY_DATA i0 data last c1)
                          end in
                 exists new, c_events (snd r) = new ++ c_events c /\ bd_sum H_REQUEST_BODY_DATA new = bd_pay_events data /\
                   bd_lens_kept c1 (snd r)).
  { change (c_in_tx c1) with (c_in_tx c). rewrite Hj. cbv zeta.
    set (c2 := run_tx_hooks _ _ _ _ _ c1).
    destruct (bd_run_tx_hooks_events (t_hook_request_body (tx_get c1 j)) H_TX_REQUEST_BODY_DATA j data last c1) as (n19 & E19 & F19).
    fold c2 in E19. unfold run_data_hook.
    destruct (bd_run_hook_ex_spec cb H_REQUEST_BODY_DATA j data last None c2) as (E5 & K5).
    exists (mkev H_REQUEST_BODY_DATA j data last None :: n19). repeat split.
    - rewrite E5, E19. reflexivity.
    - rewrite bd_sum_cons_same by reflexivity. rewrite (bd_sum_other _ _ H_TX_REQUEST_BODY_DATA); [|discriminate|exact F19].
      unfold bd_ev_len, bd_pay_events. cbn. destruct data; lia.
    - eapply bd_lens_kept_trans; [|exact K5]. apply bd_run_tx_hooks_kept. }
  destruct data as [[|b d]|].
  - (* Some []: no callback *)
    cbn [snd]. apply (Hfin c1 []); [reflexivity|reflexivity|apply bd_lens_kept_refl].
  - cbv zeta in Hgen. destruct Hgen as (new & E & S & K).
    cbv zeta. rewrite bd_snd_okerr. apply (Hfin _ new E S K).
  - cbv zeta in Hgen. destruct Hgen as (new & E & S & K).
    cbv zeta. rewrite bd_snd_okerr. apply (Hfin _ new E S K).
Qed.

(* ================= C06_accounting, response side ================= *)
Theorem bd_res_accounting cb i o data len c t :
  tx_slot c i = Some t -> c_out_tx c = Some o ->
  match data with Some d => length d = len | None => True end ->
  let c' := snd (tx_res_process_body_data_ex cb i data len c) in
  let on := t_res_cep t =? c_HTP_COMPRESSION_NONE in
  exists new, c_events c' = new ++ c_events c /\
    bd_sum H_RESPONSE_BODY_DATA new = (if on then bd_pay_events data else 0) /\
    (forall t', tx_slot c' i = Some t' ->
       t_response_entity_len t' = t_response_entity_len t + (if on then Z.of_nat len else 0) /\
       t_response_message_len t' = t_response_message_len t + Z.of_nat len).
Proof.
  intros Hl Ho Hlen. unfold tx_res_process_body_data_ex.
  rewrite (bd_tx_upd_eq _ _ _ _ Hl).
  set (t1 := t <| t_response_message_len ::= _ |>). set (c1 := bd_set_tx i t1 c).
  assert (Hl1 : tx_slot c1 i = Some t1) by (apply (bd_slot_set _ _ _ _ Hl)).
  rewrite (bd_tx_get_live _ _ _ Hl1).
  change (t_res_cep t1) with (t_res_cep t). cbv zeta.
  destruct (t_res_cep t =? c_HTP_COMPRESSION_NONE) eqn:Eon.
  2:{ cbn [snd]. exists []. repeat split; try reflexivity.
      - rewrite Hl1 in H. inversion H; subst t'. subst t1. cbn. lia.
      - rewrite Hl1 in H. inversion H; subst t'. subst t1. cbn. lia. }
  rewrite (bd_tx_upd_eq _ _ _ _ Hl1).
  set (t2 := t1 <| t_response_entity_len ::= _ |>). set (c2 := bd_set_tx i t2 c1).
  assert (Hl2 : tx_slot c2 i = Some t2) by (apply (bd_slot_set _ _ _ _ Hl1)).
  assert (Ht2 : t_response_entity_len t2 = t_response_entity_len t + Z.of_nat len /\
                t_response_message_len t2 = t_response_message_len t + Z.of_nat len).
  { subst t2 t1. cbn. split; lia. }
  assert (Hfin : forall c3 new, c_events c3 = new ++ c_events c -> bd_sum H_RESPONSE_BODY_DATA new = bd_pay_events data ->
            bd_lens_kept c2 c3 ->
            exists new, c_events c3 = new ++ c_events c /\ bd_sum H_RESPONSE_BODY_DATA new = bd_pay_events data /\
              (forall t', tx_slot c3 i = Some t' -> t_response_entity_len t' = t_response_entity_len t + Z.of_nat len /\
                 t_response_message_len t' = t_response_message_len t + Z.of_nat len)).
  { intros c3 new E S K. exists new. repeat split; auto.
    - destruct (K _ _ H) as (t0 & A & B). rewrite Hl2 in A. inversion A; subst t0. destruct B as (_ & _ & B1 & _). rewrite B1. apply Ht2.
    - destruct (K _ _ H) as (t0 & A & B). rewrite Hl2 in A. inversion A; subst t0. destruct B as (_ & _ & _ & B2). rewrite B2. apply Ht2. }
  assert (Hgen : let r := match c_out_tx c2 with
                          | None => (ST_ERROR, c2 <| c_fault := true |>)
                          | Some o0 => run_data_hook cb H_RESPONSE_BODY_DATA i data false
                                         (run_tx_hooks (t_hook_response_body (tx_get c2 o0)) H_TX_RESPONSE_BODY_DATA i data false c2)
                          end in
                 exists new, c_events (snd r) = new ++ c_events c /\ bd_sum H_RESPONSE_BODY_DATA new = bd_pay_events data /\
                   bd_lens_kept c2 (snd r)).
  { change (c_out_tx c2) with (c_out_tx c). rewrite Ho. cbv zeta.
    set (c3 := run_tx_hooks _ _ _ _ _ c2).
    destruct (bd_run_tx_hooks_events (t_hook_response_body (tx_get c2 o)) H_TX_RESPONSE_BODY_DATA i data false c2) as (n20 & E20 & F20).
    fold c3 in E20. unfold run_data_hook.
    destruct (bd_run_hook_ex_spec cb H_RESPONSE_BODY_DATA i data false None c3) as (E14 & K14).
    exists (mkev H_RESPONSE_BODY_DATA i data false None :: n20). repeat split.
    - rewrite E14, E20. reflexivity.
    - rewrite bd_sum_cons_same by reflexivity. rewrite (bd_sum_other _ _ H_TX_RESPONSE_BODY_DATA); [|discriminate|exact F20].
      unfold bd_ev_len, bd_pay_events. cbn. destruct data; lia.
    - eapply bd_lens_kept_trans; [|exact K14]. apply bd_run_tx_hooks_kept. }
  unfold res_run_hook_body_data.
  destruct data as [d|]; [destruct len as [|len]|].
  - cbn [snd]. apply (Hfin c2 []); [reflexivity| |apply bd_lens_kept_refl].
    unfold bd_pay_events. rewrite Hlen. reflexivity.
  - cbv zeta in Hgen. destruct Hgen as (new & E & S & K). rewrite bd_snd_okerr. apply (Hfin _ new E S K).
  - cbv zeta in Hgen. destruct Hgen as (new & E & S & K). rewrite bd_snd_okerr. apply (Hfin _ new E S K).
Qed.

(* ================= end-of-body marker before the completion callback ================= *)
Lemma bd_marker_seen hd hc l : bd_marker_ok hd hc l true = true.
Proof. induction l as [|e l IH]; cbn; [reflexivity|]. destruct (Nat.eqb (ev_hook e) hc); cbn; exact IH. Qed.
Lemma bd_marker_skip hd hc a r s : Forall (fun e => ev_hook e <> hc) a ->
  (forall s', bd_marker_ok hd hc r s' = true) -> bd_marker_ok hd hc (a ++ r) s = true.
Proof.
  intros F Hr. revert s. induction F as [|e a He F IH]; intros s; cbn; [apply Hr|].
  apply Nat.eqb_neq in He. rewrite He. apply IH.
Qed.
Lemma bd_marker_at hd hc m r s : hd <> hc -> ev_hook m = hd -> ev_data m = None -> bd_marker_ok hd hc (m :: r) s = true.
Proof.
  intros Hn Hm Hd. cbn. rewrite Hm. apply Nat.eqb_neq in Hn. rewrite Hn. rewrite Nat.eqb_refl, Hd.
  rewrite orb_true_r. apply bd_marker_seen.
Qed.
Lemma bd_marker_none hd hc a s : Forall (fun e => ev_hook e <> hc) a -> bd_marker_ok hd hc a s = true.
Proof. intros F. rewrite <- (app_nil_r a). apply bd_marker_skip; [exact F|reflexivity]. Qed.

(* events appended by the pieces *)
Lemma bd_req_process_events_shape cb i j data nlen c :
  c_in_tx c = Some j ->
  let c' := snd (tx_req_process_body_data_ex cb i data nlen c) in
  (data = Some [] /\ c_events c' = c_events c) \/
  (exists n19, c_events c' = mkev H_REQUEST_BODY_DATA j data (match data with None => (nlen =? 0)%nat | Some _ => false end) None :: n19 ++ c_events c /\
               Forall (fun e => ev_hook e = H_TX_REQUEST_BODY_DATA) n19).
Proof.
  intros Hj. unfold tx_req_process_body_data_ex. cbv zeta. rewrite bd_snd_okerr.
  set (c1 := tx_upd c i _). assert (E1 : c_events c1 = c_events c) by apply bd_tx_upd_events.
  assert (J1 : c_in_tx c1 = Some j).
  { subst c1. unfold tx_upd, tx_put. destruct (tx_slot c i); [|exact Hj]. destruct (_ <? _)%nat; [exact Hj|]. destruct (_ <? _)%nat; exact Hj. }
  unfold req_run_hook_body_data.
  destruct data as [[|b d]|].
  - left. split; [reflexivity|exact E1].
  - right. rewrite J1. set (c2 := run_tx_hooks _ _ _ _ _ c1).
    destruct (bd_run_tx_hooks_events (t_hook_request_body (tx_get c1 j)) H_TX_REQUEST_BODY_DATA j (Some (b :: d)) false c1) as (n19 & E19 & F19).
    exists n19. split; [|exact F19]. unfold run_data_hook.
    rewrite (proj1 (bd_run_hook_ex_spec _ _ _ _ _ _ _)). subst c2. rewrite E1 in E19. f_equal. exact E19.
  - right. rewrite J1. set (c2 := run_tx_hooks _ _ _ _ _ c1).
    destruct (bd_run_tx_hooks_events (t_hook_request_body (tx_get c1 j)) H_TX_REQUEST_BODY_DATA j None (nlen =? 0)%nat c1) as (n19 & E19 & F19).
    exists n19. split; [|exact F19]. unfold run_data_hook.
    rewrite (proj1 (bd_run_hook_ex_spec _ _ _ _ _ _ _)). subst c2. rewrite E1 in E19. f_equal. exact E19.
Qed.

Lemma bd_req_receiver_send_events cb last c :
  exists B, c_events (snd (req_receiver_send_data cb last c)) = B ++ c_events c.
Proof.
  unfold req_receiver_send_data. destruct (k_receiver_hook (c_in c)) as [h|]; [|exists []; reflexivity].
  cbv zeta. set (c0 := if (_ <? _)%nat then c <| c_fault := true |> else c).
  assert (E0 : c_events c0 = c_events c) by (subst c0; destruct (_ <? _)%nat; reflexivity).
  unfold run_data_hook.
  pose proof (proj1 (bd_run_hook_ex_spec cb h (in_txi c0) (cur_slice (c_in c) (k_receiver (c_in c)) (k_read (c_in c))) last None c0)) as E.
  destruct (run_hook_ex cb h (in_txi c0) _ last None c0) as [[] c1]; cbn [snd] in *;
    eexists [_]; cbn; rewrite ?E, ?E0; reflexivity.
Qed.
Lemma bd_req_receiver_finalize_events cb c :
  exists B, c_events (snd (req_receiver_finalize_clear cb c)) = B ++ c_events c.
Proof.
  unfold req_receiver_finalize_clear. destruct (k_receiver_hook (c_in c)); [|exists []; reflexivity].
  destruct (bd_req_receiver_send_events cb true c) as (B & E).
  destruct (req_receiver_send_data cb true c) as [rc c1]. cbn [snd] in *. exists B. cbn. exact E.
Qed.

Theorem bd_req_marker cb i j c :
  c_in_tx c = Some j -> tx_req_has_body (tx_get c i) = true ->
  let c' := snd (tx_state_request_complete_partial cb i c) in
  exists new, c_events c' = new ++ c_events c /\
              bd_marker_ok H_REQUEST_BODY_DATA H_REQUEST_COMPLETE (rev new) false = true.
Proof.
  intros Hj Hb. unfold tx_state_request_complete_partial. rewrite Hb.
  destruct (bd_req_process_events_shape cb i j None 0 c Hj) as [[A _]|(n19 & E1 & F19)]; [discriminate|].
  cbv zeta in E1. destruct (tx_req_process_body_data_ex cb i None 0 c) as [rc c1]. cbn [snd] in E1.
  set (m := mkev H_REQUEST_BODY_DATA j None (0 =? 0)%nat None) in *.
  assert (Hn19 : Forall (fun e => ev_hook e <> H_REQUEST_COMPLETE) (rev n19)).
  { apply Forall_rev. eapply Forall_impl; [|exact F19]. cbn. intros e He. rewrite He. discriminate. }
  assert (Hbase : forall B, bd_marker_ok H_REQUEST_BODY_DATA H_REQUEST_COMPLETE (rev (B ++ m :: n19)) false = true).
  { intros B. rewrite rev_app_distr. cbn [rev]. rewrite <- !app_assoc. apply bd_marker_skip; [exact Hn19|].
    intros s'. cbn [app]. apply bd_marker_at; [discriminate|reflexivity|reflexivity]. }
  destruct rc; cbn [snd]; try (exists (m :: n19); split; [exact E1|apply (Hbase [])]).
  set (c2 := tx_upd c1 i _). assert (E2 : c_events c2 = c_events c1) by apply bd_tx_upd_events.
  unfold run_hook.
  pose proof (proj1 (bd_run_hook_ex_spec cb H_REQUEST_COMPLETE i None false None c2)) as E3.
  destruct (run_hook_ex cb H_REQUEST_COMPLETE i None false None c2) as [rc3 c3]. cbn [snd] in E3.
  set (e9 := mkev H_REQUEST_COMPLETE i None false None) in *.
  destruct rc3; cbn [snd];
    try (exists (e9 :: m :: n19); split; [rewrite E3, E2, E1; reflexivity|apply (Hbase [e9])]).
  destruct (bd_req_receiver_finalize_events cb c3) as (B & E4).
  exists (B ++ e9 :: m :: n19). split.
  - rewrite E4, E3, E2, E1. rewrite <- app_assoc. reflexivity.
  - change (B ++ e9 :: m :: n19) with (B ++ [e9] ++ m :: n19). rewrite app_assoc. apply Hbase.
Qed.

(* ---- response side ---- *)
Definition bd_ext (c c' : connp) : Prop := exists X, c_events c' = X ++ c_events c.
Lemma bd_ext_refl c : bd_ext c c. Proof. exists []. reflexivity. Qed.
Lemma bd_ext_eq c c' : c_events c' = c_events c -> bd_ext c c'. Proof. intros H. exists []. exact H. Qed.
Lemma bd_ext_trans a b c : bd_ext a b -> bd_ext b c -> bd_ext a c.
Proof. intros (X & E1) (Y & E2). exists (Y ++ X). rewrite E2, E1. apply app_assoc. Qed.
Lemma bd_ext_run_hook_ex cb h txi data last snap c : bd_ext c (snd (run_hook_ex cb h txi data last snap c)).
Proof. exists [mkev h txi data last snap]. apply bd_run_hook_ex_spec. Qed.

Lemma bd_res_receiver_send_ext cb last c : bd_ext c (snd (res_receiver_send_data cb last c)).
Proof.
  unfold res_receiver_send_data. destruct (k_receiver_hook (c_out c)) as [h|]; [|apply bd_ext_refl].
  cbv zeta. unfold run_data_hook.
  match goal with |- context [run_hook_ex cb h ?a ?b last None ?c0] =>
    pose proof (proj1 (bd_run_hook_ex_spec cb h a b last None c0)) as E;
    assert (E0 : c_events c0 = c_events c);
    [repeat match goal with |- context [if ?b then _ else _] => destruct b end;
     repeat match goal with |- context [match ?x with _ => _ end] => destruct x end; reflexivity|];
    destruct (run_hook_ex cb h a b last None c0) as [[] c1]; cbn [snd] in *;
    eexists [_]; cbn; rewrite ?E, ?E0; reflexivity
  end.
Qed.
Lemma bd_res_receiver_finalize_ext cb c : bd_ext c (snd (res_receiver_finalize_clear cb c)).
Proof.
  unfold res_receiver_finalize_clear. destruct (k_receiver_hook (c_out c)); [|apply bd_ext_refl].
  pose proof (bd_res_receiver_send_ext cb true c) as (B & E).
  destruct (res_receiver_send_data cb true c) as [rc c1]. cbn [snd] in *. exists B. cbn. exact E.
Qed.
Lemma bd_tx_finalize_ext cb g i c :
  exists X, c_events (snd (tx_finalize cb g i c)) = X ++ c_events c /\ Forall (fun e => ev_hook e = H_TRANSACTION_COMPLETE) X.
Proof.
  unfold tx_finalize. destruct (tx_slot c i) as [t|]; [|exists []; split; [reflexivity|constructor]].
  destruct (negb (tx_is_complete t)); [exists []; split; [reflexivity|constructor]|].
  pose proof (proj1 (bd_run_hook_ex_spec cb H_TRANSACTION_COMPLETE i None false (Some t) c)) as E.
  destruct (run_hook_ex cb H_TRANSACTION_COMPLETE i None false (Some t) c) as [rc c1]. cbn [snd] in E.
  assert (G : forall c2, c_events c2 = c_events c1 ->
            exists X, c_events c2 = X ++ c_events c /\ Forall (fun e => ev_hook e = H_TRANSACTION_COMPLETE) X).
  { intros c2 E2. exists [mkev H_TRANSACTION_COMPLETE i None false (Some t)]. split; [rewrite E2, E; reflexivity|repeat constructor]. }
  destruct rc; cbn [snd]; try (apply G; reflexivity).
  destruct (tx_slot c1 i); [|apply G; reflexivity]. cbn [snd]. destruct (g_tx_auto_destroy g); [|apply G; reflexivity].
  apply G. apply bd_tx_destroy_events.
Qed.

Lemma bd_res_process_marker_shape cb i o c t :
  tx_slot c i = Some t -> c_out_tx c = Some o -> t_res_cep t = c_HTP_COMPRESSION_NONE ->
  exists n20, c_events (snd (tx_res_process_body_data_ex cb i None 0 c)) = mkev H_RESPONSE_BODY_DATA i None false None :: n20 ++ c_events c /\
              Forall (fun e => ev_hook e = H_TX_RESPONSE_BODY_DATA) n20.
Proof.
  intros Hl Ho Hc. unfold tx_res_process_body_data_ex.
  rewrite (bd_tx_upd_eq _ _ _ _ Hl).
  set (t1 := t <| t_response_message_len ::= _ |>). set (c1 := bd_set_tx i t1 c).
  assert (Hl1 : tx_slot c1 i = Some t1) by (apply (bd_slot_set _ _ _ _ Hl)).
  rewrite (bd_tx_get_live _ _ _ Hl1). change (t_res_cep t1) with (t_res_cep t). rewrite Hc, Z.eqb_refl.
  rewrite (bd_tx_upd_eq _ _ _ _ Hl1). set (t2 := t1 <| t_response_entity_len ::= _ |>). set (c2 := bd_set_tx i t2 c1).
  rewrite bd_snd_okerr. unfold res_run_hook_body_data.
  change (c_out_tx c2) with (c_out_tx c). rewrite Ho.
  destruct (bd_run_tx_hooks_events (t_hook_response_body (tx_get c2 o)) H_TX_RESPONSE_BODY_DATA i None false c2) as (n20 & E20 & F20).
  exists n20. split; [|exact F20]. unfold run_data_hook. rewrite (proj1 (bd_run_hook_ex_spec _ _ _ _ _ _ _)).
  f_equal. exact E20.
Qed.

Theorem bd_res_marker cb g i o hybrid c t :
  tx_slot c i = Some t -> c_out_tx c = Some o ->
  t_res_cep t = c_HTP_COMPRESSION_NONE -> (t_response_transfer_coding t =? c_HTP_CODING_NO_BODY) = false ->
  let c' := snd (tx_state_response_complete_ex cb g i hybrid c) in
  exists new, c_events c' = new ++ c_events c /\
              bd_marker_ok H_RESPONSE_BODY_DATA H_RESPONSE_COMPLETE (rev new) false = true.
Proof.
  intros Hl Ho Hc Hnb. unfold tx_state_response_complete_ex.
  rewrite (bd_tx_get_live _ _ _ Hl).
  (* the tail after the completion block only appends TRANSACTION_COMPLETE events *)
  assert (Htail : forall rc c1 new1, c_events c1 = new1 ++ c_events c ->
            (forall X, Forall (fun e => ev_hook e = H_TRANSACTION_COMPLETE) X ->
                       bd_marker_ok H_RESPONSE_BODY_DATA H_RESPONSE_COMPLETE (rev new1 ++ rev X) false = true) ->
            exists new, c_events (snd (match rc with
                                        | ST_OK =>
                                          let in_waits := (c_in_status c1 =? c_HTP_STREAM_DATA_OTHER) &&
                                                match c_in_tx c1, c_out_tx c1 with
                                                | Some a, Some b => (a =? b)%nat | None, None => true | _, _ => false end in
                                          let wrap (ret : st) (c : connp) : st * connp :=
                                            match tx_finalize cb g i c with
                                            | (ST_OK, c2) => (ret, c2 <| c_out_tx := None |> <| c_out_state := RES_IDLE |>)
                                            | r => r
                                            end in
                                          if negb hybrid && in_waits then wrap ST_DATA_OTHER c1
                                          else if negb hybrid && c_out_data_other_at_tx_end c1
                                          then wrap ST_DATA_OTHER (c1 <| c_out_data_other_at_tx_end := false |>)
                                          else wrap ST_OK c1
                                        | _ => (rc, c1)
                                        end)) = new ++ c_events c /\
                        bd_marker_ok H_RESPONSE_BODY_DATA H_RESPONSE_COMPLETE (rev new) false = true).
  { intros rc c1 new1 E1 M1.
    assert (Base : exists new, c_events c1 = new ++ c_events c /\ bd_marker_ok H_RESPONSE_BODY_DATA H_RESPONSE_COMPLETE (rev new) false = true).
    { exists new1. split; [exact E1|]. rewrite <- (app_nil_r (rev new1)). apply (M1 []). constructor. }
    destruct rc; cbn [snd]; try exact Base.
    cbv zeta.
    assert (W : forall ret c', c_events c' = c_events c1 ->
              exists new, c_events (snd (match tx_finalize cb g i c' with
                                         | (ST_OK, c2) => (ret, c2 <| c_out_tx := None |> <| c_out_state := RES_IDLE |>)
                                         | r => r end)) = new ++ c_events c /\
                          bd_marker_ok H_RESPONSE_BODY_DATA H_RESPONSE_COMPLETE (rev new) false = true).
    { intros ret c' Ec. destruct (bd_tx_finalize_ext cb g i c') as (X & EX & FX).
      assert (G : exists new, c_events (snd (tx_finalize cb g i c')) = new ++ c_events c /\
                    bd_marker_ok H_RESPONSE_BODY_DATA H_RESPONSE_COMPLETE (rev new) false = true).
      { exists (X ++ new1). split; [rewrite EX, Ec, E1; apply app_assoc|]. rewrite rev_app_distr. apply M1. exact FX. }
      destruct (tx_finalize cb g i c') as [[] c2]; cbn [snd] in *; exact G. }
    destruct (negb hybrid && _); [apply W; reflexivity|]. destruct (negb hybrid && _); [apply W; reflexivity|]. apply W; reflexivity. }
  destruct (negb (t_response_progress t =? c_HTP_RESPONSE_COMPLETE)).
  2:{ apply (Htail ST_OK c []); [reflexivity|]. intros X FX. cbn [rev app]. apply bd_marker_none.
      apply Forall_rev. eapply Forall_impl; [|exact FX]. cbn. intros e He. rewrite He. discriminate. }
  rewrite (bd_tx_upd_eq _ _ _ _ Hl).
  set (t1 := t <| t_response_progress := c_HTP_RESPONSE_COMPLETE |>). set (c1 := bd_set_tx i t1 c).
  assert (Hl1 : tx_slot c1 i = Some t1) by (apply (bd_slot_set _ _ _ _ Hl)).
  rewrite (bd_tx_get_live _ _ _ Hl1). change (t_response_transfer_coding t1) with (t_response_transfer_coding t).
  rewrite Hnb. cbn [negb].
  destruct (bd_res_process_marker_shape cb i o c1 t1 Hl1 Ho Hc) as (n20 & E2 & F20).
  set (c2 := snd (tx_res_process_body_data_ex cb i None 0 c1)) in *.
  set (m := mkev H_RESPONSE_BODY_DATA i None false None) in *.
  change (c_events c1) with (c_events c) in E2.
  unfold run_hook.
  pose proof (proj1 (bd_run_hook_ex_spec cb H_RESPONSE_COMPLETE i None false None c2)) as E3.
  destruct (run_hook_ex cb H_RESPONSE_COMPLETE i None false None c2) as [rc3 c3]. cbn [snd] in E3.
  set (e17 := mkev H_RESPONSE_COMPLETE i None false None) in *.
  assert (Hn20 : Forall (fun e => ev_hook e <> H_RESPONSE_COMPLETE) (rev n20)).
  { apply Forall_rev. eapply Forall_impl; [|exact F20]. cbn. intros e He. rewrite He. discriminate. }
  assert (Hbase : forall B Y, bd_marker_ok H_RESPONSE_BODY_DATA H_RESPONSE_COMPLETE (rev (B ++ m :: n20) ++ Y) false = true).
  { intros B Y. rewrite rev_app_distr. cbn [rev]. rewrite <- !app_assoc. apply bd_marker_skip; [exact Hn20|].
    intros s'. cbn [app]. apply bd_marker_at; [discriminate|reflexivity|reflexivity]. }
  assert (E31 : c_events c3 = (e17 :: m :: n20) ++ c_events c) by (rewrite E3, E2; reflexivity).
  destruct rc3;
    try (cbn [snd]; exists (e17 :: m :: n20); split; [exact E31|];
         rewrite <- (app_nil_r (rev (e17 :: m :: n20))); apply (Hbase [e17] [])).
  destruct (bd_res_receiver_finalize_ext cb c3) as (B & E4).
  destruct (res_receiver_finalize_clear cb c3) as [rc4 c4]. cbn [snd] in E4.
  apply (Htail rc4 c4 (B ++ e17 :: m :: n20)).
  - rewrite E4, E31. apply app_assoc.
  - intros X _. change (B ++ e17 :: m :: n20) with (B ++ [e17] ++ m :: n20). rewrite app_assoc. apply Hbase.
Qed.
