(* C16, request side of a CONNECT exchange: a CONNECT request of the wire grammar delivered in ANY chunking, possibly with bytes
   that follow it in the same chunk (`glue`).  REQ_IDLE / REQ_LINE / REQ_HEADERS as for every request (PTunSeg*.v);
   htp_tx_state_request_headers leads to REQ_CONNECT_CHECK, which suspends the request side: the call returns
   HTP_STREAM_DATA when the chunk ends with the request, HTP_STREAM_DATA_OTHER (consumed = the request's bytes) otherwise. *)
Require Import Htp.Model.Base Htp.Model.MBstr Htp.Model.MConnTypes Htp.Model.MTxCommon Htp.Model.MReqLine Htp.Model.MReqUri Htp.Model.MTxReq.
Require Import Htp.Model.MReq Htp.Model.MRes Htp.Model.MConnp.
Require Import Htp.Spec.SWire Htp.Proof.PWire Htp.Proof.PWireHdr Htp.Proof.PWireBlock Htp.Proof.PWireConn Htp.Proof.PWireExch.
Require Import Htp.Proof.PWireRun Htp.Proof.PWirePres Htp.Proof.PWireGlue Htp.Proof.PSeg Htp.Proof.PSegLine Htp.Proof.PSegHdr Htp.Proof.PSegGen Htp.Proof.PSegRun.
Require Import Htp.Proof.PSegFold Htp.Proof.PSegPipe Htp.Proof.PSegResReq Htp.Proof.PPairReq Htp.Proof.PReq Htp.Proof.PConnp.
Require Import Htp.Proof.PTunBase Htp.Proof.PTunSeg Htp.Proof.PTunSegLine Htp.Proof.PTunSegHdr Htp.Proof.PTunSegFold Htp.Proof.PTunSegRun Htp.Proof.PTunSegPipe Htp.Proof.PTunSegMid.

(* a CONNECT request of the wire grammar: request line  CONNECT SP authority SP HTTP/1.x , header fields, within the limits *)
Definition tn_connect_ok (g : cfg) (r : wr_request) : bool :=
  wr_wf_request_line (wq_method r) (wq_uri r) (wq_protocol r) && wr_eqb (wq_method r) wr_str_connect &&
  wr_block_ok (wq_fields r) && sg_fits g r.
(* what a transaction says about a request whose request side is not complete (the request side of a CONNECT exchange that became a
   tunnel never completes): PWireExch.wr_reported without the progress clause *)
Definition tn_reported (t : tx) (r : wr_request) : Prop :=
  t_request_method t = Some (wq_method r) /\ t_request_method_number t = htp_convert_method_to_number (wq_method r) /\
  t_request_uri t = Some (wq_uri r) /\ t_request_protocol t = Some (wq_protocol r) /\
  t_request_protocol_number t = wr_protocol_number (wq_protocol r) /\ t_is_protocol_0_9 t = false /\
  t_request_headers t = wr_table (map wr_field_nv (wq_fields r)).

(* the request side while the answer to CONNECT is awaited (between two calls) *)
Record tn_waitw (w : tg_world) (c : connp) (t : tx) : Prop := mk_tn_wait {
  ww_status : c_in_status c = c_HTP_STREAM_DATA \/ c_in_status c = c_HTP_STREAM_DATA_OTHER;
  ww_state : c_in_state c = REQ_CONNECT_WAIT_RESPONSE;
  ww_prev : c_in_state_previous c = Some REQ_CONNECT_CHECK;
  ww_buf : sg_olist (k_buf (c_in c)) = [];
  ww_hdr : k_header (c_in c) = None;
  ww_rh : k_receiver_hook (c_in c) = None;
  ww_tx : c_in_tx c = Some (length (gw_done w));
  ww_txs : c_txs c = gw_done w ++ [Some t];
  ww_shift : c_txs_shifted c = 0%nat;
  ww_flags : c_conn_flags c = ax_flags (gw_aux w);
  ww_onext : c_out_next_tx_index c = ax_onext (gw_aux w) /\ tn_rs c = ax_rs (gw_aux w) /\ c_in_content_length c = ax_cl (gw_aux w) }.
Lemma tn_waitw_finish w c t : tn_waitw w c t -> tn_stable (c_out (ax_rs (gw_aux w))) -> tn_waitw w (tn_fin c) t.
Proof.
  intros [A1 A2 A3 A4 A5 A6 A7 A8 A9 A10 A11] S. destruct (tg_forget_fields c) as (F1 & F2 & F3). destruct A11 as (A11 & A12 & A13).
  constructor; rewrite ?F1, ?F2, ?F3; try assumption. split; [exact A11|split; [apply tn_rs_fin_stable; assumption|exact A13]].
Qed.

Lemma tn_connect_number m : wr_eqb m wr_str_connect = true -> (htp_convert_method_to_number m =? c_HTP_M_CONNECT)%Z = true.
Proof. intros H. apply wr_eqb_eq in H. subst m. vm_compute. reflexivity. Qed.

Section Check.
Variable cb : cb_oracle.
Variable g : cfg.
Hypothesis Hcb : wr_all_ok cb.
Context {w : tg_world}.
Notation tg_cin := (tg_cinw w).

(* ---- REQ_CONNECT_CHECK on a CONNECT request: the request side is suspended ---- *)
Definition tn_susp (c : connp) (st : Z) : connp :=
  c <| c_in_state := REQ_CONNECT_WAIT_RESPONSE |> <| c_in_status := c_HTP_STREAM_DATA_OTHER |> <| c_in_status := st |>.
Lemma tn_pass_connect_check c d rd t : tg_cin c d rd [] None REQ_CONNECT_CHECK (Some REQ_CONNECT_CHECK) None t ->
  (t_request_method_number t =? c_HTP_M_CONNECT)%Z = true ->
  let st := if (rd =? length d)%nat then c_HTP_STREAM_DATA else c_HTP_STREAM_DATA_OTHER in
  rq_iter cb g false c = inl (tn_susp c st, st) /\ tn_waitw w (tn_susp c st) t /\ k_read (c_in (tn_susp c st)) = rd /\ c_in_status (tn_susp c st) = st /\
  c_out_status (tn_susp c st) = c_out_status c /\ c_events (tn_susp c st) = c_events c.
Proof.
  intros H Hm st. pose proof (tg_cin_slot _ _ _ _ _ _ _ _ _ H) as Hsl. pose proof H as [A1 A2 A3 A4 A5 A6 A7 A8 A9 A10 A11 A12 A13 A14 A15 A16 A17].
  split; [|split; [|split; [exact A6|split; [reflexivity|split; reflexivity]]]].
  - unfold rq_iter. rewrite A2. cbn [rq_state_fn]. unfold REQ_CONNECT_CHECK_fn, rq_tx, in_txi, tx_get. rewrite A13, Hsl, Hm.
    unfold rq_exit, rq_at_end. cbn [c_in set]. rewrite A5, A6. unfold st.
    destruct (Nat.leb_spec (length d) rd) as [L|L].
    + assert (E : (rd =? length d)%nat = true) by (apply Nat.eqb_eq; lia). rewrite E. reflexivity.
    + assert (E : (rd =? length d)%nat = false) by (apply Nat.eqb_neq; lia). rewrite E. reflexivity.
  - apply app_eq_nil in A9. destruct A9 as [B _].
    constructor; try assumption; try reflexivity. unfold st. cbn. destruct (rd =? length d)%nat; [left|right]; reflexivity.
Qed.
End Check.

(* ================= one CONNECT request, any chunking ================= *)
Section Q.
Variable cb : cb_oracle.
Variable g : cfg.
Hypothesis Hcb : wr_all_ok cb.
Hypothesis Hspace : g_allow_space_uri g = false.
Variable r : wr_request.
Hypothesis Hok : tn_connect_ok g r = true.
Variable glue : bytes.                                  (* what follows the request in the chunk that brings its last byte *)
Variable a0 : tg_aux.
Hypothesis Hst : tn_stable (c_out (ax_rs a0)).
Hypothesis Hotx : c_out_tx (ax_rs a0) = None.

Let m := wq_method r. Let u := wq_uri r. Let pr := wq_protocol r. Let fs := wq_fields r.
Let a1 := tg_next_flags [] a0.                         (* after htp_connp_tx_create *)
Let w := mk_tg_world [] a1.
Notation tg_cin := (tg_cinw w).
Notation tg_mid := (tg_midw w).
Let Tend := sg_tend g 0 r.
(* the transaction while the answer is awaited *)
Definition tn_tw (fl : bool) : tx := sg_tpre g 0 (wq_method r) (wq_uri r) (wq_protocol r) (wq_fields r) fl.

Lemma tq_parts : wr_wf_request_line m u pr = true /\ wr_eqb m wr_str_connect = true /\ wr_block_ok fs = true /\
  (length (sg_line0 r) + 2 <= g_field_limit_hard g)%nat /\ sg_fit (g_field_limit_hard g) 0 fs = true.
Proof.
  unfold tn_connect_ok in Hok. apply andb_prop in Hok. destruct Hok as [H Hf]. apply andb_prop in H. destruct H as [H Wb].
  apply andb_prop in H. destruct H as [Wl Wc]. unfold sg_fits in Hf. apply andb_prop in Hf. destruct Hf as [Hl0 Hfit]. apply Nat.leb_le in Hl0.
  repeat split; assumption.
Qed.

(* facts about the transaction at the end of the header block *)
Lemma tq_tend_facts : t_request_method_number Tend = htp_convert_method_to_number m /\ t_request_progress Tend = c_HTP_REQUEST_HEADERS /\
  (exists nu, t_parsed_uri Tend = Some nu) /\ t_response_progress Tend = c_HTP_RESPONSE_NOT_STARTED.
Proof.
  destruct tq_parts as (Wl & _). destruct (sg_th0_facts g Hspace 0 m u pr Wl) as (F & H1 & H2 & H3 & H4 & (nu & H5)).
  pose proof (wr_keep_h_block fs (sg_th0 g 0 m u pr)) as K. unfold wr_keep_h in K. destruct K as (K1 & K2 & K3 & K4 & K5 & K6 & K7 & K8 & K9 & K10).
  unfold wr_line_fields in F. destruct F as (F1 & F2 & F3 & F4 & F5 & F6).
  unfold Tend, sg_tend. fold m u pr fs. split; [rewrite K2; exact F2|]. split; [rewrite K7; exact H3|]. split; [exists nu; rewrite K10; exact H5|rewrite K8; exact H4].
Qed.
Lemma tq_tend_more : t_is_protocol_0_9 Tend = false /\ wr_line_fields Tend m u pr /\ t_request_headers Tend = wr_table (map wr_field_nv fs).
Proof.
  destruct tq_parts as (Wl & _ & Wb & _). destruct (sg_th0_facts g Hspace 0 m u pr Wl) as (F & H1 & H2 & H3 & H4 & (nu & H5)).
  pose proof (wr_keep_h_block fs (sg_th0 g 0 m u pr)) as K. unfold wr_keep_h in K. destruct K as (K1 & K2 & K3 & K4 & K5 & K6 & K7 & K8 & K9 & K10).
  pose proof F as (F1 & F2 & F3 & F4 & F5 & F6).
  unfold Tend, sg_tend. fold m u pr fs. split; [rewrite K6; exact F6|]. split; [|apply wr_block_tx_table; [exact Wb|exact H1|exact H2]].
  unfold wr_line_fields. repeat split; congruence.
Qed.
Lemma tq_tw_facts fl : (t_request_method_number (tn_tw fl) =? c_HTP_M_CONNECT)%Z = true /\ t_response_progress (tn_tw fl) = c_HTP_RESPONSE_NOT_STARTED /\
  t_is_protocol_0_9 (tn_tw fl) = false /\ t_request_progress (tn_tw fl) = c_HTP_REQUEST_HEADERS /\ tn_reported (tn_tw fl) r.
Proof.
  destruct tq_parts as (_ & Wc & _). destruct tq_tend_facts as (M & Pg & _ & Rp). destruct tq_tend_more as (Z9 & F & Ht).
  assert (E : tn_tw fl = sg_hdr_end (if fl then tx_set_flag c_HTP_MULTI_PACKET_HEAD Tend else Tend)) by reflexivity. rewrite E. clear E.
  set (t5 := if fl then tx_set_flag c_HTP_MULTI_PACKET_HEAD Tend else Tend).
  assert (K5 : wr_keep t5 Tend) by (unfold t5; destruct fl; [unfold tx_set_flag; wr_keep_now|apply wr_keep_refl]).
  destruct (sg_hdr_end_facts t5) as [K6 _].
  assert (K : wr_keep (sg_hdr_end t5) Tend) by (eapply wr_keep_trans; [exact K6|exact K5]).
  unfold wr_keep in K. destruct K as (K1 & K2 & K3 & K4 & K5' & K6' & K7 & K8 & K9 & K10 & K11).
  split; [rewrite K2, M; apply tn_connect_number; exact Wc|]. split; [rewrite K10; exact Rp|]. split; [rewrite K6'; exact Z9|]. split; [rewrite K9; exact Pg|].
  unfold wr_line_fields in F. destruct F as (F1 & F2 & F3 & F4 & F5 & F6). unfold tn_reported. fold m u pr fs. repeat split; congruence.
Qed.

(* ---- after the empty line: htp_tx_state_request_headers, then REQ_CONNECT_CHECK suspends the request side ---- *)
Definition tq_done (d : bytes) (cF : connp) (rc : Z) (rw' : bytes) : Prop :=
  exists fl rd1, skipn rd1 d ++ rw' = glue /\ (rd1 <= length d)%nat /\ k_read (c_in cF) = rd1 /\
    rc = (if (rd1 =? length d)%nat then c_HTP_STREAM_DATA else c_HTP_STREAM_DATA_OTHER) /\ c_in_status cF = rc /\ tn_waitw w cF (tn_tw fl).

Lemma tq_tail c c1 d rd1 (rw' : bytes) f : c_in_state c = REQ_HEADERS ->
  rq_state_fn cb g REQ_HEADERS c = rq_with_tx (tx_state_request_headers cb) c1 ->
  tg_cin c1 d rd1 [] None REQ_HEADERS (Some REQ_HEADERS) (Some H_REQUEST_HEADER_DATA) Tend -> skipn rd1 d ++ rw' = glue ->
  exists cF rc, rq_loop cb g (2 + f) false c = (cF, rc) /\ tq_done d cF rc rw' /\ c_out_status cF = c_out_status c1.
Proof.
  intros Es Ef H1 Hw. destruct tq_tend_facts as (_ & Pg & (nu & Pu) & _).
  unfold rq_with_tx in Ef. rewrite (gi_tx _ _ _ _ _ _ _ _ _ H1) in Ef.
  destruct (tg_state_request_headers cb Hcb c1 d _ _ Tend nu H1 Pg Pu) as (c2 & fl & E2 & H2). rewrite E2 in Ef.
  assert (O2 : c_out_status c2 = c_out_status c1).
  { pose proof (fr_request_headers cb Hcb 0%nat c1) as Y. change (length (gw_done w)) with 0%nat in E2. rewrite E2 in Y. cbn [snd] in Y.
    unfold sr_fr in Y. inversion Y. reflexivity. }
  change (sg_hdr_end (if fl then tx_set_flag c_HTP_MULTI_PACKET_HEAD Tend else Tend)) with (tn_tw fl) in H2.
  rewrite <- Es in Ef.
  destruct (tg_iter_ok cb g c c2 d _ _ _ _ _ _ _ Ef H2) as (c3 & E3 & H3); [discriminate|].
  assert (O3 : c_out_status c3 = c_out_status c2).
  { revert E3. unfold rq_iter. rewrite Ef. rewrite (tg_live_tunnel _ (gi_status _ _ _ _ _ _ _ _ _ H2)).
    pose proof (fr_state_change cb Hcb c2) as Y. destruct (req_handle_state_change cb c2) as [rc2 c2']. cbn [snd] in Y.
    unfold sr_fr in Y. destruct rc2; intros E; inversion E; subst; inversion Y; reflexivity. }
  destruct (tq_tw_facts fl) as (M & _).
  destruct (tn_pass_connect_check cb g c3 d rd1 (tn_tw fl) H3 M) as (E4 & W4 & R4 & S4 & O4 & _). cbv zeta in *.
  eexists _, _. split; [change (2 + f)%nat with (S (S f)); rewrite (sg_rq_loop_inr cb g _ _ _ E3), (sg_rq_loop_inl cb g _ _ _ E4); reflexivity|].
  split; [|rewrite O4, O3, O2; reflexivity].
  exists fl, rd1. split; [exact Hw|]. split; [exact (gi_rd _ _ _ _ _ _ _ _ _ H1)|]. split; [exact R4|]. split; [reflexivity|]. split; [exact S4|exact W4].
Qed.

(* ---- the states between two calls, and what one call establishes ---- *)
Let line0 := sg_line0 r.
Let bwt := sg_fwire (sg_flat r) ++ [CR; LF] ++ glue.
Inductive tq_betw (c : connp) (rw : bytes) : Prop :=
| TQ_idle : tg_imid c [] a0 -> rw = (line0 ++ [CR; LF]) ++ bwt -> tq_betw c rw
| TQ_line p q : tg_mid c p None REQ_LINE None (sg_t1 0) -> p ++ q = line0 ++ [CR; LF] -> q <> [] -> rw = q ++ bwt -> tq_betw c rw
| TQ_hdrs p hdr t : tg_mid c p hdr REQ_HEADERS (Some H_REQUEST_HEADER_DATA) t -> sg_fhlog g Tend glue hdr t p rw -> tq_betw c rw.

Definition tq_post (d : bytes) (cF : connp) (rc : Z) (rw' : bytes) : Prop :=
  (rc = c_HTP_STREAM_DATA /\ (length glue < length rw')%nat /\ tq_betw cF rw') \/ tq_done d cF rc rw'.
Definition tq_goal (d : bytes) (c : connp) (fuel : nat) (rw' : bytes) : Prop :=
  exists cF rc, rq_loop cb g fuel false c = (cF, rc) /\ tq_post d cF rc rw'.

Lemma tq_goal_steps n d c c' fuel (rw' : bytes) : (forall f, rq_loop cb g (n + f) false c = rq_loop cb g f false c') -> (n <= fuel)%nat ->
  tq_goal d c' (fuel - n) rw' -> tq_goal d c fuel rw'.
Proof. intros St L (cF & rc & E & X). exists cF, rc. split; [|exact X]. replace fuel with (n + (fuel - n))%nat by lia. rewrite St. exact E. Qed.

Lemma tq_bwt_len : (length glue <= length bwt)%nat.
Proof. unfold bwt. rewrite !app_length. lia. Qed.

(* a call that is in REQ_HEADERS *)
Lemma tq_run_hdrs c d rd p hdr t (rw' : bytes) fuel :
  tg_cin c d rd p hdr REQ_HEADERS (Some REQ_HEADERS) (Some H_REQUEST_HEADER_DATA) t ->
  sg_fhlog g Tend glue hdr t p (skipn rd d ++ rw') -> (3 <= fuel)%nat -> tq_goal d c fuel rw'.
Proof.
  intros H Hlog Hf. pose proof Hlog as (pend & tl & rem & q & Hrel & Ok & Hnp & Hrun & Hpq & Hq & Hw & Hfit).
  assert (Es : c_in_state c = REQ_HEADERS) by apply (gi_state _ _ _ _ _ _ _ _ _ H).
  assert (Ef : rq_state_fn cb g REQ_HEADERS c = REQ_HEADERS_loop cb g (length d - rd) c).
  { cbn [rq_state_fn]. unfold REQ_HEADERS_fn. rewrite (gi_len _ _ _ _ _ _ _ _ _ H), (gi_read _ _ _ _ _ _ _ _ _ H). reflexivity. }
  destruct (tg_fhdrs_loop cb g d rw' _ glue rem c rd p q hdr t pend tl (length d - rd) H Hrel Ok Hnp Hrun Hpq Hq Hw Hfit (le_n _)) as [HA|HB].
  - destruct HA as (c' & p' & hdr' & t' & EA & HA1 & HA2 & HA3).
    assert (Lim : (length p' + length (sg_olist hdr') <= g_field_limit_hard g)%nat).
    { destruct HA2 as (pe & te & re & q' & Hr' & _ & _ & _ & Epq & _ & _ & Fit). pose proof (sg_ffit_next _ _ _ Fit) as L. rewrite <- Epq, app_length in L.
      pose proof (sg_rel_len _ _ _ _ _ Hr'). lia. }
    destruct (tg_exit_buffer cb g Hcb c' d p' hdr' _ _ t' HA1 Lim) as (cF & EF & HF).
    destruct fuel as [|f]; [lia|]. exists cF, c_HTP_STREAM_DATA. split; [apply sg_rq_loop_inl; unfold rq_iter; rewrite Es, Ef, EA, EF; reflexivity|].
    left. split; [reflexivity|]. split; [|apply (TQ_hdrs _ _ p' hdr' t' HF HA2)].
    destruct HA2 as (pe & te & re & q' & _ & _ & _ & _ & _ & Hq' & Erw & _). rewrite Erw, app_length. pose proof (sg_fafter_len glue re). destruct q'; [contradiction|]. cbn [length]. lia.
  - destruct HB as (c' & rd1 & EB & HB1 & HB2). rewrite <- Ef in EB.
    destruct (tq_tail c c' d rd1 rw' (fuel - 2) Es EB HB1 HB2) as (cF & rc & E & Dn & _).
    exists cF, rc. split; [replace fuel with (2 + (fuel - 2))%nat by lia; exact E|right; exact Dn].
Qed.

(* a call that is in REQ_LINE *)
Lemma tq_run_line c d rd p q (rw' : bytes) fuel :
  tg_cin c d rd p None REQ_LINE (Some REQ_LINE) None (sg_t1 0) ->
  p ++ q = line0 ++ [CR; LF] -> q <> [] -> skipn rd d ++ rw' = q ++ bwt -> (5 <= fuel)%nat -> tq_goal d c fuel rw'.
Proof.
  intros H Hpq Hq Hw Hf. destruct tq_parts as (Wl & Wc & Wb & Hl0 & Hfit).
  destruct (tg_pipe_line cb g Hcb Hspace c d rd p q rw' bwt _ _ _ Wl Hl0 H Hpq Hq Hw) as [(cF & q2 & E & HF & Hq2 & Hpq2 & Erw)|(c3 & rd2 & St & H3 & Hw3 & Hlt)].
  - destruct fuel as [|f]; [lia|]. exists cF, c_HTP_STREAM_DATA. split; [apply (sg_rq_loop_inl cb g _ _ _ E)|].
    left. split; [reflexivity|]. split; [|apply (TQ_line _ _ _ q2 HF Hpq2 Hq2 Erw)].
    rewrite Erw, app_length. pose proof tq_bwt_len. destruct q2; [contradiction|]. cbn [length]. lia.
  - apply (tq_goal_steps 2 d c c3 fuel rw' St ltac:(lia)).
    apply (tq_run_hdrs c3 d rd2 [] None _ rw' _ H3); [|lia].
    rewrite Hw3. unfold bwt, Tend, sg_tend. apply sg_flat_start; assumption.
Qed.

(* a call that begins between two requests *)
Lemma tq_run_idle c d (rw' : bytes) fuel prev :
  tg_idl c d 0 [] [] a0 prev -> d <> [] -> d ++ rw' = (line0 ++ [CR; LF]) ++ bwt -> (6 <= fuel)%nat -> tq_goal d c fuel rw'.
Proof.
  intros H Hd Hw Hf. assert (Lx : (0 < length d)%nat) by (destruct d; [contradiction|cbn; lia]).
  destruct (tg_pass_idle cb g Hcb c d 0 [] [] a0 prev H Lx ltac:(right; cbn; lia)) as (c1 & E1 & H1).
  change (mk_tg_world [] (tg_next_flags [] a0)) with w in H1.
  apply (tq_goal_steps 1 d c c1 fuel rw' (sg_steps_inr cb g c c1 E1) ltac:(lia)).
  apply (tq_run_line c1 d 0 [] (line0 ++ [CR; LF]) rw' _ H1 eq_refl); [|exact Hw|lia].
  intro E. apply app_eq_nil in E. destruct E as [_ E]. discriminate.
Qed.

(* ---- one call of htp_connp_req_data ---- *)
Lemma tq_step c (rw x rw' : bytes) : tq_betw c rw -> x <> [] -> rw = x ++ rw' ->
  exists c' rc, connp_req_data cb g (Some x) (length x) c = (c', rc) /\ tq_post x c' rc rw'.
Proof.
  intros B Hne Ex. assert (Fu : (8 <= rq_fuel (length x))%nat) by (unfold rq_fuel; lia).
  destruct B as [Hm Erw|p q Hm Hpq Hq Erw|p hdr t Hm Hl].
  - destruct (tg_enter_idle cb g c [] a0 x Hm Hne) as (c1 & E1 & H1 & _). unfold bytes in *. rewrite E1.
    apply (tq_run_idle c1 x rw' _ _ H1 Hne); [rewrite <- Ex; exact Erw|lia].
  - destruct (tg_enter_ev cb g c p None _ _ _ x Hm Hne) as (c1 & E1 & H1 & _). unfold bytes in *. rewrite E1.
    apply (tq_run_line c1 x 0 p q rw' _ H1 Hpq Hq); [cbn [skipn]; rewrite <- Ex; exact Erw|lia].
  - destruct (tg_enter_ev cb g c p hdr _ _ t x Hm Hne) as (c1 & E1 & H1 & _). unfold bytes in *. rewrite E1.
    apply (tq_run_hdrs c1 x 0 p hdr t rw' _ H1); [cbn [skipn]; rewrite <- Ex; exact Hl|lia].
Qed.

Lemma tq_betw_finish c rw : tq_betw c rw -> tq_betw (tn_fin c) rw.
Proof.
  intros [Hm Erw|p q Hm Hpq Hq Erw|p hdr t Hm Hl].
  - apply TQ_idle; [apply tg_imid_finish; assumption|exact Erw].
  - apply (TQ_line _ _ p q); [apply tg_midw_finish; assumption|exact Hpq|exact Hq|exact Erw].
  - apply (TQ_hdrs _ _ p hdr t); [apply tg_midw_finish; assumption|exact Hl].
Qed.
Lemma tq_betw_facts c rw : tq_betw c rw -> rq_inv c /\ tg_live (c_in_status c) /\ tn_rs c = ax_rs a0.
Proof.
  intros [Hm Erw|p q Hm Hpq Hq Erw|p hdr t Hm Hl].
  - split; [apply rq_inv_plain; rewrite (gq_state _ _ _ Hm); split; discriminate|]. split; [exact (gq_status _ _ _ Hm)|exact (proj1 (proj2 (gq_onext _ _ _ Hm)))].
  - split; [apply rq_inv_plain; rewrite (gm_state _ _ _ _ _ _ Hm); split; discriminate|]. split; [exact (gm_status _ _ _ _ _ _ Hm)|exact (proj1 (proj2 (gm_onext _ _ _ _ _ _ Hm)))].
  - split; [apply rq_inv_plain; rewrite (gm_state _ _ _ _ _ _ Hm); split; discriminate|]. split; [exact (gm_status _ _ _ _ _ _ Hm)|exact (proj1 (proj2 (gm_onext _ _ _ _ _ _ Hm)))].
Qed.

(* ---- every chunk: the chunks before the last one end inside the request, the last one brings its end (and the glue) ---- *)
Definition tn_last_rc : Z := if (length glue =? 0)%nat then c_HTP_STREAM_DATA else c_HTP_STREAM_DATA_OTHER.


Lemma tq_chunks : forall (pre : list bytes) c (rw last : bytes), tq_betw c rw -> c_out_status c = c_HTP_STREAM_OPEN ->
  Forall (fun x => x <> []) pre -> last <> [] -> concat pre ++ last = rw -> (length (concat pre) + length glue < length rw)%nat ->
  exists cF fl, fst (cp_run cb g c (map OpReqData (pre ++ [last]))) = cF /\
    tn_waitw w cF (tn_tw fl) /\ c_in_status cF = tn_last_rc /\ c_out_status cF = c_HTP_STREAM_OPEN /\ c_events cF = [] /\
    map tn_o (snd (cp_run cb g c (map OpReqData (pre ++ [last])))) =
      map (fun x => (c_HTP_STREAM_DATA, length x)) pre ++ [(tn_last_rc, length last - length glue)%nat] /\
    Forall tn_rquiet (snd (cp_run cb g c (map OpReqData (pre ++ [last])))).
Proof.
  induction pre as [|x pre IH]; intros c rw last B So Hall Hl Hc Hlen.
  - cbn [concat app] in Hc. cbn [app map]. rewrite tn_run_cons. cbn [cp_run fst snd]. rewrite tn_step_req.
    destruct (tq_betw_facts c rw B) as (Hi & Hlive & Hrs).
    assert (Ot : c_out_tx c = None) by (destruct (tn_rs_proj _ _ Hrs) as (_ & _ & _ & X & _); rewrite X; exact Hotx).
    pose proof (pq_req_data_keep cb g Hcb last c Ot So) as K.
    destruct (tq_step c rw last [] B Hl ltac:(rewrite app_nil_r; symmetry; exact Hc)) as (c' & rc & E & [(_ & L & _)|(fl & rd1 & Hw & Hrd & Hk & Hrc & Hs & W)]); [cbn [length] in L; lia|].
    unfold bytes in E, K |- *. rewrite E in K |- *. cbn [fst snd] in K |- *. rewrite app_nil_r in Hw.
    assert (Lg : length glue = (length last - rd1)%nat) by (rewrite <- Hw, skipn_length; reflexivity).
    assert (Erc : rc = tn_last_rc).
    { rewrite Hrc. unfold tn_last_rc. destruct (length glue =? 0)%nat eqn:Eg.
      - apply Nat.eqb_eq in Eg. assert (E1 : (rd1 =? length last)%nat = true) by (apply Nat.eqb_eq; lia). rewrite E1. reflexivity.
      - apply Nat.eqb_neq in Eg. assert (E1 : (rd1 =? length last)%nat = false) by (apply Nat.eqb_neq; lia). rewrite E1. reflexivity. }
    assert (Q : c_in_status c' <> c_HTP_STREAM_TUNNEL).
    { rewrite Hs, Hrc. destruct (rd1 =? length last)%nat; intro X; vm_compute in X; discriminate. }
    exists (tn_fin c'), fl. split; [reflexivity|]. split; [apply tn_waitw_finish; assumption|].
    split; [change (c_in_status (tn_fin c')) with (c_in_status c'); rewrite Hs; exact Erc|].
    split; [change (c_out_status (tn_fin c')) with (c_out_status c'); destruct K as [_ [K|K]]; [rewrite K; exact So|contradiction]|].
    split; [reflexivity|]. split.
    + cbn [map app]. unfold tn_o, tn_res, finish_call. cbn [snd r_rc r_consumed]. rewrite Hk, Erc. do 3 f_equal. lia.
    + constructor; [|constructor]. exact Q.
  - cbn [concat] in Hc. rewrite <- app_assoc in Hc. inversion Hall as [|? ? Hx Hall']; subst.
    change (map OpReqData ((x :: pre) ++ [last])) with (OpReqData x :: map OpReqData (pre ++ [last])). rewrite tn_run_cons. cbn [fst snd]. rewrite tn_step_req.
    destruct (tq_betw_facts c _ B) as (Hi & Hlive & Hrs).
    assert (Ot : c_out_tx c = None) by (destruct (tn_rs_proj _ _ Hrs) as (_ & _ & _ & X & _); rewrite X; exact Hotx).
    pose proof (pq_req_data_keep cb g Hcb x c Ot So) as K.
    destruct (tq_step c _ x (concat pre ++ last) B Hx eq_refl) as (c' & rc & E & [(Hrc & L & B')|(fl & rd1 & Hw & _)]).
    2: { exfalso. assert (L : length (skipn rd1 x ++ concat pre ++ last) = length glue) by (rewrite Hw; reflexivity). cbn [concat] in Hlen. rewrite !app_length in *. lia. }
    assert (E' : connp_req_data cb g (Some x) (length x) c = (c', c_HTP_STREAM_DATA)) by (rewrite <- Hrc; exact E).
    pose proof (req_data_data_means_all cb g (Some x) (length x) c c' Hi ltac:(intros d0 Ed; inversion Ed; lia) E') as Hk.
    unfold bytes in E, K |- *.
    rewrite E in K |- *. cbn [fst snd] in K |- *.
    destruct (tq_betw_facts c' _ B') as (_ & Hlive' & _).
    assert (So' : c_out_status (tn_fin c') = c_HTP_STREAM_OPEN).
    { change (c_out_status (tn_fin c')) with (c_out_status c'). destruct K as [_ [K|K]]; [rewrite K; exact So|exfalso; apply (tn_live_quiet _ Hlive'); exact K]. }
    destruct (IH (tn_fin c') (concat pre ++ last) last (tq_betw_finish _ _ B') So' Hall' Hl eq_refl) as (cF & fl & EF & W & S1 & S2 & S3 & Ho & Hq).
    { cbn [concat] in Hlen. rewrite !app_length in *. lia. }
    exists cF, fl. split; [exact EF|]. split; [exact W|]. split; [exact S1|]. split; [exact S2|]. split; [exact S3|]. split.
    + cbn [map app]. f_equal; [|exact Ho]. unfold tn_o, tn_res, finish_call. cbn [snd r_rc r_consumed]. rewrite Hk, Hrc. reflexivity.
    + constructor; [|exact Hq]. unfold tn_rquiet, tn_res, finish_call. cbn [snd r_in_status]. apply tn_live_quiet. exact Hlive'.
Qed.
End Q.
