(* C04, Stage B: RES_FINALIZE when more data follows the response.  htp_connp_RES_FINALIZE looks at the next line: it copies bytes
   up to the next LF -- when the chunk ends before, the bytes are buffered (HTP_DATA_BUFFER) and the response is NOT yet
   complete -- and, when the line is not "unexpected body data", un-reads it (the part that came with earlier chunks stays in
   out_buf, the read offset goes back to where the line started in this chunk: /repo commit a036976), completes the response
   and leaves the line to RES_IDLE / RES_LINE of the next transaction. *)
Require Import Htp.Model.Base Htp.Model.MBstr Htp.Model.MConnTypes Htp.Model.MTxCommon Htp.Model.MResLine Htp.Model.MTxRes.
Require Import Htp.Model.MReq Htp.Model.MRes Htp.Model.MConnp.
Require Import Htp.Spec.SWire Htp.Proof.PWire Htp.Proof.PWireHdr Htp.Proof.PWireBlock Htp.Proof.PWireConn Htp.Proof.PWireExch.
Require Import Htp.Proof.PWireRun Htp.Proof.PWirePres Htp.Proof.PWireGlue Htp.Proof.PSeg Htp.Proof.PSegLine Htp.Proof.PSegHdr Htp.Proof.PSegGen Htp.Proof.PSegRun.
Require Import Htp.Proof.PSegFold Htp.Proof.PSegRes Htp.Proof.PSegResLine Htp.Proof.PSegResHdr Htp.Proof.PSegResGen Htp.Proof.PSegResRun.
Require Import Htp.Proof.PPairC1 Htp.Proof.PPairC2 Htp.Proof.PPairC3 Htp.Proof.PPairC4 Htp.Proof.PPairC5.

Section Fin.
Variable cb : cb_oracle.
Variable g : cfg.
Hypothesis Hcb : wr_all_ok cb.
Hypothesis Had : g_tx_auto_destroy g = false.
Context {w : pj_world}.
Notation pj_cin := (pj_cinw w).
Notation pj_mid := (pj_midw w).

(* ---- for (;;) { OUT_COPY_BYTE_OR_RETURN; if (out_next_byte == LF) break; } ---- *)
Lemma pj_fin_scan_S f c : rs_finalize_scan (S f) c =
  match rs_copy_byte c with
  | None => (false, c)
  | Some c => if rs_nb_is c LF then (true, c) else rs_finalize_scan f c
  end.
Proof. reflexivity. Qed.
Lemma pj_fin_scan_nolf d hdr st prev rh t : forall u c rd p n,
  pj_cin c d rd p hdr st prev rh t -> skipn rd d = u -> sg_no_lf u = true -> (length u < n)%nat ->
  exists c', rs_finalize_scan n c = (false, c') /\ pj_cin c' d (length d) (p ++ u) hdr st prev rh t.
Proof.
  induction u as [|b u IH]; intros c rd p n H Hu Hnl Hn.
  - pose proof (sg_skipn_nil d rd Hu) as L. pose proof (ji_rd _ _ _ _ _ _ _ _ _ H) as Hrd.
    assert (E : rd = length d) by lia. subst rd.
    destruct n as [|n]; [cbn [length] in Hn; lia|]. rewrite pj_fin_scan_S, (sr_copy_none c d (ji_len _ _ _ _ _ _ _ _ _ H) (ji_read _ _ _ _ _ _ _ _ _ H)).
    exists c. split; [reflexivity|]. rewrite app_nil_r. exact H.
  - destruct (sg_skipn_cons d rd b u Hu) as (Hnth & Hu' & Hlt).
    cbn [sg_no_lf forallb] in Hnl. apply andb_prop in Hnl. destruct Hnl as [Hb Hnl]. apply negb_true_iff in Hb.
    destruct n as [|n]; [cbn [length] in Hn; lia|]. rewrite pj_fin_scan_S.
    assert (Hn0 : nth_error d (k_read (c_out c)) = Some b) by (rewrite (ji_read _ _ _ _ _ _ _ _ _ H); exact Hnth).
    rewrite (sr_copy_byte c d b (ji_data _ _ _ _ _ _ _ _ _ H) (ji_len _ _ _ _ _ _ _ _ _ H) Hn0).
    assert (N1 : rs_nb_is (rs_set_out (wr_kadv b) c) LF = false) by (unfold rs_nb_is, rs_nb; cbn; exact Hb). rewrite N1.
    destruct (IH (rs_set_out (wr_kadv b) c) (S rd) (p ++ [b]) n (pj_cin_adv _ _ _ _ _ _ _ _ _ b H Hnth) Hu' Hnl ltac:(cbn [length] in Hn; lia)) as (c' & E & H').
    exists c'. split; [exact E|]. rewrite <- app_assoc in H'. exact H'.
Qed.
Lemma pj_fin_scan_lf d hdr st prev rh t u2 : forall u1 c rd p n,
  pj_cin c d rd p hdr st prev rh t -> skipn rd d = u1 ++ LF :: u2 -> sg_no_lf u1 = true -> (length u1 < n)%nat ->
  exists c', rs_finalize_scan n c = (true, c') /\ pj_cin c' d (rd + length u1 + 1) (p ++ u1 ++ [LF]) hdr st prev rh t.
Proof.
  induction u1 as [|b u1 IH]; intros c rd p n H Hu Hnl Hn.
  - cbn [app] in Hu. destruct (sg_skipn_cons d rd LF u2 Hu) as (Hnth & Hu' & Hlt).
    destruct n as [|n]; [cbn [length] in Hn; lia|]. rewrite pj_fin_scan_S.
    assert (Hn0 : nth_error d (k_read (c_out c)) = Some LF) by (rewrite (ji_read _ _ _ _ _ _ _ _ _ H); exact Hnth).
    rewrite (sr_copy_byte c d LF (ji_data _ _ _ _ _ _ _ _ _ H) (ji_len _ _ _ _ _ _ _ _ _ H) Hn0).
    assert (N1 : rs_nb_is (rs_set_out (wr_kadv LF) c) LF = true) by reflexivity. rewrite N1.
    eexists. split; [reflexivity|]. cbn [length app]. replace (rd + 0 + 1)%nat with (S rd) by lia. apply pj_cin_adv; assumption.
  - cbn [app] in Hu. destruct (sg_skipn_cons d rd b _ Hu) as (Hnth & Hu' & Hlt).
    cbn [sg_no_lf forallb] in Hnl. apply andb_prop in Hnl. destruct Hnl as [Hb Hnl]. apply negb_true_iff in Hb.
    destruct n as [|n]; [cbn [length] in Hn; lia|]. rewrite pj_fin_scan_S.
    assert (Hn0 : nth_error d (k_read (c_out c)) = Some b) by (rewrite (ji_read _ _ _ _ _ _ _ _ _ H); exact Hnth).
    rewrite (sr_copy_byte c d b (ji_data _ _ _ _ _ _ _ _ _ H) (ji_len _ _ _ _ _ _ _ _ _ H) Hn0).
    assert (N1 : rs_nb_is (rs_set_out (wr_kadv b) c) LF = false) by (unfold rs_nb_is, rs_nb; cbn; exact Hb). rewrite N1.
    destruct (IH (rs_set_out (wr_kadv b) c) (S rd) (p ++ [b]) n (pj_cin_adv _ _ _ _ _ _ _ _ _ b H Hnth) Hu' Hnl ltac:(cbn [length] in Hn; lia)) as (c' & E & H').
    exists c'. split; [exact E|]. cbn [length]. replace (rd + S (length u1) + 1)%nat with (S rd + length u1 + 1)%nat by lia.
    rewrite <- app_assoc in H'. exact H'.
Qed.

(* the head of RES_FINALIZE when a byte follows and nothing of the chunk is pending: the scan starts *)
Lemma pj_fin_head c d rd p t b : pj_cin c d rd p None RES_FINALIZE (Some RES_FINALIZE) None t -> k_consume (c_out c) = rd -> nth_error d rd = Some b ->
  rs_RES_FINALIZE cb g c =
    match rs_finalize_scan (S (S (length d - rd))) (rs_set_out (fun k => k <| k_next_byte := Some b |>) c) with
    | (false, c') => (ST_DATA_BUFFER, c')
    | (true, c') => rs_finalize_tail cb g c'
    end.
Proof.
  intros H Hc Hn. pose proof H as [A1 A2 A3 A4 A5 A6 A7 A8 A9 A10 A11 A12 A13 A14 A15 A16 A17 A18 A19].
  unfold rs_RES_FINALIZE, rs_closed. rewrite (sg_live_closed _ A1). cbn [negb].
  rewrite (sr_peek c d A4 A5), A6, Hn.
  set (c0 := rs_set_out (fun k => k <| k_next_byte := Some b |>) c).
  change (rs_nb c0) with (Some b). cbv iota.
  change (k_read (c_out c0)) with (k_read (c_out c)). change (k_consume (c_out c0)) with (k_consume (c_out c)). rewrite A6, Hc, Nat.leb_refl, orb_true_r.
  unfold rs_bytes_fuel. change (k_len (c_out c0)) with (k_len (c_out c)). change (k_read (c_out c0)) with (k_read (c_out c)). rewrite A5, A6. reflexivity.
Qed.

(* no LF in the rest of the chunk: it is buffered, the parser stays in RES_FINALIZE *)
Lemma pj_finalize_buffer c d rd p t : pj_cin c d rd p None RES_FINALIZE (Some RES_FINALIZE) None t -> k_consume (c_out c) = rd -> (rd < length d)%nat ->
  sg_no_lf (skipn rd d) = true -> (length (p ++ skipn rd d) <= g_field_limit_hard g)%nat ->
  exists cF, sr_iter cb g c = inl (cF, c_HTP_STREAM_DATA) /\ pj_mid cF (p ++ skipn rd d) None RES_FINALIZE None t.
Proof.
  intros H Hc Hlt Hnl Hlim.
  destruct (nth_error d rd) as [b|] eqn:Nb; [|apply nth_error_None in Nb; lia].
  assert (Es : c_out_state c = RES_FINALIZE) by apply (ji_state _ _ _ _ _ _ _ _ _ H).
  destruct (pj_fin_scan_nolf d None _ _ _ t (skipn rd d) _ rd p (S (S (length d - rd))) (pj_cin_next _ _ _ _ _ _ _ _ _ (Some b) H) eq_refl Hnl) as (c1 & E1 & H1);
    [rewrite skipn_length; lia|].
  destruct (pj_exit_buffer cb g Hcb c1 d _ None _ _ t H1) as (cF & EF & HF); [cbn [sg_olist length]; lia|].
  exists cF. split; [|exact HF].
  unfold sr_iter. rewrite Es. cbn [rs_state_fn]. rewrite (pj_fin_head c d rd p t b H Hc Nb), E1, EF. reflexivity.
Qed.

(* ---- the un-read of RES_FINALIZE on the cursor ---- *)
Definition pj_unread_k (bl bb : nat) (k : cursor) : cursor :=
  (fun k => match k_buf k with Some b0 => k <| k_buf := Some (firstn bb b0) |> | None => k end)
    ((fun k => if (k_read k <? k_consume k)%nat then k <| k_consume := k_read k |> else k)
       (k <| k_read := if (k_read k <? bl)%nat then 0%nat else (k_read k - bl)%nat |>)).
Lemma pj_unread_fields bl bb k : let rd' := if (k_read k <? bl)%nat then 0%nat else (k_read k - bl)%nat in let k' := pj_unread_k bl bb k in
  k_data k' = k_data k /\ k_len k' = k_len k /\ k_read k' = rd' /\ k_consume k' = (if (rd' <? k_consume k)%nat then rd' else k_consume k) /\
  k_buf k' = option_map (firstn bb) (k_buf k) /\ k_header k' = k_header k /\ k_receiver_hook k' = k_receiver_hook k /\ k_receiver k' = k_receiver k.
Proof.
  cbv zeta. unfold pj_unread_k. set (rd' := if (k_read k <? bl)%nat then 0%nat else (k_read k - bl)%nat). cbv beta.
  change (k_read (k <| k_read := rd' |>)) with rd'. change (k_consume (k <| k_read := rd' |>)) with (k_consume k).
  destruct (rd' <? k_consume k)%nat.
  - change (k_buf (k <| k_read := rd' |> <| k_consume := rd' |>)) with (k_buf k). destruct (k_buf k) eqn:Eb; repeat split; try reflexivity. change (k_buf k = None). exact Eb.
  - change (k_buf (k <| k_read := rd' |>)) with (k_buf k). destruct (k_buf k) eqn:Eb; repeat split; try reflexivity. change (k_buf k = None). exact Eb.
Qed.

(* htp_tx_state_response_complete_ex as the body of a pass of the loop *)
Lemma pj_complete_iter c0 c3 d rd p t : rs_state_fn cb g (c_out_state c0) c0 = rs_response_complete cb g c3 ->
  pj_cin c3 d rd p None RES_FINALIZE (Some RES_FINALIZE) None t ->
  t_res_cep t = c_HTP_COMPRESSION_NONE -> (t_response_transfer_coding t =? c_HTP_CODING_NO_BODY)%Z = false ->
  (t_response_progress t =? c_HTP_RESPONSE_COMPLETE)%Z = false ->
  exists c', sr_iter cb g c0 = inr c' /\ pj_done w c' d rd p (Some (sr_tcomplete t)).
Proof.
  intros Ef H3 Hcep Hcod Hprog.
  destruct (pj_response_complete cb g Hcb Had c3 d _ _ _ t H3 Hcep Hcod Hprog) as (c4 & E4 & [B1 B2 B3 B4 B5 B6 B7 B8 B9 B10]).
  unfold sr_iter. rewrite Ef, E4.
  destruct H3 as [C1 C2 C3 C4 C5 C6 C7 C8 C9 C10 C11 C12 C13 C14 C15 C16 C17 C18 C19].
  rewrite B3, (sg_live_tunnel _ C1).
  unfold rs_handle_state_change. rewrite B4, C3, B5. cbn [res_state_eqb].
  eexists. split; [reflexivity|].
  constructor; cbn [c_out_status c_out_state c_out_state_previous c_out c_out_next_tx_index c_txs c_txs_shifted c_in_tx c_out_data_other_at_tx_end set];
    rewrite ?B2, ?B3, ?B5; try assumption; try reflexivity.
  change (pj_qin c4 = jw_in w). rewrite B9. exact C19.
Qed.

(* the scan and the buffering leave the receiver offset alone *)
Lemma pj_fin_scan_frame : forall n c0 r c1, rs_finalize_scan n c0 = (r, c1) ->
  k_buf (c_out c1) = k_buf (c_out c0) /\ k_consume (c_out c1) = k_consume (c_out c0) /\ k_receiver (c_out c1) = k_receiver (c_out c0).
Proof.
  induction n as [|n IH]; intros c0 r c1 E.
  - cbn [rs_finalize_scan] in E. inversion E. repeat split.
  - rewrite pj_fin_scan_S in E. destruct (rs_copy_byte c0) as [c0'|] eqn:Ec; [|inversion E; repeat split].
    assert (B0' : k_buf (c_out c0') = k_buf (c_out c0) /\ k_consume (c_out c0') = k_consume (c_out c0) /\ k_receiver (c_out c0') = k_receiver (c_out c0)).
    { unfold rs_copy_byte in Ec. destruct (rs_has_byte c0); [|discriminate]. inversion Ec. unfold rs_load_next.
      destruct (rs_cur_byte c0 (k_read (c_out c0))); cbn; repeat split. }
    destruct B0' as (X1 & X2 & X3).
    destruct (rs_nb_is c0' LF); [inversion E; subst c1; repeat split; assumption|].
    destruct (IH c0' r c1 E) as (Y1 & Y2 & Y3). rewrite Y1, Y2, Y3. repeat split; assumption.
Qed.
Lemma pj_res_buffer_rcv c rc c' : rs_res_buffer g c = (rc, c') -> k_receiver (c_out c') = k_receiver (c_out c).
Proof.
  unfold rs_res_buffer. destruct (k_data (c_out c)); [|intros E; inversion E; reflexivity]. cbv zeta.
  repeat match goal with
  | |- context [if ?b then _ else _] => destruct b
  | |- context [match c_out_tx ?x with _ => _ end] => destruct (c_out_tx x)
  end; intros E; inversion E; reflexivity.
Qed.

(* the next line is complete in the chunk and begins like a status line: it is un-read, the response is complete *)
Lemma pj_finalize_next c d rd p t u1 u2 l : pj_cin c d rd p None RES_FINALIZE (Some RES_FINALIZE) None t -> k_consume (c_out c) = rd ->
  (rd = 0%nat \/ p = []) -> skipn rd d = u1 ++ LF :: u2 -> sg_no_lf u1 = true -> p ++ u1 ++ [LF] = 72%N :: 84%N :: 84%N :: 80%N :: l ->
  (length (p ++ u1 ++ [LF]) <= g_field_limit_hard g)%nat ->
  t_res_cep t = c_HTP_COMPRESSION_NONE -> (t_response_transfer_coding t =? c_HTP_CODING_NO_BODY)%Z = false ->
  (t_response_progress t =? c_HTP_RESPONSE_COMPLETE)%Z = false ->
  exists c', sr_iter cb g c = inr c' /\ pj_done w c' d rd p (Some (sr_tcomplete t)).
Proof.
  intros H Hc Htop Hu Hnl Hsh Hlim Hcep Hcod Hprog.
  assert (Hlt : (rd < length d)%nat).
  { destruct (Nat.lt_ge_cases rd (length d)) as [L|L]; [exact L|]. rewrite skipn_all2 in Hu by lia. destruct u1; discriminate. }
  destruct (nth_error d rd) as [b|] eqn:Nb; [|apply nth_error_None in Nb; lia].
  assert (Es : c_out_state c = RES_FINALIZE) by apply (ji_state _ _ _ _ _ _ _ _ _ H).
  assert (Ln : (length u1 < S (S (length d - rd)))%nat).
  { assert (L : length (skipn rd d) = length (u1 ++ LF :: u2)) by (rewrite Hu; reflexivity). rewrite skipn_length, app_length in L. cbn [length] in L. lia. }
  set (c0 := rs_set_out (fun k => k <| k_next_byte := Some b |>) c).
  destruct (pj_fin_scan_lf d None _ _ _ t u2 u1 c0 rd p (S (S (length d - rd))) (pj_cin_next _ _ _ _ _ _ _ _ _ (Some b) H) Hu Hnl Ln) as (c1 & E1 & H1).
  destruct (pj_fin_scan_frame _ _ _ _ E1) as (F1 & F2 & F3).
  change (k_buf (c_out c0)) with (k_buf (c_out c)) in F1. change (k_consume (c_out c0)) with (k_consume (c_out c)) in F2. change (k_receiver (c_out c0)) with (k_receiver (c_out c)) in F3.
  rewrite Hc in F2.
  set (p1 := p ++ u1 ++ [LF]) in *. set (rd1 := (rd + length u1 + 1)%nat) in *.
  assert (Hbuf : sg_olist (k_buf (c_out c)) = p).
  { pose proof (ji_seen _ _ _ _ _ _ _ _ _ H) as S. rewrite Hc, Nat.sub_diag in S. cbn [firstn] in S. rewrite app_nil_r in S. exact S. }
  assert (Lim1 : (length p1 + length (sg_olist None) <= g_field_limit_hard g)%nat) by (cbn [sg_olist length]; lia).
  (* htp_connp_res_consolidate_data *)
  assert (Hcons : exists c2, rs_consolidate g c1 = (Some (Some p1), c2) /\ pj_cin c2 d rd1 p1 None RES_FINALIZE (Some RES_FINALIZE) None t /\
            k_receiver (c_out c2) = k_receiver (c_out c) /\
            ((k_buf (c_out c) = None /\ k_buf (c_out c2) = None /\ k_consume (c_out c2) = rd) \/
             (exists b0, k_buf (c_out c) = Some b0 /\ k_buf (c_out c2) = Some p1 /\ k_consume (c_out c2) = rd1))).
  { unfold rs_consolidate. destruct (k_buf (c_out c)) as [b0|] eqn:Eb; rewrite F1.
    - destruct (pj_res_buffer g c1 d rd1 p1 None _ _ _ t H1 Lim1) as (c2 & E2 & H2 & B2 & C2). rewrite E2.
      exists c2. split; [rewrite B2; reflexivity|]. split; [exact H2|]. split; [rewrite (pj_res_buffer_rcv _ _ _ E2); exact F3|].
      right. exists b0. repeat split; assumption.
    - pose proof H1 as [A1 A2 A3 A4 A5 A6 A7 A8 A9 A10 A11 A12 A13 A14 A15 A16 A17 A18 A19].
      rewrite A4, A6. assert (E0 : (rd1 <? k_consume (c_out c1))%nat = false) by (apply Nat.ltb_ge; lia). rewrite E0.
      exists c1. split; [|split; [exact H1|split; [exact F3|left; repeat split; assumption]]].
      rewrite F1 in A9. cbn [sg_olist app] in A9. unfold rs_sub. rewrite A9. reflexivity. }
  destruct Hcons as (c2 & E2 & H2 & Fr & Hcase).
  assert (Lp1 : length p1 = (length p + length u1 + 1)%nat) by (unfold p1; rewrite !app_length; cbn [length]; lia).
  assert (Nb1 : rs_treat_response_line_as_body (Some p1) = false) by (rewrite Hsh; apply sr_line_not_body).
  assert (Erd : (if (rd1 <? length p1)%nat then 0%nat else (rd1 - length p1)%nat) = rd).
  { destruct Htop as [E0|Ep].
    - destruct (rd1 <? length p1)%nat eqn:El; [symmetry; exact E0|]. apply Nat.ltb_ge in El. unfold rd1 in *. lia.
    - rewrite Ep in Lp1. cbn [length] in Lp1. assert (El : (rd1 <? length p1)%nat = false) by (apply Nat.ltb_ge; unfold rd1; lia). rewrite El. unfold rd1. lia. }
  (* the parser after the un-read *)
  set (c3 := rs_set_out (pj_unread_k (length p1) (length p)) c2).
  assert (H3 : pj_cin c3 d rd p None RES_FINALIZE (Some RES_FINALIZE) None t).
  { pose proof H2 as [A1 A2 A3 A4 A5 A6 A7 A8 A9 A10 A11 A12 A13 A14 A15 A16 A17 A18 A19].
    pose proof (pj_unread_fields (length p1) (length p) (c_out c2)) as U. cbv zeta in U. rewrite A6, Erd in U. destruct U as (U1 & U2 & U3 & U4 & U5 & U6 & U7 & U8).
    assert (Uc : k_consume (pj_unread_k (length p1) (length p) (c_out c2)) = rd /\ sg_olist (k_buf (pj_unread_k (length p1) (length p) (c_out c2))) = p).
    { rewrite U4, U5. destruct Hcase as [(Bn & Bn2 & Cn2)|(b0 & Bs & Bs2 & Cs2)].
      - rewrite Bn2, Cn2, Nat.ltb_irrefl. rewrite Bn in Hbuf. cbn [sg_olist] in Hbuf. split; [reflexivity|exact Hbuf].
      - rewrite Bs2, Cs2. cbn [option_map sg_olist]. split.
        + destruct (rd <? rd1)%nat eqn:X; [reflexivity|]. apply Nat.ltb_ge in X. unfold rd1 in X. lia.
        + unfold p1. rewrite firstn_app, Nat.sub_diag, firstn_all. cbn [firstn]. apply app_nil_r. }
    destruct Uc as [Uc Ub].
    constructor; try assumption; unfold c3; cbn [rs_set_out c_out set]; cbn [c_out]; rewrite ?U1, ?U2, ?U3, ?U6, ?U7, ?U8, ?Uc, ?Ub; try assumption; try reflexivity; try lia.
    - rewrite Nat.sub_diag. cbn [firstn]. apply app_nil_r.
    - rewrite Fr. exact (ji_rcv _ _ _ _ _ _ _ _ _ H). }
  apply (pj_complete_iter c c3 d rd p t); try assumption.
  rewrite Es. cbn [rs_state_fn]. rewrite (pj_fin_head c d rd p t b H Hc Nb). fold c0. rewrite E1.
  unfold rs_finalize_tail. rewrite F1. rewrite E2. cbn [rs_dbytes]. fold (length p1).
  assert (Ez : (length p1 =? 0)%nat = false) by (apply Nat.eqb_neq; lia). rewrite Ez, Nb1.
  assert (Ebb : match k_buf (c_out c) with Some b0 => length b0 | None => 0%nat end = length p) by (rewrite <- Hbuf; destruct (k_buf (c_out c)); reflexivity).
  rewrite Ebb. reflexivity.
Qed.
End Fin.
