(* C06, part J (response side): line assembly under every chunking (premise: the look-ahead cannot fire inside the
   line), chunk data, end-of-data line; chunked decode(encode) for the response direction. *)
Require Import Htp.Model.MConnTypes Htp.Model.MBstr Htp.Model.MTxCommon Htp.Model.MResLine Htp.Model.MTxRes Htp.Model.MRes.
Require Import Htp.Spec.SBody Htp.Proof.PBody Htp.Proof.PBodyRes Htp.Proof.PBodyResRun Htp.Proof.PBodyResId Htp.Proof.PBodyResLine.
Local Open Scope Z_scope.

(* ---- the look-ahead premise, from the line to the pieces the TCP cuts produce ---- *)
Lemma bd_probe_scan_prefix : forall u r, rs_probe_scan (u ++ r) = true ->
  existsb (fun b => negb (rs_is_chunked_ctl_char b)) u = true -> rs_probe_scan u = true.
Proof.
  induction u as [|b u IH]; intros r H E; [discriminate|].
  cbn [app rs_probe_scan] in *. destruct (rs_is_chunked_ctl_char b) eqn:Eb.
  - cbn [existsb negb orb] in E. rewrite Eb in E. cbn in E. eapply IH; eauto.
  - exact H.
Qed.
Lemma bd_existsb_app_last u b : negb (rs_is_chunked_ctl_char b) = true ->
  existsb (fun b => negb (rs_is_chunked_ctl_char b)) (u ++ [b]) = true.
Proof. intros H. rewrite existsb_app. cbn. rewrite H. apply orb_true_r. Qed.
Lemma bd_probe_ok_of_scan : forall p u r, rs_probe_scan (u ++ p ++ r) = true -> bd_probe_ok u p = true.
Proof.
  induction p as [|b p IH]; intros u r H; [reflexivity|]. cbn [bd_probe_ok]. apply andb_true_iff. split.
  - destruct (rs_is_chunked_ctl_char b) eqn:Eb; [reflexivity|]. cbn [orb]. unfold rs_data_probe_chunk_length.
    destruct (length (u ++ [b]) <? 8)%nat; [reflexivity|].
    apply (bd_probe_scan_prefix (u ++ [b]) (p ++ r)); [rewrite <- app_assoc; exact H|apply bd_existsb_app_last; rewrite Eb; reflexivity].
  - apply (IH (u ++ [b]) r). rewrite <- app_assoc. exact H.
Qed.
Lemma bd_probe_ok_short : forall p u, (length (u ++ p) < 8)%nat -> bd_probe_ok u p = true.
Proof.
  induction p as [|b p IH]; intros u H; [reflexivity|]. cbn [bd_probe_ok]. apply andb_true_iff. split.
  - unfold rs_data_probe_chunk_length. assert (E : (length (u ++ [b]) <? 8)%nat = true).
    { apply Nat.ltb_lt. rewrite !app_length in *. cbn [length] in *. lia. }
    rewrite E. apply orb_true_r.
  - apply IH. rewrite <- app_assoc. exact H.
Qed.
Lemma bd_suffixes_ok_app a s : bd_suffixes_ok (a ++ s) = true -> bd_suffixes_ok s = true.
Proof. induction a as [|x a IH]; [auto|]. cbn [app bd_suffixes_ok]. intros H. apply andb_true_iff in H. destruct H as (_ & H). auto. Qed.
Lemma bd_suffix_probe s p r : bd_suffixes_ok s = true -> s = p ++ r -> bd_probe_ok [] p = true.
Proof.
  intros H E. destruct s as [|x s']; [destruct p; [reflexivity|discriminate]|].
  cbn [bd_suffixes_ok] in H. apply andb_true_iff in H. destruct H as (H & _). apply orb_true_iff in H. destruct H as [H|H].
  - apply bd_probe_ok_short. cbn [app]. apply Nat.ltb_lt in H. rewrite E in H. rewrite app_length in H. lia.
  - apply (bd_probe_ok_of_scan p [] r). cbn [app]. rewrite <- E. exact H.
Qed.

(* ---- since the repair of K1 the look-ahead scans out_buf ++ unconsumed bytes, i.e. a prefix of the WHOLE line: a size
        line with a valid value (first non-control byte a hex digit) passes it whatever the cuts ---- *)
Lemma bd_zb_eqb c k : (zb c =? Z.of_N k) = (c =? k)%N.
Proof. unfold zb. destruct (c =? k)%N eqn:E; [apply N.eqb_eq in E; subst; apply Z.eqb_refl|apply N.eqb_neq in E; apply Z.eqb_neq; lia]. Qed.
Lemma bd_zb_leb_l c k : (Z.of_N k <=? zb c) = (k <=? c)%N.
Proof. unfold zb. destruct (k <=? c)%N eqn:E; [apply N.leb_le in E; apply Z.leb_le; lia|apply N.leb_gt in E; apply Z.leb_gt; lia]. Qed.
Lemma bd_zb_leb_r c k : (zb c <=? Z.of_N k) = (c <=? k)%N.
Proof. unfold zb. destruct (c <=? k)%N eqn:E; [apply N.leb_le in E; apply Z.leb_le; lia|apply N.leb_gt in E; apply Z.leb_gt; lia]. Qed.
Lemma bd_ctl_same b : is_chunk_ctl b = rs_is_chunked_ctl_char b.
Proof.
  unfold is_chunk_ctl, rs_is_chunked_ctl_char. cbv zeta.
  change 13 with (Z.of_N 13); change 10 with (Z.of_N 10); change 32 with (Z.of_N 32); change 9 with (Z.of_N 9); change 11 with (Z.of_N 11); change 12 with (Z.of_N 12).
  rewrite (bd_zb_eqb b 13), (bd_zb_eqb b 10), (bd_zb_eqb b 32), (bd_zb_eqb b 9), (bd_zb_eqb b 11), (bd_zb_eqb b 12). reflexivity.
Qed.
Lemma bd_hex_same b : is_hex_digit b = rs_is_chunklen_char b.
Proof.
  unfold is_hex_digit, rs_is_chunklen_char.
  change 97 with (Z.of_N 97); change 102 with (Z.of_N 102); change 65 with (Z.of_N 65); change 70 with (Z.of_N 70).
  rewrite (bd_zb_leb_l b 97), (bd_zb_leb_r b 102), (bd_zb_leb_l b 65), (bd_zb_leb_r b 70). reflexivity.
Qed.
Lemma bd_value_scan : forall s, 0 <= fst (parse_chunked_length s) -> rs_probe_scan s = true.
Proof.
  induction s as [|b s IH]; intros H; [reflexivity|].
  cbn [rs_probe_scan]. rewrite <- bd_ctl_same. unfold parse_chunked_length in *. cbn [drop_while] in H.
  destruct (is_chunk_ctl b) eqn:Eb; [apply IH; exact H|].
  rewrite <- bd_hex_same. cbn [take_while] in H. destruct (is_hex_digit b); [reflexivity|].
  cbn in H. exfalso. revert H. vm_compute. intros H; apply H; reflexivity.
Qed.

Section Res.
Variable cb : cb_oracle.
Variable g : cfg.
Hypothesis cb_ok : forall n, cb H_RESPONSE_BODY_DATA n = CB_OK.

Lemma bd_rs_iter_buffer c c1 c2 :
  rs_state_fn cb g (c_out_state c) c = (ST_DATA_BUFFER, c1) -> k_receiver_hook (c_out c1) = None ->
  rs_res_buffer g c1 = (ST_OK, c2) ->
  bd_rs_iter cb g c = inl (rs_set_out_status c_HTP_STREAM_DATA c2, c_HTP_STREAM_DATA).
Proof. intros H1 H2 H3. unfold bd_rs_iter. rewrite H1. unfold rs_res_exit, res_receiver_send_data. rewrite H2. cbn [snd]. rewrite H3. reflexivity. Qed.

Definition bd_rs_same (c c2 : connp) : Prop :=
  c_events c2 = c_events c /\ (forall j, tx_slot c2 j = tx_slot c j) /\
  c_out_body_data_left c2 = c_out_body_data_left c /\ c_out_chunked_length c2 = c_out_chunked_length c.
Lemma bd_rs_same_refl c : bd_rs_same c c. Proof. repeat split. Qed.

Lemma bd_no_lf_app' a b : bd_no_lf (a ++ b) = bd_no_lf a && bd_no_lf b.
Proof. apply forallb_app. Qed.

(* leaving the call with HTP_DATA_BUFFER in RES_BODY_CHUNKED_LENGTH: the scanned bytes `pre` go to out_buf *)
Lemma bd_rs_exit_buffered o c c1 d pre :
  bd_rs_inv o c -> k_data (c_out c) = Some d -> k_consume (c_out c) = k_read (c_out c) -> bd_rs_rest c = pre ->
  k_data (c_out c1) = Some d -> k_read (c_out c1) = (k_read (c_out c) + length pre)%nat -> k_consume (c_out c1) = k_consume (c_out c) ->
  k_buf (c_out c1) = k_buf (c_out c) -> k_header (c_out c1) = None -> k_receiver_hook (c_out c1) = None -> k_len (c_out c1) = k_len (c_out c) ->
  c_out_tx c1 = c_out_tx c -> c_out_status c1 = c_out_status c -> c_events c1 = c_events c ->
  c_out_body_data_left c1 = c_out_body_data_left c -> c_out_chunked_length c1 = c_out_chunked_length c ->
  c_out_state c1 = c_out_state c -> (forall j, tx_slot c1 j = tx_slot c j) ->
  (length (bd_rs_pending c) + length pre <= g_field_limit_hard g)%nat ->
  exists c2, rs_res_buffer g c1 = (ST_OK, c2) /\ bd_rs_inv o c2 /\ c_out_state c2 = c_out_state c /\ bd_rs_same c c2 /\
             bd_rs_pending c2 = bd_rs_pending c ++ pre.
Proof.
  intros Inv Hd Hc Hr D1 R1 C1 B1 H1 V1 L1 G1 G2 G3 G4 G5 G6 G7 Hhard.
  destruct Inv as [A (t & T1 & T2) C D E (d0 & F1 & F2 & F3)]. rewrite Hd in F1. inversion F1; subst d0.
  assert (Hk : (k_read (c_out c) + length pre <= length d)%nat).
  { subst pre. unfold bd_rs_rest. rewrite Hd, skipn_length. lia. }
  assert (Hsl : rs_sub d (k_consume (c_out c1)) (k_read (c_out c1)) = pre).
  { rewrite R1, C1, Hc. unfold rs_sub. replace (k_read (c_out c) + length pre - k_read (c_out c))%nat with (length pre) by lia.
    subst pre. unfold bd_rs_rest. rewrite Hd. apply firstn_all. }
  assert (P5 : bd_rs_pending c1 = bd_rs_pending c) by (unfold bd_rs_pending; rewrite B1; reflexivity).
  rewrite (bd_rs_res_buffer_spec g o c1 d D1 H1); [|rewrite G1; exact A|lia|rewrite Hsl, P5; exact Hhard].
  rewrite Hsl.
  set (nbuf := match k_buf (c_out c1) with Some b => b ++ pre | None => pre end).
  assert (Hnbuf : nbuf = bd_rs_pending c ++ pre) by (subst nbuf; unfold bd_rs_pending; rewrite B1; destruct (k_buf (c_out c)); reflexivity).
  clearbody nbuf.
  eexists. split; [reflexivity|].
  split; [|split; [|split]].
  - constructor; cbn; rewrite ?G1, ?G2, ?D1, ?L1, ?R1; try assumption.
    + exists t. split; [|exact T2]. erewrite bd_slot_ext; [rewrite G7; exact T1|reflexivity|reflexivity].
    + exists d. bd_rsplits; auto.
  - cbn. exact G6.
  - unfold bd_rs_same. bd_rsplits; cbn; try assumption; try (intros j; erewrite bd_slot_ext; [apply G7|reflexivity|reflexivity]).
  - unfold bd_rs_pending. cbn. exact Hnbuf.
Qed.

(* ================= line assembly, response side: up to the TCP chunk that contains the LF ================= *)
Lemma bd_rs_assemble o : forall rem c lrest rest,
  bd_rs_inv o c -> c_out_state c = RES_BODY_CHUNKED_LENGTH -> k_consume (c_out c) = k_read (c_out c) ->
  bd_rs_rest c ++ concat rem = lrest ++ LF :: rest -> bd_no_lf lrest = true ->
  rs_probe_scan (bd_rs_pending c ++ lrest ++ [LF]) = true ->
  (length (bd_rs_pending c) + length lrest + 1 <= g_field_limit_hard g)%nat ->
  Forall (fun d => d <> []) rem ->
  exists c2 rem2 l2 tl2,
    bd_rs_reach cb g c rem c2 rem2 /\ bd_rs_inv o c2 /\ c_out_state c2 = RES_BODY_CHUNKED_LENGTH /\
    k_consume (c_out c2) = k_read (c_out c2) /\
    bd_rs_rest c2 = l2 ++ LF :: tl2 /\ bd_no_lf l2 = true /\ bd_probe_ok (bd_rs_pending c2) l2 = true /\
    bd_rs_pending c2 ++ l2 = bd_rs_pending c ++ lrest /\
    tl2 ++ concat rem2 = rest /\ Forall (fun d => d <> []) rem2 /\ bd_rs_same c c2.
Proof.
  induction rem as [|d' rem IH]; intros c lrest rest Inv Hs Hc Hw Hnl Hsf Hhard Hrem.
  - cbn [concat] in Hw. rewrite app_nil_r in Hw.
    exists c, [], lrest, rest. bd_rsplits; auto; try constructor; try apply app_nil_r; try apply bd_rs_same_refl.
    apply (bd_probe_ok_of_scan lrest (bd_rs_pending c) [LF]); exact Hsf.
  - destruct (Nat.lt_ge_cases (length lrest) (length (bd_rs_rest c))) as [Hlt|Hge].
    + assert (exists tl, bd_rs_rest c = lrest ++ LF :: tl /\ tl ++ concat (d' :: rem) = rest) as (tl & E1 & E2).
      { destruct (bd_app_prefix' lrest (bd_rs_rest c) (LF :: rest) (concat (d' :: rem))) as (x & X1 & X2); [symmetry; exact Hw|lia|].
        destruct x as [|x0 x]; [rewrite app_nil_r in X1; rewrite X1 in Hlt; lia|].
        cbn in X2. inversion X2; subst x0. exists x. split; [exact X1|reflexivity]. }
      exists c, (d' :: rem), lrest, tl. bd_rsplits; auto; try constructor; try apply bd_rs_same_refl.
      apply (bd_probe_ok_of_scan lrest (bd_rs_pending c) [LF]); exact Hsf.
    + destruct (bd_app_prefix' (bd_rs_rest c) lrest (concat (d' :: rem)) (LF :: rest) Hw Hge) as (lrest' & Hb & Hw').
      pose proof (Forall_inv Hrem) as Hd'. pose proof (Forall_inv_tail Hrem) as Hrem'. cbn beta in Hd'.
      assert (Hnl2 : bd_no_lf (bd_rs_rest c) = true /\ bd_no_lf lrest' = true).
      { rewrite Hb, bd_no_lf_app' in Hnl. apply andb_true_iff in Hnl. exact Hnl. }
      destruct Hnl2 as (Hnl1 & Hnl2).
      destruct (bs_data _ _ Inv) as (d & Hd & Hlen & Hrd).
      assert (Hfn : rs_state_fn cb g (c_out_state c) c = rs_RES_BODY_CHUNKED_LENGTH g c) by (rewrite Hs; reflexivity).
      assert (Hun : rs_unconsumed c = []).
      { unfold rs_unconsumed. rewrite Hd, Hc. unfold rs_sub. rewrite Nat.sub_diag. reflexivity. }
      assert (Hpr : bd_probe_ok (bd_rs_pending c ++ rs_unconsumed c) (bd_rs_rest c) = true).
      { rewrite Hun, app_nil_r. apply (bd_probe_ok_of_scan (bd_rs_rest c) (bd_rs_pending c) (lrest' ++ [LF])).
        rewrite Hb, <- app_assoc in Hsf. exact Hsf. }
      assert (Hfuel : (length (bd_rs_rest c) < rs_bytes_fuel c)%nat).
      { unfold rs_bytes_fuel. rewrite Hlen. unfold bd_rs_rest. rewrite Hd, skipn_length. lia. }
      pose proof (bd_rs_length_loop g (bd_rs_rest c) c (rs_bytes_fuel c) []) as Hloop.
      rewrite app_nil_r in Hloop.
      specialize (Hloop (ex_intro _ d (conj Hd (conj Hlen Hrd))) ltac:(lia) eq_refl Hnl1 Hfuel I Hpr).
      assert (Hlr : length lrest = (length (bd_rs_rest c) + length lrest')%nat) by (rewrite Hb at 1; apply app_length).
      (* the parser after the exit *)
      assert (Hexit : exists c2, bd_rs_iter cb g c = inl (rs_set_out_status c_HTP_STREAM_DATA c2, c_HTP_STREAM_DATA) /\
                bd_rs_inv o c2 /\ c_out_state c2 = RES_BODY_CHUNKED_LENGTH /\ bd_rs_same c c2 /\
                bd_rs_pending c2 = bd_rs_pending c ++ bd_rs_rest c).
      { assert (Hh : (length (bd_rs_pending c) + length (bd_rs_rest c) <= g_field_limit_hard g)%nat) by lia.
        destruct (bd_rs_rest c) as [|p0 pp] eqn:Er.
        - destruct (bd_rs_exit_buffered o c c d [] Inv Hd Hc Er) as (c2 & Hbuf & I2 & S2 & Sm2 & P2);
            auto; try (apply (bs_hdr _ _ Inv)); try (apply (bs_rcv _ _ Inv)); try (cbn; lia).
          exists c2. split; [eapply bd_rs_iter_buffer; [rewrite Hfn; exact Hloop|apply (bs_rcv _ _ Inv)|exact Hbuf]|].
          bd_rsplits; auto. congruence.
        - set (c1 := bd_rs_copied (length (p0 :: pp)) (Some (last (p0 :: pp) 0%N)) c) in *.
          destruct (bd_rs_exit_buffered o c c1 d (p0 :: pp) Inv Hd Hc Er) as (c2 & Hbuf & I2 & S2 & Sm2 & P2);
            try reflexivity; try exact Hd; try (apply (bs_hdr _ _ Inv)); try (apply (bs_rcv _ _ Inv)); try exact Hh;
            try (intros j; apply bd_slot_ext; reflexivity).
          exists c2. split; [eapply bd_rs_iter_buffer; [rewrite Hfn; exact Hloop|apply (bs_rcv _ _ Inv)|exact Hbuf]|].
          bd_rsplits; auto. congruence. }
      destruct Hexit as (c2 & Hit & Inv2 & Hs2 & Same2 & Hbuf2).
      set (c3 := bd_res_begin d' (rs_set_out_status c_HTP_STREAM_DATA c2)).
      destruct (bd_rs_begin_misc d' (rs_set_out_status c_HTP_STREAM_DATA c2)) as (B1 & B2 & B3 & B4 & B5 & B6 & B7 & B8).
      assert (I3 : bd_rs_inv o c3) by (apply bd_rs_inv_begin; apply bd_rs_inv_status; exact Inv2).
      assert (S3 : c_out_state c3 = RES_BODY_CHUNKED_LENGTH) by (unfold c3; rewrite B4; exact Hs2).
      assert (C3 : k_consume (c_out c3) = k_read (c_out c3)) by reflexivity.
      assert (W3 : bd_rs_rest c3 ++ concat rem = lrest' ++ LF :: rest) by (unfold c3; rewrite B1; exact Hw').
      assert (P3 : bd_rs_pending c3 = bd_rs_pending c ++ bd_rs_rest c) by (rewrite <- Hbuf2; unfold bd_rs_pending, c3; rewrite B7; reflexivity).
      assert (H3 : (length (bd_rs_pending c3) + length lrest' + 1 <= g_field_limit_hard g)%nat) by (rewrite P3, app_length; lia).
      assert (Hsf' : rs_probe_scan (bd_rs_pending c3 ++ lrest' ++ [LF]) = true).
      { rewrite P3, <- app_assoc. rewrite Hb, <- app_assoc in Hsf. exact Hsf. }
      destruct (IH c3 lrest' rest I3 S3 C3 W3 Hnl2 Hsf' H3 Hrem') as (c4 & rem4 & l4 & tl4 & R4 & I4 & S4 & C4 & Rs4 & N4 & Pr4 & B4' & W4 & F4 & Sm4).
      exists c4, rem4, l4, tl4. bd_rsplits; auto.
      * eapply bd_sr_next; [exact Hit|exact R4].
      * rewrite B4', P3, Hb, app_assoc. reflexivity.
      * destruct Sm4 as (X1 & X2 & X3 & X4). destruct Same2 as (Y1 & Y2 & Y3 & Y4). unfold bd_rs_same. bd_rsplits.
        { rewrite X1. unfold c3. rewrite B3. exact Y1. }
        { intros j. rewrite X2. unfold c3. rewrite B8. rewrite <- Y2. apply bd_slot_ext; reflexivity. }
        { rewrite X3. unfold c3. rewrite B5. exact Y3. }
        { rewrite X4. unfold c3. rewrite B6. exact Y4. }
Qed.
End Res.
