(* C06, history level, response direction: the driver of PSegResChGen (explicit fuel, the final PARSER handed to `fin`, what
   follows the empty line a parameter with a fuel bound) restated with the RESPONSE_BODY_DATA / RESPONSE_COMPLETE events next
   to the invariants; used for chunk-coded and close-delimited response bodies. *)
Require Import Htp.Model.Base Htp.Model.MBstr Htp.Model.MConnTypes Htp.Model.MTxCommon Htp.Model.MResLine Htp.Model.MTxRes.
Require Import Htp.Model.MReq Htp.Model.MRes Htp.Model.MConnp.
Require Import Htp.Spec.SWire Htp.Spec.SBody Htp.Proof.PBody Htp.Proof.PWire Htp.Proof.PWireHdr Htp.Proof.PWireBlock Htp.Proof.PWireConn Htp.Proof.PWireExch.
Require Import Htp.Proof.PWireRun Htp.Proof.PWirePres Htp.Proof.PWireGlue Htp.Proof.PSeg Htp.Proof.PSegLine Htp.Proof.PSegHdr Htp.Proof.PSegGen Htp.Proof.PSegRun.
Require Import Htp.Proof.PSegFold Htp.Proof.PSegRes Htp.Proof.PSegResLine Htp.Proof.PSegResHdr Htp.Proof.PSegResGen Htp.Proof.PSegResRun Htp.Proof.PSegResChGen.
Require Import Htp.Proof.PDeliv Htp.Proof.PDelivRes.

Section GenFE.
Variable cb : cb_oracle.
Variable g : cfg.
Hypothesis Hcb : wr_all_ok cb.
Variables ps s r : bytes.
Hypothesis Wl : sr_status_ok ps s r = true.
Hypothesis Hlim0 : (length (wr_ser_status_line ps s r) + 2 <= g_field_limit_hard g)%nat.
Variable t0 : tx.
Hypothesis H09 : t_is_protocol_0_9 t0 = false.
Variable bwt : bytes.
Variable hlog : option bytes -> tx -> bytes -> bytes -> Prop.
Variable fin : list event -> connp -> Prop.                   (* followed events of the response calls, the parser at the end *)
Variable ext : list event -> connp -> bytes -> Prop.
Variable okc : bytes -> bytes -> Prop.

Let line0 := wr_ser_status_line ps s r.
Let th0 := sr_th0 t0 line0.
Let between := dv_sbetween ps s r t0 bwt hlog ext.
Definition dv_spostF (L : list event) (cF : connp) (rw' : bytes) : Prop :=
  (rw' <> [] /\ dv_sbetween ps s r t0 bwt hlog ext L cF rw') \/ (rw' = [] /\ fin L cF).

Hypothesis Hfin_finish : forall L c, fin L c -> fin L (forget_chunks c <| c_events := [] |>).
Hypothesis Hext_finish : forall L c rw, ext L c rw -> ext L (forget_chunks c <| c_events := [] |>) rw.
Hypothesis Hext_step : forall L c (rw x rw' : bytes), ext L c rw -> c_events c = [] -> x <> [] -> rw = x ++ rw' -> okc x rw' ->
  exists c' rc, connp_res_data cb g (Some x) (length x) c = (c', rc) /\ dv_spostF (L ++ rev (dv_sb c')) c' rw'.
Hypothesis Hcall : forall c d p hdr t rw' F, okc d rw' ->
  sr_cin c d 0 p hdr RES_HEADERS (Some RES_HEADERS) (Some H_RESPONSE_HEADER_DATA) t -> hlog hdr t p (d ++ rw') ->
  dv_sb c = [] -> (sr_need d 0 <= F)%nat ->
  exists cF rc, rs_res_loop cb g F false c = (cF, rc) /\ dv_spostF (rev (dv_sb cF)) cF rw'.
Hypothesis Hcall_start : forall c d rd rw' F, okc d rw' ->
  sr_cin c d rd [] None RES_HEADERS (Some RES_HEADERS) (Some H_RESPONSE_HEADER_DATA) th0 -> skipn rd d ++ rw' = bwt -> (0 < rd)%nat ->
  dv_sb c = [] -> (sr_need d rd <= F)%nat ->
  exists cF rc, rs_res_loop cb g F false c = (cF, rc) /\ dv_spostF (rev (dv_sb cF)) cF rw'.

Lemma dv_scall_lineF c d p q rw' F : okc d rw' ->
  sr_cin c d 0 p None RES_LINE (Some RES_LINE) None (sr_tx_start t0) ->
  p ++ q = line0 ++ [CR; LF] -> q <> [] -> d ++ rw' = q ++ bwt -> d <> [] -> dv_sb c = [] -> (sr_need d 0 + 1 <= F)%nat ->
  exists cF rc, rs_res_loop cb g F false c = (cF, rc) /\ dv_spostF (rev (dv_sb cF)) cF rw'.
Proof.
  intros Hok H Hpq Hq Hw Hd Hev HF.
  destruct (sr_status_line_shape ps s r Wl) as (Pl & _). fold line0 in Pl.
  destruct (sg_app_cases d rw' q _ Hw) as [Clt Cge].
  assert (Es : c_out_state c = RES_LINE) by apply (ri_state _ _ _ _ _ _ _ _ _ H).
  assert (Rk : dv_sok c) by (eapply dv_scin_sok; [exact H|apply dv_sneqN]).
  destruct F as [|F1]; [unfold sr_need in HF; lia|].
  destruct (Nat.lt_ge_cases (length d) (length q)) as [Llt|Lge].
  - destruct (Clt Llt) as (q2 & Eq & Hq2 & Erw).
    assert (Hpq' : p ++ d ++ q2 = line0 ++ [CR; LF]) by (rewrite <- Eq; exact Hpq).
    destruct (sr_prefix_shape line0 p d q2 Pl Hpq' Hq2) as (u0 & r0 & Eu & Ps & Hr0).
    destruct (sr_line_partial cb g ps s r Hlim0 c d 0 p None _ None _ u0 r0 (S (S (length d))) H Eu Ps Hr0 ltac:(lia)) as (c' & E & H'). cbn [skipn] in H'.
    assert (Lim : (length (p ++ d) + length (sg_olist None) <= g_field_limit_hard g)%nat).
    { assert (L : length (p ++ d ++ q2) = (length line0 + 2)%nat) by (rewrite Hpq', app_length; reflexivity). rewrite !app_length in L. rewrite app_length.
      cbn [sg_olist length]. unfold line0 in L. lia. }
    destruct (sr_exit_buffer cb g Hcb c' d _ None _ _ _ H' Lim) as (cF & EF & HF').
    destruct (dv_line_loop_buffer cb g Hcb _ c c' Es E Rk) as [V1 R1].
    assert (VF : dv_sb cF = dv_sb c').
    { pose proof (dv_fs_exit cb g Hcb ST_DATA_BUFFER c') as X. rewrite EF in X. cbn [fst] in X. apply (X R1). }
    exists cF, c_HTP_STREAM_DATA. split.
    + apply sr_loop_inl. unfold sr_iter. rewrite Es. cbn [rs_state_fn]. unfold rs_RES_LINE, rs_bytes_fuel.
      rewrite (ri_len _ _ _ _ _ _ _ _ _ H), (ri_read _ _ _ _ _ _ _ _ _ H), Nat.sub_0_r, E, EF. reflexivity.
    + rewrite VF, V1, Hev. cbn [rev]. left. split; [rewrite Erw; destruct q2; [contradiction|discriminate]|]. left. split; [reflexivity|]. exists (p ++ d), q2.
      split; [exact HF'|]. split; [rewrite <- app_assoc; exact Hpq'|]. split; [exact Hq2|exact Erw].
  - destruct (Cge Lge) as (d2 & Ed & Eaft).
    destruct (sr_pass_line cb g Hcb c d p q d2 _ ps s r Wl H Ed Hq Hpq Hlim0) as (c2 & E2 & H2 & Hr2).
    destruct (dv_siter_line_inr cb g Hcb c c2 Es (ri_state _ _ _ _ _ _ _ _ _ H2) E2 Rk) as [V2 _]. rewrite Hev in V2.
    rewrite (sr_loop_inr cb g _ _ _ E2).
    apply (Hcall_start c2 d _ rw' F1 Hok H2); [rewrite Hr2; symmetry; exact Eaft|destruct q; [contradiction|cbn [length]; lia]|exact V2|unfold sr_need in *; lia].
Qed.

Lemma dv_sstepF L c (rw x rw' : bytes) : between L c rw -> c_events c = [] -> x <> [] -> rw = x ++ rw' -> okc x rw' ->
  exists c' rc, connp_res_data cb g (Some x) (length x) c = (c', rc) /\ dv_spostF (L ++ rev (dv_sb c')) c' rw'.
Proof.
  intros [(EL & p & q & Hm & Hpq & Hq & Erw)|[(EL & p & hdr & t & Hm & Hl)|He]] Hev Hne Ex Hok.
  - destruct (dv_senter cb g c p None _ _ _ x Hm Hne) as (c1 & E1 & H1 & V1 & _). unfold bytes in *. rewrite E1.
    pose proof (sr_fuel_need x) as Fx. rewrite EL. cbn [app].
    apply (dv_scall_lineF c1 x p q rw' _ Hok H1 Hpq Hq); [rewrite <- Ex; exact Erw|exact Hne|unfold dv_sb; rewrite V1, Hev; reflexivity|lia].
  - destruct (dv_senter cb g c p hdr _ _ t x Hm Hne) as (c1 & E1 & H1 & V1 & _). unfold bytes in *. rewrite E1.
    pose proof (sr_fuel_need x) as Fx. rewrite EL. cbn [app].
    apply (Hcall c1 x p hdr t rw' _ Hok H1); [rewrite <- Ex; exact Hl|unfold dv_sb; rewrite V1, Hev; reflexivity|lia].
  - apply (Hext_step L c rw x rw' He Hev Hne Ex Hok).
Qed.

Lemma dv_sfirstF c0 (x rw' : bytes) : sr_ready t0 c0 -> c_events c0 = [] -> x <> [] -> x ++ rw' = line0 ++ [CR; LF] ++ bwt -> okc x rw' ->
  exists c' rc, connp_res_data cb g (Some x) (length x) c0 = (c', rc) /\ dv_spostF (rev (dv_sb c')) c' rw'.
Proof.
  intros [A1 A2 A3 A4 A5 A6 A7 A8 A9 A10 A11 A12] Hev Hne Ex Hok.
  assert (Hlen0 : (length x =? 0)%nat = false) by (destruct x; [contradiction|reflexivity]).
  unfold connp_res_data. rewrite (sg_live_stop _ A1), (sg_live_error _ A1), A7, A2. cbn [res_state_eqb negb]. rewrite Hlen0. cbn [andb].
  match goal with |- context [rs_res_loop cb g _ _ ?y] => set (c1 := y) end.
  match goal with |- context [(c_out_status ?y =? c_HTP_STREAM_TUNNEL)%Z] => change (c_out_status y) with (c_out_status c0) end.
  rewrite (sg_live_tunnel _ A1).
  assert (Idle1 : sr_idle c1 x t0 /\ c_events c1 = []) by (unfold c1; split; [constructor; try assumption; reflexivity|exact Hev]).
  clearbody c1. destruct Idle1 as [Idle1 V1].
  destruct (sr_pass_idle cb g Hcb c1 x t0 Idle1 Hne H09) as (c2 & E2 & H2).
  assert (Rk1 : dv_sok c1) by (unfold dv_sok; rewrite (rd_rh _ _ _ Idle1); intros h E'; discriminate E').
  assert (Hf : nth_error (c_txs c1) (c_out_next_tx_index c1) = Some (Some t0)) by (rewrite (rd_txs _ _ _ Idle1), (rd_next _ _ _ Idle1); reflexivity).
  destruct (dv_siter_idle_inr cb g Hcb c1 c2 t0 (rd_state _ _ _ Idle1) Hf E2 Rk1) as [V2 _].
  unfold dv_sb at 2 in V2. rewrite V1 in V2. cbn [dv_selp filter] in V2.
  pose proof (sr_fuel_need x) as Fx.
  destruct (rs_res_fuel (length x)) as [|F1] eqn:EF; [unfold sr_need in Fx; lia|].
  rewrite (sr_loop_inr cb g _ _ _ E2).
  apply (dv_scall_lineF c2 x [] (line0 ++ [CR; LF]) rw' _ Hok H2 eq_refl).
  - intro E. apply app_eq_nil in E. destruct E as [_ E]. discriminate.
  - rewrite Ex, <- !app_assoc. reflexivity.
  - exact Hne.
  - exact V2.
  - lia.
Qed.

Lemma dv_sbetweenF_finish L c rw : between L c rw -> between L (forget_chunks c <| c_events := [] |>) rw.
Proof. apply dv_sbetween_finish. exact Hext_finish. Qed.

Lemma dv_schunksF : forall (chunks : list bytes) L c rw, between L c rw -> c_events c = [] -> rw <> [] ->
  Forall (fun x => x <> []) chunks -> concat chunks = rw -> sr_oks okc chunks ->
  fin (L ++ dv_slog cb g c (map OpResData chunks)) (fst (cp_run cb g c (map OpResData chunks))).
Proof.
  induction chunks as [|x rest IH]; intros L c rw Hb Hev Hne Hall Hc Hoks.
  - cbn [concat] in Hc. congruence.
  - cbn [concat] in Hc. cbn [map]. rewrite sr_cp_run_cons, dv_slog_cons. destruct Hoks as [Hok Hoks].
    destruct (dv_sstepF L c rw x (concat rest) Hb Hev (Forall_inv Hall) (eq_sym Hc) Hok) as (c' & rc & E & [[Hn Hb']|[Hn T]]); unfold bytes in *; rewrite E; cbn [fst].
    + rewrite app_assoc. apply (IH _ _ (concat rest) (dv_sbetweenF_finish _ _ _ Hb') eq_refl Hn (Forall_inv_tail Hall) eq_refl Hoks).
    + rewrite (sg_concat_nil rest (Forall_inv_tail Hall) Hn). cbn [map cp_run fst]. unfold dv_slog. cbn [cp_run snd map concat dv_selp filter]. rewrite app_nil_r. apply Hfin_finish. exact T.
Qed.
Lemma dv_sall_chunksF c0 (chunks : list bytes) : sr_ready t0 c0 -> c_events c0 = [] -> Forall (fun x => x <> []) chunks -> concat chunks = line0 ++ [CR; LF] ++ bwt ->
  sr_oks okc chunks -> fin (dv_slog cb g c0 (map OpResData chunks)) (fst (cp_run cb g c0 (map OpResData chunks))).
Proof.
  intros Hr Hev Hall Hc Hoks. destruct chunks as [|x rest].
  - cbn [concat] in Hc. symmetry in Hc. apply app_eq_nil in Hc. destruct Hc as [_ Hc]. discriminate.
  - cbn [concat] in Hc. cbn [map]. rewrite sr_cp_run_cons, dv_slog_cons. destruct Hoks as [Hok Hoks].
    destruct (dv_sfirstF c0 x (concat rest) Hr Hev (Forall_inv Hall) Hc Hok) as (c' & rc & E & [[Hn Hb']|[Hn T]]); unfold bytes in *; rewrite E; cbn [fst].
    + apply (dv_schunksF rest _ _ (concat rest) (dv_sbetweenF_finish _ _ _ Hb') eq_refl Hn (Forall_inv_tail Hall) eq_refl Hoks).
    + rewrite (sg_concat_nil rest (Forall_inv_tail Hall) Hn). cbn [map cp_run fst]. unfold dv_slog. cbn [cp_run snd map concat dv_selp filter]. rewrite app_nil_r. apply Hfin_finish. exact T.
Qed.
End GenFE.

(* ---- the header phase, what follows the empty line being a parameter with a fuel bound ---- *)
Section HdrFE.
Variable cb : cb_oracle.
Variable g : cfg.
Hypothesis Hcb : wr_all_ok cb.
Variables ps s r : bytes.
Variable t0 : tx.
Variable ls : list sg_fl.
Variable tailw : bytes.
Hypothesis Okl : forallb sg_fl_ok ls = true.
Hypothesis Hnp0 : sg_needs_pending ls = false.
Let line0 := wr_ser_status_line ps s r.
Let th0 := sr_th0 t0 line0.
Let Tend := sr_lrun ls (None, th0).
Let has_hdr := negb (sr_is_nil ls).
Hypothesis Hfit : sr_ffit (g_field_limit_hard g) (sr_p11 th0) None ls = true.
Let bwt := sg_fwire ls ++ [CR; LF] ++ tailw.
Let hlog := sr_hlog g Tend tailw has_hdr.
Let okc := sr_f1_local tailw has_hdr.
Variable fin : list event -> connp -> Prop.
Variable ext : list event -> connp -> bytes -> Prop.
Let post := dv_spostF ps s r t0 bwt hlog fin ext.
Hypothesis Htail : forall c c1 d rd1 (rw' : bytes) F, c_out_state c = RES_HEADERS -> rs_state_fn cb g RES_HEADERS c = (ST_OK, c1) ->
  sr_cin c1 d rd1 [] None RES_BODY_DETERMINE (Some RES_HEADERS) (Some H_RESPONSE_HEADER_DATA) Tend -> skipn rd1 d ++ rw' = tailw ->
  dv_sb c = [] -> dv_sok c -> (sr_need d rd1 <= F)%nat ->
  exists cF rc, rs_res_loop cb g F false c = (cF, rc) /\ post (rev (dv_sb cF)) cF rw'.

Lemma dv_shdrs_finishF c d rd p hdr t (rw' : bytes) F nn :
  sr_cin c d rd p hdr RES_HEADERS (Some RES_HEADERS) (Some H_RESPONSE_HEADER_DATA) t -> dv_sb c = [] ->
  rs_state_fn cb g RES_HEADERS c = rs_headers_loop cb g nn false c -> (sr_need d rd <= F)%nat ->
  ((exists c' p' hdr' t', rs_headers_loop cb g nn false c = (ST_DATA_BUFFER, c') /\
      sr_cin c' d (length d) p' hdr' RES_HEADERS (Some RES_HEADERS) (Some H_RESPONSE_HEADER_DATA) t' /\
      sr_hlog g Tend tailw has_hdr hdr' t' p' rw' /\ rw' <> []) \/
   (exists c' rd1, rs_headers_loop cb g nn false c = (ST_OK, c') /\
      sr_cin c' d rd1 [] None RES_BODY_DETERMINE (Some RES_HEADERS) (Some H_RESPONSE_HEADER_DATA) Tend /\ skipn rd1 d ++ rw' = tailw /\
      (length d - rd1 <= length d - rd)%nat)) ->
  exists cF rc, rs_res_loop cb g F false c = (cF, rc) /\ post (rev (dv_sb cF)) cF rw'.
Proof.
  intros H0 Hev Ef HF [HA|HB].
  all: assert (Es : c_out_state c = RES_HEADERS) by apply (ri_state _ _ _ _ _ _ _ _ _ H0).
  all: assert (Rk : dv_sok c) by (eapply dv_scin_sok; [exact H0|apply dv_sneq12]).
  - destruct HA as (c' & p' & hdr' & t' & EA & HA1 & HA2 & HA3).
    assert (Lim : (length p' + length (sg_olist hdr') <= g_field_limit_hard g)%nat).
    { destruct HA2 as (pe & te & re & q' & ea & Hr' & _ & _ & _ & _ & Hne & Hea & _ & Fit & _). pose proof (sr_ffit_next _ _ _ _ Fit) as L.
      pose proof (sr_rel_len _ _ _ _ _ Hr'). destruct ea.
      - destruct (Hea eq_refl) as (Er & Ep & _). subst re p'. cbn [sg_fnext length] in L |- *. lia.
      - destruct (Hne eq_refl) as (Epq & _). rewrite <- Epq, app_length in L. lia. }
    destruct (sr_exit_buffer cb g Hcb c' d p' hdr' _ _ t' HA1 Lim) as (cF & EF & HF').
    assert (Ei : sr_iter cb g c = inl (cF, c_HTP_STREAM_DATA)) by (unfold sr_iter; rewrite Es, Ef, EA, EF; reflexivity).
    destruct (dv_siter_quiet_inl cb g Hcb c cF _ ltac:(rewrite Es; reflexivity) Ei Rk) as [VF _]. rewrite Hev in VF.
    exists cF, c_HTP_STREAM_DATA. split.
    + destruct F as [|F1]; [unfold sr_need in HF; lia|]. apply sr_loop_inl. exact Ei.
    + rewrite VF. cbn [rev]. left. split; [exact HA3|]. right. left. split; [reflexivity|]. exists p', hdr', t'. split; [exact HF'|exact HA2].
  - destruct HB as (c' & rd1 & EB & HB1 & HB2 & HB3). rewrite <- Ef in EB.
    apply (Htail c c' d rd1 rw' F Es EB HB1 HB2 Hev Rk). unfold sr_need in *. lia.
Qed.

Lemma dv_scall_hdrsF c d p hdr t (rw' : bytes) F : okc d rw' ->
  sr_cin c d 0 p hdr RES_HEADERS (Some RES_HEADERS) (Some H_RESPONSE_HEADER_DATA) t -> hlog hdr t p (d ++ rw') -> dv_sb c = [] -> (sr_need d 0 <= F)%nat ->
  exists cF rc, rs_res_loop cb g F false c = (cF, rc) /\ post (rev (dv_sb cF)) cF rw'.
Proof.
  intros Hok H (pend & tl & rem & q & eaten & Hrel & Ok & Hnp & Hrun & Hprog & Hne & Hea & Hw & Hfit' & Hhh) Hev HF.
  assert (Ef : rs_state_fn cb g RES_HEADERS c = rs_headers_loop cb g (S (S (length d))) false c).
  { cbn [rs_state_fn]. unfold rs_RES_HEADERS, rs_bytes_fuel. rewrite (ri_len _ _ _ _ _ _ _ _ _ H), (ri_read _ _ _ _ _ _ _ _ _ H), Nat.sub_0_r. reflexivity. }
  apply (dv_shdrs_finishF c d 0 p hdr t rw' F _ H Hev Ef HF).
  destruct (sr_hdrs_loop cb g d rw' Tend tailw has_hdr Hok rem c 0 p q hdr t pend tl (S (S (length d))) false eaten H Hrel Ok Hnp Hrun Hprog Hne Hea Hw Hfit' Hhh) as [HA|HB];
    [discriminate|left; reflexivity|intros _; left; reflexivity|lia|left; exact HA|].
  right. destruct HB as (c' & rd1 & EB & HB1 & HB2). exists c', rd1. split; [exact EB|]. split; [exact HB1|]. split; [exact HB2|].
  apply (sr_tail_pos tailw d rw' q rem 0 rd1 Hw HB2).
Qed.
Lemma dv_scall_startF c d rd (rw' : bytes) F : okc d rw' ->
  sr_cin c d rd [] None RES_HEADERS (Some RES_HEADERS) (Some H_RESPONSE_HEADER_DATA) th0 -> skipn rd d ++ rw' = bwt -> (0 < rd)%nat ->
  dv_sb c = [] -> (sr_need d rd <= F)%nat ->
  exists cF rc, rs_res_loop cb g F false c = (cF, rc) /\ post (rev (dv_sb cF)) cF rw'.
Proof.
  intros Hok H Hw Hrd Hev HF.
  assert (Ef : rs_state_fn cb g RES_HEADERS c = rs_headers_loop cb g (S (S (length d - rd))) false c).
  { cbn [rs_state_fn]. unfold rs_RES_HEADERS, rs_bytes_fuel. rewrite (ri_len _ _ _ _ _ _ _ _ _ H), (ri_read _ _ _ _ _ _ _ _ _ H). reflexivity. }
  apply (dv_shdrs_finishF c d rd [] None th0 rw' F _ H Hev Ef HF).
  assert (Hw' : skipn rd d ++ rw' = sg_fnext ls ++ sg_fafter tailw ls) by (rewrite Hw; unfold bwt; apply sg_fwire_split).
  destruct (sr_hdrs_loop cb g d rw' Tend tailw has_hdr Hok ls c rd [] (sg_fnext ls) None th0 None th0 (S (S (length d - rd))) false false H) as [HA|HB].
  - left. split; reflexivity.
  - exact Okl.
  - rewrite Hnp0. discriminate.
  - reflexivity.
  - apply (sr_th0_keep t0 line0).
  - intros _. split; [reflexivity|apply sg_fnext_ne].
  - discriminate.
  - exact Hw'.
  - exact Hfit.
  - apply sr_is_nil_false.
  - discriminate.
  - right. reflexivity.
  - discriminate.
  - lia.
  - left. exact HA.
  - right. destruct HB as (c' & rd1 & EB & HB1 & HB2). exists c', rd1. split; [exact EB|]. split; [exact HB1|]. split; [exact HB2|].
    apply (sr_tail_pos tailw d rw' (sg_fnext ls) ls rd rd1 Hw' HB2).
Qed.
End HdrFE.
