(* C03, response direction: what follows the empty line -- RES_BODY_DETERMINE with a Content-Length framing, the identity body
   (one pass of RES_BODY_IDENTITY_CL_KNOWN per call), RES_FINALIZE, RES_IDLE -- and the theorems: every chunking of a response
   of the wire grammar (header fields possibly folded, Content-Length body) reports the same transactions. *)
Require Import Htp.Model.Base Htp.Model.MBstr Htp.Model.MConnTypes Htp.Model.MTxCommon Htp.Model.MResLine Htp.Model.MTxRes.
Require Import Htp.Model.MReq Htp.Model.MRes Htp.Model.MConnp.
Require Import Htp.Spec.SWire Htp.Proof.PWire Htp.Proof.PWireHdr Htp.Proof.PWireBlock Htp.Proof.PWireConn Htp.Proof.PWireExch.
Require Import Htp.Proof.PWireRun Htp.Proof.PWirePres Htp.Proof.PWireGlue Htp.Proof.PSeg Htp.Proof.PSegLine Htp.Proof.PSegHdr Htp.Proof.PSegGen Htp.Proof.PSegRun.
Require Import Htp.Proof.PSegFold Htp.Proof.PSegRes Htp.Proof.PSegResLine Htp.Proof.PSegResHdr Htp.Proof.PSegResGen.

(* ---- the framing decision of htp_connp_RES_BODY_DETERMINE for a response with Content-Length and without Transfer-Encoding ---- *)
(* the premise on the transaction at the end of the header block: n body bytes follow *)
Definition sr_frame_ok (t : tx) (n : nat) : bool :=
  negb (t_request_method_number t =? c_HTP_M_CONNECT)%Z && negb (t_request_method_number t =? c_HTP_M_HEAD)%Z &&
  match rs_hdr_get_c (t_response_headers t) rs_str_transfer_encoding with Some _ => false | None => true end &&
  match rs_hdr_get_c (t_response_headers t) rs_str_content_length with
  | Some h => (parse_content_length (h_value h) =? Z.of_nat n)%Z && negb ((t_response_status_number t =? 100)%Z && (n =? 0)%nat)
  | None => false
  end.
(* what the state does to the transaction *)
Definition sr_det_tx (t : tx) : tx :=
  let t1 := match rs_hdr_get_c (t_response_headers t) rs_str_content_type with
            | Some hc => t <| t_response_content_type := Some (rs_content_type (h_value hc)) |>
            | None => t
            end in
  match rs_hdr_get_c (t_response_headers t) rs_str_content_length with
  | Some h =>
    let v := parse_content_length (h_value h) in
    let t2 := (let t := t1 <| t_response_transfer_coding := c_HTP_CODING_IDENTITY |> in
               let t := if flag_has (h_flags h) c_HTP_FIELD_REPEATED
                        then t <| t_flags := flag_set (t_flags t) c_HTP_REQUEST_SMUGGLING |> else t in
               t <| t_response_content_length := v |>) in
    if negb (v =? 0)%Z then t2 <| t_response_progress := c_HTP_RESPONSE_BODY |> else t2
  | None => t1
  end.
(* htp_tx_state_response_headers *)
Definition sr_hdrs_tx (t : tx) : tx := (sr_det_tx t) <| t_res_cep := c_HTP_COMPRESSION_NONE |>.

(* ---- body bytes on the transaction ---- *)
Definition sr_body_add (k : nat) (t : tx) : tx :=
  t <| t_response_message_len ::= Z.add (Z.of_nat k) |> <| t_response_entity_len ::= Z.add (Z.of_nat k) |>.
Definition sr_body_add' (k : nat) (t : tx) : tx := match k with O => t | S _ => sr_body_add k t end.
Lemma sr_tx_ext2 (a b : tx) :
  a <| t_response_entity_len := 0%Z |> <| t_response_message_len := 0%Z |> = b <| t_response_entity_len := 0%Z |> <| t_response_message_len := 0%Z |> ->
  t_response_entity_len a = t_response_entity_len b -> t_response_message_len a = t_response_message_len b -> a = b.
Proof. destruct a, b. cbn. intros H1 H2 H3. inversion H1. subst. reflexivity. Qed.
Lemma sr_body_add_add a b t : sr_body_add a (sr_body_add b t) = sr_body_add (b + a) t.
Proof. apply sr_tx_ext2; [reflexivity|unfold sr_body_add; cbn; lia|unfold sr_body_add; cbn; lia]. Qed.
Lemma sr_body_add_fuse j k t : (0 < j)%nat -> sr_body_add j (sr_body_add' k t) = sr_body_add' (k + j) t.
Proof.
  intros Hj. destruct k as [|k].
  - cbn [sr_body_add' Nat.add]. destruct j; [lia|reflexivity].
  - cbn [sr_body_add' Nat.add]. rewrite sr_body_add_add. reflexivity.
Qed.
(* htp_tx_state_response_complete_ex on a response whose coding is not NO_BODY: the end-of-body marker adds 0 *)
Definition sr_tcomplete (t : tx) : tx := sr_body_add 0 (t <| t_response_progress := c_HTP_RESPONSE_COMPLETE |>).
(* from the end of the header block to the end of a response with n body bytes *)
Definition sr_after_hdr (n : nat) (t : tx) : tx :=
  sr_tcomplete (match n with O => sr_hdrs_tx t | S _ => sr_body_add 0 (sr_body_add' n (sr_hdrs_tx t)) end).
(* the slot of the transaction list at the end: htp_tx_finalize destroys a complete transaction when tx_auto_destroy is set *)
Definition sr_final (g : cfg) (t : tx) : list (option tx) := [if g_tx_auto_destroy g then None else Some t].

Lemma sr_cin_nil c d rd hdr st prev rh t : sr_cin c d rd [] hdr st prev rh t -> k_consume (c_out c) = rd /\ sg_olist (k_buf (c_out c)) = [].
Proof.
  intros [A1 A2 A3 A4 A5 A6 A7 A8 A9 A10 A11 A12 A13 A14 A15 A16 A17]. apply app_eq_nil in A9. destruct A9 as [B1 B2]. split; [|exact B1].
  assert (L : length (firstn (rd - k_consume (c_out c)) (skipn (k_consume (c_out c)) d)) = 0%nat) by (rewrite B2; reflexivity).
  rewrite (sg_slice_length d _ rd A8 A7) in L. lia.
Qed.

Section Tail.
Variable cb : cb_oracle.
Variable g : cfg.
Hypothesis Hcb : wr_all_ok cb.

(* htp_tx_state_response_headers: the raw-header receiver is finalised, the RESPONSE_HEADERS hook runs *)
Lemma sr_response_headers c d rd st prev t : sr_cin c d rd [] None st prev (Some H_RESPONSE_HEADER_DATA) t ->
  exists c', rs_response_headers cb c = (ST_OK, c') /\ sr_cin c' d rd [] None st prev None (t <| t_res_cep := c_HTP_COMPRESSION_NONE |>) /\
             c_out_body_data_left c' = c_out_body_data_left c.
Proof.
  intros H. unfold rs_response_headers. rewrite (ri_tx _ _ _ _ _ _ _ _ _ H). unfold tx_state_response_headers.
  rewrite (sr_tx_upd0 c d rd _ _ _ _ _ t _ H).
  set (c1 := c <| c_txs := [Some (t <| t_res_cep := c_HTP_COMPRESSION_NONE |>)] |>).
  assert (H1 : sr_cin c1 d rd [] None st prev (Some H_RESPONSE_HEADER_DATA) (t <| t_res_cep := c_HTP_COMPRESSION_NONE |>)) by (eapply sr_cin_txs; exact H).
  unfold res_receiver_finalize_clear. rewrite (ri_rh _ _ _ _ _ _ _ _ _ H1).
  destruct (sr_send_data cb Hcb c1 d rd _ _ _ _ _ _ true H1) as (c2 & E2 & H2 & L2). rewrite E2.
  rewrite (wr_run_hook cb Hcb).
  eexists. split; [reflexivity|]. split; [|exact L2].
  destruct H2 as [B1 B2 B3 B4 B5 B6 B7 B8 B9 B10 B11 B12 B13 B14 B15 B16 B17].
  constructor; try assumption; try reflexivity.
Qed.

Lemma sr_pass_determine c d rd t n : sr_cin c d rd [] None RES_BODY_DETERMINE (Some RES_BODY_DETERMINE) (Some H_RESPONSE_HEADER_DATA) t ->
  sr_frame_ok t n = true ->
  exists c', sr_iter cb g c = inr c' /\
    match n with
    | O => sr_cin c' d rd [] None RES_FINALIZE (Some RES_FINALIZE) None (sr_hdrs_tx t)
    | S _ => sr_cin c' d rd [] None RES_BODY_IDENTITY_CL_KNOWN (Some RES_BODY_IDENTITY_CL_KNOWN) None (sr_hdrs_tx t) /\
             c_out_body_data_left c' = Z.of_nat n
    end.
Proof.
  intros H Hf. unfold sr_frame_ok in Hf. apply andb_prop in Hf. destruct Hf as [Hf Hcl]. apply andb_prop in Hf. destruct Hf as [Hf Hte].
  apply andb_prop in Hf. destruct Hf as [Hm Hhd]. apply negb_true_iff in Hm. apply negb_true_iff in Hhd.
  assert (Ef : rs_state_fn cb g (c_out_state c) c = rs_RES_BODY_DETERMINE cb c) by (rewrite (ri_state _ _ _ _ _ _ _ _ _ H); reflexivity).
  destruct (rs_hdr_get_c (t_response_headers t) rs_str_transfer_encoding) as [hte|] eqn:Ete; [discriminate|].
  destruct (rs_hdr_get_c (t_response_headers t) rs_str_content_length) as [h|] eqn:Ecl; [|discriminate].
  apply andb_prop in Hcl. destruct Hcl as [Hv H100]. apply Z.eqb_eq in Hv. apply negb_true_iff in H100.
  unfold rs_RES_BODY_DETERMINE in Ef. rewrite (sr_rs_tx c d rd _ _ _ _ _ t H) in Ef. cbv zeta in Ef. rewrite Hm, Hhd, Ete, Ecl, Hv in Ef. cbn [andb] in Ef.
  rewrite !andb_false_r in Ef. cbn [negb] in Ef.
  set (cE := if (400 <=? t_response_status_number t)%Z && (t_response_status_number t <=? 499)%Z && (0 <? c_in_content_length c)%Z &&
                (c_in_body_data_left c =? c_in_content_length c)%Z
             then match rs_hdr_get_c (t_request_headers t) rs_str_expect with
                  | Some e => if (cmp_mem_nocase (h_value e) rs_str_100_continue =? 0)%Z then c <| c_in_state := REQ_FINALIZE |> else c
                  | None => c
                  end
             else c) in Ef.
  assert (HE : sr_cin cE d rd [] None RES_BODY_DETERMINE (Some RES_BODY_DETERMINE) (Some H_RESPONSE_HEADER_DATA) t).
  { unfold cE.
    repeat match goal with
    | |- sr_cin (if ?b then _ else _) _ _ _ _ _ _ _ _ => destruct b
    | |- sr_cin (match ?x with _ => _ end) _ _ _ _ _ _ _ _ => destruct x
    end; try exact H; apply (sr_cin_ext c); try reflexivity; exact H. }
  clearbody cE.
  assert (Eif : (if (100 <=? t_response_status_number t)%Z && (t_response_status_number t <=? 199)%Z || (t_response_status_number t =? 204)%Z
                     || (t_response_status_number t =? 304)%Z then cE else cE) = cE) by (destruct (_ || _ || _); reflexivity).
  rewrite Eif in Ef. clear Eif.
  assert (E100 : (t_response_status_number t =? 100)%Z && true && negb (0 <? Z.of_nat n)%Z = false).
  { rewrite andb_true_r. destruct (t_response_status_number t =? 100)%Z; [|reflexivity]. cbn [andb] in *. destruct n; [discriminate|].
    apply negb_false_iff. apply Z.ltb_lt. lia. }
  rewrite E100 in Ef. rewrite (ri_state _ _ _ _ _ _ _ _ _ HE) in Ef. cbn [res_state_eqb negb] in Ef.
  assert (Ev : (Z.of_nat n <? 0)%Z = false) by (apply Z.ltb_ge; lia). rewrite Ev in Ef.
  (* Content-Type *)
  set (t1 := match rs_hdr_get_c (t_response_headers t) rs_str_content_type with
             | Some hc => t <| t_response_content_type := Some (rs_content_type (h_value hc)) |>
             | None => t
             end).
  assert (HT : exists cT, match rs_hdr_get_c (t_response_headers t) rs_str_content_type with
                          | Some h0 => rs_otx (fun t => t <| t_response_content_type := Some (rs_content_type (h_value h0)) |>) cE
                          | None => cE
                          end = cT /\ sr_cin cT d rd [] None RES_BODY_DETERMINE (Some RES_BODY_DETERMINE) (Some H_RESPONSE_HEADER_DATA) t1).
  { unfold t1. destruct (rs_hdr_get_c (t_response_headers t) rs_str_content_type) as [hc|].
    - rewrite (sr_otx cE d rd _ _ _ _ _ t _ HE). eexists. split; [reflexivity|]. eapply sr_cin_txs. exact HE.
    - exists cE. split; [reflexivity|exact HE]. }
  destruct HT as (cT & ET & HT). rewrite ET in Ef. clear ET.
  rewrite (sr_otx cT d rd _ _ _ _ _ t1 _ HT) in Ef.
  set (t2 := (if flag_has (h_flags h) c_HTP_FIELD_REPEATED
              then t1 <| t_response_transfer_coding := c_HTP_CODING_IDENTITY |> <| t_flags :=
                     flag_set (t_flags (t1 <| t_response_transfer_coding := c_HTP_CODING_IDENTITY |>)) c_HTP_REQUEST_SMUGGLING |>
              else t1 <| t_response_transfer_coding := c_HTP_CODING_IDENTITY |>) <| t_response_content_length := Z.of_nat n |>) in *.
  set (c2 := cT <| c_txs := [Some t2] |>) in *.
  assert (H2 : sr_cin c2 d rd [] None RES_BODY_DETERMINE (Some RES_BODY_DETERMINE) (Some H_RESPONSE_HEADER_DATA) t2) by (eapply sr_cin_txs; exact HT).
  set (c3 := c2 <| c_out_content_length := Z.of_nat n |> <| c_out_body_data_left := Z.of_nat n |>) in *.
  assert (H3 : sr_cin c3 d rd [] None RES_BODY_DETERMINE (Some RES_BODY_DETERMINE) (Some H_RESPONSE_HEADER_DATA) t2) by (apply (sr_cin_ext c2); try reflexivity; exact H2).
  destruct n as [|n'].
  - change ((Z.of_nat 0 =? 0)%Z) with true in Ef. cbn [negb] in Ef.
    assert (H4 : sr_cin (rs_set_state RES_FINALIZE c3) d rd [] None RES_FINALIZE (Some RES_BODY_DETERMINE) (Some H_RESPONSE_HEADER_DATA) t2) by (eapply sr_cin_state; exact H3).
    destruct (sr_response_headers _ d rd _ _ t2 H4) as (c5 & E5 & H5 & _). rewrite E5 in Ef.
    destruct (sr_iter_ok cb g c c5 d rd _ _ _ _ _ _ Ef H5) as (c6 & E6 & H6); [discriminate|].
    exists c6. split; [exact E6|].
    assert (Et : sr_hdrs_tx t = t2 <| t_res_cep := c_HTP_COMPRESSION_NONE |>).
    { unfold sr_hdrs_tx, sr_det_tx. rewrite Ecl. cbv zeta. fold t1. rewrite Hv. reflexivity. }
    rewrite Et. exact H6.
  - assert (Nz : (Z.of_nat (S n') =? 0)%Z = false) by (apply Z.eqb_neq; lia). rewrite Nz in Ef. cbn [negb] in Ef.
    rewrite (sr_otx c3 d rd _ _ _ _ _ t2 _ H3) in Ef.
    set (t3 := t2 <| t_response_progress := c_HTP_RESPONSE_BODY |>) in *.
    assert (H4 : sr_cin (rs_set_state RES_BODY_IDENTITY_CL_KNOWN (c3 <| c_txs := [Some t3] |>)) d rd [] None RES_BODY_IDENTITY_CL_KNOWN (Some RES_BODY_DETERMINE) (Some H_RESPONSE_HEADER_DATA) t3).
    { eapply sr_cin_state. eapply sr_cin_txs. exact H3. }
    destruct (sr_response_headers _ d rd _ _ t3 H4) as (c5 & E5 & H5 & L5). rewrite E5 in Ef.
    destruct (sr_iter_ok_left cb g c c5 d rd _ _ _ _ _ _ Ef H5) as (c6 & E6 & H6 & L6); [discriminate|].
    exists c6. split; [exact E6|].
    assert (Et : sr_hdrs_tx t = t3 <| t_res_cep := c_HTP_COMPRESSION_NONE |>).
    { unfold sr_hdrs_tx, sr_det_tx. rewrite Ecl. cbv zeta. fold t1. rewrite Hv, Nz. reflexivity. }
    rewrite Et. split; [exact H6|]. rewrite L6, L5. reflexivity.
Qed.

(* ---- htp_tx_res_process_body_data_ex: lengths, the transaction's own hooks (however many), the RESPONSE_BODY_DATA hook ---- *)
Lemma sr_cin_tx_hooks k h i data last c d rd p hdr st prev rh t : sr_cin c d rd p hdr st prev rh t ->
  sr_cin (run_tx_hooks k h i data last c) d rd p hdr st prev rh t /\
  c_out_body_data_left (run_tx_hooks k h i data last c) = c_out_body_data_left c.
Proof.
  revert c. induction k as [|k IH]; intros c H; [split; [exact H|reflexivity]|].
  cbn [run_tx_hooks]. destruct (IH (emit (bump_hook c h) (mkev h i data last None))) as [A B]; [apply (sr_cin_hook c d rd p hdr st prev rh t h i data last H)|].
  split; [exact A|rewrite B; reflexivity].
Qed.
Lemma sr_process_body c d rd p hdr st prev rh t data len : sr_cin c d rd p hdr st prev rh t -> t_res_cep t = c_HTP_COMPRESSION_NONE ->
  match data with Some _ => len <> 0%nat | None => True end ->
  exists c', rs_process_body cb data len c = (ST_OK, c') /\ sr_cin c' d rd p hdr st prev rh (sr_body_add len t) /\
             c_out_body_data_left c' = c_out_body_data_left c.
Proof.
  intros H Hcep Hne. unfold rs_process_body. rewrite (ri_tx _ _ _ _ _ _ _ _ _ H). unfold tx_res_process_body_data_ex.
  rewrite (sr_tx_upd0 c d rd _ _ _ _ _ t _ H).
  set (t1 := t <| t_response_message_len ::= Z.add (Z.of_nat len) |>). set (c1 := c <| c_txs := [Some t1] |>).
  assert (H1 : sr_cin c1 d rd p hdr st prev rh t1) by (eapply sr_cin_txs; exact H).
  rewrite (sr_tx_get c1 d rd _ _ _ _ _ _ H1). change (t_res_cep t1) with (t_res_cep t). rewrite Hcep, Z.eqb_refl.
  rewrite (sr_tx_upd0 c1 d rd _ _ _ _ _ t1 _ H1).
  set (c2 := c1 <| c_txs := [Some (t1 <| t_response_entity_len ::= Z.add (Z.of_nat len) |>)] |>).
  assert (H2 : sr_cin c2 d rd p hdr st prev rh (sr_body_add len t)) by (eapply sr_cin_txs; exact H1).
  assert (Er : res_run_hook_body_data cb 0 data len c2 =
               run_data_hook cb H_RESPONSE_BODY_DATA 0 data false
                 (run_tx_hooks (t_hook_response_body (tx_get c2 0)) H_TX_RESPONSE_BODY_DATA 0 data false c2)).
  { unfold res_run_hook_body_data. rewrite (ri_tx _ _ _ _ _ _ _ _ _ H2). destruct data as [x|]; [destruct len; [contradiction|reflexivity]|reflexivity]. }
  rewrite Er. destruct (sr_cin_tx_hooks (t_hook_response_body (tx_get c2 0)) H_TX_RESPONSE_BODY_DATA 0 data false c2 d rd p hdr st prev rh _ H2) as [H3 L3].
  unfold run_data_hook. rewrite (wr_run_hook_ex cb Hcb).
  eexists. split; [reflexivity|]. split; [apply sr_cin_hook; exact H3|]. exact L3.
Qed.

(* ---- one pass of RES_BODY_IDENTITY_CL_KNOWN over what the chunk still has (all of it belongs to the body) ---- *)
Lemma sr_cin_advance c d rd hdr st prev rh t k : sr_cin c d rd [] hdr st prev rh t -> (rd + k <= length d)%nat ->
  sr_cin (rs_advance k c) d (rd + k) [] hdr st prev rh t.
Proof.
  intros H Hk. destruct (sr_cin_nil _ _ _ _ _ _ _ _ H) as [Ecs Ebuf]. destruct H as [A1 A2 A3 A4 A5 A6 A7 A8 A9 A10 A11 A12 A13 A14 A15 A16 A17].
  constructor; try assumption; try reflexivity.
  - cbn. rewrite A6. reflexivity.
  - cbn. rewrite Ecs. lia.
  - cbn [rs_advance rs_set_out c_out set k_buf k_consume k_read]. cbn. rewrite Ebuf, Ecs, Nat.sub_diag. reflexivity.
  - cbn. lia.
Qed.
Lemma sr_exit_data c d rd hdr st t : sr_cin c d rd [] hdr st (Some st) None t ->
  rs_res_exit cb g ST_DATA c = (rs_set_out_status c_HTP_STREAM_DATA c, c_HTP_STREAM_DATA) /\
  sr_mid (rs_set_out_status c_HTP_STREAM_DATA c) [] hdr st None t.
Proof.
  intros H. destruct (sr_cin_nil _ _ _ _ _ _ _ _ H) as [_ Ebuf]. destruct H as [A1 A2 A3 A4 A5 A6 A7 A8 A9 A10 A11 A12 A13 A14 A15 A16 A17].
  split; [unfold rs_res_exit, res_receiver_send_data; rewrite A11; reflexivity|].
  constructor; try assumption; try reflexivity. right. reflexivity.
Qed.

Lemma sr_body_pass c d rd t (left : nat) : sr_cin c d rd [] None RES_BODY_IDENTITY_CL_KNOWN (Some RES_BODY_IDENTITY_CL_KNOWN) None t ->
  t_res_cep t = c_HTP_COMPRESSION_NONE -> c_out_body_data_left c = Z.of_nat left -> (0 < left)%nat -> (length d - rd <= left)%nat ->
  let k := (length d - rd)%nat in
  match k with
  | O => sr_iter cb g c = inl (rs_set_out_status c_HTP_STREAM_DATA c, c_HTP_STREAM_DATA)
  | S _ =>
    if (k <? left)%nat then
      exists c', sr_iter cb g c = inl (rs_set_out_status c_HTP_STREAM_DATA c', c_HTP_STREAM_DATA) /\
                 sr_cin c' d (length d) [] None RES_BODY_IDENTITY_CL_KNOWN (Some RES_BODY_IDENTITY_CL_KNOWN) None (sr_body_add k t) /\
                 c_out_body_data_left c' = Z.of_nat (left - k)
    else
      exists c', sr_iter cb g c = inr c' /\
                 sr_cin c' d (length d) [] None RES_FINALIZE (Some RES_FINALIZE) None (sr_body_add 0 (sr_body_add k t))
  end.
Proof.
  intros H Hcep Hl Hpos Hle k. pose proof H as [A1 A2 A3 A4 A5 A6 A7 A8 A9 A10 A11 A12 A13 A14 A15 A16 A17].
  assert (Ef : rs_state_fn cb g (c_out_state c) c = rs_RES_BODY_IDENTITY_CL_KNOWN cb c) by (rewrite A2; reflexivity).
  assert (Ebtc : rs_bytes_to_consume c (c_out_body_data_left c) = k).
  { unfold rs_bytes_to_consume. rewrite A5, A6, Hl. fold k.
    assert (E1 : (Z.of_nat left <? 0)%Z = false) by (apply Z.ltb_ge; lia). rewrite E1.
    destruct (Z.of_nat left <=? Z.of_nat k)%Z eqn:E2; [|reflexivity]. apply Z.leb_le in E2. rewrite Nat2Z.id. unfold k in *. lia. }
  unfold rs_RES_BODY_IDENTITY_CL_KNOWN in Ef. rewrite Ebtc in Ef. unfold rs_closed in Ef. rewrite (sg_live_closed _ A1) in Ef.
  destruct k as [|k'] eqn:Ek.
  - cbn [Nat.eqb] in Ef. unfold sr_iter. rewrite Ef. destruct (sr_exit_data c d rd None _ t H) as [E _]. rewrite E. reflexivity.
  - cbn [Nat.eqb] in Ef. rewrite <- Ek in *.
    unfold rs_body_slice in Ef. rewrite A4 in Ef.
    destruct (sr_process_body c d rd [] None _ _ None t (Some (firstn k (skipn (k_read (c_out c)) d))) k H Hcep ltac:(cbv beta iota; lia)) as (c1 & E1 & H1 & L1).
    rewrite E1 in Ef.
    assert (Hadv : sr_cin (rs_advance k c1) d (length d) [] None RES_BODY_IDENTITY_CL_KNOWN (Some RES_BODY_IDENTITY_CL_KNOWN) None (sr_body_add k t)).
    { replace (length d) with (rd + k)%nat by (unfold k; lia). apply sr_cin_advance; [exact H1|unfold k; lia]. }
    set (c2 := rs_advance k c1 <| c_out_body_data_left := (c_out_body_data_left (rs_advance k c1) - Z.of_nat k)%Z |>) in *.
    assert (H2 : sr_cin c2 d (length d) [] None RES_BODY_IDENTITY_CL_KNOWN (Some RES_BODY_IDENTITY_CL_KNOWN) None (sr_body_add k t)) by (apply (sr_cin_ext (rs_advance k c1)); try reflexivity; exact Hadv).
    assert (L2 : c_out_body_data_left c2 = (Z.of_nat left - Z.of_nat k)%Z).
    { unfold c2. cbn [c_out_body_data_left set]. change (c_out_body_data_left (rs_advance k c1)) with (c_out_body_data_left c1). rewrite L1, Hl. reflexivity. }
    rewrite L2 in Ef.
    destruct (k <? left)%nat eqn:Elt.
    + apply Nat.ltb_lt in Elt. assert (Nz : (Z.of_nat left - Z.of_nat k =? 0)%Z = false) by (apply Z.eqb_neq; lia). rewrite Nz in Ef.
      exists c2. split; [|split; [exact H2|rewrite L2; lia]].
      unfold sr_iter. rewrite Ef. destruct (sr_exit_data c2 d _ None _ _ H2) as [E _]. rewrite E. reflexivity.
    + apply Nat.ltb_ge in Elt. assert (Ez : (Z.of_nat left - Z.of_nat k =? 0)%Z = true) by (apply Z.eqb_eq; lia). rewrite Ez in Ef.
      assert (H3 : sr_cin (rs_set_state RES_FINALIZE c2) d (length d) [] None RES_FINALIZE (Some RES_BODY_IDENTITY_CL_KNOWN) None (sr_body_add k t)) by (eapply sr_cin_state; exact H2).
      destruct (sr_process_body _ d _ [] None _ _ None _ None 0 H3 Hcep I) as (c4 & E4 & H4 & _). rewrite E4 in Ef.
      apply (sr_iter_ok cb g c c4 d (length d) [] None RES_FINALIZE _ None _ Ef H4). discriminate.
Qed.

(* ---- RES_FINALIZE at the end of the chunk completes the response; RES_IDLE with nothing left returns HTP_STREAM_DATA ---- *)
Record sr_done (c : connp) (txs : list (option tx)) : Prop := mk_sr_done {
  rn_txs : c_txs c = txs;
  rn_state : c_out_state c = RES_IDLE;
  rn_pos : k_read (c_out c) = k_len (c_out c);
  rn_rh : k_receiver_hook (c_out c) = None;
  rn_status : sg_live (c_out_status c) }.

Lemma sr_pass_finalize c d t : sr_cin c d (length d) [] None RES_FINALIZE (Some RES_FINALIZE) None t ->
  t_res_cep t = c_HTP_COMPRESSION_NONE -> (t_response_transfer_coding t =? c_HTP_CODING_NO_BODY)%Z = false ->
  (t_response_progress t =? c_HTP_RESPONSE_COMPLETE)%Z = false -> t_request_progress t = c_HTP_REQUEST_COMPLETE ->
  exists c', sr_iter cb g c = inr c' /\ sr_done c' (sr_final g (sr_tcomplete t)).
Proof.
  intros H Hcep Hcod Hprog Hreq. pose proof H as [A1 A2 A3 A4 A5 A6 A7 A8 A9 A10 A11 A12 A13 A14 A15 A16 A17].
  unfold sr_iter. rewrite A2. cbn [rs_state_fn]. unfold rs_RES_FINALIZE, rs_closed. rewrite (sg_live_closed _ A1). cbn [negb].
  rewrite (sr_peek c d A4 A5), A6.
  assert (Nn : nth_error d (length d) = None) by (apply nth_error_None; lia). rewrite Nn.
  set (c0 := rs_set_out (fun k => k <| k_next_byte := None |>) c).
  assert (H0 : sr_cin c0 d (length d) [] None RES_FINALIZE (Some RES_FINALIZE) None t) by (apply sr_cin_next; exact H).
  change (rs_nb c0) with (@None N). cbv iota.
  unfold rs_response_complete. rewrite (ri_tx _ _ _ _ _ _ _ _ _ H0). unfold tx_state_response_complete_ex.
  rewrite (sr_tx_get c0 d _ _ _ _ _ _ _ H0), Hprog. cbn [negb].
  rewrite (sr_tx_upd0 c0 d _ _ _ _ _ _ t _ H0).
  set (t1 := t <| t_response_progress := c_HTP_RESPONSE_COMPLETE |>). set (c1 := c0 <| c_txs := [Some t1] |>).
  assert (H1 : sr_cin c1 d (length d) [] None RES_FINALIZE (Some RES_FINALIZE) None t1) by (eapply sr_cin_txs; exact H0).
  rewrite (sr_tx_get c1 d _ _ _ _ _ _ _ H1). change (t_response_transfer_coding t1) with (t_response_transfer_coding t). rewrite Hcod. cbn [negb].
  assert (Epb : tx_res_process_body_data_ex cb 0 None 0 c1 = rs_process_body cb None 0 c1) by (unfold rs_process_body; rewrite (ri_tx _ _ _ _ _ _ _ _ _ H1); reflexivity).
  rewrite Epb. destruct (sr_process_body c1 d _ [] None _ _ None t1 None 0 H1 Hcep I) as (c2 & E2 & H2 & _). rewrite E2. cbn [snd].
  fold (sr_tcomplete t) in H2.
  rewrite (wr_run_hook cb Hcb). unfold res_receiver_finalize_clear.
  set (c3 := wr_hook_ev H_RESPONSE_COMPLETE 0 None false c2).
  assert (H3 : sr_cin c3 d (length d) [] None RES_FINALIZE (Some RES_FINALIZE) None (sr_tcomplete t)) by (apply sr_cin_hook; exact H2).
  rewrite (ri_rh _ _ _ _ _ _ _ _ _ H3). rewrite (ri_intx _ _ _ _ _ _ _ _ _ H3), (ri_tx _ _ _ _ _ _ _ _ _ H3), andb_false_r. cbn [negb andb].
  rewrite (ri_other _ _ _ _ _ _ _ _ _ H3).
  unfold tx_finalize. rewrite (sr_cin_slot _ _ _ _ _ _ _ _ _ H3).
  assert (Ec : tx_is_complete (sr_tcomplete t) = true).
  { unfold tx_is_complete. change (t_request_progress (sr_tcomplete t)) with (t_request_progress t). rewrite Hreq. reflexivity. }
  rewrite Ec. cbn [negb]. unfold run_hook_ex. rewrite Hcb.
  set (c4 := emit (bump_hook c3 H_TRANSACTION_COMPLETE) (mkev H_TRANSACTION_COMPLETE 0 None false (Some (sr_tcomplete t)))).
  assert (H4 : sr_cin c4 d (length d) [] None RES_FINALIZE (Some RES_FINALIZE) None (sr_tcomplete t)) by (apply (sr_cin_ext c3); try reflexivity; exact H3).
  rewrite (sr_cin_slot _ _ _ _ _ _ _ _ _ H4).
  (* the transaction list at the end *)
  set (c5 := if g_tx_auto_destroy g then tx_destroy c4 0 else c4).
  assert (H5 : c_txs c5 = sr_final g (sr_tcomplete t) /\ c_out_status c5 = c_out_status c4 /\ c_out c5 = c_out c4 /\ c_out_state_previous c5 = c_out_state_previous c4).
  { unfold c5, sr_final. destruct (g_tx_auto_destroy g); [|split; [exact (ri_txs _ _ _ _ _ _ _ _ _ H4)|repeat split]].
    unfold tx_destroy. rewrite (sr_cin_slot _ _ _ _ _ _ _ _ _ H4), Ec. unfold tx_destroy_incomplete.
    rewrite (ri_shift _ _ _ _ _ _ _ _ _ H4). cbn [Nat.ltb Nat.leb Nat.sub].
    match goal with |- context [c_in_tx ?x] => change (c_in_tx x) with (c_in_tx c4) end. rewrite (ri_intx _ _ _ _ _ _ _ _ _ H4).
    match goal with |- context [c_out_tx ?x] => change (c_out_tx x) with (c_out_tx c4) end. rewrite (ri_tx _ _ _ _ _ _ _ _ _ H4). cbn [Nat.eqb].
    cbn [c_txs set]. rewrite (ri_txs _ _ _ _ _ _ _ _ _ H4). repeat split. }
  destruct H5 as (T5 & S5 & O5 & P5). clearbody c5.
  match goal with |- context [rs_handle_state_change cb ?x] => set (c6 := x) end.
  change (c_out_status c6) with (c_out_status c5). rewrite S5, (sg_live_tunnel _ (ri_status _ _ _ _ _ _ _ _ _ H4)).
  unfold rs_handle_state_change. change (c_out_state_previous c6) with (c_out_state_previous c5). rewrite P5, (ri_prev _ _ _ _ _ _ _ _ _ H4).
  change (c_out_state c6) with RES_IDLE. cbn [res_state_eqb].
  eexists. split; [reflexivity|].
  constructor; cbn [c_txs c_out_state c_out c_out_status set]; try reflexivity.
  - exact T5.
  - change (c_out c6) with (c_out c5). rewrite O5, (ri_read _ _ _ _ _ _ _ _ _ H4), (ri_len _ _ _ _ _ _ _ _ _ H4). reflexivity.
  - change (c_out c6) with (c_out c5). rewrite O5. exact (ri_rh _ _ _ _ _ _ _ _ _ H4).
  - change (c_out_status c6) with (c_out_status c5). rewrite S5. exact (ri_status _ _ _ _ _ _ _ _ _ H4).
Qed.

Lemma sr_pass_idle_end c txs : sr_done c txs -> exists c', sr_iter cb g c = inl (c', c_HTP_STREAM_DATA) /\ c_txs c' = txs.
Proof.
  intros [T S P R L]. unfold sr_iter. rewrite S. cbn [rs_state_fn]. unfold rs_RES_IDLE, rs_has_byte. rewrite P, Nat.ltb_irrefl. cbn [negb].
  unfold rs_res_exit, res_receiver_send_data. rewrite R. cbn [snd]. eexists. split; [reflexivity|exact T].
Qed.
End Tail.

(* ---- what the header phase keeps of the transaction ---- *)
Lemma sr_process_keep_req line t : t_request_progress (rs_process_response_header line t) = t_request_progress t.
Proof.
  unfold rs_process_response_header. destruct (rs_parse_response_header line (t_flags t)) as [h tf].
  cbn [t_response_headers set]. destruct (rs_hdr_find (t_response_headers t) (h_name h)) as [i|]; [|reflexivity].
  destruct (flag_has _ _ && _); [reflexivity|].
  destruct (flag_has (h_flags (nth i (t_response_headers t) h)) c_HTP_FIELD_REPEATED); reflexivity.
Qed.
Lemma sr_flush_keep_req hdr t : t_request_progress (sr_flush hdr t) = t_request_progress t.
Proof. destruct hdr; [apply sr_process_keep_req|reflexivity]. Qed.
Lemma sr_lstep_keep_req st l : t_request_progress (snd (sr_lstep st l)) = t_request_progress (snd st).
Proof.
  unfold sr_lstep. cbn [snd]. destruct (fst l); [apply sr_flush_keep_req|]. destruct (fst st) as [h|]; [|reflexivity].
  destruct (sr_k2 _ h (snd l)); [|reflexivity]. rewrite sr_process_keep_req. reflexivity.
Qed.
Lemma sr_lrun_keep : forall ls st, t_request_progress (sr_lrun ls st) = t_request_progress (snd st) /\
  t_response_progress (sr_lrun ls st) = t_response_progress (snd st).
Proof.
  induction ls as [|l ls IH]; intros st.
  - unfold sr_lrun. cbn [fold_left]. destruct (sr_flush_keep (fst st) (snd st)) as [_ B]. rewrite sr_flush_keep_req, B. split; reflexivity.
  - rewrite sr_lrun_cons. destruct (IH (sr_lstep st l)) as [A B]. destruct (sr_lstep_keep st l) as [_ C]. rewrite A, B, sr_lstep_keep_req, C. split; reflexivity.
Qed.
Lemma sr_th0_keep t line : t_request_progress (sr_th0 t line) = t_request_progress t /\ t_response_progress (sr_th0 t line) = c_HTP_RESPONSE_HEADERS.
Proof.
  split; [|reflexivity]. unfold sr_th0, sr_tx_line, sr_line_fix, rs_apply_response_line.
  repeat match goal with |- context [if ?b then _ else _] => destruct b end; reflexivity.
Qed.
Lemma sr_hdrs_tx_facts t n : sr_frame_ok t n = true -> t_response_progress t = c_HTP_RESPONSE_HEADERS ->
  t_res_cep (sr_hdrs_tx t) = c_HTP_COMPRESSION_NONE /\ (t_response_transfer_coding (sr_hdrs_tx t) =? c_HTP_CODING_NO_BODY)%Z = false /\
  (t_response_progress (sr_hdrs_tx t) =? c_HTP_RESPONSE_COMPLETE)%Z = false /\ t_request_progress (sr_hdrs_tx t) = t_request_progress t.
Proof.
  intros Hf Hp. unfold sr_frame_ok in Hf. apply andb_prop in Hf. destruct Hf as [_ Hcl].
  unfold sr_hdrs_tx, sr_det_tx. destruct (rs_hdr_get_c (t_response_headers t) rs_str_content_length) as [h|]; [|discriminate]. cbv zeta.
  destruct (rs_hdr_get_c (t_response_headers t) rs_str_content_type) as [hc|]; destruct (flag_has (h_flags h) c_HTP_FIELD_REPEATED);
    destruct (negb (parse_content_length (h_value h) =? 0)%Z); cbn; rewrite ?Hp; repeat split; reflexivity.
Qed.
Lemma sr_body_add'_facts k t :
  t_res_cep (sr_body_add' k t) = t_res_cep t /\ t_response_transfer_coding (sr_body_add' k t) = t_response_transfer_coding t /\
  t_response_progress (sr_body_add' k t) = t_response_progress t /\ t_request_progress (sr_body_add' k t) = t_request_progress t.
Proof. destruct k; repeat split; reflexivity. Qed.

(* ================= a response: status line, a block of wire lines, the empty line, n body bytes ================= *)
Lemma sr_skipn_skipn {B} a b (l : list B) : skipn a (skipn b l) = skipn (b + a) l.
Proof. revert l; induction b as [|b IH]; intros l; [reflexivity|]. destruct l; [destruct a; reflexivity|]. cbn. apply IH. Qed.
Definition sr_is_nil {A} (l : list A) : bool := match l with [] => true | _ => false end.
Lemma sr_is_nil_false {A} (l : list A) : l <> [] -> negb (sr_is_nil l) = true.
Proof. destruct l; [contradiction|reflexivity]. Qed.

Section Run.
Variable cb : cb_oracle.
Variable g : cfg.
Hypothesis Hcb : wr_all_ok cb.
Variables ps s r : bytes.
Variable ls : list sg_fl.
Variable body : bytes.
Variable t0 : tx.
Hypothesis Wl : sr_status_ok ps s r = true.
Hypothesis Okl : forallb sg_fl_ok ls = true.
Hypothesis Hnp0 : sg_needs_pending ls = false.
Hypothesis H09 : t_is_protocol_0_9 t0 = false.
Hypothesis Hreq : t_request_progress t0 = c_HTP_REQUEST_COMPLETE.
Let line0 := wr_ser_status_line ps s r.
Let th0 := sr_th0 t0 line0.
Let Tend := sr_lrun ls (None, th0).
Let n := length body.
Let TH := sr_hdrs_tx Tend.
Let has_hdr := negb (sr_is_nil ls).
Hypothesis Hframe : sr_frame_ok Tend n = true.
Hypothesis Hlim0 : (length line0 + 2 <= g_field_limit_hard g)%nat.
Hypothesis Hfit : sr_ffit (g_field_limit_hard g) (sr_p11 th0) None ls = true.

Definition sr_rfin (txs : list (option tx)) : Prop := txs = sr_final g (sr_after_hdr n Tend).
(* between two calls while the body is read: k bytes delivered so far *)
Definition sr_bext (c : connp) (rw : bytes) : Prop :=
  exists k, (k < n)%nat /\ sr_mid c [] None RES_BODY_IDENTITY_CL_KNOWN None (sr_body_add' k TH) /\
            c_out_body_data_left c = Z.of_nat (n - k) /\ rw = skipn k body.

Let bwt := sg_fwire ls ++ [CR; LF] ++ body.
Let hlog := sr_hlog g Tend body has_hdr.
Let okc := sr_f1_local body has_hdr.
Let post := sr_post ps s r t0 bwt hlog sr_rfin sr_bext.

Lemma sr_Tend_facts : t_response_progress Tend = c_HTP_RESPONSE_HEADERS /\ t_request_progress Tend = c_HTP_REQUEST_COMPLETE.
Proof.
  unfold Tend. destruct (sr_lrun_keep ls (None, th0)) as [A B]. cbn [snd] in A, B. destruct (sr_th0_keep t0 line0) as [C D]. fold th0 in C, D.
  rewrite A, B, C, D. split; [reflexivity|exact Hreq].
Qed.
Lemma sr_TH_facts k : t_res_cep (sr_body_add' k TH) = c_HTP_COMPRESSION_NONE /\ (t_response_transfer_coding (sr_body_add' k TH) =? c_HTP_CODING_NO_BODY)%Z = false /\
  (t_response_progress (sr_body_add' k TH) =? c_HTP_RESPONSE_COMPLETE)%Z = false /\ t_request_progress (sr_body_add' k TH) = c_HTP_REQUEST_COMPLETE.
Proof.
  destruct sr_Tend_facts as [P R]. destruct (sr_hdrs_tx_facts Tend n Hframe P) as (A & B & C & D). fold TH in A, B, C, D.
  destruct (sr_body_add'_facts k TH) as (A' & B' & C' & D'). rewrite A', B', C', D', D. repeat split; assumption.
Qed.

(* ---- the rest of a call once the response is complete but for RES_FINALIZE ---- *)
Lemma sr_finish_run c d t (rw' : bytes) f : sr_cin c d (length d) [] None RES_FINALIZE (Some RES_FINALIZE) None t ->
  t_res_cep t = c_HTP_COMPRESSION_NONE -> (t_response_transfer_coding t =? c_HTP_CODING_NO_BODY)%Z = false ->
  (t_response_progress t =? c_HTP_RESPONSE_COMPLETE)%Z = false -> t_request_progress t = c_HTP_REQUEST_COMPLETE ->
  sr_tcomplete t = sr_after_hdr n Tend -> rw' = [] ->
  exists cF rc, rs_res_loop cb g (2 + f) false c = (cF, rc) /\ post cF rw'.
Proof.
  intros H A B C D Et Erw.
  destruct (sr_pass_finalize cb g Hcb c d t H A B C D) as (c1 & E1 & Dn). change (2 + f)%nat with (S (S f)). rewrite (sr_loop_inr cb g _ _ _ E1).
  destruct (sr_pass_idle_end cb g c1 _ Dn) as (c2 & E2 & T2). rewrite (sr_loop_inl cb g _ _ _ E2).
  eexists _, _. split; [reflexivity|]. right. split; [exact Erw|]. unfold sr_rfin. rewrite T2, Et. reflexivity.
Qed.

(* ---- the rest of a call once the parser is in RES_BODY_IDENTITY_CL_KNOWN ---- *)
Lemma sr_body_run c d rd k (rw' : bytes) f :
  sr_cin c d rd [] None RES_BODY_IDENTITY_CL_KNOWN (Some RES_BODY_IDENTITY_CL_KNOWN) None (sr_body_add' k TH) ->
  (k < n)%nat -> c_out_body_data_left c = Z.of_nat (n - k) -> skipn rd d ++ rw' = skipn k body ->
  exists cF rc, rs_res_loop cb g (3 + f) false c = (cF, rc) /\ post cF rw'.
Proof.
  intros H Hk Hl Hw. pose proof (ri_rd _ _ _ _ _ _ _ _ _ H) as Hrd.
  assert (Lw : (length d - rd + length rw' = n - k)%nat).
  { assert (L : length (skipn rd d ++ rw') = length (skipn k body)) by (rewrite Hw; reflexivity). rewrite app_length, !skipn_length in L. fold n in L. exact L. }
  destruct (sr_TH_facts k) as (Fc & Fd & Fp & Fr).
  pose proof (sr_body_pass cb g Hcb c d rd _ (n - k) H Fc Hl ltac:(lia) ltac:(lia)) as P. cbv zeta in P.
  change (3 + f)%nat with (S (2 + f)).
  destruct (length d - rd)%nat as [|j'] eqn:Ej.
  - (* nothing of the body in this chunk *)
    rewrite (sr_loop_inl cb g _ _ _ P). eexists _, _. split; [reflexivity|].
    assert (Erw : rw' = skipn k body). { assert (Es : skipn rd d = []) by (apply length_zero_iff_nil; rewrite skipn_length; exact Ej). rewrite Es in Hw. exact Hw. }
    left. split; [rewrite Erw; intro E; apply (f_equal (@length N)) in E; rewrite skipn_length in E; cbn [length] in E; fold n in E; lia|].
    right. right. exists k. split; [exact Hk|]. split; [|split; [exact Hl|exact Erw]].
    assert (Erd : rd = length d) by lia. subst rd. apply (sr_exit_data cb g c d _ None _ _ H).
  - rewrite <- Ej in *. set (j := (length d - rd)%nat) in *.
    destruct (j <? n - k)%nat eqn:Elt.
    + apply Nat.ltb_lt in Elt. destruct P as (c1 & E1 & H1 & L1).
      rewrite (sr_loop_inl cb g _ _ _ E1). eexists _, _. split; [reflexivity|].
      rewrite (sr_body_add_fuse j k TH ltac:(lia)) in H1.
      assert (Erw : rw' = skipn (k + j) body).
      { assert (E : skipn j (skipn rd d ++ rw') = rw') by (rewrite skipn_app, skipn_all2 by (rewrite skipn_length; unfold j; lia); rewrite skipn_length; fold j; rewrite Nat.sub_diag; reflexivity).
        rewrite Hw, sr_skipn_skipn in E. rewrite <- E. reflexivity. }
      left. split; [rewrite Erw; intro E; apply (f_equal (@length N)) in E; rewrite skipn_length in E; cbn [length] in E; fold n in E; lia|].
      right. right. exists (k + j)%nat. split; [lia|]. split; [apply (sr_exit_data cb g c1 d _ None _ _ H1)|]. split; [|exact Erw].
      change (c_out_body_data_left (rs_set_out_status c_HTP_STREAM_DATA c1)) with (c_out_body_data_left c1). rewrite L1. f_equal. lia.
    + apply Nat.ltb_ge in Elt. destruct P as (c1 & E1 & H1).
      rewrite (sr_loop_inr cb g _ _ _ E1).
      assert (Ej2 : (k + j)%nat = n) by lia.
      rewrite (sr_body_add_fuse j k TH ltac:(lia)), Ej2 in H1.
      assert (Erw : rw' = []) by (apply length_zero_iff_nil; lia).
      destruct (sr_TH_facts n) as (Gc & Gd & Gp & Gr).
      apply (sr_finish_run c1 d _ rw' f H1); try assumption.
      unfold sr_after_hdr. fold TH. destruct n as [|n'] eqn:En; [lia|]. reflexivity.
Qed.

(* ---- after the empty line: RES_BODY_DETERMINE, then the body or RES_FINALIZE ---- *)
Lemma sr_tail c c1 d rd1 (rw' : bytes) f : c_out_state c = RES_HEADERS -> rs_state_fn cb g RES_HEADERS c = (ST_OK, c1) ->
  sr_cin c1 d rd1 [] None RES_BODY_DETERMINE (Some RES_HEADERS) (Some H_RESPONSE_HEADER_DATA) Tend -> skipn rd1 d ++ rw' = body ->
  exists cF rc, rs_res_loop cb g (5 + f) false c = (cF, rc) /\ post cF rw'.
Proof.
  intros Es Ef H1 Hw. rewrite <- Es in Ef.
  destruct (sr_iter_ok cb g c c1 d rd1 _ _ _ _ _ _ Ef H1) as (c2 & E2 & H2); [discriminate|].
  change (5 + f)%nat with (S (S (3 + f))). rewrite (sr_loop_inr cb g _ _ _ E2).
  destruct (sr_pass_determine cb g Hcb c2 d rd1 Tend n H2 Hframe) as (c3 & E3 & H3). rewrite (sr_loop_inr cb g _ _ _ E3).
  assert (Hc : (n = 0%nat /\ sr_cin c3 d rd1 [] None RES_FINALIZE (Some RES_FINALIZE) None TH) \/
               ((0 < n)%nat /\ sr_cin c3 d rd1 [] None RES_BODY_IDENTITY_CL_KNOWN (Some RES_BODY_IDENTITY_CL_KNOWN) None TH /\ c_out_body_data_left c3 = Z.of_nat n)).
  { clear - H3. destruct n as [|n']; [left; split; [reflexivity|exact H3]|right; split; [lia|exact H3]]. }
  clear H3. destruct Hc as [[En H3]|[Hpos [H3 L3]]].
  - (* no body *)
    assert (Eb : body = []) by (apply length_zero_iff_nil; exact En). rewrite Eb in Hw. apply app_eq_nil in Hw. destruct Hw as [Hs Erw].
    assert (Erd : rd1 = length d) by (pose proof (sg_skipn_nil _ _ Hs); pose proof (ri_rd _ _ _ _ _ _ _ _ _ H3); lia). subst rd1.
    destruct (sr_TH_facts 0) as (Fc & Fd & Fp & Fr). cbn [sr_body_add'] in Fc, Fd, Fp, Fr.
    change (3 + f)%nat with (2 + (1 + f))%nat. apply (sr_finish_run c3 d TH rw' _ H3 Fc Fd Fp Fr); [|exact Erw].
    unfold sr_after_hdr. rewrite En. reflexivity.
  - apply (sr_body_run c3 d rd1 0 rw' f H3); [lia|rewrite L3; f_equal; lia|exact Hw].
Qed.

(* ---- a call that is (or gets) in RES_HEADERS ---- *)
Lemma sr_hdrs_finish c d (rw' : bytes) f nn :
  c_out_state c = RES_HEADERS -> rs_state_fn cb g RES_HEADERS c = rs_headers_loop cb g nn false c ->
  ((exists c' p' hdr' t', rs_headers_loop cb g nn false c = (ST_DATA_BUFFER, c') /\
      sr_cin c' d (length d) p' hdr' RES_HEADERS (Some RES_HEADERS) (Some H_RESPONSE_HEADER_DATA) t' /\
      sr_hlog g Tend body has_hdr hdr' t' p' rw' /\ rw' <> []) \/
   (exists c' rd1, rs_headers_loop cb g nn false c = (ST_OK, c') /\
      sr_cin c' d rd1 [] None RES_BODY_DETERMINE (Some RES_HEADERS) (Some H_RESPONSE_HEADER_DATA) Tend /\ skipn rd1 d ++ rw' = body)) ->
  exists cF rc, rs_res_loop cb g (7 + f) false c = (cF, rc) /\ post cF rw'.
Proof.
  intros Es Ef [HA|HB].
  - destruct HA as (c' & p' & hdr' & t' & EA & HA1 & HA2 & HA3).
    assert (Lim : (length p' + length (sg_olist hdr') <= g_field_limit_hard g)%nat).
    { destruct HA2 as (pe & te & re & q' & ea & Hr' & _ & _ & _ & _ & Hne & Hea & _ & Fit & _). pose proof (sr_ffit_next _ _ _ _ Fit) as L.
      pose proof (sr_rel_len _ _ _ _ _ Hr'). destruct ea.
      - destruct (Hea eq_refl) as (Er & Ep & _). subst re p'. cbn [sg_fnext length] in L |- *. lia.
      - destruct (Hne eq_refl) as (Epq & _). rewrite <- Epq, app_length in L. lia. }
    destruct (sr_exit_buffer cb g Hcb c' d p' hdr' _ _ t' HA1 Lim) as (cF & EF & HF).
    exists cF, c_HTP_STREAM_DATA. split.
    + change (7 + f)%nat with (S (6 + f)). apply sr_loop_inl. unfold sr_iter. rewrite Es, Ef, EA, EF. reflexivity.
    + left. split; [exact HA3|]. right. left. exists p', hdr', t'. split; [exact HF|exact HA2].
  - destruct HB as (c' & rd1 & EB & HB1 & HB2). rewrite <- Ef in EB.
    change (7 + f)%nat with (5 + (2 + f))%nat. apply (sr_tail c c' d rd1 rw' _ Es EB HB1 HB2).
Qed.

Lemma sr_call_hdrs c d p hdr t (rw' : bytes) f : okc d rw' ->
  sr_cin c d 0 p hdr RES_HEADERS (Some RES_HEADERS) (Some H_RESPONSE_HEADER_DATA) t -> hlog hdr t p (d ++ rw') ->
  exists cF rc, rs_res_loop cb g (7 + f) false c = (cF, rc) /\ post cF rw'.
Proof.
  intros Hok H (pend & tl & rem & q & eaten & Hrel & Ok & Hnp & Hrun & Hprog & Hne & Hea & Hw & Hfit' & Hhh).
  assert (Es : c_out_state c = RES_HEADERS) by apply (ri_state _ _ _ _ _ _ _ _ _ H).
  assert (Ef : rs_state_fn cb g RES_HEADERS c = rs_headers_loop cb g (S (S (length d))) false c).
  { cbn [rs_state_fn]. unfold rs_RES_HEADERS, rs_bytes_fuel. rewrite (ri_len _ _ _ _ _ _ _ _ _ H), (ri_read _ _ _ _ _ _ _ _ _ H), Nat.sub_0_r. reflexivity. }
  apply (sr_hdrs_finish c d rw' f _ Es Ef).
  apply (sr_hdrs_loop cb g d rw' Tend body has_hdr Hok rem c 0 p q hdr t pend tl (S (S (length d))) false eaten H Hrel Ok Hnp Hrun Hprog Hne Hea Hw Hfit' Hhh);
    [discriminate|left; reflexivity|intros _; left; reflexivity|lia].
Qed.
Lemma sr_call_start c d rd (rw' : bytes) f : okc d rw' ->
  sr_cin c d rd [] None RES_HEADERS (Some RES_HEADERS) (Some H_RESPONSE_HEADER_DATA) th0 -> skipn rd d ++ rw' = bwt -> (0 < rd)%nat ->
  exists cF rc, rs_res_loop cb g (7 + f) false c = (cF, rc) /\ post cF rw'.
Proof.
  intros Hok H Hw Hrd.
  assert (Es : c_out_state c = RES_HEADERS) by apply (ri_state _ _ _ _ _ _ _ _ _ H).
  assert (Ef : rs_state_fn cb g RES_HEADERS c = rs_headers_loop cb g (S (S (length d - rd))) false c).
  { cbn [rs_state_fn]. unfold rs_RES_HEADERS, rs_bytes_fuel. rewrite (ri_len _ _ _ _ _ _ _ _ _ H), (ri_read _ _ _ _ _ _ _ _ _ H). reflexivity. }
  apply (sr_hdrs_finish c d rw' f _ Es Ef).
  apply (sr_hdrs_loop cb g d rw' Tend body has_hdr Hok ls c rd [] (sg_fnext ls) None th0 None th0 (S (S (length d - rd))) false false H).
  - left. split; reflexivity.
  - exact Okl.
  - rewrite Hnp0. discriminate.
  - reflexivity.
  - apply (sr_th0_keep t0 line0).
  - intros _. split; [reflexivity|apply sg_fnext_ne].
  - discriminate.
  - rewrite Hw. unfold bwt. apply sg_fwire_split.
  - exact Hfit.
  - apply sr_is_nil_false.
  - discriminate.
  - right. reflexivity.
  - discriminate.
  - lia.
Qed.

(* ---- a call that continues the body ---- *)
Lemma sr_bext_finish c rw : sr_bext c rw -> sr_bext (forget_chunks c <| c_events := [] |>) rw.
Proof. intros (k & Hk & Hm & Hl & Erw). exists k. split; [exact Hk|]. split; [apply sr_mid_finish; exact Hm|]. split; [exact Hl|exact Erw]. Qed.
Lemma sr_bext_step c (rw x rw' : bytes) : sr_bext c rw -> x <> [] -> rw = x ++ rw' -> okc x rw' ->
  exists c' rc, connp_res_data cb g (Some x) (length x) c = (c', rc) /\ post c' rw'.
Proof.
  intros (k & Hk & Hm & Hl & Erw) Hne Ex _.
  destruct (sr_enter_left cb g c [] None _ _ _ x Hm Hne) as (c1 & E1 & H1 & L1). unfold bytes in *. rewrite E1.
  destruct (sr_fuel_9 x) as (f & Ef). rewrite Ef. change (9 + f)%nat with (3 + (6 + f))%nat.
  apply (sr_body_run c1 x 0 k rw' _ H1 Hk); [rewrite L1; exact Hl|cbn [skipn]; rewrite <- Ex; exact Erw].
Qed.

(* ---- every chunking of the response, from the state the request left ---- *)
Lemma sr_run_all_chunks c0 (chunks : list bytes) : sr_ready t0 c0 ->
  Forall (fun x => x <> []) chunks -> concat chunks = line0 ++ [CR; LF] ++ bwt -> sr_oks okc chunks ->
  c_txs (fst (cp_run cb g c0 (map OpResData chunks))) = sr_final g (sr_after_hdr n Tend).
Proof.
  intros Hr Hall Hc Hoks.
  apply (sr_all_chunks cb g Hcb ps s r Wl Hlim0 t0 H09 bwt hlog sr_rfin sr_bext okc sr_bext_finish sr_bext_step sr_call_hdrs sr_call_start c0 chunks Hr Hall Hc Hoks).
Qed.
End Run.
