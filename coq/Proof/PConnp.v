(* Stream-API level theorems over cp_step / cp_run (every operation sequence, every callback oracle,
   every configuration), built on the per-call lemmas of PReq / PRes, and the statement that the model's
   own observations are accepted by the extracted checkers of Spec/SConnp.v (the oracles that are run on
   the implementation's output). *)
Require Import Htp.Model.MConnTypes Htp.Model.MTxCommon Htp.Model.MTxRes Htp.Model.MReq Htp.Model.MRes Htp.Model.MConnp
               Htp.Spec.SConnp Htp.Proof.PReq Htp.Proof.PRes.
Local Open Scope Z_scope.

Section P.
Variable cb : cb_oracle.
Variable g : cfg.

(* ---- what a caller observes from a model step, in the checker's vocabulary ---- *)
Definition op_kind (o : cp_op) : nat :=
  match o with
  | OpReqData _ => 0 | OpResData _ => 1 | OpReqGap _ => 2 | OpResGap _ => 3
  | OpReqClose => 4 | OpClose => 5 | _ => 6
  end%nat.
Definition op_len (o : cp_op) : nat :=
  match o with OpReqData d | OpResData d => length d | OpReqGap n | OpResGap n => n | _ => O end.
Definition obs_event (e : event) : oev :=
  mkoev (ev_hook e) (ev_tx e) (match ev_data e with Some d => Some (length d) | None => None end).
Definition obs_call (o : cp_op) (r : cp_result) : ocall :=
  mkocall (op_kind o) (op_len o) (r_rc r) (r_consumed r) (r_in_status r) (r_out_status r) (r_ntx r)
          (r_ibuf r) (r_ihdr r) (r_obuf r) (r_ohdr r) (map obs_event (r_events r)).
Definition obs_run (c : connp) (ops : list cp_op) : list ocall :=
  map (fun '(o, r) => obs_call o r) (combine ops (snd (cp_run cb g c ops))).

(* ---- the rc of a data call that is ERROR / STOP is also the new status of that direction ---- *)
Lemma rq_exit_status rc c : c_in_status (fst (rq_exit cb g rc c)) = snd (rq_exit cb g rc c).
Proof.
  unfold rq_exit.
  destruct rc; cbn;
    repeat match goal with
           | |- context [let '(_, _) := ?x in _] => destruct x
           | |- context [match ?x with _ => _ end] => destruct x
           end; reflexivity.
Qed.

Definition sticky_code (rc : Z) : Prop := rc = c_HTP_STREAM_ERROR \/ rc = c_HTP_STREAM_STOP.

Lemma rq_iter_sticky gap c r : rq_iter cb g gap c = inl r -> sticky_code (snd r) -> c_in_status (fst r) = snd r.
Proof.
  unfold rq_iter. intros H Hs.
  match type of H with (match ?d with _ => _ end) = _ => destruct d as [[rc c1]|] end.
  - destruct rc;
      try (match type of H with inl ?x = inl _ => replace r with x by congruence end; apply rq_exit_status).
    destruct (c_in_status c1 =? c_HTP_STREAM_TUNNEL) eqn:E.
    + inversion H; subst r. cbn in *. destruct Hs as [Hs|Hs]; vm_compute in Hs; discriminate.
    + destruct (req_handle_state_change cb c1) as [rc2 c2]. destruct rc2; try discriminate;
        match type of H with inl ?x = inl _ => replace r with x by congruence end; apply rq_exit_status.
  - inversion H; subst r. cbn in *. destruct Hs as [Hs|Hs]; vm_compute in Hs; discriminate.
Qed.

Lemma rq_loop_sticky fuel gap c :
  sticky_code (snd (rq_loop cb g fuel gap c)) -> c_in_status (fst (rq_loop cb g fuel gap c)) = snd (rq_loop cb g fuel gap c).
Proof.
  revert c. induction fuel as [|f IH]; intros c; cbn [rq_loop].
  - intros _. reflexivity.
  - destruct (rq_iter cb g gap c) as [r|c1] eqn:E.
    + apply (rq_iter_sticky gap c r E).
    + apply IH.
Qed.

Theorem req_data_sticky_status data len c :
  sticky_code (snd (connp_req_data cb g data len c)) ->
  c_in_status (fst (connp_req_data cb g data len c)) = snd (connp_req_data cb g data len c).
Proof.
  unfold connp_req_data.
  destruct (c_in_status c =? c_HTP_STREAM_STOP) eqn:E1; [intros _; apply Z.eqb_eq in E1; exact E1|].
  destruct (c_in_status c =? c_HTP_STREAM_ERROR) eqn:E2; [intros _; apply Z.eqb_eq in E2; exact E2|].
  match goal with |- context [if ?b then (_, c_HTP_STREAM_ERROR) else _] => destruct b end; [intros _; reflexivity|].
  match goal with |- context [if ?b then (c, c_HTP_STREAM_CLOSED) else _] => destruct b end;
    [cbn; intros [H|H]; vm_compute in H; discriminate|].
  cbv zeta.
  match goal with |- context [if ?b then (?x, c_HTP_STREAM_TUNNEL) else _] => destruct b end;
    [cbn; intros [H|H]; vm_compute in H; discriminate|].
  apply rq_loop_sticky.
Qed.

(* ---- response side twins ---- *)
Lemma rs_exit_status rc c : c_out_status (fst (rs_res_exit cb g rc c)) = snd (rs_res_exit cb g rc c).
Proof.
  unfold rs_res_exit, rs_set_out_status.
  destruct rc; cbn;
    repeat match goal with
           | |- context [let '(_, _) := ?x in _] => destruct x
           | |- context [match ?x with _ => _ end] => destruct x
           end; reflexivity.
Qed.

Lemma rs_loop_sticky fuel gap c :
  sticky_code (snd (rs_res_loop cb g fuel gap c)) ->
  c_out_status (fst (rs_res_loop cb g fuel gap c)) = snd (rs_res_loop cb g fuel gap c).
Proof.
  revert c. induction fuel as [|f IH]; intros c; cbn [rs_res_loop].
  - intros _. reflexivity.
  - match goal with |- context [if ?b then (c, c_HTP_STREAM_CLOSED) else _] => destruct b end;
      [cbn; intros [H|H]; vm_compute in H; discriminate|].
    match goal with |- context [let '(_, _) := ?x in _] => destruct x as [rc c1] end.
    destruct rc; try (intros _; apply rs_exit_status).
    destruct (c_out_status c1 =? c_HTP_STREAM_TUNNEL); [cbn; intros [H|H]; vm_compute in H; discriminate|].
    destruct (rs_handle_state_change cb c1) as [rc2 c2]. destruct rc2; try (intros _; apply rs_exit_status). apply IH.
Qed.

Theorem res_data_sticky_status data len c :
  sticky_code (snd (connp_res_data cb g data len c)) ->
  c_out_status (fst (connp_res_data cb g data len c)) = snd (connp_res_data cb g data len c).
Proof.
  unfold connp_res_data.
  destruct (c_out_status c =? c_HTP_STREAM_STOP) eqn:E1; [intros _; apply Z.eqb_eq in E1; exact E1|].
  destruct (c_out_status c =? c_HTP_STREAM_ERROR) eqn:E2; [intros _; apply Z.eqb_eq in E2; exact E2|].
  match goal with |- context [if ?b then (_, c_HTP_STREAM_ERROR) else _] => destruct b end; [intros _; reflexivity|].
  match goal with |- context [if ?b then (c, c_HTP_STREAM_CLOSED) else _] => destruct b end;
    [cbn; intros [H|H]; vm_compute in H; discriminate|].
  cbv zeta.
  match goal with |- context [if ?b then (?x, c_HTP_STREAM_TUNNEL) else _] => destruct b end;
    [cbn; intros [H|H]; vm_compute in H; discriminate|].
  apply rs_loop_sticky.
Qed.

(* ---- operations that are not data calls of the direction leave its status alone when it is ERROR / STOP ---- *)
Lemma tx_freed_loop_status fuel c r :
  c_in_status (fst (tx_freed_loop fuel c r)) = c_in_status c /\ c_out_status (fst (tx_freed_loop fuel c r)) = c_out_status c /\
  c_events (fst (tx_freed_loop fuel c r)) = c_events c.
Proof.
  revert c r. induction fuel as [|f IH]; intros c r; cbn [tx_freed_loop]; [auto|].
  destruct (c_txs c) as [|[t|] rest]; cbn [fst]; auto.
  destruct (IH (c <| c_txs := rest |> <| c_txs_shifted ::= S |> <| c_out_next_tx_index ::= Nat.pred |>) (S r)) as (H1 & H2 & H3).
  rewrite H1, H2, H3. auto.
Qed.

Lemma tx_destroy_incomplete_status c i :
  c_in_status (tx_destroy_incomplete c i) = c_in_status c /\ c_out_status (tx_destroy_incomplete c i) = c_out_status c /\
  c_events (tx_destroy_incomplete c i) = c_events c.
Proof.
  unfold tx_destroy_incomplete.
  repeat match goal with |- context [match ?x with _ => _ end] => destruct x end; cbn; auto.
Qed.

Lemma finish_call_status c rc n ev :
  c_in_status (fst (finish_call c rc n ev)) = c_in_status c /\ c_out_status (fst (finish_call c rc n ev)) = c_out_status c /\
  c_events (fst (finish_call c rc n ev)) = [].
Proof. unfold finish_call, forget_chunks. cbn. auto. Qed.

Definition agree_in (st : option Z) (c : connp) : Prop :=
  match st with Some s => c_in_status c = s /\ sticky_code s | None => True end.
Definition agree_out (st : option Z) (c : connp) : Prop :=
  match st with Some s => c_out_status c = s /\ sticky_code s | None => True end.

Lemma sticky_code_dec rc : {sticky_code rc} + {~ sticky_code rc}.
Proof.
  unfold sticky_code. destruct (Z.eq_dec rc c_HTP_STREAM_ERROR); [left; auto|].
  destruct (Z.eq_dec rc c_HTP_STREAM_STOP); [left; auto|right; tauto].
Qed.
Lemma sticky_code_b rc : ((rc =? c_HTP_STREAM_ERROR) || (rc =? c_HTP_STREAM_STOP)) = true <-> sticky_code rc.
Proof.
  unfold sticky_code. rewrite orb_true_iff, !Z.eqb_eq. tauto.
Qed.
Lemma sticky_not_new s : sticky_code s -> (s =? c_HTP_STREAM_NEW) = false.
Proof. intros [H|H]; subst; reflexivity. Qed.

Lemma finish_call_obs o c rc n ev rest st :
  chk_sticky_req st (obs_call o (snd (finish_call c rc n ev)) :: rest) =
  chk_sticky_req st (mkocall (op_kind o) (op_len o) rc n (c_in_status c) (c_out_status c) (length (c_txs c))
                             (olen (k_buf (c_in c))) (olen (k_header (c_in c))) (olen (k_buf (c_out c))) (olen (k_header (c_out c)))
                             (map obs_event (rev (c_events c))) :: rest).
Proof. reflexivity. Qed.

Ltac fin_status H := match goal with |- context [finish_call ?c ?rc ?n ?ev] =>
  destruct (finish_call_status c rc n ev) as (H & _ & _) end.

(* one step of the request-side stickiness checker against one model step *)
Lemma step_sticky_req c o st :
  c_events c = [] -> agree_in st c ->
  c_events (fst (cp_step cb g c o)) = [] /\
  exists st', agree_in st' (fst (cp_step cb g c o)) /\
    forall rest, chk_sticky_req st (obs_call o (snd (cp_step cb g c o)) :: rest) = chk_sticky_req st' rest.
Proof.
  intros He Ha.
  destruct o as [|d|d|n|n| | | |k]; cbn [cp_step].
  - (* open *)
    split; [apply finish_call_status|]. exists st. split.
    + destruct st as [s|]; [|exact I]. destruct Ha as [Hs Hc]. split; [|exact Hc].
      fin_status H1. rewrite H1.
      unfold connp_open. rewrite Hs, (sticky_not_new s Hc). cbn. exact Hs.
    + intros rest. rewrite finish_call_obs. cbn. destruct st; reflexivity.
  - (* request data *)
    destruct (connp_req_data cb g (Some d) (length d) c) as [c1 rc] eqn:E.
    split; [apply finish_call_status|].
    destruct st as [s|].
    + destruct Ha as [Hs Hc].
      assert (Hst : c_in_status c = c_HTP_STREAM_ERROR \/ c_in_status c = c_HTP_STREAM_STOP) by (rewrite Hs; exact Hc).
      rewrite (req_data_sticky cb g (Some d) (length d) c Hst) in E. inversion E; subst c1 rc.
      exists (Some s). split.
      * split; [|exact Hc]. fin_status H1. rewrite H1. exact Hs.
      * intros rest. rewrite finish_call_obs. cbn. rewrite He. cbn. rewrite Hs, Z.eqb_refl. reflexivity.
    + exists (if (rc =? c_HTP_STREAM_ERROR) || (rc =? c_HTP_STREAM_STOP) then Some rc else None). split.
      * destruct ((rc =? c_HTP_STREAM_ERROR) || (rc =? c_HTP_STREAM_STOP)) eqn:Eb; [|exact I].
        apply sticky_code_b in Eb. split; [|exact Eb].
        fin_status H1. rewrite H1.
        pose proof (req_data_sticky_status (Some d) (length d) c) as H. rewrite E in H. cbn in H. apply H. exact Eb.
      * intros rest. rewrite finish_call_obs. reflexivity.
  - (* response data: resets the request-side tracking *)
    destruct (connp_res_data cb g (Some d) (length d) c) as [c1 rc].
    split; [apply finish_call_status|]. exists None. split; [exact I|]. intros rest. rewrite finish_call_obs. cbn. destruct st; reflexivity.
  - (* request gap *)
    destruct (connp_req_data cb g None n c) as [c1 rc] eqn:E.
    split; [apply finish_call_status|].
    destruct st as [s|].
    + destruct Ha as [Hs Hc].
      assert (Hst : c_in_status c = c_HTP_STREAM_ERROR \/ c_in_status c = c_HTP_STREAM_STOP) by (rewrite Hs; exact Hc).
      rewrite (req_data_sticky cb g None n c Hst) in E. inversion E; subst c1 rc.
      exists (Some s). split.
      * split; [|exact Hc]. fin_status H1. rewrite H1. exact Hs.
      * intros rest. rewrite finish_call_obs. cbn. rewrite He. cbn. rewrite Hs, Z.eqb_refl. reflexivity.
    + exists (if (rc =? c_HTP_STREAM_ERROR) || (rc =? c_HTP_STREAM_STOP) then Some rc else None). split.
      * destruct ((rc =? c_HTP_STREAM_ERROR) || (rc =? c_HTP_STREAM_STOP)) eqn:Eb; [|exact I].
        apply sticky_code_b in Eb. split; [|exact Eb].
        fin_status H1. rewrite H1.
        pose proof (req_data_sticky_status None n c) as H. rewrite E in H. cbn in H. apply H. exact Eb.
      * intros rest. rewrite finish_call_obs. reflexivity.
  - (* response gap *)
    destruct (connp_res_data cb g None n c) as [c1 rc].
    split; [apply finish_call_status|]. exists None. split; [exact I|]. intros rest. rewrite finish_call_obs. cbn. destruct st; reflexivity.
  - (* req_close *)
    split; [apply finish_call_status|]. exists None. split; [exact I|]. intros rest. rewrite finish_call_obs. cbn. destruct st; reflexivity.
  - (* close *)
    split; [apply finish_call_status|]. exists None. split; [exact I|]. intros rest. rewrite finish_call_obs. cbn. destruct st; reflexivity.
  - (* tx_freed *)
    unfold connp_tx_freed. destruct (tx_freed_loop (length (c_txs c)) c 0) as [c1 r] eqn:E.
    split; [apply finish_call_status|]. exists st. split.
    + destruct st as [s|]; [|exact I]. destruct Ha as [Hs Hc]. split; [|exact Hc].
      fin_status H1. rewrite H1.
      pose proof (tx_freed_loop_status (length (c_txs c)) c 0) as (H2 & _). rewrite E in H2. cbn in H2. rewrite H2. exact Hs.
    + intros rest. rewrite finish_call_obs. cbn. destruct st; reflexivity.
  - (* destroy tx *)
    unfold api_destroy_tx.
    destruct (tx_slot c k) as [t|]; [destruct (tx_is_complete t)|];
      (split; [apply finish_call_status|]); exists st; (split; [|intros rest; rewrite finish_call_obs; cbn; destruct st; reflexivity]);
      (destruct st as [s|]; [|exact I]); destruct Ha as [Hs Hc]; (split; [|exact Hc]); fin_status H1; rewrite H1.
    + destruct (tx_destroy_incomplete_status c k) as (H2 & _). rewrite H2. exact Hs.
    + exact Hs.
    + exact Hs.
Qed.

(* every operation sequence, every callback behaviour, every configuration: the model's own observations pass
   the request-side stickiness oracle *)
Theorem model_sticky_req : forall ops c st, c_events c = [] -> agree_in st c ->
  chk_sticky_req st (obs_run c ops) = true.
Proof.
  induction ops as [|o ops IH]; intros c st He Ha; [reflexivity|].
  unfold obs_run. cbn [cp_run].
  pose proof (step_sticky_req c o st He Ha) as H.
  destruct (cp_step cb g c o) as [c1 r]. cbn [fst snd] in H.
  destruct (cp_run cb g c1 ops) as [c2 rs] eqn:E2.
  cbn [snd combine map]. destruct H as (He1 & st' & Ha1 & Hstep).
  rewrite Hstep. specialize (IH c1 st' He1 Ha1). unfold obs_run in IH. rewrite E2 in IH. exact IH.
Qed.

(* one step of the response-side stickiness checker against one model step *)
Lemma finish_call_obs_res o c rc n ev rest st :
  chk_sticky_res st (obs_call o (snd (finish_call c rc n ev)) :: rest) =
  chk_sticky_res st (mkocall (op_kind o) (op_len o) rc n (c_in_status c) (c_out_status c) (length (c_txs c))
                             (olen (k_buf (c_in c))) (olen (k_header (c_in c))) (olen (k_buf (c_out c))) (olen (k_header (c_out c)))
                             (map obs_event (rev (c_events c))) :: rest).
Proof. reflexivity. Qed.

Lemma or_comm_sticky c : c_out_status c = c_HTP_STREAM_ERROR \/ c_out_status c = c_HTP_STREAM_STOP ->
  c_out_status c = c_HTP_STREAM_STOP \/ c_out_status c = c_HTP_STREAM_ERROR.
Proof. tauto. Qed.

Ltac fin_status_out H := match goal with |- context [finish_call ?c ?rc ?n ?ev] =>
  destruct (finish_call_status c rc n ev) as (_ & H & _) end.

Lemma step_sticky_res c o st :
  c_events c = [] -> agree_out st c ->
  c_events (fst (cp_step cb g c o)) = [] /\
  exists st', agree_out st' (fst (cp_step cb g c o)) /\
    forall rest, chk_sticky_res st (obs_call o (snd (cp_step cb g c o)) :: rest) = chk_sticky_res st' rest.
Proof.
  intros He Ha.
  destruct o as [|d|d|n|n| | | |k]; cbn [cp_step].
  - (* open *)
    split; [apply finish_call_status|]. exists st. split.
    + destruct st as [s|]; [|exact I]. destruct Ha as [Hs Hc]. split; [|exact Hc].
      fin_status_out H1. rewrite H1.
      unfold connp_open. rewrite Hs, (sticky_not_new s Hc), orb_true_r. exact Hs.
    + intros rest. rewrite finish_call_obs_res. cbn. destruct st; reflexivity.
  - (* request data: resets the response-side tracking *)
    destruct (connp_req_data cb g (Some d) (length d) c) as [c1 rc].
    split; [apply finish_call_status|]. exists None. split; [exact I|]. intros rest. rewrite finish_call_obs_res. cbn. destruct st; reflexivity.
  - (* response data *)
    destruct (connp_res_data cb g (Some d) (length d) c) as [c1 rc] eqn:E.
    split; [apply finish_call_status|].
    destruct st as [s|].
    + destruct Ha as [Hs Hc].
      assert (Hst : c_out_status c = c_HTP_STREAM_ERROR \/ c_out_status c = c_HTP_STREAM_STOP) by (rewrite Hs; exact Hc).
      rewrite (res_data_sticky cb g (Some d) (length d) c (or_comm_sticky _ Hst)) in E. inversion E; subst c1 rc.
      exists (Some s). split.
      * split; [|exact Hc]. fin_status_out H1. rewrite H1. exact Hs.
      * intros rest. rewrite finish_call_obs_res. cbn. rewrite He. cbn. rewrite Hs, Z.eqb_refl. reflexivity.
    + exists (if (rc =? c_HTP_STREAM_ERROR) || (rc =? c_HTP_STREAM_STOP) then Some rc else None). split.
      * destruct ((rc =? c_HTP_STREAM_ERROR) || (rc =? c_HTP_STREAM_STOP)) eqn:Eb; [|exact I].
        apply sticky_code_b in Eb. split; [|exact Eb].
        fin_status_out H1. rewrite H1.
        pose proof (res_data_sticky_status (Some d) (length d) c) as H. rewrite E in H. cbn in H. apply H. exact Eb.
      * intros rest. rewrite finish_call_obs_res. reflexivity.
  - (* request gap *)
    destruct (connp_req_data cb g None n c) as [c1 rc].
    split; [apply finish_call_status|]. exists None. split; [exact I|]. intros rest. rewrite finish_call_obs_res. cbn. destruct st; reflexivity.
  - (* response gap *)
    destruct (connp_res_data cb g None n c) as [c1 rc] eqn:E.
    split; [apply finish_call_status|].
    destruct st as [s|].
    + destruct Ha as [Hs Hc].
      assert (Hst : c_out_status c = c_HTP_STREAM_ERROR \/ c_out_status c = c_HTP_STREAM_STOP) by (rewrite Hs; exact Hc).
      rewrite (res_data_sticky cb g None n c (or_comm_sticky _ Hst)) in E. inversion E; subst c1 rc.
      exists (Some s). split.
      * split; [|exact Hc]. fin_status_out H1. rewrite H1. exact Hs.
      * intros rest. rewrite finish_call_obs_res. cbn. rewrite He. cbn. rewrite Hs, Z.eqb_refl. reflexivity.
    + exists (if (rc =? c_HTP_STREAM_ERROR) || (rc =? c_HTP_STREAM_STOP) then Some rc else None). split.
      * destruct ((rc =? c_HTP_STREAM_ERROR) || (rc =? c_HTP_STREAM_STOP)) eqn:Eb; [|exact I].
        apply sticky_code_b in Eb. split; [|exact Eb].
        fin_status_out H1. rewrite H1.
        pose proof (res_data_sticky_status None n c) as H. rewrite E in H. cbn in H. apply H. exact Eb.
      * intros rest. rewrite finish_call_obs_res. reflexivity.
  - (* req_close *)
    split; [apply finish_call_status|]. exists None. split; [exact I|]. intros rest. rewrite finish_call_obs_res. cbn. destruct st; reflexivity.
  - (* close *)
    split; [apply finish_call_status|]. exists None. split; [exact I|]. intros rest. rewrite finish_call_obs_res. cbn. destruct st; reflexivity.
  - (* tx_freed *)
    unfold connp_tx_freed. destruct (tx_freed_loop (length (c_txs c)) c 0) as [c1 r] eqn:E.
    split; [apply finish_call_status|]. exists st. split.
    + destruct st as [s|]; [|exact I]. destruct Ha as [Hs Hc]. split; [|exact Hc].
      fin_status_out H1. rewrite H1.
      pose proof (tx_freed_loop_status (length (c_txs c)) c 0) as (_ & H2 & _). rewrite E in H2. cbn in H2. rewrite H2. exact Hs.
    + intros rest. rewrite finish_call_obs_res. cbn. destruct st; reflexivity.
  - (* destroy tx *)
    unfold api_destroy_tx.
    destruct (tx_slot c k) as [t|]; [destruct (tx_is_complete t)|];
      (split; [apply finish_call_status|]); exists st; (split; [|intros rest; rewrite finish_call_obs_res; cbn; destruct st; reflexivity]);
      (destruct st as [s|]; [|exact I]); destruct Ha as [Hs Hc]; (split; [|exact Hc]); fin_status_out H1; rewrite H1.
    + destruct (tx_destroy_incomplete_status c k) as (_ & H2 & _). rewrite H2. exact Hs.
    + exact Hs.
    + exact Hs.
Qed.

(* every operation sequence, every callback behaviour, every configuration: the model's own observations pass
   the response-side stickiness oracle *)
Theorem model_sticky_res : forall ops c st, c_events c = [] -> agree_out st c ->
  chk_sticky_res st (obs_run c ops) = true.
Proof.
  induction ops as [|o ops IH]; intros c st He Ha; [reflexivity|].
  unfold obs_run. cbn [cp_run].
  pose proof (step_sticky_res c o st He Ha) as H.
  destruct (cp_step cb g c o) as [c1 r]. cbn [fst snd] in H.
  destruct (cp_run cb g c1 ops) as [c2 rs] eqn:E2.
  cbn [snd combine map]. destruct H as (He1 & st' & Ha1 & Hstep).
  rewrite Hstep. specialize (IH c1 st' He1 Ha1). unfold obs_run in IH. rewrite E2 in IH. exact IH.
Qed.


(* ---- every data call of every history returns a documented code ---- *)
Definition call_documented (o : ocall) : bool := if is_data_call (oc_kind o) then rc_documented (oc_rc o) else true.

Lemma documented_b rc : rq_documented rc -> rc_documented rc = true.
Proof.
  unfold rq_documented, rc_documented. intros H.
  repeat rewrite orb_true_iff. rewrite !Z.eqb_eq. tauto.
Qed.
Lemma rs_documented_b rc : rs_documented rc -> rc_documented rc = true.
Proof.
  unfold rs_documented, rc_documented. intros H.
  repeat rewrite orb_true_iff. rewrite !Z.eqb_eq. tauto.
Qed.

Lemma step_documented c o : call_documented (obs_call o (snd (cp_step cb g c o))) = true.
Proof.
  destruct o as [|d|d|n|n| | | |k]; cbn [cp_step]; try reflexivity;
    try (unfold connp_tx_freed; destruct (tx_freed_loop _ _ _); reflexivity);
    try (unfold api_destroy_tx; destruct (tx_slot c k) as [t|]; [destruct (tx_is_complete t)|]; reflexivity).
  - destruct (connp_req_data cb g (Some d) (length d) c) as [c1 rc] eqn:E. unfold call_documented. cbn.
    apply documented_b. pose proof (req_data_rc_documented cb g (Some d) (length d) c) as H. rewrite E in H. exact H.
  - destruct (connp_res_data cb g (Some d) (length d) c) as [c1 rc] eqn:E. unfold call_documented. cbn.
    apply rs_documented_b. pose proof (res_data_rc_documented cb g (Some d) (length d) c) as H. rewrite E in H. exact H.
  - destruct (connp_req_data cb g None n c) as [c1 rc] eqn:E. unfold call_documented. cbn.
    apply documented_b. pose proof (req_data_rc_documented cb g None n c) as H. rewrite E in H. exact H.
  - destruct (connp_res_data cb g None n c) as [c1 rc] eqn:E. unfold call_documented. cbn.
    apply rs_documented_b. pose proof (res_data_rc_documented cb g None n c) as H. rewrite E in H. exact H.
Qed.

Theorem model_rc_documented : forall ops c, forallb call_documented (obs_run c ops) = true.
Proof.
  induction ops as [|o ops IH]; intros c; [reflexivity|].
  unfold obs_run. cbn [cp_run].
  pose proof (step_documented c o) as H.
  destruct (cp_step cb g c o) as [c1 r]. cbn [snd] in H.
  specialize (IH c1). unfold obs_run in IH.
  destruct (cp_run cb g c1 ops) as [c2 rs]. cbn [snd combine map forallb]. rewrite H. exact IH.
Qed.

(* ---- C10: the number of transactions a connection holds ---- *)
(* htp_connp_tx_create is the only function that appends to conn->transactions; it refuses when the list already
   holds more than max_tx entries *)
Lemma connp_tx_create_bound c :
  (0 < g_max_tx g)%nat -> (length (c_txs c) <= S (g_max_tx g))%nat ->
  (length (c_txs (snd (connp_tx_create g c))) <= S (g_max_tx g))%nat.
Proof.
  intros Hm Hl. unfold connp_tx_create.
  set (c1 := if (c_out_next_tx_index c <? length (c_txs c))%nat then _ else c).
  assert (Ht : c_txs c1 = c_txs c) by (subst c1; destruct (c_out_next_tx_index c <? length (c_txs c))%nat; reflexivity).
  destruct ((0 <? g_max_tx g) && (g_max_tx g <? length (c_txs c)))%nat eqn:E; cbn [snd].
  - rewrite Ht. exact Hl.
  - cbn. rewrite Ht, app_length. cbn [length].
    apply andb_false_iff in E. destruct E as [E|E].
    + apply Nat.ltb_ge in E. lia.
    + apply Nat.ltb_ge in E. lia.
Qed.
Lemma connp_tx_create_grows_by_one c :
  length (c_txs (snd (connp_tx_create g c))) = length (c_txs c) \/
  length (c_txs (snd (connp_tx_create g c))) = S (length (c_txs c)).
Proof.
  unfold connp_tx_create.
  set (c1 := if (c_out_next_tx_index c <? length (c_txs c))%nat then _ else c).
  assert (Ht : c_txs c1 = c_txs c) by (subst c1; destruct (c_out_next_tx_index c <? length (c_txs c))%nat; reflexivity).
  destruct ((0 <? g_max_tx g) && (g_max_tx g <? length (c_txs c)))%nat; cbn [snd].
  - left. rewrite Ht. reflexivity.
  - right. cbn. rewrite Ht, app_length. cbn. lia.
Qed.

(* htp_connp_tx_freed removes every leading NULL slot: afterwards the list is empty or starts with a live transaction,
   so with automatic disposal and tx_freed after each completion the list does not grow with the number of transactions *)
Lemma tx_freed_loop_head fuel c r : (length (c_txs c) <= fuel)%nat ->
  match c_txs (fst (tx_freed_loop fuel c r)) with None :: _ => False | _ => True end.
Proof.
  revert c r. induction fuel as [|f IH]; intros c r Hl; cbn [tx_freed_loop].
  - cbn [fst]. destruct (c_txs c); [exact I|cbn in Hl; lia].
  - destruct (c_txs c) as [|[t|] rest] eqn:E; cbn [fst]; try (rewrite E; exact I).
    apply IH. cbn in *. lia.
Qed.
Theorem tx_freed_no_leading_null c :
  match c_txs (fst (connp_tx_freed c)) with None :: _ => False | _ => True end.
Proof. unfold connp_tx_freed. apply tx_freed_loop_head. lia. Qed.

(* ---- C16: CONNECT / tunnel ---- *)
(* what a data call may change when it is turned away after the chunk was registered: cursor and counters only *)
Definition same_but_cursor_in (c c' : connp) : Prop :=
  c_events c' = c_events c /\ c_txs c' = c_txs c /\ c_in_status c' = c_in_status c /\ c_out_status c' = c_out_status c /\
  c_in_state c' = c_in_state c /\ c_out_state c' = c_out_state c /\ c_in_tx c' = c_in_tx c /\ c_out_tx c' = c_out_tx c /\
  k_buf (c_in c') = k_buf (c_in c) /\ k_header (c_in c') = k_header (c_in c) /\ c_out c' = c_out c.

Definition req_guards_pass (c : connp) (len : nat) : Prop :=
  c_in_status c <> c_HTP_STREAM_STOP /\ c_in_status c <> c_HTP_STREAM_ERROR /\
  (c_in_tx c <> None \/ c_in_state c = REQ_IDLE) /\ (0 < len)%nat.

Lemma req_guards_reduce len c (X : connp * Z) :
  req_guards_pass c len ->
  (if c_in_status c =? c_HTP_STREAM_STOP then (c, c_HTP_STREAM_STOP)
   else if c_in_status c =? c_HTP_STREAM_ERROR then (c, c_HTP_STREAM_ERROR)
   else if match c_in_tx c with None => negb (req_state_eqb (c_in_state c) REQ_IDLE) && negb (c_in_status c =? c_HTP_STREAM_TUNNEL) | Some _ => false end
   then (c <| c_in_status := c_HTP_STREAM_ERROR |>, c_HTP_STREAM_ERROR)
   else if (len =? 0)%nat && negb (c_in_status c =? c_HTP_STREAM_CLOSED) then (c, c_HTP_STREAM_CLOSED)
   else X) = X.
Proof.
  intros (H1 & H2 & H3 & H4).
  apply Z.eqb_neq in H1. apply Z.eqb_neq in H2. rewrite H1, H2.
  assert (E3 : match c_in_tx c with None => negb (req_state_eqb (c_in_state c) REQ_IDLE) && negb (c_in_status c =? c_HTP_STREAM_TUNNEL) | Some _ => false end = false).
  { destruct (c_in_tx c); [reflexivity|]. destruct H3 as [H3|H3]; [congruence|]. rewrite H3. reflexivity. }
  rewrite E3. assert (E4 : (len =? 0)%nat = false) by (apply Nat.eqb_neq; lia). rewrite E4. reflexivity.
Qed.

(* once the request direction is in TUNNEL a data call returns TUNNEL: no callback, no transaction, no state change *)
(* since the fix of the listed finding http09-then-tunnel-error (the entry guard of htp_connp_req_data lets tunnel mode through) this holds
   whatever in_tx / in_state are: the premise "c_in_tx c <> None \/ c_in_state c = REQ_IDLE" is gone *)
Theorem tunnel_absorbing_req data len c :
  c_in_status c = c_HTP_STREAM_TUNNEL -> (0 < len)%nat ->
  snd (connp_req_data cb g data len c) = c_HTP_STREAM_TUNNEL /\ same_but_cursor_in c (fst (connp_req_data cb g data len c)).
Proof.
  intros Ht Hl. unfold connp_req_data.
  assert (E1 : (c_in_status c =? c_HTP_STREAM_STOP) = false) by (rewrite Ht; reflexivity).
  assert (E2 : (c_in_status c =? c_HTP_STREAM_ERROR) = false) by (rewrite Ht; reflexivity).
  assert (E3 : match c_in_tx c with None => negb (req_state_eqb (c_in_state c) REQ_IDLE) && negb (c_in_status c =? c_HTP_STREAM_TUNNEL) | Some _ => false end = false).
  { rewrite Ht. change (c_HTP_STREAM_TUNNEL =? c_HTP_STREAM_TUNNEL) with true. destruct (c_in_tx c); [reflexivity|apply andb_false_r]. }
  assert (E4 : (len =? 0)%nat = false) by (apply Nat.eqb_neq; lia).
  rewrite E1, E2, E3, E4. cbn [andb].
  cbv zeta. cbn. rewrite Ht. cbn. unfold same_but_cursor_in. cbn. repeat split; reflexivity.
Qed.

(* after a CONNECT request the request direction consumes nothing until the response line has been seen:
   the call returns DATA_OTHER with a consumed count of 0, runs no callback and changes no transaction *)
Theorem connect_suspends i d c :
  c_in_state c = REQ_CONNECT_WAIT_RESPONSE -> c_in_tx c = Some i ->
  t_response_progress (tx_get c i) <= c_HTP_RESPONSE_LINE ->
  c_in_status c <> c_HTP_STREAM_STOP -> c_in_status c <> c_HTP_STREAM_ERROR -> c_in_status c <> c_HTP_STREAM_TUNNEL ->
  d <> [] ->
  let r := connp_req_data cb g (Some d) (length d) c in
  snd r = c_HTP_STREAM_DATA_OTHER /\ k_read (c_in (fst r)) = 0%nat /\ c_events (fst r) = c_events c /\ c_txs (fst r) = c_txs c /\
  c_in_state (fst r) = REQ_CONNECT_WAIT_RESPONSE.
Proof.
  intros Hs Hi Hp H1 H2 H3 Hd r. subst r.
  assert (Hl : (0 < length d)%nat) by (destruct d; [congruence|cbn; lia]).
  unfold connp_req_data.
  rewrite req_guards_reduce by (unfold req_guards_pass; repeat split; try assumption; left; congruence).
  cbv zeta.
  set (c1 := rq_set_in _ c). set (c2 := c1 <| c_in_chunk_count ::= S |> <| c_in_data_counter ::= Z.add (Z.of_nat (length d)) |>).
  assert (E : (c_in_status c2 =? c_HTP_STREAM_TUNNEL) = false) by (apply Z.eqb_neq; exact H3). rewrite E.
  set (c3 := if c_out_status c2 =? c_HTP_STREAM_DATA_OTHER then c2 <| c_out_status := c_HTP_STREAM_DATA |> else c2).
  assert (F3 : c_in_state c3 = REQ_CONNECT_WAIT_RESPONSE /\ c_in_tx c3 = Some i /\ c_txs c3 = c_txs c /\ c_txs_shifted c3 = c_txs_shifted c /\
               c_events c3 = c_events c /\ k_read (c_in c3) = 0%nat /\ k_len (c_in c3) = length d).
  { subst c3. destruct (c_out_status c2 =? c_HTP_STREAM_DATA_OTHER); cbn; repeat split; assumption. }
  destruct F3 as (S3 & I3 & T3 & Sh3 & E3 & R3 & L3).
  destruct (rq_fuel (length d)) as [|f] eqn:Ef; [unfold rq_fuel in Ef; lia|].
  cbn [rq_loop]. unfold rq_iter. rewrite S3. cbn [rq_state_fn].
  unfold REQ_CONNECT_WAIT_RESPONSE_fn, rq_tx, in_txi. rewrite I3.
  assert (Tg : tx_get c3 i = tx_get c i) by (unfold tx_get, tx_slot; rewrite T3, Sh3; reflexivity).
  rewrite Tg. apply Z.leb_le in Hp. rewrite Hp.
  unfold rq_exit, rq_at_end. rewrite R3, L3.
  assert (El : (length d <=? 0)%nat = false) by (apply Nat.leb_gt; lia). rewrite El. cbn. repeat split; assumption.
Qed.

(* when the answer to CONNECT has been seen: a 2xx answer moves on to probing the tunnel payload, anything else resumes
   normal parsing at REQ_FINALIZE; in both cases the state function itself consumes nothing *)
Theorem connect_wait_decides c :
  c_HTP_RESPONSE_LINE < t_response_progress (rq_tx c) ->
  REQ_CONNECT_WAIT_RESPONSE_fn c =
    (ST_OK, c <| c_in_state := if (200 <=? t_response_status_number (rq_tx c)) && (t_response_status_number (rq_tx c) <=? 299)
                               then REQ_CONNECT_PROBE_DATA else REQ_FINALIZE |>).
Proof.
  intros H. unfold REQ_CONNECT_WAIT_RESPONSE_fn.
  assert (E : (t_response_progress (rq_tx c) <=? c_HTP_RESPONSE_LINE) = false) by (apply Z.leb_gt; exact H).
  rewrite E. destruct ((200 <=? _) && (_ <=? 299)); reflexivity.
Qed.

Definition same_but_cursor_out (c c' : connp) : Prop :=
  c_events c' = c_events c /\ c_txs c' = c_txs c /\ c_in_status c' = c_in_status c /\ c_out_status c' = c_out_status c /\
  c_in_state c' = c_in_state c /\ c_out_state c' = c_out_state c /\ c_in_tx c' = c_in_tx c /\ c_out_tx c' = c_out_tx c /\
  k_buf (c_out c') = k_buf (c_out c) /\ k_header (c_out c') = k_header (c_out c) /\ c_in c' = c_in c.

Theorem tunnel_absorbing_res data len c :
  c_out_status c = c_HTP_STREAM_TUNNEL -> (c_out_tx c <> None \/ c_out_state c = RES_IDLE) -> (0 < len)%nat ->
  snd (connp_res_data cb g data len c) = c_HTP_STREAM_TUNNEL /\ same_but_cursor_out c (fst (connp_res_data cb g data len c)).
Proof.
  intros Ht Hg Hl. unfold connp_res_data. rewrite Ht.
  change (c_HTP_STREAM_TUNNEL =? c_HTP_STREAM_STOP) with false. change (c_HTP_STREAM_TUNNEL =? c_HTP_STREAM_ERROR) with false. cbv iota.
  assert (E3 : match c_out_tx c with None => negb (res_state_eqb (c_out_state c) RES_IDLE) | Some _ => false end = false).
  { destruct (c_out_tx c); [reflexivity|]. destruct Hg as [Hg|Hg]; [congruence|]. rewrite Hg. reflexivity. }
  rewrite E3. assert (E4 : (len =? 0)%nat = false) by (apply Nat.eqb_neq; lia). rewrite E4. cbn [andb]. cbv iota zeta.
  unfold rs_set_out. cbn. rewrite Ht. cbn. unfold same_but_cursor_out. cbn. repeat split; reflexivity.
Qed.

(* ---- C04: pairing and the pipelining indicator ---- *)
(* a response is attached to the transaction at position out_next_tx_index (the oldest request not yet answered), and the
   position moves on by exactly one; the request fields of that transaction are not touched by the attachment *)
Lemma res_idle_pairs c t :
  rs_has_byte c = true -> nth_error (c_txs c) (c_out_next_tx_index c) = Some (Some t) ->
  exists c1, rs_RES_IDLE cb g c = tx_state_response_start cb (c_txs_shifted c + c_out_next_tx_index c) c1 /\
             c_out_tx c1 = Some (c_txs_shifted c + c_out_next_tx_index c)%nat /\
             c_out_next_tx_index c1 = S (c_out_next_tx_index c) /\ c_txs c1 = c_txs c /\ c_txs_shifted c1 = c_txs_shifted c.
Proof.
  intros Hb Hn. unfold rs_RES_IDLE. rewrite Hb, Hn. cbn [negb].
  eexists. split; [unfold out_txi; cbn; reflexivity|]. cbn. repeat split; reflexivity.
Qed.

(* the pipelining indicator is raised by the one function that creates transactions, exactly when a transaction is
   created while an earlier one has not had its response started (list longer than out_next_tx_index) *)
Lemma tx_create_pipelined c :
  c_conn_flags (snd (connp_tx_create g c)) =
    if (c_out_next_tx_index c <? length (c_txs c))%nat then flag_set (c_conn_flags c) c_HTP_CONN_PIPELINED else c_conn_flags c.
Proof.
  unfold connp_tx_create.
  destruct (c_out_next_tx_index c <? length (c_txs c))%nat;
    destruct ((0 <? g_max_tx g) && (g_max_tx g <? _))%nat; reflexivity.
Qed.

End P.
