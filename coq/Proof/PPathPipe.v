(* C12 -- the whole path pipeline of htp_normalize_parsed_uri against the declarative stages. *)
Require Import Htp.Model.Base Htp.Model.MPath Htp.Spec.SPath.
Require Import Htp.Proof.PPathDot Htp.Proof.PPathFlags Htp.Proof.PPathRfc Htp.Proof.PPathUtf8.
Local Open Scope N_scope.

(* ---- bytes stay bytes through the decoder ---- *)
Lemma x2c_byte a b : pth_x2c a b < 256.
Proof.
  unfold pth_x2c. pose proof (Z.mod_pos_bound (pth_hexv a * 16 + pth_hexv b) 256 eq_refl) as H.
  apply N2Z.inj_lt. rewrite Z2N.id by lia. change (Z.of_N 256) with 256%Z. lia.
Qed.

Lemma bestfit_table_bytes : forallb (fun x => x <? 256) t_bestfit_1252 = true.
Proof. vm_compute. reflexivity. Qed.

Lemma bestfit_u_byte m c1 c2 d : forallb (fun x => x <? 256) m = true -> d < 256 -> pth_bestfit_u m c1 c2 d < 256.
Proof.
  revert m. fix IH 1. intros m Hm Hd. destruct m as [|p0 [|p1 [|p2 m']]]; cbn [pth_bestfit_u]; try exact Hd.
  cbn [forallb] in Hm. apply andb_true_iff in Hm as [_ Hm]. apply andb_true_iff in Hm as [_ Hm].
  apply andb_true_iff in Hm as [H2 Hm]. destruct ((p0 =? c1) && (p1 =? c2)).
  - apply N.ltb_lt. exact H2.
  - apply IH; assumption.
Qed.

Lemma tolower_byte b : b < 256 -> c_tolower b < 256.
Proof.
  intros Hb. unfold c_tolower. rewrite (proj2 (N.ltb_lt b 256) Hb).
  assert (H : forallb (fun b => tget t_tolower b <? 256) all_bytes = true) by (vm_compute; reflexivity).
  apply N.ltb_lt. exact (byte_sweep _ H b Hb).
Qed.

Definition tok_byte (t : pth_tok) : Prop :=
  match t with
  | PT_lit b | PT_pct b | PT_badx b => b < 256
  | PT_pctu hi lo | PT_badu hi lo => hi < 256 /\ lo < 256
  | _ => True
  end.

Lemma lex1_byte c rest : all_byte rest = true -> tok_byte (fst (fst (pth_lex1 c rest))).
Proof.
  intros Hall. unfold pth_lex1. destruct rest as [|x r]; [exact I|].
  cbn [all_byte forallb] in Hall. apply andb_true_iff in Hall as [Hx _]. apply N.ltb_lt in Hx.
  destruct (x =? pth_PCT).
  - destruct r as [|a1 [|a2 r2]]; try exact I.
    destruct (pth_is_u c a1).
    + destruct r2 as [|a3 [|a4 [|a5 r5]]]; try exact I.
      destruct (c_isxdigit a2 && c_isxdigit a3 && c_isxdigit a4 && c_isxdigit a5); [cbn; split; apply x2c_byte|].
      destruct (pth_handling c); cbn; auto using x2c_byte.
    + destruct (c_isxdigit a1 && c_isxdigit a2).
      * cbv zeta. destruct ((pth_x2c a1 a2 =? 0) && d_nul_enc_term c); [cbn; apply x2c_byte|].
        destruct (pth_issep c (pth_x2c a1 a2) && negb (d_sep_decode c)); cbn; apply x2c_byte.
      * destruct (pth_handling c); cbn; auto using x2c_byte.
  - destruct (x =? 0); cbn; auto.
Qed.

Lemma all_byte_tl x r : all_byte (x :: r) = true -> all_byte r = true.
Proof. cbn. intros H. apply andb_true_iff in H as [_ H]. exact H. Qed.

Lemma lex_loop_byte c : forall rest skip, all_byte rest = true -> Forall tok_byte (pth_lex_loop c skip rest).
Proof.
  induction rest as [|x r IH]; intros skip Hall; cbn [pth_lex_loop]; [constructor|].
  pose proof (all_byte_tl _ _ Hall) as Hr.
  destruct skip as [|k]; [|apply IH; exact Hr].
  pose proof (lex1_byte c (x :: r) Hall) as H1.
  destruct (pth_lex1 c (x :: r)) as [[t span] stop]. cbn [fst] in H1.
  destruct stop; constructor; auto.
Qed.

Lemma squeeze_byte : forall l prev, all_byte l = true -> all_byte (pth_squeeze prev l) = true.
Proof.
  induction l as [|x l IH]; intros prev H; cbn [pth_squeeze]; [reflexivity|].
  cbn [all_byte forallb] in H. apply andb_true_iff in H as [Hx Hl].
  destruct (x =? pth_SL); [destruct prev|]; cbn [all_byte forallb]; rewrite ?Hx; cbn [andb]; apply IH; exact Hl.
Qed.

Theorem decode_spec_byte c s : all_byte s = true -> d_replacement c < 256 -> all_byte (pth_decode_spec c s) = true.
Proof.
  intros Hall Hd. unfold pth_decode_spec, pth_compress.
  assert (H : all_byte (map (pth_post_byte c) (flat_map (fun t => pth_opt_list (pth_interp c t)) (pth_lex c s))) = true).
  { pose proof (lex_loop_byte c s 0%nat Hall) as HF. fold (pth_lex c s) in HF.
    induction HF as [|t l Ht _ IH]; [reflexivity|].
    cbn [flat_map]. rewrite map_app. unfold all_byte in *. rewrite forallb_app, IH, andb_true_r.
    assert (Hi : forall b, pth_interp c t = Some b -> b < 256).
    { intros b Hb. destruct t; cbn [pth_interp tok_byte] in *.
      - inversion Hb; subst; exact Ht.
      - destruct (d_nul_raw_term c); inversion Hb; subst; reflexivity.
      - destruct ((b0 =? 0) && d_nul_enc_term c); [discriminate|].
        destruct (pth_issep c b0 && negb (d_sep_decode c)); inversion Hb; subst; [reflexivity|exact Ht].
      - inversion Hb; subst. unfold pth_u_value. destruct (hi =? 0); [apply Ht|].
        apply bestfit_u_byte; [exact bestfit_table_bytes|exact Hd].
      - destruct (pth_handling c); inversion Hb; subst; reflexivity.
      - inversion Hb; subst; exact Ht.
      - inversion Hb; subst. unfold pth_u_value. destruct (hi =? 0); [apply Ht|].
        apply bestfit_u_byte; [exact bestfit_table_bytes|exact Hd]. }
    destruct (pth_interp c t) as [b|]; [|reflexivity]. cbn [pth_opt_list map forallb]. rewrite andb_true_r.
    specialize (Hi b eq_refl). unfold is_byte. apply N.ltb_lt. unfold pth_post_byte.
    assert (Hb' : (if (b =? pth_BSL) && d_backslash c then pth_SL else b) < 256).
    { destruct ((b =? pth_BSL) && d_backslash c); [reflexivity|exact Hi]. }
    destruct (d_lowercase c); [apply tolower_byte; exact Hb'|exact Hb']. }
  destruct (d_sep_compress c); [apply squeeze_byte; exact H|exact H].
Qed.

(* ---- no decoder token raises a UTF-8 indicator ---- *)
Lemma tok_no_utf8_invalid c t : pth_has c_HTP_PATH_UTF8_INVALID (pth_tok_flags c t, 0%Z) = false.
Proof.
  destruct t; cbn [pth_tok_flags]; unfold pth_u_flags, pth_fl;
    repeat match goal with |- context [if ?b then _ else _] => destruct b end; vm_compute; reflexivity.
Qed.

Lemma decode_no_utf8_invalid c s : pth_has c_HTP_PATH_UTF8_INVALID (snd (pth_decode_path c s)) = false.
Proof.
  pose proof (pth_decode_path_flags c s) as H. destruct (snd (pth_decode_path c s)) as [fl z]. cbn [fst] in H. subst fl.
  change (pth_has c_HTP_PATH_UTF8_INVALID (pth_lor_all (map (pth_tok_flags c) (pth_lex c s)), z))
    with (pth_has c_HTP_PATH_UTF8_INVALID (pth_lor_all (map (pth_tok_flags c) (pth_lex c s)), 0%Z)).
  rewrite has_lor_all. induction (pth_lex c s) as [|t l IH]; cbn [map existsb]; [reflexivity|].
  rewrite tok_no_utf8_invalid, IH. reflexivity.
Qed.

(* ---- the documented pipeline ---- *)

Theorem pth_pipeline_spec c s : pth_wf c s = true ->
  let p1 := pth_decode_spec c s in
  let '(p2, f2) := pth_spec_stage2 c p1 in
  rds p2 [] (pth_pipeline c s) /\
  fst (snd (pth_pipeline_st c s)) = N.lor (pth_decoder_flags_spec c s) f2.
Proof.
  intros Hwf. apply andb_true_iff in Hwf as [Hall Hd]. apply N.ltb_lt in Hd. cbv zeta.
  unfold pth_pipeline, pth_pipeline_st, pth_spec_stage2, pth_decoder_flags_spec.
  pose proof (pth_decode_path_spec c s) as H1. pose proof (pth_decode_path_flags c s) as H2.
  pose proof (decode_no_utf8_invalid c s) as H3. pose proof (decode_spec_byte c s Hall Hd) as H4.
  destruct (pth_decode_path c s) as [p1 st1]. cbn [fst snd] in *. subst p1.
  destruct (d_bestfit c).
  - destruct (utf8_decode_spec c (pth_decode_spec c s) st1 H4 H3) as [U1 U2].
    destruct (utf8_decode_path c (pth_decode_spec c s) st1) as [p2 st2]. cbn [fst snd] in *.
    destruct (utf8_spec_decode c (pth_decode_spec c s)) as [q2 f2]. cbn [fst snd] in *. subst p2.
    split; [apply dot_normalize_rfc|]. rewrite U2, H2. reflexivity.
  - cbn [fst snd]. split; [apply dot_normalize_rfc|].
    rewrite (utf8_validate_spec _ st1 H4 H3), H2. reflexivity.
Qed.
