(* C06, history level: the REQUEST-direction frame lemmas of PDeliv.v once more, for the RESPONSE hooks (RESPONSE_BODY_DATA,
   RESPONSE_COMPLETE): a pass of the for(;;) of htp_connp_req_data appends no such event -- here in every state a request
   without body goes through, REQ_FINALIZE included.  Used to state the response-direction delivery theorems on the log of the
   WHOLE run (the request call contributes nothing to it).  The first part is PDeliv.v's frame section with dv_rs_hook in place
   of dv_rq_hook (names with the prefix dw). *)
Require Import Htp.Model.Base Htp.Model.MBstr Htp.Model.MConnTypes Htp.Model.MTxCommon Htp.Model.MReqLine Htp.Model.MReqUri Htp.Model.MTxReq.
Require Import Htp.Model.MReq Htp.Model.MRes Htp.Model.MConnp.
Require Import Htp.Spec.SBody Htp.Proof.PBody Htp.Proof.PWireExch Htp.Proof.PWireGlue Htp.Proof.PDeliv Htp.Proof.PDelivRes.

(* ================= the frame relation, request direction ================= *)
(* their events in the current call, newest first *)
Definition dw_rb (c : connp) : list event := dv_selp dv_rs_hook (c_events c).
(* the raw-data receiver is not one of them (it is REQUEST_HEADER_DATA, REQUEST_TRAILER_DATA or none) *)
Definition dw_rok (c : connp) : Prop := forall h, k_receiver_hook (c_in c) = Some h -> dv_rs_hook h = false.
(* c' : no body event appended, receiver still not the body-data hook *)
Definition dw_fr (c c' : connp) : Prop := dw_rok c -> dw_rb c' = dw_rb c /\ dw_rok c'.
(* c' : no event at all, receiver hook unchanged *)
Definition dw_same (c c' : connp) : Prop := c_events c' = c_events c /\ k_receiver_hook (c_in c') = k_receiver_hook (c_in c).

Lemma dw_fr_refl c : dw_fr c c. Proof. intros H. split; [reflexivity|exact H]. Qed.
Lemma dw_fr_trans a b c : dw_fr a b -> dw_fr b c -> dw_fr a c.
Proof. intros H1 H2 Ha. destruct (H1 Ha) as [E1 Hb]. destruct (H2 Hb) as [E2 Hc]. split; [rewrite E2; exact E1|exact Hc]. Qed.
Lemma dw_same_refl c : dw_same c c. Proof. split; reflexivity. Qed.
Lemma dw_same_trans a b c : dw_same a b -> dw_same b c -> dw_same a c.
Proof. intros [A1 A2] [B1 B2]. split; [rewrite B1; exact A1|rewrite B2; exact A2]. Qed.
Lemma dw_same_fr c c' : dw_same c c' -> dw_fr c c'.
Proof. intros [E1 E2] H. unfold dw_rb, dw_rok in *. rewrite E1, E2. split; [reflexivity|exact H]. Qed.
Lemma dw_fr_same_l a b c : dw_same a b -> dw_fr b c -> dw_fr a c.
Proof. intros H1 H2. eapply dw_fr_trans; [apply dw_same_fr; exact H1|exact H2]. Qed.
Lemma dw_fr_same_r a b c : dw_fr a b -> dw_same b c -> dw_fr a c.
Proof. intros H1 H2. eapply dw_fr_trans; [exact H1|apply dw_same_fr; exact H2]. Qed.

(* a callback of a hook other than REQUEST_BODY_DATA that answered HTP_OK *)
Lemma dw_fr_hook h i data last c : dv_rs_hook h = false -> dw_fr c (wr_hook_ev h i data last c).
Proof.
  intros Hn Hr. split; [|exact Hr]. unfold dw_rb, wr_hook_ev, dv_selp. cbn [c_events emit set filter ev_hook].
  cbn. rewrite Hn. reflexivity.
Qed.

Lemma dw_fr_hook_r a b h i data last : dv_rs_hook h = false -> dw_fr a b -> dw_fr a (wr_hook_ev h i data last b).
Proof. intros Hn H. eapply dw_fr_trans; [exact H|apply dw_fr_hook; exact Hn]. Qed.
Lemma dw_fr_state a x s : dw_fr a x -> dw_fr a (x <| c_in_state := s |>).
Proof. intros H. exact H. Qed.

(* ---- the transaction table ---- *)
Lemma dw_tx_put_in c i t : c_in (tx_put c i t) = c_in c /\ c_events (tx_put c i t) = c_events c.
Proof. unfold tx_put. destruct (_ <? _)%nat; [split; reflexivity|]. destruct (_ <? _)%nat; split; reflexivity. Qed.
Lemma dw_same_tx_put c i t : dw_same c (tx_put c i t).
Proof. destruct (dw_tx_put_in c i t) as [A B]. split; [exact B|rewrite A; reflexivity]. Qed.
Lemma dw_same_tx_upd c i f : dw_same c (tx_upd c i f).
Proof. unfold tx_upd. destruct (tx_slot c i); [apply dw_same_tx_put|split; reflexivity]. Qed.
Lemma dw_same_rq_tx_upd f c : dw_same c (rq_tx_upd f c).
Proof. unfold rq_tx_upd. destruct (c_in_tx c); [apply dw_same_tx_upd|split; reflexivity]. Qed.

Ltac dw_ne := reflexivity.
Ltac dw_splits := repeat match goal with
  | |- context [if ?b then _ else _] => destruct b
  | |- context [match ?x with _ => _ end] => destruct x
  end.

(* ---- cursor primitives: no event, receiver hook untouched ---- *)
Lemma dw_same_set_in f c : (forall k, k_receiver_hook (f k) = k_receiver_hook k) -> dw_same c (rq_set_in f c).
Proof. intros H. split; [reflexivity|]. unfold rq_set_in. cbn. apply H. Qed.
Lemma dw_same_fault c : dw_same c (rq_fault c). Proof. split; reflexivity. Qed.
Lemma dw_same_read_byte c : dw_same c (fst (rq_read_byte c)).
Proof. unfold rq_read_byte. dw_splits; split; reflexivity. Qed.
Lemma dw_same_slice c a b : dw_same c (fst (rq_slice c a b)).
Proof. unfold rq_slice. dw_splits; split; reflexivity. Qed.
Lemma dw_same_peek c : dw_same c (rq_peek_next c).
Proof.
  unfold rq_peek_next. destruct (rq_at_end c); [split; reflexivity|].
  pose proof (dw_same_read_byte c) as H. destruct (rq_read_byte c) as [c1 b]. cbn [fst] in H.
  eapply dw_same_trans; [exact H|]. split; reflexivity.
Qed.
Lemma dw_same_copy c c' : rq_copy_byte c = Some c' -> dw_same c c'.
Proof.
  unfold rq_copy_byte. destruct (rq_at_end c); [discriminate|].
  pose proof (dw_same_read_byte c) as H. destruct (rq_read_byte c) as [c1 b]. cbn [fst] in H. intros E. inversion E. subst c'.
  eapply dw_same_trans; [exact H|]. split; reflexivity.
Qed.
Lemma dw_same_next c c' : rq_next_byte c = Some c' -> dw_same c c'.
Proof.
  unfold rq_next_byte. destruct (rq_at_end c); [discriminate|].
  pose proof (dw_same_read_byte c) as H. destruct (rq_read_byte c) as [c1 b]. cbn [fst] in H. intros E. inversion E. subst c'.
  eapply dw_same_trans; [exact H|]. split; reflexivity.
Qed.
Lemma dw_same_clear c : dw_same c (req_clear_buffer c). Proof. split; reflexivity. Qed.

Section FrameReq.
Variable cb : cb_oracle.
Variable g : cfg.
Hypothesis Hcb : wr_all_ok cb.

Lemma dw_same_req_buffer c : dw_same c (snd (req_buffer g c)).
Proof.
  unfold req_buffer. destruct (k_data (c_in c)); [|apply dw_same_refl]. cbv zeta.
  set (c1 := if (k_read (c_in c) <? k_consume (c_in c))%nat then rq_fault c else c).
  assert (H1 : dw_same c c1) by (unfold c1; destruct (k_read (c_in c) <? k_consume (c_in c))%nat; [apply dw_same_fault|apply dw_same_refl]).
  destruct (k_read (c_in c) - k_consume (c_in c) =? 0)%nat; [exact H1|].
  set (c2 := match c_in_tx c1 with Some _ => c1 | None => rq_fault c1 end).
  assert (H2 : dw_same c c2) by (unfold c2; destruct (c_in_tx c1); [exact H1|eapply dw_same_trans; [exact H1|apply dw_same_fault]]).
  destruct (g_field_limit_hard g <? _)%nat; [exact H2|].
  pose proof (dw_same_slice c2 (k_consume (c_in c2)) (k_read (c_in c2))) as H3. destruct (rq_slice c2 _ _) as [c3 piece]. cbn [fst snd] in *.
  eapply dw_same_trans; [exact H2|]. eapply dw_same_trans; [exact H3|]. split; reflexivity.
Qed.
Lemma dw_same_consolidate c : dw_same c (snd (fst (req_consolidate_data g c))).
Proof.
  unfold req_consolidate_data. destruct (k_buf (c_in c)).
  - pose proof (dw_same_req_buffer c) as H. destruct (req_buffer g c) as [[] c1]; exact H.
  - pose proof (dw_same_slice c (k_consume (c_in c)) (k_read (c_in c))) as H. destruct (rq_slice c _ _) as [c1 d]. exact H.
Qed.

(* ---- the raw-data receiver ---- *)
Lemma dw_fr_send last c : dw_fr c (snd (req_receiver_send_data cb last c)).
Proof.
  unfold req_receiver_send_data. destruct (k_receiver_hook (c_in c)) as [h|] eqn:Eh; [|apply dw_fr_refl]. cbv zeta.
  unfold run_data_hook. rewrite (wr_run_hook_ex cb Hcb). cbn [snd].
  intros Hr. assert (Hn : dv_rs_hook h = false) by (apply Hr; exact Eh).
  match goal with |- context [wr_hook_ev h ?i ?d last ?x] => set (c0 := x); set (ii := i); set (dd := d) end.
  assert (H0 : dw_same c c0) by (unfold c0; destruct (_ <? _)%nat; split; reflexivity).
  destruct (dw_same_fr _ _ H0 Hr) as [A0 R0]. destruct (dw_fr_hook h ii dd last c0 Hn R0) as [A1 R1].
  split; [rewrite <- A0, <- A1; reflexivity|exact R1].
Qed.
Lemma dw_fr_finalize c : dw_fr c (snd (req_receiver_finalize_clear cb c)).
Proof.
  unfold req_receiver_finalize_clear. destruct (k_receiver_hook (c_in c)) eqn:Eh; [|apply dw_fr_refl].
  pose proof (dw_fr_send true c) as H. destruct (req_receiver_send_data cb true c) as [rc c1]. cbn [snd] in *.
  intros Hr. destruct (H Hr) as [A R]. split; [exact A|]. unfold dw_rok. cbn. intros h' E'. discriminate E'.
Qed.
Lemma dw_fr_receiver_set h c : dv_rs_hook h = false -> dw_fr c (snd (req_receiver_set cb h c)).
Proof.
  intros Hn. unfold req_receiver_set. pose proof (dw_fr_finalize c) as H. destruct (req_receiver_finalize_clear cb c) as [rc c1]. cbn [snd] in *.
  intros Hr. destruct (H Hr) as [A R]. split; [exact A|]. unfold dw_rok. cbn. intros h' E. inversion E. subst h'. exact Hn.
Qed.
Lemma dw_fr_state_change c : dw_fr c (snd (req_handle_state_change cb c)).
Proof.
  unfold req_handle_state_change. destruct (match c_in_state_previous c with Some s => req_state_eqb s (c_in_state c) | None => false end); [apply dw_fr_refl|].
  set (r := if req_state_eqb (c_in_state c) REQ_HEADERS then _ else (ST_OK, c)).
  assert (H : dw_fr c (snd r)).
  { unfold r. destruct (req_state_eqb (c_in_state c) REQ_HEADERS); [|apply dw_fr_refl].
    set (c1 := match c_in_tx c with Some _ => c | None => rq_fault c end).
    assert (H1 : dw_same c c1) by (unfold c1; destruct (c_in_tx c); [apply dw_same_refl|apply dw_same_fault]).
    cbv zeta. destruct (_ =? _)%Z; [eapply dw_fr_same_l; [exact H1|apply dw_fr_receiver_set; dw_ne]|].
    destruct (_ =? _)%Z; [eapply dw_fr_same_l; [exact H1|apply dw_fr_receiver_set; dw_ne]|]. apply dw_same_fr. exact H1. }
  clearbody r. destruct r as [rc c1]. cbn [snd] in H. destruct rc; cbn [snd]; exact H.
Qed.
Lemma dw_fr_exit rc c : dw_fr c (fst (rq_exit cb g rc c)).
Proof.
  unfold rq_exit. pose proof (dw_fr_send false c) as H.
  destruct rc; try (apply dw_same_fr; split; reflexivity).
  - destruct (req_receiver_send_data cb false c) as [r0 c0]. cbn [snd] in H. cbn [fst]. exact H.
  - destruct (rq_at_end c); apply dw_same_fr; split; reflexivity.
  - destruct (req_receiver_send_data cb false c) as [r0 c0]. cbn [snd] in H.
    pose proof (dw_same_req_buffer c0) as H1. destruct (req_buffer g c0) as [brc c1]. cbn [snd] in H1.
    destruct brc; cbn [fst]; (eapply dw_fr_same_r; [exact H|]); (eapply dw_same_trans; [exact H1|split; reflexivity]).
Qed.
End FrameReq.

(* ---- the state functions that never call the body-data dispatch ---- *)
Section FrameReqStates.
Variable cb : cb_oracle.
Variable g : cfg.
Hypothesis Hcb : wr_all_ok cb.

Lemma dw_fr_run_hook h i c : dv_rs_hook h = false -> dw_fr c (snd (run_hook cb h i c)).
Proof. intros Hn. rewrite (wr_run_hook cb Hcb). cbn [snd]. apply dw_fr_hook. exact Hn. Qed.
Lemma dw_same_tx_create c : dw_same c (snd (connp_tx_create g c)).
Proof. unfold connp_tx_create. cbv zeta. dw_splits; split; reflexivity. Qed.
Lemma dw_fr_request_start i c : dw_fr c (snd (tx_state_request_start cb i c)).
Proof.
  unfold tx_state_request_start. rewrite (wr_run_hook cb Hcb). cbn [snd].
  assert (H0 : dw_fr c (wr_hook_ev H_REQUEST_START i None false c <| c_in_state := REQ_LINE |>)) by (apply dw_fr_state, dw_fr_hook; dw_ne).
  match goal with |- dw_fr c (match c_in_tx ?x with _ => _ end) => destruct (c_in_tx x) end.
  - eapply dw_fr_same_r; [exact H0|apply dw_same_tx_upd].
  - eapply dw_fr_same_r; [exact H0|split; reflexivity].
Qed.
Lemma dw_fr_idle c : dw_fr c (snd (REQ_IDLE_fn cb g c)).
Proof.
  unfold REQ_IDLE_fn. destruct (rq_at_end c); [apply dw_fr_refl|].
  pose proof (dw_same_tx_create c) as H. destruct (connp_tx_create g c) as [[i|] c1]; cbn [snd] in H.
  - eapply dw_fr_same_l; [exact H|apply dw_fr_request_start].
  - apply dw_same_fr. eapply dw_same_trans; [exact H|split; reflexivity].
Qed.
Lemma dw_fr_request_line i c : dw_fr c (snd (tx_state_request_line cb g i c)).
Proof.
  unfold tx_state_request_line. cbv zeta. destruct (rq_uri_pipeline_opt _ _ _ _) as [t'|]; [|apply dw_fr_refl].
  rewrite (wr_run_hook cb Hcb). rewrite (wr_run_hook cb Hcb). cbn [snd].
  apply dw_fr_state. apply dw_fr_hook_r; [dw_ne|]. apply dw_fr_hook_r; [dw_ne|]. apply dw_same_fr, dw_same_tx_put.
Qed.
Lemma dw_fr_with_tx f c : (forall i c0, dw_fr c0 (snd (f i c0))) -> dw_fr c (snd (rq_with_tx f c)).
Proof. intros H. unfold rq_with_tx. destruct (c_in_tx c); [apply H|apply dw_fr_refl]. Qed.
Lemma dw_fr_line_complete c : dw_fr c (snd (REQ_LINE_complete cb g c)).
Proof.
  unfold REQ_LINE_complete. pose proof (dw_same_consolidate g c) as H. destruct (req_consolidate_data g c) as [[rc c1] data]. cbn [fst snd] in H.
  destruct rc; try (apply dw_same_fr; exact H).
  destruct data as [|b data]; [apply dw_same_fr; eapply dw_same_trans; [exact H|apply dw_same_clear]|].
  destruct (htp_is_line_ignorable _ _).
  - apply dw_same_fr. eapply dw_same_trans; [exact H|]. eapply dw_same_trans; [apply dw_same_rq_tx_upd|apply dw_same_clear].
  - cbv zeta. match goal with |- context [rq_with_tx ?f ?x] => pose proof (dw_fr_with_tx f x (dw_fr_request_line)) as H2; set (c2 := x) in *; assert (H1 : dw_same c c2) by (eapply dw_same_trans; [exact H|apply dw_same_rq_tx_upd]);
      destruct (rq_with_tx f c2) as [rc3 c3] end.
    cbn [snd] in H2. eapply dw_fr_same_l; [exact H1|]. destruct rc3; cbn [snd]; exact H2.
Qed.
Lemma dw_fr_line_loop : forall n c, dw_fr c (snd (REQ_LINE_loop cb g n c)).
Proof.
  assert (Step : forall c (K : connp -> st * connp), (forall x, dw_fr x (snd (K x))) ->
            dw_fr c (snd (let c := rq_peek_next c in
                          if (c_in_status c =? c_HTP_STREAM_CLOSED)%Z && match k_next_byte (c_in c) with None => true | Some _ => false end
                          then REQ_LINE_complete cb g c
                          else match rq_copy_byte c with
                               | None => (ST_DATA_BUFFER, c)
                               | Some c => if rq_next_is c LF then REQ_LINE_complete cb g c else K c
                               end))).
  { intros c K HK. cbv zeta. pose proof (dw_same_peek c) as Hp. set (c1 := rq_peek_next c) in *.
    destruct ((c_in_status c1 =? c_HTP_STREAM_CLOSED)%Z && _); [eapply dw_fr_same_l; [exact Hp|apply dw_fr_line_complete]|].
    destruct (rq_copy_byte c1) as [c2|] eqn:Ec; [|apply dw_same_fr; exact Hp].
    pose proof (dw_same_copy _ _ Ec) as H2. pose proof (dw_same_trans _ _ _ Hp H2) as H3.
    destruct (rq_next_is c2 LF); [eapply dw_fr_same_l; [exact H3|apply dw_fr_line_complete]|].
    eapply dw_fr_same_l; [exact H3|apply HK]. }
  induction n as [|n IH]; intros c.
  - apply (Step c (fun x => (ST_DATA_BUFFER, rq_fault x))). intros x. apply dw_same_fr, dw_same_fault.
  - apply (Step c (fun x => REQ_LINE_loop cb g n x)). exact IH.
Qed.
Lemma dw_fr_protocol c : dw_fr c (snd (REQ_PROTOCOL_fn c)).
Proof.
  assert (Hh : forall x, dw_same x (rq_to_headers x)).
  { intros x. unfold rq_to_headers. eapply dw_same_trans; [|apply dw_same_rq_tx_upd]. split; reflexivity. }
  apply dw_same_fr. unfold REQ_PROTOCOL_fn. destruct (negb _); [apply Hh|]. cbv zeta.
  destruct (_ <? _)%nat; [eapply dw_same_trans; [apply dw_same_rq_tx_upd|apply Hh]|].
  pose proof (dw_same_slice c (k_read (c_in c)) (k_len (c_in c))) as H. destruct (rq_slice c _ _) as [c1 rest]. cbn [fst] in H.
  destruct (forallb htp_is_space rest); cbn [snd]; [eapply dw_same_trans; [exact H|split; reflexivity]|].
  eapply dw_same_trans; [exact H|]. eapply dw_same_trans; [apply dw_same_rq_tx_upd|apply Hh].
Qed.

Lemma dw_same_process_header line c : dw_same c (rq_process_header line c).
Proof. apply dw_same_rq_tx_upd. Qed.
Lemma dw_same_flush_header c : dw_same c (rq_flush_header c).
Proof.
  unfold rq_flush_header. destruct (k_header (c_in c)); [|apply dw_same_refl].
  eapply dw_same_trans; [apply dw_same_process_header|split; reflexivity].
Qed.
Lemma dw_fr_process_request_headers i c : dw_fr c (snd (tx_process_request_headers cb i c)).
Proof.
  unfold tx_process_request_headers. cbv zeta.
  assert (G : forall c1, dw_same c c1 -> dw_fr c (snd (match req_receiver_finalize_clear cb c1 with (ST_OK, c2) => run_hook cb H_REQUEST_HEADERS i c2 | r => r end))).
  { intros c1 H1. pose proof (dw_fr_finalize cb Hcb c1) as H2. destruct (req_receiver_finalize_clear cb c1) as [rc c2]. cbn [snd] in H2.
    eapply dw_fr_same_l; [exact H1|]. destruct rc; cbn [snd]; try exact H2.
    eapply dw_fr_trans; [exact H2|apply dw_fr_run_hook; dw_ne]. }
  destruct (t_parsed_uri _); apply G; (eapply dw_same_trans; [apply dw_same_tx_put|split; reflexivity]).
Qed.
Lemma dw_fr_request_headers i c : dw_fr c (snd (tx_state_request_headers cb i c)).
Proof.
  unfold tx_state_request_headers. cbv zeta. destruct (_ <? _)%Z.
  - rewrite (wr_run_hook cb Hcb).
    match goal with |- context [req_receiver_finalize_clear cb ?x] => pose proof (dw_fr_finalize cb Hcb x) as H2; assert (H1 : dw_fr c x) by (apply dw_fr_hook; dw_ne);
      destruct (req_receiver_finalize_clear cb x) as [rc c2] end.
    cbn [snd] in H2. pose proof (dw_fr_trans _ _ _ H1 H2) as H3. destruct rc; cbn [snd]; exact H3.
  - destruct (_ <=? _)%Z; [|apply dw_fr_refl].
    match goal with |- context [tx_process_request_headers cb i ?x] => pose proof (dw_fr_process_request_headers i x) as H2; set (c1 := x) in * end.
    assert (H1 : dw_same c c1) by (unfold c1; destruct (negb _); [apply dw_same_tx_upd|apply dw_same_refl]).
    destruct (tx_process_request_headers cb i c1) as [rc c2]. cbn [snd] in H2. pose proof (dw_fr_same_l _ _ _ H1 H2) as H3.
    destruct rc; cbn [snd]; exact H3.
Qed.
Lemma dw_fr_header_line c : dw_fr c (snd (rq_header_line cb g c)) /\
  match fst (rq_header_line cb g c) with Some r => dw_fr c (snd r) | None => True end.
Proof.
  unfold rq_header_line. pose proof (dw_same_consolidate g c) as H. destruct (req_consolidate_data g c) as [[rc c1] data]. cbn [fst snd] in H.
  destruct rc; cbn [fst snd]; try (split; apply dw_same_fr; exact H).
  destruct (htp_is_line_terminator _ _ _).
  - cbv zeta. cbn [fst snd].
    assert (H1 : dw_same c (req_clear_buffer (rq_flush_header c1))).
    { eapply dw_same_trans; [exact H|]. eapply dw_same_trans; [apply dw_same_flush_header|apply dw_same_clear]. }
    split; [apply dw_same_fr; exact H1|]. eapply dw_fr_same_l; [exact H1|]. apply dw_fr_with_tx. intros i c0. apply dw_fr_request_headers.
  - cbv zeta. cbn [fst snd]. split; [|exact I]. apply dw_same_fr. eapply dw_same_trans; [exact H|]. eapply dw_same_trans; [|apply dw_same_clear].
    destruct (_ =? 0)%Z.
    + pose proof (dw_same_trans _ _ _ (dw_same_flush_header c1) (dw_same_peek (rq_flush_header c1))) as H2.
      destruct (k_next_byte _) as [b|]; [destruct (negb _)|].
      * eapply dw_same_trans; [exact H2|apply dw_same_process_header].
      * eapply dw_same_trans; [exact H2|split; reflexivity].
      * eapply dw_same_trans; [exact H2|split; reflexivity].
    + destruct (k_header (c_in c1)) as [h|].
      * destruct (_ <? _)%Z; [split; reflexivity|apply dw_same_refl].
      * eapply dw_same_trans; [apply dw_same_rq_tx_upd|split; reflexivity].
Qed.
Lemma dw_fr_headers_loop : forall n c, dw_fr c (snd (REQ_HEADERS_loop cb g n c)).
Proof.
  assert (Step : forall c (K : connp -> st * connp), (forall x, dw_fr x (snd (K x))) ->
            dw_fr c (snd (if (c_in_status c =? c_HTP_STREAM_CLOSED)%Z then
                            let c := req_clear_buffer (rq_flush_header c) in
                            let c := rq_tx_upd (fun t => t <| t_request_progress := c_HTP_REQUEST_TRAILER |>) c in
                            rq_with_tx (tx_state_request_headers cb) c
                          else match rq_copy_byte c with
                               | None => (ST_DATA_BUFFER, c)
                               | Some c => let '(ret, c) := if rq_next_is c LF then rq_header_line cb g c else (None, c) in
                                           match ret with Some r => r | None => K c end
                               end))).
  { intros c K HK. destruct (c_in_status c =? c_HTP_STREAM_CLOSED)%Z.
    - cbv zeta. eapply dw_fr_same_l; [|apply dw_fr_with_tx; intros i c0; apply dw_fr_request_headers].
      eapply dw_same_trans; [apply dw_same_flush_header|]. eapply dw_same_trans; [apply dw_same_clear|apply dw_same_rq_tx_upd].
    - destruct (rq_copy_byte c) as [c2|] eqn:Ec; [|apply dw_fr_refl]. pose proof (dw_same_copy _ _ Ec) as H2.
      eapply dw_fr_same_l; [exact H2|]. destruct (rq_next_is c2 LF).
      + destruct (dw_fr_header_line c2) as [A B]. destruct (rq_header_line cb g c2) as [[r|] c3]; cbn [fst snd] in *; [exact B|].
        eapply dw_fr_trans; [exact A|apply HK].
      + apply HK. }
  induction n as [|n IH]; intros c.
  - apply (Step c (fun x => (ST_DATA_BUFFER, rq_fault x))). intros x. apply dw_same_fr, dw_same_fault.
  - apply (Step c (fun x => REQ_HEADERS_loop cb g n x)). exact IH.
Qed.
Lemma dw_fr_connect_check c : dw_fr c (snd (REQ_CONNECT_CHECK_fn c)).
Proof. unfold REQ_CONNECT_CHECK_fn. destruct (_ =? _)%Z; apply dw_same_fr; split; reflexivity. Qed.
Lemma dw_fr_body_determine c : dw_fr c (snd (REQ_BODY_DETERMINE_fn c)).
Proof.
  apply dw_same_fr. unfold REQ_BODY_DETERMINE_fn. cbv zeta. destruct (_ =? _)%Z; [eapply dw_same_trans; [|apply dw_same_rq_tx_upd]; split; reflexivity|].
  destruct (_ =? _)%Z; [|destruct (_ =? _)%Z; split; reflexivity].
  destruct (negb _); [eapply dw_same_trans; [|apply dw_same_rq_tx_upd]; split; reflexivity|split; reflexivity].
Qed.
Lemma dw_fr_chunked_length_loop : forall n c, dw_fr c (snd (REQ_BODY_CHUNKED_LENGTH_loop g n c)).
Proof.
  assert (Step : forall c (K : connp -> st * connp), (forall x, dw_fr x (snd (K x))) ->
            dw_fr c (snd (match rq_copy_byte c with
                          | None => (ST_DATA_BUFFER, c)
                          | Some c =>
                            if rq_next_is c LF then
                              match req_consolidate_data g c with
                              | (ST_OK, c, data) =>
                                let c := rq_tx_upd (fun t => t <| t_request_message_len ::= Z.add (Z.of_nat (length data)) |>) c in
                                let '(v, _) := parse_chunked_length (htp_chomp data) in
                                let c := req_clear_buffer (c <| c_in_chunked_length := v |>) in
                                if (0 <? v)%Z then (ST_OK, c <| c_in_state := REQ_BODY_CHUNKED_DATA |>)
                                else if (v =? 0)%Z then
                                  (ST_OK, rq_tx_upd (fun t => t <| t_request_progress := c_HTP_REQUEST_TRAILER |>) (c <| c_in_state := REQ_HEADERS |>))
                                else (ST_ERROR, c)
                              | (_, c, _) => (ST_ERROR, c)
                              end
                            else K c
                          end))).
  { intros c K HK. destruct (rq_copy_byte c) as [c2|] eqn:Ec; [|apply dw_fr_refl]. pose proof (dw_same_copy _ _ Ec) as H2.
    eapply dw_fr_same_l; [exact H2|]. destruct (rq_next_is c2 LF); [|apply HK]. apply dw_same_fr.
    pose proof (dw_same_consolidate g c2) as H. destruct (req_consolidate_data g c2) as [[rc c3] data]. cbn [fst snd] in H.
    destruct rc; cbn [snd]; try exact H. cbv zeta. destruct (parse_chunked_length _) as [v o].
    assert (H4 : dw_same c2 (req_clear_buffer (rq_tx_upd (fun t => t <| t_request_message_len ::= Z.add (Z.of_nat (length data)) |>) c3 <| c_in_chunked_length := v |>))).
    { eapply dw_same_trans; [exact H|]. eapply dw_same_trans; [apply dw_same_rq_tx_upd|split; reflexivity]. }
    destruct (0 <? v)%Z; [exact H4|]. destruct (v =? 0)%Z; [|exact H4]. cbn [snd].
    eapply dw_same_trans; [exact H4|]. eapply dw_same_trans; [|apply dw_same_rq_tx_upd]. split; reflexivity. }
  induction n as [|n IH]; intros c.
  - apply (Step c (fun x => (ST_DATA_BUFFER, rq_fault x))). intros x. apply dw_same_fr, dw_same_fault.
  - apply (Step c (fun x => REQ_BODY_CHUNKED_LENGTH_loop g n x)). exact IH.
Qed.
Lemma dw_fr_chunked_data_end_loop : forall n c, dw_fr c (snd (REQ_BODY_CHUNKED_DATA_END_loop n c)).
Proof.
  assert (Step : forall c (K : connp -> st * connp), (forall x, dw_fr x (snd (K x))) ->
            dw_fr c (snd (match rq_next_byte c with
                          | None => (ST_DATA, c)
                          | Some c =>
                            let c := rq_tx_upd (fun t => t <| t_request_message_len ::= Z.add 1 |>) c in
                            if rq_next_is c LF then (ST_OK, c <| c_in_state := REQ_BODY_CHUNKED_LENGTH |>) else K c
                          end))).
  { intros c K HK. destruct (rq_next_byte c) as [c2|] eqn:Ec; [|apply dw_fr_refl]. pose proof (dw_same_next _ _ Ec) as H2. cbv zeta.
    pose proof (dw_same_trans _ _ _ H2 (dw_same_rq_tx_upd (fun t => t <| t_request_message_len ::= Z.add 1 |>) c2)) as H3.
    destruct (rq_next_is _ LF); [apply dw_same_fr; exact H3|]. eapply dw_fr_same_l; [exact H3|apply HK]. }
  induction n as [|n IH]; intros c.
  - apply (Step c (fun x => (ST_DATA, rq_fault x))). intros x. apply dw_same_fr, dw_same_fault.
  - apply (Step c (fun x => REQ_BODY_CHUNKED_DATA_END_loop n x)). exact IH.
Qed.

(* the states whose pass never reaches the body-data dispatch *)
Definition dw_quiet (s : req_state) : bool :=
  match s with
  | REQ_IDLE | REQ_LINE | REQ_PROTOCOL | REQ_HEADERS | REQ_CONNECT_CHECK | REQ_BODY_DETERMINE
  | REQ_BODY_CHUNKED_LENGTH | REQ_BODY_CHUNKED_DATA_END => true
  | _ => false
  end.
Lemma dw_fr_state_fn s c : dw_quiet s = true -> dw_fr c (snd (rq_state_fn cb g s c)).
Proof.
  destruct s; try discriminate; intros _; cbn [rq_state_fn].
  - apply dw_fr_idle.
  - apply dw_fr_line_loop.
  - apply dw_fr_protocol.
  - apply dw_fr_headers_loop.
  - apply dw_fr_connect_check.
  - apply dw_fr_body_determine.
  - apply dw_fr_chunked_length_loop.
  - apply dw_fr_chunked_data_end_loop.
Qed.
(* what rq_iter does around the state function *)
(* relative to the state the state function returned *)
Lemma dw_iter_after c r c1 : rq_state_fn cb g (c_in_state c) c = (r, c1) ->
  match rq_iter cb g false c with inl (c', _) => dw_fr c1 c' | inr c' => dw_fr c1 c' end.
Proof.
  intros E. unfold rq_iter. rewrite E. cbv beta iota zeta.
  assert (X : forall rc x, dw_fr c1 x -> match @inl (connp * Z) connp (rq_exit cb g rc x) with inl (c', _) => dw_fr c1 c' | inr c' => dw_fr c1 c' end).
  { intros rc x Hx. pose proof (dw_fr_trans _ _ _ Hx (dw_fr_exit cb g Hcb rc x)) as Hy. destruct (rq_exit cb g rc x) as [c' z]. exact Hy. }
  destruct r; try (apply X; apply dw_fr_refl).
  destruct (_ =? _)%Z; [apply dw_fr_refl|].
  pose proof (dw_fr_state_change cb Hcb c1) as H2. destruct (req_handle_state_change cb c1) as [rc2 c2]. cbn [snd] in H2.
  destruct rc2; try (apply X; exact H2). exact H2.
Qed.
Lemma dw_iter_after_inr c r c1 c' : rq_state_fn cb g (c_in_state c) c = (r, c1) -> rq_iter cb g false c = inr c' -> dw_rok c1 -> dw_rb c' = dw_rb c1 /\ dw_rok c'.
Proof. intros E Ei. pose proof (dw_iter_after c r c1 E) as H. rewrite Ei in H. exact H. Qed.
Lemma dw_iter_after_inl c r c1 c' rc : rq_state_fn cb g (c_in_state c) c = (r, c1) -> rq_iter cb g false c = inl (c', rc) -> dw_rok c1 -> dw_rb c' = dw_rb c1 /\ dw_rok c'.
Proof. intros E Ei. pose proof (dw_iter_after c r c1 E) as H. rewrite Ei in H. exact H. Qed.
Lemma dw_fr_iter_gen c r c1 : rq_state_fn cb g (c_in_state c) c = (r, c1) -> dw_fr c c1 ->
  match rq_iter cb g false c with inl (c', _) => dw_fr c c' | inr c' => dw_fr c c' end.
Proof.
  intros E H. pose proof (dw_iter_after c r c1 E) as H2. destruct (rq_iter cb g false c) as [[c' z]|c']; eapply dw_fr_trans; eassumption.
Qed.
Lemma dw_fr_iter c : dw_quiet (c_in_state c) = true ->
  match rq_iter cb g false c with inl (c', _) => dw_fr c c' | inr c' => dw_fr c c' end.
Proof.
  intros Hq. pose proof (dw_fr_state_fn (c_in_state c) c Hq) as H. destruct (rq_state_fn cb g (c_in_state c) c) as [r c1] eqn:E. cbn [snd] in H.
  apply (dw_fr_iter_gen c r c1 E H).
Qed.
Lemma dw_fr_iter_inr c c' : dw_quiet (c_in_state c) = true -> rq_iter cb g false c = inr c' -> dw_rok c -> dw_rb c' = dw_rb c /\ dw_rok c'.
Proof. intros Hq E. pose proof (dw_fr_iter c Hq) as H. rewrite E in H. exact H. Qed.
Lemma dw_fr_iter_inl c c' rc : dw_quiet (c_in_state c) = true -> rq_iter cb g false c = inl (c', rc) -> dw_rok c -> dw_rb c' = dw_rb c /\ dw_rok c'.
Proof. intros Hq E. pose proof (dw_fr_iter c Hq) as H. rewrite E in H. exact H. Qed.
End FrameReqStates.

(* ================= REQ_FINALIZE, for the response hooks ================= *)
Section FrameReqFinalize.
Variable cb : cb_oracle.
Variable g : cfg.
Hypothesis Hcb : wr_all_ok cb.

Lemma dw_fr_run_tx_hooks k h i data last c : dv_rs_hook h = false -> dw_fr c (run_tx_hooks k h i data last c).
Proof.
  intros Hn. revert c. induction k as [|k IH]; intros c; [apply dw_fr_refl|]. cbn [run_tx_hooks].
  eapply dw_fr_trans; [|apply IH]. intros Hr. split; [|exact Hr]. unfold dw_rb, dv_selp. cbn [emit c_events set filter ev_hook]. cbn. rewrite Hn. reflexivity.
Qed.
Lemma dw_fr_req_body_data_ex i data nlen c : dw_fr c (snd (tx_req_process_body_data_ex cb i data nlen c)).
Proof.
  unfold tx_req_process_body_data_ex. cbv zeta. set (c1 := tx_upd c i _). assert (H1 : dw_same c c1) by apply dw_same_tx_upd.
  assert (H2 : forall d l, dw_fr c1 (snd (req_run_hook_body_data cb d l c1))).
  { intros d l. unfold req_run_hook_body_data. assert (G : dw_fr c1 (snd (match c_in_tx c1 with None => (ST_OK, c1) | Some i0 => run_data_hook cb H_REQUEST_BODY_DATA i0 d l (run_tx_hooks (t_hook_request_body (tx_get c1 i0)) H_TX_REQUEST_BODY_DATA i0 d l c1) end))).
    { destruct (c_in_tx c1) as [j|]; [|apply dw_fr_refl]. unfold run_data_hook. rewrite (wr_run_hook_ex cb Hcb). cbn [snd].
      apply dw_fr_hook_r; [reflexivity|]. apply dw_fr_run_tx_hooks. reflexivity. }
    destruct d as [[|b dd]|]; [apply dw_fr_refl|exact G|exact G]. }
  eapply dw_fr_same_l; [exact H1|]. specialize (H2 data (match data with None => (nlen =? 0)%nat | Some _ => false end)).
  destruct (req_run_hook_body_data cb data _ c1) as [[] c2]; exact H2.
Qed.
Lemma dw_fr_complete_partial i c : dw_fr c (snd (tx_state_request_complete_partial cb i c)).
Proof.
  unfold tx_state_request_complete_partial.
  set (r0 := if tx_req_has_body (tx_get c i) then tx_req_process_body_data_ex cb i None 0 c else (ST_OK, c)).
  assert (H0 : dw_fr c (snd r0)) by (unfold r0; destruct (tx_req_has_body _); [apply dw_fr_req_body_data_ex|apply dw_fr_refl]).
  clearbody r0. destruct r0 as [rc c1]. cbn [snd] in H0. destruct rc; cbn [snd]; try exact H0.
  rewrite (wr_run_hook cb Hcb).
  eapply dw_fr_trans; [|apply (dw_fr_finalize cb Hcb)]. apply dw_fr_hook_r; [reflexivity|]. eapply dw_fr_same_r; [exact H0|apply dw_same_tx_upd].
Qed.
Lemma dw_fr_tx_finalize i c : dw_fr c (snd (tx_finalize cb g i c)).
Proof.
  intros Hr. destruct (bd_tx_finalize_ext cb g i c) as (X & EX & FX).
  assert (Ein : c_in (snd (tx_finalize cb g i c)) = c_in c).
  { unfold tx_finalize. destruct (tx_slot c i) as [t|]; [|reflexivity]. destruct (negb _); [reflexivity|].
    unfold run_hook_ex. rewrite Hcb. match goal with |- context [tx_slot ?x i] => destruct (tx_slot x i) end; cbn [snd]; [|reflexivity].
    destruct (g_tx_auto_destroy g); [|reflexivity]. unfold tx_destroy. match goal with |- context [tx_slot ?x i] => destruct (tx_slot x i) as [tt|] end; [|reflexivity].
    destruct (tx_is_complete tt); [|reflexivity]. unfold tx_destroy_incomplete. dv_splits; reflexivity. }
  split; [|unfold dw_rok; rewrite Ein; exact Hr].
  unfold dw_rb. rewrite EX, dv_selp_app. assert (Z0 : dv_selp dv_rs_hook X = []).
  { clear - FX. induction FX as [|e l He F IH]; [reflexivity|]. unfold dv_selp in *. cbn [filter]. rewrite He. exact IH. }
  rewrite Z0. reflexivity.
Qed.
Lemma dw_fr_request_complete i c : dw_fr c (snd (tx_state_request_complete cb g i c)).
Proof.
  unfold tx_state_request_complete. destruct (tx_slot c i) as [t0|]; [|apply dw_same_fr; split; reflexivity].
  set (r := if negb _ then tx_state_request_complete_partial cb i c else (ST_OK, c)).
  assert (H : dw_fr c (snd r)) by (unfold r; destruct (negb _); [apply dw_fr_complete_partial|apply dw_fr_refl]).
  clearbody r. destruct r as [rc c1]. cbn [snd] in H. destruct rc; cbn [snd]; try exact H.
  match goal with |- context [tx_finalize cb g i ?x] => set (x0 := x) end.
  assert (Ex : dw_fr c x0) by (unfold x0; destruct (tx_slot c1 i); exact H).
  pose proof (dw_fr_tx_finalize i x0) as F. destruct (tx_finalize cb g i x0) as [rf cf]. cbn [snd] in *.
  eapply dw_fr_trans; [exact Ex|]. exact F.
Qed.
Lemma dw_fr_rq_request_complete c : dw_fr c (snd (rq_request_complete cb g c)).
Proof. unfold rq_request_complete. apply dw_fr_with_tx. intros i c0. apply dw_fr_request_complete. Qed.
Lemma dw_same_peek_copy_until stop : forall n c, dw_same c (snd (rq_peek_copy_until stop n c)).
Proof.
  induction n as [|n IH]; intros c; cbn [rq_peek_copy_until]; cbv zeta.
  all: pose proof (dw_same_peek c) as Hp; set (c1 := rq_peek_next c) in *.
  all: destruct (match k_next_byte (c_in c1) with Some b => stop b | None => false end); [exact Hp|].
  all: destruct (rq_copy_byte c1) as [c2|] eqn:Ec; [|exact Hp]; pose proof (dw_same_trans _ _ _ Hp (dw_same_copy _ _ Ec)) as H2.
  - cbn [snd]. eapply dw_same_trans; [exact H2|apply dw_same_fault].
  - eapply dw_same_trans; [exact H2|apply IH].
Qed.
Lemma dw_fr_finalize_fn c : dw_fr c (snd (REQ_FINALIZE_fn cb g c)).
Proof.
  unfold REQ_FINALIZE_fn.
  assert (Sc : match rq_finalize_scan c with RF_complete x | RF_buffer x | RF_probe x => dw_same c x end).
  { unfold rq_finalize_scan. destruct (_ =? _)%Z; [apply dw_same_refl|]. cbv zeta. pose proof (dw_same_peek c) as Hp. set (c1 := rq_peek_next c) in *.
    destruct (k_next_byte (c_in c1)); [|exact Hp]. destruct (_ || _); [|exact Hp].
    pose proof (dw_same_peek_copy_until (fun b => (b =? LF)%N) (k_len (c_in c1) - k_read (c_in c1)) c1) as H2.
    destruct (rq_peek_copy_until _ _ c1) as [[] c2]; cbn [snd] in H2; eapply dw_same_trans; eassumption. }
  destruct (rq_finalize_scan c) as [x|x|x].
  - eapply dw_fr_same_l; [exact Sc|apply dw_fr_rq_request_complete].
  - apply dw_same_fr. exact Sc.
  - pose proof (dw_same_consolidate g x) as H. destruct (req_consolidate_data g x) as [[rc c1] data]. cbn [fst snd] in H.
    pose proof (dw_same_trans _ _ _ Sc H) as H1.
    destruct rc; try (apply dw_same_fr; exact H1).
    destruct data as [|b0 data]; [eapply dw_fr_same_l; [exact H1|apply dw_fr_rq_request_complete]|].
    destruct (rq_probe_method (b0 :: data)) as [mstart pos]. cbv zeta.
    destruct (_ && _); [eapply dw_fr_same_l; [exact H1|]; eapply dw_fr_same_l; [|apply dw_fr_rq_request_complete]; split; reflexivity|].
    set (c2 := if (mstart <? pos)%nat && (0 <? c_in_body_data_left c1)%Z then c1 <| c_in_body_data_left := 1%Z |> else c1).
    assert (H2 : dw_same c c2) by (unfold c2; destruct (_ && _); [eapply dw_same_trans; [exact H1|split; reflexivity]|exact H1]).
    clearbody c2.
    assert (G : forall y dd, dw_same c y -> dw_fr c (snd (let '(rc0, c0) := rq_with_tx (fun i => tx_req_process_body_data_ex cb i (Some dd) 0) y in (rc0, req_clear_buffer c0)))).
    { intros y dd Hy. pose proof (dw_fr_with_tx (fun i => tx_req_process_body_data_ex cb i (Some dd) 0) y (fun i c0 => dw_fr_req_body_data_ex i (Some dd) 0 c0)) as F.
      destruct (rq_with_tx _ y) as [rc0 c0]. cbn [snd] in *. eapply dw_fr_same_l; [exact Hy|]. exact F. }
    destruct (rq_next_is c2 LF); [|apply G; exact H2].
    destruct (rq_copy_byte c2) as [c3|] eqn:Ec; [|apply dw_same_fr; exact H2].
    pose proof (dw_same_trans _ _ _ H2 (dw_same_copy _ _ Ec)) as H3.
    pose proof (dw_same_consolidate g c3) as H4. destruct (req_consolidate_data g c3) as [[rc4 c4] d2]. cbn [fst snd] in H4.
    destruct rc4; apply G; eapply dw_same_trans; eassumption.
Qed.
(* every state a request without body goes through *)
Definition dw_quiet2 (s : req_state) : bool := dw_quiet s || match s with REQ_FINALIZE => true | _ => false end.
Lemma dw_fr_iter2 c : dw_quiet2 (c_in_state c) = true ->
  match rq_iter cb g false c with inl (c', _) => dw_fr c c' | inr c' => dw_fr c c' end.
Proof.
  intros Hq. destruct (rq_state_fn cb g (c_in_state c) c) as [r c1] eqn:E.
  apply (dw_fr_iter_gen cb g Hcb c r c1 E).
  assert (H : dw_fr c (snd (rq_state_fn cb g (c_in_state c) c))).
  { unfold dw_quiet2 in Hq. destruct (dw_quiet (c_in_state c)) eqn:Eq; [apply (dw_fr_state_fn cb g Hcb); exact Eq|].
    destruct (c_in_state c); try discriminate. cbn [rq_state_fn]. apply dw_fr_finalize_fn. }
  rewrite E in H. exact H.
Qed.
Lemma dw_fr_iter2_inr c c' : dw_quiet2 (c_in_state c) = true -> rq_iter cb g false c = inr c' -> dw_rok c -> dw_rb c' = dw_rb c /\ dw_rok c'.
Proof. intros Hq E. pose proof (dw_fr_iter2 c Hq) as H. rewrite E in H. exact H. Qed.
End FrameReqFinalize.

(* ================= the request call of the exchange emits no RESPONSE_BODY_DATA / RESPONSE_COMPLETE event ================= *)
Require Import Htp.Spec.SWire Htp.Proof.PWire Htp.Proof.PWireHdr Htp.Proof.PWireBlock Htp.Proof.PWireConn Htp.Proof.PWireRun Htp.Proof.PWirePres.
Theorem dw_request_call_silent : forall cb g r, wr_all_ok cb -> g_allow_space_uri g = false -> wr_request_ok r = true ->
  dv_selp dv_rs_hook (dv_log cb g [OpOpen; OpReqData (wr_request_wire r)]) = [].
Proof.
  intros cb g [m u p fs] Hcb Hsp Wr.
  set (c0 := forget_chunks (connp_open connp_new) <| c_events := [] |>).
  assert (Ecp : dv_selp dv_rs_hook (dv_log cb g [OpOpen; OpReqData (wr_request_wire (mk_wr_request m u p fs))]) =
                rev (dw_rb (fst (connp_req_data cb g (Some (wr_request_wire (mk_wr_request m u p fs))) (length (wr_request_wire (mk_wr_request m u p fs))) c0)))).
  { unfold dv_log, dw_rb. rewrite <- dv_selp_rev. unfold cp_run, cp_step, finish_call. fold c0. destruct (connp_req_data cb g _ _ c0) as [c rc].
    cbn [snd map concat r_events fst]. rewrite app_nil_r. reflexivity. }
  rewrite Ecp. clear Ecp.
  unfold wr_request_ok in Wr. cbn [wq_method wq_uri wq_protocol wq_fields] in Wr.
  apply andb_prop in Wr. destruct Wr as [Wr Wc]. apply andb_prop in Wr. destruct Wr as [Wr Wnf]. apply andb_prop in Wr. destruct Wr as [Wl Wb].
  apply negb_true_iff in Wnf. apply negb_true_iff in Wc.
  unfold wr_request_wire. cbn [wq_method wq_uri wq_protocol wq_fields].
  set (d := wr_ser_request m u p fs).
  assert (Ed : d = wr_ser_request_line m u p ++ [CR; LF] ++ (wr_block_wire fs ++ [CR; LF])) by reflexivity.
  assert (Hne : d <> []).
  { rewrite Ed. destruct (wr_reqline_bytes m u p Wl) as (_ & _ & (m0 & y & l & E & _)). rewrite E. discriminate. }
  assert (Hlen0 : (length d =? 0)%nat = false) by (destruct d; [contradiction|reflexivity]).
  unfold connp_req_data. change (c_in_status c0) with c_HTP_STREAM_OPEN.
  change ((c_HTP_STREAM_OPEN =? c_HTP_STREAM_STOP)%Z) with false. change ((c_HTP_STREAM_OPEN =? c_HTP_STREAM_ERROR)%Z) with false. cbv iota.
  change (c_in_tx c0) with (@None nat). change (c_in_state c0) with REQ_IDLE. cbn [req_state_eqb negb]. rewrite Hlen0. cbn [andb].
  match goal with |- context [rq_loop cb g _ _ ?x] => set (c1 := x) end.
  assert (St1 : (c_in_status (rq_set_in (fun k => k <| k_data := Some d |> <| k_len := length d |> <| k_read := 0%nat |> <| k_consume := 0%nat |> <| k_receiver := 0%nat |>) c0
                   <| c_in_chunk_count ::= S |> <| c_in_data_counter ::= Z.add (Z.of_nat (length d)) |>) =? c_HTP_STREAM_TUNNEL)%Z = false) by reflexivity.
  rewrite St1 in *. clear St1.
  assert (Idle1 : wr_idle c1 d) by (unfold c1; constructor; reflexivity).
  assert (V1 : dw_rb c1 = [] /\ dw_rok c1) by (unfold c1; split; [reflexivity|intros h E; discriminate E]).
  clearbody c1. destruct V1 as [V1 R1].
  replace (rq_fuel (length d)) with (S (S (S (S (S (S (S (S (16 * length d + 8))))))))) by (unfold rq_fuel; lia).
  assert (Step : forall a b, dw_quiet2 (c_in_state a) = true -> rq_iter cb g false a = inr b -> dw_rb a = [] /\ dw_rok a -> dw_rb b = [] /\ dw_rok b).
  { intros a b Hq E [Va Ra]. destruct (dw_fr_iter2_inr cb g Hcb a b Hq E Ra) as [Vb Rb]. split; [rewrite Vb; exact Va|exact Rb]. }
  destruct (wr_pass_idle cb g Hcb c1 d Idle1 Hne) as (c2 & E1 & Inv2). rewrite wr_rq_loop_S, E1.
  pose proof (Step c1 c2 ltac:(rewrite (id_state _ _ Idle1); reflexivity) E1 (conj V1 R1)) as V2.
  destruct (wr_pass_line cb g Hcb Hsp c2 d wr_t1 m u p (wr_block_wire fs ++ [CR; LF]) Inv2 eq_refl Wl Ed) as (c3 & t3 & E2 & Inv3 & F3 & Hh3 & Hr3 & Pg3 & Rp3 & (nu & Pu3)).
  rewrite wr_rq_loop_S, E2.
  pose proof (Step c2 c3 ltac:(rewrite (iv_state _ _ _ _ _ _ _ _ Inv2); reflexivity) E2 V2) as V3.
  set (r1 := (length (wr_ser_request_line m u p) + 2)%nat) in *.
  assert (Z3 : t_is_protocol_0_9 t3 = false) by (unfold wr_line_fields in F3; decompose [and] F3; assumption).
  destruct (wr_pass_protocol cb g c3 d r1 t3 Inv3 Z3) as (c4 & E3 & Inv4). rewrite wr_rq_loop_S, E3.
  pose proof (Step c3 c4 ltac:(rewrite (iv_state _ _ _ _ _ _ _ _ Inv3); reflexivity) E3 V3) as V4.
  set (t4 := t3 <| t_request_progress := c_HTP_REQUEST_HEADERS |>) in *.
  assert (Hseg : wr_seg_at d r1 (wr_block_wire fs ++ [CR; LF])).
  { exists (wr_ser_request_line m u p ++ [CR; LF]), []. split; [rewrite app_nil_r, Ed, <- !app_assoc; reflexivity|unfold r1; rewrite app_length; reflexivity]. }
  assert (Hlen : length d = (r1 + length (wr_block_wire fs) + 2)%nat) by (rewrite Ed, !app_length; unfold r1; cbn [length]; lia).
  destruct (wr_pass_headers cb g Hcb c4 d r1 t4 fs nu Inv4 eq_refl Hh3 Hr3 Pu3 Wb Wnf Hseg Hlen) as (c5 & t5 & E4 & Inv5 & Hd5 & K5 & Tc5).
  rewrite wr_rq_loop_S, E4.
  pose proof (Step c4 c5 ltac:(rewrite (iv_state _ _ _ _ _ _ _ _ Inv4); reflexivity) E4 V4) as V5.
  unfold wr_keep_l in K5. destruct K5 as (K51 & K52 & K53 & K54 & K55 & K56 & K57 & K58 & K59).
  unfold wr_line_fields in F3. destruct F3 as (F31 & F32 & F33 & F34 & F35 & F36).
  assert (M5 : (t_request_method_number t5 =? c_HTP_M_CONNECT)%Z = false).
  { rewrite K52. change (t_request_method_number t4) with (t_request_method_number t3). rewrite F32. apply wr_not_connect. exact Wc. }
  destruct (wr_pass_connect_check cb g c5 d _ _ _ t5 Inv5 M5) as (c6 & E5 & Inv6). rewrite wr_rq_loop_S, E5.
  pose proof (Step c5 c6 ltac:(rewrite (iv_state _ _ _ _ _ _ _ _ Inv5); reflexivity) E5 V5) as V6.
  destruct (wr_pass_body_determine cb g c6 d _ _ _ t5 Inv6 Tc5) as (c7 & E6 & Inv7). rewrite wr_rq_loop_S, E6.
  pose proof (Step c6 c7 ltac:(rewrite (iv_state _ _ _ _ _ _ _ _ Inv6); reflexivity) E6 V6) as V7.
  assert (Pg5 : t_request_progress t5 = c_HTP_REQUEST_HEADERS) by (rewrite K57; reflexivity).
  assert (Rp5 : (t_response_progress t5 =? c_HTP_RESPONSE_COMPLETE)%Z = false).
  { rewrite K58. change (t_response_progress t4) with (t_response_progress t3). rewrite Rp3. reflexivity. }
  assert (Z5 : t_is_protocol_0_9 t5 = false) by (rewrite K56; exact Z3).
  destruct (wr_pass_finalize cb g Hcb c7 d t5 Inv7 Tc5 Pg5 Rp5 Z5) as (c8 & E7 & Dn8 & St8 & Ln8 & Rd8 & Rh8). rewrite wr_rq_loop_S, E7.
  pose proof (Step c7 c8 ltac:(rewrite (iv_state _ _ _ _ _ _ _ _ Inv7); reflexivity) E7 V7) as [V8 _].
  rewrite wr_rq_loop_S, (wr_pass_idle_end cb g c8 _ (length d) Dn8 St8 Ln8 Rd8 Rh8). cbn [fst].
  change (dw_rb (c8 <| c_in_status := c_HTP_STREAM_DATA |>)) with (dw_rb c8). rewrite V8. reflexivity.
Qed.
(* so the response theorems, stated on the events of the response calls, are statements about the log of the whole run *)
Lemma dv_whole_log cb g r ops : wr_all_ok cb -> g_allow_space_uri g = false -> wr_request_ok r = true ->
  dv_selp dv_rs_hook (dv_log cb g (OpOpen :: OpReqData (wr_request_wire r) :: ops)) = dv_selp dv_rs_hook (dv_res_log cb g (wr_request_wire r) ops).
Proof. intros Hcb Hsp Wr. rewrite dv_log_split, dv_selp_app, (dw_request_call_silent cb g r Hcb Hsp Wr). reflexivity. Qed.
