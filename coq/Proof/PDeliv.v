(* C06, history level: DELIVERY from a fresh connection, through cp_run, for every chunking -- base layer.
   The whole-run event log (dv_log = the per-call event lists of cp_run, concatenated), the statement "exactly the body, in
   order, in non-empty pieces, followed by exactly one end-of-body marker" (dv_delivered), and the FRAME lemmas of the
   request direction: a pass of the for(;;) of htp_connp_req_data in a state other than REQ_BODY_IDENTITY,
   REQ_BODY_CHUNKED_DATA, REQ_FINALIZE, REQ_CONNECT_PROBE_DATA, REQ_IGNORE_DATA_AFTER_HTTP_0_9 appends no REQUEST_BODY_DATA
   event and no REQUEST_COMPLETE event (the raw-data receiver hook being REQUEST_HEADER_DATA / REQUEST_TRAILER_DATA / none).  The invariants of
   PSeg*.v do not mention c_events; these lemmas are what lets the drivers of PDelivReq*.v carry "no body event so far in
   this call" through the header phase next to them. *)
Require Import Htp.Model.Base Htp.Model.MBstr Htp.Model.MConnTypes Htp.Model.MTxCommon Htp.Model.MReqLine Htp.Model.MReqUri Htp.Model.MTxReq.
Require Import Htp.Model.MReq Htp.Model.MRes Htp.Model.MConnp.
Require Import Htp.Spec.SBody Htp.Proof.PBody Htp.Proof.PWireExch Htp.Proof.PWireGlue.

(* ================= the observation ================= *)
(* the chronological event log of a whole run: the per-call event lists (oldest first), concatenated *)
Definition dv_log (cb : cb_oracle) (g : cfg) (ops : list cp_op) : list event :=
  concat (map r_events (snd (cp_run cb g connp_new ops))).
Definition dv_sel (h : nat) (log : list event) : list event := filter (fun e => Nat.eqb (ev_hook e) h) log.
Definition dv_data (h i : nat) (d : bytes) : event := mkev h i (Some d) false None.
Definition dv_marker (h i : nat) (last : bool) : event := mkev h i None last None.
(* evs = k data events of hook h for transaction i, payloads non-empty, concatenating to body, then ONE end-of-body marker *)
Definition dv_delivered (h i : nat) (last : bool) (body : bytes) (evs : list event) : Prop :=
  exists ds, evs = map (dv_data h i) ds ++ [dv_marker h i last] /\ concat ds = body /\ Forall (fun d => d <> []) ds.

Lemma dv_sel_app h a b : dv_sel h (a ++ b) = dv_sel h a ++ dv_sel h b.
Proof. apply filter_app. Qed.
Lemma dv_sel_rev h l : dv_sel h (rev l) = rev (dv_sel h l).
Proof.
  induction l as [|e l IH]; [reflexivity|]. cbn [rev]. rewrite dv_sel_app, IH. unfold dv_sel at 2 3. cbn [filter].
  destruct (Nat.eqb (ev_hook e) h); cbn [rev]; [reflexivity|apply app_nil_r].
Qed.
Lemma dv_sel_evs h l : dv_sel h l = bd_evs h l. Proof. reflexivity. Qed.
(* the events of the hooks P *)
Definition dv_selp (P : nat -> bool) (log : list event) : list event := filter (fun e => P (ev_hook e)) log.
Lemma dv_selp_app P a b : dv_selp P (a ++ b) = dv_selp P a ++ dv_selp P b.
Proof. apply filter_app. Qed.
Lemma dv_selp_rev P l : dv_selp P (rev l) = rev (dv_selp P l).
Proof.
  induction l as [|e l IH]; [reflexivity|]. cbn [rev]. rewrite dv_selp_app, IH. unfold dv_selp at 2 3. cbn [filter].
  destruct (P (ev_hook e)); cbn [rev]; [reflexivity|apply app_nil_r].
Qed.
(* selecting one hook among the selected ones *)
Lemma dv_sel_selp P h l : P h = true -> dv_sel h (dv_selp P l) = dv_sel h l.
Proof.
  intros HP. induction l as [|e l IH]; [reflexivity|]. unfold dv_selp, dv_sel in *. cbn [filter].
  destruct (Nat.eqb (ev_hook e) h) eqn:E.
  - apply Nat.eqb_eq in E. rewrite E, HP. cbn [filter]. rewrite E, Nat.eqb_refl, IH. reflexivity.
  - destruct (P (ev_hook e)); [cbn [filter]; rewrite E|]; exact IH.
Qed.
(* data events, ONE marker, then the completion callback *)
Definition dv_done (hc i : nat) : event := mkev hc i None false None.
Definition dv_delivered_c (h hc i : nat) (last : bool) (body : bytes) (evs : list event) : Prop :=
  exists ds, evs = map (dv_data h i) ds ++ [dv_marker h i last; dv_done hc i] /\ concat ds = body /\ Forall (fun d => d <> []) ds.
Lemma dv_sel_map_data h i ds : dv_sel h (map (dv_data h i) ds) = map (dv_data h i) ds.
Proof. induction ds as [|d ds IH]; [reflexivity|]. unfold dv_sel in *. cbn [map filter dv_data ev_hook]. rewrite Nat.eqb_refl, IH. reflexivity. Qed.
Lemma dv_delivered_c_sel h hc i last body evs : h <> hc -> dv_delivered_c h hc i last body evs ->
  dv_delivered h i last body (dv_sel h evs) /\ dv_sel hc evs = [dv_done hc i] /\ bd_marker_ok h hc evs false = true.
Proof.
  intros Hn (ds & E & C & F). subst evs. assert (N1 : Nat.eqb hc h = false) by (apply Nat.eqb_neq; congruence). assert (N2 : Nat.eqb h hc = false) by (apply Nat.eqb_neq; exact Hn).
  split; [|split].
  - exists ds. split; [|split; assumption]. rewrite dv_sel_app, dv_sel_map_data. unfold dv_sel. cbn [filter dv_marker dv_done ev_hook]. rewrite Nat.eqb_refl, N1. reflexivity.
  - rewrite dv_sel_app. assert (Z0 : dv_sel hc (map (dv_data h i) ds) = []).
    { clear - N2. induction ds as [|d ds IH]; [reflexivity|]. unfold dv_sel in *. cbn [map filter dv_data ev_hook]. rewrite N2. exact IH. }
    rewrite Z0. unfold dv_sel. cbn [filter dv_marker dv_done ev_hook app]. rewrite N2, Nat.eqb_refl. reflexivity.
  - apply bd_marker_skip.
    + apply Forall_forall. intros e Hin. apply in_map_iff in Hin. destruct Hin as (d & Ed & _). subst e. cbn. exact Hn.
    + intros s'. apply bd_marker_at; [exact Hn|reflexivity|reflexivity].
Qed.

(* what dv_delivered says in the vocabulary of Spec/SBody.v *)
Lemma dv_map_data_bytes h i ds : concat (map bd_ev_bytes (map (dv_data h i) ds)) = concat ds.
Proof. induction ds as [|d ds IH]; [reflexivity|]. cbn [map concat]. rewrite IH. reflexivity. Qed.
Lemma dv_delivered_payload h i last body evs : dv_delivered h i last body evs ->
  concat (map bd_ev_bytes evs) = body /\
  length (filter (fun e => match ev_data e with None => true | Some _ => false end) evs) = 1%nat /\
  (exists pre, evs = pre ++ [dv_marker h i last] /\ Forall (fun e => ev_data e <> None) pre) /\
  (body <> [] -> (2 <= length evs)%nat) /\ Forall (fun e => ev_hook e = h /\ ev_tx e = i) evs.
Proof.
  intros (ds & E & C & F). subst evs. split; [|split; [|split; [|split]]].
  - rewrite map_app, concat_app, dv_map_data_bytes, C. cbn. rewrite !app_nil_r. reflexivity.
  - rewrite filter_app. cbn [filter dv_marker ev_data]. rewrite app_length.
    assert (Z : filter (fun e => match ev_data e with None => true | Some _ => false end) (map (dv_data h i) ds) = []).
    { clear. induction ds as [|d ds IH]; [reflexivity|]. cbn. exact IH. }
    rewrite Z. reflexivity.
  - exists (map (dv_data h i) ds). split; [reflexivity|]. apply Forall_forall. intros e Hin. apply in_map_iff in Hin. destruct Hin as (d & Ed & _). subst e. discriminate.
  - intros Hne. rewrite app_length, map_length. cbn [length]. destruct ds as [|d ds]; [cbn in C; congruence|cbn [length]; lia].
  - apply Forall_app. split; [|repeat constructor]. apply Forall_forall. intros e Hin. apply in_map_iff in Hin. destruct Hin as (d & Ed & _). subst e. split; reflexivity.
Qed.

(* ================= cp_run and its result list ================= *)
Lemma dv_cp_run_cons cb g c (x : bytes) ops :
  cp_run cb g c (OpReqData x :: ops) =
    (fst (cp_run cb g (forget_chunks (fst (connp_req_data cb g (Some x) (length x) c)) <| c_events := [] |>) ops),
     snd (finish_call (fst (connp_req_data cb g (Some x) (length x) c)) (snd (connp_req_data cb g (Some x) (length x) c))
            (k_read (c_in (fst (connp_req_data cb g (Some x) (length x) c)))) true)
     :: snd (cp_run cb g (forget_chunks (fst (connp_req_data cb g (Some x) (length x) c)) <| c_events := [] |>) ops)).
Proof.
  cbn [cp_run cp_step]. destruct (connp_req_data cb g (Some x) (length x) c) as [c1 rc]. cbn [fst snd]. unfold finish_call.
  destruct (cp_run cb g (forget_chunks c1 <| c_events := [] |>) ops) as [c2 xs]. reflexivity.
Qed.
(* the events one request-data call contributes to the log *)
Lemma dv_log_req_cons cb g c (x : bytes) ops :
  concat (map r_events (snd (cp_run cb g c (OpReqData x :: ops)))) =
    rev (c_events (fst (connp_req_data cb g (Some x) (length x) c))) ++
    concat (map r_events (snd (cp_run cb g (forget_chunks (fst (connp_req_data cb g (Some x) (length x) c)) <| c_events := [] |>) ops))).
Proof. rewrite dv_cp_run_cons. cbn [snd map concat finish_call r_events]. reflexivity. Qed.
Lemma dv_cp_run_res_cons cb g c (x : bytes) ops :
  cp_run cb g c (OpResData x :: ops) =
    (fst (cp_run cb g (forget_chunks (fst (connp_res_data cb g (Some x) (length x) c)) <| c_events := [] |>) ops),
     snd (finish_call (fst (connp_res_data cb g (Some x) (length x) c)) (snd (connp_res_data cb g (Some x) (length x) c))
            (k_read (c_out (fst (connp_res_data cb g (Some x) (length x) c)))) true)
     :: snd (cp_run cb g (forget_chunks (fst (connp_res_data cb g (Some x) (length x) c)) <| c_events := [] |>) ops)).
Proof.
  cbn [cp_run cp_step]. destruct (connp_res_data cb g (Some x) (length x) c) as [c1 rc]. cbn [fst snd]. unfold finish_call.
  destruct (cp_run cb g (forget_chunks c1 <| c_events := [] |>) ops) as [c2 xs]. reflexivity.
Qed.
Lemma dv_log_res_cons cb g c (x : bytes) ops :
  concat (map r_events (snd (cp_run cb g c (OpResData x :: ops)))) =
    rev (c_events (fst (connp_res_data cb g (Some x) (length x) c))) ++
    concat (map r_events (snd (cp_run cb g (forget_chunks (fst (connp_res_data cb g (Some x) (length x) c)) <| c_events := [] |>) ops))).
Proof. rewrite dv_cp_run_res_cons. cbn [snd map concat finish_call r_events]. reflexivity. Qed.

(* ================= the frame relation, request direction ================= *)
(* the hooks that are followed: REQUEST_BODY_DATA and the completion callback REQUEST_COMPLETE *)
Definition dv_rq_hook (h : nat) : bool := Nat.eqb h H_REQUEST_BODY_DATA || Nat.eqb h H_REQUEST_COMPLETE.
(* their events in the current call, newest first *)
Definition dv_rb (c : connp) : list event := dv_selp dv_rq_hook (c_events c).
(* the raw-data receiver is not one of them (it is REQUEST_HEADER_DATA, REQUEST_TRAILER_DATA or none) *)
Definition dv_rok (c : connp) : Prop := forall h, k_receiver_hook (c_in c) = Some h -> dv_rq_hook h = false.
(* c' : no body event appended, receiver still not the body-data hook *)
Definition dv_fr (c c' : connp) : Prop := dv_rok c -> dv_rb c' = dv_rb c /\ dv_rok c'.
(* c' : no event at all, receiver hook unchanged *)
Definition dv_same (c c' : connp) : Prop := c_events c' = c_events c /\ k_receiver_hook (c_in c') = k_receiver_hook (c_in c).

Lemma dv_fr_refl c : dv_fr c c. Proof. intros H. split; [reflexivity|exact H]. Qed.
Lemma dv_fr_trans a b c : dv_fr a b -> dv_fr b c -> dv_fr a c.
Proof. intros H1 H2 Ha. destruct (H1 Ha) as [E1 Hb]. destruct (H2 Hb) as [E2 Hc]. split; [rewrite E2; exact E1|exact Hc]. Qed.
Lemma dv_same_refl c : dv_same c c. Proof. split; reflexivity. Qed.
Lemma dv_same_trans a b c : dv_same a b -> dv_same b c -> dv_same a c.
Proof. intros [A1 A2] [B1 B2]. split; [rewrite B1; exact A1|rewrite B2; exact A2]. Qed.
Lemma dv_same_fr c c' : dv_same c c' -> dv_fr c c'.
Proof. intros [E1 E2] H. unfold dv_rb, dv_rok in *. rewrite E1, E2. split; [reflexivity|exact H]. Qed.
Lemma dv_fr_same_l a b c : dv_same a b -> dv_fr b c -> dv_fr a c.
Proof. intros H1 H2. eapply dv_fr_trans; [apply dv_same_fr; exact H1|exact H2]. Qed.
Lemma dv_fr_same_r a b c : dv_fr a b -> dv_same b c -> dv_fr a c.
Proof. intros H1 H2. eapply dv_fr_trans; [exact H1|apply dv_same_fr; exact H2]. Qed.

(* a callback of a hook other than REQUEST_BODY_DATA that answered HTP_OK *)
Lemma dv_fr_hook h i data last c : dv_rq_hook h = false -> dv_fr c (wr_hook_ev h i data last c).
Proof.
  intros Hn Hr. split; [|exact Hr]. unfold dv_rb, wr_hook_ev, dv_selp. cbn [c_events emit set filter ev_hook].
  cbn. rewrite Hn. reflexivity.
Qed.

Lemma dv_fr_hook_r a b h i data last : dv_rq_hook h = false -> dv_fr a b -> dv_fr a (wr_hook_ev h i data last b).
Proof. intros Hn H. eapply dv_fr_trans; [exact H|apply dv_fr_hook; exact Hn]. Qed.
Lemma dv_fr_state a x s : dv_fr a x -> dv_fr a (x <| c_in_state := s |>).
Proof. intros H. exact H. Qed.

(* ---- the transaction table ---- *)
Lemma dv_tx_put_in c i t : c_in (tx_put c i t) = c_in c /\ c_events (tx_put c i t) = c_events c.
Proof. unfold tx_put. destruct (_ <? _)%nat; [split; reflexivity|]. destruct (_ <? _)%nat; split; reflexivity. Qed.
Lemma dv_same_tx_put c i t : dv_same c (tx_put c i t).
Proof. destruct (dv_tx_put_in c i t) as [A B]. split; [exact B|rewrite A; reflexivity]. Qed.
Lemma dv_same_tx_upd c i f : dv_same c (tx_upd c i f).
Proof. unfold tx_upd. destruct (tx_slot c i); [apply dv_same_tx_put|split; reflexivity]. Qed.
Lemma dv_same_rq_tx_upd f c : dv_same c (rq_tx_upd f c).
Proof. unfold rq_tx_upd. destruct (c_in_tx c); [apply dv_same_tx_upd|split; reflexivity]. Qed.

Ltac dv_ne := reflexivity.
Ltac dv_splits := repeat match goal with
  | |- context [if ?b then _ else _] => destruct b
  | |- context [match ?x with _ => _ end] => destruct x
  end.

(* ---- cursor primitives: no event, receiver hook untouched ---- *)
Lemma dv_same_set_in f c : (forall k, k_receiver_hook (f k) = k_receiver_hook k) -> dv_same c (rq_set_in f c).
Proof. intros H. split; [reflexivity|]. unfold rq_set_in. cbn. apply H. Qed.
Lemma dv_same_fault c : dv_same c (rq_fault c). Proof. split; reflexivity. Qed.
Lemma dv_same_read_byte c : dv_same c (fst (rq_read_byte c)).
Proof. unfold rq_read_byte. dv_splits; split; reflexivity. Qed.
Lemma dv_same_slice c a b : dv_same c (fst (rq_slice c a b)).
Proof. unfold rq_slice. dv_splits; split; reflexivity. Qed.
Lemma dv_same_peek c : dv_same c (rq_peek_next c).
Proof.
  unfold rq_peek_next. destruct (rq_at_end c); [split; reflexivity|].
  pose proof (dv_same_read_byte c) as H. destruct (rq_read_byte c) as [c1 b]. cbn [fst] in H.
  eapply dv_same_trans; [exact H|]. split; reflexivity.
Qed.
Lemma dv_same_copy c c' : rq_copy_byte c = Some c' -> dv_same c c'.
Proof.
  unfold rq_copy_byte. destruct (rq_at_end c); [discriminate|].
  pose proof (dv_same_read_byte c) as H. destruct (rq_read_byte c) as [c1 b]. cbn [fst] in H. intros E. inversion E. subst c'.
  eapply dv_same_trans; [exact H|]. split; reflexivity.
Qed.
Lemma dv_same_next c c' : rq_next_byte c = Some c' -> dv_same c c'.
Proof.
  unfold rq_next_byte. destruct (rq_at_end c); [discriminate|].
  pose proof (dv_same_read_byte c) as H. destruct (rq_read_byte c) as [c1 b]. cbn [fst] in H. intros E. inversion E. subst c'.
  eapply dv_same_trans; [exact H|]. split; reflexivity.
Qed.
Lemma dv_same_clear c : dv_same c (req_clear_buffer c). Proof. split; reflexivity. Qed.

Section FrameReq.
Variable cb : cb_oracle.
Variable g : cfg.
Hypothesis Hcb : wr_all_ok cb.

Lemma dv_same_req_buffer c : dv_same c (snd (req_buffer g c)).
Proof.
  unfold req_buffer. destruct (k_data (c_in c)); [|apply dv_same_refl]. cbv zeta.
  set (c1 := if (k_read (c_in c) <? k_consume (c_in c))%nat then rq_fault c else c).
  assert (H1 : dv_same c c1) by (unfold c1; destruct (k_read (c_in c) <? k_consume (c_in c))%nat; [apply dv_same_fault|apply dv_same_refl]).
  destruct (k_read (c_in c) - k_consume (c_in c) =? 0)%nat; [exact H1|].
  set (c2 := match c_in_tx c1 with Some _ => c1 | None => rq_fault c1 end).
  assert (H2 : dv_same c c2) by (unfold c2; destruct (c_in_tx c1); [exact H1|eapply dv_same_trans; [exact H1|apply dv_same_fault]]).
  destruct (g_field_limit_hard g <? _)%nat; [exact H2|].
  pose proof (dv_same_slice c2 (k_consume (c_in c2)) (k_read (c_in c2))) as H3. destruct (rq_slice c2 _ _) as [c3 piece]. cbn [fst snd] in *.
  eapply dv_same_trans; [exact H2|]. eapply dv_same_trans; [exact H3|]. split; reflexivity.
Qed.
Lemma dv_same_consolidate c : dv_same c (snd (fst (req_consolidate_data g c))).
Proof.
  unfold req_consolidate_data. destruct (k_buf (c_in c)).
  - pose proof (dv_same_req_buffer c) as H. destruct (req_buffer g c) as [[] c1]; exact H.
  - pose proof (dv_same_slice c (k_consume (c_in c)) (k_read (c_in c))) as H. destruct (rq_slice c _ _) as [c1 d]. exact H.
Qed.

(* ---- the raw-data receiver ---- *)
Lemma dv_fr_send last c : dv_fr c (snd (req_receiver_send_data cb last c)).
Proof.
  unfold req_receiver_send_data. destruct (k_receiver_hook (c_in c)) as [h|] eqn:Eh; [|apply dv_fr_refl]. cbv zeta.
  unfold run_data_hook. rewrite (wr_run_hook_ex cb Hcb). cbn [snd].
  intros Hr. assert (Hn : dv_rq_hook h = false) by (apply Hr; exact Eh).
  match goal with |- context [wr_hook_ev h ?i ?d last ?x] => set (c0 := x); set (ii := i); set (dd := d) end.
  assert (H0 : dv_same c c0) by (unfold c0; destruct (_ <? _)%nat; split; reflexivity).
  destruct (dv_same_fr _ _ H0 Hr) as [A0 R0]. destruct (dv_fr_hook h ii dd last c0 Hn R0) as [A1 R1].
  split; [rewrite <- A0, <- A1; reflexivity|exact R1].
Qed.
Lemma dv_fr_finalize c : dv_fr c (snd (req_receiver_finalize_clear cb c)).
Proof.
  unfold req_receiver_finalize_clear. destruct (k_receiver_hook (c_in c)) eqn:Eh; [|apply dv_fr_refl].
  pose proof (dv_fr_send true c) as H. destruct (req_receiver_send_data cb true c) as [rc c1]. cbn [snd] in *.
  intros Hr. destruct (H Hr) as [A R]. split; [exact A|]. unfold dv_rok. cbn. intros h' E'. discriminate E'.
Qed.
Lemma dv_fr_receiver_set h c : dv_rq_hook h = false -> dv_fr c (snd (req_receiver_set cb h c)).
Proof.
  intros Hn. unfold req_receiver_set. pose proof (dv_fr_finalize c) as H. destruct (req_receiver_finalize_clear cb c) as [rc c1]. cbn [snd] in *.
  intros Hr. destruct (H Hr) as [A R]. split; [exact A|]. unfold dv_rok. cbn. intros h' E. inversion E. subst h'. exact Hn.
Qed.
Lemma dv_fr_state_change c : dv_fr c (snd (req_handle_state_change cb c)).
Proof.
  unfold req_handle_state_change. destruct (match c_in_state_previous c with Some s => req_state_eqb s (c_in_state c) | None => false end); [apply dv_fr_refl|].
  set (r := if req_state_eqb (c_in_state c) REQ_HEADERS then _ else (ST_OK, c)).
  assert (H : dv_fr c (snd r)).
  { unfold r. destruct (req_state_eqb (c_in_state c) REQ_HEADERS); [|apply dv_fr_refl].
    set (c1 := match c_in_tx c with Some _ => c | None => rq_fault c end).
    assert (H1 : dv_same c c1) by (unfold c1; destruct (c_in_tx c); [apply dv_same_refl|apply dv_same_fault]).
    cbv zeta. destruct (_ =? _)%Z; [eapply dv_fr_same_l; [exact H1|apply dv_fr_receiver_set; dv_ne]|].
    destruct (_ =? _)%Z; [eapply dv_fr_same_l; [exact H1|apply dv_fr_receiver_set; dv_ne]|]. apply dv_same_fr. exact H1. }
  clearbody r. destruct r as [rc c1]. cbn [snd] in H. destruct rc; cbn [snd]; exact H.
Qed.
Lemma dv_fr_exit rc c : dv_fr c (fst (rq_exit cb g rc c)).
Proof.
  unfold rq_exit. pose proof (dv_fr_send false c) as H.
  destruct rc; try (apply dv_same_fr; split; reflexivity).
  - destruct (req_receiver_send_data cb false c) as [r0 c0]. cbn [snd] in H. cbn [fst]. exact H.
  - destruct (rq_at_end c); apply dv_same_fr; split; reflexivity.
  - destruct (req_receiver_send_data cb false c) as [r0 c0]. cbn [snd] in H.
    pose proof (dv_same_req_buffer c0) as H1. destruct (req_buffer g c0) as [brc c1]. cbn [snd] in H1.
    destruct brc; cbn [fst]; (eapply dv_fr_same_r; [exact H|]); (eapply dv_same_trans; [exact H1|split; reflexivity]).
Qed.
End FrameReq.

(* ---- the state functions that never call the body-data dispatch ---- *)
Section FrameReqStates.
Variable cb : cb_oracle.
Variable g : cfg.
Hypothesis Hcb : wr_all_ok cb.

Lemma dv_fr_run_hook h i c : dv_rq_hook h = false -> dv_fr c (snd (run_hook cb h i c)).
Proof. intros Hn. rewrite (wr_run_hook cb Hcb). cbn [snd]. apply dv_fr_hook. exact Hn. Qed.
Lemma dv_same_tx_create c : dv_same c (snd (connp_tx_create g c)).
Proof. unfold connp_tx_create. cbv zeta. dv_splits; split; reflexivity. Qed.
Lemma dv_fr_request_start i c : dv_fr c (snd (tx_state_request_start cb i c)).
Proof.
  unfold tx_state_request_start. rewrite (wr_run_hook cb Hcb). cbn [snd].
  assert (H0 : dv_fr c (wr_hook_ev H_REQUEST_START i None false c <| c_in_state := REQ_LINE |>)) by (apply dv_fr_state, dv_fr_hook; dv_ne).
  match goal with |- dv_fr c (match c_in_tx ?x with _ => _ end) => destruct (c_in_tx x) end.
  - eapply dv_fr_same_r; [exact H0|apply dv_same_tx_upd].
  - eapply dv_fr_same_r; [exact H0|split; reflexivity].
Qed.
Lemma dv_fr_idle c : dv_fr c (snd (REQ_IDLE_fn cb g c)).
Proof.
  unfold REQ_IDLE_fn. destruct (rq_at_end c); [apply dv_fr_refl|].
  pose proof (dv_same_tx_create c) as H. destruct (connp_tx_create g c) as [[i|] c1]; cbn [snd] in H.
  - eapply dv_fr_same_l; [exact H|apply dv_fr_request_start].
  - apply dv_same_fr. eapply dv_same_trans; [exact H|split; reflexivity].
Qed.
Lemma dv_fr_request_line i c : dv_fr c (snd (tx_state_request_line cb g i c)).
Proof.
  unfold tx_state_request_line. cbv zeta. destruct (rq_uri_pipeline_opt _ _ _ _) as [t'|]; [|apply dv_fr_refl].
  rewrite (wr_run_hook cb Hcb). rewrite (wr_run_hook cb Hcb). cbn [snd].
  apply dv_fr_state. apply dv_fr_hook_r; [dv_ne|]. apply dv_fr_hook_r; [dv_ne|]. apply dv_same_fr, dv_same_tx_put.
Qed.
Lemma dv_fr_with_tx f c : (forall i c0, dv_fr c0 (snd (f i c0))) -> dv_fr c (snd (rq_with_tx f c)).
Proof. intros H. unfold rq_with_tx. destruct (c_in_tx c); [apply H|apply dv_fr_refl]. Qed.
Lemma dv_fr_line_complete c : dv_fr c (snd (REQ_LINE_complete cb g c)).
Proof.
  unfold REQ_LINE_complete. pose proof (dv_same_consolidate g c) as H. destruct (req_consolidate_data g c) as [[rc c1] data]. cbn [fst snd] in H.
  destruct rc; try (apply dv_same_fr; exact H).
  destruct data as [|b data]; [apply dv_same_fr; eapply dv_same_trans; [exact H|apply dv_same_clear]|].
  destruct (htp_is_line_ignorable _ _).
  - apply dv_same_fr. eapply dv_same_trans; [exact H|]. eapply dv_same_trans; [apply dv_same_rq_tx_upd|apply dv_same_clear].
  - cbv zeta. match goal with |- context [rq_with_tx ?f ?x] => pose proof (dv_fr_with_tx f x (dv_fr_request_line)) as H2; set (c2 := x) in *; assert (H1 : dv_same c c2) by (eapply dv_same_trans; [exact H|apply dv_same_rq_tx_upd]);
      destruct (rq_with_tx f c2) as [rc3 c3] end.
    cbn [snd] in H2. eapply dv_fr_same_l; [exact H1|]. destruct rc3; cbn [snd]; exact H2.
Qed.
Lemma dv_fr_line_loop : forall n c, dv_fr c (snd (REQ_LINE_loop cb g n c)).
Proof.
  assert (Step : forall c (K : connp -> st * connp), (forall x, dv_fr x (snd (K x))) ->
            dv_fr c (snd (let c := rq_peek_next c in
                          if (c_in_status c =? c_HTP_STREAM_CLOSED)%Z && match k_next_byte (c_in c) with None => true | Some _ => false end
                          then REQ_LINE_complete cb g c
                          else match rq_copy_byte c with
                               | None => (ST_DATA_BUFFER, c)
                               | Some c => if rq_next_is c LF then REQ_LINE_complete cb g c else K c
                               end))).
  { intros c K HK. cbv zeta. pose proof (dv_same_peek c) as Hp. set (c1 := rq_peek_next c) in *.
    destruct ((c_in_status c1 =? c_HTP_STREAM_CLOSED)%Z && _); [eapply dv_fr_same_l; [exact Hp|apply dv_fr_line_complete]|].
    destruct (rq_copy_byte c1) as [c2|] eqn:Ec; [|apply dv_same_fr; exact Hp].
    pose proof (dv_same_copy _ _ Ec) as H2. pose proof (dv_same_trans _ _ _ Hp H2) as H3.
    destruct (rq_next_is c2 LF); [eapply dv_fr_same_l; [exact H3|apply dv_fr_line_complete]|].
    eapply dv_fr_same_l; [exact H3|apply HK]. }
  induction n as [|n IH]; intros c.
  - apply (Step c (fun x => (ST_DATA_BUFFER, rq_fault x))). intros x. apply dv_same_fr, dv_same_fault.
  - apply (Step c (fun x => REQ_LINE_loop cb g n x)). exact IH.
Qed.
Lemma dv_fr_protocol c : dv_fr c (snd (REQ_PROTOCOL_fn c)).
Proof.
  assert (Hh : forall x, dv_same x (rq_to_headers x)).
  { intros x. unfold rq_to_headers. eapply dv_same_trans; [|apply dv_same_rq_tx_upd]. split; reflexivity. }
  apply dv_same_fr. unfold REQ_PROTOCOL_fn. destruct (negb _); [apply Hh|]. cbv zeta.
  destruct (_ <? _)%nat; [eapply dv_same_trans; [apply dv_same_rq_tx_upd|apply Hh]|].
  pose proof (dv_same_slice c (k_read (c_in c)) (k_len (c_in c))) as H. destruct (rq_slice c _ _) as [c1 rest]. cbn [fst] in H.
  destruct (forallb htp_is_space rest); cbn [snd]; [eapply dv_same_trans; [exact H|split; reflexivity]|].
  eapply dv_same_trans; [exact H|]. eapply dv_same_trans; [apply dv_same_rq_tx_upd|apply Hh].
Qed.

Lemma dv_same_process_header line c : dv_same c (rq_process_header line c).
Proof. apply dv_same_rq_tx_upd. Qed.
Lemma dv_same_flush_header c : dv_same c (rq_flush_header c).
Proof.
  unfold rq_flush_header. destruct (k_header (c_in c)); [|apply dv_same_refl].
  eapply dv_same_trans; [apply dv_same_process_header|split; reflexivity].
Qed.
Lemma dv_fr_process_request_headers i c : dv_fr c (snd (tx_process_request_headers cb i c)).
Proof.
  unfold tx_process_request_headers. cbv zeta.
  assert (G : forall c1, dv_same c c1 -> dv_fr c (snd (match req_receiver_finalize_clear cb c1 with (ST_OK, c2) => run_hook cb H_REQUEST_HEADERS i c2 | r => r end))).
  { intros c1 H1. pose proof (dv_fr_finalize cb Hcb c1) as H2. destruct (req_receiver_finalize_clear cb c1) as [rc c2]. cbn [snd] in H2.
    eapply dv_fr_same_l; [exact H1|]. destruct rc; cbn [snd]; try exact H2.
    eapply dv_fr_trans; [exact H2|apply dv_fr_run_hook; dv_ne]. }
  destruct (t_parsed_uri _); apply G; (eapply dv_same_trans; [apply dv_same_tx_put|split; reflexivity]).
Qed.
Lemma dv_fr_request_headers i c : dv_fr c (snd (tx_state_request_headers cb i c)).
Proof.
  unfold tx_state_request_headers. cbv zeta. destruct (_ <? _)%Z.
  - rewrite (wr_run_hook cb Hcb).
    match goal with |- context [req_receiver_finalize_clear cb ?x] => pose proof (dv_fr_finalize cb Hcb x) as H2; assert (H1 : dv_fr c x) by (apply dv_fr_hook; dv_ne);
      destruct (req_receiver_finalize_clear cb x) as [rc c2] end.
    cbn [snd] in H2. pose proof (dv_fr_trans _ _ _ H1 H2) as H3. destruct rc; cbn [snd]; exact H3.
  - destruct (_ <=? _)%Z; [|apply dv_fr_refl].
    match goal with |- context [tx_process_request_headers cb i ?x] => pose proof (dv_fr_process_request_headers i x) as H2; set (c1 := x) in * end.
    assert (H1 : dv_same c c1) by (unfold c1; destruct (negb _); [apply dv_same_tx_upd|apply dv_same_refl]).
    destruct (tx_process_request_headers cb i c1) as [rc c2]. cbn [snd] in H2. pose proof (dv_fr_same_l _ _ _ H1 H2) as H3.
    destruct rc; cbn [snd]; exact H3.
Qed.
Lemma dv_fr_header_line c : dv_fr c (snd (rq_header_line cb g c)) /\
  match fst (rq_header_line cb g c) with Some r => dv_fr c (snd r) | None => True end.
Proof.
  unfold rq_header_line. pose proof (dv_same_consolidate g c) as H. destruct (req_consolidate_data g c) as [[rc c1] data]. cbn [fst snd] in H.
  destruct rc; cbn [fst snd]; try (split; apply dv_same_fr; exact H).
  destruct (htp_is_line_terminator _ _ _).
  - cbv zeta. cbn [fst snd].
    assert (H1 : dv_same c (req_clear_buffer (rq_flush_header c1))).
    { eapply dv_same_trans; [exact H|]. eapply dv_same_trans; [apply dv_same_flush_header|apply dv_same_clear]. }
    split; [apply dv_same_fr; exact H1|]. eapply dv_fr_same_l; [exact H1|]. apply dv_fr_with_tx. intros i c0. apply dv_fr_request_headers.
  - cbv zeta. cbn [fst snd]. split; [|exact I]. apply dv_same_fr. eapply dv_same_trans; [exact H|]. eapply dv_same_trans; [|apply dv_same_clear].
    destruct (_ =? 0)%Z.
    + pose proof (dv_same_trans _ _ _ (dv_same_flush_header c1) (dv_same_peek (rq_flush_header c1))) as H2.
      destruct (k_next_byte _) as [b|]; [destruct (negb _)|].
      * eapply dv_same_trans; [exact H2|apply dv_same_process_header].
      * eapply dv_same_trans; [exact H2|split; reflexivity].
      * eapply dv_same_trans; [exact H2|split; reflexivity].
    + destruct (k_header (c_in c1)) as [h|].
      * destruct (_ <? _)%Z; [split; reflexivity|apply dv_same_refl].
      * eapply dv_same_trans; [apply dv_same_rq_tx_upd|split; reflexivity].
Qed.
Lemma dv_fr_headers_loop : forall n c, dv_fr c (snd (REQ_HEADERS_loop cb g n c)).
Proof.
  assert (Step : forall c (K : connp -> st * connp), (forall x, dv_fr x (snd (K x))) ->
            dv_fr c (snd (if (c_in_status c =? c_HTP_STREAM_CLOSED)%Z then
                            let c := req_clear_buffer (rq_flush_header c) in
                            let c := rq_tx_upd (fun t => t <| t_request_progress := c_HTP_REQUEST_TRAILER |>) c in
                            rq_with_tx (tx_state_request_headers cb) c
                          else match rq_copy_byte c with
                               | None => (ST_DATA_BUFFER, c)
                               | Some c => let '(ret, c) := if rq_next_is c LF then rq_header_line cb g c else (None, c) in
                                           match ret with Some r => r | None => K c end
                               end))).
  { intros c K HK. destruct (c_in_status c =? c_HTP_STREAM_CLOSED)%Z.
    - cbv zeta. eapply dv_fr_same_l; [|apply dv_fr_with_tx; intros i c0; apply dv_fr_request_headers].
      eapply dv_same_trans; [apply dv_same_flush_header|]. eapply dv_same_trans; [apply dv_same_clear|apply dv_same_rq_tx_upd].
    - destruct (rq_copy_byte c) as [c2|] eqn:Ec; [|apply dv_fr_refl]. pose proof (dv_same_copy _ _ Ec) as H2.
      eapply dv_fr_same_l; [exact H2|]. destruct (rq_next_is c2 LF).
      + destruct (dv_fr_header_line c2) as [A B]. destruct (rq_header_line cb g c2) as [[r|] c3]; cbn [fst snd] in *; [exact B|].
        eapply dv_fr_trans; [exact A|apply HK].
      + apply HK. }
  induction n as [|n IH]; intros c.
  - apply (Step c (fun x => (ST_DATA_BUFFER, rq_fault x))). intros x. apply dv_same_fr, dv_same_fault.
  - apply (Step c (fun x => REQ_HEADERS_loop cb g n x)). exact IH.
Qed.
Lemma dv_fr_connect_check c : dv_fr c (snd (REQ_CONNECT_CHECK_fn c)).
Proof. unfold REQ_CONNECT_CHECK_fn. destruct (_ =? _)%Z; apply dv_same_fr; split; reflexivity. Qed.
Lemma dv_fr_body_determine c : dv_fr c (snd (REQ_BODY_DETERMINE_fn c)).
Proof.
  apply dv_same_fr. unfold REQ_BODY_DETERMINE_fn. cbv zeta. destruct (_ =? _)%Z; [eapply dv_same_trans; [|apply dv_same_rq_tx_upd]; split; reflexivity|].
  destruct (_ =? _)%Z; [|destruct (_ =? _)%Z; split; reflexivity].
  destruct (negb _); [eapply dv_same_trans; [|apply dv_same_rq_tx_upd]; split; reflexivity|split; reflexivity].
Qed.
Lemma dv_fr_chunked_length_loop : forall n c, dv_fr c (snd (REQ_BODY_CHUNKED_LENGTH_loop g n c)).
Proof.
  assert (Step : forall c (K : connp -> st * connp), (forall x, dv_fr x (snd (K x))) ->
            dv_fr c (snd (match rq_copy_byte c with
                          | None => (ST_DATA_BUFFER, c)
                          | Some c =>
                            if rq_next_is c LF then
                              match req_consolidate_data g c with
                              | (ST_OK, c, data) =>
                                let c := rq_tx_upd (fun t => t <| t_request_message_len ::= Z.add (Z.of_nat (length data)) |>) c in
                                let '(v, _) := parse_chunked_length (htp_chomp data) in
                                let c := req_clear_buffer (c <| c_in_chunked_length := v |>) in
                                if (0 <? v)%Z then (ST_OK, c <| c_in_state := REQ_BODY_CHUNKED_DATA |>)
                                else if (v =? 0)%Z then
                                  (ST_OK, rq_tx_upd (fun t => t <| t_request_progress := c_HTP_REQUEST_TRAILER |>) (c <| c_in_state := REQ_HEADERS |>))
                                else (ST_ERROR, c)
                              | (_, c, _) => (ST_ERROR, c)
                              end
                            else K c
                          end))).
  { intros c K HK. destruct (rq_copy_byte c) as [c2|] eqn:Ec; [|apply dv_fr_refl]. pose proof (dv_same_copy _ _ Ec) as H2.
    eapply dv_fr_same_l; [exact H2|]. destruct (rq_next_is c2 LF); [|apply HK]. apply dv_same_fr.
    pose proof (dv_same_consolidate g c2) as H. destruct (req_consolidate_data g c2) as [[rc c3] data]. cbn [fst snd] in H.
    destruct rc; cbn [snd]; try exact H. cbv zeta. destruct (parse_chunked_length _) as [v o].
    assert (H4 : dv_same c2 (req_clear_buffer (rq_tx_upd (fun t => t <| t_request_message_len ::= Z.add (Z.of_nat (length data)) |>) c3 <| c_in_chunked_length := v |>))).
    { eapply dv_same_trans; [exact H|]. eapply dv_same_trans; [apply dv_same_rq_tx_upd|split; reflexivity]. }
    destruct (0 <? v)%Z; [exact H4|]. destruct (v =? 0)%Z; [|exact H4]. cbn [snd].
    eapply dv_same_trans; [exact H4|]. eapply dv_same_trans; [|apply dv_same_rq_tx_upd]. split; reflexivity. }
  induction n as [|n IH]; intros c.
  - apply (Step c (fun x => (ST_DATA_BUFFER, rq_fault x))). intros x. apply dv_same_fr, dv_same_fault.
  - apply (Step c (fun x => REQ_BODY_CHUNKED_LENGTH_loop g n x)). exact IH.
Qed.
Lemma dv_fr_chunked_data_end_loop : forall n c, dv_fr c (snd (REQ_BODY_CHUNKED_DATA_END_loop n c)).
Proof.
  assert (Step : forall c (K : connp -> st * connp), (forall x, dv_fr x (snd (K x))) ->
            dv_fr c (snd (match rq_next_byte c with
                          | None => (ST_DATA, c)
                          | Some c =>
                            let c := rq_tx_upd (fun t => t <| t_request_message_len ::= Z.add 1 |>) c in
                            if rq_next_is c LF then (ST_OK, c <| c_in_state := REQ_BODY_CHUNKED_LENGTH |>) else K c
                          end))).
  { intros c K HK. destruct (rq_next_byte c) as [c2|] eqn:Ec; [|apply dv_fr_refl]. pose proof (dv_same_next _ _ Ec) as H2. cbv zeta.
    pose proof (dv_same_trans _ _ _ H2 (dv_same_rq_tx_upd (fun t => t <| t_request_message_len ::= Z.add 1 |>) c2)) as H3.
    destruct (rq_next_is _ LF); [apply dv_same_fr; exact H3|]. eapply dv_fr_same_l; [exact H3|apply HK]. }
  induction n as [|n IH]; intros c.
  - apply (Step c (fun x => (ST_DATA, rq_fault x))). intros x. apply dv_same_fr, dv_same_fault.
  - apply (Step c (fun x => REQ_BODY_CHUNKED_DATA_END_loop n x)). exact IH.
Qed.

(* the states whose pass never reaches the body-data dispatch *)
Definition dv_quiet (s : req_state) : bool :=
  match s with
  | REQ_IDLE | REQ_LINE | REQ_PROTOCOL | REQ_HEADERS | REQ_CONNECT_CHECK | REQ_BODY_DETERMINE
  | REQ_BODY_CHUNKED_LENGTH | REQ_BODY_CHUNKED_DATA_END => true
  | _ => false
  end.
Lemma dv_fr_state_fn s c : dv_quiet s = true -> dv_fr c (snd (rq_state_fn cb g s c)).
Proof.
  destruct s; try discriminate; intros _; cbn [rq_state_fn].
  - apply dv_fr_idle.
  - apply dv_fr_line_loop.
  - apply dv_fr_protocol.
  - apply dv_fr_headers_loop.
  - apply dv_fr_connect_check.
  - apply dv_fr_body_determine.
  - apply dv_fr_chunked_length_loop.
  - apply dv_fr_chunked_data_end_loop.
Qed.
(* what rq_iter does around the state function *)
(* relative to the state the state function returned *)
Lemma dv_iter_after c r c1 : rq_state_fn cb g (c_in_state c) c = (r, c1) ->
  match rq_iter cb g false c with inl (c', _) => dv_fr c1 c' | inr c' => dv_fr c1 c' end.
Proof.
  intros E. unfold rq_iter. rewrite E. cbv beta iota zeta.
  assert (X : forall rc x, dv_fr c1 x -> match @inl (connp * Z) connp (rq_exit cb g rc x) with inl (c', _) => dv_fr c1 c' | inr c' => dv_fr c1 c' end).
  { intros rc x Hx. pose proof (dv_fr_trans _ _ _ Hx (dv_fr_exit cb g Hcb rc x)) as Hy. destruct (rq_exit cb g rc x) as [c' z]. exact Hy. }
  destruct r; try (apply X; apply dv_fr_refl).
  destruct (_ =? _)%Z; [apply dv_fr_refl|].
  pose proof (dv_fr_state_change cb Hcb c1) as H2. destruct (req_handle_state_change cb c1) as [rc2 c2]. cbn [snd] in H2.
  destruct rc2; try (apply X; exact H2). exact H2.
Qed.
Lemma dv_iter_after_inr c r c1 c' : rq_state_fn cb g (c_in_state c) c = (r, c1) -> rq_iter cb g false c = inr c' -> dv_rok c1 -> dv_rb c' = dv_rb c1 /\ dv_rok c'.
Proof. intros E Ei. pose proof (dv_iter_after c r c1 E) as H. rewrite Ei in H. exact H. Qed.
Lemma dv_iter_after_inl c r c1 c' rc : rq_state_fn cb g (c_in_state c) c = (r, c1) -> rq_iter cb g false c = inl (c', rc) -> dv_rok c1 -> dv_rb c' = dv_rb c1 /\ dv_rok c'.
Proof. intros E Ei. pose proof (dv_iter_after c r c1 E) as H. rewrite Ei in H. exact H. Qed.
Lemma dv_fr_iter_gen c r c1 : rq_state_fn cb g (c_in_state c) c = (r, c1) -> dv_fr c c1 ->
  match rq_iter cb g false c with inl (c', _) => dv_fr c c' | inr c' => dv_fr c c' end.
Proof.
  intros E H. pose proof (dv_iter_after c r c1 E) as H2. destruct (rq_iter cb g false c) as [[c' z]|c']; eapply dv_fr_trans; eassumption.
Qed.
Lemma dv_fr_iter c : dv_quiet (c_in_state c) = true ->
  match rq_iter cb g false c with inl (c', _) => dv_fr c c' | inr c' => dv_fr c c' end.
Proof.
  intros Hq. pose proof (dv_fr_state_fn (c_in_state c) c Hq) as H. destruct (rq_state_fn cb g (c_in_state c) c) as [r c1] eqn:E. cbn [snd] in H.
  apply (dv_fr_iter_gen c r c1 E H).
Qed.
Lemma dv_fr_iter_inr c c' : dv_quiet (c_in_state c) = true -> rq_iter cb g false c = inr c' -> dv_rok c -> dv_rb c' = dv_rb c /\ dv_rok c'.
Proof. intros Hq E. pose proof (dv_fr_iter c Hq) as H. rewrite E in H. exact H. Qed.
Lemma dv_fr_iter_inl c c' rc : dv_quiet (c_in_state c) = true -> rq_iter cb g false c = inl (c', rc) -> dv_rok c -> dv_rb c' = dv_rb c /\ dv_rok c'.
Proof. intros Hq E. pose proof (dv_fr_iter c Hq) as H. rewrite E in H. exact H. Qed.
End FrameReqStates.
