(* C07, faithfulness for a CHAIN of gzip/deflate layers (Content-Encoding: "gzip, gzip", "deflate, gzip", ...), relative to the
   same inflate contract as Proof/PDecomp.v (Section Faithful), one contract instance per layer.

   The external world of a chain. The model asks ONE oracle (type OT) one question per external call and a question does not say
   which z_stream it is about (in C that is the pointer handed to inflate). With one layer that does not matter; with several
   layers the decoder states are independent, so the oracle of a chain is the LIST of the layers' decoder states (one entry per
   inflateInit2_, in chain order) plus what is needed to tell which layer is asking: per layer the fill of its output buffer and
   whether its inflate loop still has input. This bookkeeping follows the C control flow (a layer asks until its input is used up;
   a full output buffer is handed to the next layer before the layer asks again, a stream end hands over what is buffered) and
   is part of the hypothesis "each layer is served by its own decoder"; the theorems below show that under it every question of
   layer k is answered by decoder k. *)
Require Import Htp.Model.Base Htp.Model.MBstr Htp.Model.MDecomp Htp.Proof.PDecomp.
Local Open Scope Z_scope.

Section Router.
Variable zst : Type.
Variable zinit : Z -> zst.
Variable zinflate : zst -> bytes -> nat -> zst * nat * bytes * Z.

Record dzl_rs := mk_dzl_rs { rs_z : zst; rs_fill : nat; rs_pend : bool }.

Definition dzl_busy (o : list dzl_rs) : bool := existsb rs_pend o.

(* a decompress call with non-empty data begins on this part of the chain: a full buffer is handed on first *)
Fixpoint dzl_start (o : list dzl_rs) : list dzl_rs :=
  match o with
  | [] => []
  | h :: t => if (rs_fill h =? dz_BUF)%nat then mk_dzl_rs (rs_z h) 0 true :: dzl_start t
              else mk_dzl_rs (rs_z h) (rs_fill h) true :: t
  end.

Definition dzl_noans : dz_ans := mk_dz_ans 0 [] c_dz_Z_STREAM_ERROR 0.

(* an inflate call: it comes from the deepest layer whose loop is running *)
Fixpoint dzl_route (o : list dzl_rs) (inp : bytes) (ao : nat) : dz_ans * list dzl_rs :=
  match o with
  | [] => (dzl_noans, [])
  | h :: t =>
    if dzl_busy t then let '(a, t') := dzl_route t inp ao in (a, h :: t')
    else
      let '(z', cn, out, rc) := zinflate (rs_z h) inp ao in
      let fill' := (rs_fill h + length (firstn ao out))%nat in
      let a := mk_dz_ans cn out rc 0 in
      if rc =? c_dz_Z_STREAM_END then (a, mk_dzl_rs z' 0 false :: (if (0 <? fill')%nat then dzl_start t else t))
      else
        let more := (rc =? c_dz_Z_OK) && (Nat.min cn (length inp) <? length inp)%nat in
        if more && (fill' =? dz_BUF)%nat then (a, mk_dzl_rs z' 0 true :: dzl_start t)
        else (a, mk_dzl_rs z' fill' more :: t)
  end.

Definition dzl_ask (o : list dzl_rs) (q : dz_query) : dz_ans * list dzl_rs :=
  match q with
  | QInit wb => (mk_dz_ans 0 [] c_dz_Z_OK 0, o ++ [mk_dzl_rs (zinit wb) 0 false])
  | QInflate inp ao => dzl_route (if dzl_busy o then o else dzl_start o) inp ao
  | _ => (mk_dz_ans 0 [] 0 0, o)
  end.
End Router.
Arguments rs_z {zst}. Arguments rs_fill {zst}. Arguments rs_pend {zst}.

(* ------------------------------------------------------------------ a nestable toy decoder (run-length records) *)
(* stream = records [k; b] (k > 0: k copies of b) closed by one byte 0. One small step per call. *)
Inductive dzl_toy := TyH | TyC (k : nat) | TyR (k : nat) (b : N) | TyDone.
Definition dzl_toy_init (wb : Z) : dzl_toy := TyH.
Definition dzl_toy_inflate (z : dzl_toy) (offered : bytes) (ao : nat) : dzl_toy * nat * bytes * Z :=
  match z with
  | TyH => match offered with
           | [] => (z, O, [], c_dz_Z_OK)
           | k :: _ => if (k =? 0)%N then (TyDone, 1%nat, [], c_dz_Z_STREAM_END) else (TyC (N.to_nat k), 1%nat, [], c_dz_Z_OK)
           end
  | TyC k => match offered with [] => (z, O, [], c_dz_Z_OK) | b :: _ => (TyR k b, 1%nat, [], c_dz_Z_OK) end
  | TyR k b => if (k <=? ao)%nat then (TyH, O, repeat b k, c_dz_Z_OK) else (TyR (k - ao) b, O, repeat b ao, c_dz_Z_OK)
  | TyDone => (TyDone, O, [], c_dz_Z_STREAM_END)
  end.

(* the decoding function of the format (pk = the count byte already read) *)
Fixpoint dzl_toy_dec (pk : option nat) (s : bytes) : option bytes :=
  match s with
  | [] => None
  | x :: r =>
    match pk with
    | None => if (x =? 0)%N then (match r with [] => Some [] | _ :: _ => None end) else dzl_toy_dec (Some (N.to_nat x)) r
    | Some k => match dzl_toy_dec None r with Some p => Some (repeat x k ++ p) | None => None end
    end
  end.
Definition dzl_toy_valid (z : dzl_toy) (s p : bytes) : Prop :=
  match z with
  | TyH => dzl_toy_dec None s = Some p
  | TyC k => (0 < k)%nat /\ dzl_toy_dec (Some k) s = Some p
  | TyR k b => (0 < k)%nat /\ exists p', dzl_toy_dec None s = Some p' /\ p = repeat b k ++ p'
  | TyDone => False
  end.

(* greedy encoder, runs of at most 255 *)
Fixpoint dzl_toy_enc_go (cur : N) (cnt : nat) (p : bytes) : bytes :=
  match p with
  | [] => [N.of_nat cnt; cur; 0%N]
  | x :: r => if (x =? cur)%N && (cnt <? 255)%nat then dzl_toy_enc_go cur (S cnt) r
              else N.of_nat cnt :: cur :: dzl_toy_enc_go x 1 r
  end.
Definition dzl_toy_enc (p : bytes) : bytes := match p with [] => [0%N] | x :: r => dzl_toy_enc_go x 1 r end.

(* ------------------------------------------------------------------ Part 1: a chain of layers is faithful *)
Section LayersFaithful.
Variable zst : Type.
Variable zinit : Z -> zst.
Variable zinflate : zst -> bytes -> nat -> zst * nat * bytes * Z.
Variable zvalid : zst -> bytes -> bytes -> Prop.
(* the inflate contract of PDecomp.v (Hz2), verbatim *)
Hypothesis Hz2 : forall z s pp offered rest ao,
  zvalid z s pp -> s = offered ++ rest -> offered <> [] -> (0 < ao)%nat ->
  let '(z', cn, out, rc) := zinflate z offered ao in
  (cn <= length offered)%nat /\ (length out <= ao)%nat /\ exists p', pp = out ++ p' /\
  ((rc = c_dz_Z_OK /\ zvalid z' (skipn cn s) p' /\ (0 < cn + length out)%nat /\ skipn cn s <> []) \/
   (rc = c_dz_Z_STREAM_END /\ skipn cn s = [] /\ p' = [])).

Variable c : dz_cfg.
Variable t0 : Z * Z.
Hypothesis Hclock : forall k, dc_clock c k = t0.
Hypothesis Htlimit : 0 <= dc_tlimit c.
Hypothesis Hhook : forall k, dc_hook c k = c_HTP_OK.
Variable p : bytes.                                   (* the payload delivered by the last layer *)
Hypothesis Hbomb : Z.of_nat (length p) <= dc_bomb c.
Hypothesis Hfuel0 : (0 < dc_fuel c)%nat.

Notation OT := (list (dzl_rs zst)).
Notation ask := (dzl_ask zst zinit zinflate).
Notation route := (dzl_route zst zinflate).
Notation start := (dzl_start zst).
Notation busy := (dzl_busy zst).
Notation world := (dz_world (list (dzl_rs zst))).
Notation mkrs := (mk_dzl_rs zst).

Ltac wsimpl := cbn [w_o w_entity w_message w_events w_nhook w_nclock w_nbcb w_tbefore w_tspent w_tpass w_trace w_late
                    w_set_o w_set_entity w_set_message w_push_event w_tick_clock w_set_nbcb w_set_tbefore w_set_tspent
                    w_set_tpass w_set_trace w_set_late
                    dz_pass dz_restart dz_zinit dz_obuf dz_hlen dz_fed
                    dz_set_pass dz_set_restart dz_set_zinit dz_set_obuf dz_set_hlen dz_set_fed fst snd
                    rs_z rs_fill rs_pend] in *.
Ltac csplit := repeat match goal with |- _ /\ _ => split end.

(* ---- the router *)
Definition dzl_route0 (O : OT) (inp : bytes) (ao : nat) : dz_ans * OT := route (if busy O then O else start O) inp ao.
(* questions put to the world O are answered by the part cur of the chain; ups is what lies above it *)
Definition dzl_acc (ups O cur : OT) : Prop :=
  forall inp ao, dzl_route0 O inp ao = (fst (route cur inp ao), ups ++ snd (route cur inp ao)).

Lemma dzl_busy_app (a b : OT) : busy (a ++ b) = busy a || busy b.
Proof. unfold dzl_busy. apply existsb_app. Qed.

Lemma dzl_route_pass (ups : OT) : forall os inp ao, busy os = true ->
  route (ups ++ os) inp ao = (fst (route os inp ao), ups ++ snd (route os inp ao)).
Proof.
  induction ups as [|u ups IH]; intros os inp ao Hb; cbn [app].
  - destruct (route os inp ao); reflexivity.
  - cbn [dzl_route]. rewrite dzl_busy_app, Hb, orb_true_r. rewrite (IH os inp ao Hb). reflexivity.
Qed.

Lemma dzl_acc_of_eq (ups os : OT) : busy os = true -> dzl_acc ups (ups ++ os) os.
Proof.
  intros Hb inp ao. unfold dzl_route0. rewrite dzl_busy_app, Hb, orb_true_r. apply dzl_route_pass. exact Hb.
Qed.

Lemma dzl_acc_down (ups O : OT) h t : dzl_acc ups O (h :: t) -> busy t = true -> dzl_acc (ups ++ [h]) O t.
Proof.
  intros H Hb inp ao. rewrite (H inp ao). cbn [dzl_route]. rewrite Hb. destruct (route t inp ao) as [a t'].
  cbn [fst snd]. rewrite <- app_assoc. reflexivity.
Qed.

Lemma dzl_acc_top (O : OT) : busy O = false -> dzl_acc [] O (start O).
Proof. intros Hb inp ao. unfold dzl_route0. rewrite Hb. destruct (route (start O) inp ao); reflexivity. Qed.

Lemma dzl_busy_start (os : OT) : os <> [] -> busy (start os) = true.
Proof. destruct os as [|h t]; [congruence|]. intros _. cbn [dzl_start]. destruct (rs_fill h =? dz_BUF)%nat; reflexivity. Qed.

Lemma dzl_route_own h t inp ao z' cn out rc :
  busy t = false -> zinflate (rs_z h) inp ao = (z', cn, out, rc) ->
  route (h :: t) inp ao =
  (mk_dz_ans cn out rc 0,
   if rc =? c_dz_Z_STREAM_END then mkrs z' 0 false :: (if (0 <? rs_fill h + length (firstn ao out))%nat then start t else t)
   else if ((rc =? c_dz_Z_OK) && (Nat.min cn (length inp) <? length inp)%nat) && (rs_fill h + length (firstn ao out) =? dz_BUF)%nat
        then mkrs z' 0 true :: start t
        else mkrs z' (rs_fill h + length (firstn ao out)) ((rc =? c_dz_Z_OK) && (Nat.min cn (length inp) <? length inp)%nat) :: t).
Proof.
  intros Hb Hz. cbn [dzl_route]. rewrite Hb, Hz. destruct (rc =? c_dz_Z_STREAM_END); [reflexivity|].
  destruct (((rc =? c_dz_Z_OK) && (Nat.min cn (length inp) <? length inp)%nat) && (rs_fill h + length (firstn ao out) =? dz_BUF)%nat); reflexivity.
Qed.

(* ---- the invariant of an idle chain *)
Definition dzl_gd (f : Z) : Prop := f = c_dz_COMPRESSION_GZIP \/ f = c_dz_COMPRESSION_DEFLATE.
Definition dzl_WOK (w : world) : Prop := dz_BW OT t0 w /\ w_entity OT w = Z.of_nat (length (dz_devs w)).

(* B: bound on the data one call hands to the first layer of ls. s: what this part of the chain still has to be given;
   q: what the body callback still has to get *)
Fixpoint dzl_CH (B : nat) (ls : list dz_layer) (os : OT) (s q : bytes) {struct ls} : Prop :=
  match ls, os with
  | [], [] => s = q
  | l :: ls', o :: os' =>
    dz_pass l = false /\ dzl_gd (dz_zinit l) /\ rs_fill o = length (dz_obuf l) /\ rs_pend o = false /\ (length (dz_obuf l) <= dz_BUF)%nat /\
    ((s <> [] /\ exists pk, zvalid (rs_z o) s pk /\ (B + length pk < dc_fuel c)%nat /\ dzl_CH dz_BUF ls' os' (dz_obuf l ++ pk) q) \/
     (s = [] /\ dz_obuf l = [] /\ dzl_CH dz_BUF ls' os' [] q))
  | _, _ => False
  end.

Lemma dzl_CH_idle ls : forall B os s q, dzl_CH B ls os s q -> busy os = false /\ length os = length ls.
Proof.
  induction ls as [|l ls IH]; intros B os s q H; destruct os as [|o os]; cbn [dzl_CH] in H; try contradiction.
  - split; reflexivity.
  - destruct H as (_ & _ & _ & Hp & _ & [(_ & pk & _ & _ & H)|(_ & _ & H)]); destruct (IH _ _ _ _ H) as [Hb Hl];
      cbn [dzl_busy existsb length]; fold (busy os); rewrite Hp, Hb; auto.
Qed.

Lemma dzl_CH_done ls : forall B os q, dzl_CH B ls os [] q -> q = [] /\ Forall (fun l => dz_obuf l = [] /\ dz_pass l = false /\ dzl_gd (dz_zinit l)) ls.
Proof.
  induction ls as [|l ls IH]; intros B os q H; destruct os as [|o os]; cbn [dzl_CH] in H; try contradiction.
  - split; auto.
  - destruct H as (Hp & Hg & _ & _ & _ & [(Hne & _)|(_ & Hob & H)]); [congruence|].
    destruct (IH _ _ _ H) as [Hq Hall]. split; auto.
Qed.

Lemma dzl_gd_facts f : dzl_gd f -> (f =? c_dz_COMPRESSION_LZMA) = false /\ (f =? 0) = false.
Proof. intros [-> | ->]; split; reflexivity. Qed.

Lemma dzl_BUF_pos : (0 < dz_BUF)%nat.
Proof. pose proof dz_BUF_val as H. rewrite dz_buf_size in H. lia. Qed.
Lemma dzl_BUF_u32 : Z.of_nat dz_BUF <= c_dz_UINT32_MAX.
Proof. rewrite dz_BUF_val, dz_buf_size. unfold c_dz_UINT32_MAX. lia. Qed.

Lemma dzl_ask_inflate (w : world) inp ao :
  dz_ask OT ask w (QInflate inp ao) =
  (mk_dz_ans (Nat.min (da_consumed (fst (dzl_route0 (w_o OT w) inp ao))) (length inp))
             (firstn ao (da_out (fst (dzl_route0 (w_o OT w) inp ao))))
             (da_rc (fst (dzl_route0 (w_o OT w) inp ao))) (da_status (fst (dzl_route0 (w_o OT w) inp ao))),
   w_set_o OT w (snd (dzl_route0 (w_o OT w) inp ao))).
Proof. unfold dz_ask. cbn [dzl_ask]. fold (dzl_route0 (w_o OT w) inp ao). destruct (dzl_route0 (w_o OT w) inp ao); reflexivity. Qed.

(* ---- one layer over the rest of the chain; what is known of "next" is the induction hypothesis on the length of the rest *)
Section Loop.
Variable next : dz_next_t OT.
Variable k : nat.
Hypothesis Hnext : forall rest os_t blk s'' q ups (w : world),
  length rest = k -> rest <> [] -> dzl_CH dz_BUF rest os_t (blk ++ s'') q -> blk <> [] -> (length blk <= dz_BUF)%nat ->
  dzl_acc ups (w_o OT w) (start os_t) -> dz_devs w ++ q = p -> dzl_WOK w ->
  exists rest' os' w' q', next rest (dz_some blk) w = (rest', w', c_HTP_OK) /\ length rest' = k /\ w_o OT w' = ups ++ os' /\
    dzl_CH dz_BUF rest' os' s'' q' /\ dz_devs w' ++ q' = p /\ dzl_WOK w'.
Hypothesis Hnext0 : forall rest os_t s q (w : world),
  length rest = k -> rest <> [] -> dzl_CH dz_BUF rest os_t s q -> next rest (dz_some []) w = (rest, w, c_HTP_OK).

Lemma dzl_deliver_ok l rest os_t blk s'' q U (w : world) :
  dzl_gd (dz_zinit l) -> length rest = k -> dzl_CH dz_BUF rest os_t (blk ++ s'') q -> (length blk <= dz_BUF)%nat ->
  dz_devs w ++ q = p -> dzl_WOK w ->
  (rest <> [] -> blk <> [] -> dzl_acc U (w_o OT w) (start os_t)) ->
  exists rest' os' w' q', dz_deliver OT c next l rest (dz_some blk) w = (rest', w', c_HTP_OK) /\ length rest' = k /\
    dzl_CH dz_BUF rest' os' s'' q' /\ dz_devs w' ++ q' = p /\ dzl_WOK w' /\
    (rest <> [] -> blk <> [] -> w_o OT w' = U ++ os') /\
    (rest = [] \/ blk = [] -> w_o OT w' = w_o OT w /\ os' = os_t).
Proof.
  intros Hg Hk HCH Hlen Hpay [HBW Hent] Hacc. destruct (dzl_gd_facts _ Hg) as [_ Hn0].
  unfold dz_deliver. destruct rest as [|l2 rest2].
  - (* the last layer: the body callback *)
    destruct os_t as [|? ?]; cbn [dzl_CH] in HCH; [|contradiction].
    destruct (dz_callback_benign OT c t0 Hclock Htlimit Hhook [] (dz_some blk) w HBW Hent) as (w1 & Hcb & HBW1 & Ho1 & Hd1 & He1 & _).
    { left. rewrite <- Hpay, <- HCH in Hbomb. rewrite !app_length in Hbomb. unfold dz_len. cbn [dd_bytes dz_some]. lia. }
    rewrite Hcb. exists [], [], w1, s''. cbn [dd_bytes dz_some] in Hd1. csplit; auto.
    + cbn [dzl_CH]. reflexivity.
    + rewrite Hd1, <- app_assoc, HCH. exact Hpay.
    + split; assumption.
    + intros H; congruence.
  - rewrite Hn0. cbn [negb]. destruct blk as [|b blk'].
    + rewrite (Hnext0 (l2 :: rest2) os_t _ _ w Hk ltac:(discriminate) HCH).
      exists (l2 :: rest2), os_t, w, q. cbn [app] in HCH. csplit; auto.
      * split; assumption.
      * intros _ H; congruence.
    + destruct (Hnext (l2 :: rest2) os_t (b :: blk') s'' q U w Hk ltac:(discriminate) HCH ltac:(discriminate) Hlen
                       (Hacc ltac:(discriminate) ltac:(discriminate)) Hpay (conj HBW Hent))
        as (rest' & os' & w' & q' & Hn & Hk' & Ho' & HCH' & Hpay' & HW').
      rewrite Hn. exists rest', os', w', q'. csplit; auto.
      intros [H|H]; discriminate.
Qed.

Definition dzl_cur (z : zst) (l : dz_layer) (os_t : OT) : OT :=
  if (length (dz_obuf l) =? dz_BUF)%nat then mkrs z 0 true :: start os_t else mkrs z (length (dz_obuf l)) true :: os_t.

Lemma dzl_loop_ok B d s' fuel : forall input z pk l rest os_t q ups (w : world) rc0,
  zvalid z (input ++ s') pk -> input ++ s' <> [] -> (length input + length pk < fuel)%nat -> (B + length pk < dc_fuel c)%nat ->
  dz_pass l = false -> dzl_gd (dz_zinit l) -> (length (dz_obuf l) <= dz_BUF)%nat -> length rest = k ->
  dzl_CH dz_BUF rest os_t (dz_obuf l ++ pk) q -> dz_devs w ++ q = p -> dzl_WOK w ->
  (input <> [] -> dzl_acc ups (w_o OT w) (dzl_cur z l os_t)) ->
  (input = [] -> w_o OT w = ups ++ mkrs z (length (dz_obuf l)) false :: os_t) ->
  exists l' rest' os' w' q', dz_loop OT ask c next fuel d l rest w input rc0 = (l', rest', w', c_HTP_OK) /\ length rest' = k /\
    w_o OT w' = ups ++ os' /\ dzl_CH B (l' :: rest') os' s' q' /\ dz_devs w' ++ q' = p /\ dzl_WOK w'.
Proof.
  induction fuel as [|f IH]; intros input z pk l rest os_t q ups w rc0 Hv Hne Hfuel HB Hp Hg Hlen Hk HCH Hpay HW Hacc Hidle; [lia|].
  destruct (dzl_gd_facts _ Hg) as [Hnl Hn0].
  cbn [dz_loop]. destruct input as [|b input'].
  { (* the input is used up: the layer is idle again *)
    exists l, rest, (mkrs z (length (dz_obuf l)) false :: os_t), w, q. csplit; auto.
    cbn [dzl_CH]. wsimpl. csplit; auto. left. cbn [app] in *. split; auto. exists pk. csplit; auto. }
  set (input := b :: input') in *.
  assert (Hin : input <> []) by (subst input; discriminate).
  specialize (Hacc Hin). clear Hidle.
  destruct (dzl_CH_idle _ _ _ _ _ HCH) as [Hbt Hlt].
  (* the buffer-full flush *)
  assert (Hfl : exists l1 rest1 os1 w1 q1, dz_flush_full OT ask c next l rest w = inl (l1, rest1, w1) /\ (length (dz_obuf l1) < dz_BUF)%nat /\
            dz_pass l1 = false /\ dz_zinit l1 = dz_zinit l /\ length rest1 = k /\
            dzl_CH dz_BUF rest1 os1 (dz_obuf l1 ++ pk) q1 /\ dz_devs w1 ++ q1 = p /\ dzl_WOK w1 /\
            dzl_acc ups (w_o OT w1) (mkrs z (length (dz_obuf l1)) true :: os1)).
  { unfold dz_flush_full, dz_avail_out. destruct (dz_BUF - length (dz_obuf l) =? 0)%nat eqn:Hao.
    - apply Nat.eqb_eq in Hao. assert (Hfull : length (dz_obuf l) = dz_BUF) by lia.
      unfold dzl_cur in Hacc. rewrite Hfull, Nat.eqb_refl in Hacc.
      destruct (dzl_deliver_ok l rest os_t (dz_obuf l) pk q (ups ++ [mkrs z 0 true]) w Hg Hk HCH Hlen Hpay HW)
        as (rest1 & os1 & w1 & q1 & Hdl & Hk1 & HCH1 & Hpay1 & HW1 & Ho1 & Ho1').
      { intros Hr _. apply dzl_acc_down; auto. apply dzl_busy_start. destruct os_t; [|discriminate]. destruct rest; [congruence|discriminate]. }
      rewrite Hdl, Z.eqb_refl. cbn [negb].
      exists (dz_set_obuf l []), rest1, os1, w1, q1. wsimpl. cbn [length app]. csplit; auto.
      + apply dzl_BUF_pos.
      + destruct rest as [|l2 rest2].
        * destruct (Ho1' (or_introl eq_refl)) as [Hw Hos]. rewrite Hw, Hos.
          destruct os_t; [exact Hacc|discriminate].
        * rewrite Ho1; [|discriminate|intros H; rewrite H in Hfull; cbn in Hfull; pose proof dzl_BUF_pos; lia].
          rewrite <- app_assoc. cbn [app]. apply dzl_acc_of_eq. reflexivity.
    - apply Nat.eqb_neq in Hao. exists l, rest, os_t, w, q. csplit; auto; try lia.
      unfold dzl_cur in Hacc. replace (length (dz_obuf l) =? dz_BUF)%nat with false in Hacc by (symmetry; apply Nat.eqb_neq; lia). exact Hacc. }
  destruct Hfl as (l1 & rest1 & os1 & w1 & q1 & Hfl & Hlt1 & Hp1 & Hz1 & Hk1 & HCH1 & Hpay1 & HW1 & Hacc1).
  destruct (dzl_CH_idle _ _ _ _ _ HCH1) as [Hbt1 Hlt1'].
  unfold dz_iter. rewrite Hfl.
  (* the inflate call *)
  assert (Hao1 : (0 < dz_avail_out l1)%nat) by (unfold dz_avail_out; lia).
  pose proof (Hz2 z (input ++ s') pk input s' (dz_avail_out l1) Hv eq_refl Hin Hao1) as Hc.
  unfold dz_decode. rewrite Hz1, Hnl, Hn0. cbn [negb].
  rewrite dzl_ask_inflate, (Hacc1 input (dz_avail_out l1)).
  destruct (zinflate z input (dz_avail_out l1)) as [[[z' cn] out] rc] eqn:Hzi.
  rewrite (dzl_route_own (mkrs z (length (dz_obuf l1)) true) os1 input (dz_avail_out l1) z' cn out rc Hbt1 Hzi).
  destruct Hc as (Hcn & Hout & p' & Hp' & Hcase). cbn [fst snd da_consumed da_out da_rc da_status]. wsimpl.
  rewrite (Nat.min_l _ _ Hcn). rewrite (firstn_all2 out Hout).
  set (l2 := dz_set_obuf l1 (dz_obuf l1 ++ out)).
  assert (Hlen2 : (length (dz_obuf l2) <= dz_BUF)%nat).
  { subst l2. wsimpl. rewrite app_length. unfold dz_avail_out in Hout. lia. }
  assert (Hfill2 : (length (dz_obuf l1) + length out)%nat = length (dz_obuf l2)) by (subst l2; wsimpl; rewrite app_length; reflexivity).
  rewrite Hfill2.
  assert (HCH2 : dzl_CH dz_BUF rest1 os1 (dz_obuf l2 ++ p') q1).
  { subst l2. wsimpl. rewrite <- app_assoc, <- Hp'. exact HCH1. }
  unfold dz_after.
  destruct Hcase as [(Hrc & Hv' & Hprog & Hmore)|(Hrc & Hdone & Hp'nil)].
  - (* Z_OK *)
    subst rc. replace (c_dz_Z_OK =? c_dz_Z_DATA_ERROR) with false by reflexivity. rewrite andb_false_r.
    replace (c_dz_Z_OK =? c_dz_Z_STREAM_END) with false by reflexivity. rewrite Z.eqb_refl. cbn [negb andb].
    rewrite dz_skipn_app_le in Hv', Hmore by (exact [] || exact Hcn).
    set (O2 := if ((cn <? length input)%nat && (length (dz_obuf l2) =? dz_BUF)%nat) then mkrs z' 0 true :: start os1
               else mkrs z' (length (dz_obuf l2)) (cn <? length input)%nat :: os1).
    set (w2 := w_set_o OT w1 (ups ++ O2)).
    assert (HW2 : dzl_WOK w2) by exact HW1.
    assert (Hpay2 : dz_devs w2 ++ q1 = p) by exact Hpay1.
    assert (Hp2 : dz_pass l2 = false) by exact Hp1.
    assert (Hg2 : dzl_gd (dz_zinit l2)) by (subst l2; wsimpl; rewrite Hz1; exact Hg).
    assert (Hf2 : (length (skipn cn input) + length p' < f)%nat).
    { rewrite Hp', app_length in Hfuel. pose proof (skipn_length cn input). lia. }
    assert (HB2 : (B + length p' < dc_fuel c)%nat) by (rewrite Hp', app_length in HB; lia).
    assert (Hacc2 : skipn cn input <> [] -> dzl_acc ups (w_o OT w2) (dzl_cur z' l2 os1)).
    { intros Hsk. subst w2. wsimpl.
      assert (Hlt' : (cn <? length input)%nat = true).
      { apply Nat.ltb_lt. destruct (Nat.lt_ge_cases cn (length input)); auto. rewrite skipn_all2 in Hsk by lia. congruence. }
      subst O2. rewrite Hlt'. cbn [andb]. unfold dzl_cur.
      destruct (length (dz_obuf l2) =? dz_BUF)%nat; apply dzl_acc_of_eq; reflexivity. }
    assert (Hidle2 : skipn cn input = [] -> w_o OT w2 = ups ++ mkrs z' (length (dz_obuf l2)) false :: os1).
    { intros Hsk. subst w2. wsimpl.
      assert (Hlt' : (cn <? length input)%nat = false).
      { apply Nat.ltb_ge. pose proof (skipn_length cn input) as Hl. rewrite Hsk in Hl. cbn [length] in Hl. lia. }
      subst O2. rewrite Hlt'. cbn [andb]. reflexivity. }
    destruct (IH (skipn cn input) z' p' l2 rest1 os1 q1 ups w2 c_dz_Z_OK Hv' Hmore Hf2 HB2 Hp2 Hg2 Hlen2 Hk1 HCH2 Hpay2 HW2 Hacc2 Hidle2)
      as (l3 & rest3 & os3 & w3 & q3 & Hloop & Hk3 & Ho3 & HCH3 & Hpay3 & HW3).
    + exists l3, rest3, os3, w3, q3. csplit; auto.
  - (* Z_STREAM_END *)
    subst rc p'. rewrite app_nil_r in Hp'. replace (c_dz_Z_STREAM_END =? c_dz_Z_DATA_ERROR) with false by reflexivity. rewrite andb_false_r.
    rewrite Z.eqb_refl.
    set (hz := mkrs z' 0 false).
    set (w2 := w_set_o OT w1 (ups ++ hz :: (if (0 <? length (dz_obuf l2))%nat then start os1 else os1))).
    rewrite app_nil_r in HCH2.
    assert (Hg2 : dzl_gd (dz_zinit l2)) by (subst l2; wsimpl; rewrite Hz1; exact Hg).
    assert (HCH2' : dzl_CH dz_BUF rest1 os1 (dz_obuf l2 ++ []) q1) by (rewrite app_nil_r; exact HCH2).
    assert (HW2 : dzl_WOK w2) by exact HW1.
    assert (Hpay2 : dz_devs w2 ++ q1 = p) by exact Hpay1.
    assert (Hacc2 : rest1 <> [] -> dz_obuf l2 <> [] -> dzl_acc (ups ++ [hz]) (w_o OT w2) (start os1)).
    { intros Hr Hb. subst w2. wsimpl.
      replace (0 <? length (dz_obuf l2))%nat with true by (symmetry; apply Nat.ltb_lt; destruct (dz_obuf l2); [congruence|cbn; lia]).
      replace (ups ++ hz :: start os1) with ((ups ++ [hz]) ++ start os1) by (rewrite <- app_assoc; reflexivity).
      apply dzl_acc_of_eq. apply dzl_busy_start. destruct os1; [|discriminate]. destruct rest1; [congruence|discriminate]. }
    destruct (dzl_deliver_ok l2 rest1 os1 (dz_obuf l2) [] q1 (ups ++ [hz]) w2 Hg2 Hk1 HCH2' Hlen2 Hpay2 HW2 Hacc2)
      as (rest3 & os3 & w3 & q3 & Hdl & Hk3 & HCH3 & Hpay3 & HW3 & Ho3 & Ho3').
    rewrite Hdl, Z.eqb_refl. cbn [negb].
    rewrite dz_skipn_app_le in Hdone by (exact [] || exact Hcn). apply app_eq_nil in Hdone. destruct Hdone as [_ Hs'].
    exists (dz_set_obuf l2 []), rest3, (hz :: os3), w3, q3. split; [reflexivity|]. split; [exact Hk3|]. split; [|split; [|split; [exact Hpay3|exact HW3]]].
    + destruct rest1 as [|l4 rest4].
      { destruct (Ho3' (or_introl eq_refl)) as [Hw Hos]. rewrite Hw, Hos. subst w2. wsimpl.
        destruct os1; [|discriminate]. cbn [dzl_start]. destruct (0 <? length (dz_obuf l2))%nat; reflexivity. }
      destruct (dz_obuf l2) as [|x ob] eqn:Hob.
      { destruct (Ho3' (or_intror eq_refl)) as [Hw Hos]. rewrite Hw, Hos. subst w2. wsimpl. reflexivity. }
      rewrite Ho3 by discriminate. rewrite <- app_assoc. reflexivity.
    + cbn [dzl_CH]. subst hz l2. wsimpl. split; [exact Hp1|]. split; [rewrite Hz1; exact Hg|]. split; [reflexivity|]. split; [reflexivity|].
      split; [cbn [length]; lia|]. right. split; [exact Hs'|]. split; [reflexivity|exact HCH3].
Qed.

Lemma dzl_enter_some b : Z.of_nat (length b) <= c_dz_UINT32_MAX -> dz_enter (dz_some b) 0 = Some b.
Proof.
  intros H. unfold dz_enter. cbn [dd_bytes dz_some skipn]. unfold dz_len. cbn [dd_bytes dz_some].
  replace (length b <? 0)%nat with false by (symmetry; apply Nat.ltb_ge; lia).
  replace (Z.of_nat (length b) >? c_dz_UINT32_MAX) with false by (symmetry; rewrite Z.gtb_ltb; apply Z.ltb_ge; lia). reflexivity.
Qed.

Lemma dzl_layer_ok B l rest os b s' q ups (w : world) :
  length rest = k -> dzl_CH B (l :: rest) os (b ++ s') q -> b <> [] -> (length b <= B)%nat -> Z.of_nat (length b) <= c_dz_UINT32_MAX ->
  dzl_acc ups (w_o OT w) (start os) -> dz_devs w ++ q = p -> dzl_WOK w ->
  exists ls' os' w' q', dz_layer_run OT ask c next l rest (dz_some b) w = (ls', w', c_HTP_OK) /\ length ls' = S k /\
    w_o OT w' = ups ++ os' /\ dzl_CH B ls' os' s' q' /\ dz_devs w' ++ q' = p /\ dzl_WOK w'.
Proof.
  intros Hk HCH Hb HbB Hu32 Hacc Hpay HW. destruct os as [|o os_t]; cbn [dzl_CH] in HCH; [contradiction|].
  destruct HCH as (Hp & Hg & Hfill & Hpend & Hlen & [(Hne & pk & Hv & HB & HCH)|(Hnil & _)]).
  2:{ destruct b; [congruence|discriminate]. }
  unfold dz_layer_run. rewrite Hp. cbn [dd_null dz_some]. rewrite (dzl_enter_some b Hu32).
  assert (Hacc' : b <> [] -> dzl_acc ups (w_o OT w) (dzl_cur (rs_z o) l os_t)).
  { intros _. unfold dzl_cur. cbn [dzl_start] in Hacc. rewrite Hfill in Hacc. exact Hacc. }
  assert (Hidle : b = [] -> w_o OT w = ups ++ mkrs (rs_z o) (length (dz_obuf l)) false :: os_t) by (intros; congruence).
  assert (Hf : (length b + length pk < dc_fuel c)%nat) by lia.
  destruct (dzl_loop_ok B (dz_some b) s' (dc_fuel c) b (rs_z o) pk l rest os_t q ups w 0 Hv Hne Hf HB Hp Hg Hlen Hk HCH Hpay HW Hacc' Hidle)
    as (l' & rest' & os' & w' & q' & Hloop & Hk' & Ho' & HCH' & Hpay' & HW').
  rewrite Hloop. cbn [dd_bytes dz_some]. destruct b as [|x b']; [congruence|].
  exists (dz_set_fed l' true :: rest'), os', w', q'. split; [reflexivity|]. split; [cbn [length]; congruence|]. split; [exact Ho'|].
  split; [|split; assumption].
  destruct os' as [|o' os'']; cbn [dzl_CH] in HCH' |- *; [contradiction|]. wsimpl. exact HCH'.
Qed.
End Loop.

(* ---- the chain *)
Lemma dzl_session : forall k n ls os b s' q ups (w : world) B,
  length ls = S k -> (S k <= n)%nat -> dzl_CH B ls os (b ++ s') q -> b <> [] -> (length b <= B)%nat -> Z.of_nat (length b) <= c_dz_UINT32_MAX ->
  dzl_acc ups (w_o OT w) (start os) -> dz_devs w ++ q = p -> dzl_WOK w ->
  exists ls' os' w' q', dz_decompress OT ask c n ls (dz_some b) w = (ls', w', c_HTP_OK) /\ length ls' = S k /\
    w_o OT w' = ups ++ os' /\ dzl_CH B ls' os' s' q' /\ dz_devs w' ++ q' = p /\ dzl_WOK w'.
Proof.
  assert (Hnil : forall n rest os_t s q (w : world), (length rest <= n)%nat -> rest <> [] -> dzl_CH dz_BUF rest os_t s q ->
                 dz_decompress OT ask c n rest (dz_some []) w = (rest, w, c_HTP_OK)).
  { intros n rest os_t s q w Hn Hr HCH. destruct rest as [|l2 rest2]; [congruence|]. destruct n as [|n']; [cbn in Hn; lia|].
    cbn [dz_decompress]. destruct os_t as [|o os2]; cbn [dzl_CH] in HCH; [contradiction|]. destruct HCH as (Hp & _).
    unfold dz_layer_run. rewrite Hp. cbn [dd_null dz_some]. rewrite dzl_enter_some by (cbn; unfold c_dz_UINT32_MAX; lia).
    destruct (dc_fuel c) as [|f] eqn:Hf; [lia|]. cbn [dz_loop dd_bytes dz_some]. reflexivity. }
  induction k as [|k IH]; intros n ls os b s' q ups w B Hl Hn HCH Hb HbB Hu32 Hacc Hpay HW;
    (destruct ls as [|l rest]; [discriminate|]); (destruct n as [|n']; [lia|]); cbn [dz_decompress]; cbn [length] in Hl;
    assert (Hl' : length rest = _) by (injection Hl; intros H; exact H).
  - refine (dzl_layer_ok (dz_decompress OT ask c n') 0 _ _ B l rest os b s' q ups w Hl' HCH Hb HbB Hu32 Hacc Hpay HW).
    + intros rest0 os_t blk s'' q0 ups0 w0 Hl0 Hr0. destruct rest0; [congruence|discriminate].
    + intros rest0 os_t s0 q0 w0 Hl0 Hr0. destruct rest0; [congruence|discriminate].
  - refine (dzl_layer_ok (dz_decompress OT ask c n') (S k) _ _ B l rest os b s' q ups w Hl' HCH Hb HbB Hu32 Hacc Hpay HW).
    + intros rest0 os_t blk s'' q0 ups0 w0 Hl0 Hr0 H0 Hb0 Hlb0 Hacc0 Hpay0 HW0.
      apply (IH n' rest0 os_t blk s'' q0 ups0 w0 dz_BUF); auto; try lia. pose proof dzl_BUF_u32. lia.
    + intros rest0 os_t s0 q0 w0 Hl0 Hr0 H0. apply (Hnil n' rest0 os_t s0 q0 w0); auto. lia.
Qed.

(* ---- between two body calls *)
Definition dzl_TI (B : nat) (s q : bytes) (t : dz_tx OT) : Prop :=
  tx_chain OT t <> [] /\ dz_is_coded (tx_cep OT t) = true /\ dzl_CH B (tx_chain OT t) (w_o OT (tx_w OT t)) s q /\
  dz_devs (tx_w OT t) ++ q = p /\ dz_BW0 OT (tx_w OT t) /\ w_entity OT (tx_w OT t) = Z.of_nat (length (dz_devs (tx_w OT t))).

Lemma dzl_process_data (t : dz_tx OT) B ch rest q :
  dzl_TI B (ch ++ rest) q t -> ch <> [] -> (length ch <= B)%nat -> Z.of_nat (length ch) <= c_dz_UINT32_MAX ->
  exists q', dzl_TI B rest q' (fst (dz_process_body_data OT ask c t 0 (Some ch))).
Proof.
  intros (Hch & Hcep & HCH & Hpay & HBW0 & Hent) Hne HB Hu32.
  set (t' := fst (dz_process_body_data OT ask c t 0 (Some ch))).
  assert (Ht' : t' = fst (dz_process_body_data OT ask c t 0 (Some ch))) by reflexivity. clearbody t'.
  unfold dz_process_body_data in Ht'. cbv zeta in Ht'. rewrite Hcep in Ht'.
  destruct (tx_chain OT t) as [|l0 r0] eqn:Hchain; [congruence|]. rewrite <- Hchain in *.
  cbn [dz_data_of] in Ht'. unfold dz_gettimeofday at 1 in Ht'.
  set (w1 := w_set_message OT (tx_w OT t) (w_message OT (tx_w OT t) + 0 + dz_len (dz_some ch))) in *.
  set (w2 := w_set_nbcb OT (w_set_tbefore OT (w_tick_clock OT w1) (dc_clock c (w_nclock OT w1))) 0) in *.
  assert (HBW2 : dz_BW OT t0 w2) by (apply dz_BW_enter; [exact Hclock|exact HBW0]).
  destruct (dzl_CH_idle _ _ _ _ _ HCH) as [Hbusy Hlos].
  assert (Hlen : length (tx_chain OT t) = S (length r0)) by (rewrite Hchain; reflexivity).
  destruct (dzl_session (length r0) (length (tx_chain OT t)) (tx_chain OT t) (w_o OT (tx_w OT t)) ch rest q [] w2 B Hlen ltac:(lia) HCH Hne HB Hu32)
    as (ls' & os' & w3 & q' & Hdec & Hlen' & Ho3 & HCH3 & Hpay3 & HBW3 & Hent3).
  { apply dzl_acc_top. exact Hbusy. }
  { exact Hpay. }
  { split; [exact HBW2|exact Hent]. }
  rewrite Hdec in Ht'.
  unfold dz_gettimeofday in Ht'. cbn [fst] in Ht'.
  rewrite (dz_after_call_benign OT c t0 Hclock Htlimit [] w3 HBW3) in Ht'. wsimpl.
  pose proof HBW3 as ((Hsp3 & Htp3) & Htb3). rewrite Htp3 in Ht'.
  destruct ls' as [|l1 r1]; [discriminate|].
  exists q'. subst t'. unfold dzl_TI. cbn [tx_chain tx_cep tx_w]. wsimpl. csplit; auto.
  - discriminate.
  - rewrite Ho3. exact HCH3.
  - unfold dz_BW0. wsimpl. auto.
Qed.

Lemma dzl_null_chain : forall ls n (w : world),
  Forall (fun l => dz_obuf l = [] /\ dz_pass l = false /\ dzl_gd (dz_zinit l)) ls -> ls <> [] -> (length ls <= n)%nat ->
  dzl_WOK w -> Z.of_nat (length (dz_devs w)) <= dc_bomb c ->
  exists w', dz_decompress OT ask c n ls dz_null w = (ls, w', c_HTP_OK) /\ dz_devs w' = dz_devs w /\ dzl_WOK w'.
Proof.
  induction ls as [|l rest IH]; intros n w Hall Hne Hn [HBW Hent] Hb; [congruence|].
  destruct n as [|n']; [cbn in Hn; lia|]. cbn [dz_decompress]. inversion Hall as [|? ? (Hob & Hp & Hg) Hall']; subst.
  destruct (dzl_gd_facts _ Hg) as [_ Hn0].
  unfold dz_layer_run. rewrite Hp, Hob. cbn [dd_null dz_null].
  assert (Hcb : exists w', dz_callback OT c dz_null w = (w', c_HTP_OK) /\ dz_devs w' = dz_devs w /\ dzl_WOK w').
  { destruct (dz_callback_benign OT c t0 Hclock Htlimit Hhook [] dz_null w HBW Hent) as (w1 & Hcb & HBW1 & _ & Hd1 & He1 & _).
    { left. unfold dz_len. cbn. lia. }
    exists w1. cbn [dd_bytes dz_null] in Hd1. rewrite app_nil_r in Hd1. split; auto. split; auto. split; auto. }
  destruct rest as [|l2 rest2].
  - destruct Hcb as (w' & Hcb & Hd & HW). rewrite Hcb, Z.eqb_refl. cbn [negb]. exists w'. auto.
  - rewrite Hn0. cbn [negb].
    destruct (IH n' w Hall' ltac:(discriminate) ltac:(cbn [length] in *; lia) (conj HBW Hent) Hb) as (w' & Hdec & Hd & HW).
    rewrite Hdec. exists w'. auto.
Qed.

Lemma dzl_process_null (t : dz_tx OT) B q :
  dzl_TI B [] q t ->
  dz_devs (tx_w OT (fst (dz_process_body_data OT ask c t 0 None))) = p /\ tx_chain OT (fst (dz_process_body_data OT ask c t 0 None)) = [].
Proof.
  intros (Hch & Hcep & HCH & Hpay & HBW0 & Hent).
  set (t' := fst (dz_process_body_data OT ask c t 0 None)).
  assert (Ht' : t' = fst (dz_process_body_data OT ask c t 0 None)) by reflexivity. clearbody t'.
  unfold dz_process_body_data in Ht'. cbv zeta in Ht'. rewrite Hcep in Ht'.
  destruct (tx_chain OT t) as [|l0 r0] eqn:Hchain; [congruence|]. rewrite <- Hchain in *.
  cbn [dz_data_of] in Ht'. unfold dz_gettimeofday at 1 in Ht'.
  set (w1 := w_set_message OT (tx_w OT t) (w_message OT (tx_w OT t) + 0 + dz_len dz_null)) in *.
  set (w2 := w_set_nbcb OT (w_set_tbefore OT (w_tick_clock OT w1) (dc_clock c (w_nclock OT w1))) 0) in *.
  assert (HBW2 : dz_BW OT t0 w2) by (apply dz_BW_enter; [exact Hclock|exact HBW0]).
  destruct (dzl_CH_done _ _ _ _ HCH) as [Hq Hall]. subst q. rewrite app_nil_r in Hpay.
  destruct (dzl_null_chain (tx_chain OT t) (length (tx_chain OT t)) w2 Hall Hch (Nat.le_refl _)) as (w3 & Hdec & Hd3 & HBW3 & Hent3).
  { split; [exact HBW2|exact Hent]. }
  { replace (dz_devs w2) with (dz_devs (tx_w OT t)) by reflexivity. rewrite Hpay. exact Hbomb. }
  rewrite Hdec in Ht'.
  unfold dz_gettimeofday in Ht'. cbn [fst] in Ht'.
  rewrite (dz_after_call_benign OT c t0 Hclock Htlimit [] w3 HBW3) in Ht'. wsimpl.
  subst t'. cbn [tx_w tx_chain]. split; [|reflexivity].
  rewrite (dz_sim_devs OT _ _ (dz_destroy_sim OT ask _ _)).
  unfold dz_devs in *. wsimpl. rewrite Hd3. exact Hpay.
Qed.

Lemma dzl_calls_app (t : dz_tx OT) a b : dz_calls OT ask c t (a ++ b) = dz_calls OT ask c (dz_calls OT ask c t a) b.
Proof. revert t. induction a as [|[e d] r IH]; intros t; cbn [app dz_calls]; auto. Qed.

Lemma dzl_calls_ok B chunks : forall (t : dz_tx OT) q,
  dzl_TI B (concat chunks) q t ->
  Forall (fun ch => ch <> [] /\ (length ch <= B)%nat /\ Z.of_nat (length ch) <= c_dz_UINT32_MAX) chunks ->
  exists q', dzl_TI B [] q' (dz_calls OT ask c t (map (fun ch => (0, Some ch)) chunks)).
Proof.
  induction chunks as [|ch r IH]; intros t q HTI Hall; cbn [map dz_calls concat] in *.
  - exists q. exact HTI.
  - inversion Hall as [|? ? (Hc1 & Hc2 & Hc3) Hall']; subst.
    destruct (dzl_process_data t B ch (concat r) q HTI Hc1 Hc2 Hc3) as (q' & HTI'). eapply IH; eauto.
Qed.

(* the run: any chain the headers may have built *)
Lemma dzl_run_ok B (t : dz_tx OT) s chunks :
  dzl_TI B s p t -> dz_devs (tx_w OT t) = [] -> concat chunks = s ->
  Forall (fun ch => ch <> [] /\ (length ch <= B)%nat /\ Z.of_nat (length ch) <= c_dz_UINT32_MAX) chunks ->
  let t1 := dz_calls OT ask c t (map (fun ch => (0, Some ch)) chunks ++ [(0, None)]) in
  dz_devs (dz_destroy OT ask (tx_chain OT t1) (tx_w OT t1)) = p.
Proof.
  intros HTI Hd Hcat Hall t1. subst t1. rewrite dzl_calls_app. subst s.
  destruct (dzl_calls_ok B chunks t p HTI Hall) as (q' & HTI').
  set (t2 := dz_calls OT ask c t (map (fun ch => (0, Some ch)) chunks)) in *.
  destruct (dzl_process_null t2 B q' HTI') as [Hdv Hc].
  change (dz_calls OT ask c t2 [(0, None)]) with (fst (dz_process_body_data OT ask c t2 0 None)).
  rewrite Hc. cbn [dz_destroy]. exact Hdv.
Qed.

(* ---- the chain as the headers build it *)
Definition dzl_wb (f : Z) : Z := if f =? c_dz_COMPRESSION_GZIP then 15 + 32 else -15.
Definition dzl_name (f : Z) : bytes := if f =? c_dz_COMPRESSION_GZIP then s_gzip else s_deflate.
Definition dzl_fresh (f : Z) : dz_layer := mk_dz_layer false 0 f [] 0 false.
Definition dzl_init (f : Z) : dzl_rs zst := mkrs (zinit (dzl_wb f)) 0 false.

(* s is a stream of the first format whose payload is a stream of the second format ... whose payload is q *)
Fixpoint dzl_valid (B : nat) (fs : list Z) (s q : bytes) {struct fs} : Prop :=
  match fs with
  | [] => s = q
  | f :: fs' => dzl_gd f /\ s <> [] /\ exists pk, zvalid (zinit (dzl_wb f)) s pk /\ (B + length pk < dc_fuel c)%nat /\ dzl_valid dz_BUF fs' pk q
  end.

Lemma dzl_CH_initial : forall fs B s q, dzl_valid B fs s q -> dzl_CH B (map dzl_fresh fs) (map dzl_init fs) s q.
Proof.
  induction fs as [|f fs IH]; intros B s q H; cbn [dzl_valid map dzl_CH] in *; [exact H|].
  destruct H as (Hg & Hne & pk & Hv & HB & H). unfold dzl_fresh at 1 2 3 4 5 6, dzl_init at 1 2 3. wsimpl. cbn [length app].
  csplit; auto; try lia. left. split; auto. exists pk. csplit; auto.
Qed.

Lemma dzl_create_gd f (w : world) : dzl_gd f ->
  dz_create OT ask c f w = (Some (dzl_fresh f), w_set_o OT w (w_o OT w ++ [dzl_init f])).
Proof. intros [-> | ->]; reflexivity. Qed.

(* the Content-Encoding value for a list of formats: names separated by ", " *)
Definition dzl_ce (fs : list Z) : bytes :=
  match fs with [] => [] | f :: r => dzl_name f ++ concat (map (fun g => [44; 32]%N ++ dzl_name g) r) end.

Lemma dzl_ce_cons f g r : dzl_ce (f :: g :: r) = dzl_name f ++ [44; 32]%N ++ dzl_ce (g :: r).
Proof. cbn [dzl_ce map concat]. rewrite <- !app_assoc. reflexivity. Qed.

Lemma dzl_get_token_at sp : forall x s', Forall (fun b => dz_is_sep b = true) sp -> dz_is_sep x = false ->
  dz_get_token_at (sp ++ x :: s') = Some (length sp, dz_take_tok (x :: s')).
Proof.
  intros x s' Hsp Hx. unfold dz_get_token_at.
  assert (Hd : drop_while dz_is_sep (sp ++ x :: s') = x :: s').
  { induction Hsp as [|y sp' Hy _ IH]; cbn [app drop_while]; [rewrite Hx; reflexivity|rewrite Hy; exact IH]. }
  rewrite Hd. rewrite app_length. f_equal. f_equal. lia.
Qed.

Lemma dzl_name_shape f : dzl_gd f -> exists x n', dzl_name f = x :: n' /\ dz_is_sep x = false /\
  (forall tl, dz_take_tok (dzl_name f ++ 44%N :: tl) = dzl_name f) /\ dz_take_tok (dzl_name f ++ []) = dzl_name f.
Proof. intros [-> | ->]; eexists; eexists; (split; [reflexivity|]); (split; [reflexivity|]); split; intros; reflexivity. Qed.

Lemma dzl_tokens_step f fuel input sk tok layers nblzma chain cep (w : world) :
  input <> [] -> dz_get_token_at input = Some (sk, tok) -> dzl_gd f -> tok = dzl_name f -> (dc_layers c = 0 \/ layers + 1 <= dc_layers c) ->
  dz_tokens OT ask c (S fuel) input layers nblzma chain cep w =
    let chain' := match chain with [] => [dzl_fresh f] | _ :: _ => chain ++ [dzl_fresh f] end in
    let cep' := match chain with [] => f | _ :: _ => cep end in
    let w' := w_set_o OT w (w_o OT w ++ [dzl_init f]) in
    if (length input <=? sk + length tok + 1)%nat then mk_dz_tx OT chain' cep' w' false
    else dz_tokens OT ask c fuel (skipn (sk + length tok + 1) input) (if negb (dc_layers c =? 0) then layers + 1 else layers) (nblzma + 1) chain' cep' w'.
Proof.
  intros Hne Htok Hg Hname Hlim. cbn [dz_tokens]. destruct input as [|x input']; [congruence|]. rewrite Htok.
  assert (Hl : negb (dc_layers c =? 0) && (layers + 1 >? dc_layers c) = false).
  { destruct Hlim as [H|H]; [rewrite H; reflexivity|]. apply andb_false_iff. right. rewrite Z.gtb_ltb. apply Z.ltb_ge. exact H. }
  rewrite Hl.
  assert (Hce : (if negb (index_of_mem_nocase tok s_gzip =? -1) then (c_dz_COMPRESSION_GZIP, false)
                 else if negb (index_of_mem_nocase tok s_deflate =? -1) then (c_dz_COMPRESSION_DEFLATE, false)
                 else if cmp_mem tok s_lzma =? 0 then (c_dz_COMPRESSION_LZMA, nblzma + 1 >? dc_lzma_layers c)
                 else (c_dz_COMPRESSION_NONE, false)) = (f, false)).
  { subst tok. destruct Hg as [-> | ->]; reflexivity. }
  rewrite Hce. cbv zeta.
  assert (Hnn : negb (f =? c_dz_COMPRESSION_NONE) = true) by (destruct Hg as [-> | ->]; reflexivity).
  rewrite Hnn. rewrite (dzl_create_gd f w Hg).
  destruct chain as [|l0 chain0]; reflexivity.
Qed.

Lemma dzl_skipn_sep {A} (a b : list A) x y : skipn (length a + length b + 1) (a ++ b ++ x :: y) = y.
Proof.
  replace (a ++ b ++ x :: y) with ((a ++ b ++ [x]) ++ y) by (rewrite <- !app_assoc; reflexivity).
  rewrite skipn_app. rewrite skipn_all2 by (rewrite !app_length; cbn [length]; lia).
  rewrite !app_length. cbn [length app]. replace (length a + length b + 1 - (length a + (length b + 1)))%nat with O by lia. reflexivity.
Qed.

(* the token loop on "sp f1, f2, ..., fn" (sp: separator bytes left over from the previous round) *)
Lemma dzl_tokens_all : forall r f sp fuel layers nblzma chain cep (w : world),
  Forall (fun b => dz_is_sep b = true) sp -> Forall dzl_gd (f :: r) -> (length (sp ++ dzl_ce (f :: r)) <= fuel)%nat ->
  (dc_layers c = 0 \/ layers + Z.of_nat (length (f :: r)) <= dc_layers c) ->
  dz_tokens OT ask c fuel (sp ++ dzl_ce (f :: r)) layers nblzma chain cep w =
  mk_dz_tx OT (chain ++ map dzl_fresh (f :: r)) (match chain with [] => f | _ :: _ => cep end)
           (w_set_o OT w (w_o OT w ++ map dzl_init (f :: r))) false.
Proof.
  induction r as [|g r IH]; intros f sp fuel layers nblzma chain cep w Hsp Hall Hfuel Hlim;
    inversion Hall as [|? ? Hg Hall']; subst;
    destruct (dzl_name_shape f Hg) as (x & n' & Hn & Hx & Htk & Htk0).
  - (* the last token *)
    assert (Hce : dzl_ce [f] = dzl_name f) by (cbn [dzl_ce map concat]; apply app_nil_r).
    rewrite Hce in *. destruct fuel as [|fuel]; [rewrite app_length, Hn in Hfuel; cbn [length] in Hfuel; lia|].
    assert (H1 : sp ++ dzl_name f <> []) by (rewrite Hn; destruct sp; discriminate).
    assert (H2 : dz_get_token_at (sp ++ dzl_name f) = Some (length sp, dzl_name f)).
    { rewrite Hn. rewrite (dzl_get_token_at sp x n' Hsp Hx). rewrite <- Hn. rewrite <- Htk0 at 2. rewrite app_nil_r. reflexivity. }
    assert (H3 : dc_layers c = 0 \/ layers + 1 <= dc_layers c) by (destruct Hlim as [H|H]; [left; exact H|right; cbn [length] in H; lia]).
    rewrite (dzl_tokens_step f fuel (sp ++ dzl_name f) (length sp) (dzl_name f) layers nblzma chain cep w H1 H2 Hg eq_refl H3).
    cbv zeta. replace (length (sp ++ dzl_name f) <=? length sp + length (dzl_name f) + 1)%nat with true
      by (symmetry; apply Nat.leb_le; rewrite app_length; lia).
    destruct chain; reflexivity.
  - rewrite dzl_ce_cons in *. destruct fuel as [|fuel]; [rewrite !app_length, Hn in Hfuel; cbn [length] in Hfuel; lia|].
    set (inp := sp ++ dzl_name f ++ [44; 32]%N ++ dzl_ce (g :: r)) in *.
    assert (H1 : inp <> []) by (subst inp; rewrite Hn; destruct sp; discriminate).
    assert (H2 : dz_get_token_at inp = Some (length sp, dzl_name f)).
    { subst inp. rewrite Hn. cbn [app]. rewrite (dzl_get_token_at sp x _ Hsp Hx).
      change (x :: n' ++ 44%N :: 32%N :: dzl_ce (g :: r)) with ((x :: n') ++ 44%N :: 32%N :: dzl_ce (g :: r)). rewrite <- Hn, Htk. reflexivity. }
    assert (H3 : dc_layers c = 0 \/ layers + 1 <= dc_layers c) by (destruct Hlim as [H|H]; [left; exact H|right; cbn [length] in H; lia]).
    rewrite (dzl_tokens_step f fuel inp (length sp) (dzl_name f) layers nblzma chain cep w H1 H2 Hg eq_refl H3).
    cbv zeta.
    replace (length inp <=? length sp + length (dzl_name f) + 1)%nat with false
      by (symmetry; apply Nat.leb_gt; subst inp; rewrite !app_length; cbn [length]; lia).
    assert (Hsk : skipn (length sp + length (dzl_name f) + 1) inp = [32%N] ++ dzl_ce (g :: r)).
    { subst inp. cbn [app]. apply (dzl_skipn_sep sp (dzl_name f) 44%N (32%N :: dzl_ce (g :: r))). }
    rewrite Hsk.
    assert (Hf' : (length ([32%N] ++ dzl_ce (g :: r)) <= fuel)%nat).
    { assert (0 < length (dzl_name f))%nat by (rewrite Hn; cbn [length]; lia).
      subst inp. rewrite !app_length in *. cbn [length] in *. lia. }
    assert (Hlim' : dc_layers c = 0 \/ (if negb (dc_layers c =? 0) then layers + 1 else layers) + Z.of_nat (length (g :: r)) <= dc_layers c).
    { destruct (dc_layers c =? 0) eqn:E; [left; apply Z.eqb_eq; exact E|]. cbn [negb].
      destruct Hlim as [H|H]; [left; exact H|right; cbn [length] in *; lia]. }
    rewrite (IH g [32%N] fuel _ (nblzma + 1) _ _ _ ltac:(repeat constructor) Hall' Hf' Hlim').
    assert (Hw : forall (w1 : world) a b, w_set_o OT (w_set_o OT w1 a) b = w_set_o OT w1 b) by reflexivity.
    rewrite Hw. cbn [w_o w_set_o]. rewrite <- (app_assoc (w_o OT w)). cbn [app map].
    destruct chain as [|l0 ch0]; cbn [app map]; [reflexivity|]. rewrite <- app_assoc. reflexivity.
Qed.

Variable Henabled : dc_enabled c = true.

(* htp_tx_state_response_headers on "f1, f2, ..., fn" builds exactly one fresh layer and one decoder per format, in order *)
Lemma dzl_headers_n fs :
  fs <> [] -> Forall dzl_gd fs -> (dc_layers c = 0 \/ Z.of_nat (length fs) <= dc_layers c) ->
  dz_response_headers OT ask c (Some (dzl_ce fs)) (dz_world0 OT []) =
  mk_dz_tx OT (map dzl_fresh fs) (hd 0 fs) (w_set_o OT (dz_world0 OT []) (map dzl_init fs)) false.
Proof.
  intros Hne Hall Hlim. destruct fs as [|f r]; [congruence|]. inversion Hall as [|? ? Hg Hall']; subst.
  unfold dz_response_headers. rewrite Henabled. destruct r as [|g r].
  - (* one format: the single-value case *)
    assert (Hce : dzl_ce [f] = dzl_name f) by (cbn [dzl_ce map concat]; apply app_nil_r). rewrite Hce.
    destruct Hg as [-> | ->]; reflexivity.
  - rewrite dzl_ce_cons. set (tl := dzl_ce (g :: r)).
    assert (Hsel : forall v, v = dzl_name f ++ [44; 32]%N ++ tl ->
        (if (cmp_mem_nocasenorzero v s_gzip =? 0) || (cmp_mem_nocasenorzero v s_xgzip =? 0) then (c_dz_COMPRESSION_GZIP, false)
        else if (cmp_mem_nocasenorzero v s_deflate =? 0) || (cmp_mem_nocasenorzero v s_xdeflate =? 0) then (c_dz_COMPRESSION_DEFLATE, false)
        else if cmp_mem_nocasenorzero v s_lzma =? 0 then (c_dz_COMPRESSION_LZMA, false)
        else if cmp_mem_nocasenorzero v s_inflate =? 0 then (c_dz_COMPRESSION_NONE, false)
        else (c_dz_COMPRESSION_NONE, true)) = (c_dz_COMPRESSION_NONE, true)).
    { intros v ->. destruct Hg as [-> | ->]; reflexivity. }
    rewrite (Hsel _ eq_refl). cbn [orb]. replace (c_dz_COMPRESSION_NONE =? c_dz_COMPRESSION_GZIP) with false by reflexivity.
    replace (c_dz_COMPRESSION_NONE =? c_dz_COMPRESSION_DEFLATE) with false by reflexivity.
    replace (c_dz_COMPRESSION_NONE =? c_dz_COMPRESSION_LZMA) with false by reflexivity. cbn [orb negb].
    subst tl. rewrite <- dzl_ce_cons.
    assert (Hlim0 : dc_layers c = 0 \/ 0 + Z.of_nat (length (f :: g :: r)) <= dc_layers c) by (destruct Hlim as [Hl|Hl]; [left; exact Hl|right; lia]).
    pose proof (dzl_tokens_all (g :: r) f [] (length (dzl_ce (f :: g :: r))) 0 0 [] c_dz_COMPRESSION_NONE (dz_world0 OT [])
                  (Forall_nil _) Hall (Nat.le_refl _) Hlim0) as H.
    cbn [app] in H. rewrite H. reflexivity.
Qed.

(* ---- n layers: from the chain as built (one fresh layer and one initialised decoder per format, in order) *)
Theorem dzl_chain_faithful B fs s chunks (t : dz_tx OT) :
  fs <> [] -> tx_chain OT t = map dzl_fresh fs -> dz_is_coded (tx_cep OT t) = true -> w_o OT (tx_w OT t) = map dzl_init fs ->
  w_events OT (tx_w OT t) = [] -> w_entity OT (tx_w OT t) = 0 -> dz_BW0 OT (tx_w OT t) ->
  dzl_valid B fs s p -> concat chunks = s ->
  Forall (fun ch => ch <> [] /\ (length ch <= B)%nat /\ Z.of_nat (length ch) <= c_dz_UINT32_MAX) chunks ->
  let t1 := dz_calls OT ask c t (map (fun ch => (0, Some ch)) chunks ++ [(0, None)]) in
  dz_devs (dz_destroy OT ask (tx_chain OT t1) (tx_w OT t1)) = p.
Proof.
  intros Hfs Hch Hcep Ho Hev Hent HBW0 Hv Hcat Hall.
  assert (Hd : dz_devs (tx_w OT t) = []) by (unfold dz_devs; rewrite Hev; reflexivity).
  apply (dzl_run_ok B t s chunks); auto.
  unfold dzl_TI. rewrite Hch, Ho, Hd. csplit; auto.
  - destruct fs; [congruence|discriminate].
  - apply dzl_CH_initial. exact Hv.
Qed.

Lemma dzl_valid_gd : forall fs B s q, dzl_valid B fs s q -> Forall dzl_gd fs.
Proof.
  induction fs as [|f fs IH]; intros B s q H; [constructor|]. cbn [dzl_valid] in H. destruct H as (Hg & _ & pk & _ & _ & H).
  constructor; [exact Hg|]. eapply IH; eauto.
Qed.

(* ---- n layers, from the Content-Encoding header on *)
Theorem dzl_layers_faithful fs B s chunks :
  fs <> [] -> (dc_layers c = 0 \/ Z.of_nat (length fs) <= dc_layers c) ->
  dzl_valid B fs s p -> concat chunks = s ->
  Forall (fun ch => ch <> [] /\ (length ch <= B)%nat /\ Z.of_nat (length ch) <= c_dz_UINT32_MAX) chunks ->
  dz_devs (tx_w OT (fst (dz_run OT ask c (Some (dzl_ce fs)) (map (fun ch => (0, Some ch)) chunks ++ [(0, None)]) []))) = p.
Proof.
  intros Hfs Hlim Hv Hcat Hall. unfold dz_run. rewrite (dzl_headers_n fs Hfs (dzl_valid_gd _ _ _ _ Hv) Hlim). cbn [fst tx_w].
  apply (dzl_chain_faithful B fs s chunks); auto.
  - cbn [tx_cep]. pose proof (dzl_valid_gd _ _ _ _ Hv) as Hg. destruct fs as [|f r]; [congruence|]. inversion Hg as [|? ? [-> | ->] _]; reflexivity.
  - unfold dz_BW0, dz_world0. wsimpl. auto.
Qed.

(* ---- two layers *)
Theorem dzl_two_layers_faithful f1 f2 p1 s chunks :
  dzl_gd f1 -> dzl_gd f2 -> (dc_layers c = 0 \/ 2 <= dc_layers c) ->
  zvalid (zinit (dzl_wb f1)) s p1 -> zvalid (zinit (dzl_wb f2)) p1 p -> s <> [] -> p1 <> [] ->
  (dz_BUF + length p < dc_fuel c)%nat -> concat chunks = s ->
  Forall (fun ch => ch <> [] /\ Z.of_nat (length ch) <= c_dz_UINT32_MAX /\ (length ch + length p1 < dc_fuel c)%nat) chunks ->
  dz_devs (tx_w OT (fst (dz_run OT ask c (Some (dzl_name f1 ++ [44; 32]%N ++ dzl_name f2)) (map (fun ch => (0, Some ch)) chunks ++ [(0, None)]) []))) = p.
Proof.
  intros Hg1 Hg2 Hlim Hv1 Hv2 Hs Hp1 Hfu Hcat Hall.
  replace (dzl_name f1 ++ [44; 32]%N ++ dzl_name f2) with (dzl_ce [f1; f2])
    by (rewrite dzl_ce_cons; cbn [dzl_ce map concat]; rewrite app_nil_r; reflexivity).
  set (B := list_max (map (@length N) chunks)).
  assert (HB : (B + length p1 < dc_fuel c)%nat).
  { destruct chunks as [|ch0 r0]; [cbn in Hcat; congruence|].
    assert (Hle : (B <= dc_fuel c - length p1 - 1)%nat).
    { subst B. apply list_max_le. apply Forall_map. eapply Forall_impl; [|exact Hall]. cbv beta. intros a (_ & _ & H). lia. }
    inversion Hall as [|? ? (_ & _ & H0) _]; subst. lia. }
  apply (dzl_layers_faithful [f1; f2] B s chunks); auto.
  - discriminate.
  - cbn [dzl_valid]. csplit; auto. exists p1. csplit; auto. exists p. csplit; auto.
  - assert (Hmax : Forall (fun k => (k <= B)%nat) (map (@length N) chunks)) by (apply list_max_le; subst B; lia).
    rewrite Forall_map in Hmax. rewrite Forall_forall in *. intros ch Hin. destruct (Hall ch Hin) as (H1 & H2 & H3). specialize (Hmax ch Hin). auto.
Qed.
End LayersFaithful.

(* ------------------------------------------------------------------ the toy decoder satisfies the contract (non-vacuity) *)
Lemma dzl_toy_contract : forall z s pp offered rest ao,
  dzl_toy_valid z s pp -> s = offered ++ rest -> offered <> [] -> (0 < ao)%nat ->
  let '(z', cn, out, rc) := dzl_toy_inflate z offered ao in
  (cn <= length offered)%nat /\ (length out <= ao)%nat /\ exists p', pp = out ++ p' /\
  ((rc = c_dz_Z_OK /\ dzl_toy_valid z' (skipn cn s) p' /\ (0 < cn + length out)%nat /\ skipn cn s <> []) \/
   (rc = c_dz_Z_STREAM_END /\ skipn cn s = [] /\ p' = [])).
Proof.
  intros z s pp offered rest ao Hv Hs Hne Hao. destruct offered as [|x o']; [congruence|]. cbn [app] in Hs. subst s.
  destruct z as [|k|k b|]; cbn [dzl_toy_valid] in Hv; [| | |contradiction].
  - cbn [dzl_toy_inflate dzl_toy_dec] in *. destruct (x =? 0)%N eqn:Hx.
    + destruct (o' ++ rest) eqn:Hr; [|discriminate]. inversion Hv; subst pp.
      cbn [length skipn]. split; [lia|]. split; [lia|]. exists []. split; [reflexivity|]. right. auto.
    + cbn [length skipn]. split; [lia|]. split; [lia|]. exists pp. split; [reflexivity|]. left. split; [reflexivity|].
      split; [|split; [lia|]].
      * cbn [dzl_toy_valid]. split; [|exact Hv]. apply N.eqb_neq in Hx. lia.
      * intros Hn. rewrite Hn in Hv. discriminate.
  - destruct Hv as [Hk Hv]. cbn [dzl_toy_inflate dzl_toy_dec] in *.
    destruct (dzl_toy_dec None (o' ++ rest)) as [p0|] eqn:Hd; [|discriminate]. inversion Hv; subst pp.
    cbn [length skipn]. split; [lia|]. split; [lia|]. exists (repeat x k ++ p0). split; [reflexivity|]. left. split; [reflexivity|].
    split; [|split; [lia|]].
    + cbn [dzl_toy_valid]. split; [exact Hk|]. exists p0. auto.
    + intros Hn. rewrite Hn in Hd. discriminate.
  - destruct Hv as (Hk & p0 & Hd & Hpp). cbn [dzl_toy_inflate]. destruct (k <=? ao)%nat eqn:Hle.
    + apply Nat.leb_le in Hle. cbn [skipn]. rewrite repeat_length. split; [lia|]. split; [lia|]. exists p0. split; [exact Hpp|]. left.
      split; [reflexivity|]. split; [exact Hd|]. split; [lia|discriminate].
    + apply Nat.leb_gt in Hle. cbn [skipn]. rewrite repeat_length. split; [lia|]. split; [lia|]. exists (repeat b (k - ao) ++ p0).
      split. { rewrite Hpp, app_assoc, <- repeat_app. repeat f_equal. lia. }
      left. split; [reflexivity|]. split; [|split; [lia|discriminate]].
      cbn [dzl_toy_valid]. split; [lia|]. exists p0. auto.
Qed.


(* ------------------------------------------------------------------ examples: two toy layers, every premise is satisfiable *)
Definition dzl_ex_cfg (fuel : nat) (layers : Z) : dz_cfg :=
  mk_dz_cfg true 100000000 layers 1 1048576 100000 fuel (fun _ => (0, 0)) (fun _ => c_HTP_OK).
Definition dzl_ex_run (c : dz_cfg) (ce : bytes) (chunks : list bytes) : bytes * nat :=
  let r := dz_run (list (dzl_rs dzl_toy)) (dzl_ask dzl_toy dzl_toy_init dzl_toy_inflate) c (Some ce)
                  (map (fun ch => (0, Some ch)) chunks ++ [(0, None)]) [] in
  (dz_devs (tx_w _ (fst r)), snd r).
Definition dzl_cuts1 (s : bytes) : list (list bytes) := map (fun i => [firstn i s; skipn i s]) (seq 1 (length s - 1)).
Definition dzl_cuts2 (s : bytes) : list (list bytes) :=
  flat_map (fun i => map (fun j => [firstn i s; firstn (j - i) (skipn i s); skipn j s]) (seq (S i) (length s - 1 - i))) (seq 1 (length s - 1)).
Definition dzl_bytewise (s : bytes) : list bytes := map (fun b => [b]) s.
Definition dzl_beq (a b : bytes) : bool := (length a =? length b)%nat && forallb (fun xy => (fst xy =? snd xy)%N) (combine a b).

Definition dzl_ex_p : bytes := [1;1;1;2;3;3;7]%N.
Definition dzl_ex_p1 : bytes := dzl_toy_enc dzl_ex_p.     (* 9 bytes *)
Definition dzl_ex_s : bytes := dzl_toy_enc dzl_ex_p1.     (* 15 bytes *)

(* the theorem applies: "gzip, deflate", three pieces *)
Example dzl_two_layers_example :
  fst (dzl_ex_run (dzl_ex_cfg 9000 2) (dzl_ce [c_dz_COMPRESSION_GZIP; c_dz_COMPRESSION_DEFLATE])
                  [firstn 4 dzl_ex_s; firstn 5 (skipn 4 dzl_ex_s); skipn 9 dzl_ex_s]) = dzl_ex_p.
Proof.
  unfold dzl_ex_run. cbv zeta. cbn [fst].
  apply (dzl_two_layers_faithful dzl_toy dzl_toy_init dzl_toy_inflate dzl_toy_valid dzl_toy_contract (dzl_ex_cfg 9000 2) (0, 0))
    with (f1 := c_dz_COMPRESSION_GZIP) (f2 := c_dz_COMPRESSION_DEFLATE) (p1 := dzl_ex_p1) (s := dzl_ex_s); try reflexivity.
  - cbn [dc_tlimit dzl_ex_cfg]. lia.
  - apply Z.leb_le. reflexivity.
  - apply Nat.ltb_lt. reflexivity.
  - left. reflexivity.
  - right. reflexivity.
  - right. cbn [dc_layers dzl_ex_cfg]. lia.
  - discriminate.
  - discriminate.
  - apply Nat.ltb_lt. vm_compute. reflexivity.
  - repeat (apply Forall_cons; [split; [discriminate|split; [apply Z.leb_le; vm_compute; reflexivity|apply Nat.ltb_lt; vm_compute; reflexivity]]|]).
    apply Forall_nil.
Qed.

(* bytewise, every single cut, every pair of cuts: all four two-layer codings of the header *)
Example dzl_two_layers_all_cuts :
  forallb (fun fs =>
    forallb (fun chunks => dzl_beq (fst (dzl_ex_run (dzl_ex_cfg 9000 2) (dzl_ce fs) chunks)) dzl_ex_p)
            ([dzl_ex_s] :: dzl_bytewise dzl_ex_s :: dzl_cuts1 dzl_ex_s ++ dzl_cuts2 dzl_ex_s))
    [[c_dz_COMPRESSION_GZIP; c_dz_COMPRESSION_GZIP]; [c_dz_COMPRESSION_GZIP; c_dz_COMPRESSION_DEFLATE];
     [c_dz_COMPRESSION_DEFLATE; c_dz_COMPRESSION_GZIP]; [c_dz_COMPRESSION_DEFLATE; c_dz_COMPRESSION_DEFLATE]] = true.
Proof. vm_cast_no_check (eq_refl true). Qed.

(* the first layer's output crosses its 8 KiB buffer (p1 = 8201 bytes, handed on as 8192 + 9), the second layer's output crosses
   it three times: whole, bytewise and one cut *)
Definition dzl_beq_opt (a : option bytes) (b : bytes) : bool := match a with Some x => dzl_beq x b | None => false end.
Example dzl_two_layers_buffer_crossing :
  (let c := dzl_ex_cfg (Z.to_nat 40000) 2 in
   let m := 4100%nat in
   let p := repeat 3%N (3 * m) in let p1 := repeat 3%N (2 * m) ++ [0%N] in let s := dzl_toy_enc p1 in
   dzl_beq_opt (dzl_toy_dec None s) p1 && dzl_beq_opt (dzl_toy_dec None p1) p &&
   forallb (fun chunks => dzl_beq (fst (dzl_ex_run c (dzl_ce [c_dz_COMPRESSION_DEFLATE; c_dz_COMPRESSION_GZIP]) chunks)) p)
           [[s]; dzl_bytewise s; [firstn 33 s; skipn 33 s]]) = true.
Proof. vm_cast_no_check (eq_refl true). Qed.

(* three layers with layer limit 3, four layers with layer limit 4 (the token loop advances from the start of the token:
   "gzip, gzip, gzip, gzip" builds four layers): chain length and payload, whole / bytewise / every single cut *)
Example dzl_three_layers_all_cuts :
  (let s3 := dzl_toy_enc dzl_ex_s in
   let ce := dzl_ce [c_dz_COMPRESSION_GZIP; c_dz_COMPRESSION_DEFLATE; c_dz_COMPRESSION_GZIP] in
   (snd (dzl_ex_run (dzl_ex_cfg 9000 3) ce [s3]) =? 3)%nat &&
   forallb (fun chunks => dzl_beq (fst (dzl_ex_run (dzl_ex_cfg 9000 3) ce chunks)) dzl_ex_p)
           ([s3] :: dzl_bytewise s3 :: dzl_cuts1 s3)) = true.
Proof. vm_cast_no_check (eq_refl true). Qed.

Example dzl_four_layers_limit_four :
  (let s4 := dzl_toy_enc (dzl_toy_enc dzl_ex_s) in
   let ce := dzl_ce [c_dz_COMPRESSION_GZIP; c_dz_COMPRESSION_GZIP; c_dz_COMPRESSION_GZIP; c_dz_COMPRESSION_GZIP] in
   dzl_beq ce (dz_str [103;122;105;112;44;32;103;122;105;112;44;32;103;122;105;112;44;32;103;122;105;112]%nat) &&
   (snd (dzl_ex_run (dzl_ex_cfg 9000 4) ce [s4]) =? 4)%nat &&
   forallb (fun chunks => dzl_beq (fst (dzl_ex_run (dzl_ex_cfg 9000 4) ce chunks)) dzl_ex_p)
           ([s4] :: dzl_bytewise s4 :: dzl_cuts1 s4)) = true.
Proof. vm_cast_no_check (eq_refl true). Qed.

(* ================================================================== final theorems of this file *)
Print Assumptions dzl_chain_faithful.
Print Assumptions dzl_layers_faithful.
Print Assumptions dzl_two_layers_faithful.
Print Assumptions dzl_toy_contract.
