(* C13: proofs about the URI splitter model (MUri). *)
Require Import Htp.Model.Base Htp.Model.MBstr Htp.Model.MUri Htp.Proof.PBstr Htp.Spec.SUri.
Local Open Scope N_scope.

(* ------------------------------------------------------------------ scanning primitives *)
Lemma uri_memchr_some c : forall s a b, uri_memchr c s = Some (a, b) -> s = a ++ c :: b.
Proof.
  induction s as [|x s IH]; intros a b H; cbn [uri_memchr] in H; [discriminate|].
  destruct (x =? c) eqn:E.
  - apply N.eqb_eq in E. inversion H; subst. reflexivity.
  - destruct (uri_memchr c s) as [[a' b']|] eqn:E2; [|discriminate].
    inversion H; subst. cbn [app]. f_equal. apply IH. reflexivity.
Qed.
Lemma uri_memchr_some_notin c : forall s a b, uri_memchr c s = Some (a, b) -> ~ In c a.
Proof.
  induction s as [|x s IH]; intros a b H; cbn [uri_memchr] in H; [discriminate|].
  destruct (x =? c) eqn:E.
  - inversion H; subst. intros [].
  - destruct (uri_memchr c s) as [[a' b']|] eqn:E2; [|discriminate].
    inversion H; subst. intros [Hx|Hx].
    + subst. rewrite N.eqb_refl in E. discriminate.
    + exact (IH _ _ eq_refl Hx).
Qed.
Lemma uri_memchr_none c : forall s, uri_memchr c s = None -> ~ In c s.
Proof.
  induction s as [|x s IH]; intros H; cbn [uri_memchr] in H; [intros []|].
  destruct (x =? c) eqn:E; [discriminate|].
  destruct (uri_memchr c s) as [[a' b']|] eqn:E2; [discriminate|].
  intros [Hx|Hx]; [subst; rewrite N.eqb_refl in E; discriminate|exact (IH eq_refl Hx)].
Qed.

Lemma uri_until_app stop : forall s a b, uri_until stop s = (a, b) -> s = a ++ b.
Proof.
  induction s as [|x s IH]; intros a b H; cbn [uri_until] in H.
  - inversion H; reflexivity.
  - destruct (stop x) eqn:E.
    + inversion H; reflexivity.
    + destruct (uri_until stop s) as [a' b'] eqn:E2. inversion H; subst. cbn [app]. f_equal. apply IH. reflexivity.
Qed.
Lemma uri_until_stop stop : forall s a x b, uri_until stop s = (a, x :: b) -> stop x = true.
Proof.
  induction s as [|y s IH]; intros a x b H; cbn [uri_until] in H.
  - inversion H.
  - destruct (stop y) eqn:E.
    + inversion H; subst. exact E.
    + destruct (uri_until stop s) as [a' b'] eqn:E2. inversion H; subst. eapply IH. reflexivity.
Qed.
Lemma uri_until_nostop stop : forall s a b, uri_until stop s = (a, b) -> forallb (fun c => negb (stop c)) a = true.
Proof.
  induction s as [|y s IH]; intros a b H; cbn [uri_until] in H.
  - inversion H; reflexivity.
  - destruct (stop y) eqn:E.
    + inversion H; reflexivity.
    + destruct (uri_until stop s) as [a' b'] eqn:E2. inversion H; subst. cbn [forallb]. rewrite E. cbn [negb andb].
      eapply IH. reflexivity.
Qed.

Lemma uri_bytes_eqb_eq : forall a b, uri_bytes_eqb a b = true <-> a = b.
Proof.
  induction a as [|x a IH]; intros [|y b]; cbn [uri_bytes_eqb]; split; intros H; try reflexivity; try discriminate.
  - apply andb_true_iff in H. destruct H as [H1 H2]. apply N.eqb_eq in H1. apply IH in H2. subst. reflexivity.
  - inversion H; subst. rewrite N.eqb_refl. cbn [andb]. apply IH. reflexivity.
Qed.

(* trailing-space strip keeps a first byte that is not a space *)
Lemma drop_while_snoc_stop p x : p x = false -> forall l, drop_while p (l ++ [x]) = drop_while p l ++ [x].
Proof.
  intros Hx. induction l as [|y l IH]; cbn [app drop_while].
  - rewrite Hx. reflexivity.
  - destruct (p y); [exact IH|reflexivity].
Qed.
Lemma strip_right_head p x r : p x = false -> exists r', strip_right p (x :: r) = x :: r'.
Proof.
  intros Hx. unfold strip_right. cbn [rev]. rewrite drop_while_snoc_stop by exact Hx.
  rewrite rev_app_distr. cbn [rev app]. eexists. reflexivity.
Qed.

(* ------------------------------------------------------------------ the stages of parse_uri *)
Definition optc (c : N) (o : option bytes) : bytes := match o with Some p => c :: p | None => [] end.
Definition optsuf (o : option bytes) : bytes := match o with Some s => s ++ [58] | None => [] end.
Definition credpart (us pw : option bytes) : bytes :=
  if uri_some us || uri_some pw then uri_ob us ++ optc 58 pw ++ [64] else [].

Lemma scheme_split t sch r1 : uri_split_scheme t = (sch, r1) -> t = optsuf sch ++ r1.
Proof.
  unfold uri_split_scheme. destruct t as [|c0 t']; [intros H; inversion H; reflexivity|].
  destruct (c0 =? uri_SLASH); [intros H; inversion H; reflexivity|].
  destruct (uri_memchr uri_COLON (c0 :: t')) as [[s r]|] eqn:E; intros H; inversion H; subst; [|reflexivity].
  apply uri_memchr_some in E. rewrite E. unfold optsuf. rewrite <- app_assoc. reflexivity.
Qed.
Lemma scheme_split_slash r : uri_split_scheme (47 :: r) = (None, 47 :: r).
Proof. reflexivity. Qed.

Lemma auth_split sch r1 au r2 : uri_split_authority sch r1 = (au, r2) ->
  match au with Some a => r1 = 47 :: 47 :: a ++ r2 /\ sch <> None | None => r1 = r2 end.
Proof.
  unfold uri_split_authority. destruct sch as [s|]; [|intros H; inversion H; reflexivity].
  destruct r1 as [|x [|y [|z r']]]; try (intros H; inversion H; reflexivity).
  destruct ((x =? uri_SLASH) && (y =? uri_SLASH) && negb (z =? uri_SLASH)) eqn:E; [|intros H; inversion H; reflexivity].
  destruct (uri_until uri_auth_stop (z :: r')) as [a rest] eqn:Eu. intros H; inversion H; subst.
  apply andb_true_iff in E. destruct E as [E _]. apply andb_true_iff in E. destruct E as [E1 E2].
  apply N.eqb_eq in E1, E2. subst. apply uri_until_app in Eu. rewrite Eu. split; [reflexivity|discriminate].
Qed.

Lemma cred_split a us pw hp : uri_split_credentials a = (us, pw, hp) -> a = credpart us pw ++ hp.
Proof.
  unfold uri_split_credentials. destruct (uri_memchr uri_AT a) as [[cred hp']|] eqn:E.
  - apply uri_memchr_some in E. destruct (uri_memchr uri_COLON cred) as [[u p]|] eqn:E2; intros H; inversion H; subst.
    + apply uri_memchr_some in E2. subst. unfold credpart. cbn [uri_some orb uri_ob optc].
      rewrite <- !app_assoc. cbn [app]. reflexivity.
    + unfold credpart. cbn [uri_some orb uri_ob optc app]. rewrite <- app_assoc. reflexivity.
  - intros H; inversion H; subst. reflexivity.
Qed.

(* the bytes of a host part that end up in no component *)
Definition uri_hp_junk (h : bytes) : bytes :=
  match uri_after_bracket h with
  | Some rest => match uri_memchr uri_COLON rest with Some (j, _) => j | None => rest end
  | None => []
  end.
Definition uri_hp_ok (h : bytes) : bool :=
  match uri_after_bracket h with
  | None => true
  | Some [] => true
  | Some (c :: _) => c =? uri_COLON
  end.

Lemma hostpart_split h hn po : uri_parse_hostpart h = (hn, po) ->
  exists x, hn = Some x /\ h = x ++ uri_hp_junk h ++ optc 58 po.
Proof.
  unfold uri_parse_hostpart, uri_hp_junk, uri_after_bracket.
  assert (Hplain : forall hn po,
            match uri_memchr uri_COLON h with Some (hn, p) => (Some hn, Some p) | None => (Some h, None) end = (hn, po) ->
            exists x, hn = Some x /\ h = x ++ [] ++ optc 58 po).
  { intros hn' po'. destruct (uri_memchr uri_COLON h) as [[a p]|] eqn:E; intros H; inversion H; subst.
    - apply uri_memchr_some in E. eexists; split; [reflexivity|]. exact E.
    - eexists; split; [reflexivity|]. cbn [optc app]. rewrite app_nil_r. reflexivity. }
  destruct h as [|c h']; [exact (Hplain hn po)|].
  destruct (c =? uri_LBR); [|exact (Hplain hn po)].
  destruct (uri_memchr uri_RBR (c :: h')) as [[b rest]|] eqn:Em.
  - apply uri_memchr_some in Em.
    destruct (uri_memchr uri_COLON rest) as [[j p]|] eqn:Ec; intros H; inversion H; subst.
    + apply uri_memchr_some in Ec. eexists; split; [reflexivity|]. rewrite Em, Ec. cbn [optc].
      rewrite <- app_assoc. reflexivity.
    + eexists; split; [reflexivity|]. rewrite Em. cbn [optc]. rewrite app_nil_r, <- app_assoc. reflexivity.
  - intros H; inversion H; subst. eexists; split; [reflexivity|]. cbn [optc app]. rewrite app_nil_r. reflexivity.
Qed.

Lemma hp_junk_nil h : uri_hp_junk h = [] <-> uri_hp_ok h = true.
Proof.
  unfold uri_hp_junk, uri_hp_ok. destruct (uri_after_bracket h) as [rest|]; [|split; reflexivity].
  destruct rest as [|c r]; [split; reflexivity|].
  cbn [uri_memchr]. destruct (c =? uri_COLON) eqn:E; [split; reflexivity|].
  destruct (uri_memchr uri_COLON r) as [[a b]|]; split; discriminate.
Qed.

Lemma tail_split r pa q f : uri_parse_tail r = (pa, q, f) ->
  exists p, pa = Some p /\ r = p ++ optc 63 q ++ optc 35 f.
Proof.
  unfold uri_parse_tail. destruct (uri_until uri_pq_stop r) as [path r3] eqn:E1.
  pose proof (uri_until_app _ _ _ _ E1) as H1.
  destruct r3 as [|c r3'].
  - intros H; inversion H; subst. eexists; split; [reflexivity|]. reflexivity.
  - pose proof (uri_until_stop _ _ _ _ _ E1) as Hc. unfold uri_pq_stop in Hc.
    destruct (c =? uri_QMARK) eqn:Eq.
    + apply N.eqb_eq in Eq. subst c.
      destruct (uri_until uri_q_stop r3') as [qq r4] eqn:E2.
      pose proof (uri_until_app _ _ _ _ E2) as H2.
      destruct r4 as [|d ff].
      * intros H; inversion H; subst. eexists; split; [reflexivity|]. cbn [optc]. rewrite !app_nil_r. reflexivity.
      * pose proof (uri_until_stop _ _ _ _ _ E2) as Hd. unfold uri_q_stop in Hd. rewrite Hd.
        apply N.eqb_eq in Hd. subst d.
        intros H; inversion H; subst. eexists; split; [reflexivity|]. cbn [optc app]. reflexivity.
    + cbn [orb] in Hc. rewrite Hc. apply N.eqb_eq in Hc. subst c.
      intros H; inversion H; subst. eexists; split; [reflexivity|]. reflexivity.
Qed.

Lemma rejoin_auth sch us pw x po pa q f :
  rejoin (mk_uri sch us pw (Some x) po pa q f) =
  optsuf sch ++ [47; 47] ++ credpart us pw ++ x ++ optc 58 po ++ uri_ob pa ++ optc 63 q ++ optc 35 f.
Proof.
  unfold rejoin, credpart, optsuf, optc, uri_has_auth. cbn [uri_scheme uri_username uri_password uri_hostname uri_port uri_path uri_query uri_fragment uri_some orb].
  rewrite <- !app_assoc. reflexivity.
Qed.
Lemma rejoin_noauth sch pa q f :
  rejoin (mk_uri sch None None None None pa q f) = optsuf sch ++ uri_ob pa ++ optc 63 q ++ optc 35 f.
Proof. reflexivity. Qed.

(* ------------------------------------------------------------------ the partition theorem, total form *)
(* For EVERY target: the re-joined components are the target minus trailing spaces with one contiguous
   piece j removed; j is empty exactly when the premise no_junk_after_bracketb holds. *)
Theorem parse_uri_split t :
  exists A j B, uri_strip t = A ++ j ++ B /\ rejoin (parse_uri t) = A ++ B /\
                (j = [] <-> no_junk_after_bracketb t = true).
Proof.
  unfold parse_uri, no_junk_after_bracketb, uri_authority_of.
  destruct (uri_strip t) as [|c0 st'] eqn:Est.
  - exists [], [], []. repeat split; reflexivity.
  - destruct (uri_split_scheme (c0 :: st')) as [sch r1] eqn:Es.
    destruct (uri_split_authority sch r1) as [au r2] eqn:Ea.
    destruct (uri_parse_tail r2) as [[pa q] f] eqn:Et.
    apply scheme_split in Es. apply auth_split in Ea. apply tail_split in Et. destruct Et as [p [Hpa Hr2]].
    cbn [fst]. destruct au as [a|].
    + destruct Ea as [Hr1 _].
      unfold uri_hostpart_of.
      destruct (uri_split_credentials a) as [[us pw] hp] eqn:Ec. cbn [snd].
      destruct (uri_parse_hostpart hp) as [hn po] eqn:Eh.
      apply cred_split in Ec. apply hostpart_split in Eh. destruct Eh as [x [Hhn Hhp]].
      exists (optsuf sch ++ [47; 47] ++ credpart us pw ++ x), (uri_hp_junk hp), (optc 58 po ++ p ++ optc 63 q ++ optc 35 f).
      split; [|split].
      * rewrite Es, Hr1, Ec, Hr2. rewrite Hhp at 1. rewrite <- !app_assoc. reflexivity.
      * subst hn pa. rewrite rejoin_auth. cbn [uri_ob]. rewrite <- !app_assoc. reflexivity.
      * rewrite hp_junk_nil. unfold uri_hp_ok. reflexivity.
    + exists (c0 :: st'), [], []. split; [|split].
      * rewrite !app_nil_r. reflexivity.
      * subst pa. rewrite rejoin_noauth. cbn [uri_ob]. rewrite app_nil_r. rewrite Es, Ea, Hr2. reflexivity.
      * split; reflexivity.
Qed.

(* the proved premise gives the Appendix-A statement ... *)
Theorem partition_partial t : no_junk_after_bracketb t = true -> rejoin (parse_uri t) = strip_right (N.eqb SP) t.
Proof.
  intros Hp. destruct (parse_uri_split t) as [A [j [B [H1 [H2 H3]]]]].
  apply H3 in Hp. subst j. unfold uri_strip in H1. rewrite H1, H2. reflexivity.
Qed.
(* ... and excludes exactly the inputs on which it fails *)
Theorem partition_exact t : rejoin (parse_uri t) = strip_right (N.eqb SP) t <-> no_junk_after_bracketb t = true.
Proof.
  split; [|apply partition_partial].
  intros He. destruct (parse_uri_split t) as [A [j [B [H1 [H2 H3]]]]].
  apply H3. unfold uri_strip in H1. rewrite H1, H2 in He.
  apply (f_equal (@length N)) in He. rewrite !app_length in He.
  destruct j; [reflexivity|cbn [length] in He; lia].
Qed.
(* whatever the input, re-joining never invents or reorders bytes: it is the target with one contiguous piece left out *)
Theorem partition_no_invention t :
  exists A j B, strip_right (N.eqb SP) t = A ++ j ++ B /\ rejoin (parse_uri t) = A ++ B.
Proof. destruct (parse_uri_split t) as [A [j [B [H1 [H2 _]]]]]. exists A, j, B. split; assumption. Qed.

(* a target that starts with '/' has no scheme and no authority component *)
Theorem slash_no_scheme_no_authority r :
  let u := parse_uri (47 :: r) in uri_scheme u = None /\ uri_has_auth u = false.
Proof.
  cbv zeta. unfold parse_uri, uri_strip.
  destruct (strip_right_head (N.eqb SP) 47 r eq_refl) as [r' Hr]. rewrite Hr.
  rewrite scheme_split_slash. cbn [uri_split_authority].
  destruct (uri_parse_tail (47 :: r')) as [[pa q] f]. split; reflexivity.
Qed.
Lemma slash_in_premise r : no_junk_after_bracketb (47 :: r) = true.
Proof.
  unfold no_junk_after_bracketb, uri_authority_of, uri_strip.
  destruct (strip_right_head (N.eqb SP) 47 r eq_refl) as [r' Hr]. rewrite Hr.
  rewrite scheme_split_slash. reflexivity.
Qed.

(* the executable checker: soundness, and the theorem in checker form *)
Theorem check_C13_sound t u : check_C13 t u = true ->
  rejoin u = strip_right (N.eqb SP) t /\
  (forall r, t = 47 :: r -> uri_scheme u = None /\ uri_has_auth u = false).
Proof.
  unfold check_C13. intros H. apply andb_true_iff in H. destruct H as [H1 H2].
  apply uri_bytes_eqb_eq in H1. split; [exact H1|].
  intros r Ht. subst t. cbn in H2. apply andb_true_iff in H2. destruct H2 as [Ha Hb].
  split.
  - destruct (uri_scheme u); [discriminate|reflexivity].
  - destruct (uri_has_auth u); [discriminate|reflexivity].
Qed.
Theorem check_C13_holds t : no_junk_after_bracketb t = true -> check_C13 t (parse_uri t) = true.
Proof.
  intros Hp. unfold check_C13. apply andb_true_iff. split.
  - apply uri_bytes_eqb_eq. apply partition_partial. exact Hp.
  - destruct t as [|c r]; [reflexivity|]. destruct (c =? 47) eqn:E; [|reflexivity].
    apply N.eqb_eq in E. subst c. destruct (slash_no_scheme_no_authority r) as [H1 H2]. cbv zeta in H1, H2.
    rewrite H1, H2. reflexivity.
Qed.
(* outside the premise the checker fails on the model: the oracle domain is exactly the premise *)
Theorem check_C13_fails_outside t : no_junk_after_bracketb t = false -> check_C13 t (parse_uri t) = false.
Proof.
  intros Hp. destruct (check_C13 t (parse_uri t)) eqn:E; [|reflexivity].
  apply check_C13_sound in E. destruct E as [E _]. apply partition_exact in E. congruence.
Qed.

(* ------------------------------------------------------------------ ports *)
Require Import ZifyBool.
Local Open Scope Z_scope.

Lemma drop_while_ext p q : (forall x, p x = q x) -> forall s, drop_while p s = drop_while q s.
Proof. intros H. induction s as [|x s IH]; cbn [drop_while]; [reflexivity|]. rewrite <- H. destruct (p x); [exact IH|reflexivity]. Qed.
Lemma forallb_ext' p q : (forall x : N, p x = q x) -> forall s, forallb p s = forallb q s.
Proof. intros H. induction s as [|x s IH]; cbn [forallb]; [reflexivity|]. rewrite H, IH. reflexivity. Qed.
Lemma take_drop p : forall s, take_while p s ++ drop_while p s = s.
Proof. induction s as [|x s IH]; cbn [take_while drop_while]; [reflexivity|]. destruct (p x); [cbn [app]; f_equal; exact IH|reflexivity]. Qed.
Lemma take_while_all p : forall s, forallb p (take_while p s) = true.
Proof. induction s as [|x s IH]; cbn [take_while]; [reflexivity|]. destruct (p x) eqn:E; [cbn [forallb]; rewrite E; exact IH|reflexivity]. Qed.
Definition head_not (p : N -> bool) (s : bytes) : Prop := match s with [] => True | x :: _ => p x = false end.
Lemma drop_while_app_all p : forall l s, forallb p l = true -> head_not p s -> drop_while p (l ++ s) = s.
Proof.
  induction l as [|x l IH]; intros s Hl Hs; cbn [app].
  - destruct s as [|y s]; cbn [drop_while]; [reflexivity|]. cbn [head_not] in Hs. rewrite Hs. reflexivity.
  - cbn [forallb] in Hl. apply andb_true_iff in Hl. destruct Hl as [Hx Hl]. cbn [drop_while]. rewrite Hx. apply IH; assumption.
Qed.
Lemma take_while_app_all p : forall l s, forallb p l = true -> head_not p s -> take_while p (l ++ s) = l.
Proof.
  induction l as [|x l IH]; intros s Hl Hs; cbn [app].
  - destruct s as [|y s]; cbn [take_while]; [reflexivity|]. cbn [head_not] in Hs. rewrite Hs. reflexivity.
  - cbn [forallb] in Hl. apply andb_true_iff in Hl. destruct Hl as [Hx Hl]. cbn [take_while]. rewrite Hx. f_equal. apply IH; assumption.
Qed.

(* the regenerated LWS table is {SP, HT} *)
Lemma lws_eq b : htp_is_lws b = su_is_lws b.
Proof.
  destruct (N.ltb b 256) eqn:E.
  - apply N.ltb_lt in E. apply Bool.eqb_prop.
    apply (byte_sweep (fun b => Bool.eqb (htp_is_lws b) (su_is_lws b))); [vm_compute; reflexivity|exact E].
  - apply N.ltb_ge in E. unfold htp_is_lws, tbool.
    assert (Hl : N.of_nat (length t_htp_is_lws) = 256%N) by (vm_compute; reflexivity).
    rewrite tget_overflow by (rewrite Hl; exact E).
    unfold su_is_lws. cbn [N.eqb negb]. lia.
Qed.

Lemma digit_ok10 c : digit_ok 10 c = su_is_digit c.
Proof.
  unfold digit_ok, digit_of, su_is_digit, zb.
  destruct ((48 <=? Z.of_N c) && (Z.of_N c <=? 57)) eqn:E1; [lia|].
  destruct ((97 <=? Z.of_N c) && (Z.of_N c <=? 122)) eqn:E2; [lia|].
  destruct ((65 <=? Z.of_N c) && (Z.of_N c <=? 90)) eqn:E3; [lia|]. cbn. lia.
Qed.
Lemma digit_of_dec c : su_is_digit c = true -> digit_of c = Z.of_N (c - 48).
Proof.
  unfold digit_of, su_is_digit, zb. intros H.
  destruct ((48 <=? Z.of_N c) && (Z.of_N c <=? 57)) eqn:E1; lia.
Qed.
Lemma digit_not_lws c : su_is_digit c = true -> su_is_lws c = false.
Proof. unfold su_is_digit, su_is_lws. lia. Qed.
Lemma lws_not_digit c : su_is_lws c = true -> su_is_digit c = false.
Proof. unfold su_is_digit, su_is_lws. lia. Qed.

Definition uri_dstep (a : Z) (d : N) : Z := a * 10 + Z.of_N (d - 48).
Lemma value_from_dec : forall s acc,
  value_from 10 acc (digits 10 s) = fold_left uri_dstep (take_while su_is_digit s) acc.
Proof.
  induction s as [|c s IH]; intros acc; cbn [digits take_while]; [reflexivity|].
  rewrite digit_ok10. destruct (su_is_digit c) eqn:E; [|reflexivity].
  unfold value_from. cbn [fold_left]. fold (value_from 10 (acc * 10 + digit_of c) (digits 10 s)).
  rewrite IH. rewrite (digit_of_dec c E). reflexivity.
Qed.
Lemma value_dec s : value 10 (digits 10 s) = su_dec (take_while su_is_digit s).
Proof. unfold value. rewrite value_from_dec. reflexivity. Qed.
Lemma digits_nil_iff s : digits 10 s = [] <-> take_while su_is_digit s = [].
Proof.
  destruct s as [|c s]; cbn [digits take_while]; [split; reflexivity|].
  rewrite digit_ok10. destruct (su_is_digit c); split; intros H; try discriminate; reflexivity.
Qed.
Lemma su_dec_nonneg s : 0 <= su_dec (take_while su_is_digit s).
Proof.
  rewrite <- value_dec. unfold value. apply value_from_ge; [lia|lia|apply digits_nonneg].
Qed.

(* *lastlen of bstr_util_mem_to_pint on success: the unread suffix is what follows the digits *)
Lemma pint_loop_snd base : forall s i rval tf,
  0 <= fst (pint_loop s base i rval tf) ->
  exists k, snd (pint_loop s base i rval tf) = (i + k)%nat /\ skipn k s = drop_while (digit_ok base) s.
Proof.
  induction s as [|c s IH]; intros i rval tf H.
  - exists 1%nat. cbn. split; [lia|reflexivity].
  - cbn [pint_loop] in *. unfold digit_ok. cbn [drop_while].
    destruct ((digit_of c =? -1) || (base <=? digit_of c)) eqn:E; cbn [negb].
    + exists 0%nat. cbn [snd skipn]. split; [lia|reflexivity].
    + destruct tf.
      * destruct ((INT64_MAX - digit_of c) / base <? rval) eqn:E2; [cbn [fst] in H; lia|].
        destruct (IH _ _ _ H) as [k [H1 H2]]. exists (S k). cbn [skipn]. split; [rewrite H1; lia|].
        rewrite H2. reflexivity.
      * destruct (IH _ _ _ H) as [k [H1 H2]]. exists (S k). cbn [skipn]. split; [rewrite H1; lia|].
        rewrite H2. reflexivity.
Qed.

(* htp_parse_positive_integer_whitespace in base 10, characterised *)
Lemma piw10_spec p :
  parse_positive_integer_whitespace p 10 =
  let s := drop_while su_is_lws p in
  let ds := take_while su_is_digit s in
  let r := drop_while su_is_digit s in
  match p with
  | [] => -1003
  | _ :: _ =>
    match s with
    | [] => -1001
    | _ :: _ =>
      match ds with
      | [] => -1
      | _ :: _ => if su_dec ds <=? INT64_MAX then (if forallb su_is_lws r then su_dec ds else -1002) else -2
      end
    end
  end.
Proof.
  cbv zeta. unfold parse_positive_integer_whitespace. destruct p as [|c0 p0]; [reflexivity|].
  rewrite (drop_while_ext _ _ lws_eq). set (s := drop_while su_is_lws (c0 :: p0)).
  destruct s as [|c1 s1] eqn:Es; [reflexivity|]. rewrite <- Es. assert (Hne : s <> []) by (rewrite Es; discriminate).
  clearbody s. clear Es.
  pose proof (to_pint_spec s 10 ltac:(lia) Hne) as Hf.
  destruct (mem_to_pint s 10) as [rr lastpos] eqn:Em. cbn [fst] in Hf.
  destruct (take_while su_is_digit s) as [|d ds'] eqn:Et.
  - apply digits_nil_iff in Et. rewrite Et in Hf. subst rr. reflexivity.
  - rewrite <- Et. destruct (digits 10 s) as [|z zs] eqn:Ed.
    { apply digits_nil_iff in Ed. congruence. }
    rewrite <- Ed in Hf. rewrite value_dec in Hf.
    pose proof (su_dec_nonneg s) as Hnn.
    destruct (su_dec (take_while su_is_digit s) <=? INT64_MAX) eqn:Ev.
    + subst rr. destruct (su_dec (take_while su_is_digit s) <? 0) eqn:Eneg; [lia|].
      pose proof (pint_loop_snd 10 s 0%nat 0 false) as Hs. unfold mem_to_pint in Em. rewrite Em in Hs.
      cbn [fst snd] in Hs. destruct (Hs Hnn) as [k [Hk1 Hk2]]. cbn in Hk1. subst lastpos.
      rewrite Hk2. rewrite (drop_while_ext _ _ digit_ok10). rewrite (forallb_ext' _ _ lws_eq). reflexivity.
    + subst rr. reflexivity.
Qed.

(* the port conversion satisfies the executable port oracle *)
Theorem norm_port_check p : check_C13_port p (fst (norm_port p)) (snd (norm_port p)) = true.
Proof.
  unfold norm_port, check_C13_port. rewrite piw10_spec. cbv zeta.
  change uri_is_lws with su_is_lws. change uri_is_digit with su_is_digit. change uri_dec with su_dec.
  set (s := drop_while su_is_lws p).
  destruct p as [|c0 p0]; [reflexivity|].
  destruct s as [|c1 s1] eqn:Es; [reflexivity|]. rewrite <- Es. clearbody s. clear Es.
  pose proof (su_dec_nonneg s) as Hnn.
  set (ds := take_while su_is_digit s) in *. set (r := drop_while su_is_digit s).
  destruct ds as [|d ds'] eqn:Ed; [reflexivity|]. rewrite <- Ed in *. clearbody ds. cbn [negb andb].
  unfold uri_port_of_parsed.
  assert (HM : INT64_MAX = 9223372036854775807) by reflexivity.
  destruct (su_dec ds <=? INT64_MAX) eqn:Ev.
  - destruct (forallb su_is_lws r) eqn:Er; cbn [andb].
    + destruct (su_dec ds <? 0) eqn:E0; [lia|].
      destruct ((0 <? su_dec ds) && (su_dec ds <? 65536)) eqn:E1; cbn [fst snd];
        destruct ((1 <=? su_dec ds) && (su_dec ds <=? 65535)) eqn:E2; lia.
    + reflexivity.
  - assert (H1 : (1 <=? su_dec ds) && (su_dec ds <=? 65535) = false) by lia.
    destruct (forallb su_is_lws r); cbn [andb]; [rewrite H1|]; reflexivity.
Qed.

(* soundness of the port oracle: the declarative statement of the property *)
Theorem check_C13_port_sound p v i : check_C13_port p v i = true ->
  (1 <= v <= 65535 /\ i = false /\ port_text p v) \/
  (v = -1 /\ i = true /\ ~ exists v', 1 <= v' <= 65535 /\ port_text p v').
Proof.
  unfold check_C13_port. cbv zeta.
  change uri_is_lws with su_is_lws. change uri_is_digit with su_is_digit. change uri_dec with su_dec.
  set (s := drop_while su_is_lws p). set (ds := take_while su_is_digit s). set (r := drop_while su_is_digit s).
  destruct (negb match ds with [] => true | _ :: _ => false end && forallb su_is_lws r &&
            (1 <=? su_dec ds) && (su_dec ds <=? 65535)) eqn:C; intros H.
  - left. apply andb_true_iff in H. destruct H as [Hv Hi].
    apply andb_true_iff in C. destruct C as [C C4]. apply andb_true_iff in C. destruct C as [C C3].
    apply andb_true_iff in C. destruct C as [C1 C2].
    apply Z.eqb_eq in Hv. subst v. split; [lia|]. split; [destruct i; [discriminate|reflexivity]|].
    destruct (drop_while_split su_is_lws p) as [l [Hl1 Hl2]]. fold s in Hl1.
    exists l, ds, r. repeat split.
    + rewrite Hl1 at 1. f_equal. symmetry. apply take_drop.
    + exact Hl2.
    + exact C2.
    + intros E. rewrite E in C1. discriminate.
    + apply take_while_all.
  - right. apply andb_true_iff in H. destruct H as [Hv Hi]. apply Z.eqb_eq in Hv.
    split; [exact Hv|]. split; [exact Hi|].
    intros [v' [Hr [l' [ds' [r' [Hp [Hl [Hr' [Hne [Hd Hv']]]]]]]]]].
    assert (Hhd : head_not su_is_lws (ds' ++ r')).
    { destruct ds' as [|d0 ds0]; [congruence|]. cbn [app head_not]. cbn [forallb] in Hd.
      apply andb_true_iff in Hd. destruct Hd as [Hd _]. apply digit_not_lws. exact Hd. }
    assert (Hs : s = ds' ++ r') by (unfold s; rewrite Hp; apply drop_while_app_all; assumption).
    assert (Hhr : head_not su_is_digit r').
    { destruct r' as [|r0 r1]; [exact I|]. cbn [head_not]. cbn [forallb] in Hr'.
      apply andb_true_iff in Hr'. destruct Hr' as [Hr' _]. apply lws_not_digit. exact Hr'. }
    assert (Hds : ds = ds') by (unfold ds; rewrite Hs; apply take_while_app_all; assumption).
    assert (Hrr : r = r') by (unfold r; rewrite Hs; apply drop_while_app_all; assumption).
    rewrite Hds, Hrr, Hr' in C. subst v'.
    destruct ds' as [|d0 ds0]; [congruence|]. cbn [negb andb] in C. lia.
Qed.

(* htp_parse_port and the conversion in htp_normalize_parsed_uri agree on every text *)
Lemma uri_parse_port_eq p : uri_parse_port p = norm_port p.
Proof. destruct p; reflexivity. Qed.
(* so the port number / invalid flag of htp_parse_hostport obey the same oracle whenever a port text is reported *)
Theorem hostport_port_check hp hn p v i : parse_hostport hp = (hn, Some p, v, i) -> check_C13_port p v i = true.
Proof.
  unfold parse_hostport. destruct (mem_trim hp) as [|c0 d']; [discriminate|].
  destruct (c0 =? uri_LBR)%N.
  - destruct (uri_memchr uri_RBR (c0 :: d')) as [[b rest]|]; [|discriminate].
    destruct rest as [|c p']; [discriminate|]. destruct (c =? uri_COLON)%N; [|discriminate].
    rewrite uri_parse_port_eq. destruct (norm_port p') as [v' i'] eqn:E. intros H; inversion H; subst.
    pose proof (norm_port_check p) as Hc. rewrite E in Hc. exact Hc.
  - destruct (uri_memchr uri_COLON (c0 :: d')) as [[h p']|]; [|discriminate].
    rewrite uri_parse_port_eq. destruct (norm_port p') as [v' i'] eqn:E. intros H; inversion H; subst.
    pose proof (norm_port_check p) as Hc. rewrite E in Hc. exact Hc.
Qed.

Theorem port_spec p :
  let '(v, invalid) := norm_port p in
  (1 <= v <= 65535 /\ invalid = false /\ port_text p v) \/
  (v = -1 /\ invalid = true /\ ~ exists v', 1 <= v' <= 65535 /\ port_text p v').
Proof.
  pose proof (norm_port_check p) as H. destruct (norm_port p) as [v i]. cbn [fst snd] in H.
  exact (check_C13_port_sound _ _ _ H).
Qed.

(* ------------------------------------------------------------------ the refutation of the full statement *)
Local Open Scope N_scope.
(* "a://[]a": the byte after the bracketed host is in no component *)
Definition c13_witness : bytes := [97; 58; 47; 47; 91; 93; 97].
(* "http://[::1]x:80/p" *)
Definition c13_witness2 : bytes := [104;116;116;112;58;47;47;91;58;58;49;93;120;58;56;48;47;112].
Theorem partition_refuted : exists t, rejoin (parse_uri t) <> strip_right (N.eqb SP) t.
Proof. exists c13_witness. vm_compute. discriminate. Qed.
(* "http://u:p@[::1]:80/p?q#f  " : every component present, bracketed host followed by a port, trailing spaces *)
Definition c13_ex1 : bytes :=
  [104;116;116;112;58;47;47;117;58;112;64;91;58;58;49;93;58;56;48;47;112;63;113;35;102;32;32].
