(* C14: refutations of the unrestricted chunking statement on the faithful model (each witness is a
   defect of the unchanged library, replayed on it by lib/c14.py), non-vacuity examples of the
   premises, and the C-D quoting lemmas. *)
Require Import Htp.Model.Base Htp.Model.MBstr Htp.Model.MMultipart Htp.Spec.SMultipart.
Require Coq.Strings.String Coq.Strings.Ascii.

Definition mp_str (s : String.string) : bytes := map Ascii.N_of_ascii (String.list_ascii_of_string s).
Import Coq.Strings.String.StringSyntax.
Delimit Scope string_scope with string.
Arguments mp_str s%string.

(* ------------------------------------------------------------------ the full statement *)
Definition mp_refines (boundary : bytes) (flags : N) (chunks : list bytes) : Prop :=
  mp_obs (mp_finalize (fold_left mp_parse chunks (mp_init_flags boundary flags))) =
  mp_obs (mp_finalize (mp_parse (mp_init_flags boundary flags) (concat chunks))).

Definition mp_byte_refinement_full : Prop := forall boundary flags chunks, mp_refines boundary flags chunks.

(* ------------------------------------------------------------------ witnesses *)
Definition mp_BB : bytes := mp_str "BB".
Definition mp_file_head : bytes :=
  mp_str "--BB" ++ mp_CRLF ++ mp_str "Content-Disposition: form-data; name=""f""; filename=""x""" ++ mp_CRLF ++ mp_CRLF.

(* K1: file data "a CR", cut right after the CR: the CR is lost *)
Definition mp_w_cr : list bytes := [mp_file_head ++ mp_str "a" ++ [CR]; mp_CRLF ++ mp_str "--BB--" ++ mp_CRLF].
(* K1': the next chunk starts with another CR *)
Definition mp_w_cr2 : list bytes := [mp_file_head ++ mp_str "a" ++ [CR]; [CR] ++ mp_str "b" ++ mp_CRLF ++ mp_str "--BB--" ++ mp_CRLF].
(* K2: one-line epilogue: dropped when delivered whole, reported when cut *)
Definition mp_w_tail : list bytes := [mp_str "--BB--" ++ mp_CRLF ++ mp_str "a"; mp_str "b" ++ [LF]].
(* K3: epilogue with an empty line: every data call stored twice *)
Definition mp_w_dup : list bytes := [mp_str "--BB--" ++ mp_CRLF ++ [LF] ++ mp_str "x"; mp_str "y"].
(* K4: header line directly followed by the delimiter (malformed): pending line leaks into the next part only when whole *)
Definition mp_w_open : list bytes :=
  [mp_str "--BB" ++ mp_CRLF ++ mp_str "X: y"; mp_CRLF ++ mp_str "--BB" ++ mp_CRLF ++ mp_str "Z: w" ++ mp_CRLF ++ mp_CRLF ++
   mp_str "d" ++ mp_CRLF ++ mp_str "--BB--" ++ mp_CRLF].

Definition mp_ob_eqb (x y : option bytes) : bool :=
  match x, y with Some u, Some v => mp_beq u v | None, None => true | _, _ => false end.
Fixpoint mp_hl_eqb (x y : list (bytes * bytes)) : bool :=
  match x, y with
  | [], [] => true
  | (k, v) :: x', (k', v') :: y' => mp_beq k k' && mp_beq v v' && mp_hl_eqb x' y'
  | _, _ => false
  end.
Definition mp_pobs_eqb (p q : mp_pobs) : bool :=
  match p, q with
  | (t, n, f, c, h, v, d), (t', n', f', c', h', v', d') =>
    (mp_type_num t =? mp_type_num t')%N && mp_ob_eqb n n' && mp_ob_eqb f f' && mp_ob_eqb c c' && mp_hl_eqb h h' &&
    mp_ob_eqb v v' && mp_beq d d'
  end.
Fixpoint mp_pl_eqb (x y : list mp_pobs) : bool :=
  match x, y with
  | [], [] => true
  | p :: x', q :: y' => mp_pobs_eqb p q && mp_pl_eqb x' y'
  | _, _ => false
  end.
Definition mp_obs_eqb (a b : list mp_pobs * N * bool) : bool :=
  match a, b with (pa, fa, ea), (pb, fb, eb) => mp_pl_eqb pa pb && (fa =? fb)%N && Bool.eqb ea eb end.

Lemma mp_beq_refl x : mp_beq x x = true.
Proof. induction x as [|c x IH]; cbn; [reflexivity|rewrite N.eqb_refl; exact IH]. Qed.
Lemma mp_ob_eqb_refl x : mp_ob_eqb x x = true.
Proof. destruct x; cbn; [apply mp_beq_refl|reflexivity]. Qed.
Lemma mp_hl_eqb_refl x : mp_hl_eqb x x = true.
Proof. induction x as [|[k v] x IH]; cbn; [reflexivity|]. rewrite !mp_beq_refl, IH. reflexivity. Qed.
Lemma mp_pobs_eqb_refl p : mp_pobs_eqb p p = true.
Proof.
  destruct p as [[[[[[t n] f] c] h] v] d]. cbn.
  rewrite N.eqb_refl, !mp_ob_eqb_refl, mp_hl_eqb_refl, mp_beq_refl. reflexivity.
Qed.
Lemma mp_pl_eqb_refl x : mp_pl_eqb x x = true.
Proof. induction x as [|p x IH]; cbn; [reflexivity|]. rewrite mp_pobs_eqb_refl, IH. reflexivity. Qed.
Lemma mp_obs_eqb_refl a : mp_obs_eqb a a = true.
Proof. destruct a as [[pa fa] ea]. cbn. rewrite mp_pl_eqb_refl, N.eqb_refl. destruct ea; reflexivity. Qed.

Lemma mp_obs_neq a b : mp_obs_eqb a b = false -> a <> b.
Proof. intros H E. subst b. rewrite mp_obs_eqb_refl in H. discriminate. Qed.

Definition mp_run2 (chunks : list bytes) := mp_obs (mp_finalize (fold_left mp_parse chunks (mp_init mp_BB))).

(* every witness satisfies all premises except the one it refutes *)
Definition mp_others_ok (chunks : list bytes) (k : nat) : bool :=
  let st0 := mp_init mp_BB in
  mp_bnd_okb mp_BB &&
  (if k =? 3 then true else if k =? 4 then true else mp_body_okb mp_BB 0 (concat chunks)) &&
  (if k =? 1 then true else mp_no_cr_hazardb mp_BB 0 chunks) &&
  (if k =? 2 then true else mp_tail_okb (fold_left mp_parse chunks st0) && mp_tail_okb (mp_parse st0 (concat chunks))).

Lemma mp_refuted_cr_aside :
  mp_others_ok mp_w_cr 1 = true /\ mp_no_cr_hazardb mp_BB 0 mp_w_cr = false /\ ~ mp_refines mp_BB 0 mp_w_cr.
Proof. split; [vm_compute; reflexivity|]. split; [vm_compute; reflexivity|]. apply mp_obs_neq. vm_compute. reflexivity. Qed.

Lemma mp_refuted_cr_cr :
  mp_others_ok mp_w_cr2 1 = true /\ mp_no_cr_hazardb mp_BB 0 mp_w_cr2 = false /\ ~ mp_refines mp_BB 0 mp_w_cr2.
Proof. split; [vm_compute; reflexivity|]. split; [vm_compute; reflexivity|]. apply mp_obs_neq. vm_compute. reflexivity. Qed.

Lemma mp_refuted_dropped_tail :
  mp_others_ok mp_w_tail 2 = true /\ mp_tail_okb (mp_parse (mp_init mp_BB) (concat mp_w_tail)) = false /\ ~ mp_refines mp_BB 0 mp_w_tail.
Proof. split; [vm_compute; reflexivity|]. split; [vm_compute; reflexivity|]. apply mp_obs_neq. vm_compute. reflexivity. Qed.

Lemma mp_refuted_doubled_epilogue :
  mp_others_ok mp_w_dup 3 = true /\ mp_body_okb mp_BB 0 (concat mp_w_dup) = false /\ ~ mp_refines mp_BB 0 mp_w_dup.
Proof. split; [vm_compute; reflexivity|]. split; [vm_compute; reflexivity|]. apply mp_obs_neq. vm_compute. reflexivity. Qed.

Lemma mp_refuted_open_header_line :
  mp_others_ok mp_w_open 4 = true /\ mp_body_okb mp_BB 0 (concat mp_w_open) = false /\ ~ mp_refines mp_BB 0 mp_w_open.
Proof. split; [vm_compute; reflexivity|]. split; [vm_compute; reflexivity|]. apply mp_obs_neq. vm_compute. reflexivity. Qed.

Lemma mp_full_is_false : ~ mp_byte_refinement_full.
Proof. intros H. exact (proj2 (proj2 mp_refuted_cr_aside) (H _ _ _)). Qed.

(* ------------------------------------------------------------------ C-D quoting *)
Lemma mp_cd_unquote_quote n : mp_cd_unquote (mp_quote n) = n.
Proof.
  induction n as [|c n IH]; [reflexivity|]. cbn [mp_quote].
  destruct ((c =? mp_QUOTE)%N || (c =? mp_BSL)%N) eqn:E.
  - cbn [mp_cd_unquote]. change (mp_BSL =? mp_BSL)%N with true. cbv iota. rewrite E, IH. reflexivity.
  - apply orb_false_iff in E. destruct E as [E1 E2]. cbn [mp_cd_unquote]. rewrite E2, IH. reflexivity.
Qed.

Lemma mp_cd_quoted_quote n : forall rest acc,
  mp_cd_quoted (mp_quote n ++ mp_QUOTE :: rest) acc = Some (rev acc ++ mp_quote n, rest).
Proof.
  induction n as [|c n IH]; intros rest acc.
  - cbn. rewrite app_nil_r. reflexivity.
  - cbn [mp_quote]. destruct ((c =? mp_QUOTE)%N || (c =? mp_BSL)%N) eqn:E.
    + cbn [app mp_cd_quoted]. change (mp_BSL =? mp_QUOTE)%N with false. change (mp_BSL =? mp_BSL)%N with true. cbv iota.
      rewrite E, IH. cbn [rev]. rewrite <- !app_assoc. reflexivity.
    + apply orb_false_iff in E. destruct E as [E1 E2]. cbn [app mp_cd_quoted]. rewrite E1, E2, IH.
      cbn [rev]. rewrite <- !app_assoc. reflexivity.
Qed.
