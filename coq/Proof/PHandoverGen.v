(* C09, hand-over progress, part 1: the generic argument. For ANY machine driven through Spec/SHandover.h_run:
   if there is a predicate P of the machine state such that
     (A1) a response call answering DATA_OTHER establishes P,
     (A2) a request call keeps P,
     (A3) under P a response call on a non-empty chunk never answers (DATA_OTHER, consumed 0),
   then at most three calls in a row can answer (DATA_OTHER, 0) and every other step strictly decreases the pending
   work h_measure; hence the driver stops within 4 * h_measure + 4 steps: HDone (nothing left to offer) or HBlocked (the
   request side answered (DATA_OTHER, 0) and there is no response chunk to offer). Part 2 (PHandover.v) discharges A1-A3
   for the parser model. *)
Require Import Htp.Model.Base Htp.Spec.SHandover.
Require Import Lia.
Local Open Scope Z_scope.

Section Gen.
Variable St : Type.
Variable call : St -> hdir -> bytes -> St * Z * nat.
Variable rcD rcO : Z.
Variable P : St -> Prop.
Hypothesis A1 : forall x ch x' rc n, call x HS ch = (x', rc, n) -> rc = rcO -> P x'.
Hypothesis A2 : forall x ch x' rc n, P x -> call x HQ ch = (x', rc, n) -> P x'.
Hypothesis A3 : forall x ch x' rc n, P x -> ch <> [] -> call x HS ch = (x', rc, n) -> rc = rcO -> n <> O.

Notation hst := (hst St).
Notation h_step := (h_step St call rcD rcO).
Notation h_run := (h_run St call rcD rcO).

Lemma h_avail_queue (s : hst) d : h_avail s d = true -> h_live s d = true /\ h_queue s d <> [].
Proof. unfold h_avail. destruct (h_live s d); [|discriminate]. destruct (h_queue s d); [discriminate|]. split; [reflexivity|discriminate]. Qed.

Lemma h_next_avail want (s : hst) d : h_next St want s = Some d -> h_avail s d = true.
Proof.
  unfold h_next. destruct (h_avail s want) eqn:E1; [intros H; injection H as <-; exact E1|].
  destruct (h_avail s (hother want)) eqn:E2; [intros H; injection H as <-; exact E2|discriminate].
Qed.
Lemma h_next_want want (s : hst) : h_avail s want = true -> h_next St want s = Some want.
Proof. unfold h_next. intros ->. reflexivity. Qed.

Lemma weight_cons (ch : bytes) rest : h_weight (ch :: rest) = (S (length ch) + h_weight rest)%nat.
Proof. reflexivity. Qed.

(* replacing the head of a fed queue by something lighter decreases the measure *)
Lemma measure_set_queue (s : hst) d ch rest l :
  h_live s d = true -> h_queue s d = ch :: rest -> (h_weight l < h_weight (ch :: rest))%nat ->
  (h_measure (h_set_queue St s d l) < h_measure s)%nat.
Proof.
  intros L Q W. unfold h_measure. destruct d; cbn [h_live h_queue] in L, Q; cbn [h_set_queue h_q h_s h_qlive h_slive]; rewrite L, Q; lia.
Qed.
Lemma measure_kill (s : hst) d ch rest :
  h_live s d = true -> h_queue s d = ch :: rest -> (h_measure (h_kill St s d) < h_measure s)%nat.
Proof.
  intros L Q. unfold h_measure. destruct d; cbn [h_live h_queue] in L, Q; cbn [h_kill h_q h_s h_qlive h_slive]; rewrite L, Q, weight_cons; lia.
Qed.
Lemma measure_set_st (s : hst) x : h_measure (h_set_st St s x) = h_measure s.
Proof. reflexivity. Qed.
Lemma weight_skipn (ch : bytes) rest n : n <> O -> ch <> [] -> (h_weight (skipn n ch :: rest) < h_weight (ch :: rest))%nat.
Proof.
  intros Hn Hc. rewrite !weight_cons. rewrite skipn_length. destruct ch; [congruence|]. cbn [length]. lia.
Qed.

(* the allowance: what is known about the state bounds the number of (DATA_OTHER, 0) answers still possible in a row *)
Definition h_bound (fuel : nat) (forced : option hdir) (s : hst) : Prop :=
  (4 * h_measure s + 3 < fuel)%nat \/
  (forced = Some HS /\ h_avail s HS = true /\ 4 * h_measure s + 2 < fuel)%nat \/
  (P (h_st s) /\ 4 * h_measure s + 1 < fuel)%nat \/
  (P (h_st s) /\ forced = Some HS /\ h_avail s HS = true /\ 4 * h_measure s < fuel)%nat.

Lemma h_bound_dec f forced forced' (s s' : hst) :
  h_bound (S f) forced s -> (h_measure s' < h_measure s)%nat -> h_bound f forced' s'.
Proof. intros B M. left. destruct B as [B|[(_ & _ & B)|[(_ & B)|(_ & _ & _ & B)]]]; lia. Qed.

Inductive step_kind := K_done | K_blocked | K_dec | K_stuck (d : hdir).

(* one step: either it is final, or the measure decreases, or the call was a stuck answer *)
Lemma h_step_cases want (s : hst) :
  match h_step want s with
  | HS_done _ => True
  | HS_blocked _ s' k => True
  | HS_go _ s' k forced =>
      ((h_measure s' < h_measure s)%nat) \/
      (exists d ch rest x, h_next St want s = Some d /\ h_queue s d = ch :: rest /\ ch <> [] /\
         call (h_st s) d ch = (x, rcO, O) /\ s' = h_set_st St s x /\ forced = Some (hother d) /\ (d = HQ -> h_avail s' HS = true))
  end.
Proof.
  unfold h_step. destruct (h_next St want s) as [d|] eqn:En; [|exact I].
  pose proof (h_next_avail _ _ _ En) as Av. apply h_avail_queue in Av. destruct Av as [Lv Qn].
  destruct (h_queue s d) as [|ch rest] eqn:Eq; [exact I|].
  destruct ch as [|b0 ch0] eqn:Ech.
  - left. eapply measure_set_queue; [exact Lv|exact Eq|]. rewrite weight_cons. lia.
  - rewrite <- Ech in *. assert (Hne : ch <> []) by (rewrite Ech; discriminate).
    destruct (call (h_st s) d ch) as [[x rc] n] eqn:Ec.
    assert (L1 : h_live (h_set_st St s x) d = true) by (destruct d; exact Lv).
    assert (Q1 : h_queue (h_set_st St s x) d = ch :: rest) by (destruct d; exact Eq).
    destruct (rc =? rcD) eqn:E1.
    + left. rewrite <- (measure_set_st s x). eapply measure_set_queue; [exact L1|exact Q1|]. rewrite weight_cons. lia.
    + destruct (rc =? rcO) eqn:E2.
      * apply Z.eqb_eq in E2. subst rc.
        destruct n as [|n].
        -- (* stuck answer: the queue is unchanged *)
           assert (Same : h_set_queue St (h_set_st St s x) d (skipn 0 ch :: rest) = h_set_st St s x).
           { cbn [skipn]. destruct s as [x0 q0 s0 lq ls]. destruct d; cbn in Eq |- *; rewrite Eq; reflexivity. }
           rewrite Same.
           destruct d.
           ++ destruct (h_avail (h_set_st St s x) HS) eqn:Ea; [|exact I].
              right. exists HQ, ch, rest, x. repeat split; try assumption; try reflexivity. intros _. exact Ea.
           ++ right. exists HS, ch, rest, x. repeat split; try assumption; try reflexivity. discriminate.
        -- assert (Dec : (h_measure (h_set_queue St (h_set_st St s x) d (skipn (S n) ch :: rest)) < h_measure s)%nat).
           { rewrite <- (measure_set_st s x). eapply measure_set_queue; [exact L1|exact Q1|]. apply weight_skipn; [discriminate|exact Hne]. }
           destruct d; left; exact Dec.
      * left. rewrite <- (measure_set_st s x). eapply measure_kill; [exact L1|exact Q1].
Qed.

Theorem h_run_terminates : forall fuel sched i forced (s : hst),
  h_bound fuel forced s -> fst (fst (h_run fuel sched i forced s)) <> HFuel.
Proof.
  induction fuel as [|f IH]; intros sched i forced s B.
  - exfalso. destruct B as [B|[(_ & _ & B)|[(_ & B)|(_ & _ & _ & B)]]]; lia.
  - cbn [h_run]. set (want := match forced with Some d => d | None => sched i end).
    pose proof (h_step_cases want s) as C.
    destruct (h_step want s) as [|s' k|s' k forced'] eqn:Es; [discriminate|discriminate|].
    assert (G : h_bound f forced' s').
    { destruct C as [C|(d & ch & rest & x & En & Eq & Hne & Ec & -> & -> & Hq)]; [eapply h_bound_dec; eassumption|].
      assert (Mx : h_measure (h_set_st St s x) = h_measure s) by reflexivity.
      destruct d; cbn [hother].
      - (* request side stuck *)
        specialize (Hq eq_refl).
        assert (NotS : forced = Some HS -> h_avail s HS = true -> False).
        { intros -> Av. subst want. rewrite (h_next_want _ _ Av) in En. discriminate. }
        destruct B as [B|[(F & Av & B)|[(Px & B)|(Px & F & Av & B)]]].
        + right. left. rewrite Mx. repeat split; [exact Hq|lia].
        + exfalso. exact (NotS F Av).
        + right. right. right. rewrite Mx. cbn [h_st h_set_st]. repeat split; [eapply A2; eassumption|exact Hq|lia].
        + exfalso. exact (NotS F Av).
      - (* response side stuck: P holds afterwards; impossible under P *)
        assert (Px' : P x) by (eapply A1; [exact Ec|reflexivity]).
        assert (NoP : P (h_st s) -> False).
        { intros Px. eapply (A3 _ _ _ _ _ Px Hne Ec); reflexivity. }
        destruct B as [B|[(F & Av & B)|[(Px & B)|(Px & F & Av & B)]]].
        + right. right. left. rewrite Mx. split; [exact Px'|lia].
        + right. right. left. rewrite Mx. split; [exact Px'|lia].
        + exfalso. exact (NoP Px).
        + exfalso. exact (NoP Px). }
    specialize (IH sched (S i) forced' s' G).
    destruct (h_run f sched (S i) forced' s') as [[o s2] l]. cbn [fst] in *. exact IH.
Qed.

Corollary h_run_fuel_enough sched i (s : hst) : fst (fst (h_run (h_fuel s) sched i None s)) <> HFuel.
Proof. apply h_run_terminates. left. unfold h_fuel. lia. Qed.

(* what the two final outcomes mean *)
Theorem h_run_done : forall fuel sched i forced (s s' : hst) l,
  h_run fuel sched i forced s = (HDone, s', l) -> h_avail s' HQ = false /\ h_avail s' HS = false.
Proof.
  induction fuel as [|f IH]; intros sched i forced s s' l H; cbn [h_run] in H; [discriminate|].
  set (want := match forced with Some d => d | None => sched i end) in H.
  destruct (h_step want s) as [|s1 k|s1 k forced'] eqn:Es.
  - injection H as <- _. unfold h_step in Es.
    destruct (h_next St want s) as [d|] eqn:En.
    + pose proof (h_next_avail _ _ _ En) as Av. apply h_avail_queue in Av. destruct Av as [_ Qn].
      destruct (h_queue s d) as [|ch rest]; [congruence|]. destruct ch; [discriminate|].
      destruct (call (h_st s) d (n :: ch)) as [[x rc] m]. destruct (rc =? rcD); [discriminate|]. destruct (rc =? rcO); [|discriminate].
      destruct m, d; try discriminate. destruct (h_avail _ HS); discriminate.
    + unfold h_next in En. destruct (h_avail s want) eqn:E1; [discriminate|]. destruct (h_avail s (hother want)) eqn:E2; [discriminate|].
      destruct want; cbn [hother] in E2; split; assumption.
  - discriminate.
  - destruct (h_run f sched (S i) forced' s1) as [[o s2] l2] eqn:Er. injection H as -> <- _. eapply IH. exact Er.
Qed.

(* HBlocked: the last call was a request call on a non-empty chunk answering (DATA_OTHER, 0), and no response chunk can be offered *)
Theorem h_run_blocked : forall fuel sched i forced (s s' : hst) l,
  h_run fuel sched i forced s = (HBlocked, s', l) ->
  h_avail s' HS = false /\
  exists x ch rest, ch <> [] /\ h_q s' = ch :: rest /\ call x HQ ch = (h_st s', rcO, O).
Proof.
  induction fuel as [|f IH]; intros sched i forced s s' l H; cbn [h_run] in H; [discriminate|].
  set (want := match forced with Some d => d | None => sched i end) in H.
  destruct (h_step want s) as [|s1 k|s1 k forced'] eqn:Es.
  - discriminate.
  - injection H as <- _. unfold h_step in Es.
    destruct (h_next St want s) as [d|] eqn:En; [|discriminate].
    destruct (h_queue s d) as [|ch rest] eqn:Eq; [discriminate|]. destruct ch as [|b0 ch0] eqn:Ech; [discriminate|].
    rewrite <- Ech in *.
    destruct (call (h_st s) d ch) as [[x rc] m] eqn:Ec. destruct (rc =? rcD); [discriminate|]. destruct (rc =? rcO) eqn:E2; [|discriminate].
    apply Z.eqb_eq in E2. subst rc.
    destruct m, d; try discriminate. destruct (h_avail _ HS) eqn:Ea; [discriminate|]. injection Es as <- _.
    split; [exact Ea|]. exists (h_st s), ch, rest. split; [rewrite Ech; discriminate|]. split; [|exact Ec].
    cbn [skipn]. destruct s; reflexivity.
  - destruct (h_run f sched (S i) forced' s1) as [[o s2] l2] eqn:Er. injection H as -> <- _. eapply IH. exact Er.
Qed.

End Gen.
