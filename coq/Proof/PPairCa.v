(* C04, Stage C: the joint invariant of the two sides of the parser between two calls of an interleaved history, and its two
   steps.  `a` = the number of requests the parser has completed (their transactions are known to the response side); the
   response side is described on the wire of the responses to those a requests. *)
Require Import Htp.Model.Base Htp.Model.MBstr Htp.Model.MConnTypes Htp.Model.MTxCommon Htp.Model.MReqLine Htp.Model.MReqUri Htp.Model.MTxReq Htp.Model.MResLine Htp.Model.MTxRes.
Require Import Htp.Model.MReq Htp.Model.MRes Htp.Model.MConnp.
Require Import Htp.Spec.SWire Htp.Proof.PWire Htp.Proof.PWireHdr Htp.Proof.PWireBlock Htp.Proof.PWireConn Htp.Proof.PWireExch.
Require Import Htp.Proof.PWireRun Htp.Proof.PWirePres Htp.Proof.PWireGlue Htp.Proof.PSeg Htp.Proof.PSegLine Htp.Proof.PSegHdr Htp.Proof.PSegGen Htp.Proof.PSegRun.
Require Import Htp.Proof.PSegFold Htp.Proof.PSegPipe Htp.Proof.PSegRes Htp.Proof.PSegResLine Htp.Proof.PSegResHdr Htp.Proof.PSegResGen Htp.Proof.PSegResRun Htp.Proof.PSegResReq Htp.Proof.PSegResThm Htp.Proof.PSegResCanon.
Require Import Htp.Proof.PPairA Htp.Proof.PPairB Htp.Proof.PPairReq Htp.Proof.PPairThm Htp.Proof.PPairThmB Htp.Proof.PPairCq Htp.Proof.PPairCr.
Require Import Htp.Proof.PPairC1 Htp.Proof.PPairC2 Htp.Proof.PPairC3 Htp.Proof.PPairC4 Htp.Proof.PPairC5 Htp.Proof.PPairC6 Htp.Proof.PPairC7 Htp.Proof.PPairC8 Htp.Proof.PPairC9.

Lemma pk_F2_len {A B} (R : A -> B -> Prop) l1 l2 : Forall2 R l1 l2 -> length l1 = length l2.
Proof. induction 1; [reflexivity|cbn [length]; congruence]. Qed.
(* ================= which requests the parser has completed, read off the number of request bytes still to come ================= *)
(* request i is parser-complete when a chunk ended exactly at its last byte, or when the line feed of the next request line has
   been offered (htp_connp_REQ_FINALIZE looks at the next line before it completes the request); n = bytes still to come *)
Fixpoint pk_ready (xl : list pp_xc) (n : nat) : nat :=
  match xl with
  | [] => 0
  | x :: xl' =>
      if (n =? length (pp_ex_qwire xl'))%nat ||
         match xl' with x' :: _ => (n + (length (sg_line0 (xq x')) + 2) <=? length (pp_ex_qwire xl'))%nat | [] => false end
      then S (pk_ready xl' n) else 0
  end.
(* the requests whose last byte has been offered *)
Fixpoint pk_offered (xl : list pp_xc) (n : nat) : nat :=
  match xl with [] => 0 | x :: xl' => if (n <=? length (pp_ex_qwire xl'))%nat then S (pk_offered xl' n) else 0 end.
Lemma pk_ready_le xk xf n : pk_ready xf n = 0%nat -> (pk_ready (xk ++ xf) n <= length xk)%nat.
Proof.
  intros H. induction xk as [|x xk IH]; [cbn [app length]; lia|]. cbn [app length pk_ready].
  destruct (_ || _); [apply le_n_S; exact IH|lia].
Qed.
Lemma pk_qwire_pw xl : pp_ex_qwire xl = sg_pwires (map xq xl).
Proof. unfold pp_ex_qwire, sg_pwires. rewrite map_map. reflexivity. Qed.

(* in a between-calls state the request in progress is not ready, nor are the later ones *)
Lemma pk_vb_len g done rsd rs c rw : pv_between g done rsd rs c rw ->
  match rs with
  | [] => True
  | r :: rs' => length rw <> length (sg_pwires rs') /\
                match rs' with [] => True | r' :: _ => (length (sg_pwires rs') < length rw + (length (sg_line0 r') + 2))%nat end
  end.
Proof.
  intros [Hm R Erw|r rs' p q Ers R Hm Hpq Hq Erw|r rs' p hdr t Ers R Hm Hl|r r' rs'' p q fl Ers R Hm Hpq Hq Hp Erw].
  - destruct rs as [|r rs']; [exact I|]. rewrite Erw, sg_pwires_cons. unfold sg_bwt. rewrite !app_length. cbn [length].
    split; [lia|]. destruct rs'; [exact I|lia].
  - subst rs. assert (0 < length q)%nat by (destruct q; [contradiction|cbn [length]; lia]).
    rewrite Erw. unfold sg_bwt. rewrite !app_length. cbn [length]. split; [lia|]. destruct rs'; [exact I|lia].
  - subst rs. destruct Hl as (pend & tl & rem & q & _ & _ & _ & _ & _ & Hq & Erw & _).
    assert (0 < length q)%nat by (destruct q; [contradiction|cbn [length]; lia]).
    pose proof (sg_fafter_len (sg_pwires rs') rem) as L. rewrite Erw, app_length. split; [lia|]. destruct rs'; [exact I|lia].
  - subst rs. assert (0 < length q)%nat by (destruct q; [contradiction|cbn [length]; lia]).
    assert (0 < length p)%nat by (destruct p; [contradiction|cbn [length]; lia]).
    apply (f_equal (@length N)) in Hpq. rewrite !app_length in Hpq. cbn [length] in Hpq.
    rewrite Erw, sg_pwires_cons, !app_length. cbn [length]. lia.
Qed.

(* no request byte is left: every request is complete and the parser is idle *)
Lemma pk_vb_end g done rsd rs c : pv_between g done rsd rs c [] -> rs = [] /\ c_txs c = done.
Proof.
  intros [Hm R Erw|r rs' p q Ers R Hm Hpq Hq Erw|r rs' p hdr t Ers R Hm Hl|r r' rs'' p q fl Ers R Hm Hpq Hq Hp Erw].
  - split; [|exact (im_txs _ _ _ Hm)]. destruct rs as [|r rs']; [reflexivity|]. rewrite sg_pwires_cons in Erw.
    symmetry in Erw. apply app_eq_nil in Erw. destruct Erw as [_ E]. discriminate.
  - exfalso. destruct q; [contradiction|discriminate].
  - exfalso. destruct Hl as (pend & tl & rem & q & _ & _ & _ & _ & _ & Hq & Erw & _). destruct q; [contradiction|discriminate].
  - exfalso. destruct q; [contradiction|discriminate].
Qed.

Lemma pk_live_other s : sg_live s -> (s =? c_HTP_STREAM_DATA_OTHER)%Z = false.
Proof. intros [H|H]; rewrite H; reflexivity. Qed.
(* ================= facts about the response side between two calls ================= *)
Lemma pk_betw_mid g w ps s r ls body t0 tailw c rw : qp_betw g (w := w) ps s r ls body t0 tailw c rw -> exists p hdr st rh t, pj_midw w c p hdr st rh t.
Proof. intros [p q Hm _ _ _|p hdr t Hm _|k _ Hm _ _]; do 5 eexists; exact Hm. Qed.
Lemma pk_rb_facts g junk inn esd es c rw : qp_between g junk inn esd es c rw ->
  pj_qin c = inn /\ sg_live (c_out_status c) /\ c_txs_shifted c = 0%nat /\ exists L, c_txs c = L ++ junk /\ length L = length (esd ++ es).
Proof.
  intros [Hr Erw|e es' Ees B|e e' es'' p q Ees Hm Hpq Hq Erw].
  - split; [exact (jy_in _ _ _ _ Hr)|]. split; [exact (jy_status _ _ _ _ Hr)|]. split; [exact (jy_shift _ _ _ _ Hr)|].
    exists (qp_slots esd ++ qp_pend es). split; [rewrite (jy_txs _ _ _ _ Hr), app_assoc; reflexivity|].
    unfold qp_slots, qp_pend. rewrite !app_length, !map_length. reflexivity.
  - destruct (pk_betw_mid _ _ _ _ _ _ _ _ _ _ _ B) as (p & hdr & st & rh & t & Hm). subst es.
    split; [exact (jm_in _ _ _ _ _ _ Hm)|]. split; [exact (jm_status _ _ _ _ _ _ Hm)|]. split; [exact (jm_shift _ _ _ _ _ _ Hm)|].
    exists (qp_slots esd ++ Some t :: qp_pend es'). split.
    + rewrite (jm_txs _ _ _ _ _ _ Hm). unfold pj_txs. cbn [jw_pre jw_post qp_w]. rewrite <- app_assoc. reflexivity.
    + unfold qp_slots, qp_pend. rewrite !app_length. cbn [length]. rewrite !map_length. reflexivity.
  - subst es.
    split; [exact (jm_in _ _ _ _ _ _ Hm)|]. split; [exact (jm_status _ _ _ _ _ _ Hm)|]. split; [exact (jm_shift _ _ _ _ _ _ Hm)|].
    exists (qp_slots esd ++ Some (px_tpre e) :: qp_pend (e' :: es'')). split.
    + rewrite (jm_txs _ _ _ _ _ _ Hm). unfold pj_txs. cbn [jw_pre jw_post qp_w]. rewrite <- app_assoc. reflexivity.
    + unfold qp_slots, qp_pend. rewrite !app_length. cbn [length map]. rewrite !map_length. reflexivity.
Qed.

(* ================= F1 on the wire of the ready responses ================= *)
Lemma pk_f1b_cut tw z hh d rwr : pp_f1b (tw ++ z) hh d (rwr ++ z) = true -> sr_f1_local tw hh d rwr.
Proof.
  intros H. apply pp_f1b_ok in H. unfold sr_f1_local in *. destruct tw as [|b tw']; [exact I|]. cbn [app] in H. intros Hb.
  destruct (H Hb) as [A B]. rewrite !app_length in A, B. cbn [length] in A, B. rewrite !app_length in A, B. rewrite !app_length. cbn [length].
  split; [intros L; apply A; lia|intros Hh L; apply B; [exact Hh|lia]].
Qed.

(* ================= requests without an Expect field ================= *)
Definition pk_noexp (x : pp_xc) : bool := negb (existsb (fun f => wr_same (wf_name f) rs_str_expect) (wq_fields (xq x))).
Lemma pk_find_none fs k : existsb (fun f => wr_same (wf_name f) k) fs = false -> wr_first_spelling (map wr_field_nv fs) k = None.
Proof.
  unfold wr_first_spelling. induction fs as [|f fs IH]; [reflexivity|]. cbn [existsb map fst find wr_field_nv]. intros H.
  apply orb_false_iff in H. destruct H as [H1 H2]. rewrite H1. exact (IH H2).
Qed.

Section Joint.
Variable cb : cb_oracle.
Variable g : cfg.
Hypothesis Hcb : wr_all_ok cb.
Hypothesis Hsp : g_allow_space_uri g = false.
Hypothesis Had : g_tx_auto_destroy g = false.
Variable xl : list pp_xc.
Hypothesis Hokx : forallb (pp_xc_ok g) xl = true.
Hypothesis Hnoexp : forallb pk_noexp xl = true.
Hypothesis Hmax : (g_max_tx g = 0 \/ length xl < g_max_tx g)%nat.

Definition pk_known (ek : list pp_ex) (xk : list pp_xc) : Prop := Forall2 (fun e x => exists k fl, e = pp_ex_of g k fl x) ek xk.
Lemma pk_known_wires ek xk : pk_known ek xk -> qp_wires ek = pp_ex_swire xk.
Proof. intros H. exact (pp_wires_of g ek xk H). Qed.

Lemma pk_noexp_get k fl x : pp_xc_ok g x = true -> pk_noexp x = true -> rs_hdr_get_c (t_request_headers (px_tend (pp_ex_of g k fl x))) rs_str_expect = None.
Proof.
  intros H Hn. unfold pp_xc_ok in H. do 4 (apply andb_prop in H; destruct H as [H _]).
  destruct (sg_req_ok_parts g (xq x) H) as (Wq & _ & _ & Wb & _).
  pose proof (sg_tfin_reported g k (xq x) fl Hsp Wq) as Rep. fold (sg_tfin_r g k (xq x) fl) in Rep.
  unfold wr_reported in Rep. destruct Rep as (_ & _ & _ & _ & _ & _ & Rh & _). cbn [sg_mask t_request_headers set] in Rh.
  unfold px_tend. destruct (prq_lrun (px_ls (pp_ex_of g k fl x)) (None, sr_th0 (px_t0 (pp_ex_of g k fl x)) (px_line0 (pp_ex_of g k fl x)))) as [B1 _].
  cbn [snd] in B1. destruct (prq_th0 (px_t0 (pp_ex_of g k fl x)) (px_line0 (pp_ex_of g k fl x))) as [B2 _]. rewrite B2 in B1.
  unfold pp_rq in B1. assert (E : t_request_headers (sr_lrun (px_ls (pp_ex_of g k fl x)) (None, sr_th0 (px_t0 (pp_ex_of g k fl x)) (px_line0 (pp_ex_of g k fl x)))) =
                                  t_request_headers (px_t0 (pp_ex_of g k fl x))) by congruence.
  rewrite E. cbn [px_t0 pp_ex_of]. rewrite Rh.
  unfold wr_block_ok in Wb. apply andb_prop in Wb. destruct Wb as [Wf _].
  rewrite (wr_lookup_nocase_res _ _ (wr_fields_no_nul _ Wf)).
  unfold pk_noexp in Hn. apply negb_true_iff in Hn. rewrite (pk_find_none _ _ Hn). reflexivity.
Qed.

Lemma pk_xl_ok xk xf x : xl = xk ++ xf -> In x xk -> pp_xc_ok g x = true /\ pk_noexp x = true.
Proof.
  intros E Hin. assert (Hin' : In x xl) by (rewrite E; apply in_or_app; left; exact Hin).
  pose proof Hokx as H1. pose proof Hnoexp as H2. rewrite forallb_forall in H1, H2. split; [apply H1|apply H2]; exact Hin'.
Qed.
Lemma pk_known_ok xk xf ek : xl = xk ++ xf -> pk_known ek xk -> Forall (qp_ok g) ek.
Proof.
  intros E H. assert (Hall : forall x, In x xk -> pp_xc_ok g x = true /\ pk_noexp x = true) by (intros x; apply (pk_xl_ok xk xf x E)).
  clear E. induction H as [|e x ek xk (k & fl & Ee) H IH]; [constructor|].
  destruct (Hall x (or_introl eq_refl)) as [O1 O2].
  constructor; [|apply IH; intros y Hy; apply Hall; right; exact Hy].
  rewrite Ee. split; [apply qp_ex_ok_of; apply pp_ex_of_ok; assumption|apply pk_noexp_get; assumption].
Qed.

Lemma pk_f1_transfer ek xk xf d rwr : pk_known ek xk -> pp_f1_ex (xk ++ xf) d (rwr ++ pp_ex_swire xf) = true -> qp_f1 ek d rwr.
Proof.
  induction 1 as [|e x ek xk (k & fl & Ee) F IH]; intros H esd e0 es' E.
  - destruct esd; discriminate.
  - cbn [app pp_f1_ex] in H. apply andb_prop in H. destruct H as [H1 H2]. destruct esd as [|e1 esd].
    + cbn [app] in E. inversion E. subst e0 es'. rewrite (pk_known_wires ek xk F). rewrite Ee.
      rewrite map_app, concat_app, app_assoc in H1. apply (pk_f1b_cut _ _ _ _ _ H1).
    + cbn [app] in E. inversion E. apply (IH H2 esd e0 es'). assumption.
Qed.

(* the exchanges of the requests a call has completed *)
Lemma pk_build_new : forall xnew fins, pv_fins g fins (map xq xnew) -> exists newes, qp_pend newes = map Some fins /\ pk_known newes xnew.
Proof.
  induction xnew as [|x xnew IH]; intros fins F; cbn [map] in F; inversion F as [|t r fins' rs' (k & fl & Et) F' E1 E2]; subst.
  - exists []. split; [reflexivity|constructor].
  - destruct (IH fins' F') as (newes & Ep & Hk). exists (pp_ex_of g k fl x :: newes).
    split; [unfold qp_pend in *; cbn [map px_t0 pp_ex_of]; rewrite Ep; reflexivity|constructor; [exists k, fl; reflexivity|exact Hk]].
Qed.

Lemma pk_D_finish c1 c : pq_D c1 = pq_D c -> forget_one (c_out c) = c_out c -> pq_D (forget_chunks c1 <| c_events := [] |>) = pq_D c.
Proof.
  intros H F. unfold pq_D in *. injection H as E1 E2 E3 E4 E5 E6 E7 E8 E9.
  cbn [forget_chunks c_out_state c_out_state_previous c_out c_out_next_tx_index c_out_data_other_at_tx_end c_out_content_length
       c_out_body_data_left c_out_chunked_length c_out_data_counter set]. cbn. rewrite E1, E2, E3, E4, E5, E6, E7, E8, E9, F. reflexivity.
Qed.

(* ================= the joint invariant ================= *)
Inductive pk_inv (a : nat) (c : connp) (qrw srw : bytes) : Prop :=
| PK_inv xk xf ek esd es done junk srr :
    xl = xk ++ xf -> length xk = a -> pk_known ek xk -> ek = esd ++ es ->
    pc_qinv g done (map xq xk) (map xq xf) c qrw -> qp_between g junk (pj_qin c) esd es c srr -> srw = srr ++ pp_ex_swire xf ->
    c_txs c = done ++ junk -> length done = length xk -> forget_one (c_out c) = c_out c -> pk_inv a c qrw srw.

Lemma pk_okq : Forall (fun r => sg_req_ok g r = true) (map xq xl).
Proof.
  apply Forall_forall. intros r Hin. apply in_map_iff in Hin. destruct Hin as (x & Ex & Hin). subst r.
  pose proof Hokx as H. rewrite forallb_forall in H. specialize (H x Hin). unfold pp_xc_ok in H. do 4 (apply andb_prop in H; destruct H as [H _]). exact H.
Qed.
Lemma pk_maxq : (g_max_tx g = 0 \/ length (map xq xl) < g_max_tx g)%nat.
Proof. rewrite map_length. exact Hmax. Qed.

(* what the request side says about the transaction list *)
Lemma pk_q_txs done rsd rs c rw : pc_qinv g done rsd rs c rw ->
  exists junk, c_txs c = done ++ junk /\ (c_in_tx c = None \/ c_in_tx c = Some (length done)).
Proof.
  intros (fl & B). destruct (pv_between_txs g _ _ _ _ _ B) as [[E1 E2]|(t & E1 & E2)].
  - exists []. split; [rewrite app_nil_r; exact E1|left; exact E2].
  - exists [Some t]. split; [exact E1|right; exact E2].
Qed.
Lemma pk_q_live done rsd rs c rw : pc_qinv g done rsd rs c rw -> (c_in_status c =? c_HTP_STREAM_DATA_OTHER)%Z = false.
Proof. intros (fl & B). apply pk_live_other. exact (pv_between_live g _ _ _ _ _ B). Qed.

(* ---- the ready count ---- *)
Lemma pk_inv_ready a c qrw srw : pk_inv a c qrw srw -> (pk_ready xl (length qrw) <= a)%nat.
Proof.
  intros [xk xf ek esd es done junk srr Exl La Hk Eek (fl & B) Hs Esrw Etx Ld Hfo]. rewrite Exl, <- La. apply pk_ready_le.
  pose proof (pk_vb_len g _ _ _ _ _ B) as X. destruct xf as [|x xf']; [reflexivity|]. cbn [map] in X. destruct X as [X1 X2].
  cbn [pk_ready]. rewrite pk_qwire_pw.
  assert (E1 : (length qrw =? length (sg_pwires (map xq xf')))%nat = false) by (apply Nat.eqb_neq; exact X1). rewrite E1. cbn [orb].
  destruct xf' as [|x' xf'']; [reflexivity|]. cbn [map] in X2.
  assert (E2 : (length qrw + (length (sg_line0 (xq x')) + 2) <=? length (sg_pwires (map xq (x' :: xf''))))%nat = false) by (apply Nat.leb_gt; exact X2).
  rewrite E2. reflexivity.
Qed.

(* ================= a call of htp_connp_req_data ================= *)
Lemma pk_qstep a c (qrw x qrw' : bytes) srw : pk_inv a c qrw srw -> x <> [] -> qrw = x ++ qrw' ->
  exists a', (a <= a')%nat /\ pk_inv a' (forget_chunks (fst (connp_req_data cb g (Some x) (length x) c)) <| c_events := [] |>) qrw' srw.
Proof.
  intros [xk xf ek esd es done junk srr Exl La Hk Eek Hq Hs Esrw Etx Ld Hfo] Hne Ex.
  destruct (pk_rb_facts _ _ _ _ _ _ _ Hs) as (Hin & Hlive & Hsh & L & EL & LL).
  assert (Eall : map xq xl = map xq xk ++ map xq xf) by (rewrite Exl, map_app; reflexivity).
  destruct (pc_qstep cb g Hcb Hsp Had (map xq xl) pk_okq pk_maxq done (map xq xk) (map xq xf) c qrw x qrw' Eall Hq Hne Ex Hlive)
    as ((fins & newr & rs' & F & Ea & Hq') & Hd & Hst & Hotx & Hshift).
  set (c1 := fst (connp_req_data cb g (Some x) (length x) c)) in *.
  set (c' := forget_chunks c1 <| c_events := [] |>).
  assert (En : newr ++ rs' = map xq xf) by (rewrite Eall, <- app_assoc in Ea; apply app_inv_head in Ea; symmetry; exact Ea).
  symmetry in En. apply map_eq_app in En. destruct En as (xnew & xf' & Exf & En1 & En2). subst newr rs'.
  destruct (pk_build_new xnew fins F) as (newes & Epend & Hknew).
  assert (Lf : length fins = length xnew) by (rewrite (pk_F2_len _ _ _ F), map_length; reflexivity).
  assert (Hq'' : pc_qinv g (done ++ map Some fins) (map xq (xk ++ xnew)) (map xq xf') c' qrw').
  { destruct Hq' as (fl' & B'). exists fl'. unfold c'. rewrite pc_E_finish, map_app. apply pv_between_finish. exact B'. }
  destruct (pk_q_txs _ _ _ _ _ Hq'') as (junk' & Etx' & Hintx').
  assert (So : pk_same_out c c').
  { constructor.
    - exact Hst.
    - apply pk_D_finish; assumption.
    - exact Hotx.
    - exact Hshift. }
  assert (Ht : forall X, c_txs c = X ++ junk -> c_txs c' = X ++ qp_pend newes ++ junk').
  { intros X EX. rewrite Etx in EX. apply app_inv_tail in EX. subst X. rewrite Etx', Epend, <- app_assoc. reflexivity. }
  assert (Lek : length ek = length xk) by (exact (pk_F2_len _ _ _ Hk)).
  pose proof (pk_q_live _ _ _ _ _ Hq'') as Hlive2.
  pose proof (pk_rbetween_re g junk junk' (pj_qin c) c c' newes So Ht Hlive2 esd es srr Hs) as Hs'.
  exists (length (xk ++ xnew)). split; [rewrite app_length; lia|].
  apply (PK_inv _ _ _ _ (xk ++ xnew) xf' (ek ++ newes) esd (es ++ newes) (done ++ map Some fins) junk' (srr ++ qp_wires newes)).
  - rewrite Exl, Exf, app_assoc. reflexivity.
  - reflexivity.
  - apply Forall2_app; assumption.
  - rewrite Eek, app_assoc. reflexivity.
  - exact Hq''.
  - exact Hs'.
  - rewrite Esrw, Exf. unfold pp_ex_swire. rewrite map_app, concat_app. fold (pp_ex_swire xnew). rewrite <- (pk_known_wires newes xnew Hknew), app_assoc. reflexivity.
  - exact Etx'.
  - rewrite !app_length, map_length. lia.
  - unfold c'. cbn [forget_chunks c_out set]. cbn. apply pj_forget_idem.
Qed.

(* ================= a call of htp_connp_res_data ================= *)
Lemma pk_app_cut {A} (u z y w : list A) : u ++ z = y ++ w -> (length z <= length w)%nat -> exists u', u = y ++ u' /\ w = u' ++ z.
Proof.
  revert u. induction y as [|b y IH]; intros u E L.
  - cbn [app] in *. exists u. split; [reflexivity|symmetry; exact E].
  - destruct u as [|b' u].
    + cbn [app] in E. subst z. cbn [length] in L. rewrite app_length in L. lia.
    + cbn [app] in E. inversion E. subst b'. destruct (IH u H1 L) as (u' & E1 & E2). exists u'. split; [rewrite E1; reflexivity|exact E2].
Qed.

Lemma pk_sstep a c qrw (srw y srw' : bytes) : pk_inv a c qrw srw -> y <> [] -> srw = y ++ srw' ->
  (length (pp_ex_swire (skipn a xl)) <= length srw')%nat -> pp_f1_ex xl y srw' = true ->
  pk_inv a (forget_chunks (fst (connp_res_data cb g (Some y) (length y) c)) <| c_events := [] |>) qrw srw'.
Proof.
  intros [xk xf ek esd es done junk srr Exl La Hk Eek Hq Hs Esrw Etx Ld Hfo] Hne Ey Hlen Hf1.
  assert (Esk : skipn a xl = xf) by (rewrite Exl, <- La, skipn_app, Nat.sub_diag, skipn_all; reflexivity). rewrite Esk in Hlen.
  rewrite Esrw in Ey. destruct (pk_app_cut _ _ _ _ Ey Hlen) as (srr' & Er & Ew).
  assert (Lek : length ek = length xk) by (exact (pk_F2_len _ _ _ Hk)).
  destruct (pk_q_txs _ _ _ _ _ Hq) as (junk0 & Etx0 & Hintx).
  assert (Hfree : (pj_instat (pj_qin c) =? c_HTP_STREAM_DATA_OTHER)%Z = false) by (exact (pk_q_live _ _ _ _ _ Hq)).
  assert (Hf1' : qp_f1 ek y srr') by (apply (pk_f1_transfer ek xk xf y srr' Hk); rewrite <- Exl, <- Ew; exact Hf1).
  destruct (qp_pstep cb g Hcb Had ek (pk_known_ok xk xf ek Exl Hk) junk (pj_qin c) Hfree esd es c srr y srr' Eek Hs Hne Er Hf1')
    as (c1 & rc & E & esd' & es' & Eek' & Hs1).
  unfold bytes in *. rewrite E. cbn [fst]. set (c' := forget_chunks c1 <| c_events := [] |>).
  pose proof (qp_between_finish _ _ _ _ _ _ _ Hs1) as Hs2. fold c' in Hs2.
  destruct (pk_rb_facts _ _ _ _ _ _ _ Hs2) as (Hin' & _ & Hsh' & L' & EL' & LL').
  destruct (pk_rb_facts _ _ _ _ _ _ _ Hs) as (_ & _ & Hsh & _).
  rewrite <- Hin' in Hs2.
  apply (PK_inv _ _ _ _ xk xf ek esd' es' L' junk srr' Exl La Hk Eek'); [|exact Hs2|exact Ew|exact EL'|rewrite LL', <- Eek'; exact Lek|].
  - destruct Hq as (fl & B). exists fl.
    apply (pk_between_re g done L' _ _ (pc_E fl c) (pc_E fl c') qrw B).
    + rewrite LL', <- Eek', Lek, Ld. reflexivity.
    + apply pk_same_in_E; [exact Hin'|exact (eq_trans Hsh' (eq_sym Hsh))].
    + intros junk1 E1. change (c_txs (pc_E fl c)) with (c_txs c) in E1. change (c_txs (pc_E fl c')) with (c_txs c').
      rewrite Etx in E1. apply app_inv_head in E1. subst junk1. exact EL'.
  - unfold c'. cbn [forget_chunks c_out set]. cbn. apply pj_forget_idem.
Qed.

(* ================= the beginning and the end ================= *)
Lemma pk_inv_open : pk_inv 0 (forget_chunks (connp_open connp_new) <| c_events := [] |>) (pp_ex_qwire xl) (pp_ex_swire xl).
Proof.
  set (c0 := forget_chunks (connp_open connp_new) <| c_events := [] |>).
  apply (PK_inv _ _ _ _ [] xl [] [] [] [] [] []); try reflexivity.
  - constructor.
  - exists 0%N. apply VB_idle; [|reflexivity|cbn [map]; rewrite pk_qwire_pw; reflexivity].
    constructor; try reflexivity. left. reflexivity.
  - apply JB_idle; [|reflexivity]. constructor; try reflexivity. left. reflexivity.
Qed.

Lemma pk_inv_end a c : pk_inv a c [] [] -> Forall2 (fun slot x => exists k fl, slot = Some (pp_tfin (pp_ex_of g k fl x))) (c_txs c) xl.
Proof.
  intros [xk xf ek esd es done junk srr Exl La Hk Eek (fl & B) Hs Esrw Etx Ld Hfo].
  destruct (pk_vb_end g _ _ _ _ B) as [Exf Et]. change (c_txs (pc_E fl c)) with (c_txs c) in Et.
  assert (xf = []) by (destruct xf; [reflexivity|discriminate]). subst xf. rewrite app_nil_r in Exl. subst xk.
  assert (junk = []) by (rewrite Et in Etx; rewrite <- (app_nil_r done) in Etx at 1; apply app_inv_head in Etx; symmetry; exact Etx). subst junk.
  symmetry in Esrw. apply app_eq_nil in Esrw. destruct Esrw as [Esrr _]. subst srr.
  pose proof (qp_between_end g ek [] (pj_qin c) esd es c Eek Hs) as R. rewrite (jy_txs _ _ _ _ R), app_nil_r.
  clear - Hk. unfold qp_slots. induction Hk as [|e x ek xk (k & fl & Ee) Hk IH]; [constructor|]. cbn [map].
  constructor; [exists k, fl; rewrite Ee; reflexivity|exact IH].
Qed.
End Joint.
