(* C10 -- configured limits bound what the parser keeps: the invariant of PLimits.v holds in every state the stream API
   can reach (every operation sequence, every callback oracle, every configuration), and the observations the model
   produces are accepted by the extracted checker chk_C10 (Spec/SConnp.v) that is run on the implementation's output. *)
Require Import Htp.Model.MConnTypes Htp.Model.MTxCommon Htp.Model.MReq Htp.Model.MRes Htp.Model.MConnp
               Htp.Spec.SConnp Htp.Proof.PConnp Htp.Proof.PLimits Htp.Proof.PLimitsRes.

Section Run.
Variable cb : cb_oracle.
Variable g : cfg.

(* ---- the API operations ---- *)
Lemma forget_chunks_key c : lkey (forget_chunks c) = lkey c.
Proof.
  unfold forget_chunks, forget_one, lkey. cbn.
  destruct (k_data (c_in c)); destruct (k_data (c_out c)); reflexivity.
Qed.
Lemma finish_call_lim c rc n ev : lim_inv g c -> lim_inv g (fst (finish_call c rc n ev)).
Proof. intros H. unfold finish_call. cbn [fst]. eapply kp_eq; [|exact H]. apply forget_chunks_key. Qed.

Lemma connp_open_lim c : lim_inv g c -> lim_inv g (connp_open c).
Proof. intros H. unfold connp_open. destruct (_ || _)%bool; exact H. Qed.

Lemma connp_req_close_lim c : lim_inv g c -> lim_inv g (connp_req_close cb g c).
Proof.
  intros H. unfold connp_req_close. apply connp_req_data_lim.
  destruct (negb (c_in_status c =? c_HTP_STREAM_ERROR)%Z); exact H.
Qed.
Lemma connp_close_lim c : lim_inv g c -> lim_inv g (connp_close cb g c).
Proof.
  intros H. unfold connp_close. apply connp_res_data_lim. apply connp_req_data_lim.
  destruct (negb (c_in_status c =? c_HTP_STREAM_ERROR)%Z); destruct (negb (c_out_status _ =? c_HTP_STREAM_ERROR)%Z); exact H.
Qed.

Lemma api_destroy_tx_lim k c : lim_inv g c -> lim_inv g (fst (api_destroy_tx k c)).
Proof.
  intros H. unfold api_destroy_tx. destruct (tx_slot c k) as [t|]; [|exact H].
  destruct (tx_is_complete t); cbn [fst]; [apply tx_destroy_incomplete_kp; exact H|exact H].
Qed.

(* htp_connp_tx_freed only ever shortens the list *)
Lemma tx_freed_loop_lim fuel : forall c r, lim_inv g c -> lim_inv g (fst (tx_freed_loop fuel c r)).
Proof.
  induction fuel as [|f IH]; intros c r H; cbn [tx_freed_loop]; [exact H|].
  destruct (c_txs c) as [|[t|] rest] eqn:E; cbn [fst]; try exact H.
  apply IH. destruct H as (H1 & H2 & H3). unfold kp, lkey, lim_key in *. cbn in *. rewrite E in H3. cbn in H3.
  split; [exact H1|]. split; [exact H2|]. intros Hm. specialize (H3 Hm). lia.
Qed.
Lemma connp_tx_freed_lim c : lim_inv g c -> lim_inv g (fst (connp_tx_freed c)).
Proof. apply tx_freed_loop_lim. Qed.

(* ---- one API call ---- *)
(* what the caller sees of the limits after a call (cp_result): sizes of the two buffers and pending headers, number of
   transactions. While a buffer is non-empty, buffer + pending header are within the hard limit. *)
Definition lim_res (r : cp_result) : Prop :=
  (r_ibuf r = 0 \/ r_ibuf r + r_ihdr r <= g_field_limit_hard g) /\
  (r_obuf r = 0 \/ r_obuf r + r_ohdr r <= g_field_limit_hard g) /\
  (0 < g_max_tx g -> r_ntx r <= S (g_max_tx g)).

Lemma side_ok_olen hard b h : side_ok hard (b, h) -> olen b = 0 \/ olen b + olen h <= hard.
Proof. unfold side_ok. cbn. destruct b; cbn; auto. Qed.

Lemma finish_call_res c rc n ev : lim_inv g c -> lim_res (snd (finish_call c rc n ev)).
Proof.
  intros (H1 & H2 & H3). unfold finish_call, lim_res. cbn.
  split; [apply side_ok_olen; exact H1|]. split; [apply side_ok_olen; exact H2|exact H3].
Qed.

Theorem cp_step_lim c o : lim_inv g c ->
  lim_inv g (fst (cp_step cb g c o)) /\ lim_res (snd (cp_step cb g c o)).
Proof.
  intros H. destruct o as [|d|d|n|n| | | |k]; cbn [cp_step].
  - split; [apply finish_call_lim|apply finish_call_res]; apply connp_open_lim; exact H.
  - pose proof (connp_req_data_lim cb g (Some d) (length d) c H) as H1.
    destruct (connp_req_data cb g (Some d) (length d) c) as [c1 rc]. cbn [fst] in H1.
    split; [apply finish_call_lim|apply finish_call_res]; exact H1.
  - pose proof (connp_res_data_lim cb g (Some d) (length d) c H) as H1.
    destruct (connp_res_data cb g (Some d) (length d) c) as [c1 rc]. cbn [fst] in H1.
    split; [apply finish_call_lim|apply finish_call_res]; exact H1.
  - pose proof (connp_req_data_lim cb g None n c H) as H1.
    destruct (connp_req_data cb g None n c) as [c1 rc]. cbn [fst] in H1.
    split; [apply finish_call_lim|apply finish_call_res]; exact H1.
  - pose proof (connp_res_data_lim cb g None n c H) as H1.
    destruct (connp_res_data cb g None n c) as [c1 rc]. cbn [fst] in H1.
    split; [apply finish_call_lim|apply finish_call_res]; exact H1.
  - split; [apply finish_call_lim|apply finish_call_res]; apply connp_req_close_lim; exact H.
  - split; [apply finish_call_lim|apply finish_call_res]; apply connp_close_lim; exact H.
  - pose proof (connp_tx_freed_lim c H) as H1. destruct (connp_tx_freed c) as [c1 r]. cbn [fst] in H1.
    split; [apply finish_call_lim|apply finish_call_res]; exact H1.
  - pose proof (api_destroy_tx_lim k c H) as H1. destruct (api_destroy_tx k c) as [c1 rc]. cbn [fst] in H1.
    split; [apply finish_call_lim|apply finish_call_res]; exact H1.
Qed.

(* ---- every operation sequence ---- *)
Theorem cp_run_lim ops : forall c, lim_inv g c ->
  lim_inv g (fst (cp_run cb g c ops)) /\ Forall lim_res (snd (cp_run cb g c ops)).
Proof.
  induction ops as [|o ops IH]; intros c H; cbn [cp_run].
  - split; [exact H|constructor].
  - pose proof (cp_step_lim c o H) as [H1 H2]. destruct (cp_step cb g c o) as [c1 x]. cbn [fst snd] in H1, H2.
    specialize (IH c1 H1). destruct (cp_run cb g c1 ops) as [c2 xs]. cbn [fst snd] in *.
    destruct IH as [H3 H4]. split; [exact H3|constructor; assumption].
Qed.

(* the checker of Spec/SConnp.v, and a stronger one that also looks at the pending headers *)
Definition chk_C10_hdr_call (hard maxtx : nat) (o : ocall) : bool :=
  ((oc_ibuf o =? 0) || (oc_ibuf o + oc_ihdr o <=? hard)) && ((oc_obuf o =? 0) || (oc_obuf o + oc_ohdr o <=? hard)) &&
  (if 0 <? maxtx then oc_ntx o <=? S maxtx else true).
Definition chk_C10_hdr (hard maxtx : nat) (calls : list ocall) : bool := forallb (chk_C10_hdr_call hard maxtx) calls.

Lemma chk_C10_hdr_call_weaken hard maxtx o : chk_C10_hdr_call hard maxtx o = true -> chk_C10_call hard maxtx o = true.
Proof.
  unfold chk_C10_hdr_call, chk_C10_call. rewrite !andb_true_iff, !orb_true_iff, !Nat.eqb_eq, !Nat.leb_le.
  intros [[H1 H2] H3]. repeat split; [lia|lia|exact H3].
Qed.
Lemma chk_C10_hdr_weaken hard maxtx calls : chk_C10_hdr hard maxtx calls = true -> chk_C10 hard maxtx calls = true.
Proof.
  unfold chk_C10_hdr, chk_C10. rewrite !forallb_forall. intros H o Ho. apply chk_C10_hdr_call_weaken. apply H. exact Ho.
Qed.

Lemma lim_res_chk o r : lim_res r -> chk_C10_hdr_call (g_field_limit_hard g) (g_max_tx g) (obs_call o r) = true.
Proof.
  intros (H1 & H2 & H3). unfold chk_C10_hdr_call, obs_call. cbn [oc_ibuf oc_ihdr oc_obuf oc_ohdr oc_ntx].
  rewrite !andb_true_iff, !orb_true_iff, !Nat.eqb_eq, !Nat.leb_le. repeat split; [exact H1|exact H2|].
  destruct (0 <? g_max_tx g) eqn:E; [|reflexivity]. apply Nat.ltb_lt in E. apply Nat.leb_le. apply H3. exact E.
Qed.

Lemma obs_run_chk ops : forall c, lim_inv g c ->
  chk_C10_hdr (g_field_limit_hard g) (g_max_tx g) (obs_run cb g c ops) = true.
Proof.
  intros c H. pose proof (cp_run_lim ops c H) as [_ HF].
  unfold chk_C10_hdr, obs_run. apply forallb_forall. intros oc Hin.
  apply in_map_iff in Hin. destruct Hin as ([o r] & <- & Hin).
  apply lim_res_chk. apply in_combine_r in Hin. rewrite Forall_forall in HF. apply HF. exact Hin.
Qed.
End Run.

(* ---- the global statements: all operation sequences, all callback oracles, all configurations ---- *)

(* (A) the invariant on every reachable state, spelled out *)
Theorem C10_limits_reachable : forall cb g ops,
  let c := fst (cp_run cb g connp_new ops) in
  (forall b, k_buf (c_in c) = Some b -> length b + olen (k_header (c_in c)) <= g_field_limit_hard g) /\
  (forall b, k_buf (c_out c) = Some b -> length b + olen (k_header (c_out c)) <= g_field_limit_hard g) /\
  (0 < g_max_tx g -> length (c_txs c) <= S (g_max_tx g)).
Proof.
  intros cb g ops c. pose proof (cp_run_lim cb g ops connp_new (lim_inv_new g)) as [(H1 & H2 & H3) _].
  fold c in H1, H2, H3. unfold side_ok in *. cbn in *.
  split; [intros b E; rewrite E in H1; exact H1|]. split; [intros b E; rewrite E in H2; exact H2|exact H3].
Qed.

(* (B) the observations of the model pass the checker that also bounds buffer + pending header *)
Theorem C10_limits_obs_hdr : forall cb g ops,
  chk_C10_hdr (g_field_limit_hard g) (g_max_tx g) (obs_run cb g connp_new ops) = true.
Proof. intros cb g ops. apply obs_run_chk. apply lim_inv_new. Qed.

(* (C) literally the statement Properties_C10.C10_limits_full *)
Theorem C10_limits_obs : forall cb g ops,
  chk_C10 (g_field_limit_hard g) (g_max_tx g) (obs_run cb g connp_new ops) = true.
Proof. intros cb g ops. apply chk_C10_hdr_weaken. apply C10_limits_obs_hdr. Qed.


(* ---- what the invariant does NOT say: the pending header alone is not bounded by field_limit_hard ----
   htp_connp_req_consolidate_data takes a complete line straight from the caller's chunk when nothing is buffered (no limit
   check), and a folded header accumulates in in_header (up to HTP_MAX_HEADER_FOLDED + one line). The hard limit only comes
   into play when htp_connp_req_buffer has bytes to copy (it then counts in_header in). Witness, hard limit 16: three complete
   lines, one per call, leave 33 and then 69 pending header bytes with every call answered DATA; the next unfinished line
   (2 bytes to buffer) is refused with ERROR. *)
Require Import Coq.Strings.String Coq.Strings.Ascii.
Definition lim_bs (s : string) : bytes := map (fun a => N.of_nat (nat_of_ascii a)) (list_ascii_of_string s).
Example C10_pending_header_exceeds_hard_limit :
  let g := cp_make_cfg 1 16 2 false false 0 in
  let crlf := [13; 10]%N in
  let obs := obs_run (fun _ _ => CB_OK) g connp_new
               [OpOpen; OpReqData (lim_bs "GET / HTTP/1.1" ++ crlf);
                OpReqData (lim_bs "X: aaaaaaaaaaaaaaaaaaaaaaaaaaaaaa" ++ crlf);
                OpReqData (lim_bs " bbbbbbbbbbbbbbbbbbbbbbbbbbbbbbbbbbb" ++ crlf); OpReqData (lim_bs " c")] in
  chk_C10_hdr 16 2 obs = true /\
  map oc_rc obs = [(-1)%Z; c_HTP_STREAM_DATA; c_HTP_STREAM_DATA; c_HTP_STREAM_DATA; c_HTP_STREAM_ERROR] /\
  map oc_ibuf obs = [0; 0; 0; 0; 0] /\ map oc_ihdr obs = [0; 0; 33; 69; 69].
Proof. vm_compute. repeat split. Qed.

Print Assumptions C10_limits_reachable.
Print Assumptions C10_limits_obs_hdr.
Print Assumptions C10_limits_obs.
