(* C16 at history level, part 2 -- 101 SWITCHING PROTOCOLS.  A request of the wire grammar (e.g. GET with Upgrade / Connection
   fields: the library does not look at them) in any chunking, then a 101 answer of the response grammar without Content-Length /
   Transfer-Encoding fields in any chunking, then any data calls in both directions.  RES_BODY_DETERMINE puts BOTH directions into
   tunnel mode when the header block of the 101 answer is complete: the response data call that delivers the last byte of the empty
   line returns HTP_STREAM_TUNNEL (everything consumed); from then on every call is absorbed.
   The premise on the order of the operations -- the request chunks are exactly the request, no request data while the answer is
   delivered -- excludes the listed finding http09-then-tunnel-error (junk after the Upgrade request is taken for an HTTP/0.9
   request, which leaves in_tx NULL in REQ_IGNORE_DATA_AFTER_HTTP_0_9: once the tunnel is established htp_connp_req_data answers
   ERROR from its entry guard). *)
Require Import Htp.Model.Base Htp.Model.MBstr Htp.Model.MConnTypes Htp.Model.MTxCommon Htp.Model.MResLine Htp.Model.MTxRes.
Require Import Htp.Model.MReq Htp.Model.MRes Htp.Model.MConnp.
Require Import Htp.Spec.SWire Htp.Spec.SConnp Htp.Proof.PWire Htp.Proof.PWireHdr Htp.Proof.PWireBlock Htp.Proof.PWireConn Htp.Proof.PWireExch.
Require Import Htp.Proof.PWireRun Htp.Proof.PWirePres Htp.Proof.PWireGlue Htp.Proof.PSeg Htp.Proof.PSegLine Htp.Proof.PSegHdr Htp.Proof.PSegGen Htp.Proof.PSegRun.
Require Import Htp.Proof.PSegFold Htp.Proof.PSegPipe Htp.Proof.PSegRes Htp.Proof.PSegResLine Htp.Proof.PSegResHdr Htp.Proof.PSegResGen Htp.Proof.PSegResRun Htp.Proof.PSegResReq.
Require Import Htp.Proof.PSegResThm Htp.Proof.PSegResCanon Htp.Proof.PPairReq Htp.Proof.PPairThm.
Require Import Htp.Proof.PReq Htp.Proof.PConnp.
Require Import Htp.Proof.PTunBase Htp.Proof.PTunSegMid Htp.Proof.PTunRes Htp.Proof.PTunResLine Htp.Proof.PTunResHdr Htp.Proof.PTunResRun Htp.Proof.PTunResTail Htp.Proof.PTunResFin.
Require Import Htp.Proof.PTunReq Htp.Proof.PTunConnR Htp.Proof.PTunThm1.
Local Open Scope Z_scope.

(* the answer switches protocols: status 101, neither Content-Length nor Transfer-Encoding in the header table (the model's own
   decision, evaluated on the canonical transaction of PSegResCanon.v: it reads the status, the header table and the method number only) *)
Definition tu_switch (t : tx) : bool :=
  (t_response_status_number t =? 101) && negb (t_request_method_number t =? c_HTP_M_CONNECT) &&
  match rs_hdr_get_c (t_response_headers t) rs_str_content_length with None => true | Some _ => false end &&
  match rs_hdr_get_c (t_response_headers t) rs_str_transfer_encoding with None => true | Some _ => false end.
Definition tu_101_ok (rq : wr_request) (rsp : wr_response) (cuts : list (list bytes)) : bool := tu_switch (sr_tend (sr_canon rq) rsp cuts).
Lemma tu_switch_sim a b : sr_sim a b -> tu_switch a = tu_switch b.
Proof. intros (Hm & Hr & Hs & Hp). unfold sr_rsp in Hr. injection Hr as Hh Hrep. unfold tu_switch. rewrite Hm, Hh, Hs. reflexivity. Qed.

Section ReqPhase.
Variable cb : cb_oracle.
Variable g : cfg.
Hypothesis Hcb : wr_all_ok cb.
Hypothesis Hspace : g_allow_space_uri g = false.
Variable all : list wr_request.
Hypothesis Hok : Forall (fun r => sg_req_ok g r = true) all.
Hypothesis Hmax : (g_max_tx g = 0 \/ length all < g_max_tx g)%nat.

(* PPairReq.pq_pchunks with what the caller sees: no call leaves the request side in tunnel mode *)
Lemma tu_pchunks : forall (chunks : list bytes) c rsd rs rw, all = rsd ++ rs -> pq_pbetween g rsd rs c rw -> sr_fr c = pq_base ->
  Forall (fun x : bytes => x <> []) chunks -> concat chunks = rw ->
  let cF := fst (cp_run cb g c (map OpReqData chunks)) in
  sg_imid cF (c_txs cF) (sg_pflags (length all)) /\ pq_rep g (c_txs cF) all /\ sr_fr cF = pq_base /\
  Forall tn_rquiet (snd (cp_run cb g c (map OpReqData chunks))).
Proof.
  induction chunks as [|x rest IH]; intros c rsd rs rw Eall B Hfr Hall Hc; cbv zeta.
  - cbn [concat] in Hc. subst rw. cbn [map cp_run fst snd]. destruct (pq_pbetween_end g all rsd rs c Eall B) as [A1 A2].
    split; [exact A1|]. split; [exact A2|]. split; [exact Hfr|constructor].
  - cbn [concat] in Hc. cbn [map]. rewrite tn_run_cons. cbn [fst snd]. rewrite tn_step_req.
    destruct (pq_pstep cb g Hcb Hspace all Hok Hmax rsd rs c rw x (concat rest) Eall B (Forall_inv Hall) (eq_sym Hc)) as (c' & rc & E & rsd' & rs' & Eall' & B').
    assert (Eo : c_out_tx c = None /\ c_out_status c = c_HTP_STREAM_OPEN) by (unfold sr_fr, pq_base in Hfr; inversion Hfr; split; reflexivity).
    destruct (pq_req_data_keep cb g Hcb x c (proj1 Eo) (proj2 Eo)) as [K1 K2].
    unfold bytes in E, K1, K2 |- *. rewrite E in K1, K2 |- *. cbn [fst snd] in K1, K2 |- *.
    pose proof (pq_pbetween_live g _ _ _ _ B') as Lv.
    assert (Hfr' : sr_fr c' = pq_base).
    { destruct K2 as [K2|K2]; [|exfalso; pose proof (sg_live_tunnel _ Lv) as L; rewrite K2 in L; discriminate].
      unfold sr_fr, pq_base in *. unfold pq_frw in K1. congruence. }
    assert (Hfr2 : sr_fr (tn_fin c') = pq_base).
    { assert (F4 : c_out c' = cursor_new) by (unfold sr_fr, pq_base in Hfr'; congruence).
      rewrite <- Hfr'. unfold sr_fr, tn_fin. cbn [forget_chunks c_out_status c_out_state c_out_state_previous c_out c_out_tx c_out_next_tx_index c_txs_shifted c_out_data_other_at_tx_end set].
      cbn. rewrite F4. reflexivity. }
    destruct (IH (tn_fin c') rsd' rs' (concat rest) Eall' (pq_pbetween_finish g _ _ _ _ B') Hfr2 (Forall_inv_tail Hall) eq_refl) as (A1 & A2 & A3 & A4).
    split; [exact A1|]. split; [exact A2|]. split; [exact A3|]. constructor; [|exact A4].
    unfold tn_rquiet, tn_res, finish_call. cbn [snd r_in_status]. apply tn_live_quiet. apply tg_live_of_sg. exact Lv.
Qed.
End ReqPhase.

(* ================= the 101 answer, any chunking ================= *)
(* the request side as the response side sees it: idle between two requests *)
Record tu_ifr (rq : connp) : Prop := mk_tu_ifr {
  uf_status : sg_live (c_in_status rq);
  uf_state : c_in_state rq = REQ_IDLE;
  uf_tx : c_in_tx rq = None;
  uf_stable : tn_stable (c_in rq) }.

Section SwitchR.
Variable cb : cb_oracle.
Variable g : cfg.
Hypothesis Hcb : wr_all_ok cb.
Variable t0 : tx.                                          (* the transaction the request left *)
Hypothesis H09 : t_is_protocol_0_9 t0 = false.
Variables ps s r : bytes.
Variable ls : list sg_fl.
Hypothesis Wl : sr_status_ok ps s r = true.
Hypothesis Okl : forallb sg_fl_ok ls = true.
Hypothesis Hnp0 : sg_needs_pending ls = false.
Let line0 := wr_ser_status_line ps s r.
Let th0 := sr_th0 t0 line0.
Let Tend := sr_lrun ls (None, th0).
Hypothesis Hsw : tu_switch Tend = true.
Hypothesis Hlim0 : (length line0 + 2 <= g_field_limit_hard g)%nat.
Hypothesis Hfit : sr_ffit (g_field_limit_hard g) (sr_p11 th0) None ls = true.
Variable rq : connp.
Hypothesis Hrq : tu_ifr rq.
Let w := mk_tr_world [] [] rq false.
Notation tr_cin := (tr_cinw w).
Notation tu_tt := (tt_betw g (w := w) ps s r ls t0 []).
(* the transaction when the tunnel is established: the header block is complete *)
Definition tu_tdone : tx := Tend <| t_res_cep := c_HTP_COMPRESSION_NONE |>.

Lemma tu_sw_parts : (t_request_method_number Tend =? c_HTP_M_CONNECT) = false /\ t_response_status_number Tend = 101 /\
  rs_hdr_get_c (t_response_headers Tend) rs_str_content_length = None /\ rs_hdr_get_c (t_response_headers Tend) rs_str_transfer_encoding = None.
Proof.
  unfold tu_switch in Hsw. apply andb_prop in Hsw. destruct Hsw as [H Hte]. apply andb_prop in H. destruct H as [H Hcl]. apply andb_prop in H. destruct H as [Hs Hm].
  apply Z.eqb_eq in Hs. apply negb_true_iff in Hm. split; [exact Hm|]. split; [exact Hs|].
  split; [destruct (rs_hdr_get_c (t_response_headers Tend) rs_str_content_length); [discriminate|reflexivity]|].
  destruct (rs_hdr_get_c (t_response_headers Tend) rs_str_transfer_encoding); [discriminate|reflexivity].
Qed.

(* what one response call establishes *)
Definition tu_post (d : bytes) (cF : connp) (rc : Z) (rw' : bytes) : Prop :=
  (rc = c_HTP_STREAM_DATA /\ rw' <> [] /\ tu_tt cF rw') \/
  (rw' = [] /\ rc = c_HTP_STREAM_TUNNEL /\ exists c5, cF = tn_st c_HTP_STREAM_TUNNEL c_HTP_STREAM_TUNNEL c5 /\
     tr_cin c5 d (length d) [] None RES_FINALIZE (Some RES_BODY_DETERMINE) None tu_tdone).
Definition tu_goal (d : bytes) (c : connp) (fuel : nat) (rw' : bytes) : Prop :=
  exists cF rc, rs_res_loop cb g fuel false c = (cF, rc) /\ k_read (c_out cF) = length d /\ tu_post d cF rc rw'.

Lemma tu_Hstep d c c' fuel rw' : sr_iter cb g c = inr c' -> tu_goal d c' fuel rw' -> tu_goal d c (S fuel) rw'.
Proof. intros E (cF & rc & EF & X). exists cF, rc. split; [rewrite (sr_loop_inr cb g _ _ _ E); exact EF|exact X]. Qed.
Lemma tu_Hexit (d : bytes) c cF fuel rw' : sr_iter cb g c = inl (cF, c_HTP_STREAM_DATA) -> tu_tt cF rw' -> rw' <> [] ->
  k_read (c_out cF) = length d -> tu_goal d c (S fuel) rw'.
Proof.
  intros E B Hne Hk. exists cF, c_HTP_STREAM_DATA. split; [apply (sr_loop_inl cb g _ _ _ E)|]. split; [exact Hk|]. left. split; [reflexivity|]. split; assumption.
Qed.
Lemma tu_Ktail c c1 d rd1 (rw' : bytes) fuel : True -> c_out_state c = RES_HEADERS -> rs_state_fn cb g RES_HEADERS c = (ST_OK, c1) ->
  tr_cin c1 d rd1 [] None RES_BODY_DETERMINE (Some RES_HEADERS) (Some H_RESPONSE_HEADER_DATA) Tend -> skipn rd1 d ++ rw' = [] ->
  (8 * (length d - rd1) + 16 <= fuel)%nat -> tu_goal d c fuel rw'.
Proof.
  intros _ Es Ef H1 Hw Hf. apply app_eq_nil in Hw. destruct Hw as [Hs Hrw].
  assert (Erd : rd1 = length d) by (pose proof (sg_skipn_nil _ _ Hs); pose proof (ti_rd _ _ _ _ _ _ _ _ _ H1); lia). subst rd1.
  destruct tu_sw_parts as (M & S4 & Ncl & Nte).
  rewrite <- Es in Ef. destruct (tr_iter_ok cb g c c1 d _ _ _ _ _ _ _ Ef H1) as (c2 & E2 & H2); [discriminate|].
  assert (Hin : c_in_status c2 <> c_HTP_STREAM_ERROR).
  { destruct (tn_rq_proj _ _ (ti_intx _ _ _ _ _ _ _ _ _ H2)) as (X & _). rewrite X. cbn [tw_rq w]. destruct (uf_status _ Hrq) as [E|E]; rewrite E; intro Y; vm_compute in Y; discriminate. }
  destruct (tr_pass_determine_101 cb g Hcb c2 d _ Tend H2 M S4 Ncl Nte Hin) as (c5 & E5 & H5).
  destruct fuel as [|[|f]]; [lia|lia|].
  eexists _, _. split; [rewrite (sr_loop_inr cb g _ _ _ E2), (sr_loop_inl cb g _ _ _ E5); reflexivity|].
  split; [exact (ti_read _ _ _ _ _ _ _ _ _ H5)|]. right. split; [exact Hrw|]. split; [reflexivity|]. exists c5. split; [reflexivity|exact H5].
Qed.

(* the states between two calls of the response phase *)
Inductive tu_betw (c : connp) (rw : bytes) : Prop :=
| UB_idle : tr_rest w c t0 -> rw = tc_wire ps s r ls [] -> tu_betw c rw
| UB_in : tu_tt c rw -> tu_betw c rw.

Lemma tu_step c (rw x rw' : bytes) : tu_betw c rw -> x <> [] -> rw = x ++ rw' ->
  exists cF rc, connp_res_data cb g (Some x) (length x) c = (cF, rc) /\ k_read (c_out cF) = length x /\ tu_post x cF rc rw'.
Proof.
  intros B Hne Ex.
  assert (Hokd : forall d0 rw0 : bytes, True -> sr_f1_local [] (negb (sr_is_nil ls)) d0 rw0) by (intros; exact I).
  destruct B as [Hr Erw|Hb].
  - destruct (tr_enter_ready cb g _ c t0 x Hr Hne) as (c1 & E1 & H1 & _). rewrite E1.
    assert (Lx : (0 < length x)%nat) by (destruct x; [contradiction|cbn; lia]).
    apply (tt_run_idle cb g Hcb ps s r ls t0 [] Wl Okl Hnp0 H09 Hlim0 Hfit (fun _ _ => True) Hokd tu_goal
             tu_Hstep tu_Hexit tu_Ktail c1 x 0%nat [] (line0 ++ [CR; LF]) _ rw' _ I H1 Lx eq_refl).
    + intro E. apply app_eq_nil in E. destruct E as [_ E]. discriminate.
    + cbn [skipn]. rewrite <- Ex. exact Erw.
    + unfold rs_res_fuel. lia.
  - destruct (tt_step cb g Hcb ps s r ls t0 [] Wl Okl Hnp0 Hlim0 Hfit (fun _ _ => True) Hokd tu_goal
               tu_Hstep tu_Hexit tu_Ktail c rw x rw' Hb Hne Ex I) as (c1 & E1 & G1).
    rewrite E1. exact G1.
Qed.

(* what the deciding call leaves: both directions in tunnel mode, the transaction with its header block complete *)
Lemma tu_tunnel_state c5 d : tr_cin c5 d (length d) [] None RES_FINALIZE (Some RES_BODY_DETERMINE) None tu_tdone ->
  tn_tun (tn_fin (tn_st c_HTP_STREAM_TUNNEL c_HTP_STREAM_TUNNEL c5)) /\ c_txs (tn_fin (tn_st c_HTP_STREAM_TUNNEL c_HTP_STREAM_TUNNEL c5)) = [Some tu_tdone].
Proof.
  intros [A1 A2 A3 A4 A5 A6 A7 A8 A9 A10 A11 A12 A13 A14 A15 A16 A17 A18]. split; [|exact A14].
  destruct (tn_rq_proj _ _ A16) as (_ & Q2 & _ & _ & Q5 & _).
  constructor; try reflexivity.
  - right. change (c_in_state (tn_fin (tn_st c_HTP_STREAM_TUNNEL c_HTP_STREAM_TUNNEL c5))) with (c_in_state c5). rewrite Q2. exact (uf_state _ Hrq).
  - left. change (c_out_tx (tn_fin (tn_st c_HTP_STREAM_TUNNEL c_HTP_STREAM_TUNNEL c5))) with (c_out_tx c5). rewrite A13. discriminate.
Qed.

Theorem tu_chunks : forall (pre : list bytes) c (rw last : bytes), tu_betw c rw -> Forall (fun x : bytes => x <> []) pre -> last <> [] ->
  concat pre ++ last = rw ->
  let ops := map OpResData (pre ++ [last]) in
  exists rs rD, snd (cp_run cb g c ops) = rs ++ [rD] /\
    tn_tun (fst (cp_run cb g c ops)) /\ c_txs (fst (cp_run cb g c ops)) = [Some tu_tdone] /\
    map tn_o rs = map (fun x : bytes => (c_HTP_STREAM_DATA, length x)) pre /\ Forall tn_rquiet rs /\
    tn_o rD = (c_HTP_STREAM_TUNNEL, length last) /\ r_in_status rD = c_HTP_STREAM_TUNNEL /\ r_out_status rD = c_HTP_STREAM_TUNNEL /\ r_ntx rD = 1%nat.
Proof.
  induction pre as [|x pre IH]; intros c rw last B Hall Hl Hc ops; unfold ops; clear ops.
  - cbn [concat app] in Hc. cbn [app map]. rewrite tn_run_cons. cbn [cp_run fst snd]. rewrite tn_step_res.
    destruct (tu_step c rw last [] B Hl ltac:(rewrite app_nil_r; symmetry; exact Hc)) as (cF & rc & E & Hk & [(_ & X & _)|(_ & Erc & c5 & Ec & H5)]); [contradiction|].
    unfold bytes in E |- *. rewrite E. cbn [fst snd]. subst rc cF.
    destruct (tu_tunnel_state c5 last H5) as [T X].
    exists [], (tn_res (tn_st c_HTP_STREAM_TUNNEL c_HTP_STREAM_TUNNEL c5) c_HTP_STREAM_TUNNEL (k_read (c_out (tn_st c_HTP_STREAM_TUNNEL c_HTP_STREAM_TUNNEL c5)))).
    split; [reflexivity|]. split; [exact T|]. split; [exact X|]. split; [reflexivity|]. split; [constructor|].
    unfold tn_o, tn_res, finish_call. cbn [snd r_rc r_consumed r_in_status r_out_status r_ntx]. rewrite Hk.
    split; [reflexivity|]. split; [reflexivity|]. split; [reflexivity|].
    change (c_txs (tn_st c_HTP_STREAM_TUNNEL c_HTP_STREAM_TUNNEL c5)) with (c_txs c5). rewrite (ti_txs _ _ _ _ _ _ _ _ _ H5). reflexivity.
  - pose proof (Forall_inv Hall) as Hx. pose proof (Forall_inv_tail Hall) as Hall'. cbn [concat] in Hc. rewrite <- app_assoc in Hc.
    change (map OpResData ((x :: pre) ++ [last])) with (OpResData x :: map OpResData (pre ++ [last])). rewrite tn_run_cons. cbn [fst snd]. rewrite tn_step_res.
    destruct (tu_step c rw x (concat pre ++ last) B Hx (eq_sym Hc)) as (cF & rc & E & Hk & [(Erc & Hne & Bt)|(X & _)]).
    2: { exfalso. apply app_eq_nil in X. destruct X as [_ X]. contradiction. }
    unfold bytes in E |- *. rewrite E. cbn [fst snd]. subst rc.
    assert (Er : tn_rq cF = rq) by (destruct Bt as [p q Hm' _ _ _|p hdr t Hm' _ _]; exact (tm_intx _ _ _ _ _ _ Hm')).
    destruct (IH (tn_fin cF) _ last (UB_in _ _ (tt_betw_finish g ps s r ls t0 [] cF _ Bt (uf_stable _ Hrq))) Hall' Hl eq_refl) as (rs & rD & Er' & T & X & Ho & Hq & R).
    cbv zeta in Er', T, X. exists (tn_res cF c_HTP_STREAM_DATA (k_read (c_out cF)) :: rs), rD. split; [cbn [app]; f_equal; exact Er'|].
    split; [exact T|]. split; [exact X|]. split; [cbn [map]; f_equal; [unfold tn_o, tn_res, finish_call; cbn [snd r_rc r_consumed]; rewrite Hk; reflexivity|exact Ho]|].
    split; [|exact R]. constructor; [|exact Hq]. unfold tn_rquiet, tn_res, finish_call. cbn [snd r_in_status].
    destruct (tn_rq_proj _ _ Er) as (Y & _). rewrite Y. destruct (uf_status _ Hrq) as [E0|E0]; rewrite E0; intro Z0; vm_compute in Z0; discriminate.
Qed.
End SwitchR.

(* ================= the theorem ================= *)
Lemma tu_rest_of_base c1 t0 : sr_fr c1 = pq_base -> c_txs c1 = [Some t0] ->
  tr_rest (mk_tr_world [] [] (tn_rq c1) false) c1 t0.
Proof.
  intros Hfr Ht. unfold sr_fr, pq_base in Hfr. injection Hfr as F1 F2 F3 F4 F5 F6 F7 F8.
  constructor; cbn [tr_k tr_txs tw_pre tw_post tw_rq tw_other length app]; try assumption; try reflexivity.
  - left. exact F1.
  - rewrite F4. reflexivity.
  - rewrite F4. reflexivity.
  - rewrite F4. reflexivity.
Qed.

Theorem tu_switching_protocols : forall cb g rq rsp cuts (qchunks spre : list bytes) (slast : bytes) (tail : list cp_op),
  wr_all_ok cb -> g_allow_space_uri g = false -> (g_max_tx g = 0 \/ 1 < g_max_tx g)%nat ->
  sg_req_ok g rq = true -> tn_rsp_ok g rsp cuts = true -> tu_101_ok rq rsp cuts = true ->
  Forall (fun x : bytes => x <> []) qchunks -> concat qchunks = wr_request_wire rq ->
  Forall (fun x : bytes => x <> []) spre -> slast <> [] -> concat spre ++ slast = sr_wire rsp cuts [] ->
  Forall tn_data_op tail ->
  let head := OpOpen :: map OpReqData qchunks ++ map OpResData spre in
  let ops := head ++ OpResData slast :: tail in
  let run := cp_run cb g connp_new ops in
  (* every call before the one that delivers the end of the 101 head leaves the request side out of tunnel mode; that call returns TUNNEL
     having consumed its chunk, with both directions in tunnel mode; every later call is absorbed (TUNNEL, nothing consumed, no event, one transaction) *)
  (exists rs1 rD rs2, snd run = rs1 ++ rD :: rs2 /\ length rs1 = length head /\ Forall tn_rquiet rs1 /\
     tn_o rD = (c_HTP_STREAM_TUNNEL, length slast) /\ r_in_status rD = c_HTP_STREAM_TUNNEL /\ r_out_status rD = c_HTP_STREAM_TUNNEL /\
     Forall (tn_absorbed 1) rs2) /\
  (* exactly one transaction: it reports the request, and the status 101 *)
  (exists t, c_txs (fst run) = [Some t] /\ wr_reported (sg_mask t) rq /\ t_response_status_number t = 101) /\
  chk_C16 (obs_run cb g connp_new ops) = true /\
  tn_tun (fst run).
Proof.
  intros cb g rq rsp cuts qchunks spre slast tail Hcb Hsp Hmax Hq Hrs Hsw Qa Qc Sa Sl Sc Ta head ops run.
  (* the answer *)
  unfold tn_rsp_ok in Hrs. apply andb_prop in Hrs. destruct Hrs as [Hrs Hfit]. apply andb_prop in Hrs. destruct Hrs as [Wr Wc].
  unfold sr_response_ok in Wr. apply andb_prop in Wr. destruct Wr as [Wl Wf].
  unfold sr_cuts_ok in Wc. apply andb_prop in Wc. destruct Wc as [_ Wc].
  destruct (sg_block_flat_ok (combine (wp_fields rsp) cuts) (sr_forallb_combine_fst wr_field_ok _ cuts Wf) Wc) as [Okl Hnp].
  unfold sr_fits in Hfit. apply andb_prop in Hfit. destruct Hfit as [Hl0 Hfit]. apply Nat.leb_le in Hl0.
  set (ps := wp_protocol rsp) in *. set (ss := wp_status rsp) in *. set (rr := wp_reason rsp) in *. set (ls := sr_lines rsp cuts) in *.
  (* the request *)
  destruct tn_c0_facts as (_ & _ & Si0 & So0 & _).
  assert (Hok : Forall (fun r0 => sg_req_ok g r0 = true) [rq]) by (constructor; [exact Hq|constructor]).
  assert (Hm0 : sg_imid tn_c0 [] (sg_pflags (length (@nil (option tx))))) by (constructor; try reflexivity; left; reflexivity).
  assert (Eqw : concat qchunks = sg_pwires [rq]) by (rewrite Qc; unfold sg_pwires; cbn [map concat]; rewrite app_nil_r; reflexivity).
  destruct (tu_pchunks cb g Hcb Hsp [rq] Hok ltac:(cbn [length]; exact Hmax) qchunks tn_c0 [] [rq] _ eq_refl (QB_idle g [] [rq] tn_c0 _ [] Hm0 (Forall2_nil _) eq_refl) eq_refl Qa Eqw)
    as (I1 & Rep1 & Fr1 & Q1).
  set (opsA := map OpReqData qchunks) in *. set (c1 := fst (cp_run cb g tn_c0 opsA)) in *.
  destruct (tn_run_stable cb g opsA tn_c0 Si0 So0) as [Si1 So1]. fold c1 in Si1, So1.
  assert (Et : exists k fl, c_txs c1 = [Some (sg_tfin_r g k rq fl)]).
  { unfold pq_rep in Rep1. inversion Rep1 as [|s0 r0 l0 l0' (k & fl & Es) Hrest El Er]. subst. inversion Hrest. subst. exists k, fl. reflexivity. }
  destruct Et as (k & fl & Et). set (t0 := sg_tfin_r g k rq fl) in *.
  destruct (sg_req_ok_parts g rq Hq) as (Wq & _).
  pose proof (sg_tfin_reported g k rq fl Hsp Wq) as Rep. fold (sg_tfin_r g k rq fl) in Rep. fold t0 in Rep.
  pose proof Rep as (_ & Hm & _ & _ & _ & H09 & _ & Hreq).
  change (t_request_method_number (sg_mask t0)) with (t_request_method_number t0) in Hm. change (t_is_protocol_0_9 (sg_mask t0)) with (t_is_protocol_0_9 t0) in H09.
  (* the model's decision on the answer *)
  assert (Hsw0 : tu_switch (sr_lrun ls (None, sr_th0 t0 (wr_ser_status_line ps ss rr))) = true).
  { unfold tu_101_ok in Hsw. rewrite <- Hsw. apply tu_switch_sim. unfold sr_tend. apply sim_lrun; [reflexivity|]. cbn [snd]. apply sim_th0.
    - exact Hm.
    - pose proof (prs_tfin g k rq fl) as P. unfold pp_rsp in P. unfold sr_rsp. destruct (pp_tuple4 _ _ _ _ _ _ _ _ P) as (P1 & P2 & _ & _). fold t0 in P1, P2. rewrite P1, P2. reflexivity. }
  rewrite <- (sr_p11_th0 t0 (sr_line0 rsp)) in Hfit.
  (* the response phase *)
  assert (Hifr : tu_ifr (tn_rq c1)).
  { destruct (tn_rq_p c1) as (P1 & P2 & P3 & P4 & P5). constructor; rewrite ?P1, ?P2, ?P3, ?P5.
    - exact (im_status _ _ _ I1). - exact (im_state _ _ _ I1). - exact (im_tx _ _ _ I1). - exact Si1. }
  pose proof (tu_rest_of_base c1 t0 Fr1 Et) as Rest1.
  assert (Ewr : sr_wire rsp cuts [] = tc_wire ps ss rr ls []) by (unfold sr_wire, tc_wire, sr_line0; rewrite <- !app_assoc; reflexivity).
  destruct (tu_chunks cb g Hcb t0 H09 ps ss rr ls Wl Okl Hnp Hsw0 Hl0 Hfit (tn_rq c1) Hifr spre c1 _ slast (UB_idle g t0 ps ss rr ls (tn_rq c1) c1 _ Rest1 eq_refl) Sa Sl ltac:(rewrite Sc; exact Ewr))
    as (rsB & rD & ErB & T2 & X2 & R2 & Q2 & RD1 & RD2 & RD3 & RD4).
  cbv zeta in ErB, T2, X2. set (opsB := map OpResData (spre ++ [slast])) in *. set (c2 := fst (cp_run cb g c1 opsB)) in *.
  destruct (tn_tunnel_tail cb g tail c2 T2 Ta) as (T3 & X3 & R3). rewrite X2 in R3, X3. cbn [length] in R3.
  (* the run as a whole *)
  assert (Eops : ops = OpOpen :: opsA ++ opsB ++ tail).
  { unfold ops, head, opsA, opsB. rewrite !map_app. cbn [map]. cbn [app]. rewrite <- !app_assoc. cbn [app]. reflexivity. }
  set (r0 := snd (finish_call (connp_open connp_new) (-1) 0 false)) in *.
  set (rsA := snd (cp_run cb g tn_c0 opsA)) in *. set (rsT := snd (cp_run cb g c2 tail)) in *.
  assert (Erun : run = (fst (cp_run cb g c2 tail), r0 :: rsA ++ (rsB ++ [rD]) ++ rsT)).
  { unfold run. rewrite Eops, tn_run_cons, tn_open_step. cbn [fst snd].
    rewrite (tn_run_app cb g opsA). cbn [fst snd]. fold c1. rewrite (tn_run_app cb g opsB). cbn [fst snd]. fold c2. rewrite ErB. reflexivity. }
  assert (LA : length rsA = length opsA) by apply tn_run_length. assert (LT : length rsT = length tail) by apply tn_run_length.
  assert (LB : length rsB = length spre) by (rewrite <- (map_length tn_o), R2, map_length; reflexivity).
  assert (Q0 : tn_rquiet r0) by (unfold tn_rquiet; intro X; vm_compute in X; discriminate).
  assert (Esplit : r0 :: rsA ++ (rsB ++ [rD]) ++ rsT = (r0 :: rsA ++ rsB) ++ rD :: rsT) by (cbn [app]; rewrite <- !app_assoc; reflexivity).
  assert (Qhead : Forall tn_rquiet (r0 :: rsA ++ rsB)) by (constructor; [exact Q0|]; apply Forall_app; split; [exact Q1|exact Q2]).
  assert (Lhead : length (r0 :: rsA ++ rsB) = length head).
  { unfold head. cbn [length]. rewrite !app_length, LA, LB. unfold opsA. rewrite !map_length. reflexivity. }
  rewrite Erun. cbn [fst snd].
  split; [|split; [|split]].
  - exists (r0 :: rsA ++ rsB), rD, rsT. split; [exact Esplit|]. split; [exact Lhead|]. split; [exact Qhead|]. split; [exact RD1|]. split; [exact RD2|]. split; [exact RD3|exact R3].
  - exists (tu_tdone t0 ps ss rr ls). split; [exact X3|].
    destruct (tu_sw_parts t0 ps ss rr ls Hsw0) as (_ & S4 & _).
    destruct (prq_lrun ls (None, sr_th0 t0 (wr_ser_status_line ps ss rr))) as [P _]. cbn [snd] in P. destruct (prq_th0 t0 (wr_ser_status_line ps ss rr)) as [Q _].
    split; [|exact S4].
    assert (Eq : pp_rq (tu_tdone t0 ps ss rr ls) = pp_rq t0) by (unfold tu_tdone; change (pp_rq (?x <| t_res_cep := c_HTP_COMPRESSION_NONE |>)) with (pp_rq x); rewrite P; exact Q).
    destruct (tc_rq_proj _ _ Eq) as (P1 & P2 & P3 & P4 & P5 & P6 & P7 & P8). unfold wr_reported in *. destruct Rep as (Y1 & Y2 & Y3 & Y4 & Y5 & Y6 & Y7 & Y8).
    change (sg_mask t0) with (t0 <| t_flags := N.ldiff (t_flags t0) c_HTP_MULTI_PACKET_HEAD |>) in *. cbn [sg_mask t_request_method t_request_method_number t_request_uri t_request_protocol t_request_protocol_number t_is_protocol_0_9 t_request_headers t_request_progress set] in *.
    repeat split; congruence.
  - unfold obs_run. fold run. rewrite Erun. cbn [snd]. rewrite Esplit. unfold ops.
    rewrite (tn_combine_app3 head (OpResData slast) tail _ rD rsT (eq_sym Lhead)). rewrite map_app. cbn [map].
    apply tn_chk_history.
    + apply tn_quiet_obs. exact Qhead.
    + exact RD2.
    + exact RD3.
    + cbn [obs_call oc_ntx]. rewrite RD4. apply tn_absorbed_obs; [exact Ta|exact R3|exact LT].
  - exact T3.
Qed.

(* ================= non-vacuity and the vm_compute harness ================= *)
(* GET /up HTTP/1.1 | Host: a | Upgrade: websocket | Connection: Upgrade *)
Definition tu_ex_rq : wr_request :=
  mk_wr_request [71;69;84]%N [47;117;112]%N wr_http11
    [mk_wr_field [72;111;115;116]%N [SP] [97]%N []; mk_wr_field [85;112;103;114;97;100;101]%N [SP] [119;101;98;115;111;99;107;101;116]%N [];
     mk_wr_field [67;111;110;110;101;99;116;105;111;110]%N [SP] [85;112;103;114;97;100;101]%N []].
(* HTTP/1.1 101 Switching Protocols | Upgrade: websocket *)
Definition tu_ex_rsp : wr_response :=
  mk_wr_response wr_http11 [49;48;49]%N [83;119;105;116;99;104;105;110;103;32;80;114;111;116;111;99;111;108;115]%N
    [mk_wr_field [85;112;103;114;97;100;101]%N [SP] [119;101;98;115;111;99;107;101;116]%N []].
Definition tu_ex_cuts : list (list bytes) := sr_cuts_whole tu_ex_rsp.
Definition tu_ex_qw : bytes := wr_request_wire tu_ex_rq.
Definition tu_ex_sw : bytes := sr_wire tu_ex_rsp tu_ex_cuts [].
Example tu_ex_premises :
  sg_req_ok tn_ex_cfg tu_ex_rq = true /\ tn_rsp_ok tn_ex_cfg tu_ex_rsp tu_ex_cuts = true /\ tu_101_ok tu_ex_rq tu_ex_rsp tu_ex_cuts = true /\
  (g_max_tx tn_ex_cfg = 0 \/ 1 < g_max_tx tn_ex_cfg)%nat /\ length tu_ex_qw = 70%nat /\ length tu_ex_sw = 56%nat.
Proof. split; [vm_compute; reflexivity|]. split; [vm_compute; reflexivity|]. split; [vm_compute; reflexivity|]. split; [right; vm_compute; lia|]. split; vm_compute; reflexivity. Qed.
(* the request in two chunks, the answer in three (the second cut falls between the CR and the LF of the empty line), then both directions *)
Definition tu_ex_ops : list cp_op :=
  (OpOpen :: map OpReqData [firstn 33 tu_ex_qw; skipn 33 tu_ex_qw] ++ map OpResData [firstn 20 tu_ex_sw; firstn 35 (skipn 20 tu_ex_sw)]) ++
  OpResData (skipn 55 tu_ex_sw) :: [OpReqData [129;5;104]%N; OpResData [129;2]%N; OpReqData [10]%N].
Example tu_ex_run :
  let run := cp_run tn_ex_cb tn_ex_cfg connp_new tu_ex_ops in
  map tn_o (snd run) = [(-1, 0%nat); (c_HTP_STREAM_DATA, 33%nat); (c_HTP_STREAM_DATA, 37%nat); (c_HTP_STREAM_DATA, 20%nat); (c_HTP_STREAM_DATA, 35%nat);
                        (c_HTP_STREAM_TUNNEL, 1%nat); (c_HTP_STREAM_TUNNEL, 0%nat); (c_HTP_STREAM_TUNNEL, 0%nat); (c_HTP_STREAM_TUNNEL, 0%nat)] /\
  map (option_map (fun t => (t_request_uri t, t_response_status_number t))) (c_txs (fst run)) = [Some (Some [47;117;112]%N, 101)] /\
  chk_C16 (obs_run tn_ex_cb tn_ex_cfg connp_new tu_ex_ops) = true.
Proof. vm_compute. repeat split; reflexivity. Qed.
(* a history outside the premise on the order of the operations (former listed finding http09-then-tunnel-error, fixed in /repo): junk glued to
   the Upgrade request is taken for an HTTP/0.9 request; after the 101 answer the next request data call used to return ERROR; since the entry
   guard of htp_connp_req_data lets tunnel mode through it returns TUNNEL *)
Example tu_ex_http09_junk :
  map (fun r => r_rc r) (snd (cp_run tn_ex_cb tn_ex_cfg connp_new
     [OpOpen; OpReqData (tu_ex_qw ++ [65;22;1;65;10;10;128;10]%N); OpResData tu_ex_sw; OpReqData [65]%N])) =
  [-1; c_HTP_STREAM_DATA; c_HTP_STREAM_TUNNEL; c_HTP_STREAM_TUNNEL].
Proof. vm_compute. reflexivity. Qed.
(* a 101 answer that announces a body is not a protocol switch for the library: the premise tu_101_ok fails *)
Example tu_ex_101_with_cl :
  tu_101_ok tu_ex_rq (mk_wr_response wr_http11 [49;48;49]%N [88]%N [mk_wr_field sr_str_CL [SP] [48]%N []]) [[[SP; 48]%N]] = false.
Proof. vm_compute. reflexivity. Qed.

(* ================= THEOREM FOR RE-EXPORT (Properties_C16.v) =================
   tu_switching_protocols : see the statement above.  Premises: wr_all_ok cb, g_allow_space_uri g = false, g_max_tx g = 0 \/ 1 < g_max_tx g,
     sg_req_ok g rq (PSegPipe: a request of the wire grammar without body, known method, within the limits -- whatever its header fields),
     tn_rsp_ok g rsp cuts, tu_101_ok rq rsp cuts (status 101, no Content-Length / Transfer-Encoding in the header table, request not CONNECT:
     the model's own decision on the canonical transaction), chunks non-empty, concat qchunks = the request exactly, concat (spre ++ [slast]) =
     the answer exactly, the tail consists of data calls with non-empty data. *)
Print Assumptions tu_switching_protocols.
