(* The table (alternating key/element list) refines an insertion-ordered multimap whose lookups
   are case-insensitive and return the first match. *)
Require Import Htp.Model.Base Htp.Model.MBstr Htp.Model.MTable Htp.Proof.PBstr.

Definition flat (l : list (bytes * nat)) : list elem := flat_map (fun kv => [EK (fst kv); EV (snd kv)]) l.
Definition R (t : table) (m : mmap) : Prop := t_alloc t = m_mode m /\ t_list t = flat (m_pairs m).

Lemma flat_app a b : flat (a ++ b) = flat a ++ flat b.
Proof. unfold flat. apply flat_map_app. Qed.
Lemma flat_length l : length (flat l) = 2 * length l.
Proof. induction l as [|[k v] l IH]; cbn; [reflexivity|]. unfold flat in IH. rewrite IH. lia. Qed.

Lemma tscan_flat p l : tscan p (flat l) = mfind p l.
Proof.
  unfold mfind. induction l as [|[k v] l IH]; [reflexivity|].
  cbn [flat flat_map fst snd app tscan find]. destruct (p k); [reflexivity|exact IH].
Qed.

Lemma nocase_eq c k : (cmp_mem_nocase c k =? 0)%Z = if list_eq_dec N.eq_dec (lower c) (lower k) then true else false.
Proof.
  rewrite cmp_mem_nocase_spec. unfold lower.
  destruct (list_eq_dec N.eq_dec (map c_tolower c) (map c_tolower k)) as [e|n].
  - apply Z.eqb_eq. apply cmp_mem_eq. exact e.
  - apply Z.eqb_neq. intros H. apply cmp_mem_eq in H. contradiction.
Qed.
Lemma nonzero_same s : PBstr.nonzero s = MTable.nonzero s. Proof. reflexivity. Qed.
Lemma norzero_eq c k :
  (cmp_mem_nocasenorzero c k =? 0)%Z = if list_eq_dec N.eq_dec (lower (MTable.nonzero c)) (lower k) then true else false.
Proof. rewrite cmp_mem_nocasenorzero_spec, nonzero_same. apply nocase_eq. Qed.

Lemma mfind_ext p q l : (forall k, p k = q k) -> mfind p l = mfind q l.
Proof. intros H. unfold mfind. induction l as [|[k v] l IH]; [reflexivity|]. cbn. rewrite H. destruct (q k); [reflexivity|exact IH]. Qed.

Lemma nth_flat_key l : forall i, nth_error (flat l) (i * 2) = option_map (fun kv => EK (fst kv)) (nth_error l i).
Proof. induction l as [|[k v] l IH]; intros [|i]; try reflexivity. cbn. apply IH. Qed.
Lemma nth_flat_val l : forall i, nth_error (flat l) (i * 2 + 1) = option_map (fun kv => EV (snd kv)) (nth_error l i).
Proof. induction l as [|[k v] l IH]; intros [|i]; try reflexivity. cbn. apply IH. Qed.

Lemma div2_double n : Nat.div2 (2 * n) = n.
Proof. induction n as [|n IH]; [reflexivity|]. replace (2 * S n) with (S (S (2 * n))) by lia. cbn [Nat.div2]. f_equal. exact IH. Qed.

Definition valid_op (o : top) : bool := match o with TAdd m _ _ => (1 <=? m) && (m <=? 3) | _ => true end.

Theorem tstep_refines t m o : R t m -> valid_op o = true ->
  R (fst (tstep t o)) (fst (mstep m o)) /\ snd (tstep t o) = snd (mstep m o).
Proof.
  intros [Ha Hl] Hv. destruct o as [mode k v|k|k|k|i| |]; cbn [tstep mstep fst snd].
  - unfold tadd. rewrite Ha. cbn [valid_op] in Hv.
    destruct (m_mode m =? 0) eqn:E0; cbn [orb fst snd].
    + split; [|reflexivity]. split; cbn; [reflexivity|]. rewrite Hl, flat_app. reflexivity.
    + destruct (m_mode m =? mode) eqn:E1; cbn [fst snd].
      * split; [|reflexivity]. split; cbn; [reflexivity|]. rewrite Hl, flat_app. reflexivity.
      * split; [|reflexivity]. split; assumption.
  - split; [split; assumption|]. unfold tget. rewrite Hl, tscan_flat. f_equal. apply mfind_ext. intros c. apply nocase_eq.
  - split; [split; assumption|]. unfold tget_c. rewrite Hl, tscan_flat. f_equal. apply mfind_ext. intros c. apply norzero_eq.
  - split; [split; assumption|]. unfold tget_mem. rewrite Hl, tscan_flat. f_equal. apply mfind_ext. intros c. apply nocase_eq.
  - split; [split; assumption|]. unfold tget_index. rewrite Hl, flat_length, nth_flat_key, nth_flat_val.
    destruct (2 * length (m_pairs m) <=? i) eqn:E.
    + apply Nat.leb_le in E. assert (H : nth_error (m_pairs m) i = None) by (apply nth_error_None; lia). rewrite H. reflexivity.
    + destruct (nth_error (m_pairs m) i) as [[k v]|]; reflexivity.
  - split; [split; assumption|]. rewrite Hl, flat_length, div2_double. reflexivity.
  - split; [|reflexivity]. split; cbn; [exact Ha|reflexivity].
Qed.

Lemma tobserve_gen ops : forall t m acc, R t m -> forallb valid_op ops = true ->
  snd (fold_left (fun '(s, acc) o => let '(s', x) := tstep s o in (s', x :: acc)) ops (t, acc)) =
  snd (fold_left (fun '(s, acc) o => let '(s', x) := mstep s o in (s', x :: acc)) ops (m, acc)).
Proof.
  induction ops as [|o ops IH]; intros t m acc HR Hv; [reflexivity|].
  cbn [forallb] in Hv. apply andb_prop in Hv. destruct Hv as [Hv1 Hv2].
  cbn [fold_left]. destruct (tstep_refines t m o HR Hv1) as [HR' Heq].
  destruct (tstep t o) as [t' x]. destruct (mstep m o) as [m' y]. cbn [fst snd] in *. subst. apply IH; assumption.
Qed.

Theorem table_refines_multimap ops : forallb valid_op ops = true ->
  tobserve tstep tcreate ops = tobserve mstep (mkmm 0 []) ops.
Proof. intros H. unfold tobserve. apply tobserve_gen; [split; reflexivity|exact H]. Qed.
