(* C06, part B (request side): one identity step, the identity body under every chunking, chunk-length line
   assembly is chunking-invariant, chunked decode(encode) with the exact length accounting. The statements are
   about the REAL loop body rq_iter of htp_connp_req_data iterated over the TCP chunks (bd_rq_reach). *)
Require Import Htp.Model.MConnTypes Htp.Model.MBstr Htp.Model.MTxCommon Htp.Model.MReqLine Htp.Model.MTxReq Htp.Model.MReq.
Require Import Htp.Spec.SBody Htp.Proof.PBody.
Local Open Scope Z_scope.

(* the unread part of the current chunk *)
Definition bd_rq_rest (c : connp) : bytes :=
  match k_data (c_in c) with Some d => skipn (k_read (c_in c)) d | None => [] end.

(* what the state functions rely on between two segments of a body *)
Record bd_rq_inv (i : nat) (c : connp) : Prop := mk_bd_rq_inv {
  bq_tx : c_in_tx c = Some i;
  bq_live : exists t, tx_slot c i = Some t /\ t_hook_request_body t = 0%nat;
  bq_rcv : k_receiver_hook (c_in c) = None;
  bq_hdr : k_header (c_in c) = None;
  bq_status : (c_in_status c =? c_HTP_STREAM_TUNNEL) = false;
  bq_data : exists d, k_data (c_in c) = Some d /\ k_len (c_in c) = length d /\ (k_read (c_in c) <= length d)%nat
}.

Lemma bd_skipn_skipn {B} a b (l : list B) : skipn a (skipn b l) = skipn (b + a) l.
Proof. revert l; induction b as [|b IH]; intros l; [reflexivity|]. destruct l; [destruct a; reflexivity|]. cbn. apply IH. Qed.

(* ---- delivering the next dd bytes of the chunk to the callbacks (the common part of IDENTITY / CHUNKED_DATA) ---- *)
Definition bd_rq_deliver (i : nat) (t : tx) (dd : bytes) (c : connp) : connp :=
  let n := length dd in
  let t1 := t <| t_request_entity_len ::= Z.add (Z.of_nat n) |> in
  let c1 := bd_set_tx i t1 c in
  let c2 := emit (bump_hook c1 H_REQUEST_BODY_DATA) (mkev H_REQUEST_BODY_DATA i (Some dd) false None) in
  let c3 := rq_set_in (fun k => k <| k_read ::= Nat.add n |> <| k_consume ::= Nat.add n |>) c2 in
  bd_set_tx i (t1 <| t_request_message_len ::= Z.add (Z.of_nat n) |>) c3.

Section Req.
Variable cb : cb_oracle.
Variable g : cfg.
Hypothesis cb_ok : forall n, cb H_REQUEST_BODY_DATA n = CB_OK.

Lemma bd_rq_consume_body i t c dd rest :
  c_in_tx c = Some i -> tx_slot c i = Some t -> t_hook_request_body t = 0%nat ->
  (exists d, k_data (c_in c) = Some d /\ skipn (k_read (c_in c)) d = dd ++ rest /\ (k_read (c_in c) <= length d)%nat) ->
  dd <> [] ->
  rq_consume_body cb (length dd) c = (ST_OK, bd_rq_deliver i t dd c).
Proof.
  intros Hi Hl Hh (d & Hd & Hs & Hr) Hne.
  unfold rq_consume_body. rewrite Hd.
  assert (Hlen : (k_read (c_in c) + length dd <= length d)%nat).
  { assert (length (skipn (k_read (c_in c)) d) = length (dd ++ rest)) by (rewrite Hs; reflexivity).
    rewrite skipn_length, app_length in H. lia. }
  unfold rq_slice. rewrite Hd.
  apply Nat.leb_le in Hlen. rewrite Hlen.
  replace (k_read (c_in c) + length dd - k_read (c_in c))%nat with (length dd) by lia.
  rewrite Hs. rewrite firstn_app, Nat.sub_diag, firstn_all. cbn [firstn]. rewrite app_nil_r.
  unfold rq_with_tx. rewrite Hi.
  unfold tx_req_process_body_data_ex. rewrite (bd_tx_upd_eq _ _ _ _ Hl).
  set (t1 := t <| t_request_entity_len ::= _ |>). set (c1 := bd_set_tx i t1 c).
  assert (Hl1 : tx_slot c1 i = Some t1) by (apply (bd_slot_set _ _ _ _ Hl)).
  unfold req_run_hook_body_data. destruct dd as [|b dd]; [congruence|].
  change (c_in_tx c1) with (c_in_tx c). rewrite Hi.
  rewrite (bd_tx_get_live _ _ _ Hl1). change (t_hook_request_body t1) with (t_hook_request_body t). rewrite Hh.
  cbn [run_tx_hooks]. unfold run_data_hook, run_hook_ex. rewrite cb_ok.
  unfold rq_tx_upd.
  set (c2 := emit _ _).
  set (c3 := rq_set_in _ c2).
  change (c_in_tx c3) with (c_in_tx c). rewrite Hi.
  assert (Hl3 : tx_slot c3 i = Some t1).
  { rewrite <- Hl1. apply bd_slot_ext; reflexivity. }
  rewrite (bd_tx_upd_eq _ _ _ _ Hl3). reflexivity.
Qed.

(* projections of the result *)
Lemma bd_rq_deliver_events i t dd c :
  c_events (bd_rq_deliver i t dd c) = mkev H_REQUEST_BODY_DATA i (Some dd) false None :: c_events c.
Proof. reflexivity. Qed.
Lemma bd_rq_deliver_slot i t dd c : tx_slot c i = Some t ->
  tx_slot (bd_rq_deliver i t dd c) i =
    Some (t <| t_request_entity_len ::= Z.add (Z.of_nat (length dd)) |> <| t_request_message_len ::= Z.add (Z.of_nat (length dd)) |>).
Proof.
  intros Hl. unfold bd_rq_deliver. cbv zeta.
  set (t1 := t <| t_request_entity_len ::= _ |>).
  eapply bd_slot_set. erewrite bd_slot_ext; [apply (bd_slot_set _ _ _ t1 Hl)|reflexivity|reflexivity].
Qed.
Lemma bd_rq_deliver_in i t dd c :
  c_in (bd_rq_deliver i t dd c) = (c_in c) <| k_read ::= Nat.add (length dd) |> <| k_consume ::= Nat.add (length dd) |>.
Proof. reflexivity. Qed.

Lemma bd_rq_deliver_inv i t dd rest c :
  bd_rq_inv i c -> tx_slot c i = Some t -> bd_rq_rest c = dd ++ rest ->
  bd_rq_inv i (bd_rq_deliver i t dd c) /\ bd_rq_rest (bd_rq_deliver i t dd c) = rest.
Proof.
  intros [Hi (t0 & Hl0 & Hh) Hr Hhd Hst (d & Hd & Hlen & Hrd)] Hl Hrest.
  rewrite Hl in Hl0. inversion Hl0; subst t0.
  unfold bd_rq_rest in Hrest. rewrite Hd in Hrest.
  assert (Hle : (k_read (c_in c) + length dd <= length d)%nat).
  { assert (length (skipn (k_read (c_in c)) d) = length (dd ++ rest)) by (rewrite Hrest; reflexivity).
    rewrite skipn_length, app_length in H. lia. }
  split.
  - constructor; try assumption.
    + eexists. split; [apply (bd_rq_deliver_slot _ _ _ _ Hl)|]. exact Hh.
    + exists d. rewrite bd_rq_deliver_in. cbn. repeat split; try assumption. lia.
  - unfold bd_rq_rest. rewrite bd_rq_deliver_in. cbn. rewrite Hd.
    rewrite Nat.add_comm. rewrite <- bd_skipn_skipn. rewrite Hrest.
    rewrite skipn_app, Nat.sub_diag, skipn_all. reflexivity.
Qed.

Lemma bd_rq_bytes_to_consume c n :
  (exists d, k_data (c_in c) = Some d /\ k_len (c_in c) = length d /\ (k_read (c_in c) <= length d)%nat) -> 0 < n ->
  rq_bytes_to_consume c n = length (firstn (Z.to_nat n) (bd_rq_rest c)).
Proof.
  intros (d & Hd & Hl & Hr) Hn. unfold rq_bytes_to_consume, bd_rq_rest. rewrite Hd, Hl.
  rewrite firstn_length, skipn_length.
  destruct (n <? 0) eqn:E1; [apply Z.ltb_lt in E1; lia|]. cbn [orb].
  destruct (Z.of_nat (length d - k_read (c_in c)) <? n) eqn:E2;
    [apply Z.ltb_lt in E2|apply Z.ltb_ge in E2];
    destruct (Nat.min_spec (Z.to_nat n) (length d - k_read (c_in c))) as [[A B]|[A B]]; rewrite B; lia.
Qed.

(* ================= (1) one identity step ================= *)
Theorem bd_rq_identity_step i t c :
  bd_rq_inv i c -> tx_slot c i = Some t -> 0 < c_in_body_data_left c ->
  let n := c_in_body_data_left c in
  let dd := firstn (Z.to_nat n) (bd_rq_rest c) in
  REQ_BODY_IDENTITY_fn cb c =
    if (length dd =? 0)%nat then (ST_DATA, c)
    else let c' := (bd_rq_deliver i t dd c) <| c_in_body_data_left ::= (fun l => l - Z.of_nat (length dd)) |> in
         if n - Z.of_nat (length dd) =? 0 then (ST_OK, c' <| c_in_state := REQ_FINALIZE |>) else (ST_DATA, c').
Proof.
  intros Inv Hl Hn n dd. subst n dd. destruct Inv as [Hi (t0 & Hl0 & Hh) Hr Hhd Hst Hdat].
  rewrite Hl in Hl0. inversion Hl0; subst t0.
  unfold REQ_BODY_IDENTITY_fn. rewrite (bd_rq_bytes_to_consume c _ Hdat Hn).
  set (n := c_in_body_data_left c) in *. set (dd := firstn (Z.to_nat n) (bd_rq_rest c)).
  destruct (length dd =? 0)%nat eqn:E0; [reflexivity|].
  apply Nat.eqb_neq in E0.
  destruct Hdat as (d & Hd & Hlen & Hrd).
  rewrite (bd_rq_consume_body i t c dd (skipn (Z.to_nat n) (bd_rq_rest c))); auto.
  - exists d. split; [exact Hd|]. split; [|exact Hrd]. subst dd. unfold bd_rq_rest. rewrite Hd. symmetry. apply firstn_skipn.
  - intros ->. apply E0. reflexivity.
Qed.

(* the same step of REQ_BODY_CHUNKED_DATA *)
Theorem bd_rq_chunked_data_step i t c :
  bd_rq_inv i c -> tx_slot c i = Some t -> 0 < c_in_chunked_length c ->
  let n := c_in_chunked_length c in
  let dd := firstn (Z.to_nat n) (bd_rq_rest c) in
  REQ_BODY_CHUNKED_DATA_fn cb c =
    if (length dd =? 0)%nat then (ST_DATA, c)
    else let c' := (bd_rq_deliver i t dd c) <| c_in_chunked_length ::= (fun l => l - Z.of_nat (length dd)) |> in
         if n - Z.of_nat (length dd) =? 0 then (ST_OK, c' <| c_in_state := REQ_BODY_CHUNKED_DATA_END |>) else (ST_DATA, c').
Proof.
  intros Inv Hl Hn n dd. subst n dd. destruct Inv as [Hi (t0 & Hl0 & Hh) Hr Hhd Hst Hdat].
  rewrite Hl in Hl0. inversion Hl0; subst t0.
  unfold REQ_BODY_CHUNKED_DATA_fn. rewrite (bd_rq_bytes_to_consume c _ Hdat Hn).
  set (n := c_in_chunked_length c) in *. set (dd := firstn (Z.to_nat n) (bd_rq_rest c)).
  destruct (length dd =? 0)%nat eqn:E0; [reflexivity|].
  apply Nat.eqb_neq in E0.
  destruct Hdat as (d & Hd & Hlen & Hrd).
  rewrite (bd_rq_consume_body i t c dd (skipn (Z.to_nat n) (bd_rq_rest c))); auto.
  - exists d. split; [exact Hd|]. split; [|exact Hrd]. subst dd. unfold bd_rq_rest. rewrite Hd. symmetry. apply firstn_skipn.
  - intros ->. apply E0. reflexivity.
Qed.

(* ================= iterating the real loop body over the TCP chunks ================= *)
(* the part of htp_connp_req_data before the for(;;): a fresh chunk d *)
Definition bd_req_begin (d : bytes) (c : connp) : connp :=
  let c := rq_set_in (fun k => k <| k_data := Some d |> <| k_len := length d |> <| k_read := O |> <| k_consume := O |>
                                 <| k_receiver := O |>) c in
  let c := c <| c_in_chunk_count ::= S |> <| c_in_data_counter ::= Z.add (Z.of_nat (length d)) |> in
  if c_out_status c =? c_HTP_STREAM_DATA_OTHER then c <| c_out_status := c_HTP_STREAM_DATA |> else c.

(* configurations (parser, TCP chunks still to come): a pass of the loop body that goes round again, or a return with
   HTP_STREAM_DATA followed by the next call of htp_connp_req_data *)
Inductive bd_rq_reach : connp -> list bytes -> connp -> list bytes -> Prop :=
| bd_rr_refl c rem : bd_rq_reach c rem c rem
| bd_rr_iter c c1 rem c' rem' :
    rq_iter cb g false c = inr c1 -> bd_rq_reach c1 rem c' rem' -> bd_rq_reach c rem c' rem'
| bd_rr_next c c1 d rem c' rem' :
    rq_iter cb g false c = inl (c1, c_HTP_STREAM_DATA) -> bd_rq_reach (bd_req_begin d c1) rem c' rem' ->
    bd_rq_reach c (d :: rem) c' rem'.

Lemma bd_rq_reach_trans a ra b rb c rc : bd_rq_reach a ra b rb -> bd_rq_reach b rb c rc -> bd_rq_reach a ra c rc.
Proof. intros H1 H2. induction H1; [exact H2|eapply bd_rr_iter; eauto|eapply bd_rr_next; eauto]. Qed.

(* htp_req_handle_state_change when the new state is not REQ_HEADERS *)
Definition bd_hsc (c : connp) : connp :=
  if match c_in_state_previous c with Some s => req_state_eqb s (c_in_state c) | None => false end then c
  else c <| c_in_state_previous := Some (c_in_state c) |>.
Lemma bd_hsc_spec c : req_state_eqb (c_in_state c) REQ_HEADERS = false -> req_handle_state_change cb c = (ST_OK, bd_hsc c).
Proof.
  intros H. unfold req_handle_state_change, bd_hsc. rewrite H.
  destruct (c_in_state_previous c) as [s|]; [destruct (req_state_eqb s (c_in_state c))|]; reflexivity.
Qed.

Definition bd_body_state (s : req_state) : bool :=
  match s with REQ_BODY_IDENTITY | REQ_BODY_CHUNKED_LENGTH | REQ_BODY_CHUNKED_DATA | REQ_BODY_CHUNKED_DATA_END => true | _ => false end.

Lemma bd_rq_iter_ok c c' :
  rq_state_fn cb g (c_in_state c) c = (ST_OK, c') -> (c_in_status c' =? c_HTP_STREAM_TUNNEL) = false ->
  req_state_eqb (c_in_state c') REQ_HEADERS = false ->
  rq_iter cb g false c = inr (bd_hsc c').
Proof. intros H1 H2 H3. unfold rq_iter. rewrite H1, H2, (bd_hsc_spec _ H3). reflexivity. Qed.
Lemma bd_rq_iter_data c c' :
  rq_state_fn cb g (c_in_state c) c = (ST_DATA, c') -> k_receiver_hook (c_in c') = None ->
  rq_iter cb g false c = inl (c' <| c_in_status := c_HTP_STREAM_DATA |>, c_HTP_STREAM_DATA).
Proof. intros H1 H2. unfold rq_iter. rewrite H1. unfold rq_exit, req_receiver_send_data. rewrite H2. reflexivity. Qed.

Definition bd_rq_clean (c : connp) : Prop := k_consume (c_in c) = k_read (c_in c) /\ k_buf (c_in c) = None.

(* invariants under the bookkeeping steps *)
Lemma bd_inv_hsc i c : bd_rq_inv i c -> bd_rq_inv i (bd_hsc c).
Proof.
  intros [A B C D E F]. unfold bd_hsc.
  destruct (c_in_state_previous c) as [s|]; [destruct (req_state_eqb s (c_in_state c))|]; constructor; assumption.
Qed.
Lemma bd_inv_status i c : bd_rq_inv i c -> bd_rq_inv i (c <| c_in_status := c_HTP_STREAM_DATA |>).
Proof. intros [A B C D E F]. constructor; try assumption. reflexivity. Qed.
Lemma bd_inv_begin i d c : bd_rq_inv i c -> bd_rq_inv i (bd_req_begin d c).
Proof.
  intros [A (t & B1 & B2) C D E F]. unfold bd_req_begin. cbv zeta.
  match goal with |- context [if ?b then _ else _] => destruct b end;
    (constructor; try assumption; [exists t; split; [erewrite bd_slot_ext; [exact B1|reflexivity|reflexivity]|exact B2]|
     exists d; cbn; repeat split; lia]).
Qed.
Lemma bd_begin_rest d c : bd_rq_rest (bd_req_begin d c) = d.
Proof. unfold bd_req_begin. cbv zeta. match goal with |- context [if ?b then _ else _] => destruct b end; reflexivity. Qed.
Lemma bd_begin_clean d c : k_buf (c_in c) = None -> bd_rq_clean (bd_req_begin d c).
Proof. intros H. unfold bd_req_begin. cbv zeta. match goal with |- context [if ?b then _ else _] => destruct b end; split; cbn; auto. Qed.
Lemma bd_begin_misc d c :
  c_events (bd_req_begin d c) = c_events c /\ c_in_state (bd_req_begin d c) = c_in_state c /\
  c_in_body_data_left (bd_req_begin d c) = c_in_body_data_left c /\ c_in_chunked_length (bd_req_begin d c) = c_in_chunked_length c /\
  k_buf (c_in (bd_req_begin d c)) = k_buf (c_in c) /\ (forall i, tx_slot (bd_req_begin d c) i = tx_slot c i).
Proof.
  unfold bd_req_begin. cbv zeta. match goal with |- context [if ?b then _ else _] => destruct b end;
    repeat split; intros; apply bd_slot_ext; reflexivity.
Qed.

Lemma bd_delivered_app h a b : bd_delivered h (a ++ b) = bd_delivered h b ++ bd_delivered h a.
Proof. unfold bd_delivered, bd_evs. rewrite filter_app, rev_app_distr, map_app, concat_app. reflexivity. Qed.
Lemma bd_evs_app h a b : bd_evs h (a ++ b) = bd_evs h a ++ bd_evs h b.
Proof. apply filter_app. Qed.

Lemma bd_app_prefix {B} (a b x y : list B) : a ++ x = b ++ y -> (length a <= length b)%nat -> exists b', b = a ++ b' /\ x = b' ++ y.
Proof.
  revert b. induction a as [|h a IH]; intros b H L; [exists b; split; [reflexivity|exact H]|].
  destruct b as [|h' b]; [cbn in L; lia|]. cbn in H. inversion H; subst h'. destruct (IH b H2) as (b' & E1 & E2); [cbn in L; lia|].
  exists b'. split; [cbn; rewrite E1; reflexivity|exact E2].
Qed.

(* what one segment of the body does: reaches c' / rem', delivering `payload` and adding dmsg to request_message_len *)
Record bd_rq_seg (i : nat) (c : connp) (rem : list bytes) (c' : connp) (rem' : list bytes) (payload : bytes) (dmsg : Z) : Prop := mk_bd_rq_seg {
  sg_reach : bd_rq_reach c rem c' rem';
  sg_inv : bd_rq_inv i c';
  sg_clean : bd_rq_clean c';
  sg_rem : Forall (fun d => d <> []) rem';
  sg_events : exists evs, c_events c' = evs ++ c_events c /\ bd_delivered H_REQUEST_BODY_DATA evs = payload /\
                          bd_evs H_REQUEST_BODY_DATA evs = evs;
  sg_lens : forall t, tx_slot c i = Some t ->
            exists t', tx_slot c' i = Some t' /\
                       t_request_entity_len t' = t_request_entity_len t + Z.of_nat (length payload) /\
                       t_request_message_len t' = t_request_message_len t + dmsg
}.

Lemma bd_rq_seg_trans i c0 r0 c1 r1 c2 r2 p1 m1 p2 m2 :
  bd_rq_inv i c0 ->
  bd_rq_seg i c0 r0 c1 r1 p1 m1 -> bd_rq_seg i c1 r1 c2 r2 p2 m2 -> bd_rq_seg i c0 r0 c2 r2 (p1 ++ p2) (m1 + m2).
Proof.
  intros I0 [A1 B1 C1 D1 (e1 & E1 & F1 & G1) H1] [A2 B2 C2 D2 (e2 & E2 & F2 & G2) H2].
  constructor; auto.
  - eapply bd_rq_reach_trans; eauto.
  - exists (e2 ++ e1). split; [rewrite E2, E1; apply app_assoc|]. split; [rewrite bd_delivered_app, F1, F2; reflexivity|].
    rewrite bd_evs_app, G1, G2. reflexivity.
  - intros t Ht. destruct (H1 _ Ht) as (t1 & T1 & X1 & Y1). destruct (H2 _ T1) as (t2 & T2 & X2 & Y2).
    exists t2. split; [exact T2|]. rewrite X2, X1, Y2, Y1, app_length, Nat2Z.inj_add. split; lia.
Qed.

(* ================= identity body: REQ_BODY_IDENTITY fed any chunking of body ++ rest ================= *)
Lemma bd_rq_identity_seg i : forall rem c body rest,
  bd_rq_inv i c -> bd_rq_clean c -> c_in_state c = REQ_BODY_IDENTITY ->
  c_in_body_data_left c = Z.of_nat (length body) -> body <> [] ->
  Forall (fun d => d <> []) rem ->
  bd_rq_rest c ++ concat rem = body ++ rest ->
  exists c' rem',
    bd_rq_seg i c rem c' rem' body (Z.of_nat (length body)) /\
    c_in_state c' = REQ_FINALIZE /\ c_in_body_data_left c' = 0 /\
    bd_rq_rest c' ++ concat rem' = rest /\
    c_in_chunked_length c' = c_in_chunked_length c.
Proof.
  induction rem as [|d' rem IH]; intros c body rest Inv Cl Hs Hleft Hne Hrem Hw.
  all: assert (Hpos : 0 < c_in_body_data_left c) by (rewrite Hleft; destruct body; [congruence|cbn; lia]).
  all: destruct (bq_live _ _ Inv) as (t & Hl & Hh).
  all: pose proof (bd_rq_identity_step i t c Inv Hl Hpos) as Hstep; cbv zeta in Hstep; rewrite Hleft, Nat2Z.id in Hstep.
  all: set (dd := firstn (length body) (bd_rq_rest c)) in *.
  all: assert (Hfn : rq_state_fn cb g (c_in_state c) c = REQ_BODY_IDENTITY_fn cb c) by (rewrite Hs; reflexivity).
  - (* last TCP chunk: the body must end inside it *)
    cbn [concat] in Hw. rewrite app_nil_r in Hw.
    assert (Hdd : dd = body) by (subst dd; rewrite Hw, firstn_app, Nat.sub_diag, firstn_all; cbn; apply app_nil_r).
    rewrite Hdd in Hstep.
    destruct (length body =? 0)%nat eqn:E0; [apply Nat.eqb_eq in E0; destruct body; [congruence|discriminate]|].
    rewrite Z.sub_diag in Hstep. cbn [Z.eqb] in Hstep.
    destruct (bd_rq_deliver_inv i t body rest c Inv Hl Hw) as (Inv1 & Rest1).
    eexists. exists []. split; [|split; [|split; [|split]]].
    + constructor.
      * eapply bd_rr_iter; [|apply bd_rr_refl]. apply bd_rq_iter_ok; [rewrite Hfn; exact Hstep| |reflexivity].
        cbn. apply (bq_status _ _ Inv).
      * apply bd_inv_hsc. destruct Inv1 as [A B C D E F]. constructor; assumption.
      * destruct Cl as [Cl1 Cl2]. unfold bd_hsc. cbn [c_in_state c_in_state_previous set].
        match goal with |- bd_rq_clean (if ?b then _ else _) => destruct b end; split; cbn; try lia; exact Cl2.
      * constructor.
      * exists [mkev H_REQUEST_BODY_DATA i (Some body) false None]. unfold bd_hsc. cbn [c_in_state c_in_state_previous set].
        match goal with |- context [if ?b then _ else _] => destruct b end;
          (split; [reflexivity|split; [cbn; apply app_nil_r|reflexivity]]).
      * intros t0 Ht0. rewrite Hl in Ht0. inversion Ht0; subst t0.
        eexists. split.
        { unfold bd_hsc. cbn [c_in_state c_in_state_previous set].
          match goal with |- context [if ?b then _ else _] => destruct b end;
            (erewrite bd_slot_ext; [apply (bd_rq_deliver_slot i t body c Hl)|reflexivity|reflexivity]). }
        cbn. split; lia.
    + unfold bd_hsc. cbn [c_in_state c_in_state_previous set]. match goal with |- context [if ?b then _ else _] => destruct b end; reflexivity.
    + unfold bd_hsc. cbn [c_in_state c_in_state_previous set]. match goal with |- context [if ?b then _ else _] => destruct b end; cbn; rewrite Hleft; lia.
    + cbn [concat]. rewrite app_nil_r. rewrite <- Rest1. unfold bd_hsc. cbn [c_in_state c_in_state_previous set].
      match goal with |- context [if ?b then _ else _] => destruct b end; reflexivity.
    + unfold bd_hsc. cbn [c_in_state c_in_state_previous set]. match goal with |- context [if ?b then _ else _] => destruct b end; reflexivity.
  - inversion Hrem as [|? ? Hd' Hrem']; subst.
    destruct (Nat.le_gt_cases (length body) (length (bd_rq_rest c))) as [Hle|Hgt].
    + (* the body ends inside the current chunk *)
      assert (Hdd : dd = body).
      { subst dd. assert (firstn (length body) (bd_rq_rest c ++ concat (d' :: rem)) = firstn (length body) (body ++ rest)) by (rewrite Hw; reflexivity).
        rewrite firstn_app in H. replace (length body - length (bd_rq_rest c))%nat with 0%nat in H by lia. cbn [firstn] in H. rewrite app_nil_r in H.
        rewrite H, firstn_app, Nat.sub_diag, firstn_all. cbn. apply app_nil_r. }
      assert (Hsplit : bd_rq_rest c = body ++ skipn (length body) (bd_rq_rest c)).
      { rewrite <- Hdd at 1. subst dd. symmetry. apply firstn_skipn. }
      rewrite Hdd in Hstep.
      destruct (length body =? 0)%nat eqn:E0; [apply Nat.eqb_eq in E0; destruct body; [congruence|discriminate]|].
      rewrite Z.sub_diag in Hstep. cbn [Z.eqb] in Hstep.
      destruct (bd_rq_deliver_inv i t body _ c Inv Hl Hsplit) as (Inv1 & Rest1).
      eexists. exists (d' :: rem). split; [|split; [|split; [|split]]].
      * constructor.
        { eapply bd_rr_iter; [|apply bd_rr_refl]. apply bd_rq_iter_ok; [rewrite Hfn; exact Hstep| |reflexivity].
          cbn. apply (bq_status _ _ Inv). }
        { apply bd_inv_hsc. destruct Inv1 as [A B C D E F]. constructor; assumption. }
        { destruct Cl as [Cl1 Cl2]. unfold bd_hsc. cbn [c_in_state c_in_state_previous set].
          match goal with |- bd_rq_clean (if ?b then _ else _) => destruct b end; split; cbn; try lia; exact Cl2. }
        { exact Hrem. }
        { exists [mkev H_REQUEST_BODY_DATA i (Some body) false None]. unfold bd_hsc. cbn [c_in_state c_in_state_previous set].
          match goal with |- context [if ?b then _ else _] => destruct b end;
            (split; [reflexivity|split; [cbn; apply app_nil_r|reflexivity]]). }
        { intros t0 Ht0. rewrite Hl in Ht0. inversion Ht0; subst t0.
          eexists. split.
          { unfold bd_hsc. cbn [c_in_state c_in_state_previous set].
            match goal with |- context [if ?b then _ else _] => destruct b end;
              (erewrite bd_slot_ext; [apply (bd_rq_deliver_slot i t body c Hl)|reflexivity|reflexivity]). }
          cbn. split; lia. }
      * unfold bd_hsc. cbn [c_in_state c_in_state_previous set]. match goal with |- context [if ?b then _ else _] => destruct b end; reflexivity.
      * unfold bd_hsc. cbn [c_in_state c_in_state_previous set]. match goal with |- context [if ?b then _ else _] => destruct b end; cbn; rewrite Hleft; lia.
      * assert (Hr : skipn (length body) (bd_rq_rest c) ++ concat (d' :: rem) = rest).
        { rewrite Hsplit in Hw at 1. rewrite <- app_assoc in Hw. apply app_inv_head in Hw. exact Hw. }
        rewrite <- Hr. f_equal. rewrite <- Rest1. unfold bd_hsc. cbn [c_in_state c_in_state_previous set].
        match goal with |- context [if ?b then _ else _] => destruct b end; reflexivity.
      * unfold bd_hsc. cbn [c_in_state c_in_state_previous set]. match goal with |- context [if ?b then _ else _] => destruct b end; reflexivity.
    + (* the whole rest of the chunk belongs to the body; more follows in the next call *)
      assert (Hdd : dd = bd_rq_rest c) by (subst dd; apply firstn_all2; lia).
      destruct (bd_app_prefix (bd_rq_rest c) body (concat (d' :: rem)) rest Hw) as (body' & Hb & Hw'); [lia|].
      assert (Hb'ne : body' <> []) by (intros ->; rewrite app_nil_r in Hb; rewrite Hb in Hgt; lia).
      rewrite Hdd in Hstep.
      destruct (length (bd_rq_rest c) =? 0)%nat eqn:E0.
      * (* nothing left in this chunk *)
        apply Nat.eqb_eq in E0. assert (Hnil : bd_rq_rest c = []) by (destruct (bd_rq_rest c); [reflexivity|discriminate]).
        set (c1 := bd_req_begin d' (c <| c_in_status := c_HTP_STREAM_DATA |>)).
        destruct (bd_begin_misc d' (c <| c_in_status := c_HTP_STREAM_DATA |>)) as (Ev & St & L1 & L2 & Bf & Sl).
        destruct (IH c1 body rest) as (c' & rem' & Seg & S' & F' & W' & O'); auto.
        { apply bd_inv_begin. apply bd_inv_status. exact Inv. }
        { apply bd_begin_clean. apply Cl. }
        { unfold c1. rewrite St. exact Hs. }
        { unfold c1. rewrite L1. exact Hleft. }
        { unfold c1. rewrite bd_begin_rest. rewrite Hnil in Hw. exact Hw. }
        exists c', rem'. split; [|split; [exact S'|split; [exact F'|split; [exact W'|]]]].
        { destruct Seg as [A B C D (evs & E1 & E2 & E3) H]. constructor; auto.
          - eapply bd_rr_next; [|exact A]. apply bd_rq_iter_data; [rewrite Hfn; exact Hstep|apply (bq_rcv _ _ Inv)].
          - exists evs. split; [rewrite E1; unfold c1; rewrite Ev; reflexivity|split; assumption].
          - intros t0 Ht0. apply H. unfold c1. rewrite Sl. erewrite bd_slot_ext; [exact Ht0|reflexivity|reflexivity]. }
        { rewrite O'. unfold c1. rewrite L2. reflexivity. }
      * (* deliver the rest of the chunk, then the next call *)
        apply Nat.eqb_neq in E0.
        assert (Hlt : Z.of_nat (length body) - Z.of_nat (length (bd_rq_rest c)) =? 0 = false) by (apply Z.eqb_neq; lia).
        rewrite Hlt in Hstep.
        assert (Hsplit : bd_rq_rest c = bd_rq_rest c ++ []) by (symmetry; apply app_nil_r).
        destruct (bd_rq_deliver_inv i t (bd_rq_rest c) [] c Inv Hl Hsplit) as (Inv1 & Rest1).
        set (cd := (bd_rq_deliver i t (bd_rq_rest c) c) <| c_in_body_data_left ::= (fun l => l - Z.of_nat (length (bd_rq_rest c))) |>) in *.
        assert (Invd : bd_rq_inv i cd) by (destruct Inv1 as [A B C D E F]; constructor; assumption).
        set (c1 := bd_req_begin d' (cd <| c_in_status := c_HTP_STREAM_DATA |>)).
        destruct (bd_begin_misc d' (cd <| c_in_status := c_HTP_STREAM_DATA |>)) as (Ev & St & L1 & L2 & Bf & Sl).
        destruct (IH c1 body' rest) as (c' & rem' & Seg & S' & F' & W' & O'); auto.
        { apply bd_inv_begin. apply bd_inv_status. exact Invd. }
        { apply bd_begin_clean. apply Cl. }
        { unfold c1. rewrite St. exact Hs. }
        { unfold c1. rewrite L1. cbn. rewrite Hleft. rewrite Hb at 1. rewrite app_length. lia. }
        { unfold c1. rewrite bd_begin_rest. exact Hw'. }
        exists c', rem'. split; [|split; [exact S'|split; [exact F'|split; [exact W'|]]]].
        { destruct Seg as [A B C D (evs & E1 & E2 & E3) H].
          assert (Hsl : tx_slot c1 i = Some (t <| t_request_entity_len ::= Z.add (Z.of_nat (length (bd_rq_rest c))) |>
                                               <| t_request_message_len ::= Z.add (Z.of_nat (length (bd_rq_rest c))) |>)).
          { unfold c1. rewrite Sl. erewrite bd_slot_ext; [apply (bd_rq_deliver_slot i t (bd_rq_rest c) c Hl)|reflexivity|reflexivity]. }
          constructor; auto.
          - eapply bd_rr_next; [|exact A]. apply bd_rq_iter_data; [rewrite Hfn; exact Hstep|apply (bq_rcv _ _ Invd)].
          - exists (evs ++ [mkev H_REQUEST_BODY_DATA i (Some (bd_rq_rest c)) false None]).
            split; [rewrite E1; unfold c1; rewrite Ev; cbn; rewrite <- app_assoc; reflexivity|].
            split; [rewrite bd_delivered_app, E2; cbn; rewrite app_nil_r; symmetry; exact Hb|].
            rewrite bd_evs_app, E3. reflexivity.
          - intros t0 Ht0. rewrite Hl in Ht0. inversion Ht0; subst t0.
            destruct (H _ Hsl) as (t' & T1 & T2 & T3). exists t'. split; [exact T1|]. rewrite T2, T3. cbn.
            assert (HL : length body = (length (bd_rq_rest c) + length body')%nat) by (rewrite Hb at 1; apply app_length).
            rewrite HL, Nat2Z.inj_add. split; lia. }
        { rewrite O'. unfold c1. rewrite L2. reflexivity. }
Qed.

(* ================= chunk data: REQ_BODY_CHUNKED_DATA fed any chunking of body ++ rest ================= *)
Lemma bd_rq_chunkdata_seg i : forall rem c body rest,
  bd_rq_inv i c -> bd_rq_clean c -> c_in_state c = REQ_BODY_CHUNKED_DATA ->
  c_in_chunked_length c = Z.of_nat (length body) -> body <> [] ->
  Forall (fun d => d <> []) rem ->
  bd_rq_rest c ++ concat rem = body ++ rest ->
  exists c' rem',
    bd_rq_seg i c rem c' rem' body (Z.of_nat (length body)) /\
    c_in_state c' = REQ_BODY_CHUNKED_DATA_END /\ c_in_chunked_length c' = 0 /\
    bd_rq_rest c' ++ concat rem' = rest /\
    c_in_body_data_left c' = c_in_body_data_left c.
Proof.
  induction rem as [|d' rem IH]; intros c body rest Inv Cl Hs Hleft Hne Hrem Hw.
  all: assert (Hpos : 0 < c_in_chunked_length c) by (rewrite Hleft; destruct body; [congruence|cbn; lia]).
  all: destruct (bq_live _ _ Inv) as (t & Hl & Hh).
  all: pose proof (bd_rq_chunked_data_step i t c Inv Hl Hpos) as Hstep; cbv zeta in Hstep; rewrite Hleft, Nat2Z.id in Hstep.
  all: set (dd := firstn (length body) (bd_rq_rest c)) in *.
  all: assert (Hfn : rq_state_fn cb g (c_in_state c) c = REQ_BODY_CHUNKED_DATA_fn cb c) by (rewrite Hs; reflexivity).
  - (* last TCP chunk: the body must end inside it *)
    cbn [concat] in Hw. rewrite app_nil_r in Hw.
    assert (Hdd : dd = body) by (subst dd; rewrite Hw, firstn_app, Nat.sub_diag, firstn_all; cbn; apply app_nil_r).
    rewrite Hdd in Hstep.
    destruct (length body =? 0)%nat eqn:E0; [apply Nat.eqb_eq in E0; destruct body; [congruence|discriminate]|].
    rewrite Z.sub_diag in Hstep. cbn [Z.eqb] in Hstep.
    destruct (bd_rq_deliver_inv i t body rest c Inv Hl Hw) as (Inv1 & Rest1).
    eexists. exists []. split; [|split; [|split; [|split]]].
    + constructor.
      * eapply bd_rr_iter; [|apply bd_rr_refl]. apply bd_rq_iter_ok; [rewrite Hfn; exact Hstep| |reflexivity].
        cbn. apply (bq_status _ _ Inv).
      * apply bd_inv_hsc. destruct Inv1 as [A B C D E F]. constructor; assumption.
      * destruct Cl as [Cl1 Cl2]. unfold bd_hsc. cbn [c_in_state c_in_state_previous set].
        match goal with |- bd_rq_clean (if ?b then _ else _) => destruct b end; split; cbn; try lia; exact Cl2.
      * constructor.
      * exists [mkev H_REQUEST_BODY_DATA i (Some body) false None]. unfold bd_hsc. cbn [c_in_state c_in_state_previous set].
        match goal with |- context [if ?b then _ else _] => destruct b end;
          (split; [reflexivity|split; [cbn; apply app_nil_r|reflexivity]]).
      * intros t0 Ht0. rewrite Hl in Ht0. inversion Ht0; subst t0.
        eexists. split.
        { unfold bd_hsc. cbn [c_in_state c_in_state_previous set].
          match goal with |- context [if ?b then _ else _] => destruct b end;
            (erewrite bd_slot_ext; [apply (bd_rq_deliver_slot i t body c Hl)|reflexivity|reflexivity]). }
        cbn. split; lia.
    + unfold bd_hsc. cbn [c_in_state c_in_state_previous set]. match goal with |- context [if ?b then _ else _] => destruct b end; reflexivity.
    + unfold bd_hsc. cbn [c_in_state c_in_state_previous set]. match goal with |- context [if ?b then _ else _] => destruct b end; cbn; rewrite Hleft; lia.
    + cbn [concat]. rewrite app_nil_r. rewrite <- Rest1. unfold bd_hsc. cbn [c_in_state c_in_state_previous set].
      match goal with |- context [if ?b then _ else _] => destruct b end; reflexivity.
    + unfold bd_hsc. cbn [c_in_state c_in_state_previous set]. match goal with |- context [if ?b then _ else _] => destruct b end; reflexivity.
  - inversion Hrem as [|? ? Hd' Hrem']; subst.
    destruct (Nat.le_gt_cases (length body) (length (bd_rq_rest c))) as [Hle|Hgt].
    + (* the body ends inside the current chunk *)
      assert (Hdd : dd = body).
      { subst dd. assert (firstn (length body) (bd_rq_rest c ++ concat (d' :: rem)) = firstn (length body) (body ++ rest)) by (rewrite Hw; reflexivity).
        rewrite firstn_app in H. replace (length body - length (bd_rq_rest c))%nat with 0%nat in H by lia. cbn [firstn] in H. rewrite app_nil_r in H.
        rewrite H, firstn_app, Nat.sub_diag, firstn_all. cbn. apply app_nil_r. }
      assert (Hsplit : bd_rq_rest c = body ++ skipn (length body) (bd_rq_rest c)).
      { rewrite <- Hdd at 1. subst dd. symmetry. apply firstn_skipn. }
      rewrite Hdd in Hstep.
      destruct (length body =? 0)%nat eqn:E0; [apply Nat.eqb_eq in E0; destruct body; [congruence|discriminate]|].
      rewrite Z.sub_diag in Hstep. cbn [Z.eqb] in Hstep.
      destruct (bd_rq_deliver_inv i t body _ c Inv Hl Hsplit) as (Inv1 & Rest1).
      eexists. exists (d' :: rem). split; [|split; [|split; [|split]]].
      * constructor.
        { eapply bd_rr_iter; [|apply bd_rr_refl]. apply bd_rq_iter_ok; [rewrite Hfn; exact Hstep| |reflexivity].
          cbn. apply (bq_status _ _ Inv). }
        { apply bd_inv_hsc. destruct Inv1 as [A B C D E F]. constructor; assumption. }
        { destruct Cl as [Cl1 Cl2]. unfold bd_hsc. cbn [c_in_state c_in_state_previous set].
          match goal with |- bd_rq_clean (if ?b then _ else _) => destruct b end; split; cbn; try lia; exact Cl2. }
        { exact Hrem. }
        { exists [mkev H_REQUEST_BODY_DATA i (Some body) false None]. unfold bd_hsc. cbn [c_in_state c_in_state_previous set].
          match goal with |- context [if ?b then _ else _] => destruct b end;
            (split; [reflexivity|split; [cbn; apply app_nil_r|reflexivity]]). }
        { intros t0 Ht0. rewrite Hl in Ht0. inversion Ht0; subst t0.
          eexists. split.
          { unfold bd_hsc. cbn [c_in_state c_in_state_previous set].
            match goal with |- context [if ?b then _ else _] => destruct b end;
              (erewrite bd_slot_ext; [apply (bd_rq_deliver_slot i t body c Hl)|reflexivity|reflexivity]). }
          cbn. split; lia. }
      * unfold bd_hsc. cbn [c_in_state c_in_state_previous set]. match goal with |- context [if ?b then _ else _] => destruct b end; reflexivity.
      * unfold bd_hsc. cbn [c_in_state c_in_state_previous set]. match goal with |- context [if ?b then _ else _] => destruct b end; cbn; rewrite Hleft; lia.
      * assert (Hr : skipn (length body) (bd_rq_rest c) ++ concat (d' :: rem) = rest).
        { rewrite Hsplit in Hw at 1. rewrite <- app_assoc in Hw. apply app_inv_head in Hw. exact Hw. }
        rewrite <- Hr. f_equal. rewrite <- Rest1. unfold bd_hsc. cbn [c_in_state c_in_state_previous set].
        match goal with |- context [if ?b then _ else _] => destruct b end; reflexivity.
      * unfold bd_hsc. cbn [c_in_state c_in_state_previous set]. match goal with |- context [if ?b then _ else _] => destruct b end; reflexivity.
    + (* the whole rest of the chunk belongs to the body; more follows in the next call *)
      assert (Hdd : dd = bd_rq_rest c) by (subst dd; apply firstn_all2; lia).
      destruct (bd_app_prefix (bd_rq_rest c) body (concat (d' :: rem)) rest Hw) as (body' & Hb & Hw'); [lia|].
      assert (Hb'ne : body' <> []) by (intros ->; rewrite app_nil_r in Hb; rewrite Hb in Hgt; lia).
      rewrite Hdd in Hstep.
      destruct (length (bd_rq_rest c) =? 0)%nat eqn:E0.
      * (* nothing left in this chunk *)
        apply Nat.eqb_eq in E0. assert (Hnil : bd_rq_rest c = []) by (destruct (bd_rq_rest c); [reflexivity|discriminate]).
        set (c1 := bd_req_begin d' (c <| c_in_status := c_HTP_STREAM_DATA |>)).
        destruct (bd_begin_misc d' (c <| c_in_status := c_HTP_STREAM_DATA |>)) as (Ev & St & L1 & L2 & Bf & Sl).
        destruct (IH c1 body rest) as (c' & rem' & Seg & S' & F' & W' & O'); auto.
        { apply bd_inv_begin. apply bd_inv_status. exact Inv. }
        { apply bd_begin_clean. apply Cl. }
        { unfold c1. rewrite St. exact Hs. }
        { unfold c1. rewrite L2. exact Hleft. }
        { unfold c1. rewrite bd_begin_rest. rewrite Hnil in Hw. exact Hw. }
        exists c', rem'. split; [|split; [exact S'|split; [exact F'|split; [exact W'|]]]].
        { destruct Seg as [A B C D (evs & E1 & E2 & E3) H]. constructor; auto.
          - eapply bd_rr_next; [|exact A]. apply bd_rq_iter_data; [rewrite Hfn; exact Hstep|apply (bq_rcv _ _ Inv)].
          - exists evs. split; [rewrite E1; unfold c1; rewrite Ev; reflexivity|split; assumption].
          - intros t0 Ht0. apply H. unfold c1. rewrite Sl. erewrite bd_slot_ext; [exact Ht0|reflexivity|reflexivity]. }
        { rewrite O'. unfold c1. rewrite L1. reflexivity. }
      * (* deliver the rest of the chunk, then the next call *)
        apply Nat.eqb_neq in E0.
        assert (Hlt : Z.of_nat (length body) - Z.of_nat (length (bd_rq_rest c)) =? 0 = false) by (apply Z.eqb_neq; lia).
        rewrite Hlt in Hstep.
        assert (Hsplit : bd_rq_rest c = bd_rq_rest c ++ []) by (symmetry; apply app_nil_r).
        destruct (bd_rq_deliver_inv i t (bd_rq_rest c) [] c Inv Hl Hsplit) as (Inv1 & Rest1).
        set (cd := (bd_rq_deliver i t (bd_rq_rest c) c) <| c_in_chunked_length ::= (fun l => l - Z.of_nat (length (bd_rq_rest c))) |>) in *.
        assert (Invd : bd_rq_inv i cd) by (destruct Inv1 as [A B C D E F]; constructor; assumption).
        set (c1 := bd_req_begin d' (cd <| c_in_status := c_HTP_STREAM_DATA |>)).
        destruct (bd_begin_misc d' (cd <| c_in_status := c_HTP_STREAM_DATA |>)) as (Ev & St & L1 & L2 & Bf & Sl).
        destruct (IH c1 body' rest) as (c' & rem' & Seg & S' & F' & W' & O'); auto.
        { apply bd_inv_begin. apply bd_inv_status. exact Invd. }
        { apply bd_begin_clean. apply Cl. }
        { unfold c1. rewrite St. exact Hs. }
        { unfold c1. rewrite L2. cbn. rewrite Hleft. rewrite Hb at 1. rewrite app_length. lia. }
        { unfold c1. rewrite bd_begin_rest. exact Hw'. }
        exists c', rem'. split; [|split; [exact S'|split; [exact F'|split; [exact W'|]]]].
        { destruct Seg as [A B C D (evs & E1 & E2 & E3) H].
          assert (Hsl : tx_slot c1 i = Some (t <| t_request_entity_len ::= Z.add (Z.of_nat (length (bd_rq_rest c))) |>
                                               <| t_request_message_len ::= Z.add (Z.of_nat (length (bd_rq_rest c))) |>)).
          { unfold c1. rewrite Sl. erewrite bd_slot_ext; [apply (bd_rq_deliver_slot i t (bd_rq_rest c) c Hl)|reflexivity|reflexivity]. }
          constructor; auto.
          - eapply bd_rr_next; [|exact A]. apply bd_rq_iter_data; [rewrite Hfn; exact Hstep|apply (bq_rcv _ _ Invd)].
          - exists (evs ++ [mkev H_REQUEST_BODY_DATA i (Some (bd_rq_rest c)) false None]).
            split; [rewrite E1; unfold c1; rewrite Ev; cbn; rewrite <- app_assoc; reflexivity|].
            split; [rewrite bd_delivered_app, E2; cbn; rewrite app_nil_r; symmetry; exact Hb|].
            rewrite bd_evs_app, E3. reflexivity.
          - intros t0 Ht0. rewrite Hl in Ht0. inversion Ht0; subst t0.
            destruct (H _ Hsl) as (t' & T1 & T2 & T3). exists t'. split; [exact T1|]. rewrite T2, T3. cbn.
            assert (HL : length body = (length (bd_rq_rest c) + length body')%nat) by (rewrite Hb at 1; apply app_length).
            rewrite HL, Nat2Z.inj_add. split; lia. }
        { rewrite O'. unfold c1. rewrite L1. reflexivity. }
Qed.

(* ================= byte loops: closed forms ================= *)
Definition bd_olist (o : option bytes) : bytes := match o with Some b => b | None => [] end.
(* k bytes copied (IN_COPY_BYTE): read offset advanced, in_next_byte = the last one *)
Definition bd_rq_copied (k : nat) (nb : option N) (c : connp) : connp :=
  rq_set_in (fun cur => cur <| k_next_byte := nb |> <| k_read := (k_read cur + k)%nat |>) c.
(* k bytes taken (IN_NEXT_BYTE): read and consume offsets advanced *)
Definition bd_rq_taken (k : nat) (nb : option N) (c : connp) : connp :=
  rq_set_in (fun cur => cur <| k_next_byte := nb |> <| k_read := (k_read cur + k)%nat |> <| k_consume := (k_consume cur + k)%nat |>) c.

Lemma bd_cursor_eta (a b : cursor) :
  k_data a = k_data b -> k_len a = k_len b -> k_read a = k_read b -> k_consume a = k_consume b -> k_receiver a = k_receiver b ->
  k_next_byte a = k_next_byte b -> k_buf a = k_buf b -> k_header a = k_header b -> k_receiver_hook a = k_receiver_hook b -> a = b.
Proof. destruct a, b; cbn; intros; subst; reflexivity. Qed.

Lemma bd_set_in_set_in f h c : rq_set_in f (rq_set_in h c) = rq_set_in (fun k => f (h k)) c.
Proof. destruct c; reflexivity. Qed.
Lemma bd_set_in_ext f h c : f (c_in c) = h (c_in c) -> rq_set_in f c = rq_set_in h c.
Proof. intros H. destruct c; unfold rq_set_in, set; cbn in *. rewrite H. reflexivity. Qed.
Lemma bd_rq_copied_copied k nb b c : bd_rq_copied 1 (Some b) (bd_rq_copied k nb c) = bd_rq_copied (S k) (Some b) c.
Proof.
  unfold bd_rq_copied. rewrite bd_set_in_set_in. apply bd_set_in_ext. apply bd_cursor_eta; cbn; try reflexivity. lia.
Qed.
Lemma bd_rq_taken_taken k nb b c : bd_rq_taken 1 (Some b) (bd_rq_taken k nb c) = bd_rq_taken (S k) (Some b) c.
Proof.
  unfold bd_rq_taken. rewrite bd_set_in_set_in. apply bd_set_in_ext. apply bd_cursor_eta; cbn; try reflexivity; lia.
Qed.

Lemma bd_rest_cons c b tl : bd_rq_rest c = b :: tl ->
  (exists d, k_data (c_in c) = Some d /\ k_len (c_in c) = length d) ->
  rq_at_end c = false /\ rq_read_byte c = (c, b).
Proof.
  intros H (d & Hd & Hl). unfold bd_rq_rest in H. rewrite Hd in H. unfold rq_at_end, rq_read_byte. rewrite Hd, Hl.
  assert (L : (k_read (c_in c) < length d)%nat).
  { destruct (Nat.lt_ge_cases (k_read (c_in c)) (length d)); [assumption|]. rewrite skipn_all2 in H by lia. discriminate. }
  split; [apply Nat.leb_gt; exact L|].
  assert (nth_error d (k_read (c_in c)) = Some b).
  { rewrite <- (firstn_skipn (k_read (c_in c)) d) at 1. rewrite nth_error_app2; rewrite firstn_length; [|lia].
    replace (k_read (c_in c) - Nat.min (k_read (c_in c)) (length d))%nat with 0%nat by lia. rewrite H. reflexivity. }
  rewrite H0. reflexivity.
Qed.
Lemma bd_rest_nil c : bd_rq_rest c = [] ->
  (exists d, k_data (c_in c) = Some d /\ k_len (c_in c) = length d /\ (k_read (c_in c) <= length d)%nat) -> rq_at_end c = true.
Proof.
  intros H (d & Hd & Hl & Hr). unfold bd_rq_rest in H. rewrite Hd in H. unfold rq_at_end. rewrite Hl. apply Nat.leb_le.
  assert (length (skipn (k_read (c_in c)) d) = 0%nat) by (rewrite H; reflexivity). rewrite skipn_length in H0. lia.
Qed.
Lemma bd_rq_copy_byte c b tl : bd_rq_rest c = b :: tl ->
  (exists d, k_data (c_in c) = Some d /\ k_len (c_in c) = length d) ->
  rq_copy_byte c = Some (bd_rq_copied 1 (Some b) c).
Proof.
  intros H Hd. destruct (bd_rest_cons c b tl H Hd) as (A & B). unfold rq_copy_byte. rewrite A, B.
  unfold bd_rq_copied. f_equal. apply bd_set_in_ext. apply bd_cursor_eta; cbn; try reflexivity. lia.
Qed.
Lemma bd_rq_next_byte c b tl : bd_rq_rest c = b :: tl ->
  (exists d, k_data (c_in c) = Some d /\ k_len (c_in c) = length d) ->
  rq_next_byte c = Some (bd_rq_taken 1 (Some b) c).
Proof.
  intros H Hd. destruct (bd_rest_cons c b tl H Hd) as (A & B). unfold rq_next_byte. rewrite A, B.
  unfold bd_rq_taken. f_equal. apply bd_set_in_ext. apply bd_cursor_eta; cbn; try reflexivity; lia.
Qed.
Lemma bd_rq_rest_copied k nb c tl pre :
  bd_rq_rest c = pre ++ tl -> length pre = k -> bd_rq_rest (bd_rq_copied k nb c) = tl.
Proof.
  intros H L. unfold bd_rq_rest in *. cbn. destruct (k_data (c_in c)) as [d|].
  - rewrite <- bd_skipn_skipn, H, skipn_app, <- L, Nat.sub_diag, skipn_all. reflexivity.
  - destruct pre; [cbn in *; subst; reflexivity|discriminate].
Qed.
Lemma bd_rq_rest_taken k nb c tl pre :
  bd_rq_rest c = pre ++ tl -> length pre = k -> bd_rq_rest (bd_rq_taken k nb c) = tl.
Proof. apply bd_rq_rest_copied. Qed.
Lemma bd_data_copied k nb c x : k_data (c_in c) = x -> k_data (c_in (bd_rq_copied k nb c)) = x. Proof. auto. Qed.

(* the continuation of REQ_BODY_CHUNKED_LENGTH once the LF has been copied *)
Definition bd_rq_line_done (c : connp) : st * connp :=
  match req_consolidate_data g c with
  | (ST_OK, c, data) =>
    let c := rq_tx_upd (fun t => t <| t_request_message_len ::= Z.add (Z.of_nat (length data)) |>) c in
    let '(v, _) := parse_chunked_length (htp_chomp data) in
    let c := req_clear_buffer (c <| c_in_chunked_length := v |>) in
    if 0 <? v then (ST_OK, c <| c_in_state := REQ_BODY_CHUNKED_DATA |>)
    else if v =? 0 then
      (ST_OK, rq_tx_upd (fun t => t <| t_request_progress := c_HTP_REQUEST_TRAILER |>) (c <| c_in_state := REQ_HEADERS |>))
    else (ST_ERROR, c)
  | (_, c, _) => (ST_ERROR, c)
  end.

Lemma bd_rq_length_loop : forall pre c n tl,
  (exists d, k_data (c_in c) = Some d /\ k_len (c_in c) = length d /\ (k_read (c_in c) <= length d)%nat) ->
  bd_rq_rest c = pre ++ tl -> bd_no_lf pre = true -> (length (bd_rq_rest c) <= n)%nat ->
  REQ_BODY_CHUNKED_LENGTH_loop g n c =
    match tl with
    | [] => (ST_DATA_BUFFER, match pre with [] => c | _ => bd_rq_copied (length pre) (Some (last pre 0%N)) c end)
    | b :: _ => if (b =? LF)%N then bd_rq_line_done (bd_rq_copied (S (length pre)) (Some b) c)
                else REQ_BODY_CHUNKED_LENGTH_loop g n c
    end.
Proof.
  induction pre as [|a pre IH]; intros c n tl Hd Hr Hnl Hn.
  - cbn [app] in Hr. destruct tl as [|b tl].
    + destruct n; cbn [REQ_BODY_CHUNKED_LENGTH_loop]; unfold rq_copy_byte; rewrite (bd_rest_nil c Hr Hd); reflexivity.
    + destruct (b =? LF)%N eqn:Eb; [|reflexivity].
      assert (Hd' : exists d, k_data (c_in c) = Some d /\ k_len (c_in c) = length d) by (destruct Hd as (d & A & B & _); eauto).
      destruct n; cbn [REQ_BODY_CHUNKED_LENGTH_loop]; rewrite (bd_rq_copy_byte c b tl Hr Hd');
        unfold rq_next_is; cbn [bd_rq_copied rq_set_in c_in set k_next_byte]; cbn; rewrite Eb; reflexivity.
  - cbn [app] in Hr. cbn [bd_no_lf forallb] in Hnl. apply andb_true_iff in Hnl. destruct Hnl as (Ha & Hnl).
    assert (Hd' : exists d, k_data (c_in c) = Some d /\ k_len (c_in c) = length d) by (destruct Hd as (d & A & B & _); eauto).
    rewrite Hr in Hn. cbn [length] in Hn. destruct n as [|n]; [lia|].
    cbn [REQ_BODY_CHUNKED_LENGTH_loop]. rewrite (bd_rq_copy_byte c a _ Hr Hd').
    assert (Hna : rq_next_is (bd_rq_copied 1 (Some a) c) LF = false).
    { unfold rq_next_is. cbn. apply negb_true_iff in Ha. exact Ha. }
    rewrite Hna.
    assert (Hr1 : bd_rq_rest (bd_rq_copied 1 (Some a) c) = pre ++ tl) by (apply (bd_rq_rest_copied 1 _ c _ [a]); [exact Hr|reflexivity]).
    assert (Hd1 : exists d, k_data (c_in (bd_rq_copied 1 (Some a) c)) = Some d /\ k_len (c_in (bd_rq_copied 1 (Some a) c)) = length d /\
                            (k_read (c_in (bd_rq_copied 1 (Some a) c)) <= length d)%nat).
    { destruct Hd as (d & A & B & C). exists d. cbn. repeat split; auto.
      unfold bd_rq_rest in Hr. rewrite A in Hr.
      assert (length (skipn (k_read (c_in c)) d) = length (a :: pre ++ tl)) by (rewrite Hr; reflexivity).
      rewrite skipn_length in H. cbn in H. lia. }
    rewrite (IH _ n tl Hd1 Hr1 Hnl); [|rewrite Hr1; lia].
    destruct tl as [|b tl'].
    + f_equal. destruct pre as [|p pre'].
      * reflexivity.
      * rewrite bd_rq_copied_copied. cbn [length]. f_equal. 
    + destruct (b =? LF)%N eqn:Eb.
      * rewrite bd_rq_copied_copied. reflexivity.
      * (* unreachable shape: kept as the loop itself *)
        cbn [REQ_BODY_CHUNKED_LENGTH_loop]. rewrite (bd_rq_copy_byte c a _ Hr Hd'). rewrite Hna. reflexivity.
Qed.
End Req.
