(* C06, part B (request side): one identity step, the identity body under every chunking, chunk-length line
   assembly is chunking-invariant, chunked decode(encode) with the exact length accounting. The statements are
   about the REAL loop body rq_iter of htp_connp_req_data iterated over the TCP chunks (bd_rq_reach). *)
Require Import Htp.Model.MConnTypes Htp.Model.MBstr Htp.Model.MTxCommon Htp.Model.MReqLine Htp.Model.MTxReq Htp.Model.MReq.
Require Import Htp.Spec.SBody Htp.Proof.PBody.
Local Open Scope Z_scope.

(* the unread part of the current chunk *)
Definition bd_rq_rest (c : connp) : bytes :=
  match k_data (c_in c) with Some d => skipn (k_read (c_in c)) d | None => [] end.

(* what the state functions rely on between two segments of a body *)
Record bd_rq_inv (i : nat) (c : connp) : Prop := mk_bd_rq_inv {
  bq_tx : c_in_tx c = Some i;
  bq_live : exists t, tx_slot c i = Some t /\ t_hook_request_body t = 0%nat;
  bq_rcv : k_receiver_hook (c_in c) = None;
  bq_hdr : k_header (c_in c) = None;
  bq_status : (c_in_status c =? c_HTP_STREAM_TUNNEL) = false;
  bq_data : exists d, k_data (c_in c) = Some d /\ k_len (c_in c) = length d /\ (k_read (c_in c) <= length d)%nat
}.

Lemma bd_skipn_skipn {B} a b (l : list B) : skipn a (skipn b l) = skipn (b + a) l.
Proof. revert l; induction b as [|b IH]; intros l; [reflexivity|]. destruct l; [destruct a; reflexivity|]. cbn. apply IH. Qed.

(* ---- delivering the next dd bytes of the chunk to the callbacks (the common part of IDENTITY / CHUNKED_DATA) ---- *)
Definition bd_rq_deliver (i : nat) (t : tx) (dd : bytes) (c : connp) : connp :=
  let n := length dd in
  let t1 := t <| t_request_entity_len ::= Z.add (Z.of_nat n) |> in
  let c1 := bd_set_tx i t1 c in
  let c2 := emit (bump_hook c1 H_REQUEST_BODY_DATA) (mkev H_REQUEST_BODY_DATA i (Some dd) false None) in
  let c3 := rq_set_in (fun k => k <| k_read ::= Nat.add n |> <| k_consume ::= Nat.add n |>) c2 in
  bd_set_tx i (t1 <| t_request_message_len ::= Z.add (Z.of_nat n) |>) c3.

Section Req.
Variable cb : cb_oracle.
Variable g : cfg.
Hypothesis cb_ok : forall n, cb H_REQUEST_BODY_DATA n = CB_OK.

Lemma bd_rq_consume_body i t c dd rest :
  c_in_tx c = Some i -> tx_slot c i = Some t -> t_hook_request_body t = 0%nat ->
  (exists d, k_data (c_in c) = Some d /\ skipn (k_read (c_in c)) d = dd ++ rest /\ (k_read (c_in c) <= length d)%nat) ->
  dd <> [] ->
  rq_consume_body cb (length dd) c = (ST_OK, bd_rq_deliver i t dd c).
Proof.
  intros Hi Hl Hh (d & Hd & Hs & Hr) Hne.
  unfold rq_consume_body. rewrite Hd.
  assert (Hlen : (k_read (c_in c) + length dd <= length d)%nat).
  { assert (length (skipn (k_read (c_in c)) d) = length (dd ++ rest)) by (rewrite Hs; reflexivity).
    rewrite skipn_length, app_length in H. lia. }
  unfold rq_slice. rewrite Hd.
  apply Nat.leb_le in Hlen. rewrite Hlen.
  replace (k_read (c_in c) + length dd - k_read (c_in c))%nat with (length dd) by lia.
  rewrite Hs. rewrite firstn_app, Nat.sub_diag, firstn_all. cbn [firstn]. rewrite app_nil_r.
  unfold rq_with_tx. rewrite Hi.
  unfold tx_req_process_body_data_ex. rewrite (bd_tx_upd_eq _ _ _ _ Hl).
  set (t1 := t <| t_request_entity_len ::= _ |>). set (c1 := bd_set_tx i t1 c).
  assert (Hl1 : tx_slot c1 i = Some t1) by (apply (bd_slot_set _ _ _ _ Hl)).
  unfold req_run_hook_body_data. destruct dd as [|b dd]; [congruence|].
  change (c_in_tx c1) with (c_in_tx c). rewrite Hi.
  rewrite (bd_tx_get_live _ _ _ Hl1). change (t_hook_request_body t1) with (t_hook_request_body t). rewrite Hh.
  cbn [run_tx_hooks]. unfold run_data_hook, run_hook_ex. rewrite cb_ok.
  unfold rq_tx_upd.
  set (c2 := emit _ _).
  set (c3 := rq_set_in _ c2).
  change (c_in_tx c3) with (c_in_tx c). rewrite Hi.
  assert (Hl3 : tx_slot c3 i = Some t1).
  { rewrite <- Hl1. apply bd_slot_ext; reflexivity. }
  rewrite (bd_tx_upd_eq _ _ _ _ Hl3). reflexivity.
Qed.

(* projections of the result *)
Lemma bd_rq_deliver_events i t dd c :
  c_events (bd_rq_deliver i t dd c) = mkev H_REQUEST_BODY_DATA i (Some dd) false None :: c_events c.
Proof. reflexivity. Qed.
Lemma bd_rq_deliver_slot i t dd c : tx_slot c i = Some t ->
  tx_slot (bd_rq_deliver i t dd c) i =
    Some (t <| t_request_entity_len ::= Z.add (Z.of_nat (length dd)) |> <| t_request_message_len ::= Z.add (Z.of_nat (length dd)) |>).
Proof.
  intros Hl. unfold bd_rq_deliver. cbv zeta.
  set (t1 := t <| t_request_entity_len ::= _ |>).
  eapply bd_slot_set. erewrite bd_slot_ext; [apply (bd_slot_set _ _ _ t1 Hl)|reflexivity|reflexivity].
Qed.
Lemma bd_rq_deliver_in i t dd c :
  c_in (bd_rq_deliver i t dd c) = (c_in c) <| k_read ::= Nat.add (length dd) |> <| k_consume ::= Nat.add (length dd) |>.
Proof. reflexivity. Qed.

Lemma bd_rq_deliver_inv i t dd rest c :
  bd_rq_inv i c -> tx_slot c i = Some t -> bd_rq_rest c = dd ++ rest ->
  bd_rq_inv i (bd_rq_deliver i t dd c) /\ bd_rq_rest (bd_rq_deliver i t dd c) = rest.
Proof.
  intros [Hi (t0 & Hl0 & Hh) Hr Hhd Hst (d & Hd & Hlen & Hrd)] Hl Hrest.
  rewrite Hl in Hl0. inversion Hl0; subst t0.
  unfold bd_rq_rest in Hrest. rewrite Hd in Hrest.
  assert (Hle : (k_read (c_in c) + length dd <= length d)%nat).
  { assert (length (skipn (k_read (c_in c)) d) = length (dd ++ rest)) by (rewrite Hrest; reflexivity).
    rewrite skipn_length, app_length in H. lia. }
  split.
  - constructor; try assumption.
    + eexists. split; [apply (bd_rq_deliver_slot _ _ _ _ Hl)|]. exact Hh.
    + exists d. rewrite bd_rq_deliver_in. cbn. repeat split; try assumption. lia.
  - unfold bd_rq_rest. rewrite bd_rq_deliver_in. cbn. rewrite Hd.
    rewrite Nat.add_comm. rewrite <- bd_skipn_skipn. rewrite Hrest.
    rewrite skipn_app, Nat.sub_diag, skipn_all. reflexivity.
Qed.

Lemma bd_rq_bytes_to_consume c n :
  (exists d, k_data (c_in c) = Some d /\ k_len (c_in c) = length d /\ (k_read (c_in c) <= length d)%nat) -> 0 < n ->
  rq_bytes_to_consume c n = length (firstn (Z.to_nat n) (bd_rq_rest c)).
Proof.
  intros (d & Hd & Hl & Hr) Hn. unfold rq_bytes_to_consume, bd_rq_rest. rewrite Hd, Hl.
  rewrite firstn_length, skipn_length.
  destruct (n <? 0) eqn:E1; [apply Z.ltb_lt in E1; lia|]. cbn [orb].
  destruct (Z.of_nat (length d - k_read (c_in c)) <? n) eqn:E2;
    [apply Z.ltb_lt in E2|apply Z.ltb_ge in E2];
    destruct (Nat.min_spec (Z.to_nat n) (length d - k_read (c_in c))) as [[A B]|[A B]]; rewrite B; lia.
Qed.

(* ================= (1) one identity step ================= *)
Theorem bd_rq_identity_step i t c :
  bd_rq_inv i c -> tx_slot c i = Some t -> 0 < c_in_body_data_left c ->
  let n := c_in_body_data_left c in
  let dd := firstn (Z.to_nat n) (bd_rq_rest c) in
  REQ_BODY_IDENTITY_fn cb c =
    if (length dd =? 0)%nat then (ST_DATA, c)
    else let c' := (bd_rq_deliver i t dd c) <| c_in_body_data_left ::= (fun l => l - Z.of_nat (length dd)) |> in
         if n - Z.of_nat (length dd) =? 0 then (ST_OK, c' <| c_in_state := REQ_FINALIZE |>) else (ST_DATA, c').
Proof.
  intros Inv Hl Hn n dd. subst n dd. destruct Inv as [Hi (t0 & Hl0 & Hh) Hr Hhd Hst Hdat].
  rewrite Hl in Hl0. inversion Hl0; subst t0.
  unfold REQ_BODY_IDENTITY_fn. rewrite (bd_rq_bytes_to_consume c _ Hdat Hn).
  set (n := c_in_body_data_left c) in *. set (dd := firstn (Z.to_nat n) (bd_rq_rest c)).
  destruct (length dd =? 0)%nat eqn:E0; [reflexivity|].
  apply Nat.eqb_neq in E0.
  destruct Hdat as (d & Hd & Hlen & Hrd).
  rewrite (bd_rq_consume_body i t c dd (skipn (Z.to_nat n) (bd_rq_rest c))); auto.
  - exists d. split; [exact Hd|]. split; [|exact Hrd]. subst dd. unfold bd_rq_rest. rewrite Hd. symmetry. apply firstn_skipn.
  - intros ->. apply E0. reflexivity.
Qed.

(* the same step of REQ_BODY_CHUNKED_DATA *)
Theorem bd_rq_chunked_data_step i t c :
  bd_rq_inv i c -> tx_slot c i = Some t -> 0 < c_in_chunked_length c ->
  let n := c_in_chunked_length c in
  let dd := firstn (Z.to_nat n) (bd_rq_rest c) in
  REQ_BODY_CHUNKED_DATA_fn cb c =
    if (length dd =? 0)%nat then (ST_DATA, c)
    else let c' := (bd_rq_deliver i t dd c) <| c_in_chunked_length ::= (fun l => l - Z.of_nat (length dd)) |> in
         if n - Z.of_nat (length dd) =? 0 then (ST_OK, c' <| c_in_state := REQ_BODY_CHUNKED_DATA_END |>) else (ST_DATA, c').
Proof.
  intros Inv Hl Hn n dd. subst n dd. destruct Inv as [Hi (t0 & Hl0 & Hh) Hr Hhd Hst Hdat].
  rewrite Hl in Hl0. inversion Hl0; subst t0.
  unfold REQ_BODY_CHUNKED_DATA_fn. rewrite (bd_rq_bytes_to_consume c _ Hdat Hn).
  set (n := c_in_chunked_length c) in *. set (dd := firstn (Z.to_nat n) (bd_rq_rest c)).
  destruct (length dd =? 0)%nat eqn:E0; [reflexivity|].
  apply Nat.eqb_neq in E0.
  destruct Hdat as (d & Hd & Hlen & Hrd).
  rewrite (bd_rq_consume_body i t c dd (skipn (Z.to_nat n) (bd_rq_rest c))); auto.
  - exists d. split; [exact Hd|]. split; [|exact Hrd]. subst dd. unfold bd_rq_rest. rewrite Hd. symmetry. apply firstn_skipn.
  - intros ->. apply E0. reflexivity.
Qed.

(* ---- the same steps with the result ABSTRACT (what the induction over the TCP chunks uses) ---- *)
Definition bd_rq_clean (c : connp) : Prop := k_consume (c_in c) = k_read (c_in c) /\ k_buf (c_in c) = None.
(* everything the invariant, the position and the observations depend on *)
Definition bd_rq_eqv (a b : connp) : Prop :=
  c_in a = c_in b /\ c_in_tx a = c_in_tx b /\ c_txs a = c_txs b /\ c_txs_shifted a = c_txs_shifted b /\
  c_in_status a = c_in_status b /\ c_events a = c_events b.
Lemma bd_eqv_refl a : bd_rq_eqv a a. Proof. repeat split. Qed.
Lemma bd_eqv_slot a b i : bd_rq_eqv a b -> tx_slot b i = tx_slot a i.
Proof. intros (_ & _ & A & B & _). symmetry. apply bd_slot_ext; assumption. Qed.
Lemma bd_eqv_inv a b i : bd_rq_eqv a b -> bd_rq_inv i a -> bd_rq_inv i b.
Proof.
  intros E [A (t & B1 & B2) C D F G]. pose proof (bd_eqv_slot a b i E) as Hs. destruct E as (E1 & E2 & E3 & E4 & E5 & E6).
  constructor; rewrite <- ?E1, <- ?E2, <- ?E5; try assumption. exists t. rewrite Hs. auto.
Qed.
Lemma bd_eqv_rest a b : bd_rq_eqv a b -> bd_rq_rest b = bd_rq_rest a.
Proof. intros (E1 & _). unfold bd_rq_rest. rewrite E1. reflexivity. Qed.
Lemma bd_eqv_clean a b : bd_rq_eqv a b -> bd_rq_clean a -> bd_rq_clean b.
Proof. intros (E1 & _). unfold bd_rq_clean. rewrite E1. auto. Qed.
Lemma bd_eqv_events a b : bd_rq_eqv a b -> c_events b = c_events a.
Proof. intros (_ & _ & _ & _ & _ & E). auto. Qed.

Record bd_rq_stepped (i : nat) (t : tx) (dd : bytes) (c c' : connp) : Prop := mk_bd_rq_stepped {
  sp_inv : bd_rq_inv i c';
  sp_rest : forall rest, bd_rq_rest c = dd ++ rest -> bd_rq_rest c' = rest;
  sp_clean : bd_rq_clean c -> bd_rq_clean c';
  sp_events : c_events c' = mkev H_REQUEST_BODY_DATA i (Some dd) false None :: c_events c;
  sp_slot : tx_slot c' i = Some (t <| t_request_entity_len ::= Z.add (Z.of_nat (length dd)) |>
                                   <| t_request_message_len ::= Z.add (Z.of_nat (length dd)) |>)
}.
Lemma bd_stepped_eqv i t dd c c' c'' : bd_rq_eqv c' c'' -> bd_rq_stepped i t dd c c' -> bd_rq_stepped i t dd c c''.
Proof.
  intros E [A B C D F]. constructor.
  - eapply bd_eqv_inv; eauto.
  - intros rest H. rewrite (bd_eqv_rest _ _ E). auto.
  - intros H. eapply bd_eqv_clean; eauto.
  - rewrite (bd_eqv_events _ _ E). exact D.
  - rewrite (bd_eqv_slot _ _ i E). exact F.
Qed.
Lemma bd_rq_deliver_stepped i t dd rest c :
  bd_rq_inv i c -> tx_slot c i = Some t -> bd_rq_rest c = dd ++ rest -> bd_rq_stepped i t dd c (bd_rq_deliver i t dd c).
Proof.
  intros Inv Hl Hr. destruct (bd_rq_deliver_inv i t dd rest c Inv Hl Hr) as (I1 & R1). constructor.
  - exact I1.
  - intros rest' H. rewrite Hr in H. apply app_inv_head in H. subst rest'. exact R1.
  - intros (A & B). split; rewrite bd_rq_deliver_in; cbn; [lia|exact B].
  - reflexivity.
  - apply bd_rq_deliver_slot. exact Hl.
Qed.
(* field-setter frames, on an abstract parser *)
Lemma bd_eqv_set_left c f : bd_rq_eqv c (c <| c_in_body_data_left ::= f |>). Proof. repeat split. Qed.
Lemma bd_eqv_set_chunked c f : bd_rq_eqv c (c <| c_in_chunked_length ::= f |>). Proof. repeat split. Qed.
Lemma bd_eqv_set_state c s : bd_rq_eqv c (c <| c_in_state := s |>). Proof. repeat split. Qed.
Lemma bd_eqv_trans a b c : bd_rq_eqv a b -> bd_rq_eqv b c -> bd_rq_eqv a c.
Proof. unfold bd_rq_eqv. intuition congruence. Qed.

Lemma bd_rq_identity_step_abs i t c :
  bd_rq_inv i c -> tx_slot c i = Some t -> 0 < c_in_body_data_left c ->
  let n := c_in_body_data_left c in
  let dd := firstn (Z.to_nat n) (bd_rq_rest c) in
  (dd = [] -> REQ_BODY_IDENTITY_fn cb c = (ST_DATA, c)) /\
  (dd <> [] -> exists c',
     REQ_BODY_IDENTITY_fn cb c = ((if n - Z.of_nat (length dd) =? 0 then ST_OK else ST_DATA), c') /\
     bd_rq_stepped i t dd c c' /\ c_in_body_data_left c' = n - Z.of_nat (length dd) /\
     c_in_state c' = (if n - Z.of_nat (length dd) =? 0 then REQ_FINALIZE else c_in_state c) /\
     c_in_chunked_length c' = c_in_chunked_length c).
Proof.
  intros Inv Hl Hn n dd. pose proof (bd_rq_identity_step i t c Inv Hl Hn) as H. cbv zeta in H. fold n in H. fold dd in H.
  split.
  - intros E. rewrite E in H. exact H.
  - intros E. assert (E0 : (length dd =? 0)%nat = false) by (apply Nat.eqb_neq; destruct dd; [congruence|discriminate]).
    rewrite E0 in H.
    assert (Hst : bd_rq_stepped i t dd c (bd_rq_deliver i t dd c)).
    { apply (bd_rq_deliver_stepped i t dd (skipn (Z.to_nat n) (bd_rq_rest c))); auto. symmetry. apply firstn_skipn. }
    set (X := bd_rq_deliver i t dd c) in *.
    assert (HX : c_in_body_data_left X = n /\ c_in_state X = c_in_state c /\ c_in_chunked_length X = c_in_chunked_length c) by (repeat split).
    clearbody X. destruct HX as (X1 & X2 & X3).
    destruct (n - Z.of_nat (length dd) =? 0); eexists; (split; [exact H|]); (split; [|split; [|split]]).
    + eapply bd_stepped_eqv; [|exact Hst]. eapply bd_eqv_trans; [apply bd_eqv_set_left|apply bd_eqv_set_state].
    + cbn. rewrite X1. reflexivity.
    + reflexivity.
    + cbn. exact X3.
    + eapply bd_stepped_eqv; [|exact Hst]. apply bd_eqv_set_left.
    + cbn. rewrite X1. reflexivity.
    + cbn. exact X2.
    + cbn. exact X3.
Qed.
Lemma bd_rq_chunked_data_step_abs i t c :
  bd_rq_inv i c -> tx_slot c i = Some t -> 0 < c_in_chunked_length c ->
  let n := c_in_chunked_length c in
  let dd := firstn (Z.to_nat n) (bd_rq_rest c) in
  (dd = [] -> REQ_BODY_CHUNKED_DATA_fn cb c = (ST_DATA, c)) /\
  (dd <> [] -> exists c',
     REQ_BODY_CHUNKED_DATA_fn cb c = ((if n - Z.of_nat (length dd) =? 0 then ST_OK else ST_DATA), c') /\
     bd_rq_stepped i t dd c c' /\ c_in_chunked_length c' = n - Z.of_nat (length dd) /\
     c_in_state c' = (if n - Z.of_nat (length dd) =? 0 then REQ_BODY_CHUNKED_DATA_END else c_in_state c) /\
     c_in_body_data_left c' = c_in_body_data_left c).
Proof.
  intros Inv Hl Hn n dd. pose proof (bd_rq_chunked_data_step i t c Inv Hl Hn) as H. cbv zeta in H. fold n in H. fold dd in H.
  split.
  - intros E. rewrite E in H. exact H.
  - intros E. assert (E0 : (length dd =? 0)%nat = false) by (apply Nat.eqb_neq; destruct dd; [congruence|discriminate]).
    rewrite E0 in H.
    assert (Hst : bd_rq_stepped i t dd c (bd_rq_deliver i t dd c)).
    { apply (bd_rq_deliver_stepped i t dd (skipn (Z.to_nat n) (bd_rq_rest c))); auto. symmetry. apply firstn_skipn. }
    set (X := bd_rq_deliver i t dd c) in *.
    assert (HX : c_in_chunked_length X = n /\ c_in_state X = c_in_state c /\ c_in_body_data_left X = c_in_body_data_left c) by (repeat split).
    clearbody X. destruct HX as (X1 & X2 & X3).
    destruct (n - Z.of_nat (length dd) =? 0); eexists; (split; [exact H|]); (split; [|split; [|split]]).
    + eapply bd_stepped_eqv; [|exact Hst]. eapply bd_eqv_trans; [apply bd_eqv_set_chunked|apply bd_eqv_set_state].
    + cbn. rewrite X1. reflexivity.
    + reflexivity.
    + cbn. exact X3.
    + eapply bd_stepped_eqv; [|exact Hst]. apply bd_eqv_set_chunked.
    + cbn. rewrite X1. reflexivity.
    + cbn. exact X2.
    + cbn. exact X3.
Qed.
End Req.

(* the executable forms of the starting invariant (Spec/SBody.v) are sound *)
Lemma bd_rq_invb_sound i c : bd_rq_invb i c = true -> bd_rq_inv i c.
Proof.
  unfold bd_rq_invb. intros H. repeat (apply andb_true_iff in H; destruct H as (H & ?)).
  destruct (c_in_tx c) as [j|] eqn:E1; [|discriminate]. apply Nat.eqb_eq in H. subst j.
  destruct (tx_slot c i) as [t|] eqn:E2; [|discriminate]. apply Nat.eqb_eq in H4.
  destruct (k_receiver_hook (c_in c)) eqn:E3; [discriminate|].
  destruct (k_header (c_in c)) eqn:E4; [discriminate|].
  destruct (k_data (c_in c)) as [d|] eqn:E5; [|discriminate].
  apply andb_true_iff in H0. destruct H0 as (A & B). apply Nat.eqb_eq in A. apply Nat.leb_le in B.
  apply negb_true_iff in H1.
  constructor; auto. exists t; auto. exists d; auto.
Qed.
Lemma bd_rq_cleanb_sound c : bd_rq_cleanb c = true -> bd_rq_clean c.
Proof.
  unfold bd_rq_cleanb, bd_rq_clean. intros H. apply andb_true_iff in H. destruct H as (A & B). apply Nat.eqb_eq in A.
  destruct (k_buf (c_in c)); [discriminate|]. auto.
Qed.
